/-
  C12 — lemmas about the crash model of the store (`Model/StoreCrash.lean`).
-/
import OllamaVerif.Model.StoreCrash
namespace OllamaVerif.StoreCrash
open OllamaVerif

/-! ## the finite map -/

theorem get_filterKeys (keep : Path → Bool) (st : Store) (p : Path) :
    get (filterKeys keep st) p = if keep p then get st p else none := by
  induction st with
  | nil => simp [filterKeys, get]
  | cons e rest ih =>
    obtain ⟨q, c⟩ := e
    simp only [filterKeys, List.filter_cons] at ih ⊢
    by_cases hk : keep q
    · simp only [hk, ↓reduceIte, get]
      by_cases hq : q = p
      · subst hq; simp [hk]
      · simp only [hq, ↓reduceIte]; exact ih
    · simp only [hk, Bool.false_eq_true, ↓reduceIte, get]
      by_cases hq : q = p
      · subst hq; simp only [hk, Bool.false_eq_true, ↓reduceIte] at ih ⊢; exact ih
      · simp only [hq, ↓reduceIte]; exact ih

theorem get_del (st : Store) (p q : Path) : get (del st p) q = if q = p then none else get st q := by
  unfold del
  rw [get_filterKeys]
  by_cases h : q = p <;> simp [h]

theorem get_set (st : Store) (p q : Path) (c : Content) :
    get (set st p c) q = if q = p then some c else get st q := by
  unfold set
  simp only [get]
  by_cases h : p = q
  · subst h; simp
  · have h' : ¬ q = p := fun e => h e.symm
    simp [h, h', get_del]

theorem get_some_mem {st : Store} {p : Path} {c : Content} (h : get st p = some c) : (p, c) ∈ st := by
  induction st with
  | nil => simp [get] at h
  | cons e rest ih =>
    obtain ⟨q, c'⟩ := e
    simp only [get] at h
    by_cases hq : q = p
    · subst hq; simp only [↓reduceIte, Option.some.injEq] at h; subst h; simp
    · simp only [hq, ↓reduceIte] at h; exact List.mem_cons_of_mem _ (ih h)

theorem get_isSome_of_mem {st : Store} {p : Path} {c : Content} (h : (p, c) ∈ st) : (get st p).isSome := by
  induction st with
  | nil => simp at h
  | cons e rest ih =>
    obtain ⟨q, c'⟩ := e
    simp only [get]
    by_cases hq : q = p
    · simp [hq]
    · simp only [hq, ↓reduceIte]
      rcases List.mem_cons.mp h with h | h
      · injection h with h1 _; exact absurd h1.symm hq
      · exact ih h

/-! ## reading -/

theorem mem_manNames {st : Store} {n : Name} : n ∈ manNames st ↔ ∃ c, (Path.man n, c) ∈ st := by
  unfold manNames
  simp only [List.mem_filterMap]
  constructor
  · rintro ⟨⟨p, c⟩, hmem, h⟩
    cases p <;> simp at h
    subst h; exact ⟨c, hmem⟩
  · rintro ⟨c, h⟩
    exact ⟨(.man n, c), h, rfl⟩

theorem readable_eq_some {st : Store} {n : Name} {m : Man} :
    readable st n = some m ↔ get st (.man n) = some (.man m) := by
  unfold readable
  split
  · rename_i m' h; simp [h]
  · rename_i h
    constructor
    · intro h'; cases h'
    · intro h'; exact absurd h' (h m)

theorem referenced_iff {st : Store} {d : Digest} :
    referenced st d = true ↔ ∃ n m, readable st n = some m ∧ ∃ l ∈ m.all, l.digest = d := by
  unfold referenced
  simp only [List.any_eq_true]
  constructor
  · rintro ⟨n, _, h⟩
    cases hr : readable st n with
    | none => simp [hr] at h
    | some m =>
      simp only [hr, List.any_eq_true, beq_iff_eq] at h
      exact ⟨n, m, hr, h⟩
  · rintro ⟨n, m, hr, l, hl, hd⟩
    refine ⟨n, ?_, ?_⟩
    · exact mem_manNames.mpr ⟨_, get_some_mem (readable_eq_some.mp hr)⟩
    · simp only [hr, List.any_eq_true, beq_iff_eq]; exact ⟨l, hl, hd⟩

theorem referenced_false {st : Store} {d : Digest} (h : referenced st d = false) :
    ∀ n m, readable st n = some m → ∀ l ∈ m.all, l.digest ≠ d := by
  intro n m hr l hl hd
  have : referenced st d = true := referenced_iff.mpr ⟨n, m, hr, l, hl, hd⟩
  simp [h] at this

theorem allReadable_iff {st : Store} :
    allReadable st = true ↔ ∀ n c, get st (.man n) = some c → ∃ m, c = .man m := by
  unfold allReadable
  simp only [List.all_eq_true]
  constructor
  · intro h n c hg
    have := h n (mem_manNames.mpr ⟨c, get_some_mem hg⟩)
    unfold readable at this
    rw [hg] at this
    cases c <;> simp at this
    exact ⟨_, rfl⟩
  · intro h n hn
    obtain ⟨c, hc⟩ := mem_manNames.mp hn
    have hs := get_isSome_of_mem hc
    cases hg : get st (.man n) with
    | none => simp [hg] at hs
    | some c' =>
      obtain ⟨m, rfl⟩ := h n c' hg
      simp [readable, hg]

/-! ## invariant, local safety condition of an effect -/

def Path.isScratch : Path → Bool
  | .temp _ | .pfile _ | .part _ _ => true
  | _ => false

/-- every blob file holds bytes that hash to its name (unreferenced ones too: cache hits and
"using existing layer" trust them) -/
def BlobInv (hash : Bytes → Digest) (st : Store) : Prop :=
  ∀ d c, get st (.blob d) = some c → ∃ bs, c = .raw bs ∧ hash bs = d

/-- every layer (and the config) of every READABLE manifest is present -/
def RefInv (st : Store) : Prop :=
  ∀ n m, readable st n = some m → ∀ l ∈ m.all, (get st (.blob l.digest)).isSome

/-- the store invariant: a torn manifest is allowed; what is readable is complete and intact -/
def Inv (hash : Bytes → Digest) (st : Store) : Prop := BlobInv hash st ∧ RefInv st

/-- the property's first clause, spelled out -/
def NameInv (hash : Bytes → Digest) (st : Store) : Prop :=
  ∀ n m, readable st n = some m → ∀ l ∈ m.all,
    ∃ bs, get st (.blob l.digest) = some (.raw bs) ∧ hash bs = l.digest

theorem Inv.nameInv {hash : Bytes → Digest} {st : Store} (h : Inv hash st) : NameInv hash st := by
  intro n m hr l hl
  have hp := h.2 n m hr l hl
  cases hg : get st (.blob l.digest) with
  | none => simp [hg] at hp
  | some c =>
    obtain ⟨bs, rfl, hh⟩ := h.1 _ _ hg
    exact ⟨bs, rfl, hh⟩

/-- local condition under which an effect keeps the invariant -/
def EffOK (hash : Bytes → Digest) (st : Store) : Effect → Prop
  | .mk p => ∀ d, p ≠ .blob d
  | .touch p => p.isScratch = true
  | .app p _ => p.isScratch = true
  | .pw p _ _ => p.isScratch = true
  | .ftr p _ => p.isScratch = true
  | .put p c => (p.isScratch = true) ∨
      (∃ n m, p = .man n ∧ c = .man m ∧ ∀ l ∈ m.all, (get st (.blob l.digest)).isSome)
  | .cp src dst => (∃ a, src = .man a) ∧ (∃ b, dst = .man b)
  | .mv src dst => src.isScratch = true ∧
      ((∃ d, dst = .blob d ∧ get st (.blob d) = none ∧ ∃ bs, get st src = some (.raw bs) ∧ hash bs = d) ∨
       dst.isScratch = true ∨
       (∃ n, dst = .man n ∧ ∀ m, get st src = some (.man m) → ∀ l ∈ m.all, (get st (.blob l.digest)).isSome))
  | .chmod _ => True
  | .rm p => p.isScratch = true ∨ (∃ n, p = .man n) ∨ (∃ d, p = .blob d ∧ referenced st d = false)

/-- paths an effect may change -/
def writes : Effect → List Path
  | .mk p | .touch p | .app p _ | .pw p _ _ | .ftr p _ | .put p _ | .rm p => [p]
  | .cp _ dst => [dst]
  | .mv src dst => [src, dst]
  | .chmod _ => []

theorem get_apply_of_not_written {e : Effect} {st : Store} {q : Path} (h : q ∉ writes e) :
    get (apply e st) q = get st q := by
  cases e <;> simp only [writes, List.mem_cons, List.not_mem_nil, or_false, not_or] at h <;>
    simp only [apply]
  case mk p => simp [get_set, h]
  case touch p => split <;> simp [get_set, h]
  case app p bs => split <;> simp [get_set, h]
  case pw p off bs => split <;> simp [get_set, h]
  case ftr p n => split <;> simp [get_set, h]
  case put p c => simp [get_set, h]
  case cp s d => split <;> simp [get_set, h]
  case mv s d => split <;> simp [get_set, get_del, h.1, h.2]
  case rm p => simp [get_del, h]

theorem scratch_ne_blob {p : Path} (h : p.isScratch = true) (d : Digest) : Path.blob d ≠ p := by
  intro e; subst e; simp [Path.isScratch] at h

theorem scratch_ne_man {p : Path} (h : p.isScratch = true) (n : Name) : Path.man n ≠ p := by
  intro e; subst e; simp [Path.isScratch] at h

/-- an effect on a scratch path changes no blob and no manifest -/
theorem get_apply_scratch {e : Effect} {st : Store} {q : Path}
    (hw : ∀ p ∈ writes e, p.isScratch = true) (hq : q.isScratch = false) :
    get (apply e st) q = get st q := by
  apply get_apply_of_not_written
  intro hmem
  have := hw q hmem
  simp [hq] at this

/-- what an OK effect does to a blob path -/
theorem blob_after {hash : Bytes → Digest} {e : Effect} {st : Store} (hok : EffOK hash st e) (d : Digest) :
    get (apply e st) (.blob d) = get st (.blob d) ∨
    (get st (.blob d) = none ∧ ∃ bs, get (apply e st) (.blob d) = some (.raw bs) ∧ hash bs = d) ∨
    (get (apply e st) (.blob d) = none ∧ referenced st d = false) := by
  cases e with
  | mk p => left; apply get_apply_of_not_written; simp [writes]; exact (hok d).symm
  | touch p => left; apply get_apply_of_not_written; simp [writes]; exact scratch_ne_blob hok d
  | app p bs => left; apply get_apply_of_not_written; simp [writes]; exact scratch_ne_blob hok d
  | pw p off bs => left; apply get_apply_of_not_written; simp [writes]; exact scratch_ne_blob hok d
  | ftr p n => left; apply get_apply_of_not_written; simp [writes]; exact scratch_ne_blob hok d
  | put p c =>
    left; apply get_apply_of_not_written; simp [writes]
    rcases hok with h | ⟨n, m, rfl, _, _⟩
    · exact scratch_ne_blob h d
    · simp
  | cp s t =>
    left; apply get_apply_of_not_written; simp [writes]
    obtain ⟨_, b, rfl⟩ := hok; simp
  | chmod p => left; rfl
  | mv s t =>
    obtain ⟨hs, ⟨d', rfl, hnone, bs, hsrc, hh⟩ | ht | ⟨n, rfl, _⟩⟩ := hok
    · by_cases hd : d = d'
      · subst hd
        right; left
        refine ⟨hnone, bs, ?_, hh⟩
        simp [apply, hsrc, get_set]
      · left; apply get_apply_of_not_written; simp [writes]
        exact ⟨scratch_ne_blob hs d, hd⟩
    · left; apply get_apply_of_not_written; simp [writes]
      exact ⟨scratch_ne_blob hs d, scratch_ne_blob ht d⟩
    · left; apply get_apply_of_not_written; simp [writes]
      exact scratch_ne_blob hs d
  | rm p =>
    rcases hok with h | ⟨n, rfl⟩ | ⟨d', rfl, hr⟩
    · left; apply get_apply_of_not_written; simp [writes]; exact scratch_ne_blob h d
    · left; apply get_apply_of_not_written; simp [writes]
    · by_cases hd : d = d'
      · subst hd; right; right; exact ⟨by simp [apply, get_del], hr⟩
      · left; apply get_apply_of_not_written; simp [writes]; exact hd

/-- what an OK effect does to a manifest path -/
theorem man_after {hash : Bytes → Digest} {e : Effect} {st : Store} (hok : EffOK hash st e) (n : Name) (m : Man)
    (h : readable (apply e st) n = some m) :
    readable st n = some m ∨
    (e = .put (.man n) (.man m) ∧ ∀ l ∈ m.all, (get st (.blob l.digest)).isSome) ∨
    (∃ a, e = .cp (.man a) (.man n) ∧ readable st a = some m) ∨
    (∃ s, e = .mv s (.man n) ∧ ∀ l ∈ m.all, (get st (.blob l.digest)).isSome) := by
  rw [readable_eq_some] at h
  have keep : get (apply e st) (.man n) = get st (.man n) → readable st n = some m := by
    intro hk; rw [readable_eq_some, ← hk]; exact h
  cases e with
  | mk p =>
    by_cases hp : p = .man n
    · subst hp; simp [apply, get_set] at h
    · left; apply keep; apply get_apply_of_not_written; simp [writes]; exact fun e => hp e.symm
  | touch p => left; apply keep; apply get_apply_of_not_written; simp [writes]; exact scratch_ne_man hok n
  | app p bs => left; apply keep; apply get_apply_of_not_written; simp [writes]; exact scratch_ne_man hok n
  | pw p off bs => left; apply keep; apply get_apply_of_not_written; simp [writes]; exact scratch_ne_man hok n
  | ftr p k => left; apply keep; apply get_apply_of_not_written; simp [writes]; exact scratch_ne_man hok n
  | put p c =>
    rcases hok with hs | ⟨n', m', rfl, rfl, hl⟩
    · left; apply keep; apply get_apply_of_not_written; simp [writes]; exact scratch_ne_man hs n
    · by_cases hn : n = n'
      · subst hn
        simp [apply, get_set] at h
        subst h
        right; left; exact ⟨rfl, hl⟩
      · left; apply keep; apply get_apply_of_not_written; simp [writes]; exact hn
  | cp s t =>
    obtain ⟨⟨a, rfl⟩, b, rfl⟩ := hok
    by_cases hn : n = b
    · subst hn
      simp only [apply] at h
      cases hs : get st (.man a) with
      | none =>
        simp only [hs] at h
        left; rw [readable_eq_some]; exact h
      | some c =>
        simp only [hs, get_set, ↓reduceIte, Option.some.injEq] at h
        subst h
        right; right; left
        exact ⟨a, rfl, readable_eq_some.mpr hs⟩
    · left; apply keep; apply get_apply_of_not_written; simp [writes]; exact hn
  | chmod p => left; exact keep rfl
  | mv s t =>
    obtain ⟨hs, ⟨d', rfl, _⟩ | ht | ⟨n', rfl, hl⟩⟩ := hok
    · left; apply keep; apply get_apply_of_not_written; simp [writes]; exact scratch_ne_man hs n
    · left; apply keep; apply get_apply_of_not_written; simp [writes]
      exact ⟨scratch_ne_man hs n, scratch_ne_man ht n⟩
    · by_cases hn : n = n'
      · subst hn
        simp only [apply] at h
        cases hsrc : get st s with
        | none => simp only [hsrc] at h; left; rw [readable_eq_some]; exact h
        | some c =>
          simp only [hsrc, get_set, ↓reduceIte, Option.some.injEq] at h
          subst h
          right; right; right
          exact ⟨s, rfl, hl m hsrc⟩
      · left; apply keep; apply get_apply_of_not_written; simp [writes]
        exact ⟨scratch_ne_man hs n, hn⟩
  | rm p =>
    by_cases hp : p = .man n
    · subst hp; simp [apply, get_del] at h
    · left; apply keep; apply get_apply_of_not_written; simp [writes]; exact fun e => hp e.symm


/-! ## one effect keeps the invariant -/

theorem effect_preserves_inv {hash : Bytes → Digest} {st : Store} {e : Effect}
    (hinv : Inv hash st) (hok : EffOK hash st e) : Inv hash (apply e st) := by
  obtain ⟨hb, hr⟩ := hinv
  constructor
  · intro d c hg
    rcases blob_after hok d with h | ⟨_, bs, h, hh⟩ | ⟨h, _⟩
    · rw [h] at hg; exact hb d c hg
    · rw [h] at hg; injection hg with hg; subst hg; exact ⟨bs, rfl, hh⟩
    · rw [h] at hg; cases hg
  · intro n m hrd l hl
    -- the layer was present before the effect …
    have hbefore : (get st (.blob l.digest)).isSome ∧
        (referenced st l.digest = false → readable st n = some m → False) := by
      rcases man_after hok n m hrd with h | ⟨_, h⟩ | ⟨a, _, h⟩ | ⟨s, _, h⟩
      · exact ⟨hr n m h l hl, fun hf hr' => referenced_false hf n m hr' l hl rfl⟩
      · exact ⟨h l hl, fun hf hr' => referenced_false hf n m hr' l hl rfl⟩
      · exact ⟨hr a m h l hl, fun hf hr' => referenced_false hf n m hr' l hl rfl⟩
      · exact ⟨h l hl, fun hf hr' => referenced_false hf n m hr' l hl rfl⟩
    -- … and an OK effect removes no blob a readable manifest names
    rcases blob_after hok l.digest with h | ⟨_, bs, h, _⟩ | ⟨hnone, hf⟩
    · rw [h]; exact hbefore.1
    · rw [h]; rfl
    · exfalso
      -- the only removing effect is `rm (blob d)` with d unreferenced before; manifests are unchanged by it
      rcases man_after hok n m hrd with h | ⟨he, _⟩ | ⟨a, he, h⟩ | ⟨s, he, _⟩
      · exact hbefore.2 hf h
      · subst he
        have : get (apply (Effect.put (.man n) (.man m)) st) (.blob l.digest) = get st (.blob l.digest) := by
          apply get_apply_of_not_written; simp [writes]
        have hs := hbefore.1
        rw [this] at hnone
        simp [hnone] at hs
      · subst he
        have : get (apply (Effect.cp (.man a) (.man n)) st) (.blob l.digest) = get st (.blob l.digest) := by
          apply get_apply_of_not_written; simp [writes]
        have hs := hbefore.1
        rw [this] at hnone
        simp [hnone] at hs
      · subst he
        have hsc : s.isScratch = true := hok.1
        have : get (apply (Effect.mv s (.man n)) st) (.blob l.digest) = get st (.blob l.digest) := by
          apply get_apply_of_not_written; simp [writes]; exact scratch_ne_blob hsc _
        have hs := hbefore.1
        rw [this] at hnone
        simp [hnone] at hs

/-! ## sequences, crash prefixes -/

def SeqOK (hash : Bytes → Digest) (st : Store) : List Effect → Prop
  | [] => True
  | e :: es => EffOK hash st e ∧ SeqOK hash (apply e st) es

theorem run_append (a b : List Effect) (st : Store) : run (a ++ b) st = run b (run a st) := by
  induction a generalizing st with
  | nil => rfl
  | cons e a ih => simp [run, ih]

theorem seqOK_append {hash : Bytes → Digest} {st : Store} {a b : List Effect} :
    SeqOK hash st (a ++ b) ↔ SeqOK hash st a ∧ SeqOK hash (run a st) b := by
  induction a generalizing st with
  | nil => simp [SeqOK, run]
  | cons e a ih => simp [SeqOK, run, ih, and_assoc]

theorem seq_preserves_inv {hash : Bytes → Digest} {st : Store} {es : List Effect}
    (hinv : Inv hash st) (hok : SeqOK hash st es) : Inv hash (run es st) := by
  induction es generalizing st with
  | nil => exact hinv
  | cons e es ih => exact ih (effect_preserves_inv hinv hok.1) hok.2

theorem seqOK_take {hash : Bytes → Digest} {st : Store} {es : List Effect} (k : Nat)
    (h : SeqOK hash st es) : SeqOK hash st (es.take k) := by
  induction es generalizing st k with
  | nil => simp [SeqOK]
  | cons e es ih =>
    cases k with
    | zero => simp [SeqOK]
    | succ k => exact ⟨h.1, ih k h.2⟩

theorem effOK_cut {hash : Bytes → Digest} {st : Store} {e e' : Effect}
    (h : EffOK hash st e) (hc : CutOf e e') : EffOK hash st e' := by
  cases hc <;> exact h

theorem seqOK_crashPrefix {hash : Bytes → Digest} {st : Store} {es p : List Effect}
    (h : SeqOK hash st es) (hp : CrashPrefix es p) : SeqOK hash st p := by
  obtain ⟨k, rfl | ⟨e, e', hk, hc, rfl⟩⟩ := hp
  · exact seqOK_take k h
  · have h1 : SeqOK hash st (es.take (k + 1)) := seqOK_take (k + 1) h
    have h2 : es.take (k + 1) = es.take k ++ [e] := by
      rw [List.take_add_one, hk]; rfl
    rw [h2, seqOK_append] at h1
    rw [seqOK_append]
    exact ⟨h1.1, effOK_cut h1.2.1 hc, trivial⟩

/-! ## frame: names the operation does not write -/

/-- manifest paths an effect writes -/
def writesMan (e : Effect) (n : Name) : Prop := Path.man n ∈ writes e

/-- name `n` keeps its manifest file and, if that is readable, every blob it names -/
def Untouched (n : Name) (st st' : Store) : Prop :=
  get st' (.man n) = get st (.man n) ∧
  ∀ m, readable st n = some m → ∀ l ∈ m.all, get st' (.blob l.digest) = get st (.blob l.digest)

theorem Untouched.refl (n : Name) (st : Store) : Untouched n st st := ⟨rfl, fun _ _ _ _ => rfl⟩

theorem Untouched.trans {n : Name} {a b c : Store} (h1 : Untouched n a b) (h2 : Untouched n b c) :
    Untouched n a c := by
  refine ⟨h2.1.trans h1.1, ?_⟩
  intro m hr l hl
  have hrb : readable b n = some m := by
    rw [readable_eq_some] at hr ⊢; rw [h1.1]; exact hr
  exact (h2.2 m hrb l hl).trans (h1.2 m hr l hl)

theorem effect_untouched {hash : Bytes → Digest} {st : Store} {e : Effect} {n : Name}
    (hinv : Inv hash st) (hok : EffOK hash st e) (hw : ¬ writesMan e n) :
    Untouched n st (apply e st) := by
  refine ⟨get_apply_of_not_written hw, ?_⟩
  intro m hr l hl
  rcases blob_after hok l.digest with h | ⟨hn, _⟩ | ⟨_, hf⟩
  · exact h
  · have := hinv.2 n m hr l hl
    simp [hn] at this
  · exact absurd rfl (referenced_false hf n m hr l hl)

theorem seq_untouched {hash : Bytes → Digest} {st : Store} {es : List Effect} {n : Name}
    (hinv : Inv hash st) (hok : SeqOK hash st es) (hw : ∀ e ∈ es, ¬ writesMan e n) :
    Untouched n st (run es st) := by
  induction es generalizing st with
  | nil => exact Untouched.refl n st
  | cons e es ih =>
    have h1 := effect_untouched hinv hok.1 (hw e (by simp))
    have h2 := ih (effect_preserves_inv hinv hok.1) hok.2 (fun e' he' => hw e' (by simp [he']))
    exact h1.trans h2

theorem writes_cut {e e' : Effect} (h : CutOf e e') : writes e' = writes e := by
  cases h <;> rfl

theorem crashPrefix_writes {es p : List Effect} {n : Name} (hp : CrashPrefix es p)
    (hw : ∀ e ∈ es, ¬ writesMan e n) : ∀ e ∈ p, ¬ writesMan e n := by
  obtain ⟨k, rfl | ⟨e0, e', hk, hc, rfl⟩⟩ := hp
  · intro e he; exact hw e (List.mem_of_mem_take he)
  · intro e he
    rcases List.mem_append.mp he with h | h
    · exact hw e (List.mem_of_mem_take h)
    · simp only [List.mem_singleton] at h
      subst h
      unfold writesMan
      rw [writes_cut hc]
      exact hw e0 (List.mem_of_getElem? hk)

/-! ## restart -/

theorem get_prune (st : Store) (p : Path) : get (prune st) p = if keepAtPrune st p then get st p else none :=
  get_filterKeys _ _ _

theorem readable_prune (st : Store) (n : Name) : readable (prune st) n = readable st n := by
  unfold readable; rw [get_prune]; simp [keepAtPrune]

theorem prune_untouched (n : Name) (st : Store) : Untouched n st (prune st) := by
  refine ⟨by rw [get_prune]; simp [keepAtPrune], ?_⟩
  intro m hr l hl
  rw [get_prune]
  have : referenced st l.digest = true := referenced_iff.mpr ⟨n, m, hr, l, hl, rfl⟩
  simp [keepAtPrune, this]

theorem prune_preserves_inv {hash : Bytes → Digest} {st : Store} (h : Inv hash st) : Inv hash (prune st) := by
  constructor
  · intro d c hg
    rw [get_prune] at hg
    split at hg
    · exact h.1 d c hg
    · cases hg
  · intro n m hr l hl
    rw [readable_prune] at hr
    rw [(prune_untouched n st).2 m hr l hl]
    exact h.2 n m hr l hl

theorem restart_preserves_inv {hash : Bytes → Digest} {st : Store} (h : Inv hash st) : Inv hash (restart st) := by
  unfold restart; split
  · exact prune_preserves_inv h
  · exact h

/-- the start-up sequence changes no manifest and no blob a readable manifest names -/
theorem restart_untouched (n : Name) (st : Store) : Untouched n st (restart st) := by
  unfold restart; split
  · exact prune_untouched n st
  · exact Untouched.refl n st

theorem restartWith_preserves_inv {hash : Bytes → Digest} (env : Env) {st : Store} (h : Inv hash st) :
    Inv hash (restartWith env st) := by
  unfold restartWith; split
  · exact h
  · exact restart_preserves_inv h

theorem restartWith_untouched (env : Env) (n : Name) (st : Store) : Untouched n st (restartWith env st) := by
  unfold restartWith; split
  · exact Untouched.refl n st
  · exact restart_untouched n st

theorem readable_restart (st : Store) (n : Name) : readable (restart st) n = readable st n := by
  unfold restart; split
  · exact readable_prune st n
  · rfl


/-! ## generic facts about effect lists -/

theorem get_run_of_not_written {es : List Effect} {st : Store} {q : Path}
    (h : ∀ e ∈ es, q ∉ writes e) : get (run es st) q = get st q := by
  induction es generalizing st with
  | nil => rfl
  | cons e es ih =>
    simp only [run]
    rw [ih (fun e' he' => h e' (by simp [he'])), get_apply_of_not_written (h e (by simp))]

/-- effects that only touch scratch files (temp, -partial, -partial-N) -/
def isScratchEff : Effect → Bool
  | .mk p | .touch p | .app p _ | .pw p _ _ | .ftr p _ | .put p _ | .rm p => p.isScratch
  | .chmod _ => true
  | .mv s d => s.isScratch && d.isScratch
  | _ => false

theorem scratchEff_ok {hash : Bytes → Digest} {st : Store} {e : Effect} (h : isScratchEff e = true) :
    EffOK hash st e := by
  cases e <;> simp only [isScratchEff] at h <;> simp only [EffOK]
  case mk p => intro d hp; subst hp; simp [Path.isScratch] at h
  case touch p => exact h
  case app p bs => exact h
  case pw p off bs => exact h
  case ftr p n => exact h
  case put p c => exact Or.inl h
  case rm p => exact Or.inl h
  case mv s d => simp only [Bool.and_eq_true] at h; exact ⟨h.1, Or.inr (Or.inl h.2)⟩
  all_goals simp at h

theorem scratchEff_writes {e : Effect} (h : isScratchEff e = true) : ∀ p ∈ writes e, p.isScratch = true := by
  cases e <;> simp only [isScratchEff] at h <;> simp only [writes] <;> intro p hp <;> simp at hp
  case mv s d =>
    simp only [Bool.and_eq_true] at h
    rcases hp with rfl | rfl
    · exact h.1
    · exact h.2
  all_goals first | (subst hp; exact h) | (simp at h)

theorem seqOK_scratch {hash : Bytes → Digest} {st : Store} {es : List Effect}
    (h : ∀ e ∈ es, isScratchEff e = true) : SeqOK hash st es := by
  induction es generalizing st with
  | nil => trivial
  | cons e es ih => exact ⟨scratchEff_ok (h e (by simp)), ih (fun e' he' => h e' (by simp [he']))⟩

theorem get_run_scratch {es : List Effect} {st : Store} {q : Path}
    (h : ∀ e ∈ es, isScratchEff e = true) (hq : q.isScratch = false) : get (run es st) q = get st q := by
  apply get_run_of_not_written
  intro e he hmem
  have := scratchEff_writes (h e he) q hmem
  simp [hq] at this

/-- manifests unchanged, blobs only added -/
def Ext (st st' : Store) : Prop :=
  (∀ n, get st' (.man n) = get st (.man n)) ∧ (∀ d c, get st (.blob d) = some c → get st' (.blob d) = some c)

theorem Ext.refl (st : Store) : Ext st st := ⟨fun _ => rfl, fun _ _ h => h⟩

theorem Ext.trans {a b c : Store} (h1 : Ext a b) (h2 : Ext b c) : Ext a c :=
  ⟨fun n => (h2.1 n).trans (h1.1 n), fun d x h => h2.2 d x (h1.2 d x h)⟩

theorem Ext.readable_eq {st st' : Store} (h : Ext st st') (n : Name) :
    StoreCrash.readable st' n = StoreCrash.readable st n := by
  unfold StoreCrash.readable; rw [h.1]

theorem Ext.present_mono {st st' : Store} (h : Ext st st') {d : Digest}
    (hp : StoreCrash.present st (.blob d) = true) : StoreCrash.present st' (.blob d) = true := by
  unfold StoreCrash.present at *
  cases hg : get st (.blob d) with
  | none => simp [hg] at hp
  | some c => rw [h.2 d c hg]; rfl

theorem referenced_congr {st st' : Store} (h : ∀ n, get st' (.man n) = get st (.man n)) (d : Digest) :
    referenced st' d = referenced st d := by
  rw [Bool.eq_iff_iff, referenced_iff, referenced_iff]
  have hr : ∀ n, readable st' n = readable st n := fun n => by unfold readable; rw [h]
  simp only [hr]

/-! ## Res plumbing -/

theorem andThen_effs (a : Res) (st : Store) (f : Store → Res) :
    (a.andThen st f).effs = if a.ok then a.effs ++ (f (run a.effs st)).effs else a.effs := by
  unfold Res.andThen; split <;> rfl

theorem andThen_ok (a : Res) (st : Store) (f : Store → Res) :
    (a.andThen st f).ok = (a.ok && (f (run a.effs st)).ok) := by
  unfold Res.andThen; split <;> simp [*]

theorem seqOK_andThen {hash : Bytes → Digest} {a : Res} {st : Store} {f : Store → Res}
    (ha : SeqOK hash st a.effs)
    (hf : a.ok = true → SeqOK hash (run a.effs st) (f (run a.effs st)).effs) :
    SeqOK hash st (a.andThen st f).effs := by
  rw [andThen_effs]; split
  · rename_i h; exact seqOK_append.mpr ⟨ha, hf h⟩
  · exact ha

theorem run_andThen (a : Res) (st : Store) (f : Store → Res) :
    run (a.andThen st f).effs st =
      if a.ok then run (f (run a.effs st)).effs (run a.effs st) else run a.effs st := by
  rw [andThen_effs]; split
  · rw [run_append]
  · rfl

/-! ## NewLayer, uploads -/

theorem run_apps (T : Path) (pieces : List Bytes) (st : Store) (old : Bytes)
    (h : get st T = some (.raw old)) :
    get (run (pieces.map (Effect.app T)) st) T = some (.raw (old ++ pieces.flatten)) := by
  induction pieces generalizing st old with
  | nil => simpa [run] using h
  | cons x rest ih =>
    simp only [List.map_cons, run, List.flatten_cons]
    have : get (apply (.app T x) st) T = some (.raw (old ++ x)) := by simp [apply, h, get_set]
    rw [ih _ _ this, List.append_assoc]

theorem newLayer_spec {hash : Bytes → Digest} (env : Env) (henv : env.hash = hash) (k : Nat)
    (pieces : List Bytes) (st : Store) :
    SeqOK hash st (newLayer env k pieces st).effs ∧
    Ext st (run (newLayer env k pieces st).effs st) ∧
    present (run (newLayer env k pieces st).effs st) (.blob (hash pieces.flatten)) = true ∧
    (newLayer env k pieces st).ok = true := by
  subst henv
  unfold newLayer
  simp only [List.singleton_append]
  generalize hpre_def : Effect.mk (.temp k) :: pieces.map (Effect.app (.temp k)) = pre
  have hpre : ∀ e ∈ pre, isScratchEff e = true := by
    subst hpre_def
    intro e he
    rcases List.mem_cons.mp he with h | h
    · subst h; rfl
    · obtain ⟨x, _, rfl⟩ := List.mem_map.mp h; rfl
  by_cases hp : present st (.blob (env.hash pieces.flatten)) = true
  · simp only [hp, ↓reduceIte]
    have hall : ∀ e ∈ pre ++ [Effect.rm (.temp k)], isScratchEff e = true := by
      intro e he
      rcases List.mem_append.mp he with h | h
      · exact hpre e h
      · simp at h; subst h; rfl
    refine ⟨seqOK_scratch hall, ?_, ?_, by trivial⟩
    · exact ⟨fun n => get_run_scratch hall rfl, fun d c h => by rw [get_run_scratch hall rfl]; exact h⟩
    · unfold present at *; rw [get_run_scratch hall rfl]; exact hp
  · simp only [hp, Bool.false_eq_true, ↓reduceIte]
    have hnone : get st (.blob (env.hash pieces.flatten)) = none := by
      unfold present at hp; cases hg : get st (.blob (env.hash pieces.flatten)) <;> simp [hg] at hp ⊢
    -- state after the temp file has been written
    have hT : get (run pre st) (.temp k) = some (.raw pieces.flatten) := by
      subst hpre_def
      simp only [run]
      have := run_apps (.temp k) pieces (apply (Effect.mk (.temp k)) st) [] (by simp [apply, get_set])
      simpa using this
    have hB : get (run pre st) (.blob (env.hash pieces.flatten)) = none := by
      rw [get_run_scratch hpre rfl]; exact hnone
    have hmv : EffOK env.hash (run pre st) (.mv (.temp k) (.blob (env.hash pieces.flatten))) :=
      ⟨rfl, Or.inl ⟨_, rfl, hB, _, hT, rfl⟩⟩
    have hseq : SeqOK env.hash st (pre ++
        [.mv (.temp k) (.blob (env.hash pieces.flatten)), .chmod (.blob (env.hash pieces.flatten))]) := by
      rw [seqOK_append]
      exact ⟨seqOK_scratch hpre, hmv, trivial, trivial⟩
    refine ⟨hseq, ?_, ?_, by trivial⟩
    · rw [run_append]
      constructor
      · intro n
        simp only [run]
        rw [get_apply_of_not_written (by simp [writes]), get_apply_of_not_written (by simp [writes]),
          get_run_scratch hpre rfl]
      · intro d c h
        simp only [run]
        rw [get_apply_of_not_written (by simp [writes])]
        by_cases hd : d = env.hash pieces.flatten
        · subst hd; rw [hnone] at h; cases h
        · rw [get_apply_of_not_written (by simp [writes]; exact hd), get_run_scratch hpre rfl]; exact h
    · rw [run_append]
      simp only [run, present]
      rw [get_apply_of_not_written (by simp [writes])]
      simp only [apply, hT, get_set]
      simp

theorem upload_spec {hash : Bytes → Digest} (env : Env) (henv : env.hash = hash) (k : Nat) (d : Digest)
    (body : Bytes) (st : Store) :
    SeqOK hash st (upload env k d body st).effs ∧ Ext st (run (upload env k d body st).effs st) := by
  unfold upload; split
  · exact ⟨trivial, Ext.refl st⟩
  · have := newLayer_spec env henv k (env.chunk body) st
    exact ⟨this.1, this.2.1⟩

theorem uploads_spec {hash : Bytes → Digest} (env : Env) (henv : env.hash = hash) (k : Nat)
    (ups : List (Digest × Bytes)) (st : Store) :
    SeqOK hash st (uploads env k ups st).effs ∧ Ext st (run (uploads env k ups st).effs st) := by
  induction ups generalizing st k with
  | nil => exact ⟨trivial, Ext.refl st⟩
  | cons u rest ih =>
    obtain ⟨d, body⟩ := u
    simp only [uploads]
    have h1 := upload_spec env henv k d body st
    have h2 := ih (k + 1) (run (upload env k d body st).effs st)
    refine ⟨seqOK_andThen h1.1 (fun _ => h2.1), ?_⟩
    rw [run_andThen]; split
    · exact h1.2.trans h2.2
    · exact h1.2

theorem newLayers_spec {hash : Bytes → Digest} (env : Env) (henv : env.hash = hash) (k : Nat)
    (datas : List Bytes) (st : Store) :
    SeqOK hash st (newLayers env k datas st).effs ∧
    Ext st (run (newLayers env k datas st).effs st) ∧
    (newLayers env k datas st).ok = true ∧
    ∀ x ∈ datas, present (run (newLayers env k datas st).effs st) (.blob (hash x)) = true := by
  induction datas generalizing st k with
  | nil => exact ⟨trivial, Ext.refl st, rfl, by simp⟩
  | cons x rest ih =>
    simp only [newLayers]
    have h1 := newLayer_spec env henv k [x] st
    have h2 := ih (k + 1) (run (newLayer env k [x] st).effs st)
    have hok : (newLayer env k [x] st).ok = true := h1.2.2.2
    refine ⟨seqOK_andThen h1.1 (fun _ => h2.1), ?_, ?_, ?_⟩
    · rw [run_andThen, hok]; exact h1.2.1.trans h2.2.1
    · rw [andThen_ok, hok, h2.2.2.1]; rfl
    · intro y hy
      rw [run_andThen, hok]
      simp only [↓reduceIte]
      rcases List.mem_cons.mp hy with rfl | hy
      · have := h1.2.2.1
        simp only [List.flatten_cons, List.flatten_nil, List.append_nil] at this
        exact h2.2.1.present_mono this
      · exact h2.2.2.2 y hy

/-! ## Layer.Remove / RemoveLayers / deleteUnusedLayers -/

theorem removeLayers_seqOK {hash : Bytes → Digest} (ds : List Digest) (st : Store) :
    SeqOK hash st (removeLayers ds st).effs := by
  induction ds generalizing st with
  | nil => trivial
  | cons d rest ih =>
    simp only [removeLayers]
    apply seqOK_andThen
    · unfold layerRemove; split
      · trivial
      · rename_i h
        simp only [Bool.or_eq_true, Bool.not_eq_true', not_or, Bool.not_eq_true, Bool.not_eq_false] at h
        exact ⟨Or.inr (Or.inr ⟨d, rfl, h.1⟩), trivial⟩
    · intro _; exact ih _

theorem seqOK_rms {hash : Bytes → Digest} (ds : List Digest) (st : Store)
    (h : ∀ d ∈ ds, referenced st d = false) :
    SeqOK hash st (ds.map (fun d => Effect.rm (.blob d))) := by
  induction ds generalizing st with
  | nil => trivial
  | cons d rest ih =>
    refine ⟨Or.inr (Or.inr ⟨d, rfl, h d (by simp)⟩), ih _ ?_⟩
    intro d' hd'
    rw [referenced_congr (st := st)]
    · exact h d' (by simp [hd'])
    · intro n; apply get_apply_of_not_written; simp [writes]

theorem deleteUnused_seqOK {hash : Bytes → Digest} (env : Env) (hord : ∀ l x, x ∈ env.ord l → x ∈ l)
    (cand : List Digest) (st : Store) : SeqOK hash st (deleteUnused env cand st).effs := by
  unfold deleteUnused
  apply seqOK_rms
  intro d hd
  have h1 := (List.mem_filter.mp hd).1
  have h2 := (List.mem_filter.mp (hord _ _ h1)).2
  simpa using h2


theorem cleanupOld_seqOK {hash : Bytes → Digest} (env : Env) (old : Option Man) (st : Store) :
    SeqOK hash st (cleanupOld env old st).effs := by
  unfold cleanupOld
  split
  · split
    · trivial
    · exact removeLayers_seqOK _ _
  · trivial

theorem cleanupPull_seqOK {hash : Bytes → Digest} (env : Env) (hord : ∀ l x, x ∈ env.ord l → x ∈ l)
    (cand : List Digest) (st : Store) : SeqOK hash st (cleanupPull env cand st).effs := by
  unfold cleanupPull
  split
  · trivial
  · exact deleteUnused_seqOK env hord _ _

theorem cleanupPull_ok (env : Env) (cand : List Digest) (st : Store) : (cleanupPull env cand st).ok = true := by
  unfold cleanupPull; split <;> rfl

/-! ## writing a manifest / a part record (both variants) -/

def AllScratch (es : List Effect) : Prop := ∀ e ∈ es, isScratchEff e = true

/-- every path written by the effects satisfies `A` -/
def WritesIn (A : Path → Prop) (es : List Effect) : Prop := ∀ e ∈ es, ∀ q ∈ writes e, A q

theorem get_run_of_writesIn {A : Path → Prop} {es : List Effect} {st : Store} {q : Path}
    (h : WritesIn A es) (hq : ¬ A q) : get (run es st) q = get st q :=
  get_run_of_not_written (fun e he hmem => hq (h e he q hmem))

theorem writesIn_append {A : Path → Prop} {a b : List Effect} (ha : WritesIn A a) (hb : WritesIn A b) :
    WritesIn A (a ++ b) := by
  intro e he
  rcases List.mem_append.mp he with h | h
  · exact ha e h
  · exact hb e h

theorem writesIn_mono {A B : Path → Prop} {es : List Effect} (h : WritesIn A es) (hab : ∀ q, A q → B q) :
    WritesIn B es := fun e he q hq => hab q (h e he q hq)

theorem allScratch_append {a b : List Effect} (ha : AllScratch a) (hb : AllScratch b) : AllScratch (a ++ b) := by
  intro e he
  rcases List.mem_append.mp he with h | h
  · exact ha e h
  · exact hb e h

theorem writeAtomic_prefix_scratch (k : Nat) (c : Content) :
    AllScratch [Effect.mk (.temp k), .put (.temp k) c, .chmod (.temp k)] := by
  intro e he; simp at he; rcases he with rfl | rfl | rfl <;> rfl

theorem writeAtomic_writes (k : Nat) (p : Path) (c : Content) :
    WritesIn (fun q => q = p ∨ q = .temp k) (writeAtomic k p c) := by
  intro e he q hq
  simp only [writeAtomic, List.mem_cons, List.not_mem_nil, or_false] at he
  rcases he with rfl | rfl | rfl | rfl <;> simp [writes] at hq
  · exact Or.inr hq
  · exact Or.inr hq
  · rcases hq with rfl | rfl
    · exact Or.inr rfl
    · exact Or.inl rfl

theorem writePart_scratch (env : Env) (k : Nat) (d : Digest) (j : Nat) (r : PartRec) :
    AllScratch (writePart env k (.part d j) r) := by
  intro e he
  unfold writePart at he
  split at he
  · simp only [writeAtomic, List.mem_cons, List.not_mem_nil, or_false] at he
    rcases he with rfl | rfl | rfl | rfl <;> rfl
  · simp at he; rcases he with rfl | rfl <;> rfl

theorem writePart_writes (env : Env) (k : Nat) (R : Path) (r : PartRec) :
    WritesIn (fun q => q = R ∨ ∃ k', q = .temp k') (writePart env k R r) := by
  unfold writePart
  split
  · exact writesIn_mono (writeAtomic_writes k R _) (fun q h => h.elim Or.inl (fun h => Or.inr ⟨k, h⟩))
  · intro e he q hq
    simp at he
    rcases he with rfl | rfl <;> simp [writes] at hq <;> exact Or.inl hq

theorem manifest_put_ok {hash : Bytes → Digest} (env : Env) (k : Nat) (n : Name) (m : Man) (st : Store)
    (h : ∀ l ∈ m.all, present st (.blob l.digest) = true) :
    SeqOK hash st (writeManifest env k n m).effs := by
  unfold writeManifest
  split
  · -- fixed variant
    have hpre := writeAtomic_prefix_scratch k (.man m)
    show SeqOK hash st ([Effect.mk (.temp k), .put (.temp k) (.man m), .chmod (.temp k)] ++ [.mv (.temp k) (.man n)])
    rw [seqOK_append]
    refine ⟨seqOK_scratch hpre, ⟨rfl, Or.inr (Or.inr ⟨n, rfl, ?_⟩)⟩, trivial⟩
    intro m' hm' l hl
    have hT : get (run [Effect.mk (.temp k), .put (.temp k) (.man m), .chmod (.temp k)] st) (.temp k) = some (.man m) := by
      simp [run, apply, get_set]
    rw [hT] at hm'
    injection hm' with hm'; injection hm' with hm'; subst hm'
    rw [get_run_scratch hpre rfl]
    exact h l hl
  · refine ⟨(by intro d h; cases h), ?_, trivial⟩
    right
    refine ⟨n, m, rfl, rfl, ?_⟩
    intro l hl
    rw [get_apply_of_not_written (by simp [writes])]
    exact h l hl

/-! ## create, copy, delete -/

theorem createHandler_seqOK {hash : Bytes → Digest} (env : Env) (henv : env.hash = hash) (k : Nat)
    (n : Name) (file : Digest) (datas : List Bytes) (cfg : Bytes) (st : Store) :
    SeqOK hash st (createHandler env k n file datas cfg st).effs := by
  unfold createHandler
  dsimp only
  split
  · trivial
  · rename_i hfile
    have hfile' : present st (.blob file) = true := by simpa using hfile
    have hnl := newLayers_spec env henv k (datas ++ [cfg]) st
    apply seqOK_andThen hnl.1
    intro _
    apply seqOK_andThen
    · apply manifest_put_ok
      intro l hl
      simp only [createMan, Man.all, List.cons_append, List.mem_cons, List.mem_append, List.mem_map,
        List.not_mem_nil, or_false] at hl
      rcases hl with rfl | ⟨x, hx, rfl⟩ | rfl
      · exact hnl.2.1.present_mono hfile'
      · have := hnl.2.2.2 x (by simp [hx])
        simpa [layerOf, henv] using this
      · have := hnl.2.2.2 cfg (by simp)
        simpa [layerOf, henv] using this
    · intro _
      exact cleanupOld_seqOK env _ _

theorem create_seqOK {hash : Bytes → Digest} (env : Env) (henv : env.hash = hash)
    (n : Name) (ups : List (Digest × Bytes)) (file : Digest) (datas : List Bytes) (cfg : Bytes) (st : Store) :
    SeqOK hash st (create env n ups file datas cfg st).effs := by
  unfold create
  exact seqOK_andThen (uploads_spec env henv 0 ups st).1 (fun _ => createHandler_seqOK env henv _ _ _ _ _ _)

theorem copy_seqOK {hash : Bytes → Digest} (env : Env) (src dst : Name) (st : Store) (hinv : Inv hash st) :
    SeqOK hash st (copy env src dst st).effs := by
  unfold copy
  split
  · trivial
  · split
    · trivial
    · rename_i c hc
      split
      · -- fixed variant: the bytes of the source go through a temp file
        have hpre := writeAtomic_prefix_scratch 0 c
        show SeqOK hash st ([Effect.mk (.temp 0), .put (.temp 0) c, .chmod (.temp 0)] ++ [.mv (.temp 0) (.man dst)])
        rw [seqOK_append]
        refine ⟨seqOK_scratch hpre, ⟨rfl, Or.inr (Or.inr ⟨dst, rfl, ?_⟩)⟩, trivial⟩
        intro m' hm' l hl
        have hT : get (run [Effect.mk (.temp 0), .put (.temp 0) c, .chmod (.temp 0)] st) (.temp 0) = some c := by
          simp [run, apply, get_set]
        rw [hT] at hm'
        injection hm' with hm'; subst hm'
        rw [get_run_scratch hpre rfl]
        exact hinv.2 src m' (readable_eq_some.mpr hc) l hl
      · exact ⟨(by intro d h; cases h), ⟨⟨src, rfl⟩, ⟨dst, rfl⟩⟩, trivial⟩

theorem delete_seqOK {hash : Bytes → Digest} (n : Name) (st : Store) :
    SeqOK hash st (delete n st).effs := by
  unfold delete
  split
  · trivial
  · apply seqOK_andThen
    · exact ⟨Or.inr (Or.inl ⟨n, rfl⟩), trivial⟩
    · intro _; exact removeLayers_seqOK _ _

/-! ## pull -/

/-- content of a file after a run of sequential pwrites -/
def overlayAll (old : Bytes) (off : Nat) : List Bytes → Bytes
  | [] => old
  | x :: rest => overlayAll (overlay old off x) (off + x.length) rest

theorem run_pwrites (P : Path) (off : Nat) (pieces : List Bytes) (st : Store) (old : Bytes)
    (h : get st P = some (.raw old)) :
    get (run (pwrites P off pieces) st) P = some (.raw (overlayAll old off pieces)) := by
  induction pieces generalizing st old off with
  | nil => simpa [pwrites, run, overlayAll] using h
  | cons x rest ih =>
    simp only [pwrites, run, overlayAll]
    exact ih _ _ _ (by simp [apply, h, get_set])

theorem overlayAll_eq (old : Bytes) (off : Nat) (pieces : List Bytes) (h : off ≤ old.length) :
    overlayAll old off pieces =
      old.take off ++ pieces.flatten ++ old.drop (off + pieces.flatten.length) := by
  induction pieces generalizing old off with
  | nil => simp [overlayAll]
  | cons x rest ih =>
    simp only [overlayAll, List.flatten_cons, List.length_append]
    have hrep : off - old.length = 0 := by omega
    have hov : overlay old off x = old.take off ++ (x ++ old.drop (off + x.length)) := by
      simp [overlay, hrep]
    have hlen : (old.take off).length = off := by simp [List.length_take]; omega
    have hle : off + x.length ≤ (overlay old off x).length := by
      rw [hov]; simp only [List.length_append, hlen]; omega
    rw [ih _ _ hle, hov]
    have h1 : List.take (off + x.length) (old.take off ++ (x ++ old.drop (off + x.length))) = old.take off ++ x := by
      rw [← List.append_assoc]
      apply List.take_left'
      rw [List.length_append, hlen]
    have h2 : List.drop (off + x.length + rest.flatten.length) (old.take off ++ (x ++ old.drop (off + x.length)))
        = old.drop (off + (x.length + rest.flatten.length)) := by
      rw [← List.append_assoc]
      have hl2 : (old.take off ++ x).length = off + x.length := by rw [List.length_append, hlen]
      have : off + x.length + rest.flatten.length = (old.take off ++ x).length + rest.flatten.length := by
        rw [hl2]
      rw [this, List.drop_append, List.drop_drop, List.drop_eq_nil_of_le (by omega), List.nil_append]
      congr 1; omega
    rw [h1, h2]
    simp [List.append_assoc]

theorem length_resize (bs : Bytes) (n : Nat) : (resize bs n).length = n := by
  simp [resize, List.length_take]; omega

/-- the `-partial` file as the code sees it right after `open(O_CREAT)`: empty if absent -/
def pfileBytes (st : Store) (d : Digest) : Option Bytes :=
  match get st (.pfile d) with
  | none => some []
  | some (.raw bs) => some bs
  | some _ => none

/-- The debris an earlier pull of `d` may have left is consistent with what the honest registry
serves: the part record (if readable) describes `data`, and the bytes it declares complete are in
place. An unreadable record, no record, or no `-partial` file are all fine. -/
def PartOK (st : Store) (d : Digest) (data : Bytes) : Prop :=
  ∃ bs, pfileBytes st d = some bs ∧
    match get st (.part d 0) with
    | some (.prec r) => r.off = 0 ∧ r.size = data.length ∧ r.completed ≤ r.size ∧
        (resize bs r.size).take r.completed = data.take r.completed
    | _ => True

/-- no `-partial` file and no part record anywhere: the state of blobs/ after any start-up that pruned -/
def NoPullDebris (st : Store) : Prop :=
  ∀ d, get st (.pfile d) = none ∧ ∀ k, get st (.part d k) = none

theorem NoPullDebris.partOK {st : Store} (h : NoPullDebris st) (d : Digest) (data : Bytes) : PartOK st d data := by
  refine ⟨[], ?_, ?_⟩
  · simp [pfileBytes, (h d).1]
  · simp [(h d).2 0]

theorem PartOK.transfer {st st' : Store} {d : Digest} {data : Bytes} (h : PartOK st d data)
    (h1 : get st' (.pfile d) = get st (.pfile d)) (h2 : get st' (.part d 0) = get st (.part d 0)) :
    PartOK st' d data := by
  unfold PartOK pfileBytes at *
  rw [h1, h2]; exact h

theorem pwrites_scratch (d : Digest) (off : Nat) (pieces : List Bytes) :
    AllScratch (pwrites (.pfile d) off pieces) := by
  induction pieces generalizing off with
  | nil => intro e he; simp [pwrites] at he
  | cons x rest ih =>
    intro e he
    simp only [pwrites, List.mem_cons] at he
    rcases he with rfl | he
    · rfl
    · exact ih _ e he

theorem pwrites_writes (P : Path) (off : Nat) (pieces : List Bytes) :
    ∀ e ∈ pwrites P off pieces, writes e = [P] := by
  induction pieces generalizing off with
  | nil => simp [pwrites]
  | cons x rest ih =>
    intro e he
    simp only [pwrites, List.mem_cons] at he
    rcases he with rfl | he
    · rfl
    · exact ih _ e he

theorem pwrites_writesIn (P : Path) (off : Nat) (pieces : List Bytes) :
    WritesIn (fun q => q = P) (pwrites P off pieces) := by
  intro e he q hq
  rw [pwrites_writes P off pieces e he] at hq
  simpa using hq

/-- paths a download of `d` may write -/
def DlFoot (d : Digest) (q : Path) : Prop :=
  q = .pfile d ∨ q = .part d 0 ∨ q = .blob d ∨ ∃ k, q = .temp k

/-- after `open(O_CREAT)` and `ftruncate(n)` the -partial file holds `resize bs n` -/
theorem get_touch_ftr (st : Store) (d : Digest) (bs : Bytes) (n : Nat) (h : pfileBytes st d = some bs) :
    get (run [Effect.touch (.pfile d), .ftr (.pfile d) n] st) (.pfile d) = some (.raw (resize bs n)) := by
  unfold pfileBytes at h
  cases hg : get st (.pfile d) with
  | none =>
    simp only [hg, Option.some.injEq] at h; subst h
    simp [run, apply, hg, get_set]
  | some c =>
    cases c with
    | raw b =>
      simp only [hg, Option.some.injEq] at h; subst h
      simp [run, apply, hg, get_set]
    | man m => simp [hg] at h
    | prec r => simp [hg] at h

/-- the scratch part `S` of every successful branch, with what it achieves -/
theorem download_core {hash : Bytes → Digest} (d : Digest) (data : Bytes) (hd : hash data = d)
    (st : Store) (habs : get st (.blob d) = none) (S : List Effect) (hS : AllScratch S)
    (hfoot : WritesIn (DlFoot d) S) (hP : get (run S st) (.pfile d) = some (.raw data)) :
    SeqOK hash st (S ++ [.mv (.pfile d) (.blob d)]) ∧
    Ext st (run (S ++ [.mv (.pfile d) (.blob d)]) st) ∧
    present (run (S ++ [.mv (.pfile d) (.blob d)]) st) (.blob d) = true ∧
    WritesIn (DlFoot d) (S ++ [.mv (.pfile d) (.blob d)]) := by
  have hB : get (run S st) (.blob d) = none := by rw [get_run_scratch hS rfl]; exact habs
  refine ⟨seqOK_append.mpr ⟨seqOK_scratch hS, ⟨rfl, Or.inl ⟨d, rfl, hB, data, hP, hd⟩⟩, trivial⟩, ?_, ?_, ?_⟩
  · rw [run_append]
    constructor
    · intro n; simp only [run]
      rw [get_apply_of_not_written (by simp [writes]), get_run_scratch hS rfl]
    · intro d' c h; simp only [run]
      by_cases hd' : d' = d
      · subst hd'; rw [habs] at h; cases h
      · rw [get_apply_of_not_written (by simp [writes]; exact hd'), get_run_scratch hS rfl]; exact h
  · rw [run_append]; simp [run, present, apply, hP, get_set]
  · apply writesIn_append hfoot
    intro e he q hq
    simp at he; subst he
    simp [writes] at hq
    rcases hq with rfl | rfl
    · exact Or.inl rfl
    · exact Or.inr (Or.inr (Or.inl rfl))

theorem dlFoot_touch_ftr (d : Digest) (n : Nat) :
    WritesIn (DlFoot d) [Effect.touch (.pfile d), .ftr (.pfile d) n] := by
  intro e he q hq; simp at he; rcases he with rfl | rfl <;> simp [writes] at hq <;> exact Or.inl hq

theorem dlFoot_writePart (env : Env) (k : Nat) (d : Digest) (r : PartRec) :
    WritesIn (DlFoot d) (writePart env k (.part d 0) r) :=
  writesIn_mono (writePart_writes env k _ r) (fun q h => h.elim (fun h => Or.inr (Or.inl h)) (fun h => Or.inr (Or.inr (Or.inr h))))

theorem dlFoot_pwrites (d : Digest) (off : Nat) (cs : List Bytes) :
    WritesIn (DlFoot d) (pwrites (.pfile d) off cs) :=
  writesIn_mono (pwrites_writesIn _ off cs) (fun q h => Or.inl h)

theorem dlFoot_rm (d : Digest) : WritesIn (DlFoot d) [Effect.rm (.part d 0)] := by
  intro e he q hq; simp at he; subst he; simp [writes] at hq; exact Or.inr (Or.inl hq)

theorem allScratch_touch_ftr (d : Digest) (n : Nat) : AllScratch [Effect.touch (.pfile d), .ftr (.pfile d) n] := by
  intro e he; simp at he; rcases he with rfl | rfl <;> rfl

theorem allScratch_rm (d : Digest) : AllScratch [Effect.rm (.part d 0)] := by
  intro e he; simp at he; subst he; rfl

/-- effects that write a record (or remove it) leave the -partial file alone -/
theorem pfile_not_written_by_rec (env : Env) (k : Nat) (d : Digest) (r : PartRec) (st : Store) :
    get (run (writePart env k (.part d 0) r) st) (.pfile d) = get st (.pfile d) :=
  get_run_of_writesIn (writePart_writes env k _ r) (by
    intro h; rcases h with h | ⟨k', h⟩ <;> cases h)

/-- A download from an honest registry into a store whose debris for `d` is consistent: safe at every
prefix, ends with the blob in place, writes only d's own scratch files. Fresh download, resume from a
readable record (any `completed`), zero-length blob; both variants of `writePart`. -/
theorem download_spec {hash : Bytes → Digest} (env : Env) (henv : env.hash = hash)
    (hchunk : ∀ bs, (env.chunk bs).flatten = bs) (k : Nat) (d : Digest) (data : Bytes) (hd : hash data = d)
    (st : Store) (hpart : PartOK st d data) (habs : get st (.blob d) = none) :
    SeqOK hash st (download env k d data st).effs ∧
    Ext st (run (download env k d data st).effs st) ∧
    ((download env k d data st).ok = true → present (run (download env k d data st).effs st) (.blob d) = true) ∧
    WritesIn (DlFoot d) (download env k d data st).effs := by
  subst henv
  obtain ⟨bs, hbs, hrec⟩ := hpart
  unfold download
  dsimp only
  cases hR : get st (.part d 0) with
  | none =>
    simp only [hR]
    by_cases hz : data.length = 0
    · simp only [hz, ↓reduceIte]
      have hdata : data = [] := List.eq_nil_of_length_eq_zero hz
      have hP : get (run [Effect.touch (.pfile d), .ftr (.pfile d) 0] st) (.pfile d) = some (.raw data) := by
        rw [get_touch_ftr st d bs 0 hbs, hdata]; simp [resize]
      have := download_core d data hd st habs _ (allScratch_touch_ftr d 0) (dlFoot_touch_ftr d 0) hP
      exact ⟨this.1, this.2.1, fun _ => this.2.2.1, this.2.2.2⟩
    · simp only [hz, ↓reduceIte]
      generalize hW0 : writePart env k (.part d 0) ⟨0, 0, data.length, 0⟩ = W0
      generalize hW1 : writePart env (k + 1) (.part d 0) ⟨0, 0, data.length, data.length⟩ = W1
      have hW0s : AllScratch W0 := hW0 ▸ writePart_scratch env k d 0 _
      have hW1s : AllScratch W1 := hW1 ▸ writePart_scratch env (k + 1) d 0 _
      have hW0f : WritesIn (DlFoot d) W0 := hW0 ▸ dlFoot_writePart env k d _
      have hW1f : WritesIn (DlFoot d) W1 := hW1 ▸ dlFoot_writePart env (k + 1) d _
      have hS : AllScratch (W0 ++ [Effect.touch (.pfile d), .ftr (.pfile d) data.length] ++
          pwrites (.pfile d) 0 (env.chunk data) ++ W1 ++ [.rm (.part d 0)]) :=
        allScratch_append (allScratch_append (allScratch_append (allScratch_append hW0s
          (allScratch_touch_ftr d _)) (pwrites_scratch d 0 _)) hW1s) (allScratch_rm d)
      have hF : WritesIn (DlFoot d) (W0 ++ [Effect.touch (.pfile d), .ftr (.pfile d) data.length] ++
          pwrites (.pfile d) 0 (env.chunk data) ++ W1 ++ [.rm (.part d 0)]) :=
        writesIn_append (writesIn_append (writesIn_append (writesIn_append hW0f
          (dlFoot_touch_ftr d _)) (dlFoot_pwrites d 0 _)) hW1f) (dlFoot_rm d)
      have hP : get (run (W0 ++ [Effect.touch (.pfile d), .ftr (.pfile d) data.length] ++
          pwrites (.pfile d) 0 (env.chunk data) ++ W1 ++ [.rm (.part d 0)]) st) (.pfile d) = some (.raw data) := by
        rw [run_append, get_run_of_not_written (es := [Effect.rm (.part d 0)])
          (by intro e he; simp at he; subst he; simp [writes])]
        rw [run_append]
        subst hW1
        rw [pfile_not_written_by_rec, run_append]
        have h0 : get (run (W0 ++ [Effect.touch (.pfile d), .ftr (.pfile d) data.length]) st) (.pfile d)
            = some (.raw (resize bs data.length)) := by
          rw [run_append]
          apply get_touch_ftr
          subst hW0
          unfold pfileBytes at hbs ⊢
          rw [pfile_not_written_by_rec]; exact hbs
        rw [run_pwrites _ _ _ _ _ h0, overlayAll_eq _ _ _ (by omega), hchunk]
        simp [length_resize]
      have := download_core d data hd st habs _ hS hF hP
      exact ⟨this.1, this.2.1, fun _ => this.2.2.1, this.2.2.2⟩
  | some c =>
    cases c with
    | raw b => simp only [hR]; exact ⟨trivial, Ext.refl st, by simp, by intro e he; cases he⟩
    | man m => simp only [hR]; exact ⟨trivial, Ext.refl st, by simp, by intro e he; cases he⟩
    | prec r =>
      simp only [hR] at hrec ⊢
      obtain ⟨hoff, hsize, hle, hpre⟩ := hrec
      have h0 : get (run [Effect.touch (.pfile d), .ftr (.pfile d) r.size] st) (.pfile d)
          = some (.raw (resize bs r.size)) := get_touch_ftr st d bs r.size hbs
      by_cases hc : r.completed = r.size
      · simp only [hc, ↓reduceIte, List.append_nil]
        have hP : get (run ([Effect.touch (.pfile d), .ftr (.pfile d) r.size] ++ [.rm (.part d 0)]) st) (.pfile d)
            = some (.raw data) := by
          rw [run_append, get_run_of_not_written (es := [Effect.rm (.part d 0)])
            (by intro e he; simp at he; subst he; simp [writes]), h0]
          have h1 : (resize bs r.size).take r.size = resize bs r.size :=
            List.take_of_length_le (by rw [length_resize]; exact Nat.le_refl _)
          have h2 : data.take r.size = data := List.take_of_length_le (by omega)
          rw [hc, h1, h2] at hpre
          rw [hpre]
        have := download_core d data hd st habs _ (allScratch_append (allScratch_touch_ftr d _) (allScratch_rm d))
          (writesIn_append (dlFoot_touch_ftr d _) (dlFoot_rm d)) hP
        exact ⟨this.1, this.2.1, fun _ => this.2.2.1, this.2.2.2⟩
      · simp only [hc, ↓reduceIte]
        generalize hbody : List.take (r.size - r.completed) (List.drop (r.off + r.completed) data) = body
        have hbody' : body = data.drop r.completed := by
          rw [← hbody, hoff, Nat.zero_add]
          apply List.take_of_length_le
          rw [List.length_drop]; omega
        generalize hW : writePart env k (.part d 0) { r with completed := r.completed + body.length } = W
        have hWs : AllScratch W := hW ▸ writePart_scratch env k d 0 _
        have hWf : WritesIn (DlFoot d) W := hW ▸ dlFoot_writePart env k d _
        have hS : AllScratch ([Effect.touch (.pfile d), .ftr (.pfile d) r.size] ++
            (pwrites (.pfile d) (r.off + r.completed) (env.chunk body) ++ W) ++ [.rm (.part d 0)]) :=
          allScratch_append (allScratch_append (allScratch_touch_ftr d _)
            (allScratch_append (pwrites_scratch d _ _) hWs)) (allScratch_rm d)
        have hF : WritesIn (DlFoot d) ([Effect.touch (.pfile d), .ftr (.pfile d) r.size] ++
            (pwrites (.pfile d) (r.off + r.completed) (env.chunk body) ++ W) ++ [.rm (.part d 0)]) :=
          writesIn_append (writesIn_append (dlFoot_touch_ftr d _)
            (writesIn_append (dlFoot_pwrites d _ _) hWf)) (dlFoot_rm d)
        have hP : get (run ([Effect.touch (.pfile d), .ftr (.pfile d) r.size] ++
            (pwrites (.pfile d) (r.off + r.completed) (env.chunk body) ++ W) ++ [.rm (.part d 0)]) st) (.pfile d)
            = some (.raw data) := by
          rw [run_append, get_run_of_not_written (es := [Effect.rm (.part d 0)])
            (by intro e he; simp at he; subst he; simp [writes]), run_append, run_append]
          subst hW
          rw [pfile_not_written_by_rec, run_pwrites _ _ _ _ _ h0,
            overlayAll_eq _ _ _ (by rw [length_resize]; omega), hchunk, hoff, Nat.zero_add, hpre, hbody']
          have hl : r.completed + (data.drop r.completed).length = (resize bs r.size).length := by
            rw [length_resize, List.length_drop]; omega
          rw [hl, List.drop_length, List.append_nil, List.take_append_drop]
        have := download_core d data hd st habs _ hS hF hP
        exact ⟨this.1, this.2.1, fun _ => this.2.2.1, this.2.2.2⟩

theorem present_false_get {st : Store} {p : Path} (h : ¬ present st p = true) : get st p = none := by
  unfold present at h; cases hg : get st p <;> simp [hg] at h ⊢

theorem dlFoot_other {d d' : Digest} (h : d' ≠ d) : ¬ DlFoot d (.pfile d') ∧ ¬ DlFoot d (.part d' 0) := by
  constructor <;> intro hf <;> rcases hf with hf | hf | hf | ⟨k, hf⟩ <;> cases hf <;> exact h rfl

/-- what the pull loop needs of the debris: consistent for every digest it will actually download -/
def PullPre (reg : Digest → Option Bytes) (st : Store) (ds : List Digest) : Prop :=
  ∀ d ∈ ds, present st (.blob d) = false → ∀ data, reg d = some data → PartOK st d data

theorem verify1_of_blob (env : Env) (d : Digest) (st : Store) (bs : Bytes)
    (hg : get st (.blob d) = some (.raw bs)) (hh : env.hash bs = d) : verify1 env d st = ⟨[], true⟩ := by
  unfold verify1; simp [hg, hh]

/-- Honest registry: the verification right after a download never fires — the pair
"download; verifyBlob" is the download. -/
theorem dl_verify_eq {hash : Bytes → Digest} (env : Env) (henv : env.hash = hash)
    (hchunk : ∀ bs, (env.chunk bs).flatten = bs) (k : Nat) (d : Digest) (data : Bytes) (hd : hash data = d)
    (st : Store) (hinv : Inv hash st) (hpart : PartOK st d data) (habs : get st (.blob d) = none) :
    (download env k d data st).andThen st (verify1 env d) = download env k d data st := by
  have hs := download_spec env henv hchunk k d data hd st hpart habs
  have hinv1 : Inv hash (run (download env k d data st).effs st) := seq_preserves_inv hinv hs.1
  generalize download env k d data st = a at hs hinv1 ⊢
  unfold Res.andThen
  cases hok : a.ok with
  | false => simp
  | true =>
    have hp := hs.2.2.1 hok
    unfold present at hp
    cases hg : get (run a.effs st) (.blob d) with
    | none => simp [hg] at hp
    | some c =>
      obtain ⟨bs, rfl, hh⟩ := hinv1.1 d c hg
      rw [verify1_of_blob env d _ bs hg (henv ▸ hh)]
      cases a
      simp_all

theorem downloads_spec {hash : Bytes → Digest} (env : Env) (henv : env.hash = hash)
    (hchunk : ∀ bs, (env.chunk bs).flatten = bs) (reg : Digest → Option Bytes)
    (hreg : ∀ d data, reg d = some data → hash data = d) (k : Nat) (ds : List Digest) (st : Store)
    (hinv : Inv hash st) (hpre : PullPre reg st ds) :
    SeqOK hash st (downloads env reg k ds st).effs ∧
    Ext st (run (downloads env reg k ds st).effs st) ∧
    ((downloads env reg k ds st).ok = true →
      ∀ d ∈ ds, present (run (downloads env reg k ds st).effs st) (.blob d) = true) := by
  induction ds generalizing st k with
  | nil => exact ⟨trivial, Ext.refl st, by simp⟩
  | cons d rest ih =>
    unfold downloads
    by_cases hp : present st (.blob d) = true
    · simp only [hp, ↓reduceIte]
      have := ih (k + 2) st hinv (fun d' hd' => hpre d' (List.mem_cons_of_mem _ hd'))
      refine ⟨this.1, this.2.1, ?_⟩
      intro hok d' hd'
      rcases List.mem_cons.mp hd' with rfl | hd'
      · exact this.2.1.present_mono hp
      · exact this.2.2 hok d' hd'
    · simp only [hp, Bool.false_eq_true, ↓reduceIte]
      cases hr : reg d with
      | none => exact ⟨trivial, Ext.refl st, by simp⟩
      | some data =>
        have hpf : present st (.blob d) = false := by simpa using hp
        have hpart := hpre d (by simp) hpf data hr
        have hd := download_spec env henv hchunk k d data (hreg d data hr) st hpart (present_false_get hp)
        dsimp only
        rw [dl_verify_eq env henv hchunk k d data (hreg d data hr) st hinv hpart (present_false_get hp)]
        have hinv1 : Inv hash (run (download env k d data st).effs st) := seq_preserves_inv hinv hd.1
        have hrest : (download env k d data st).ok = true →
            PullPre reg (run (download env k d data st).effs st) rest := by
          intro hok1 d' hd' hp' data' hr'
          have hne : d' ≠ d := by
            intro e; subst e
            have := hd.2.2.1 hok1
            simp [hp'] at this
          have hp0 : present st (.blob d') = false := by
            cases h : present st (.blob d') with
            | false => rfl
            | true => have := hd.2.1.present_mono h; simp [hp'] at this
          apply (hpre d' (List.mem_cons_of_mem _ hd') hp0 data' hr').transfer
          · exact get_run_of_writesIn hd.2.2.2 (dlFoot_other hne).1
          · exact get_run_of_writesIn hd.2.2.2 (dlFoot_other hne).2
        refine ⟨seqOK_andThen hd.1 (fun hok1 => (ih (k + 2) _ hinv1 (hrest hok1)).1), ?_, ?_⟩
        · rw [run_andThen]
          split
          · rename_i hok1; exact hd.2.1.trans (ih (k + 2) _ hinv1 (hrest hok1)).2.1
          · exact hd.2.1
        · rw [andThen_ok, run_andThen]
          intro hok d' hd'
          have hok1 : (download env k d data st).ok = true := by
            cases h : (download env k d data st).ok <;> simp_all
          simp only [hok1, ↓reduceIte, Bool.true_and] at hok ⊢
          have hi := ih (k + 2) _ hinv1 (hrest hok1)
          rcases List.mem_cons.mp hd' with rfl | hd'
          · exact hi.2.1.present_mono (hd.2.2.1 hok1)
          · exact hi.2.2 hok d' hd'

theorem pull_seqOK {hash : Bytes → Digest} (env : Env) (henv : env.hash = hash)
    (hchunk : ∀ bs, (env.chunk bs).flatten = bs) (hord : ∀ l x, x ∈ env.ord l → x ∈ l)
    (reg : Digest → Option Bytes) (hreg : ∀ d data, reg d = some data → hash data = d)
    (n : Name) (m : Man) (st : Store) (hinv : Inv hash st)
    (hpre : PullPre reg st (m.all.map Layer.digest)) :
    SeqOK hash st (pull env reg n m st).effs := by
  unfold pull
  dsimp only
  have hds := downloads_spec env henv hchunk reg hreg 0 (m.all.map Layer.digest) st hinv hpre
  apply seqOK_andThen hds.1
  intro hok
  apply seqOK_andThen
  · apply manifest_put_ok
    intro l hl
    exact hds.2.2 hok l.digest (List.mem_map.mpr ⟨l, hl, rfl⟩)
  · intro _; exact cleanupPull_seqOK env hord _ _

/-! ## which manifests an operation writes -/

def ManOnly (N : List Name) (es : List Effect) : Prop :=
  ∀ e ∈ es, ∀ n', Path.man n' ∈ writes e → n' ∈ N

theorem manOnly_nil (N : List Name) : ManOnly N [] := by intro e he; cases he

theorem manOnly_append {N : List Name} {a b : List Effect} (ha : ManOnly N a) (hb : ManOnly N b) :
    ManOnly N (a ++ b) := by
  intro e he
  rcases List.mem_append.mp he with h | h
  · exact ha e h
  · exact hb e h

theorem manOnly_andThen {N : List Name} {a : Res} {st : Store} {f : Store → Res}
    (ha : ManOnly N a.effs) (hf : ∀ st', ManOnly N (f st').effs) : ManOnly N (a.andThen st f).effs := by
  rw [andThen_effs]; split
  · exact manOnly_append ha (hf _)
  · exact ha

theorem manOnly_of_noMan {N : List Name} {es : List Effect}
    (h : ∀ e ∈ es, ∀ n', Path.man n' ∉ writes e) : ManOnly N es :=
  fun e he n' hw => absurd hw (h e he n')

theorem manOnly_of_writesIn {N : List Name} {A : Path → Prop} {es : List Effect} (h : WritesIn A es)
    (hA : ∀ n', A (.man n') → n' ∈ N) : ManOnly N es :=
  fun e he n' hw => hA n' (h e he _ hw)

theorem manOnly_newLayer (N : List Name) (env : Env) (k : Nat) (pieces : List Bytes) (st : Store) :
    ManOnly N (newLayer env k pieces st).effs := by
  apply manOnly_of_noMan
  intro e he n' hw
  unfold newLayer at he
  dsimp only at he
  by_cases hp : present st (.blob (env.hash pieces.flatten)) = true
  · simp only [hp, ↓reduceIte, List.mem_append, List.mem_cons, List.mem_map, List.not_mem_nil, or_false] at he
    rcases he with (rfl | ⟨x, _, rfl⟩) | rfl <;> simp [writes] at hw
  · simp only [hp, Bool.false_eq_true, ↓reduceIte, List.mem_append, List.mem_cons, List.mem_map,
      List.not_mem_nil, or_false] at he
    rcases he with (rfl | ⟨x, _, rfl⟩) | rfl | rfl <;> simp [writes] at hw

theorem manOnly_uploads (N : List Name) (env : Env) (k : Nat) (ups : List (Digest × Bytes)) (st : Store) :
    ManOnly N (uploads env k ups st).effs := by
  induction ups generalizing st k with
  | nil => exact manOnly_nil N
  | cons u rest ih =>
    obtain ⟨d, body⟩ := u
    simp only [uploads]
    apply manOnly_andThen
    · unfold upload; split
      · exact manOnly_nil N
      · exact manOnly_newLayer N env k _ st
    · intro st'; exact ih _ _

theorem manOnly_newLayers (N : List Name) (env : Env) (k : Nat) (datas : List Bytes) (st : Store) :
    ManOnly N (newLayers env k datas st).effs := by
  induction datas generalizing st k with
  | nil => exact manOnly_nil N
  | cons x rest ih =>
    simp only [newLayers]
    exact manOnly_andThen (manOnly_newLayer N env k _ st) (fun st' => ih _ _)

theorem manOnly_removeLayers (N : List Name) (ds : List Digest) (st : Store) :
    ManOnly N (removeLayers ds st).effs := by
  induction ds generalizing st with
  | nil => exact manOnly_nil N
  | cons d rest ih =>
    simp only [removeLayers]
    apply manOnly_andThen
    · unfold layerRemove; split
      · exact manOnly_nil N
      · intro e he n' hw; simp at he; subst he; simp [writes] at hw
    · intro st'; exact ih _

theorem manOnly_writeAtomic (k : Nat) (n : Name) (c : Content) : ManOnly [n] (writeAtomic k (.man n) c) := by
  apply manOnly_of_writesIn (writeAtomic_writes k (.man n) c)
  intro n' h
  rcases h with h | h
  · injection h with h; simp [h]
  · cases h

theorem manOnly_writeManifest (env : Env) (k : Nat) (n : Name) (m : Man) :
    ManOnly [n] (writeManifest env k n m).effs := by
  unfold writeManifest
  split
  · exact manOnly_writeAtomic k n _
  · intro e he n' hw
    simp at he
    rcases he with rfl | rfl <;> simp [writes] at hw <;> simp [hw]

theorem dlFoot_mv (d : Digest) : WritesIn (DlFoot d) [Effect.mv (.pfile d) (.blob d)] := by
  intro e he q hq
  simp at he; subst he
  simp [writes] at hq
  rcases hq with rfl | rfl
  · exact Or.inl rfl
  · exact Or.inr (Or.inr (Or.inl rfl))

/-- a download of `d` writes only d's own files and temp files (any store, any variant) -/
theorem download_writesIn (env : Env) (k : Nat) (d : Digest) (data : Bytes) (st : Store) :
    WritesIn (DlFoot d) (download env k d data st).effs := by
  unfold download
  dsimp only
  cases hR : get st (.part d 0) with
  | none =>
    simp only [hR]
    by_cases hz : data.length = 0
    · simp only [hz, ↓reduceIte]
      exact writesIn_append (dlFoot_touch_ftr d 0) (dlFoot_mv d)
    · simp only [hz, ↓reduceIte]
      exact writesIn_append (writesIn_append (writesIn_append (writesIn_append (writesIn_append
        (dlFoot_writePart env k d _) (dlFoot_touch_ftr d _)) (dlFoot_pwrites d 0 _))
        (dlFoot_writePart env (k + 1) d _)) (dlFoot_rm d)) (dlFoot_mv d)
  | some c =>
    cases c with
    | raw b => simp only [hR]; intro e he; cases he
    | man m => simp only [hR]; intro e he; cases he
    | prec r =>
      simp only [hR]
      by_cases hc : r.completed = r.size
      · simp only [hc, ↓reduceIte, List.append_nil]
        exact writesIn_append (writesIn_append (dlFoot_touch_ftr d _) (dlFoot_rm d)) (dlFoot_mv d)
      · simp only [hc, ↓reduceIte]
        exact writesIn_append (writesIn_append (writesIn_append (dlFoot_touch_ftr d _)
          (writesIn_append (dlFoot_pwrites d _ _) (dlFoot_writePart env k d _))) (dlFoot_rm d)) (dlFoot_mv d)

theorem manOnly_download (N : List Name) (env : Env) (k : Nat) (d : Digest) (data : Bytes) (st : Store) :
    ManOnly N (download env k d data st).effs := by
  apply manOnly_of_writesIn (download_writesIn env k d data st)
  intro n' h
  rcases h with h | h | h | ⟨_, h⟩ <;> cases h

theorem manOnly_verify1 (N : List Name) (env : Env) (d : Digest) (st : Store) :
    ManOnly N (verify1 env d st).effs := by
  unfold verify1
  split
  · split
    · exact manOnly_nil N
    · intro e he n' hw; simp at he; subst he; simp [writes] at hw
  · exact manOnly_nil N

theorem manOnly_downloads (N : List Name) (env : Env) (reg : Digest → Option Bytes) (k : Nat) (ds : List Digest)
    (st : Store) : ManOnly N (downloads env reg k ds st).effs := by
  induction ds generalizing st k with
  | nil => exact manOnly_nil N
  | cons d rest ih =>
    unfold downloads
    split
    · exact ih _ st
    · split
      · exact manOnly_nil N
      · rename_i data _
        exact manOnly_andThen (manOnly_andThen (manOnly_download N env k d data st)
          (fun st' => manOnly_verify1 N env d st')) (fun st' => ih _ st')

theorem manOnly_deleteUnused (N : List Name) (env : Env) (cand : List Digest) (st : Store) :
    ManOnly N (deleteUnused env cand st).effs := by
  intro e he n' hw
  unfold deleteUnused at he
  obtain ⟨d, _, rfl⟩ := List.mem_map.mp he
  simp [writes] at hw

theorem manOnly_cleanupOld (N : List Name) (env : Env) (old : Option Man) (st : Store) :
    ManOnly N (cleanupOld env old st).effs := by
  unfold cleanupOld
  split
  · split
    · exact manOnly_nil N
    · exact manOnly_removeLayers _ _ _
  · exact manOnly_nil N

theorem manOnly_cleanupPull (N : List Name) (env : Env) (cand : List Digest) (st : Store) :
    ManOnly N (cleanupPull env cand st).effs := by
  unfold cleanupPull
  split
  · exact manOnly_nil N
  · exact manOnly_deleteUnused _ env _ st

theorem manOnly_exec (env : Env) (op : Op) (st : Store) : ManOnly op.involved (op.exec env st).effs := by
  cases op with
  | upload k d body =>
    simp only [Op.exec, Op.involved]
    unfold upload; split
    · exact manOnly_nil _
    · exact manOnly_newLayer _ env k _ st
  | create n ups file datas cfg =>
    simp only [Op.exec, Op.involved, create]
    apply manOnly_andThen (manOnly_uploads _ env 0 ups st)
    intro st'
    unfold createHandler
    dsimp only
    split
    · exact manOnly_nil _
    · apply manOnly_andThen (manOnly_newLayers _ env _ _ st')
      intro st2
      apply manOnly_andThen (manOnly_writeManifest env _ n _)
      intro st3
      exact manOnly_cleanupOld _ env _ st3
  | copy src dst =>
    simp only [Op.exec, Op.involved]
    unfold copy
    split
    · exact manOnly_nil _
    · split
      · exact manOnly_nil _
      · split
        · exact manOnly_writeAtomic 0 dst _
        · intro e he n' hw
          simp at he
          rcases he with rfl | rfl <;> simp [writes] at hw <;> simp [hw]
  | delete n =>
    simp only [Op.exec, Op.involved]
    unfold delete
    split
    · exact manOnly_nil _
    · apply manOnly_andThen
      · intro e he n' hw; simp at he; subst he; simp [writes] at hw; simp [hw]
      · intro st'; exact manOnly_removeLayers _ _ _
  | pull reg n m =>
    simp only [Op.exec, Op.involved]
    unfold pull
    dsimp only
    apply manOnly_andThen (manOnly_downloads [n] env reg 0 (m.all.map Layer.digest) st)
    intro st2
    apply manOnly_andThen (manOnly_writeManifest env _ n m)
    intro st3
    exact manOnly_cleanupPull _ env _ st3


/-! ## fixed variant (`atomicMan`): a manifest file is old or new, never torn -/

/-- no effect of the list writes any manifest path -/
def NoMan (es : List Effect) : Prop := ManOnly [] es

theorem noMan_get {es : List Effect} {st : Store} (h : NoMan es) (n : Name) :
    get (run es st) (.man n) = get st (.man n) :=
  get_run_of_not_written (fun e he hm => by have := h e he n hm; cases this)

theorem noMan_append {a b : List Effect} (ha : NoMan a) (hb : NoMan b) : NoMan (a ++ b) := manOnly_append ha hb

theorem noMan_nil : NoMan [] := manOnly_nil []

theorem noMan_crashPrefix {es p : List Effect} (h : NoMan es) (hp : CrashPrefix es p) : NoMan p := by
  intro e he n hm
  have := crashPrefix_writes (n := n) hp (fun e' he' hw => by have := h e' he' n hw; cases this) e he
  exact absurd hm this

def cuttable : Effect → Bool
  | .app _ _ => true
  | .pw _ _ _ => true
  | _ => false

theorem cutOf_cuttable {e e' : Effect} (h : CutOf e e') : cuttable e = true := by cases h <;> rfl

/-- at most one effect of the list writes a manifest path, and that one is a single rename/unlink
(not a data write that a crash could cut) -/
inductive AMO : List Effect → Prop
  | noMan {es : List Effect} : NoMan es → AMO es
  | cons_noMan {e : Effect} {es : List Effect} : NoMan [e] → AMO es → AMO (e :: es)
  | cons_man {e : Effect} {es : List Effect} : cuttable e = false → NoMan es → AMO (e :: es)

theorem amo_append_left {a b : List Effect} (ha : NoMan a) (hb : AMO b) : AMO (a ++ b) := by
  induction a with
  | nil => exact hb
  | cons e a ih =>
    refine AMO.cons_noMan (fun x hx => ha x (by simp at hx; subst hx; simp)) (ih ?_)
    exact fun x hx => ha x (by simp [hx])

theorem amo_append_right {a b : List Effect} (ha : AMO a) (hb : NoMan b) : AMO (a ++ b) := by
  induction ha with
  | noMan h => exact AMO.noMan (noMan_append h hb)
  | cons_noMan he _ ih => exact AMO.cons_noMan he ih
  | cons_man hc hn => exact AMO.cons_man hc (noMan_append hn hb)

theorem amo_andThen_left {a : Res} {st : Store} {f : Store → Res}
    (ha : NoMan a.effs) (hf : ∀ st', AMO (f st').effs) : AMO (a.andThen st f).effs := by
  rw [andThen_effs]; split
  · exact amo_append_left ha (hf _)
  · exact AMO.noMan ha

theorem amo_andThen_right {a : Res} {st : Store} {f : Store → Res}
    (ha : AMO a.effs) (hf : ∀ st', NoMan (f st').effs) : AMO (a.andThen st f).effs := by
  rw [andThen_effs]; split
  · exact amo_append_right ha (hf _)
  · exact ha

theorem crashPrefix_cons {e : Effect} {es p : List Effect} (h : CrashPrefix (e :: es) p) :
    p = [] ∨ (∃ e', CutOf e e' ∧ p = [e']) ∨ ∃ p', p = e :: p' ∧ CrashPrefix es p' := by
  obtain ⟨k, h⟩ := h
  cases k with
  | zero =>
    rcases h with rfl | ⟨e0, e', hk, hc, rfl⟩
    · left; rfl
    · simp at hk; subst hk; right; left; exact ⟨e', hc, by simp⟩
  | succ k =>
    rcases h with rfl | ⟨e0, e', hk, hc, rfl⟩
    · right; right; exact ⟨es.take k, by simp, ⟨k, Or.inl rfl⟩⟩
    · right; right
      exact ⟨es.take k ++ [e'], by simp, ⟨k, Or.inr ⟨e0, e', by simpa using hk, hc, rfl⟩⟩⟩

/-- with at most one, uncuttable, manifest-writing effect, every crash leaves each manifest FILE
either as it was or as the completed operation leaves it -/
theorem old_or_new {es : List Effect} (h : AMO es) :
    ∀ {st : Store} {p : List Effect}, CrashPrefix es p → ∀ n,
      get (run p st) (.man n) = get st (.man n) ∨ get (run p st) (.man n) = get (run es st) (.man n) := by
  induction h with
  | noMan hn => intro st p hp n; left; exact noMan_get (noMan_crashPrefix hn hp) n
  | @cons_noMan e es he _ ih =>
    intro st p hp n
    rcases crashPrefix_cons hp with rfl | ⟨e', hc, rfl⟩ | ⟨p', rfl, hp'⟩
    · left; rfl
    · left
      apply get_run_of_not_written
      intro x hx hm
      simp at hx; subst hx
      rw [writes_cut hc] at hm
      have := he e (by simp) n hm
      cases this
    · have hst : get (apply e st) (.man n) = get st (.man n) := noMan_get (es := [e]) he n
      simp only [run]
      rcases ih hp' n with h | h
      · left; rw [h, hst]
      · right; exact h
  | @cons_man e es hcut hn =>
    intro st p hp n
    rcases crashPrefix_cons hp with rfl | ⟨e', hc, rfl⟩ | ⟨p', rfl, hp'⟩
    · left; rfl
    · have := cutOf_cuttable hc; simp [hcut] at this
    · right; simp only [run]; rw [noMan_get (noMan_crashPrefix hn hp') n, noMan_get hn n]

theorem amo_writeAtomic (k : Nat) (n : Name) (c : Content) : AMO (writeAtomic k (.man n) c) := by
  show AMO ([Effect.mk (.temp k), .put (.temp k) c, .chmod (.temp k)] ++ [.mv (.temp k) (.man n)])
  apply amo_append_left
  · intro e he n' hw
    simp at he; rcases he with rfl | rfl | rfl <;> simp [writes] at hw
  · exact AMO.cons_man rfl noMan_nil

theorem amo_writeManifest (env : Env) (hat : env.atomicMan = true) (k : Nat) (n : Name) (m : Man) :
    AMO (writeManifest env k n m).effs := by
  unfold writeManifest; simp only [hat, ↓reduceIte]; exact amo_writeAtomic k n _

/-- in the fixed variant every operation has at most one manifest-writing effect, a rename or an unlink -/
theorem amo_exec (env : Env) (hat : env.atomicMan = true) (op : Op) (st : Store) : AMO (op.exec env st).effs := by
  cases op with
  | upload k d body =>
    apply AMO.noMan
    simp only [Op.exec]
    unfold upload; split
    · exact noMan_nil
    · exact manOnly_newLayer _ env k _ st
  | create n ups file datas cfg =>
    simp only [Op.exec, create]
    apply amo_andThen_left (manOnly_uploads _ env 0 ups st)
    intro st'
    unfold createHandler
    dsimp only
    split
    · exact AMO.noMan noMan_nil
    · apply amo_andThen_left (manOnly_newLayers _ env _ _ st')
      intro st2
      apply amo_andThen_right (amo_writeManifest env hat _ n _)
      intro st3
      exact manOnly_cleanupOld _ env _ st3
  | copy src dst =>
    simp only [Op.exec]
    unfold copy
    split
    · exact AMO.noMan noMan_nil
    · split
      · exact AMO.noMan noMan_nil
      · simp only [hat, ↓reduceIte]; exact amo_writeAtomic 0 dst _
  | delete n =>
    simp only [Op.exec]
    unfold delete
    split
    · exact AMO.noMan noMan_nil
    · apply amo_andThen_right
      · exact AMO.cons_man rfl noMan_nil
      · intro st'; exact manOnly_removeLayers _ _ _
  | pull reg n m =>
    simp only [Op.exec]
    unfold pull
    dsimp only
    apply amo_andThen_left (manOnly_downloads [] env reg 0 (m.all.map Layer.digest) st)
    intro st2
    apply amo_andThen_right (amo_writeManifest env hat _ n m)
    intro st3
    exact manOnly_cleanupPull _ env _ st3

/-! ### what the completed operation leaves at a manifest path (fixed variant) -/

theorem get_run_writeAtomic_man (k : Nat) (n n' : Name) (c : Content) (st : Store) :
    get (run (writeAtomic k (.man n) c) st) (.man n') = if n' = n then some c else get st (.man n') := by
  by_cases h : n' = n
  · subst h; simp [writeAtomic, run, apply, get_set]
  · simp [writeAtomic, run, apply, get_set, get_del, h]

/-- `writeManifest` followed by clean-up that touches no manifest -/
theorem get_run_wm_then (env : Env) (hat : env.atomicMan = true) (k : Nat) (n n' : Name) (m : Man) (st : Store)
    (f : Store → Res) (hf : ∀ st', NoMan (f st').effs) :
    get (run ((writeManifest env k n m).andThen st f).effs st) (.man n') =
      if n' = n then some (.man m) else get st (.man n') := by
  rw [run_andThen]
  have hok : (writeManifest env k n m).ok = true := by unfold writeManifest; split <;> rfl
  have heffs : (writeManifest env k n m).effs = writeAtomic k (.man n) (.man m) := by
    unfold writeManifest; simp [hat]
  simp only [hok, ↓reduceIte]
  rw [noMan_get (hf _), heffs, get_run_writeAtomic_man]

/-- the value a completed operation may leave at a manifest path, other than the old one -/
def NewManOK (st : Store) (op : Op) (n' : Name) (v : Option Content) : Prop :=
  (∃ m, v = some (.man m)) ∨ (op = .delete n' ∧ v = none) ∨
  (∃ src c, op = .copy src n' ∧ get st (.man src) = some c ∧ v = some c)

theorem final_man (env : Env) (hat : env.atomicMan = true) (op : Op) (st : Store) (n' : Name) :
    get (run (op.exec env st).effs st) (.man n') = get st (.man n') ∨
    NewManOK st op n' (get (run (op.exec env st).effs st) (.man n')) := by
  cases op with
  | upload k d body =>
    left
    apply noMan_get
    simp only [Op.exec]
    unfold upload; split
    · exact noMan_nil
    · exact manOnly_newLayer _ env k _ st
  | create n ups file datas cfg =>
    simp only [Op.exec, create]
    rw [run_andThen]
    have hup : ∀ x, get (run (uploads env 0 ups st).effs st) (.man x) = get st (.man x) :=
      fun x => noMan_get (manOnly_uploads _ env 0 ups st) x
    split
    · generalize run (uploads env 0 ups st).effs st = st1 at hup ⊢
      unfold createHandler
      dsimp only
      split
      · left; simp only [run]; exact hup n'
      · rw [run_andThen]
        have hnl := noMan_get (st := st1) (manOnly_newLayers [] env ups.length (datas ++ [cfg]) st1)
        split
        · rw [get_run_wm_then env hat]
          · split
            · right; left; exact ⟨_, rfl⟩
            · left; rw [hnl, hup]
          · intro st3; exact manOnly_cleanupOld _ env _ st3
        · left; rw [hnl, hup]
    · left; exact hup n'
  | copy src dst =>
    simp only [Op.exec]
    unfold copy
    split
    · left; rfl
    · split
      · left; rfl
      · rename_i c hc
        simp only [hat, ↓reduceIte]
        rw [get_run_writeAtomic_man]
        split
        · rename_i h; subst h; right; right; right; exact ⟨src, c, rfl, hc, rfl⟩
        · left; rfl
  | delete n =>
    simp only [Op.exec]
    unfold delete
    split
    · left; rfl
    · rw [run_andThen]
      simp only [↓reduceIte]
      rw [noMan_get (manOnly_removeLayers _ _ _)]
      by_cases h : n' = n
      · subst h; right; right; left; exact ⟨rfl, by simp [run, apply, get_del]⟩
      · left; simp [run, apply, get_del, h]
  | pull reg n m =>
    simp only [Op.exec]
    unfold pull
    dsimp only
    have hdl : NoMan (downloads env reg 0 (m.all.map Layer.digest) st).effs :=
      manOnly_downloads [] env reg 0 (m.all.map Layer.digest) st
    rw [run_andThen]
    split
    · rw [get_run_wm_then env hat]
      · split
        · right; left; exact ⟨_, rfl⟩
        · left; rw [noMan_get hdl]
      · intro st3; exact manOnly_cleanupPull _ env _ st3
    · left; exact noMan_get hdl n'


/-! ### exact final manifest files of copy / delete / upload (fixed variant), for `rerun_converges` -/

theorem copy_final (env : Env) (hat : env.atomicMan = true) (src dst n' : Name) (st : Store) :
    get (run (copy env src dst st).effs st) (.man n') =
      if src ≠ dst ∧ n' = dst ∧ (get st (.man src)).isSome = true then get st (.man src)
      else get st (.man n') := by
  unfold copy
  by_cases hsd : src = dst
  · simp [hsd, run]
  · simp only [hsd, ↓reduceIte]
    cases hs : get st (.man src) with
    | none => simp [run]
    | some c =>
      simp only [hat, ↓reduceIte]
      rw [get_run_writeAtomic_man]
      by_cases hn : n' = dst <;> simp [hn, hsd]

theorem delete_final (n n' : Name) (st : Store) :
    get (run (delete n st).effs st) (.man n') =
      if (readable st n).isSome = true ∧ n' = n then none else get st (.man n') := by
  unfold delete
  cases hr : readable st n with
  | none => simp [run]
  | some m =>
    simp only [run_andThen, ↓reduceIte]
    rw [noMan_get (manOnly_removeLayers _ _ _)]
    by_cases h : n' = n
    · subst h; simp [run, apply, get_del]
    · simp [run, apply, get_del, h]

theorem upload_final (env : Env) (k : Nat) (d : Digest) (body : Bytes) (n' : Name) (st : Store) :
    get (run (upload env k d body st).effs st) (.man n') = get st (.man n') := by
  apply noMan_get
  unfold upload; split
  · exact noMan_nil
  · exact manOnly_newLayer _ env k _ st


theorem writeManifest_ok (env : Env) (k : Nat) (n : Name) (m : Man) : (writeManifest env k n m).ok = true := by
  unfold writeManifest; split <;> rfl

theorem pull_final (env : Env) (hat : env.atomicMan = true) (reg : Digest → Option Bytes) (n n' : Name)
    (m : Man) (st : Store) :
    get (run (pull env reg n m st).effs st) (.man n') =
      bif (pull env reg n m st).ok && decide (n' = n) then some (.man m) else get st (.man n') := by
  unfold pull
  dsimp only
  have hdl : NoMan (downloads env reg 0 (m.all.map Layer.digest) st).effs :=
    manOnly_downloads [] env reg 0 (m.all.map Layer.digest) st
  rw [run_andThen, andThen_ok]
  by_cases h1 : (downloads env reg 0 (m.all.map Layer.digest) st).ok = true
  · simp only [h1, ↓reduceIte, Bool.true_and]
    rw [get_run_wm_then env hat _ _ _ _ _ _ (fun st3 => manOnly_cleanupPull _ env _ st3), andThen_ok,
      writeManifest_ok, noMan_get hdl, cleanupPull_ok]
    simp
  · simp only [h1, Bool.false_eq_true, ↓reduceIte, Bool.false_and, cond_false]
    exact noMan_get hdl n'


/-! ### the repeated pull succeeds (prune configuration): no debris ⇒ every download and the verification succeed -/

theorem get_apply_mv_src (src dst : Path) (h : src ≠ dst) (st : Store) : get (apply (.mv src dst) st) src = none := by
  simp only [apply]
  cases hs : get st src with
  | none => exact hs
  | some c => simp [get_set, get_del, h]

theorem noDebris_after (d : Digest) (st : Store) (hdeb : NoPullDebris st) (S : List Effect)
    (hf : WritesIn (DlFoot d) S) (hR : get (run S st) (.part d 0) = none) :
    NoPullDebris (run (S ++ [.mv (.pfile d) (.blob d)]) st) := by
  intro d'
  rw [run_append]
  simp only [run]
  constructor
  · by_cases hd : d' = d
    · subst hd; exact get_apply_mv_src _ _ (by intro h; cases h) _
    · rw [get_apply_of_not_written (by simp [writes]; exact hd), get_run_of_writesIn hf (dlFoot_other hd).1]
      exact (hdeb d').1
  · intro k'
    rw [get_apply_of_not_written (by simp [writes])]
    by_cases hdk : Path.part d' k' = Path.part d 0
    · rw [hdk]; exact hR
    · rw [get_run_of_writesIn hf]
      · exact (hdeb d').2 k'
      · intro hfoot
        rcases hfoot with h | h | h | ⟨_, h⟩
        · cases h
        · exact hdk h
        · cases h
        · cases h

theorem download_noDebris (env : Env) (k : Nat) (d : Digest) (data : Bytes) (st : Store) (hdeb : NoPullDebris st) :
    (download env k d data st).ok = true ∧ NoPullDebris (run (download env k d data st).effs st) := by
  unfold download
  dsimp only
  simp only [(hdeb d).2 0]
  by_cases hz : data.length = 0
  · simp only [hz, ↓reduceIte, true_and]
    apply noDebris_after d st hdeb _ (dlFoot_touch_ftr d 0)
    rw [get_run_of_not_written (by intro e he; simp at he; rcases he with rfl | rfl <;> simp [writes])]
    exact (hdeb d).2 0
  · simp only [hz, ↓reduceIte, true_and]
    apply noDebris_after d st hdeb
    · exact writesIn_append (writesIn_append (writesIn_append (writesIn_append
        (dlFoot_writePart env k d _) (dlFoot_touch_ftr d _)) (dlFoot_pwrites d 0 _))
        (dlFoot_writePart env (k + 1) d _)) (dlFoot_rm d)
    · rw [run_append]; simp [run, apply, get_del]


theorem downloads_ok {hash : Bytes → Digest} (env : Env) (henv : env.hash = hash)
    (hchunk : ∀ bs, (env.chunk bs).flatten = bs) (reg : Digest → Option Bytes)
    (hreg : ∀ d data, reg d = some data → hash data = d) (k : Nat) (ds : List Digest) (st : Store)
    (htot : ∀ d ∈ ds, (reg d).isSome = true) (hinv : Inv hash st) (hdeb : NoPullDebris st) :
    (downloads env reg k ds st).ok = true := by
  induction ds generalizing st k with
  | nil => rfl
  | cons d rest ih =>
    unfold downloads
    have hrest : ∀ d' ∈ rest, (reg d').isSome = true := fun d' h => htot d' (List.mem_cons_of_mem _ h)
    split
    · exact ih _ st hrest hinv hdeb
    · rename_i hp
      cases hr : reg d with
      | none => have := htot d (by simp); simp [hr] at this
      | some data =>
        have hd := download_noDebris env k d data st hdeb
        have hs := download_spec env henv hchunk k d data (hreg d data hr) st (hdeb.partOK d data) (present_false_get hp)
        dsimp only
        rw [dl_verify_eq env henv hchunk k d data (hreg d data hr) st hinv (hdeb.partOK d data) (present_false_get hp),
          andThen_ok, hd.1]
        exact ih (k + 2) _ hrest (seq_preserves_inv hinv hs.1) hd.2

/-- From a store without download debris, with an honest registry that serves every layer of the
manifest, the pull succeeds. -/
theorem pull_ok {hash : Bytes → Digest} (env : Env) (henv : env.hash = hash)
    (hchunk : ∀ bs, (env.chunk bs).flatten = bs)
    (reg : Digest → Option Bytes) (hreg : ∀ d data, reg d = some data → hash data = d)
    (n : Name) (m : Man) (htot : ∀ l ∈ m.all, (reg l.digest).isSome = true)
    (st : Store) (hinv : Inv hash st) (hdeb : NoPullDebris st) :
    (pull env reg n m st).ok = true := by
  have htot' : ∀ d ∈ m.all.map Layer.digest, (reg d).isSome = true := by
    intro d hd; obtain ⟨l, hl, rfl⟩ := List.mem_map.mp hd; exact htot l hl
  have hok := downloads_ok env henv hchunk reg hreg 0 (m.all.map Layer.digest) st htot' hinv hdeb
  unfold pull
  dsimp only
  rw [andThen_ok, andThen_ok, hok, writeManifest_ok, cleanupPull_ok]
  rfl

theorem noDebris_prune (st : Store) : NoPullDebris (prune st) := by
  intro d
  refine ⟨?_, fun k => ?_⟩ <;> rw [get_prune] <;> simp [keepAtPrune]

end OllamaVerif.StoreCrash
