/-
  The writer sorts the keys (`slices.Sort(keys)`): the round trip for key/value lists given in ANY
  order (C05).  `bytesLe` is a total preorder, so `sortKVs` is idempotent and the round-trip
  theorem for sorted input (`decode_encode`) applies to `sortKVs kvs`.
-/
import OllamaVerif.Proofs.GgufRoundTrip

namespace OllamaVerif.Gguf
open OllamaVerif

theorem u8_eq_of_not_lt {x y : UInt8} (h1 : ¬ x < y) (h2 : ¬ y < x) : x = y := by
  apply UInt8.toNat_inj.mp
  rw [UInt8.lt_iff_toNat_lt] at h1 h2
  omega

theorem bytesLe_total : ∀ (a b : Bytes), (bytesLe a b || bytesLe b a) = true := by
  intro a
  induction a with
  | nil => intro b; simp [bytesLe]
  | cons x xs ih =>
    intro b
    cases b with
    | nil => simp [bytesLe]
    | cons y ys =>
      unfold bytesLe
      by_cases h1 : x < y
      · simp [h1]
      · by_cases h2 : y < x
        · simp [h2]
        · simp only [h1, h2, ↓reduceIte]
          exact ih ys

theorem bytesLe_trans : ∀ (a b c : Bytes), bytesLe a b = true → bytesLe b c = true → bytesLe a c = true := by
  intro a
  induction a with
  | nil => intro b c _ _; simp [bytesLe]
  | cons x xs ih =>
    intro b c hab hbc
    cases b with
    | nil => simp [bytesLe] at hab
    | cons y ys =>
      cases c with
      | nil => simp [bytesLe] at hbc
      | cons z zs =>
        unfold bytesLe at hab hbc ⊢
        by_cases hxy : x < y
        · by_cases hyz : y < z
          · have : x < z := UInt8.lt_trans hxy hyz
            simp [this]
          · by_cases hzy : z < y
            · simp [hyz, hzy] at hbc
            · have : y = z := u8_eq_of_not_lt hyz hzy
              subst this; simp [hxy]
        · by_cases hyx : y < x
          · simp [hxy, hyx] at hab
          · have hxy' : x = y := u8_eq_of_not_lt hxy hyx
            subst hxy'
            simp only [hxy, ↓reduceIte] at hab
            by_cases hyz : x < z
            · simp [hyz]
            · by_cases hzy : z < x
              · simp [hyz, hzy] at hbc
              · simp only [hyz, hzy, ↓reduceIte] at hbc ⊢
                exact ih ys zs hab hbc

theorem sortKVs_idem (kvs : List (Bytes × KVal)) : sortKVs (sortKVs kvs) = sortKVs kvs := by
  unfold sortKVs
  apply List.mergeSort_of_pairwise
  apply List.pairwise_mergeSort
  · intro a b c hab hbc; exact bytesLe_trans _ _ _ hab hbc
  · intro a b; exact bytesLe_total _ _

theorem sortKVs_perm (kvs : List (Bytes × KVal)) : (sortKVs kvs).Perm kvs := List.mergeSort_perm _ _

theorem find?_unique {α : Type} {p : α → Bool} {a : α} :
    ∀ {l : List α}, a ∈ l → p a = true → (∀ b ∈ l, p b = true → b = a) → l.find? p = some a := by
  intro l
  induction l with
  | nil => intro h; cases h
  | cons x xs ih =>
    intro ha hp hu
    by_cases hx : p x = true
    · have := hu x (List.mem_cons_self) hx
      subst this
      simp [List.find?, hx]
    · have hne : x ≠ a := by intro h; subst h; exact hx hp
      have ha' : a ∈ xs := by
        rcases List.mem_cons.mp ha with h | h
        · exact absurd h.symm hne
        · exact h
      simp only [List.find?, hx]
      exact ih ha' hp (fun b hb => hu b (List.mem_cons_of_mem _ hb))

/-- looking a key up gives the same answer in every arrangement of a list with distinct keys -/
theorem find?_key_perm {l l' : List (Bytes × KVal)} (hp : l.Perm l') (hnd : (l.map (·.1)).Nodup) (k : Bytes) :
    l'.find? (fun p => p.1 = k) = l.find? (fun p => p.1 = k) := by
  cases h : l.find? (fun p => p.1 = k) with
  | none =>
    rw [List.find?_eq_none] at h ⊢
    intro x hx
    exact h x (hp.mem_iff.mpr hx)
  | some a =>
    have ha : a ∈ l := List.mem_of_find?_eq_some h
    have hpa : (fun p : Bytes × KVal => decide (p.1 = k)) a = true := by
      have := List.find?_some h
      exact this
    refine find?_unique (hp.mem_iff.mp ha) hpa ?_
    intro b hb hpb
    have hb' : b ∈ l := hp.mem_iff.mpr hb
    simp only [decide_eq_true_eq] at hpa hpb
    -- distinct keys: two members with the same key are the same member
    have hinj : ∀ {l : List (Bytes × KVal)}, (l.map (·.1)).Nodup → ∀ x ∈ l, ∀ y ∈ l, x.1 = y.1 → x = y := by
      intro l
      induction l with
      | nil => intro _ x hx; cases hx
      | cons z zs ih =>
        intro hnd x hx y hy hxy
        simp only [List.map_cons, List.nodup_cons, List.mem_map, not_exists, not_and] at hnd
        rcases List.mem_cons.mp hx with hxz | hx' <;> rcases List.mem_cons.mp hy with hyz | hy'
        · rw [hxz, hyz]
        · exact absurd (show y.1 = z.1 by rw [← hxy, hxz]) (hnd.1 y hy')
        · exact absurd (show x.1 = z.1 by rw [hxy, hyz]) (hnd.1 x hx')
        · exact ih hnd.2 x hx' y hy' hxy
    exact hinj hnd b hb' a ha (by rw [hpb, hpa])

theorem alignmentIn_sort (kvs : List (Bytes × KVal)) (hnd : (kvs.map (·.1)).Nodup) :
    alignmentIn (sortKVs kvs) = alignmentIn kvs := by
  unfold alignmentIn
  rw [find?_key_perm (sortKVs_perm kvs).symm hnd keyAlignment]

theorem writerAlignment_sort (strict : Bool) (kvs : List (Bytes × KVal)) (hnd : (kvs.map (·.1)).Nodup) :
    writerAlignment strict (sortKVs kvs) = writerAlignment strict kvs := by
  unfold writerAlignment
  rw [find?_key_perm (sortKVs_perm kvs).symm hnd keyAlignment]

theorem encode_sort (kvs : List (Bytes × KVal)) (ts : List TIn) (hnd : (kvs.map (·.1)).Nodup) :
    encode false (sortKVs kvs) ts = encode false kvs ts := by
  unfold encode
  rw [writerAlignment_sort false kvs hnd]
  have hl : (sortKVs kvs).length = kvs.length := by unfold sortKVs; exact List.length_mergeSort _
  have hh : ∀ align, encHead false align (sortKVs kvs) ts = encHead false align kvs ts := by
    intro align; unfold encHead; rw [sortKVs_idem, hl]
  simp only [hh]

/-- **Round trip for keys given in any order**: what the decoder returns for the file written from
    `kvs` (distinct keys) is the key/values in KEY ORDER, i.e. `sortKVs kvs`, plus the parameter count. -/
theorem decode_encode_any_order (kvs : List (Bytes × KVal)) (ts : List TIn) (file : Bytes) (align : Nat)
    (maxArraySize : Int)
    (hnodup : (kvs.map (·.1)).Nodup)
    (hnoparam : ∀ kv ∈ kvs, kv.1 ≠ keyParamCount)
    (hwkv : ∀ kv ∈ kvs, WfKV kv) (hwt : ∀ t ∈ ts, WfTensor t ∧ WfT t)
    (hnk : kvs.length < two64) (hnt : ts.length < two64)
    (halign : alignmentIn kvs = .ok align) (hpos : 0 < align)
    (hoff : ∀ o ∈ offsets false align ts 0, o < two64)
    (henc : encode false kvs ts = .ok file) (hlen : file.length < two63) :
    decode file maxArraySize none
      = .ok ⟨3, (sortKVs kvs).map (fun kv => (kv.1, toVal (if maxArraySize = 0 then 1024 else maxArraySize) kv.2)) ++
                [(keyParamCount, .scalar 10 (sumParameters (infosOf ts (offsets false align ts 0))))],
             infosOf ts (offsets false align ts 0),
             (encHead false align kvs ts).length + padding (encHead false align kvs ts).length align, file.length⟩ := by
  have hperm := sortKVs_perm kvs
  have hmem : ∀ kv, kv ∈ sortKVs kvs ↔ kv ∈ kvs := fun kv => hperm.mem_iff
  have hl : (sortKVs kvs).length = kvs.length := hperm.length_eq
  have hh : encHead false align (sortKVs kvs) ts = encHead false align kvs ts := by
    unfold encHead; rw [sortKVs_idem, hl]
  have h := decode_encode (sortKVs kvs) ts file align maxArraySize (sortKVs_idem kvs)
    ((hperm.map (·.1)).nodup_iff.mpr hnodup)
    (fun kv hkv => hnoparam kv ((hmem kv).mp hkv))
    (fun kv hkv => hwkv kv ((hmem kv).mp hkv)) hwt (by rw [hl]; exact hnk) hnt
    (by rw [alignmentIn_sort kvs hnodup]; exact halign) hpos hoff
    (by rw [encode_sort kvs ts hnodup]; exact henc) hlen
  simp only [hh] at h
  exact h

end OllamaVerif.Gguf
