/-
  Helper lemmas for C04 (model store): association lists, the reference scans, the `BlobStep` relation
  ("blobs change only where no readable manifest points, and what appears is correctly named") and the
  primitive effects (`Layer.Remove`, `NewLayer`, manifest write/remove).  Core Lean only.
-/
import OllamaVerif.Model.Store
namespace OllamaVerif.Store

theorem aget_adel {α β} [DecidableEq α] (l : List (α × β)) (k k' : α) :
    aget (adel l k) k' = if k' = k then none else aget l k' := by
  induction l with
  | nil => simp [adel, aget]
  | cons p t ih =>
    obtain ⟨a, b⟩ := p
    unfold adel at ih ⊢
    by_cases h : a = k
    · subst h
      simp only [List.filter, ne_eq, not_true_eq_false, decide_false]
      rw [ih]
      by_cases h2 : k' = a
      · simp [h2]
      · simp only [h2, if_false, aget]
        have : ¬ a = k' := fun e => h2 e.symm
        simp [this]
    · simp only [List.filter, ne_eq, h, not_false_eq_true, decide_true, aget]
      rw [ih]
      by_cases h2 : a = k'
      · subst h2; simp [h]
      · simp [h2]

theorem aget_aset {α β} [DecidableEq α] (l : List (α × β)) (k k' : α) (v : β) :
    aget (aset l k v) k' = if k' = k then some v else aget l k' := by
  unfold aset
  simp only [aget]
  by_cases h : k = k'
  · subst h; simp
  · have : ¬ k' = k := fun e => h e.symm
    simp [h, this, aget_adel]

theorem aget_filter_key {α β} [DecidableEq α] (l : List (α × β)) (f : α → Bool) (k : α) :
    aget (l.filter (fun p => f p.1)) k = if f k then aget l k else none := by
  induction l with
  | nil => simp [aget]
  | cons p t ih =>
    obtain ⟨a, b⟩ := p
    by_cases hf : f a = true
    · simp only [List.filter, hf, aget]
      by_cases h : a = k
      · subst h; simp [hf]
      · simp [h, ih]
    · simp only [List.filter, hf, aget]
      by_cases h : a = k
      · subst h; simp [hf, ih]
      · simp [h, ih]

theorem aget_isSome_iff_mem {α β} [DecidableEq α] (l : List (α × β)) (k : α) :
    (aget l k).isSome = true ↔ k ∈ l.map (·.1) := by
  induction l with
  | nil => simp [aget]
  | cons p t ih =>
    obtain ⟨a, b⟩ := p
    by_cases h : a = k
    · subst h; simp [aget]
    · have : ¬ k = a := fun e => h e.symm
      simp [aget, h, ih, this]

/-! ## reading -/

theorem readableAt_eq_some {st : Store} {n : Name} {m : Manifest} :
    st.readableAt n = some m ↔ st.man n = some (.readable m) := by
  unfold Store.readableAt
  split
  · rename_i m' h; rw [h]; simp
  · rename_i h
    constructor
    · intro h'; cases h'
    · intro h'; exact absurd h' (h m)

theorem mem_names_iff {st : Store} {n : Name} : n ∈ st.names ↔ (st.man n).isSome = true := by
  unfold Store.names Store.man
  exact (aget_isSome_iff_mem st.mans n).symm

theorem referenced_iff {st : Store} {d : Digest} :
    st.referenced d = true ↔ ∃ n m, st.man n = some (.readable m) ∧ ∃ l ∈ m.all, l.digest = d := by
  unfold Store.referenced
  rw [List.any_eq_true]
  constructor
  · rintro ⟨n, _, h⟩
    split at h
    · rename_i m hm
      refine ⟨n, m, readableAt_eq_some.mp hm, ?_⟩
      unfold Manifest.mentions at h
      rw [List.any_eq_true] at h
      obtain ⟨l, hl, he⟩ := h
      exact ⟨l, hl, by simpa using he⟩
    · cases h
  · rintro ⟨n, m, hm, l, hl, he⟩
    refine ⟨n, mem_names_iff.mpr (by rw [hm]; rfl), ?_⟩
    rw [readableAt_eq_some.mpr hm]
    unfold Manifest.mentions
    rw [List.any_eq_true]
    exact ⟨l, hl, by simpa using he⟩

theorem keyReferenced_iff {st : Store} {k : String} :
    st.keyReferenced k = true ↔ ∃ n m, st.man n = some (.readable m) ∧ ∃ l ∈ m.all, l.digest.key = k := by
  unfold Store.keyReferenced
  rw [List.any_eq_true]
  constructor
  · rintro ⟨n, _, h⟩
    split at h
    · rename_i m hm
      refine ⟨n, m, readableAt_eq_some.mp hm, ?_⟩
      rw [List.any_eq_true] at h
      obtain ⟨l, hl, he⟩ := h
      exact ⟨l, hl, by simpa using he⟩
    · cases h
  · rintro ⟨n, m, hm, l, hl, he⟩
    refine ⟨n, mem_names_iff.mpr (by rw [hm]; rfl), ?_⟩
    rw [readableAt_eq_some.mpr hm]
    rw [List.any_eq_true]
    exact ⟨l, hl, by simpa using he⟩

/-! ## invariants -/

def Complete (env : Env) (st : Store) (l : Layer) : Prop :=
  ∃ c, st.blob l.digest.key = some c ∧ c.length = l.size ∧ env.hash c = l.digest.hex

def NameInv (env : Env) (st : Store) : Prop :=
  ∀ n m, st.man n = some (.readable m) → ∀ l ∈ m.all, Complete env st l

def BlobsOk (env : Env) (st : Store) : Prop := ∀ k c, st.blob k = some c → env.hash c = k

def CanonM (m : Manifest) : Prop := ∀ l ∈ m.all, l.digest.form = .colon

def Canonical (st : Store) : Prop := ∀ n m, st.man n = some (.readable m) → CanonM m

theorem Canonical.referenced_of_key {st : Store} (hc : Canonical st) {d : Digest} (hd : d.form = .colon)
    (h : st.keyReferenced d.key = true) : st.referenced d = true := by
  obtain ⟨n, m, hm, l, hl, he⟩ := keyReferenced_iff.mp h
  refine referenced_iff.mpr ⟨n, m, hm, l, hl, ?_⟩
  have hf := hc n m hm l hl
  cases hld : l.digest with
  | mk f x =>
    cases d with
    | mk f' x' =>
      simp only [Digest.key, hld] at he
      simp only [hld] at hf
      simp_all

theorem keyReferenced_of_referenced {st : Store} {d : Digest} (h : st.referenced d = true) :
    st.keyReferenced d.key = true := by
  obtain ⟨n, m, hm, l, hl, he⟩ := referenced_iff.mp h
  exact keyReferenced_iff.mpr ⟨n, m, hm, l, hl, by rw [he]⟩

/-! ## the guard: nothing when F16a is repaired, colon spelling on the pinned tree -/

/-- digest `d` may meet `Layer.Remove`: any digest once F16a is repaired, only `sha256:` before -/
def GD (env : Env) (d : Digest) : Prop := env.v.fixAlias = true ∨ d.form = .colon

/-- the guard of the invariant theorems: none once F16a is repaired, `Canonical st` on the pinned tree -/
def Guard (env : Env) (st : Store) : Prop := env.v.fixAlias = true ∨ Canonical st

theorem Guard.gd {env : Env} {st : Store} (hg : Guard env st) {n : Name} {m : Manifest}
    (hm : st.man n = some (.readable m)) {l : Layer} (hl : l ∈ m.all) : GD env l.digest := by
  rcases hg with h | h
  · exact Or.inl h
  · exact Or.inr (h n m hm l hl)

theorem key_of_inUse {env : Env} {st : Store} {d : Digest} (h : env.inUse st d = true) :
    st.keyReferenced d.key = true := by
  unfold Env.inUse at h
  split at h
  · exact h
  · exact keyReferenced_of_referenced h

theorem inUse_of_referenced {env : Env} {st : Store} {d : Digest} (h : st.referenced d = true) :
    env.inUse st d = true := by
  unfold Env.inUse
  split
  · exact keyReferenced_of_referenced h
  · exact h

theorem inUse_of_key {env : Env} {st : Store} (hg : Guard env st) {d : Digest} (hd : GD env d)
    (h : st.keyReferenced d.key = true) : env.inUse st d = true := by
  unfold Env.inUse
  split
  · exact h
  · rename_i hf
    rcases hg with hg | hg
    · exact absurd hg hf
    · rcases hd with hd | hd
      · exact absurd hd hf
      · exact hg.referenced_of_key hd h

theorem recorded_key (env : Env) (d : Digest) : (env.recorded d).key = d.key := by
  unfold Env.recorded; split <;> rfl

theorem recorded_hex (env : Env) (d : Digest) : (env.recorded d).hex = d.hex := by
  unfold Env.recorded; split <;> rfl

theorem GD_recorded {env : Env} {d : Digest} (h : GD env d) : GD env (env.recorded d) := by
  unfold Env.recorded
  split
  · rename_i hf; exact Or.inl hf
  · exact h

theorem inUse_recorded {env : Env} {st : Store} {d : Digest} (h : st.referenced d = true) :
    env.inUse st (env.recorded d) = true := by
  unfold Env.inUse Env.recorded
  split
  · exact (keyReferenced_of_referenced h : st.keyReferenced d.key = true)
  · exact h

/-- blobs change only where no readable manifest points (or where nothing was), and what appears is
    correctly named; manifests do not change -/
structure BlobStep (env : Env) (st st' : Store) : Prop where
  mans : st'.mans = st.mans
  /-- other files of the blobs directory: none appears except under a `plain` (non-blob, non-legacy) name -/
  junk : ∀ p ∈ st'.junk, p ∈ st.junk ∨ ∃ s, p.1 = .plain s
  blobs : ∀ k, st'.blob k = st.blob k ∨
    ((st.keyReferenced k = false ∨ st.blob k = none) ∧ ∀ c, st'.blob k = some c → env.hash c = k)

/-- a file named `sha256:<64 hex>` (legacy spelling, renamed by `fixBlobs` at startup) holds that content -/
def LegacyOk (env : Env) (st : Store) : Prop :=
  ∀ p ∈ st.junk, ∀ r, p.1 = .colon r → isHex64 r = true → env.hash p.2 = r

theorem BlobStep.refl (env : Env) (st : Store) : BlobStep env st st :=
  ⟨rfl, fun _ h => Or.inl h, fun _ => Or.inl rfl⟩

theorem keyReferenced_congr {st st' : Store} (h : st'.mans = st.mans) (k : String) :
    st'.keyReferenced k = st.keyReferenced k := by
  unfold Store.keyReferenced Store.names Store.readableAt Store.man
  rw [h]

theorem referenced_congr {st st' : Store} (h : st'.mans = st.mans) (d : Digest) :
    st'.referenced d = st.referenced d := by
  unfold Store.referenced Store.names Store.readableAt Store.man
  rw [h]

theorem man_congr {st st' : Store} (h : st'.mans = st.mans) (n : Name) : st'.man n = st.man n := by
  unfold Store.man; rw [h]

theorem BlobStep.trans {env : Env} {a b c : Store} (h1 : BlobStep env a b) (h2 : BlobStep env b c) :
    BlobStep env a c := by
  refine ⟨h2.mans.trans h1.mans, fun p hp => (h2.junk p hp).elim (fun h => h1.junk p h) Or.inr, fun k => ?_⟩
  rcases h1.blobs k with e1 | ⟨p1, v1⟩
  · rcases h2.blobs k with e2 | ⟨p2, v2⟩
    · exact Or.inl (e2.trans e1)
    · refine Or.inr ⟨?_, v2⟩
      rw [keyReferenced_congr h1.mans, e1] at p2
      exact p2
  · rcases h2.blobs k with e2 | ⟨_, v2⟩
    · exact Or.inr ⟨p1, fun c hc => v1 c (e2 ▸ hc)⟩
    · exact Or.inr ⟨p1, v2⟩

theorem BlobStep.legacy {env : Env} {st st' : Store} (h : BlobStep env st st') (hl : LegacyOk env st) :
    LegacyOk env st' := by
  intro p hp r hr hx
  rcases h.junk p hp with h' | ⟨s, h'⟩
  · exact hl p h' r hr hx
  · rw [h'] at hr; cases hr

theorem BlobStep.blobsOk {env : Env} {st st' : Store} (h : BlobStep env st st') (hb : BlobsOk env st) :
    BlobsOk env st' := by
  intro k c hc
  rcases h.blobs k with e | ⟨_, v⟩
  · exact hb k c (e ▸ hc)
  · exact v c hc

/-- the frame half: a blob some readable manifest points to is untouched -/
theorem BlobStep.keep {env : Env} {st st' : Store} (h : BlobStep env st st') {n : Name} {m : Manifest}
    (hm : st.man n = some (.readable m)) {l : Layer} (hl : l ∈ m.all) {c : Bytes}
    (hc : st.blob l.digest.key = some c) : st'.blob l.digest.key = some c := by
  rcases h.blobs l.digest.key with e | ⟨p, _⟩
  · rw [e, hc]
  · rcases p with p | p
    · have : st.keyReferenced l.digest.key = true := keyReferenced_iff.mpr ⟨n, m, hm, l, hl, rfl⟩
      rw [this] at p; cases p
    · rw [hc] at p; cases p

theorem BlobStep.nameInv {env : Env} {st st' : Store} (h : BlobStep env st st') (hi : NameInv env st) :
    NameInv env st' := by
  intro n m hm l hl
  rw [man_congr h.mans] at hm
  obtain ⟨c, hc, hlen, hh⟩ := hi n m hm l hl
  exact ⟨c, h.keep hm hl hc, hlen, hh⟩

theorem BlobStep.canonical {env : Env} {st st' : Store} (h : BlobStep env st st') (hc : Canonical st) :
    Canonical st' := by
  intro n m hm
  rw [man_congr h.mans] at hm
  exact hc n m hm

theorem BlobStep.guard {env : Env} {st st' : Store} (h : BlobStep env st st') (hg : Guard env st) :
    Guard env st' := hg.imp id h.canonical

theorem inUse_congr {env : Env} {st st' : Store} (h : st'.mans = st.mans) (d : Digest) :
    env.inUse st' d = env.inUse st d := by
  unfold Env.inUse; rw [keyReferenced_congr h, referenced_congr h]


/-! ## primitive effects -/

theorem blob_adel (st : Store) (k k' : String) :
    (Store.blob { st with blobs := adel st.blobs k } k') = if k' = k then none else st.blob k' := by
  unfold Store.blob; exact aget_adel _ _ _

theorem layerRemove_step (env : Env) {st : Store} (hg : Guard env st) {d : Digest} (hd : GD env d) :
    BlobStep env st (layerRemove env st d) := by
  unfold layerRemove
  by_cases hr : env.inUse st d = true
  · simp only [hr, if_true]; exact BlobStep.refl env st
  · have hr' : env.inUse st d = false := by cases h : env.inUse st d <;> simp_all
    simp only [hr', Bool.false_eq_true, if_false]
    refine ⟨rfl, fun _ h => Or.inl h, fun k => ?_⟩
    rw [blob_adel]
    by_cases hk : k = d.key
    · subst hk
      refine Or.inr ⟨Or.inl ?_, by simp⟩
      cases hkr : st.keyReferenced d.key with
      | false => rfl
      | true => exact absurd (inUse_of_key hg hd hkr) hr
    · simp [hk]

theorem removeLayers_step (env : Env) (ls : List Layer) {st : Store} (hg : Guard env st)
    (hd : ∀ l ∈ ls, GD env l.digest) :
    BlobStep env st (removeLayers env st ls) := by
  induction ls generalizing st with
  | nil => exact BlobStep.refl env st
  | cons l t ih =>
    unfold removeLayers
    simp only [List.foldl]
    have h1 := layerRemove_step env hg (hd l (by simp))
    have := ih (st := layerRemove env st l.digest) (h1.guard hg) (fun x hx => hd x (by simp [hx]))
    exact h1.trans this

theorem gcOld_step (env : Env) (ls : List Layer) {st : Store} (hg : Guard env st)
    (hd : ∀ l ∈ ls, GD env l.digest) : BlobStep env st (gcOld env st ls) := by
  unfold gcOld
  split
  · exact BlobStep.refl env st
  · exact removeLayers_step env ls hg hd

theorem layerRemove_noop {env : Env} {st : Store} {d : Digest} (h : env.inUse st d = true) :
    layerRemove env st d = st := by
  unfold layerRemove; simp [h]

theorem removeLayers_noop {env : Env} (ls : List Layer) {st : Store} (h : ∀ l ∈ ls, env.inUse st l.digest = true) :
    removeLayers env st ls = st := by
  induction ls with
  | nil => rfl
  | cons l t ih =>
    unfold removeLayers
    simp only [List.foldl]
    rw [layerRemove_noop (h l (by simp))]
    exact ih (fun x hx => h x (by simp [hx]))

theorem blob_aset (st : Store) (k k' : String) (c : Bytes) :
    (Store.blob { st with blobs := aset st.blobs k c } k') = if k' = k then some c else st.blob k' := by
  unfold Store.blob; exact aget_aset _ _ _ _

theorem putBlob_blob (env : Env) (st : Store) (c : Bytes) (k : String) :
    (putBlob env st c).blob k = if k = env.hash c ∧ st.blob (env.hash c) = none then some c else st.blob k := by
  unfold putBlob
  split
  · rename_i x hx; simp [hx]
  · rename_i hx
    rw [blob_aset]
    by_cases hk : k = env.hash c
    · simp [hk, hx]
    · simp [hk]

theorem putBlob_mans (env : Env) (st : Store) (c : Bytes) : (putBlob env st c).mans = st.mans := by
  unfold putBlob; split <;> rfl

theorem putBlob_step (env : Env) (st : Store) (c : Bytes) : BlobStep env st (putBlob env st c) := by
  refine ⟨putBlob_mans env st c, fun p hp => Or.inl (by unfold putBlob at hp; split at hp <;> exact hp), fun k => ?_⟩
  rw [putBlob_blob]
  by_cases h : k = env.hash c ∧ st.blob (env.hash c) = none
  · obtain ⟨h1, h2⟩ := h
    subst h1
    simp only [h2, and_self, if_true]
    refine Or.inr ⟨Or.inr trivial, ?_⟩
    intro c' hc'
    injection hc' with e
    rw [← e]
  · simp [h]

/-- after `putBlob` the content's key holds something of the same hash -/
theorem putBlob_present (env : Env) (st : Store) (c : Bytes) :
    ∃ c', (putBlob env st c).blob (env.hash c) = some c' ∧ (st.blob (env.hash c) = none → c' = c) ∧
      (∀ x, st.blob (env.hash c) = some x → c' = x) := by
  rw [putBlob_blob]
  cases h : st.blob (env.hash c) with
  | none => exact ⟨c, by simp, fun _ => rfl, fun x hx => by cases hx⟩
  | some x =>
    refine ⟨x, by simp, ?_, ?_⟩
    · intro h'; cases h'
    · intro y hy; exact Option.some.inj hy

theorem setManifest_man (st : Store) (n n' : Name) (f : MFile) :
    (setManifest st n f).man n' = if n' = n then some f else st.man n' := by
  unfold setManifest Store.man; exact aget_aset _ _ _ _

theorem delManifest_man (st : Store) (n n' : Name) :
    (delManifest st n).man n' = if n' = n then none else st.man n' := by
  unfold delManifest Store.man; exact aget_adel _ _ _

theorem setManifest_blob (st : Store) (n : Name) (f : MFile) (k : String) :
    (setManifest st n f).blob k = st.blob k := rfl

theorem delManifest_blob (st : Store) (n : Name) (k : String) : (delManifest st n).blob k = st.blob k := rfl

theorem Complete.mono_blob {env : Env} {st st' : Store} {l : Layer} (h : Complete env st l)
    (hb : ∀ c, st.blob l.digest.key = some c → st'.blob l.digest.key = some c) : Complete env st' l := by
  obtain ⟨c, hc, h1, h2⟩ := h
  exact ⟨c, hb c hc, h1, h2⟩

theorem setManifest_nameInv {env : Env} {st : Store} (hi : NameInv env st) (n : Name) (f : MFile)
    (hf : ∀ m, f = .readable m → ∀ l ∈ m.all, Complete env st l) : NameInv env (setManifest st n f) := by
  intro n' m hm l hl
  rw [setManifest_man] at hm
  by_cases h : n' = n
  · simp only [h, if_true] at hm
    injection hm with e
    exact (hf m e l hl).mono_blob (fun c hc => hc)
  · simp only [h, if_false] at hm
    exact (hi n' m hm l hl).mono_blob (fun c hc => hc)

theorem setManifest_canonical {st : Store} (hc : Canonical st) (n : Name) (f : MFile)
    (hf : ∀ m, f = .readable m → CanonM m) : Canonical (setManifest st n f) := by
  intro n' m hm
  rw [setManifest_man] at hm
  by_cases h : n' = n
  · simp only [h, if_true] at hm
    injection hm with e
    exact hf m e
  · simp only [h, if_false] at hm
    exact hc n' m hm

theorem Guard.setManifest {env : Env} {st : Store} (hg : Guard env st) (n : Name) (f : MFile)
    (hf : ∀ m, f = .readable m → ∀ l ∈ m.all, GD env l.digest) : Guard env (setManifest st n f) := by
  rcases hg with h | h
  · exact Or.inl h
  · by_cases hv : env.v.fixAlias = true
    · exact Or.inl hv
    · refine Or.inr (setManifest_canonical h n f (fun m e l hl => ?_))
      rcases hf m e l hl with h' | h'
      · exact absurd h' hv
      · exact h'

theorem delManifest_nameInv {env : Env} {st : Store} (hi : NameInv env st) (n : Name) :
    NameInv env (delManifest st n) := by
  intro n' m hm l hl
  rw [delManifest_man] at hm
  by_cases h : n' = n
  · simp [h] at hm
  · simp only [h, if_false] at hm
    exact (hi n' m hm l hl).mono_blob (fun c hc => hc)

theorem delManifest_canonical {st : Store} (hc : Canonical st) (n : Name) : Canonical (delManifest st n) := by
  intro n' m hm
  rw [delManifest_man] at hm
  by_cases h : n' = n
  · simp [h] at hm
  · simp only [h, if_false] at hm
    exact hc n' m hm

theorem Guard.delManifest {env : Env} {st : Store} (hg : Guard env st) (n : Name) :
    Guard env (delManifest st n) := hg.imp id (fun h => delManifest_canonical h n)

/-! ## createModel -/

/-- `hash` has no collisions (needed only for the SIZE clause of completeness when `NewLayer` finds a file
    of the same name already present) -/
def HashInj (env : Env) : Prop := ∀ a b, env.hash a = env.hash b → a = b

theorem Complete.putBlob {env : Env} {st : Store} {l : Layer} (h : Complete env st l) (c : Bytes) :
    Complete env (putBlob env st c) l := by
  refine h.mono_blob (fun x hx => ?_)
  rw [putBlob_blob]
  by_cases hk : l.digest.key = env.hash c ∧ st.blob (env.hash c) = none
  · obtain ⟨h1, h2⟩ := hk
    rw [← h1, hx] at h2; cases h2
  · simp [hk, hx]

theorem newLayer_complete {env : Env} (hinj : HashInj env) {st : Store} (hb : BlobsOk env st) (c : Bytes)
    (media : Media) : Complete env (putBlob env st c) ⟨media, ⟨.colon, env.hash c⟩, c.length⟩ := by
  obtain ⟨c', h1, h2, h3⟩ := putBlob_present env st c
  have : c' = c := by
    cases hx : st.blob (env.hash c) with
    | none => exact h2 hx
    | some x =>
      have := h3 x hx
      subst this
      exact hinj _ _ (hb _ _ hx)
  subst this
  exact ⟨c', h1, rfl, rfl⟩


theorem layerRemove_mans (env : Env) (st : Store) (d : Digest) : (layerRemove env st d).mans = st.mans := by
  unfold layerRemove; split <;> rfl

theorem removeLayers_mans (env : Env) (ls : List Layer) (st : Store) : (removeLayers env st ls).mans = st.mans := by
  induction ls generalizing st with
  | nil => rfl
  | cons l t ih =>
    unfold removeLayers
    simp only [List.foldl]
    exact (ih (layerRemove env st l.digest)).trans (layerRemove_mans env st l.digest)

theorem gcOld_mans (env : Env) (ls : List Layer) (st : Store) : (gcOld env st ls).mans = st.mans := by
  unfold gcOld
  split
  · rfl
  · exact removeLayers_mans env ls st

theorem layerRemove_blob_keep {env : Env} {st : Store} {d : Digest} {k : String}
    (h : env.inUse st d = true ∨ d.key ≠ k) : (layerRemove env st d).blob k = st.blob k := by
  unfold layerRemove
  split
  · rfl
  · rename_i hu
    rw [blob_adel]
    rcases h with h | h
    · exact absurd h hu
    · have : ¬ k = d.key := fun e => h e.symm
      simp [this]

theorem removeLayers_blob_keep {env : Env} (R : List Layer) {st : Store} {k : String}
    (h : ∀ a ∈ R, env.inUse st a.digest = true ∨ a.digest.key ≠ k) :
    (removeLayers env st R).blob k = st.blob k := by
  induction R generalizing st with
  | nil => rfl
  | cons a t ih =>
    unfold removeLayers
    simp only [List.foldl]
    have h1 := layerRemove_blob_keep (h a (by simp))
    have := ih (st := layerRemove env st a.digest) (fun x hx => by
      rw [inUse_congr (layerRemove_mans env st a.digest)]
      exact h x (by simp [hx]))
    unfold removeLayers at this
    rw [this, h1]

theorem mem_removable {env : Env} {ls : List Layer} {μ : Media} {a : Layer} (h : a ∈ removable env ls μ) :
    a ∈ ls ∧ a.media = μ ∧
    (env.v.fixKeep = true → ∀ x ∈ ls, x.media ≠ μ → x.digest.key ≠ a.digest.key) := by
  unfold removable at h
  simp only [List.mem_filter, Bool.and_eq_true, decide_eq_true_eq, Bool.or_eq_true, Bool.not_eq_true'] at h
  obtain ⟨h1, h2, h3⟩ := h
  refine ⟨h1, h2, fun hk x hx hm hkey => ?_⟩
  rcases h3 with h3 | h3
  · rw [hk] at h3; cases h3
  · have : (ls.any fun x => decide (x.media ≠ μ) && x.digest.key == a.digest.key) = true := by
      rw [List.any_eq_true]
      exact ⟨x, hx, by simp [hm, hkey]⟩
    rw [this] at h3; cases h3

/-- working-list invariant of `createModel`.  `base0` is the list `createModel` started from and `μs` the
    media types whose layers may still be dropped.
    `safe`: a layer that may still be dropped is in use by a stored manifest, or no layer of another media type
    in the list is backed by the same blob — or N2 is repaired and `removable` itself takes care of it. -/
structure WL (env : Env) (st : Store) (base0 ls : List Layer) (μs : Media → Prop) : Prop where
  complete : ∀ l ∈ ls, Complete env st l
  gd : ∀ l ∈ ls, GD env l.digest
  safe : ∀ a ∈ ls, μs a.media → env.v.fixKeep = true ∨ env.inUse st a.digest = true ∨
    ∀ x ∈ ls, x.media ≠ a.media → x.digest.key ≠ a.digest.key
  orig : ∀ a ∈ ls, μs a.media → a ∈ base0

/-- what has to be known about a content `c` that is about to be stored while layers of the media types
    `μs'` may still be dropped later -/
def Fresh (env : Env) (st : Store) (ls : List Layer) (μs' : Media → Prop) (c : Bytes) : Prop :=
  ∀ a ∈ ls, μs' a.media → env.v.fixKeep = true ∨ env.inUse st a.digest = true ∨ env.hash c ≠ a.digest.key

theorem replaceLayer_snd (env : Env) (st : Store) (ls : List Layer) (media : Media) (c : Bytes) :
    (replaceLayer env st ls media c).2 =
      ls.filter (fun l => l.media ≠ media) ++ [⟨media, ⟨.colon, env.hash c⟩, c.length⟩] := by
  unfold replaceLayer newLayer
  rfl

theorem replaceLayer_fst (env : Env) (st : Store) (ls : List Layer) (media : Media) (c : Bytes) :
    (replaceLayer env st ls media c).1 = putBlob env (removeLayers env st (removable env ls media)) c := by
  unfold replaceLayer newLayer
  rfl

/-- dropping the layers of one media type: a `BlobStep` that leaves the kept layers complete -/
theorem dropLayers_spec {env : Env} {st : Store} {base0 ls : List Layer} {μs : Media → Prop}
    (hg : Guard env st) (w : WL env st base0 ls μs) (media : Media) (hμ : μs media) :
    BlobStep env st (removeLayers env st (removable env ls media)) ∧
    ∀ x ∈ ls, x.media ≠ media → Complete env (removeLayers env st (removable env ls media)) x := by
  refine ⟨removeLayers_step env _ hg (fun l hl => w.gd l (mem_removable hl).1), ?_⟩
  intro x hx hm
  refine (w.complete x hx).mono_blob (fun c hc => ?_)
  rw [removeLayers_blob_keep]
  · exact hc
  · intro a ha
    obtain ⟨ha1, ha2, ha3⟩ := mem_removable ha
    rcases w.safe a ha1 (ha2 ▸ hμ) with hk | hu | hap
    · exact Or.inr (fun e => ha3 hk x hx hm e.symm)
    · exact Or.inl hu
    · exact Or.inr (fun e => hap x hx (ha2 ▸ hm) e.symm)

theorem replaceLayer_WL {env : Env} (hinj : HashInj env) {st : Store} {base0 ls : List Layer}
    {μs μs' : Media → Prop} (hb : BlobsOk env st) (hg : Guard env st) (w : WL env st base0 ls μs)
    (media : Media) (hμ : μs media) (hsub : ∀ x, μs' x → μs x ∧ x ≠ media) (c : Bytes)
    (hc : Fresh env st ls μs' c) :
    BlobStep env st (replaceLayer env st ls media c).1 ∧
    WL env (replaceLayer env st ls media c).1 base0 (replaceLayer env st ls media c).2 μs' := by
  obtain ⟨s1, k1⟩ := dropLayers_spec hg w media hμ
  rw [replaceLayer_fst, replaceLayer_snd]
  have hb1 := s1.blobsOk hb
  have s2 := putBlob_step env (removeLayers env st (removable env ls media)) c
  have s12 := s1.trans s2
  refine ⟨s12, ?_, ?_, ?_, ?_⟩
  · intro l hl
    simp only [List.mem_append, List.mem_filter, List.mem_singleton, decide_eq_true_eq] at hl
    rcases hl with hl | hl
    · exact (k1 l hl.1 hl.2).putBlob c
    · subst hl; exact newLayer_complete hinj hb1 c media
  · intro l hl
    simp only [List.mem_append, List.mem_filter, List.mem_singleton] at hl
    rcases hl with hl | hl
    · exact w.gd l hl.1
    · subst hl; exact Or.inr rfl
  · intro a ha hm
    simp only [List.mem_append, List.mem_filter, List.mem_singleton, decide_eq_true_eq] at ha
    rcases ha with ha | ha
    · rw [inUse_congr s12.mans]
      rcases w.safe a ha.1 (hsub _ hm).1 with hk | hu | hap
      · exact Or.inl hk
      · exact Or.inr (Or.inl hu)
      · rcases hc a ha.1 hm with hk | hu | hne
        · exact Or.inl hk
        · exact Or.inr (Or.inl hu)
        · refine Or.inr (Or.inr (fun x hx hxm => ?_))
          simp only [List.mem_append, List.mem_filter, List.mem_singleton, decide_eq_true_eq] at hx
          rcases hx with hx | hx
          · exact hap x hx.1 hxm
          · subst hx; exact hne
    · subst ha; exact absurd rfl (hsub _ hm).2
  · intro a ha hm
    simp only [List.mem_append, List.mem_filter, List.mem_singleton, decide_eq_true_eq] at ha
    rcases ha with ha | ha
    · exact w.orig a ha.1 (hsub _ hm).1
    · subst ha; exact absurd rfl (hsub _ hm).2

theorem WL.weaken {env : Env} {st : Store} {base0 ls : List Layer} {μs μs' : Media → Prop}
    (w : WL env st base0 ls μs) (h : ∀ x, μs' x → μs x) : WL env st base0 ls μs' :=
  ⟨w.complete, w.gd, fun a ha hm => w.safe a ha (h _ hm), fun a ha hm => w.orig a ha (h _ hm)⟩


theorem stepTemplate_spec {env : Env} (hinj : HashInj env) {st : Store} {base0 ls : List Layer}
    {μs : Media → Prop} (hb : BlobsOk env st) (hg : Guard env st) (w : WL env st base0 ls μs)
    (hμ : μs .template) (t : Option (Bytes × Bool))
    (hc : ∀ c ok, t = some (c, ok) → Fresh env st ls (fun x => μs x ∧ x ≠ .template) c) :
    BlobStep env st (stepTemplate env st ls t).1 ∧
    ∀ ls', (stepTemplate env st ls t).2 = some ls' →
      WL env (stepTemplate env st ls t).1 base0 ls' (fun x => μs x ∧ x ≠ .template) := by
  cases t with
  | none =>
    simp only [stepTemplate]
    exact ⟨BlobStep.refl env st, fun ls' h => by injection h with e; subst e; exact w.weaken (fun _ h => h.1)⟩
  | some tb =>
    obtain ⟨c, ok⟩ := tb
    cases ok with
    | false =>
      simp only [stepTemplate, Bool.false_eq_true, if_false]
      exact ⟨(dropLayers_spec hg w .template hμ).1, fun ls' h => by cases h⟩
    | true =>
      simp only [stepTemplate, if_true]
      obtain ⟨s1, w1⟩ := replaceLayer_WL hinj hb hg w .template hμ (fun _ h => h) c (hc c true rfl)
      exact ⟨s1, fun ls' h => by injection h with e; subst e; exact w1⟩

theorem stepSystem_spec {env : Env} (hinj : HashInj env) {st : Store} {base0 ls : List Layer}
    {μs : Media → Prop} (hb : BlobsOk env st) (hg : Guard env st) (w : WL env st base0 ls μs)
    (hμ : μs .system) (s : Option Bytes)
    (hc : ∀ c, s = some c → Fresh env st ls (fun x => μs x ∧ x ≠ .system) c) :
    BlobStep env st (stepSystem env st ls s).1 ∧
      WL env (stepSystem env st ls s).1 base0 (stepSystem env st ls s).2 (fun x => μs x ∧ x ≠ .system) := by
  cases s with
  | none =>
    simp only [stepSystem]
    exact ⟨BlobStep.refl env st, w.weaken (fun _ h => h.1)⟩
  | some c =>
    simp only [stepSystem]
    exact replaceLayer_WL hinj hb hg w .system hμ (fun _ h => h) c (hc c rfl)

/-- `setLicense`: only appends -/
theorem stepLicense_spec {env : Env} (hinj : HashInj env) (lics : List Bytes) {st : Store}
    {base0 ls : List Layer} {μs : Media → Prop} (hb : BlobsOk env st) (w : WL env st base0 ls μs)
    (hl : ¬ μs .license) (hc : ∀ c ∈ lics, Fresh env st ls μs c) :
    BlobStep env st (stepLicense env st ls lics).1 ∧
      WL env (stepLicense env st ls lics).1 base0 (stepLicense env st ls lics).2 μs := by
  induction lics generalizing st ls with
  | nil => exact ⟨BlobStep.refl env st, w⟩
  | cons c t ih =>
    simp only [stepLicense, newLayer]
    have s1 := putBlob_step env st c
    have w1 : WL env (putBlob env st c) base0 (ls ++ [⟨.license, ⟨.colon, env.hash c⟩, c.length⟩]) μs := by
      refine ⟨?_, ?_, ?_, ?_⟩
      · intro l hl'
        simp only [List.mem_append, List.mem_singleton] at hl'
        rcases hl' with hl' | hl'
        · exact (w.complete l hl').putBlob c
        · subst hl'; exact newLayer_complete hinj hb c .license
      · intro l hl'
        simp only [List.mem_append, List.mem_singleton] at hl'
        rcases hl' with hl' | hl'
        · exact w.gd l hl'
        · subst hl'; exact Or.inr rfl
      · intro a ha hm
        simp only [List.mem_append, List.mem_singleton] at ha
        rcases ha with ha | ha
        · rw [inUse_congr s1.mans]
          rcases w.safe a ha hm with hk | hu | hap
          · exact Or.inl hk
          · exact Or.inr (Or.inl hu)
          · rcases hc c (by simp) a ha hm with hk | hu | hne
            · exact Or.inl hk
            · exact Or.inr (Or.inl hu)
            · refine Or.inr (Or.inr (fun x hx hxm => ?_))
              simp only [List.mem_append, List.mem_singleton] at hx
              rcases hx with hx | hx
              · exact hap x hx hxm
              · subst hx; exact hne
        · subst ha; exact absurd hm hl
      · intro a ha hm
        simp only [List.mem_append, List.mem_singleton] at ha
        rcases ha with ha | ha
        · exact w.orig a ha hm
        · subst ha; exact absurd hm hl
    have hc' : ∀ c' ∈ t, Fresh env (putBlob env st c) (ls ++ [⟨.license, ⟨.colon, env.hash c⟩, c.length⟩]) μs c' := by
      intro c' hc' a ha hm
      simp only [List.mem_append, List.mem_singleton] at ha
      rcases ha with ha | ha
      · rw [inUse_congr s1.mans]; exact hc c' (by simp [hc']) a ha hm
      · subst ha; exact absurd hm hl
    obtain ⟨s2, w2⟩ := ih (s1.blobsOk hb) w1 hc'
    exact ⟨s1.trans s2, w2⟩

theorem stepParams_spec {env : Env} (hinj : HashInj env) {st : Store} {base0 ls : List Layer}
    {μs : Media → Prop} (hb : BlobsOk env st) (hg : Guard env st) (w : WL env st base0 ls μs)
    (hμ : μs .params) (p : List (String × String))
    (hc : ∀ q, Fresh env st ls (fun x => μs x ∧ x ≠ .params) (encodeParams q)) :
    BlobStep env st (stepParams env st ls p).1 ∧
    ∀ ls', (stepParams env st ls p).2 = some ls' →
      WL env (stepParams env st ls p).1 base0 ls' (fun x => μs x ∧ x ≠ .params) := by
  unfold stepParams
  split
  · exact ⟨BlobStep.refl env st, fun ls' h => by cases h⟩
  · exact ⟨BlobStep.refl env st, fun ls' h => by injection h with e; subst e; exact w.weaken (fun _ h => h.1)⟩
  · rename_i q _ _
    obtain ⟨s1, w1⟩ := replaceLayer_WL hinj hb hg w .params hμ (fun _ h => h) (encodeParams q) (hc q)
    simp only
    exact ⟨s1, fun ls' h => by injection h with e; subst e; exact w1⟩

/-- `setMessages`: nothing for an empty list, else drop-then-store; afterwards nothing more is dropped -/
theorem stepMessages_spec {env : Env} (hinj : HashInj env) {st : Store} {base0 ls : List Layer}
    {μs : Media → Prop} (hb : BlobsOk env st) (hg : Guard env st) (w : WL env st base0 ls μs)
    (hμ : μs .messages) (ms : List (String × String)) :
    BlobStep env st (stepMessages env st ls ms).1 ∧
      WL env (stepMessages env st ls ms).1 base0 (stepMessages env st ls ms).2 (fun _ => False) := by
  cases ms with
  | nil =>
    simp only [stepMessages]
    exact ⟨BlobStep.refl env st, w.weaken (fun _ h => h.elim)⟩
  | cons m t =>
    simp only [stepMessages]
    exact replaceLayer_WL (μs' := fun _ => False) hinj hb hg w .messages hμ (fun _ h => h.elim) _
      (fun _ _ h => h.elim)

/-- the contents `createModel` stores BEFORE it drops the layers of a media type -/
def earlier (r : CreateReq) : Media → List Bytes
  | .system => (r.template.map (·.1)).toList
  | .params => (r.template.map (·.1)).toList ++ r.system.toList ++ r.licenses
  | .messages => (r.template.map (·.1)).toList ++ r.system.toList ++ r.licenses
  | _ => []

/-- the media types whose layers `createModel` may drop (`removeLayer`): template, system, params, messages -/
def μ3 : Media → Prop := fun x => x = .template ∨ x = .system ∨ x = .params ∨ x = .messages

/-- **The guard on a create request (pinned `removeLayer`, N2).**  Every layer of the starting list that
    `createModel` may drop (template / system / params / messages) is in use by a stored manifest, or — not
    for messages layers, which are dropped after the merged parameters were stored — its blob backs no
    layer of another media type in the list and is not the blob of a text the request stores before the
    drop.  Holds trivially when N2 is repaired, for every `from` create, and for files without a recognised
    chat template. -/
def Apart (env : Env) (st : Store) (ls : List Layer) (r : CreateReq) : Prop :=
  ∀ a ∈ ls, μ3 a.media → env.v.fixKeep = true ∨ env.inUse st a.digest = true ∨
    (a.media ≠ .messages ∧ (∀ x ∈ ls, x.media ≠ a.media → x.digest.key ≠ a.digest.key) ∧
     ∀ c ∈ earlier r a.media, env.hash c ≠ a.digest.key)

/-- what `createModel` does to the store: a `BlobStep`, then (on success) one manifest whose layers are all
    complete -/
theorem createModel_spec {env : Env} (hinj : HashInj env) {st : Store} (name : Name)
    (base : List (Layer × Option Meta)) (r : CreateReq) (hb : BlobsOk env st) (hg : Guard env st)
    (hcomp : ∀ l ∈ base.map (·.1), Complete env st l) (hgd : ∀ l ∈ base.map (·.1), GD env l.digest)
    (ha : Apart env st (base.map (·.1)) r) :
    ∃ st0, BlobStep env st st0 ∧
      (((createModel env st name base r).1 = st0 ∧ (createModel env st name base r).2.isSome = true) ∨
       (∃ m, (createModel env st name base r) = (setManifest st0 name (.readable m), none) ∧
          (∀ l ∈ m.all, GD env l.digest) ∧ ∀ l ∈ m.all, Complete env st0 l)) := by
  have w : WL env st (base.map (·.1)) (base.map (·.1)) μ3 :=
    ⟨hcomp, hgd, fun a h hm => (ha a h hm).imp id (fun h' => h'.imp id (fun h'' => h''.2.1)), fun a h _ => h⟩
  -- the static part of the guard, for any later state with the same manifests
  have fresh : ∀ (st' : Store) (ls : List Layer) (μs' : Media → Prop) (c : Bytes), st'.mans = st.mans →
      (∀ a ∈ ls, μs' a.media → a ∈ base.map (·.1)) → (∀ x, μs' x → μ3 x ∧ c ∈ earlier r x) →
      Fresh env st' ls μs' c := by
    intro st' ls μs' c hm horig hμ a hal hma
    rw [inUse_congr hm]
    rcases ha a (horig a hal hma) (hμ _ hma).1 with hk | hu | hap
    · exact Or.inl hk
    · exact Or.inr (Or.inl hu)
    · exact Or.inr (Or.inr (hap.2.2 c (hμ _ hma).2))
  unfold createModel
  simp only
  obtain ⟨s1, w1⟩ := stepTemplate_spec hinj hb hg w (Or.inl rfl) r.template (fun c ok hc =>
    fresh st _ _ c rfl (fun a h hm => w.orig a h hm.1) (fun x hx => ⟨hx.1, by
      rcases hx.1 with h | h | h | h
      · exact absurd h hx.2
      · subst h; simp [earlier, hc]
      · subst h; simp [earlier, hc]
      · subst h; simp [earlier, hc]⟩))
  cases h1 : stepTemplate env st (base.map (·.1)) r.template with
  | mk st1 o1 =>
    rw [h1] at s1 w1
    simp only at s1 w1
    cases o1 with
    | none => exact ⟨st1, s1, Or.inl ⟨rfl, rfl⟩⟩
    | some l1 =>
      simp only
      have w1 := w1 l1 rfl
      have hb1 := s1.blobsOk hb
      have hg1 := s1.guard hg
      obtain ⟨s2, w2⟩ := stepSystem_spec hinj hb1 hg1 w1 ⟨Or.inr (Or.inl rfl), by decide⟩ r.system (fun c hc =>
        fresh st1 _ _ c s1.mans (fun a h hm => w1.orig a h hm.1) (fun x hx => ⟨hx.1.1, by
          rcases hx.1.1 with h | h | h | h
          · exact absurd h hx.1.2
          · exact absurd h hx.2
          · subst h; simp [earlier, hc]
          · subst h; simp [earlier, hc]⟩))
      cases h2 : stepSystem env st1 l1 r.system with
      | mk st2a l2a =>
        rw [h2] at s2 w2
        simp only at s2 w2
        have hb2a := s2.blobsOk hb1
        obtain ⟨s2l, w2l⟩ := stepLicense_spec hinj r.licenses hb2a w2
          (by intro h; rcases h.1.1 with h | h | h | h <;> cases h) (fun c hc =>
          fresh st2a _ _ c (s2.mans.trans s1.mans) (fun a h hm => w2.orig a h hm) (fun x hx => ⟨hx.1.1, by
            rcases hx.1.1 with h | h | h | h
            · exact absurd h hx.1.2
            · exact absurd h hx.2
            · subst h; simp [earlier, hc]
            · subst h; simp [earlier, hc]⟩))
        cases h2l : stepLicense env st2a l2a r.licenses with
        | mk st2 l2 =>
          rw [h2l] at s2l w2l
          simp only at s2l w2l
          have hb2 := s2l.blobsOk hb2a
          have hg2 := s2l.guard (s2.guard hg1)
          obtain ⟨s3, w3⟩ := stepParams_spec hinj hb2 hg2 w2l
            ⟨⟨Or.inr (Or.inr (Or.inl rfl)), by decide⟩, by decide⟩ r.params (by
              -- only messages layers may still be dropped after this: in use, or N2 is repaired
              intro q a hal hma
              have hmsg : a.media = .messages := by
                rcases hma.1.1.1 with h | h | h | h
                · exact absurd h hma.1.1.2
                · exact absurd h hma.1.2
                · exact absurd h hma.2
                · exact h
              rw [inUse_congr ((s2l.mans.trans s2.mans).trans s1.mans)]
              rcases ha a (w2l.orig a hal hma.1) hma.1.1.1 with hk | hu | hap
              · exact Or.inl hk
              · exact Or.inr (Or.inl hu)
              · exact absurd hmsg hap.1)
          cases h3 : stepParams env st2 l2 r.params with
          | mk st3a o3 =>
            rw [h3] at s3 w3
            simp only at s3 w3
            have s03a := ((s1.trans s2).trans s2l).trans s3
            cases o3 with
            | none => exact ⟨st3a, s03a, Or.inl ⟨rfl, rfl⟩⟩
            | some l3a =>
              simp only
              have w3a := w3 l3a rfl
              have hb3a := s3.blobsOk hb2
              have hg3a := s3.guard hg2
              obtain ⟨s3m, w3m⟩ := stepMessages_spec hinj hb3a hg3a w3a
                ⟨⟨⟨Or.inr (Or.inr (Or.inr rfl)), by decide⟩, by decide⟩, by decide⟩ r.messages
              cases h3m : stepMessages env st3a l3a r.messages with
              | mk st3 l3 =>
              rw [h3m] at s3m w3m
              simp only at s3m w3m
              have s03 := s03a.trans s3m
              have w3 := w3m
              have hb3 := s3m.blobsOk hb3a
              let cb := configJSON (base.filterMap (·.2)) (l3.map (·.digest))
              refine ⟨putBlob env st3 cb, s03.trans (putBlob_step env st3 cb), Or.inr ?_⟩
              refine ⟨⟨⟨.config, ⟨.colon, env.hash cb⟩, cb.length⟩, l3⟩, rfl, ?_, ?_⟩
              · intro l hl
                simp only [Manifest.all, List.mem_append, List.mem_singleton] at hl
                rcases hl with hl | hl
                · exact w3.gd l hl
                · subst hl; exact Or.inr rfl
              · intro l hl
                simp only [Manifest.all, List.mem_append, List.mem_singleton] at hl
                rcases hl with hl | hl
                · exact (w3.complete l hl).putBlob cb
                · subst hl; exact newLayer_complete hinj hb3 cb .config


/-! ## base layers of a create request -/

/-- layers taken from a readable source manifest: complete, admissible, and every one in use -/
theorem fromLayers_spec {env : Env} {st : Store} (hb : BlobsOk env st) (ls : List Layer)
    (hcol : ∀ l ∈ ls, GD env l.digest) (href : ∀ l ∈ ls, st.referenced l.digest = true) :
    ∀ b, fromLayers env st ls = some b →
      ∀ x ∈ b.map (·.1), Complete env st x ∧ GD env x.digest ∧ env.inUse st x.digest = true := by
  induction ls with
  | nil =>
    intro b h
    simp only [fromLayers] at h
    injection h with e; subst e
    simp
  | cons l t ih =>
    intro b h
    have iht := ih (fun x hx => hcol x (by simp [hx])) (fun x hx => href x (by simp [hx]))
    simp only [fromLayers] at h
    cases hc : st.blob l.digest.key with
    | none => simp [hc] at h
    | some c =>
      simp only [hc] at h
      have hl' : Complete env st ⟨l.media, env.recorded l.digest, c.length⟩ :=
        ⟨c, by simpa [recorded_key] using hc, rfl, by rw [recorded_hex]; exact hb _ _ hc⟩
      have key : ∀ (mt : Option Meta) (r : List (Layer × Option Meta)), fromLayers env st t = some r →
          ∀ x ∈ (((⟨l.media, env.recorded l.digest, c.length⟩, mt) :: r).map (·.1)),
            Complete env st x ∧ GD env x.digest ∧ env.inUse st x.digest = true := by
        intro mt r hr x hx
        simp only [List.map_cons, List.mem_cons] at hx
        rcases hx with hx | hx
        · subst hx
          exact ⟨hl', GD_recorded (hcol l (by simp)), inUse_recorded (href l (by simp))⟩
        · exact iht r hr x hx
      split at h
      · cases hg : env.gguf c with
        | none => simp [hg] at h
        | some mt =>
          simp only [hg] at h
          cases hr : fromLayers env st t with
          | none => simp [hr] at h
          | some r =>
            simp only [hr, Option.map_some] at h
            injection h with e; subst e
            exact key _ r hr
      · cases hr : fromLayers env st t with
        | none => simp [hr] at h
        | some r =>
          simp only [hr, Option.map_some] at h
          injection h with e; subst e
          exact key _ r hr

theorem autoLayers_spec {env : Env} (hinj : HashInj env) {st : Store} (hb : BlobsOk env st) (mt : Meta) :
    BlobStep env st (autoLayers env st mt).1 ∧
    (∀ l, Complete env st l → Complete env (autoLayers env st mt).1 l) ∧
    ∀ x ∈ (autoLayers env st mt).2.map (·.1), Complete env (autoLayers env st mt).1 x ∧ GD env x.digest := by
  unfold autoLayers
  cases mt.auto with
  | none => exact ⟨BlobStep.refl env st, fun _ h => h, by simp⟩
  | some tp =>
    obtain ⟨t, p⟩ := tp
    cases p with
    | none =>
      simp only [newLayer]
      refine ⟨putBlob_step env st t, fun _ h => h.putBlob t, ?_⟩
      intro x hx
      simp only [List.map_cons, List.map_nil, List.mem_singleton] at hx
      subst hx
      exact ⟨newLayer_complete hinj hb t .template, Or.inr rfl⟩
    | some q =>
      simp only [newLayer]
      have s1 := putBlob_step env st t
      have hb1 := s1.blobsOk hb
      refine ⟨s1.trans (putBlob_step env _ q), fun _ h => (h.putBlob t).putBlob q, ?_⟩
      intro x hx
      simp only [List.map_cons, List.map_nil, List.mem_cons, List.not_mem_nil, or_false] at hx
      rcases hx with hx | hx
      · subst hx; exact ⟨(newLayer_complete hinj hb t .template).putBlob q, Or.inr rfl⟩
      · subst hx; exact ⟨newLayer_complete hinj hb1 q .params, Or.inr rfl⟩

/-- `ggufLayers` over the request's files: only `NewLayer` writes; on success every layer is complete -/
theorem fileLayers_spec {env : Env} (hinj : HashInj env) (ds : List Digest) {st : Store} (hb : BlobsOk env st)
    (hcol : ∀ d ∈ ds, GD env d) :
    BlobStep env st (fileLayers env st ds).1 ∧
    (∀ l, Complete env st l → Complete env (fileLayers env st ds).1 l) ∧
    ∀ b, (fileLayers env st ds).2 = .ok b →
      ∀ x ∈ b.map (·.1), Complete env (fileLayers env st ds).1 x ∧ GD env x.digest := by
  induction ds generalizing st with
  | nil =>
    simp only [fileLayers]
    refine ⟨BlobStep.refl env st, fun _ h => h, ?_⟩
    intro b h; injection h with e; subst e; simp
  | cons d t ih =>
    simp only [fileLayers]
    cases hc : st.blob d.key with
    | none => exact ⟨BlobStep.refl env st, fun _ h => h, fun b h => by cases h⟩
    | some c =>
      simp only
      cases hg : env.gguf c with
      | none => exact ⟨BlobStep.refl env st, fun _ h => h, fun b h => by cases h⟩
      | some mt =>
        simp only
        obtain ⟨sa, ma, ca⟩ := autoLayers_spec hinj hb mt
        cases hal : autoLayers env st mt with
        | mk st1 auto =>
          rw [hal] at sa ma ca
          simp only at sa ma ca ⊢
          obtain ⟨sr, mr, cr⟩ := ih (st := st1) (sa.blobsOk hb) (fun x hx => hcol x (by simp [hx]))
          cases hfl : fileLayers env st1 t with
          | mk st2 res =>
            rw [hfl] at sr mr cr
            simp only at sr mr cr
            cases res with
            | error e => exact ⟨sa.trans sr, fun l h => mr l (ma l h), fun b h => by cases h⟩
            | ok r =>
              simp only
              refine ⟨sa.trans sr, fun l h => mr l (ma l h), ?_⟩
              intro b h
              injection h with e; subst e
              intro x hx
              simp only [List.map_append, List.map_cons, List.mem_append, List.mem_cons] at hx
              rcases hx with (hx | hx) | hx
              · subst hx
                have : Complete env st ⟨.model, env.recorded d, c.length⟩ :=
                  ⟨c, by simpa [recorded_key] using hc, rfl, by rw [recorded_hex]; exact hb _ _ hc⟩
                exact ⟨mr _ (ma _ this), GD_recorded (hcol d (by simp))⟩
              · exact ⟨mr _ (ca x hx).1, (ca x hx).2⟩
              · exact cr r rfl x hx

/-- base layers: a `BlobStep` (only the auto-detected layers are written); on success all complete and
    admissible; for a `from` create every base layer is in use -/
theorem baseLayers_spec {env : Env} (hinj : HashInj env) {st : Store} (hc : Guard env st) (hb : BlobsOk env st)
    (r : CreateReq) (hf : ∀ d ∈ r.files, GD env d) (frev : Bool) :
    BlobStep env st (baseLayers env st r frev).1 ∧
    ∀ b, (baseLayers env st r frev).2.1 = some b →
      (∀ x ∈ b.map (·.1), Complete env (baseLayers env st r frev).1 x ∧ GD env x.digest) ∧
      (r.src.isSome = true → ∀ x ∈ b.map (·.1), env.inUse (baseLayers env st r frev).1 x.digest = true) := by
  unfold baseLayers
  have onErr : ∀ b, (if env.v.fixReturn = true then (none : Option (List (Layer × Option Meta))) else some []) = some b →
      b = [] := by
    intro b h
    split at h
    · cases h
    · injection h with e; exact e.symm
  cases hs : r.src with
  | some f =>
    simp only
    cases hm : st.readableAt f with
    | none =>
      simp only
      refine ⟨BlobStep.refl env st, fun b h => ?_⟩
      have := onErr b h; subst this; simp
    | some m =>
      simp only
      have hm' := readableAt_eq_some.mp hm
      cases hfl : fromLayers env st m.layers with
      | none =>
        simp only
        refine ⟨BlobStep.refl env st, fun b h => ?_⟩
        have := onErr b h; subst this; simp
      | some b' =>
        simp only
        refine ⟨BlobStep.refl env st, fun b h => ?_⟩
        injection h with e; subst e
        have := fromLayers_spec hb m.layers (fun l hl => hc.gd hm' (by simp [Manifest.all, hl]))
          (fun l hl => referenced_iff.mpr ⟨f, m, hm', l, by simp [Manifest.all, hl], rfl⟩) b' hfl
        exact ⟨fun x hx => ⟨(this x hx).1, (this x hx).2.1⟩, fun _ x hx => (this x hx).2.2⟩
  | none =>
    simp only
    split
    · exact ⟨BlobStep.refl env st, fun b h => by cases h⟩
    · have hcol : ∀ d ∈ (if frev = true then r.files.reverse else r.files), GD env d := by
        intro d hd
        cases frev with
        | true => exact hf d (by simpa using hd)
        | false => exact hf d (by simpa using hd)
      obtain ⟨s1, _, c1⟩ := fileLayers_spec hinj _ hb hcol
      cases hfl : fileLayers env st (if frev = true then r.files.reverse else r.files) with
      | mk st' res =>
        rw [hfl] at s1 c1
        simp only at s1 c1
        cases res with
        | error e => exact ⟨s1, fun b h => by cases h⟩
        | ok b' =>
          simp only
          refine ⟨s1, fun b h => ?_⟩
          injection h with e; subst e
          exact ⟨c1 b' rfl, fun h => by cases h⟩

/-! ## `Good`: invariant preservation + frame, per operation -/

/-- what every operation is shown to be, relative to the set `T` of names it may write -/
structure Good (env : Env) (st st' : Store) (T : List Name) : Prop where
  blobsOk : BlobsOk env st'
  nameInv : NameInv env st → NameInv env st'
  canon : Guard env st'
  legacy : LegacyOk env st → LegacyOk env st'
  frameMan : ∀ n, n ∉ T → st'.man n = st.man n
  frameBlob : ∀ n m, n ∉ T → st.man n = some (.readable m) → ∀ l ∈ m.all, ∀ c,
    st.blob l.digest.key = some c → st'.blob l.digest.key = some c

theorem Good.refl {env : Env} {st : Store} (hb : BlobsOk env st) (hc : Guard env st) (T : List Name) :
    Good env st st T :=
  ⟨hb, id, hc, id, fun _ _ => rfl, fun _ _ _ _ _ _ _ h => h⟩

theorem Good.ofBlobStep {env : Env} {st st' : Store} (h : BlobStep env st st') (hb : BlobsOk env st)
    (hc : Guard env st) (T : List Name) : Good env st st' T :=
  ⟨h.blobsOk hb, h.nameInv, h.guard hc, h.legacy, fun n _ => man_congr h.mans n,
   fun _ _ _ hm _ hl _ hc' => h.keep hm hl hc'⟩

theorem Good.trans {env : Env} {a b c : Store} {T : List Name} (h1 : Good env a b T) (h2 : Good env b c T) :
    Good env a c T :=
  ⟨h2.blobsOk, fun h => h2.nameInv (h1.nameInv h), h2.canon, fun h => h2.legacy (h1.legacy h),
   fun n hn => (h2.frameMan n hn).trans (h1.frameMan n hn),
   fun n m hn hm l hl c hc =>
     h2.frameBlob n m hn ((h1.frameMan n hn).trans hm) l hl c (h1.frameBlob n m hn hm l hl c hc)⟩

theorem Good.mono {env : Env} {st st' : Store} {T T' : List Name} (h : Good env st st' T)
    (hT : ∀ n, n ∈ T → n ∈ T') : Good env st st' T' :=
  ⟨h.blobsOk, h.nameInv, h.canon, h.legacy, fun n hn => h.frameMan n (fun h' => hn (hT n h')),
   fun n m hn => h.frameBlob n m (fun h' => hn (hT n h'))⟩

theorem Good.setManifest {env : Env} {st : Store} (hb : BlobsOk env st) (hc : Guard env st) (n : Name)
    (f : MFile) (hf : ∀ m, f = .readable m → (∀ l ∈ m.all, GD env l.digest) ∧ ∀ l ∈ m.all, Complete env st l) :
    Good env st (setManifest st n f) [n] := by
  refine ⟨hb, fun hi => setManifest_nameInv hi n f (fun m e => (hf m e).2),
    hc.setManifest n f (fun m e => (hf m e).1), id, ?_, ?_⟩
  · intro n' hn'
    rw [setManifest_man]
    simp only [List.mem_singleton] at hn'
    simp [hn']
  · intro _ _ _ _ _ _ c h; exact h

theorem Good.delManifest {env : Env} {st : Store} (hb : BlobsOk env st) (hc : Guard env st) (n : Name) :
    Good env st (delManifest st n) [n] := by
  refine ⟨hb, fun hi => delManifest_nameInv hi n, hc.delManifest n, id, ?_, ?_⟩
  · intro n' hn'
    rw [delManifest_man]
    simp only [List.mem_singleton] at hn'
    simp [hn']
  · intro _ _ _ _ _ _ c h; exact h

/-! ## the operations -/

/-- changes of the directory tree under manifests/ touch neither blobs nor manifests -/
theorem tree_step (env : Env) (st : Store) (e : List (List String)) :
    BlobStep env st { st with edirs := e } :=
  ⟨rfl, fun _ h => Or.inl h, fun _ => Or.inl rfl⟩

theorem pruneDirs_step (env : Env) (st : Store) : BlobStep env st (pruneDirs st) := tree_step env st _
theorem mkdirs_step (env : Env) (st : Store) (p : List String) : BlobStep env st (mkdirs st p) := tree_step env st _

theorem deleteAt_good {env : Env} {st : Store} (hb : BlobsOk env st) (hc : Guard env st) (t : Name) :
    Good env st (deleteAt env st t).1 [t] := by
  unfold deleteAt
  cases hm : st.man t with
  | none => exact Good.refl hb hc _
  | some f =>
    cases f with
    | corrupt => exact Good.refl hb hc _
    | readable m =>
      simp only
      have g1 := Good.delManifest hb hc t
      have hcm : ∀ l ∈ m.all, GD env l.digest := fun l hl => hc.gd hm hl
      have g2 := g1.trans (Good.ofBlobStep (pruneDirs_step env (delManifest st t)) g1.blobsOk g1.canon _)
      exact g2.trans (Good.ofBlobStep (removeLayers_step env m.all g2.canon hcm) g2.blobsOk g2.canon _)

theorem copyAt_good {env : Env} {st : Store} (hb : BlobsOk env st) (hc : Guard env st) (hi : NameInv env st)
    (s d : Name) : Good env st (copyAt st s d).1 [d] := by
  unfold copyAt
  split
  · exact Good.refl hb hc _
  · cases hm : st.man s with
    | none => exact Good.ofBlobStep (mkdirs_step env st d.path) hb hc _
    | some f =>
      simp only
      exact Good.setManifest hb hc d f (fun m e => ⟨fun l hl => hc.gd (e ▸ hm) hl, hi s m (e ▸ hm)⟩)

theorem upload_good {env : Env} {st : Store} (hb : BlobsOk env st) (hc : Guard env st) (d : Digest) (c : Bytes) :
    Good env st (upload env st d c).1 [] := by
  unfold upload
  split
  · exact Good.refl hb hc _
  · split <;> exact Good.ofBlobStep (putBlob_step env st c) hb hc _

theorem pruneLayers_blob (env : Env) (st : Store) (k : String) :
    (pruneLayers env st).blob k = if env.inUse st ⟨.colon, k⟩ then st.blob k else none := by
  unfold pruneLayers Store.blob
  exact aget_filter_key st.blobs (fun k => env.inUse st ⟨.colon, k⟩) k

theorem pruneLayers_step (env : Env) {st : Store} (hc : Guard env st) : BlobStep env st (pruneLayers env st) := by
  refine ⟨rfl, fun p hp => Or.inl (List.mem_filter.mp hp).1, fun k => ?_⟩
  rw [pruneLayers_blob]
  cases hr : env.inUse st ⟨.colon, k⟩ with
  | true => exact Or.inl rfl
  | false =>
    refine Or.inr ⟨Or.inl ?_, by simp⟩
    cases hk : st.keyReferenced k with
    | false => rfl
    | true =>
      have := inUse_of_key hc (d := ⟨.colon, k⟩) (Or.inr rfl) hk
      rw [hr] at this; cases this

/-! ### fixBlobs and the non-blob files -/

/-- the `sha256:<rest>` files -/
def colonFiles (st : Store) : List (String × Bytes) :=
  st.junk.filterMap (fun p => match p.1 with
    | .colon r => some (r, p.2)
    | .plain _ => none)

theorem mem_colonFiles {st : Store} {rc : String × Bytes} (h : rc ∈ colonFiles st) :
    ∃ p ∈ st.junk, p.1 = .colon rc.1 ∧ p.2 = rc.2 := by
  unfold colonFiles at h
  rw [List.mem_filterMap] at h
  obtain ⟨p, hp, he⟩ := h
  cases hn : p.1 with
  | colon r => rw [hn] at he; injection he with e; subst e; exact ⟨p, hp, hn, rfl⟩
  | plain s => rw [hn] at he; cases he

theorem fixBlobs_fold_blob (cols : List (String × Bytes)) (b : List (String × Bytes)) (k : String) :
    aget (cols.foldl (fun b rc => if isHex64 rc.1 then aset b rc.1 rc.2 else b) b) k = aget b k ∨
    ∃ rc ∈ cols, isHex64 rc.1 = true ∧ rc.1 = k ∧
      aget (cols.foldl (fun b rc => if isHex64 rc.1 then aset b rc.1 rc.2 else b) b) k = some rc.2 := by
  induction cols generalizing b with
  | nil => exact Or.inl rfl
  | cons rc t ih =>
    simp only [List.foldl]
    rcases ih (if isHex64 rc.1 then aset b rc.1 rc.2 else b) with h | ⟨x, hx, h1, h2, h3⟩
    · by_cases hh : isHex64 rc.1 = true
      · simp only [hh, if_true] at h ⊢
        rw [aget_aset] at h
        by_cases hk : k = rc.1
        · simp only [hk, if_true] at h
          exact Or.inr ⟨rc, by simp, hh, hk.symm, by rw [hk]; exact h⟩
        · simp only [hk, if_false] at h
          exact Or.inl h
      · simp only [hh] at h ⊢
        exact Or.inl h
    · exact Or.inr ⟨x, by simp [hx], h1, h2, h3⟩

theorem fixBlobs_blob (st : Store) (k : String) :
    (fixBlobs st).blob k = st.blob k ∨
    ∃ rc ∈ colonFiles st, isHex64 rc.1 = true ∧ rc.1 = k ∧ (fixBlobs st).blob k = some rc.2 :=
  fixBlobs_fold_blob (colonFiles st) st.blobs k

theorem fixBlobs_fold_junk (cols : List (String × Bytes)) (j : List (JName × Bytes))
    (hj : ∀ p ∈ j, ∃ s, p.1 = .plain s) :
    ∀ p ∈ cols.foldl (fun j rc => if isHex64 rc.1 then j else aset j (.plain ("sha256-" ++ rc.1)) rc.2) j,
      ∃ s, p.1 = .plain s := by
  induction cols generalizing j with
  | nil => exact hj
  | cons rc t ih =>
    simp only [List.foldl]
    apply ih
    split
    · exact hj
    · intro p hp
      unfold aset at hp
      simp only [List.mem_cons] at hp
      rcases hp with hp | hp
      · subst hp; exact ⟨_, rfl⟩
      · unfold adel at hp; exact hj p (List.mem_filter.mp hp).1

/-- after `fixBlobs` no file is named `sha256:…` -/
theorem fixBlobs_junk_plain (st : Store) : ∀ p ∈ (fixBlobs st).junk, ∃ s, p.1 = .plain s := by
  unfold fixBlobs
  simp only
  apply fixBlobs_fold_junk
  intro p hp
  have := (List.mem_filter.mp hp).2
  cases hn : p.1 with
  | colon r => rw [hn] at this; cases this
  | plain s => exact ⟨s, rfl⟩

theorem fixBlobs_step {env : Env} (hinj : HashInj env) {st : Store} (hb : BlobsOk env st)
    (hl : LegacyOk env st) : BlobStep env st (fixBlobs st) := by
  refine ⟨rfl, fun p hp => Or.inr (fixBlobs_junk_plain st p hp), fun k => ?_⟩
  rcases fixBlobs_blob st k with h | ⟨rc, hrc, hx, hk, h⟩
  · exact Or.inl h
  · obtain ⟨p, hp, hn, hc⟩ := mem_colonFiles hrc
    have hh : env.hash rc.2 = k := by rw [← hc, ← hk]; exact hl p hp rc.1 hn hx
    cases ho : st.blob k with
    | none =>
      refine Or.inr ⟨Or.inr rfl, fun c hc' => ?_⟩
      rw [h] at hc'; injection hc' with e; rw [← e]; exact hh
    | some c0 =>
      have : c0 = rc.2 := hinj _ _ ((hb k c0 ho).trans hh.symm)
      exact Or.inl (by rw [h, this])

/-- `PruneLayers` removes every file whose name is not a digest; once `fixBlobs` has run that is every file
    that is not `sha256-<64 hex>` -/
theorem pruneLayers_junk_nil (env : Env) {st : Store} (h : ∀ p ∈ st.junk, ∃ s, p.1 = .plain s) :
    (pruneLayers env st).junk = [] := by
  unfold pruneLayers
  simp only
  rw [List.filter_eq_nil_iff]
  intro p hp
  obtain ⟨s, hs⟩ := h p hp
  rw [hs]; simp

theorem pruneStartup_good {env : Env} (hinj : HashInj env) {st : Store} (hb : BlobsOk env st)
    (hc : Guard env st) (hl : LegacyOk env st) :
    Good env st (pruneStartup env st).1 [] := by
  have s1 := fixBlobs_step hinj hb hl
  unfold pruneStartup
  split
  · exact Good.ofBlobStep s1 hb hc _
  split
  · exact Good.ofBlobStep s1 hb hc _
  · exact Good.ofBlobStep ((s1.trans (pruneLayers_step env (s1.guard hc))).trans (pruneDirs_step env _)) hb hc _

/-- a `from` create meets the guard `Apart` by itself: every base layer is in use by the source manifest -/
theorem apart_of_inUse {env : Env} {st : Store} {ls : List Layer} (r : CreateReq)
    (h : ∀ x ∈ ls, env.inUse st x.digest = true) : Apart env st ls r :=
  fun a ha _ => Or.inr (Or.inl (h a ha))

theorem apart_of_fixKeep {env : Env} (hv : env.v.fixKeep = true) (st : Store) (ls : List Layer) (r : CreateReq) :
    Apart env st ls r := fun _ _ _ => Or.inl hv

/-- the guard of a create request, stated on what `baseLayers` returns -/
def ApartReq (env : Env) (st : Store) (r : CreateReq) (frev : Bool) : Prop :=
  ∀ b, (baseLayers env st r frev).2.1 = some b → Apart env (baseLayers env st r frev).1 (b.map (·.1)) r

/-- `Good` for create; and a create that does not end in the success event is a `BlobStep` -/
theorem createAt_good {env : Env} (hinj : HashInj env) {st : Store} (hb : BlobsOk env st) (hc : Guard env st)
    (r : CreateReq) (hf : ∀ d ∈ r.files, GD env d) (name : Name) (frev : Bool)
    (hap : ApartReq env st r frev) :
    Good env st (createAt env st r name frev).1 [name] ∧
    ("s" ∉ (createAt env st r name frev).2 → BlobStep env st (createAt env st r name frev).1) := by
  obtain ⟨sb, cb⟩ := baseLayers_spec hinj hc hb r hf frev
  unfold ApartReq at hap
  unfold createAt
  simp only
  cases hbl : baseLayers env st r frev with
  | mk stb rest =>
    obtain ⟨ob, ev⟩ := rest
    rw [hbl] at sb cb hap
    simp only at sb cb hap
    have gb : Good env st stb [name] := Good.ofBlobStep sb hb hc _
    cases ob with
    | none => exact ⟨gb, fun _ => sb⟩
    | some base =>
      simp only
      obtain ⟨cbase, _⟩ := cb base rfl
      obtain ⟨st0, s0', h⟩ := createModel_spec hinj name base r gb.blobsOk gb.canon
        (fun l hl => (cbase l hl).1) (fun l hl => (cbase l hl).2) (hap base rfl)
      have s0 := sb.trans s0'
      have g0 : Good env st st0 [name] := Good.ofBlobStep s0 hb hc _
      rcases h with ⟨e1, e2⟩ | ⟨m, e, hcm, hcomp⟩
      · cases hcm : createModel env stb name base r with
        | mk st1 o =>
          rw [hcm] at e1 e2
          simp only at e1 e2
          cases o with
          | none => cases e2
          | some err => simp only; rw [e1]; exact ⟨g0, fun _ => s0⟩
      · rw [e]
        simp only
        have g1 : Good env st0 (setManifest st0 name (.readable m)) [name] :=
          Good.setManifest g0.blobsOk g0.canon name _ (fun m' e' => by injection e' with e''; subst e''; exact ⟨hcm, hcomp⟩)
        have g01 := g0.trans g1
        cases hold : st.readableAt name with
        | none => exact ⟨g01, fun h => absurd (by simp) h⟩
        | some mo =>
          simp only
          have hmo : ∀ l ∈ mo.all, GD env l.digest := fun l hl => hc.gd (readableAt_eq_some.mp hold) hl
          exact ⟨g01.trans (Good.ofBlobStep (gcOld_step env mo.all g01.canon hmo) g01.blobsOk g01.canon _),
            fun h => absurd (by simp) h⟩

/-! ### pull -/

/-- what a registry manifest must satisfy for the invariant to survive a pull of it: digests spelled
    `sha256:`, and sizes that are the sizes of the contents the digests name (nothing in `PullModel` compares
    the manifest's sizes with what was downloaded) -/
def PullOk (env : Env) (m : Manifest) : Prop :=
  (∀ l ∈ m.all, l.digest.form = .colon) ∧ ∀ l ∈ m.all, ∀ c, env.hash c = l.digest.hex → c.length = l.size

theorem pullLayers_mans (env : Env) (served : List (String × Bytes)) (ls : List Layer) (st : Store) :
    (pullLayers env st served ls).1.mans = st.mans := by
  induction ls generalizing st with
  | nil => rfl
  | cons l t ih =>
    simp only [pullLayers]
    split
    · exact ih st
    · split
      · rfl
      · split
        · rw [ih]
        · rfl

theorem setBlob_step (env : Env) {st : Store} {k : String} {c : Bytes} (hn : st.blob k = none)
    (hh : env.hash c = k) : BlobStep env st { st with blobs := aset st.blobs k c } := by
  refine ⟨rfl, fun _ h => Or.inl h, fun k' => ?_⟩
  rw [blob_aset]
  by_cases h : k' = k
  · subst h
    exact Or.inr ⟨Or.inr hn, fun c' hc' => by simp only [if_true] at hc'; injection hc' with e; rw [← e]; exact hh⟩
  · simp [h]

/-- the download + verify loop only adds correctly named blobs; when it succeeds every layer is complete -/
theorem pullLayers_spec {env : Env} (served : List (String × Bytes)) (ls : List Layer) {st : Store}
    (hb : BlobsOk env st) (hsz : ∀ l ∈ ls, ∀ c, env.hash c = l.digest.hex → c.length = l.size) :
    BlobStep env st (pullLayers env st served ls).1 ∧
    (∀ l, Complete env st l → Complete env (pullLayers env st served ls).1 l) ∧
    ((pullLayers env st served ls).2 = true → ∀ l ∈ ls, Complete env (pullLayers env st served ls).1 l) := by
  induction ls generalizing st with
  | nil => exact ⟨BlobStep.refl env st, fun _ h => h, fun _ _ h => by cases h⟩
  | cons l t ih =>
    have iht := fun (st' : Store) (hb' : BlobsOk env st') =>
      ih (st := st') hb' (fun x hx => hsz x (by simp [hx]))
    simp only [pullLayers]
    cases hc : st.blob l.digest.key with
    | some c0 =>
      simp only
      obtain ⟨s1, m1, c1⟩ := iht st hb
      refine ⟨s1, m1, fun hok x hx => ?_⟩
      simp only [List.mem_cons] at hx
      rcases hx with hx | hx
      · subst hx
        have hh := hb _ _ hc
        exact m1 x ⟨c0, hc, hsz x (by simp) c0 hh, hh⟩
      · exact c1 hok x hx
    | none =>
      simp only
      cases hs : aget served l.digest.hex with
      | none => exact ⟨BlobStep.refl env st, fun _ h => h, fun h => by cases h⟩
      | some c =>
        simp only
        by_cases hh : env.hash c = l.digest.hex
        · simp only [hh, if_true]
          have s0 := setBlob_step env (k := l.digest.key) hc hh
          have hb0 := s0.blobsOk hb
          obtain ⟨s1, m1, c1⟩ := iht _ hb0
          have mono0 : ∀ x, Complete env st x → Complete env { st with blobs := aset st.blobs l.digest.key c } x := by
            intro x hx
            refine hx.mono_blob (fun c' hc' => ?_)
            rw [blob_aset]
            by_cases hk : x.digest.key = l.digest.key
            · rw [hk, hc] at hc'; cases hc'
            · simp [hk, hc']
          refine ⟨s0.trans s1, fun x hx => m1 x (mono0 x hx), fun hok x hx => ?_⟩
          simp only [List.mem_cons] at hx
          rcases hx with hx | hx
          · subst hx
            refine m1 x ⟨c, ?_, hsz x (by simp) c hh, hh⟩
            rw [blob_aset]; simp
          · exact c1 hok x hx
        · simp only [hh, if_false]
          exact ⟨BlobStep.refl env st, fun _ h => h, fun h => by cases h⟩

theorem pullAt_good {env : Env} {st : Store} (hb : BlobsOk env st) (hc : Guard env st) (name : Name)
    (reg : Option Manifest) (served : List (String × Bytes)) (hp : ∀ m, reg = some m → PullOk env m) :
    Good env st (pullAt env st name reg served).1 [name] := by
  unfold pullAt
  cases reg with
  | none => exact Good.refl hb hc _
  | some m =>
    simp only
    obtain ⟨hcol, hsz⟩ := hp m rfl
    obtain ⟨s1, _, c1⟩ := pullLayers_spec served m.all hb hsz
    cases hpl : pullLayers env st served m.all with
    | mk st1 ok =>
      rw [hpl] at s1 c1
      simp only at s1 c1
      have g0 : Good env st st1 [name] := Good.ofBlobStep s1 hb hc _
      cases ok with
      | false => exact g0
      | true =>
        simp only
        have g1 : Good env st1 (setManifest st1 name (.readable m)) [name] :=
          Good.setManifest g0.blobsOk g0.canon name _ (fun m' e' => by
            injection e' with e''; subst e''
            exact ⟨fun l hl => Or.inr (hcol l hl), c1 rfl⟩)
        have g01 := g0.trans g1
        cases hold : st.readableAt name with
        | none => exact g01
        | some mo =>
          simp only
          have hmo : ∀ l ∈ mo.all, GD env l.digest := fun l hl => hc.gd (readableAt_eq_some.mp hold) hl
          exact g01.trans (Good.ofBlobStep (gcOld_step env mo.all g01.canon hmo) g01.blobsOk g01.canon _)

theorem pullAt_mans (env : Env) (st : Store) (name : Name) (reg : Option Manifest)
    (served : List (String × Bytes)) :
    (pullAt env st name reg served).1.mans = st.mans ∨
    ∃ m, reg = some m ∧ (pullAt env st name reg served).1.mans = aset st.mans name (.readable m) := by
  unfold pullAt
  cases reg with
  | none => exact Or.inl rfl
  | some m =>
    simp only
    have h1 := pullLayers_mans env served m.all st
    cases hpl : pullLayers env st served m.all with
    | mk st1 ok =>
      rw [hpl] at h1
      simp only at h1
      cases ok with
      | false => exact Or.inl h1
      | true =>
        simp only
        refine Or.inr ⟨m, rfl, ?_⟩
        cases st.readableAt name with
        | none => simp only [setManifest]; rw [h1]
        | some mo => simp only; rw [gcOld_mans]; simp only [setManifest]; rw [h1]

/-- the manifest names an operation may write, after `getExistingName` -/
def targets (env : Env) (st : Store) (op : Op) (ch : Choice) : List Name :=
  match op with
  | .create r => [resolveName env st ch.ord1 r.name]
  | .copy _ d => [resolveName env st ch.ord2 d]
  | .delete n => [resolveName env st ch.ord1 n]
  | .pull n _ _ => [pullTarget env (resolveName env st ch.ord1 n)]
  | .plant _ d => [d]
  | .corrupt n => [n]
  | .dashify n => [n]
  | _ => []

/-! ## manifests are only ever changed at the target name (no guard needed) -/

theorem replaceLayer_mans (env : Env) (st : Store) (ls : List Layer) (media : Media) (c : Bytes) :
    (replaceLayer env st ls media c).1.mans = st.mans := by
  unfold replaceLayer newLayer
  simp only
  rw [putBlob_mans, removeLayers_mans]

theorem stepTemplate_mans (env : Env) (st : Store) (ls : List Layer) (t : Option (Bytes × Bool)) :
    (stepTemplate env st ls t).1.mans = st.mans := by
  cases t with
  | none => rfl
  | some tb =>
    obtain ⟨t, ok⟩ := tb
    cases ok with
    | false => simp only [stepTemplate, Bool.false_eq_true, if_false]; exact removeLayers_mans _ _ _
    | true => simp only [stepTemplate, if_true]; exact replaceLayer_mans _ _ _ _ _

theorem stepSystem_mans (env : Env) (st : Store) (ls : List Layer) (s : Option Bytes) :
    (stepSystem env st ls s).1.mans = st.mans := by
  cases s with
  | none => rfl
  | some s => exact replaceLayer_mans _ _ _ _ _

theorem stepParams_mans (env : Env) (st : Store) (ls : List Layer) (p : List (String × String)) :
    (stepParams env st ls p).1.mans = st.mans := by
  unfold stepParams
  split
  · rfl
  · rfl
  · exact replaceLayer_mans _ _ _ _ _

theorem stepLicense_mans (env : Env) (lics : List Bytes) (st : Store) (ls : List Layer) :
    (stepLicense env st ls lics).1.mans = st.mans := by
  induction lics generalizing st ls with
  | nil => rfl
  | cons c t ih =>
    simp only [stepLicense, newLayer]
    rw [ih, putBlob_mans]

theorem stepMessages_mans (env : Env) (st : Store) (ls : List Layer) (ms : List (String × String)) :
    (stepMessages env st ls ms).1.mans = st.mans := by
  cases ms with
  | nil => rfl
  | cons m t => simp only [stepMessages]; exact replaceLayer_mans env st ls .messages _

theorem autoLayers_mans (env : Env) (st : Store) (mt : Meta) : (autoLayers env st mt).1.mans = st.mans := by
  unfold autoLayers
  cases mt.auto with
  | none => rfl
  | some tp =>
    obtain ⟨t, p⟩ := tp
    cases p with
    | none => simp only [newLayer, putBlob_mans]
    | some q => simp only [newLayer, putBlob_mans]

theorem fileLayers_mans (env : Env) (ds : List Digest) (st : Store) : (fileLayers env st ds).1.mans = st.mans := by
  induction ds generalizing st with
  | nil => rfl
  | cons d t ih =>
    simp only [fileLayers]
    cases st.blob d.key with
    | none => rfl
    | some c =>
      simp only
      cases hg : env.gguf c with
      | none => rfl
      | some mt =>
        simp only
        have h1 := autoLayers_mans env st mt
        cases hal : autoLayers env st mt with
        | mk st1 auto =>
          rw [hal] at h1
          simp only at h1 ⊢
          have h2 := ih st1
          cases hfl : fileLayers env st1 t with
          | mk st2 res =>
            rw [hfl] at h2
            simp only at h2
            cases res <;> exact h2.trans h1

theorem baseLayers_mans (env : Env) (st : Store) (r : CreateReq) (frev : Bool) :
    (baseLayers env st r frev).1.mans = st.mans := by
  unfold baseLayers
  cases r.src with
  | some f =>
    simp only
    cases st.readableAt f with
    | none => rfl
    | some m =>
      simp only
      cases fromLayers env st m.layers <;> rfl
  | none =>
    simp only
    split
    · rfl
    · have h := fileLayers_mans env (if frev = true then r.files.reverse else r.files) st
      cases hfl : fileLayers env st (if frev = true then r.files.reverse else r.files) with
      | mk st' res =>
        rw [hfl] at h
        cases res <;> exact h

theorem createModel_mans (env : Env) (st : Store) (name : Name) (base : List (Layer × Option Meta))
    (r : CreateReq) :
    (createModel env st name base r).1.mans = st.mans ∨
    ∃ m, (createModel env st name base r).1.mans = aset st.mans name (.readable m) := by
  unfold createModel
  simp only
  have e1 := stepTemplate_mans env st (base.map (·.1)) r.template
  cases h1 : stepTemplate env st (base.map (·.1)) r.template with
  | mk st1 o1 =>
    rw [h1] at e1; simp only at e1
    cases o1 with
    | none => exact Or.inl e1
    | some l1 =>
      simp only
      have e2 := stepSystem_mans env st1 l1 r.system
      cases h2 : stepSystem env st1 l1 r.system with
      | mk st2a l2a =>
        rw [h2] at e2; simp only at e2 ⊢
        have e2l := stepLicense_mans env r.licenses st2a l2a
        cases h2l : stepLicense env st2a l2a r.licenses with
        | mk st2 l2 =>
          rw [h2l] at e2l; simp only at e2l ⊢
          have e3 := stepParams_mans env st2 l2 r.params
          cases h3 : stepParams env st2 l2 r.params with
          | mk st3 o3 =>
            rw [h3] at e3; simp only at e3
            have e03 : st3.mans = st.mans := e3.trans (e2l.trans (e2.trans e1))
            cases o3 with
            | none => exact Or.inl e03
            | some l3a =>
              simp only
              have e3m := stepMessages_mans env st3 l3a r.messages
              cases h3m : stepMessages env st3 l3a r.messages with
              | mk st3m l3 =>
              rw [h3m] at e3m; simp only at e3m ⊢
              refine Or.inr ⟨⟨(newLayer env st3m (configJSON (base.filterMap (·.2)) (l3.map (·.digest))) .config).2, l3⟩, ?_⟩
              simp only [setManifest, newLayer, putBlob_mans]
              rw [e3m, e03]

theorem createAt_mans (env : Env) (st : Store) (r : CreateReq) (name : Name) (frev : Bool) :
    (createAt env st r name frev).1.mans = st.mans ∨
    ∃ m, (createAt env st r name frev).1.mans = aset st.mans name (.readable m) := by
  have hbm := baseLayers_mans env st r frev
  unfold createAt
  simp only
  cases hbl : baseLayers env st r frev with
  | mk stb rest =>
    obtain ⟨ob, ev⟩ := rest
    rw [hbl] at hbm
    simp only at hbm
    cases ob with
    | none => exact Or.inl hbm
    | some base =>
      simp only
      have h := createModel_mans env stb name base r
      rw [hbm] at h
      cases hcm : createModel env stb name base r with
      | mk st1 o =>
        rw [hcm] at h; simp only at h
        cases o with
        | some err => exact h
        | none =>
          simp only
          cases st.readableAt name with
          | none => exact h
          | some mo =>
            simp only
            rw [gcOld_mans]
            exact h

/-- the manifest of any name other than the (resolved) target is the same file after the operation -/
theorem step_man_frame (env : Env) (st : Store) (op : Op) (ch : Choice) (n : Name)
    (hn : n ∉ targets env st op ch) : (step env st op ch).1.man n = st.man n := by
  cases op with
  | upload d c =>
    simp only [step, upload]
    split
    · rfl
    · split <;> exact man_congr (putBlob_mans env st c) n
  | create r =>
    simp only [step]
    simp only [targets, List.mem_singleton] at hn
    rcases createAt_mans env st r (resolveName env st ch.ord1 r.name) ch.frev with h | ⟨m, h⟩
    · exact man_congr h n
    · unfold Store.man; rw [h, aget_aset]; simp [hn]
  | copy s d =>
    simp only [step, copyAt]
    simp only [targets, List.mem_singleton] at hn
    split
    · rfl
    · split
      · rfl
      · rw [setManifest_man]; simp [hn]
  | delete t =>
    simp only [step, deleteAt]
    simp only [targets, List.mem_singleton] at hn
    split
    · rfl
    · rfl
    · rw [man_congr (removeLayers_mans _ _ _)]
      show (delManifest st _).man n = st.man n
      rw [delManifest_man]; simp [hn]
  | prune =>
    simp only [step, pruneStartup]
    split
    · rfl
    · split <;> rfl
  | plant s d =>
    simp only [step]
    simp only [targets, List.mem_singleton] at hn
    split
    · rw [setManifest_man]; simp [hn]
    · rfl
  | corrupt t =>
    simp only [step]
    simp only [targets, List.mem_singleton] at hn
    split
    · rw [setManifest_man]; simp [hn]
    · rfl
  | dashify t =>
    simp only [step]
    simp only [targets, List.mem_singleton] at hn
    split
    · rw [setManifest_man]; simp [hn]
    · rfl
  | litter j c => rfl
  | litterBlob k c => rfl
  | litterMan p => rfl
  | pull t reg served =>
    simp only [step]
    simp only [targets, List.mem_singleton] at hn
    rcases pullAt_mans env st (pullTarget env (resolveName env st ch.ord1 t)) reg served with h | ⟨m, _, h⟩
    · exact man_congr h n
    · unfold Store.man; rw [h, aget_aset]; simp [hn]

/-! ## getExistingName and letter case -/

theorem foldEq_iff (a b : String) : foldEq a b = true ↔ lower a = lower b := by
  unfold foldEq; exact beq_iff_eq

/-- one part of the fold of `getExistingName` -/
def resolvePart (f : Name → String) (ord : List Name) (x : String) : String :=
  ord.foldl (fun cur e => if foldEq (f e) cur then f e else cur) x

theorem getExistingName_parts (ord : List Name) (n : Name) :
    (getExistingName ord n).host = resolvePart (·.host) ord n.host ∧
    (getExistingName ord n).ns = resolvePart (·.ns) ord n.ns ∧
    (getExistingName ord n).model = resolvePart (·.model) ord n.model ∧
    (getExistingName ord n).tag = resolvePart (·.tag) ord n.tag := by
  induction ord generalizing n with
  | nil => exact ⟨rfl, rfl, rfl, rfl⟩
  | cons e t ih =>
    have := ih (resolve1 n e)
    simp only [getExistingName, resolvePart, List.foldl] at this ⊢
    exact this

theorem resolvePart_spec (f : Name → String) (ord : List Name) (x : String) :
    lower (resolvePart f ord x) = lower x ∧
    ((∃ e ∈ ord, resolvePart f ord x = f e) ∨
     (resolvePart f ord x = x ∧ ∀ e ∈ ord, lower (f e) ≠ lower x)) := by
  induction ord generalizing x with
  | nil => exact ⟨rfl, Or.inr ⟨rfl, by simp⟩⟩
  | cons e t ih =>
    simp only [resolvePart, List.foldl]
    by_cases h : foldEq (f e) x = true
    · simp only [h, if_true]
      have hl := (foldEq_iff _ _).mp h
      obtain ⟨h1, h2⟩ := ih (f e)
      simp only [resolvePart] at h1 h2
      refine ⟨h1.trans hl, Or.inl ?_⟩
      rcases h2 with ⟨e', he', h2⟩ | ⟨h2, _⟩
      · exact ⟨e', by simp [he'], h2⟩
      · exact ⟨e, by simp, h2⟩
    · simp only [h]
      have hl : lower (f e) ≠ lower x := fun he => h ((foldEq_iff _ _).mpr he)
      obtain ⟨h1, h2⟩ := ih x
      simp only [resolvePart] at h1 h2
      refine ⟨h1, ?_⟩
      rcases h2 with ⟨e', he', h2⟩ | ⟨h2, h3⟩
      · exact Or.inl ⟨e', by simp [he'], h2⟩
      · refine Or.inr ⟨h2, ?_⟩
        intro e' he'
        simp only [List.mem_cons] at he'
        rcases he' with rfl | he'
        · exact hl
        · exact h3 e' he'

/-- a set of names spells part `f` consistently -/
def PartOk (f : Name → String) (S : Name → Prop) : Prop :=
  ∀ a b, S a → S b → lower (f a) = lower (f b) → f a = f b

/-- under consistent spelling the resolved part is THE existing spelling (whatever the order) -/
theorem resolvePart_canonical (f : Name → String) (S : Name → Prop) (hS : PartOk f S) (ord : List Name)
    (hord : ∀ e, e ∈ ord ↔ S e) (x : String) (e : Name) (he : S e)
    (hl : lower (f e) = lower (resolvePart f ord x)) : f e = resolvePart f ord x := by
  obtain ⟨h1, h2⟩ := resolvePart_spec f ord x
  rcases h2 with ⟨e', he', h2⟩ | ⟨_, h3⟩
  · rw [h2] at hl ⊢
    exact hS e e' he ((hord e').mp he') hl
  · exact absurd (hl.trans h1) (h3 e ((hord e).mpr he))

def MixOk (S : Name → Prop) : Prop :=
  PartOk (·.host) S ∧ PartOk (·.ns) S ∧ PartOk (·.model) S ∧ PartOk (·.tag) S

/-- adding a name produced by `getExistingName` keeps the spelling consistent -/
theorem MixOk.insert_resolved {S : Name → Prop} (h : MixOk S) (ord : List Name) (hord : ∀ e, e ∈ ord ↔ S e)
    (n : Name) : MixOk (fun a => S a ∨ a = getExistingName ord n) := by
  obtain ⟨p1, p2, p3, p4⟩ := getExistingName_parts ord n
  have key : ∀ (f : Name → String), PartOk f S → f (getExistingName ord n) = resolvePart f ord (f n) →
      PartOk f (fun a => S a ∨ a = getExistingName ord n) := by
    intro f hf hp a b ha hb hl
    rcases ha with ha | rfl <;> rcases hb with hb | rfl
    · exact hf a b ha hb hl
    · rw [hp] at hl ⊢
      exact resolvePart_canonical f S hf ord hord _ a ha hl
    · rw [hp] at hl ⊢
      exact (resolvePart_canonical f S hf ord hord _ b hb hl.symm).symm
    · rfl
  exact ⟨key _ h.1 p1, key _ h.2.1 p2, key _ h.2.2.1 p3, key _ h.2.2.2 p4⟩

theorem MixOk.mono {S S' : Name → Prop} (h : MixOk S) (hs : ∀ a, S' a → S a) : MixOk S' :=
  ⟨fun a b ha hb => h.1 a b (hs a ha) (hs b hb), fun a b ha hb => h.2.1 a b (hs a ha) (hs b hb),
   fun a b ha hb => h.2.2.1 a b (hs a ha) (hs b hb), fun a b ha hb => h.2.2.2 a b (hs a ha) (hs b hb)⟩

/-- the names `Manifests(true)` returns -/
def Readable (st : Store) (a : Name) : Prop := ∃ m, st.man a = some (.readable m)

theorem mem_readableNames {st : Store} {a : Name} : a ∈ st.readableNames ↔ Readable st a := by
  unfold Store.readableNames Readable
  simp only [List.mem_filter]
  constructor
  · rintro ⟨_, h⟩
    cases hr : st.readableAt a with
    | none => rw [hr] at h; cases h
    | some m => exact ⟨m, readableAt_eq_some.mp hr⟩
  · rintro ⟨m, hm⟩
    exact ⟨mem_names_iff.mpr (by rw [hm]; rfl), by rw [readableAt_eq_some.mpr hm]; rfl⟩

/-- no two readable manifests spell a fold-equal part differently -/
def NoMixed (st : Store) : Prop := MixOk (Readable st)

/-- no two readable (hence no two listed) models differ only by letter case -/
def NoTwins (st : Store) : Prop := ∀ a b, Readable st a → Readable st b → a.equalFold b = true → a = b

theorem NoMixed.noTwins {st : Store} (h : NoMixed st) : NoTwins st := by
  intro a b ha hb he
  simp only [Name.equalFold, Bool.and_eq_true, foldEq_iff] at he
  obtain ⟨⟨⟨e1, e2⟩, e3⟩, e4⟩ := he
  have h1 := h.1 a b ha hb e1
  have h2 := h.2.1 a b ha hb e2
  have h3 := h.2.2.1 a b ha hb e3
  have h4 := h.2.2.2 a b ha hb e4
  cases a; cases b; simp_all

/-- API operations (everything except the injected legacy manifest) -/
def ApiOp : Op → Prop
  | .plant _ _ => False
  | _ => True

/-- the iteration orders are orders of the map `Manifests(true)` returned -/
def Covers (st : Store) (ch : Choice) : Prop :=
  (∀ e, e ∈ ch.ord1 ↔ Readable st e) ∧ (∀ e, e ∈ ch.ord2 ↔ Readable st e)

/-! ## the repaired getExistingName (F16b) -/

theorem equalFold_iff (a b : Name) : a.equalFold b = true ↔
    lower a.host = lower b.host ∧ lower a.ns = lower b.ns ∧ lower a.model = lower b.model ∧
    lower a.tag = lower b.tag := by
  simp only [Name.equalFold, Bool.and_eq_true, foldEq_iff]
  constructor
  · rintro ⟨⟨⟨h1, h2⟩, h3⟩, h4⟩; exact ⟨h1, h2, h3, h4⟩
  · rintro ⟨h1, h2, h3, h4⟩; exact ⟨⟨⟨h1, h2⟩, h3⟩, h4⟩

theorem equalFold_symm {a b : Name} (h : a.equalFold b = true) : b.equalFold a = true := by
  rw [equalFold_iff] at h ⊢
  exact ⟨h.1.symm, h.2.1.symm, h.2.2.1.symm, h.2.2.2.symm⟩

theorem equalFold_trans {a b c : Name} (h1 : a.equalFold b = true) (h2 : b.equalFold c = true) :
    a.equalFold c = true := by
  rw [equalFold_iff] at h1 h2 ⊢
  exact ⟨h1.1.trans h2.1, h1.2.1.trans h2.2.1, h1.2.2.1.trans h2.2.2.1, h1.2.2.2.trans h2.2.2.2⟩

theorem mem_insertName (x y : Name) (l : List Name) : x ∈ insertName y l ↔ x = y ∨ x ∈ l := by
  induction l with
  | nil => simp [insertName]
  | cons z t ih =>
    simp only [insertName]
    split
    · simp
    · simp only [List.mem_cons, ih]
      constructor
      · rintro (h | h | h)
        · exact Or.inr (Or.inl h)
        · exact Or.inl h
        · exact Or.inr (Or.inr h)
      · rintro (h | h | h)
        · exact Or.inr (Or.inl h)
        · exact Or.inl h
        · exact Or.inr (Or.inr h)

theorem mem_sortNames (x : Name) (l : List Name) : x ∈ sortNames l ↔ x ∈ l := by
  induction l with
  | nil => simp [sortNames]
  | cons y t ih =>
    simp only [sortNames, List.foldr_cons, List.mem_cons] at ih ⊢
    rw [mem_insertName, ih]

theorem firstPart_lower (f : Name → String) (es : List Name) (x : String) :
    lower (firstPart f es x) = lower x := by
  unfold firstPart
  split
  · rename_i e he
    have := List.find?_some he
    exact (foldEq_iff _ _).mp this
  · rfl

/-- the repaired `getExistingName` returns an existing name, or a name no existing one is fold-equal to -/
theorem getExistingNameFixed_spec (es : List Name) (n : Name) :
    getExistingNameFixed es n ∈ es ∨
    ((∀ e ∈ es, e.equalFold n = false) ∧ (getExistingNameFixed es n).equalFold n = true) := by
  unfold getExistingNameFixed
  split
  · rename_i h
    exact Or.inl (by simpa using h)
  · simp only
    split
    · rename_i e he
      exact Or.inl ((mem_sortNames e es).mp (List.mem_of_find?_eq_some he))
    · rename_i hnone
      refine Or.inr ⟨?_, ?_⟩
      · intro e he
        have := List.find?_eq_none.mp hnone e ((mem_sortNames e es).mpr he)
        simpa using this
      · rw [equalFold_iff]
        exact ⟨firstPart_lower _ _ _, firstPart_lower _ _ _, firstPart_lower _ _ _, firstPart_lower _ _ _⟩

/-! ## events of a create request with N1 repaired -/

theorem fileLayers_err {env : Env} (ds : List Digest) {st : Store} (e : String)
    (h : (fileLayers env st ds).2 = .error e) : e ≠ "s" := by
  induction ds generalizing st with
  | nil => simp [fileLayers] at h
  | cons d t ih =>
    simp only [fileLayers] at h
    cases hb : st.blob d.key with
    | none => rw [hb] at h; simp only at h; injection h with h; subst h; decide
    | some c =>
      rw [hb] at h; simp only at h
      cases hg : env.gguf c with
      | none => rw [hg] at h; simp only at h; injection h with h; subst h; decide
      | some mt =>
        rw [hg] at h; simp only at h
        cases hal : autoLayers env st mt with
        | mk st1 auto =>
          rw [hal] at h; simp only at h
          cases hfl : fileLayers env st1 t with
          | mk st2 res =>
            rw [hfl] at h
            cases res with
            | error e' =>
              injection h with h; subst h
              exact ih (st := st1) (by rw [hfl])
            | ok r => cases h

/-- with N1 repaired, base layers come without any error event; without base layers there is no success -/
theorem baseLayers_events {env : Env} (hv : env.v.fixReturn = true) (st : Store) (r : CreateReq) (frev : Bool) :
    ((baseLayers env st r frev).2.1.isSome = true → (baseLayers env st r frev).2.2 = []) ∧
    ((baseLayers env st r frev).2.1 = none → "s" ∉ (baseLayers env st r frev).2.2) := by
  unfold baseLayers
  simp only [hv, if_true]
  cases r.src with
  | some f =>
    simp only
    cases st.readableAt f with
    | none => simp
    | some m =>
      simp only
      cases fromLayers env st m.layers with
      | none => simp
      | some b => simp
  | none =>
    simp only
    split
    · simp
    · cases hfl : fileLayers env st (if frev = true then r.files.reverse else r.files) with
      | mk st' res =>
        cases res with
        | error e =>
          simp only
          refine ⟨by simp, fun _ => ?_⟩
          simp only [List.mem_singleton]
          exact fun h => fileLayers_err _ e (by rw [hfl]) h.symm
        | ok b => simp

theorem createModel_err {env : Env} {st : Store} {name : Name} {base : List (Layer × Option Meta)}
    {r : CreateReq} {e : String} (h : (createModel env st name base r).2 = some e) : e ≠ "s" := by
  unfold createModel at h
  simp only at h
  split at h
  · injection h with h; subst h; decide
  · split at h
    · injection h with h; subst h; decide
    · cases h

/-- **N1 repaired**: a create either reports exactly the success event, or no success event at all -/
theorem createAt_events_fixed {env : Env} (hv : env.v.fixReturn = true) (st : Store) (r : CreateReq)
    (name : Name) (frev : Bool) :
    (createAt env st r name frev).2 = ["s"] ∨ "s" ∉ (createAt env st r name frev).2 := by
  obtain ⟨h1, h2⟩ := baseLayers_events hv st r frev
  unfold createAt
  simp only
  cases hbl : baseLayers env st r frev with
  | mk stb rest =>
    obtain ⟨ob, ev⟩ := rest
    rw [hbl] at h1 h2
    simp only at h1 h2
    cases ob with
    | none => exact Or.inr (h2 rfl)
    | some base =>
      simp only
      have hev : ev = [] := h1 rfl
      subst hev
      cases hcm : createModel env stb name base r with
      | mk st1 o =>
        cases o with
        | some err =>
          simp only
          refine Or.inr ?_
          simp only [List.nil_append, List.mem_singleton]
          exact fun h => createModel_err (by rw [hcm]) h.symm
        | none =>
          simp only
          cases st.readableAt name <;> exact Or.inl rfl

/-- **`create … from` with the pull inside `parseFromModel`** is `Good` for the two names it may write: the
    invariant is preserved, and every other model keeps its manifest file and its blobs — for ANY target `nm` and
    lookup name `sn` (resolved or not), any registry answer whose manifest is truthful (`PullOk`). -/
theorem createFromPull_good {env : Env} (hinj : HashInj env) {st : Store} (hb : BlobsOk env st)
    (hc : Guard env st) (hk : env.v.fixKeep = true) (r : CreateReq) (hf : ∀ d ∈ r.files, GD env d)
    (nm sn : Name) (reg : Manifest) (served : List (String × Bytes)) (hp : PullOk env reg) :
    Good env st (createFromPull env st r nm sn reg served).1 [nm, sn] := by
  unfold createFromPull
  simp only
  have hap : ∀ (s : Store), ApartReq env s { r with src := some sn } false :=
    fun s b _ => apart_of_fixKeep hk _ _ _
  cases hm : st.man sn with
  | some f =>
    simp only
    exact (createAt_good hinj hb hc { r with src := some sn } hf nm false (hap st)).1.mono (T' := [nm, sn])
      (by intro n hn; simp at hn ⊢; exact Or.inl hn)
  | none =>
    simp only
    have g1 : Good env st (pullAt env st sn (some reg) served).1 [nm, sn] :=
      (pullAt_good hb hc sn (some reg) served (fun m e => by injection e with e; subst e; exact hp)).mono
        (T' := [nm, sn]) (by intro n hn; simp at hn ⊢; exact Or.inr hn)
    split
    · simp only
      have g2 := (createAt_good hinj g1.blobsOk g1.canon { r with src := some sn } hf nm false (hap _)).1.mono
        (T' := [nm, sn]) (by intro n hn; simp at hn ⊢; exact Or.inl hn)
      exact g1.trans g2
    · exact g1

end OllamaVerif.Store
