/-
  Helper lemmas for C04 (model store): association lists, the reference scans, the `BlobStep` relation
  ("blobs change only where no readable manifest points, and what appears is correctly named") and the
  primitive effects (`Layer.Remove`, `NewLayer`, manifest write/remove).  Core Lean only.
-/
import OllamaVerif.Model.Store
namespace OllamaVerif.Store

theorem aget_adel {α β} [DecidableEq α] (l : List (α × β)) (k k' : α) :
    aget (adel l k) k' = if k' = k then none else aget l k' := by
  induction l with
  | nil => simp [adel, aget]
  | cons p t ih =>
    obtain ⟨a, b⟩ := p
    unfold adel at ih ⊢
    by_cases h : a = k
    · subst h
      simp only [List.filter, ne_eq, not_true_eq_false, decide_false]
      rw [ih]
      by_cases h2 : k' = a
      · simp [h2]
      · simp only [h2, if_false, aget]
        have : ¬ a = k' := fun e => h2 e.symm
        simp [this]
    · simp only [List.filter, ne_eq, h, not_false_eq_true, decide_true, aget]
      rw [ih]
      by_cases h2 : a = k'
      · subst h2; simp [h]
      · simp [h2]

theorem aget_aset {α β} [DecidableEq α] (l : List (α × β)) (k k' : α) (v : β) :
    aget (aset l k v) k' = if k' = k then some v else aget l k' := by
  unfold aset
  simp only [aget]
  by_cases h : k = k'
  · subst h; simp
  · have : ¬ k' = k := fun e => h e.symm
    simp [h, this, aget_adel]

theorem aget_filter_key {α β} [DecidableEq α] (l : List (α × β)) (f : α → Bool) (k : α) :
    aget (l.filter (fun p => f p.1)) k = if f k then aget l k else none := by
  induction l with
  | nil => simp [aget]
  | cons p t ih =>
    obtain ⟨a, b⟩ := p
    by_cases hf : f a = true
    · simp only [List.filter, hf, aget]
      by_cases h : a = k
      · subst h; simp [hf]
      · simp [h, ih]
    · simp only [List.filter, hf, aget]
      by_cases h : a = k
      · subst h; simp [hf, ih]
      · simp [h, ih]

theorem aget_isSome_iff_mem {α β} [DecidableEq α] (l : List (α × β)) (k : α) :
    (aget l k).isSome = true ↔ k ∈ l.map (·.1) := by
  induction l with
  | nil => simp [aget]
  | cons p t ih =>
    obtain ⟨a, b⟩ := p
    by_cases h : a = k
    · subst h; simp [aget]
    · have : ¬ k = a := fun e => h e.symm
      simp [aget, h, ih, this]

/-! ## reading -/

theorem readableAt_eq_some {st : Store} {n : Name} {m : Manifest} :
    st.readableAt n = some m ↔ st.man n = some (.readable m) := by
  unfold Store.readableAt
  split
  · rename_i m' h; rw [h]; simp
  · rename_i h
    constructor
    · intro h'; cases h'
    · intro h'; exact absurd h' (h m)

theorem mem_names_iff {st : Store} {n : Name} : n ∈ st.names ↔ (st.man n).isSome = true := by
  unfold Store.names Store.man
  exact (aget_isSome_iff_mem st.mans n).symm

theorem referenced_iff {st : Store} {d : Digest} :
    st.referenced d = true ↔ ∃ n m, st.man n = some (.readable m) ∧ ∃ l ∈ m.all, l.digest = d := by
  unfold Store.referenced
  rw [List.any_eq_true]
  constructor
  · rintro ⟨n, _, h⟩
    split at h
    · rename_i m hm
      refine ⟨n, m, readableAt_eq_some.mp hm, ?_⟩
      unfold Manifest.mentions at h
      rw [List.any_eq_true] at h
      obtain ⟨l, hl, he⟩ := h
      exact ⟨l, hl, by simpa using he⟩
    · cases h
  · rintro ⟨n, m, hm, l, hl, he⟩
    refine ⟨n, mem_names_iff.mpr (by rw [hm]; rfl), ?_⟩
    rw [readableAt_eq_some.mpr hm]
    unfold Manifest.mentions
    rw [List.any_eq_true]
    exact ⟨l, hl, by simpa using he⟩

theorem keyReferenced_iff {st : Store} {k : String} :
    st.keyReferenced k = true ↔ ∃ n m, st.man n = some (.readable m) ∧ ∃ l ∈ m.all, l.digest.key = k := by
  unfold Store.keyReferenced
  rw [List.any_eq_true]
  constructor
  · rintro ⟨n, _, h⟩
    split at h
    · rename_i m hm
      refine ⟨n, m, readableAt_eq_some.mp hm, ?_⟩
      rw [List.any_eq_true] at h
      obtain ⟨l, hl, he⟩ := h
      exact ⟨l, hl, by simpa using he⟩
    · cases h
  · rintro ⟨n, m, hm, l, hl, he⟩
    refine ⟨n, mem_names_iff.mpr (by rw [hm]; rfl), ?_⟩
    rw [readableAt_eq_some.mpr hm]
    rw [List.any_eq_true]
    exact ⟨l, hl, by simpa using he⟩

/-! ## invariants -/

def Complete (env : Env) (st : Store) (l : Layer) : Prop :=
  ∃ c, st.blob l.digest.key = some c ∧ c.length = l.size ∧ env.hash c = l.digest.hex

def NameInv (env : Env) (st : Store) : Prop :=
  ∀ n m, st.man n = some (.readable m) → ∀ l ∈ m.all, Complete env st l

def BlobsOk (env : Env) (st : Store) : Prop := ∀ k c, st.blob k = some c → env.hash c = k

def CanonM (m : Manifest) : Prop := ∀ l ∈ m.all, l.digest.form = .colon

def Canonical (st : Store) : Prop := ∀ n m, st.man n = some (.readable m) → CanonM m

theorem Canonical.referenced_of_key {st : Store} (hc : Canonical st) {d : Digest} (hd : d.form = .colon)
    (h : st.keyReferenced d.key = true) : st.referenced d = true := by
  obtain ⟨n, m, hm, l, hl, he⟩ := keyReferenced_iff.mp h
  refine referenced_iff.mpr ⟨n, m, hm, l, hl, ?_⟩
  have hf := hc n m hm l hl
  cases hld : l.digest with
  | mk f x =>
    cases d with
    | mk f' x' =>
      simp only [Digest.key, hld] at he
      simp only [hld] at hf
      simp_all

theorem keyReferenced_of_referenced {st : Store} {d : Digest} (h : st.referenced d = true) :
    st.keyReferenced d.key = true := by
  obtain ⟨n, m, hm, l, hl, he⟩ := referenced_iff.mp h
  exact keyReferenced_iff.mpr ⟨n, m, hm, l, hl, by rw [he]⟩

/-! ## the guard: nothing when F16a is repaired, colon spelling on the pinned tree -/

/-- digest `d` may meet `Layer.Remove`: any digest once F16a is repaired, only `sha256:` before -/
def GD (env : Env) (d : Digest) : Prop := env.v.fixAlias = true ∨ d.form = .colon

/-- the guard of the invariant theorems: none once F16a is repaired, `Canonical st` on the pinned tree -/
def Guard (env : Env) (st : Store) : Prop := env.v.fixAlias = true ∨ Canonical st

theorem Guard.gd {env : Env} {st : Store} (hg : Guard env st) {n : Name} {m : Manifest}
    (hm : st.man n = some (.readable m)) {l : Layer} (hl : l ∈ m.all) : GD env l.digest := by
  rcases hg with h | h
  · exact Or.inl h
  · exact Or.inr (h n m hm l hl)

theorem key_of_inUse {env : Env} {st : Store} {d : Digest} (h : env.inUse st d = true) :
    st.keyReferenced d.key = true := by
  unfold Env.inUse at h
  split at h
  · exact h
  · exact keyReferenced_of_referenced h

theorem inUse_of_referenced {env : Env} {st : Store} {d : Digest} (h : st.referenced d = true) :
    env.inUse st d = true := by
  unfold Env.inUse
  split
  · exact keyReferenced_of_referenced h
  · exact h

theorem inUse_of_key {env : Env} {st : Store} (hg : Guard env st) {d : Digest} (hd : GD env d)
    (h : st.keyReferenced d.key = true) : env.inUse st d = true := by
  unfold Env.inUse
  split
  · exact h
  · rename_i hf
    rcases hg with hg | hg
    · exact absurd hg hf
    · rcases hd with hd | hd
      · exact absurd hd hf
      · exact hg.referenced_of_key hd h

theorem recorded_key (env : Env) (d : Digest) : (env.recorded d).key = d.key := by
  unfold Env.recorded; split <;> rfl

theorem recorded_hex (env : Env) (d : Digest) : (env.recorded d).hex = d.hex := by
  unfold Env.recorded; split <;> rfl

theorem GD_recorded {env : Env} {d : Digest} (h : GD env d) : GD env (env.recorded d) := by
  unfold Env.recorded
  split
  · rename_i hf; exact Or.inl hf
  · exact h

theorem inUse_recorded {env : Env} {st : Store} {d : Digest} (h : st.referenced d = true) :
    env.inUse st (env.recorded d) = true := by
  unfold Env.inUse Env.recorded
  split
  · exact (keyReferenced_of_referenced h : st.keyReferenced d.key = true)
  · exact h

/-- blobs change only where no readable manifest points (or where nothing was), and what appears is
    correctly named; manifests do not change -/
structure BlobStep (env : Env) (st st' : Store) : Prop where
  mans : st'.mans = st.mans
  blobs : ∀ k, st'.blob k = st.blob k ∨
    ((st.keyReferenced k = false ∨ st.blob k = none) ∧ ∀ c, st'.blob k = some c → env.hash c = k)

theorem BlobStep.refl (env : Env) (st : Store) : BlobStep env st st := ⟨rfl, fun _ => Or.inl rfl⟩

theorem keyReferenced_congr {st st' : Store} (h : st'.mans = st.mans) (k : String) :
    st'.keyReferenced k = st.keyReferenced k := by
  unfold Store.keyReferenced Store.names Store.readableAt Store.man
  rw [h]

theorem referenced_congr {st st' : Store} (h : st'.mans = st.mans) (d : Digest) :
    st'.referenced d = st.referenced d := by
  unfold Store.referenced Store.names Store.readableAt Store.man
  rw [h]

theorem man_congr {st st' : Store} (h : st'.mans = st.mans) (n : Name) : st'.man n = st.man n := by
  unfold Store.man; rw [h]

theorem BlobStep.trans {env : Env} {a b c : Store} (h1 : BlobStep env a b) (h2 : BlobStep env b c) :
    BlobStep env a c := by
  refine ⟨h2.mans.trans h1.mans, fun k => ?_⟩
  rcases h1.blobs k with e1 | ⟨p1, v1⟩
  · rcases h2.blobs k with e2 | ⟨p2, v2⟩
    · exact Or.inl (e2.trans e1)
    · refine Or.inr ⟨?_, v2⟩
      rw [keyReferenced_congr h1.mans, e1] at p2
      exact p2
  · rcases h2.blobs k with e2 | ⟨_, v2⟩
    · exact Or.inr ⟨p1, fun c hc => v1 c (e2 ▸ hc)⟩
    · exact Or.inr ⟨p1, v2⟩

theorem BlobStep.blobsOk {env : Env} {st st' : Store} (h : BlobStep env st st') (hb : BlobsOk env st) :
    BlobsOk env st' := by
  intro k c hc
  rcases h.blobs k with e | ⟨_, v⟩
  · exact hb k c (e ▸ hc)
  · exact v c hc

/-- the frame half: a blob some readable manifest points to is untouched -/
theorem BlobStep.keep {env : Env} {st st' : Store} (h : BlobStep env st st') {n : Name} {m : Manifest}
    (hm : st.man n = some (.readable m)) {l : Layer} (hl : l ∈ m.all) {c : Bytes}
    (hc : st.blob l.digest.key = some c) : st'.blob l.digest.key = some c := by
  rcases h.blobs l.digest.key with e | ⟨p, _⟩
  · rw [e, hc]
  · rcases p with p | p
    · have : st.keyReferenced l.digest.key = true := keyReferenced_iff.mpr ⟨n, m, hm, l, hl, rfl⟩
      rw [this] at p; cases p
    · rw [hc] at p; cases p

theorem BlobStep.nameInv {env : Env} {st st' : Store} (h : BlobStep env st st') (hi : NameInv env st) :
    NameInv env st' := by
  intro n m hm l hl
  rw [man_congr h.mans] at hm
  obtain ⟨c, hc, hlen, hh⟩ := hi n m hm l hl
  exact ⟨c, h.keep hm hl hc, hlen, hh⟩

theorem BlobStep.canonical {env : Env} {st st' : Store} (h : BlobStep env st st') (hc : Canonical st) :
    Canonical st' := by
  intro n m hm
  rw [man_congr h.mans] at hm
  exact hc n m hm

theorem BlobStep.guard {env : Env} {st st' : Store} (h : BlobStep env st st') (hg : Guard env st) :
    Guard env st' := hg.imp id h.canonical

theorem inUse_congr {env : Env} {st st' : Store} (h : st'.mans = st.mans) (d : Digest) :
    env.inUse st' d = env.inUse st d := by
  unfold Env.inUse; rw [keyReferenced_congr h, referenced_congr h]


/-! ## primitive effects -/

theorem blob_adel (st : Store) (k k' : String) :
    (Store.blob { st with blobs := adel st.blobs k } k') = if k' = k then none else st.blob k' := by
  unfold Store.blob; exact aget_adel _ _ _

theorem layerRemove_step (env : Env) {st : Store} (hg : Guard env st) {d : Digest} (hd : GD env d) :
    BlobStep env st (layerRemove env st d) := by
  unfold layerRemove
  by_cases hr : env.inUse st d = true
  · simp only [hr, if_true]; exact BlobStep.refl env st
  · have hr' : env.inUse st d = false := by cases h : env.inUse st d <;> simp_all
    simp only [hr', Bool.false_eq_true, if_false]
    refine ⟨rfl, fun k => ?_⟩
    rw [blob_adel]
    by_cases hk : k = d.key
    · subst hk
      refine Or.inr ⟨Or.inl ?_, by simp⟩
      cases hkr : st.keyReferenced d.key with
      | false => rfl
      | true => exact absurd (inUse_of_key hg hd hkr) hr
    · simp [hk]

theorem removeLayers_step (env : Env) (ls : List Layer) {st : Store} (hg : Guard env st)
    (hd : ∀ l ∈ ls, GD env l.digest) :
    BlobStep env st (removeLayers env st ls) := by
  induction ls generalizing st with
  | nil => exact BlobStep.refl env st
  | cons l t ih =>
    unfold removeLayers
    simp only [List.foldl]
    have h1 := layerRemove_step env hg (hd l (by simp))
    have := ih (st := layerRemove env st l.digest) (h1.guard hg) (fun x hx => hd x (by simp [hx]))
    exact h1.trans this

theorem layerRemove_noop {env : Env} {st : Store} {d : Digest} (h : env.inUse st d = true) :
    layerRemove env st d = st := by
  unfold layerRemove; simp [h]

theorem removeLayers_noop {env : Env} (ls : List Layer) {st : Store} (h : ∀ l ∈ ls, env.inUse st l.digest = true) :
    removeLayers env st ls = st := by
  induction ls with
  | nil => rfl
  | cons l t ih =>
    unfold removeLayers
    simp only [List.foldl]
    rw [layerRemove_noop (h l (by simp))]
    exact ih (fun x hx => h x (by simp [hx]))

theorem blob_aset (st : Store) (k k' : String) (c : Bytes) :
    (Store.blob { st with blobs := aset st.blobs k c } k') = if k' = k then some c else st.blob k' := by
  unfold Store.blob; exact aget_aset _ _ _ _

theorem putBlob_blob (env : Env) (st : Store) (c : Bytes) (k : String) :
    (putBlob env st c).blob k = if k = env.hash c ∧ st.blob (env.hash c) = none then some c else st.blob k := by
  unfold putBlob
  split
  · rename_i x hx; simp [hx]
  · rename_i hx
    rw [blob_aset]
    by_cases hk : k = env.hash c
    · simp [hk, hx]
    · simp [hk]

theorem putBlob_mans (env : Env) (st : Store) (c : Bytes) : (putBlob env st c).mans = st.mans := by
  unfold putBlob; split <;> rfl

theorem putBlob_step (env : Env) (st : Store) (c : Bytes) : BlobStep env st (putBlob env st c) := by
  refine ⟨putBlob_mans env st c, fun k => ?_⟩
  rw [putBlob_blob]
  by_cases h : k = env.hash c ∧ st.blob (env.hash c) = none
  · obtain ⟨h1, h2⟩ := h
    subst h1
    simp only [h2, and_self, if_true]
    refine Or.inr ⟨Or.inr trivial, ?_⟩
    intro c' hc'
    injection hc' with e
    rw [← e]
  · simp [h]

/-- after `putBlob` the content's key holds something of the same hash -/
theorem putBlob_present (env : Env) (st : Store) (c : Bytes) :
    ∃ c', (putBlob env st c).blob (env.hash c) = some c' ∧ (st.blob (env.hash c) = none → c' = c) ∧
      (∀ x, st.blob (env.hash c) = some x → c' = x) := by
  rw [putBlob_blob]
  cases h : st.blob (env.hash c) with
  | none => exact ⟨c, by simp, fun _ => rfl, fun x hx => by cases hx⟩
  | some x =>
    refine ⟨x, by simp, ?_, ?_⟩
    · intro h'; cases h'
    · intro y hy; exact Option.some.inj hy

theorem setManifest_man (st : Store) (n n' : Name) (f : MFile) :
    (setManifest st n f).man n' = if n' = n then some f else st.man n' := by
  unfold setManifest Store.man; exact aget_aset _ _ _ _

theorem delManifest_man (st : Store) (n n' : Name) :
    (delManifest st n).man n' = if n' = n then none else st.man n' := by
  unfold delManifest Store.man; exact aget_adel _ _ _

theorem setManifest_blob (st : Store) (n : Name) (f : MFile) (k : String) :
    (setManifest st n f).blob k = st.blob k := rfl

theorem delManifest_blob (st : Store) (n : Name) (k : String) : (delManifest st n).blob k = st.blob k := rfl

theorem Complete.mono_blob {env : Env} {st st' : Store} {l : Layer} (h : Complete env st l)
    (hb : ∀ c, st.blob l.digest.key = some c → st'.blob l.digest.key = some c) : Complete env st' l := by
  obtain ⟨c, hc, h1, h2⟩ := h
  exact ⟨c, hb c hc, h1, h2⟩

theorem setManifest_nameInv {env : Env} {st : Store} (hi : NameInv env st) (n : Name) (f : MFile)
    (hf : ∀ m, f = .readable m → ∀ l ∈ m.all, Complete env st l) : NameInv env (setManifest st n f) := by
  intro n' m hm l hl
  rw [setManifest_man] at hm
  by_cases h : n' = n
  · simp only [h, if_true] at hm
    injection hm with e
    exact (hf m e l hl).mono_blob (fun c hc => hc)
  · simp only [h, if_false] at hm
    exact (hi n' m hm l hl).mono_blob (fun c hc => hc)

theorem setManifest_canonical {st : Store} (hc : Canonical st) (n : Name) (f : MFile)
    (hf : ∀ m, f = .readable m → CanonM m) : Canonical (setManifest st n f) := by
  intro n' m hm
  rw [setManifest_man] at hm
  by_cases h : n' = n
  · simp only [h, if_true] at hm
    injection hm with e
    exact hf m e
  · simp only [h, if_false] at hm
    exact hc n' m hm

theorem Guard.setManifest {env : Env} {st : Store} (hg : Guard env st) (n : Name) (f : MFile)
    (hf : ∀ m, f = .readable m → ∀ l ∈ m.all, GD env l.digest) : Guard env (setManifest st n f) := by
  rcases hg with h | h
  · exact Or.inl h
  · by_cases hv : env.v.fixAlias = true
    · exact Or.inl hv
    · refine Or.inr (setManifest_canonical h n f (fun m e l hl => ?_))
      rcases hf m e l hl with h' | h'
      · exact absurd h' hv
      · exact h'

theorem delManifest_nameInv {env : Env} {st : Store} (hi : NameInv env st) (n : Name) :
    NameInv env (delManifest st n) := by
  intro n' m hm l hl
  rw [delManifest_man] at hm
  by_cases h : n' = n
  · simp [h] at hm
  · simp only [h, if_false] at hm
    exact (hi n' m hm l hl).mono_blob (fun c hc => hc)

theorem delManifest_canonical {st : Store} (hc : Canonical st) (n : Name) : Canonical (delManifest st n) := by
  intro n' m hm
  rw [delManifest_man] at hm
  by_cases h : n' = n
  · simp [h] at hm
  · simp only [h, if_false] at hm
    exact hc n' m hm

theorem Guard.delManifest {env : Env} {st : Store} (hg : Guard env st) (n : Name) :
    Guard env (delManifest st n) := hg.imp id (fun h => delManifest_canonical h n)

/-! ## createModel -/

/-- `hash` has no collisions (needed only for the SIZE clause of completeness when `NewLayer` finds a file
    of the same name already present) -/
def HashInj (env : Env) : Prop := ∀ a b, env.hash a = env.hash b → a = b

theorem Complete.putBlob {env : Env} {st : Store} {l : Layer} (h : Complete env st l) (c : Bytes) :
    Complete env (putBlob env st c) l := by
  refine h.mono_blob (fun x hx => ?_)
  rw [putBlob_blob]
  by_cases hk : l.digest.key = env.hash c ∧ st.blob (env.hash c) = none
  · obtain ⟨h1, h2⟩ := hk
    rw [← h1, hx] at h2; cases h2
  · simp [hk, hx]

theorem newLayer_complete {env : Env} (hinj : HashInj env) {st : Store} (hb : BlobsOk env st) (c : Bytes)
    (media : Media) : Complete env (putBlob env st c) ⟨media, ⟨.colon, env.hash c⟩, c.length⟩ := by
  obtain ⟨c', h1, h2, h3⟩ := putBlob_present env st c
  have : c' = c := by
    cases hx : st.blob (env.hash c) with
    | none => exact h2 hx
    | some x =>
      have := h3 x hx
      subst this
      exact hinj _ _ (hb _ _ hx)
  subst this
  exact ⟨c', h1, rfl, rfl⟩

/-- working-list invariant of `createModel` -/
structure WL (env : Env) (st : Store) (ls : List Layer) (μs : Media → Prop) : Prop where
  complete : ∀ l ∈ ls, Complete env st l
  gd : ∀ l ∈ ls, GD env l.digest
  ref : ∀ l ∈ ls, μs l.media → env.inUse st l.digest = true

theorem replaceLayer_fst (env : Env) (st : Store) (ls : List Layer) (media : Media) (c : Bytes)
    (href : ∀ l ∈ ls, l.media = media → env.inUse st l.digest = true) :
    (replaceLayer env st ls media c).1 = putBlob env st c := by
  unfold replaceLayer newLayer
  simp only
  rw [removeLayers_noop]
  intro l hl
  simp only [List.mem_filter, decide_eq_true_eq] at hl
  exact href l hl.1 hl.2

theorem replaceLayer_snd (env : Env) (st : Store) (ls : List Layer) (media : Media) (c : Bytes) :
    (replaceLayer env st ls media c).2 =
      ls.filter (fun l => l.media ≠ media) ++ [⟨media, ⟨.colon, env.hash c⟩, c.length⟩] := by
  unfold replaceLayer newLayer
  rfl

theorem replaceLayer_WL {env : Env} (hinj : HashInj env) {st : Store} {ls : List Layer} {μs : Media → Prop}
    (hb : BlobsOk env st) (w : WL env st ls μs) (media : Media) (hμ : μs media) (c : Bytes) :
    (replaceLayer env st ls media c).1 = putBlob env st c ∧
    WL env (putBlob env st c) (replaceLayer env st ls media c).2 (fun x => μs x ∧ x ≠ media) := by
  have h1 := replaceLayer_fst env st ls media c (fun l hl hm => w.ref l hl (hm ▸ hμ))
  refine ⟨h1, ?_⟩
  rw [replaceLayer_snd]
  refine ⟨?_, ?_, ?_⟩
  · intro l hl
    simp only [List.mem_append, List.mem_filter, List.mem_singleton] at hl
    rcases hl with hl | hl
    · exact (w.complete l hl.1).putBlob c
    · subst hl; exact newLayer_complete hinj hb c media
  · intro l hl
    simp only [List.mem_append, List.mem_filter, List.mem_singleton] at hl
    rcases hl with hl | hl
    · exact w.gd l hl.1
    · subst hl; exact Or.inr rfl
  · intro l hl hm
    simp only [List.mem_append, List.mem_filter, List.mem_singleton] at hl
    rw [inUse_congr (putBlob_mans env st c)]
    rcases hl with hl | hl
    · exact w.ref l hl.1 hm.1
    · subst hl; exact absurd rfl hm.2

theorem WL.weaken {env : Env} {st : Store} {ls : List Layer} {μs μs' : Media → Prop} (w : WL env st ls μs)
    (h : ∀ x, μs' x → μs x) : WL env st ls μs' :=
  ⟨w.complete, w.gd, fun l hl hm => w.ref l hl (h _ hm)⟩

theorem stepTemplate_spec {env : Env} (hinj : HashInj env) {st : Store} {ls : List Layer} {μs : Media → Prop}
    (hb : BlobsOk env st) (w : WL env st ls μs) (hμ : μs .template) (t : Option (Bytes × Bool)) :
    BlobStep env st (stepTemplate env st ls t).1 ∧
    ∀ ls', (stepTemplate env st ls t).2 = some ls' →
      WL env (stepTemplate env st ls t).1 ls' (fun x => μs x ∧ x ≠ .template) := by
  cases t with
  | none =>
    simp only [stepTemplate]
    exact ⟨BlobStep.refl env st, fun ls' h => by injection h with e; subst e; exact w.weaken (fun _ h => h.1)⟩
  | some tb =>
    obtain ⟨t, ok⟩ := tb
    cases ok with
    | false =>
      simp only [stepTemplate, Bool.false_eq_true, if_false]
      rw [removeLayers_noop]
      · exact ⟨BlobStep.refl env st, fun ls' h => by cases h⟩
      · intro l hl
        simp only [List.mem_filter, decide_eq_true_eq] at hl
        exact w.ref l hl.1 (hl.2 ▸ hμ)
    | true =>
      simp only [stepTemplate, if_true]
      obtain ⟨e1, w1⟩ := replaceLayer_WL hinj hb w .template hμ t
      rw [e1]
      exact ⟨putBlob_step env st t, fun ls' h => by injection h with e; subst e; exact w1⟩

theorem stepSystem_spec {env : Env} (hinj : HashInj env) {st : Store} {ls : List Layer} {μs : Media → Prop}
    (hb : BlobsOk env st) (w : WL env st ls μs) (hμ : μs .system) (s : Option Bytes) :
    BlobStep env st (stepSystem env st ls s).1 ∧
      WL env (stepSystem env st ls s).1 (stepSystem env st ls s).2 (fun x => μs x ∧ x ≠ .system) := by
  cases s with
  | none =>
    simp only [stepSystem]
    exact ⟨BlobStep.refl env st, w.weaken (fun _ h => h.1)⟩
  | some s =>
    simp only [stepSystem]
    obtain ⟨e1, w1⟩ := replaceLayer_WL hinj hb w .system hμ s
    rw [e1]
    exact ⟨putBlob_step env st s, w1⟩

theorem stepParams_spec {env : Env} (hinj : HashInj env) {st : Store} {ls : List Layer} {μs : Media → Prop}
    (hb : BlobsOk env st) (w : WL env st ls μs) (hμ : μs .params) (p : List (String × String)) :
    BlobStep env st (stepParams env st ls p).1 ∧
    ∀ ls', (stepParams env st ls p).2 = some ls' →
      WL env (stepParams env st ls p).1 ls' (fun x => μs x ∧ x ≠ .params) := by
  unfold stepParams
  split
  · exact ⟨BlobStep.refl env st, fun ls' h => by cases h⟩
  · exact ⟨BlobStep.refl env st, fun ls' h => by injection h with e; subst e; exact w.weaken (fun _ h => h.1)⟩
  · rename_i q _ _
    obtain ⟨e1, w1⟩ := replaceLayer_WL hinj hb w .params hμ (encodeParams q)
    simp only
    rw [e1]
    exact ⟨putBlob_step env st _, fun ls' h => by injection h with e; subst e; exact w1⟩

/-- what `createModel` does to the store: only `NewLayer` writes, then (on success) one manifest whose
    layers are all complete -/
theorem createModel_spec {env : Env} (hinj : HashInj env) {st : Store} (name : Name)
    (base : List (Layer × Option Meta)) (r : CreateReq) (hb : BlobsOk env st)
    (w : WL env st (base.map (·.1)) (fun x => x = .template ∨ x = .system ∨ x = .params)) :
    ∃ st0, BlobStep env st st0 ∧
      (((createModel env st name base r).1 = st0 ∧ (createModel env st name base r).2.isSome = true) ∨
       (∃ m, (createModel env st name base r) = (setManifest st0 name (.readable m), none) ∧
          (∀ l ∈ m.all, GD env l.digest) ∧ ∀ l ∈ m.all, Complete env st0 l)) := by
  unfold createModel
  simp only
  obtain ⟨s1, w1⟩ := stepTemplate_spec hinj hb w (Or.inl rfl) r.template
  cases h1 : stepTemplate env st (base.map (·.1)) r.template with
  | mk st1 o1 =>
    rw [h1] at s1 w1
    simp only at s1 w1
    cases o1 with
    | none => exact ⟨st1, s1, Or.inl ⟨rfl, rfl⟩⟩
    | some l1 =>
      simp only
      have w1 := w1 l1 rfl
      have hb1 := s1.blobsOk hb
      obtain ⟨s2, w2⟩ := stepSystem_spec hinj hb1 w1 ⟨Or.inr (Or.inl rfl), by decide⟩ r.system
      cases h2 : stepSystem env st1 l1 r.system with
      | mk st2 l2 =>
        rw [h2] at s2 w2
        simp only at s2 w2
        have hb2 := s2.blobsOk hb1
        obtain ⟨s3, w3⟩ := stepParams_spec hinj hb2 w2 ⟨⟨Or.inr (Or.inr rfl), by decide⟩, by decide⟩ r.params
        cases h3 : stepParams env st2 l2 r.params with
        | mk st3 o3 =>
          rw [h3] at s3 w3
          simp only at s3 w3
          cases o3 with
          | none => exact ⟨st3, (s1.trans s2).trans s3, Or.inl ⟨rfl, rfl⟩⟩
          | some l3 =>
            simp only
            have w3 := w3 l3 rfl
            have hb3 := s3.blobsOk hb2
            let cb := configJSON (base.filterMap (·.2)) (l3.map (·.digest))
            refine ⟨putBlob env st3 cb, ((s1.trans s2).trans s3).trans (putBlob_step env st3 cb), Or.inr ?_⟩
            refine ⟨⟨⟨.config, ⟨.colon, env.hash cb⟩, cb.length⟩, l3⟩, rfl, ?_, ?_⟩
            · intro l hl
              simp only [Manifest.all, List.mem_append, List.mem_singleton] at hl
              rcases hl with hl | hl
              · exact w3.gd l hl
              · subst hl; exact Or.inr rfl
            · intro l hl
              simp only [Manifest.all, List.mem_append, List.mem_singleton] at hl
              rcases hl with hl | hl
              · exact (w3.complete l hl).putBlob cb
              · subst hl; exact newLayer_complete hinj hb3 cb .config

/-! ## base layers of a create request -/

def μ3 : Media → Prop := fun x => x = .template ∨ x = .system ∨ x = .params

theorem fromLayers_WL {env : Env} {st : Store} (hb : BlobsOk env st) (ls : List Layer)
    (hcol : ∀ l ∈ ls, GD env l.digest) (href : ∀ l ∈ ls, st.referenced l.digest = true) :
    ∀ b, fromLayers env st ls = some b → WL env st (b.map (·.1)) μ3 := by
  induction ls with
  | nil =>
    intro b h
    simp only [fromLayers] at h
    injection h with e; subst e
    exact ⟨by simp, by simp, by simp⟩
  | cons l t ih =>
    intro b h
    have iht := ih (fun x hx => hcol x (by simp [hx])) (fun x hx => href x (by simp [hx]))
    simp only [fromLayers] at h
    cases hc : st.blob l.digest.key with
    | none => simp [hc] at h
    | some c =>
      simp only [hc] at h
      have hl' : Complete env st ⟨l.media, env.recorded l.digest, c.length⟩ :=
        ⟨c, by simpa [recorded_key] using hc, rfl, by rw [recorded_hex]; exact hb _ _ hc⟩
      have key : ∀ (mt : Option Meta) (r : List (Layer × Option Meta)), fromLayers env st t = some r →
          WL env st (((⟨l.media, env.recorded l.digest, c.length⟩, mt) :: r).map (·.1)) μ3 := by
        intro mt r hr
        have w := iht r hr
        refine ⟨?_, ?_, ?_⟩
        · intro x hx
          simp only [List.map_cons, List.mem_cons] at hx
          rcases hx with hx | hx
          · subst hx; exact hl'
          · exact w.complete x hx
        · intro x hx
          simp only [List.map_cons, List.mem_cons] at hx
          rcases hx with hx | hx
          · subst hx; exact GD_recorded (hcol l (by simp))
          · exact w.gd x hx
        · intro x hx hm
          simp only [List.map_cons, List.mem_cons] at hx
          rcases hx with hx | hx
          · subst hx; exact inUse_recorded (href l (by simp))
          · exact w.ref x hx hm
      split at h
      · cases hg : env.gguf c with
        | none => simp [hg] at h
        | some mt =>
          simp only [hg] at h
          cases hr : fromLayers env st t with
          | none => simp [hr] at h
          | some r =>
            simp only [hr, Option.map_some] at h
            injection h with e; subst e
            exact key _ r hr
      · cases hr : fromLayers env st t with
        | none => simp [hr] at h
        | some r =>
          simp only [hr, Option.map_some] at h
          injection h with e; subst e
          exact key _ r hr

theorem fileLayers_WL {env : Env} {st : Store} (hb : BlobsOk env st) (ds : List Digest)
    (hcol : ∀ d ∈ ds, GD env d) :
    ∀ b, fileLayers env st ds = .ok b → WL env st (b.map (·.1)) μ3 := by
  induction ds with
  | nil =>
    intro b h
    simp only [fileLayers] at h
    injection h with e; subst e
    exact ⟨by simp, by simp, by simp⟩
  | cons d t ih =>
    intro b h
    have iht := ih (fun x hx => hcol x (by simp [hx]))
    simp only [fileLayers] at h
    cases hc : st.blob d.key with
    | none => simp [hc] at h
    | some c =>
      simp only [hc] at h
      cases hg : env.gguf c with
      | none => simp [hg] at h
      | some mt =>
        simp only [hg] at h
        cases hr : fileLayers env st t with
        | error e => simp [hr] at h
        | ok r =>
          simp only [hr] at h
          injection h with e; subst e
          have w := iht r hr
          refine ⟨?_, ?_, ?_⟩
          · intro x hx
            simp only [List.map_cons, List.mem_cons] at hx
            rcases hx with hx | hx
            · subst hx
              exact ⟨c, by simpa [recorded_key] using hc, rfl, by rw [recorded_hex]; exact hb _ _ hc⟩
            · exact w.complete x hx
          · intro x hx
            simp only [List.map_cons, List.mem_cons] at hx
            rcases hx with hx | hx
            · subst hx; exact GD_recorded (hcol d (by simp))
            · exact w.gd x hx
          · intro x hx hm
            simp only [List.map_cons, List.mem_cons] at hx
            rcases hx with hx | hx
            · subst hx
              rcases hm with hm | hm | hm <;> cases hm
            · exact w.ref x hx hm

theorem WL.nil (env : Env) (st : Store) (μs : Media → Prop) : WL env st [] μs :=
  ⟨by simp, by simp, by simp⟩

theorem baseLayers_WL {env : Env} {st : Store} (hc : Guard env st) (hb : BlobsOk env st) (r : CreateReq)
    (hf : ∀ d ∈ r.files, GD env d) (frev : Bool) :
    ∀ b, (baseLayers env st r frev).1 = some b → WL env st (b.map (·.1)) μ3 := by
  intro b h
  unfold baseLayers at h
  have onErr : ∀ b, (if env.v.fixReturn = true then (none : Option (List (Layer × Option Meta))) else some []) = some b →
      WL env st (b.map (·.1)) μ3 := by
    intro b h
    split at h
    · cases h
    · injection h with e; subst e; exact WL.nil _ _ _
  cases hs : r.src with
  | some f =>
    simp only [hs] at h
    cases hm : st.readableAt f with
    | none =>
      simp only [hm] at h
      exact onErr b h
    | some m =>
      simp only [hm] at h
      have hm' := readableAt_eq_some.mp hm
      cases hfl : fromLayers env st m.layers with
      | none =>
        simp only [hfl] at h
        exact onErr b h
      | some b' =>
        simp only [hfl] at h
        injection h with e; subst e
        refine fromLayers_WL hb m.layers ?_ ?_ b' hfl
        · intro l hl; exact hc.gd hm' (by simp [Manifest.all, hl])
        · intro l hl
          exact referenced_iff.mpr ⟨f, m, hm', l, by simp [Manifest.all, hl], rfl⟩
  | none =>
    simp only [hs] at h
    split at h
    · cases h
    · cases hfl : fileLayers env st (if frev = true then r.files.reverse else r.files) with
      | error e => simp [hfl] at h
      | ok b' =>
        simp only [hfl] at h
        injection h with e; subst e
        refine fileLayers_WL hb _ ?_ b' hfl
        intro d hd
        cases frev with
        | true => exact hf d (by simpa using hd)
        | false => exact hf d (by simpa using hd)

/-! ## `Good`: invariant preservation + frame, per operation -/

/-- what every operation is shown to be, relative to the set `T` of names it may write -/
structure Good (env : Env) (st st' : Store) (T : List Name) : Prop where
  blobsOk : BlobsOk env st'
  nameInv : NameInv env st → NameInv env st'
  canon : Guard env st'
  frameMan : ∀ n, n ∉ T → st'.man n = st.man n
  frameBlob : ∀ n m, n ∉ T → st.man n = some (.readable m) → ∀ l ∈ m.all, ∀ c,
    st.blob l.digest.key = some c → st'.blob l.digest.key = some c

theorem Good.refl {env : Env} {st : Store} (hb : BlobsOk env st) (hc : Guard env st) (T : List Name) :
    Good env st st T :=
  ⟨hb, id, hc, fun _ _ => rfl, fun _ _ _ _ _ _ _ h => h⟩

theorem Good.ofBlobStep {env : Env} {st st' : Store} (h : BlobStep env st st') (hb : BlobsOk env st)
    (hc : Guard env st) (T : List Name) : Good env st st' T :=
  ⟨h.blobsOk hb, h.nameInv, h.guard hc, fun n _ => man_congr h.mans n,
   fun _ _ _ hm _ hl _ hc' => h.keep hm hl hc'⟩

theorem Good.trans {env : Env} {a b c : Store} {T : List Name} (h1 : Good env a b T) (h2 : Good env b c T) :
    Good env a c T :=
  ⟨h2.blobsOk, fun h => h2.nameInv (h1.nameInv h), h2.canon,
   fun n hn => (h2.frameMan n hn).trans (h1.frameMan n hn),
   fun n m hn hm l hl c hc =>
     h2.frameBlob n m hn ((h1.frameMan n hn).trans hm) l hl c (h1.frameBlob n m hn hm l hl c hc)⟩

theorem Good.mono {env : Env} {st st' : Store} {T T' : List Name} (h : Good env st st' T)
    (hT : ∀ n, n ∈ T → n ∈ T') : Good env st st' T' :=
  ⟨h.blobsOk, h.nameInv, h.canon, fun n hn => h.frameMan n (fun h' => hn (hT n h')),
   fun n m hn => h.frameBlob n m (fun h' => hn (hT n h'))⟩

theorem Good.setManifest {env : Env} {st : Store} (hb : BlobsOk env st) (hc : Guard env st) (n : Name)
    (f : MFile) (hf : ∀ m, f = .readable m → (∀ l ∈ m.all, GD env l.digest) ∧ ∀ l ∈ m.all, Complete env st l) :
    Good env st (setManifest st n f) [n] := by
  refine ⟨hb, fun hi => setManifest_nameInv hi n f (fun m e => (hf m e).2),
    hc.setManifest n f (fun m e => (hf m e).1), ?_, ?_⟩
  · intro n' hn'
    rw [setManifest_man]
    simp only [List.mem_singleton] at hn'
    simp [hn']
  · intro _ _ _ _ _ _ c h; exact h

theorem Good.delManifest {env : Env} {st : Store} (hb : BlobsOk env st) (hc : Guard env st) (n : Name) :
    Good env st (delManifest st n) [n] := by
  refine ⟨hb, fun hi => delManifest_nameInv hi n, hc.delManifest n, ?_, ?_⟩
  · intro n' hn'
    rw [delManifest_man]
    simp only [List.mem_singleton] at hn'
    simp [hn']
  · intro _ _ _ _ _ _ c h; exact h

/-! ## the operations -/

theorem deleteAt_good {env : Env} {st : Store} (hb : BlobsOk env st) (hc : Guard env st) (t : Name) :
    Good env st (deleteAt env st t).1 [t] := by
  unfold deleteAt
  cases hm : st.man t with
  | none => exact Good.refl hb hc _
  | some f =>
    cases f with
    | corrupt => exact Good.refl hb hc _
    | readable m =>
      simp only
      have g1 := Good.delManifest hb hc t
      have hcm : ∀ l ∈ m.all, GD env l.digest := fun l hl => hc.gd hm hl
      exact g1.trans (Good.ofBlobStep (removeLayers_step env m.all g1.canon hcm) g1.blobsOk g1.canon _)

theorem copyAt_good {env : Env} {st : Store} (hb : BlobsOk env st) (hc : Guard env st) (hi : NameInv env st)
    (s d : Name) : Good env st (copyAt st s d).1 [d] := by
  unfold copyAt
  split
  · exact Good.refl hb hc _
  · cases hm : st.man s with
    | none => exact Good.refl hb hc _
    | some f =>
      simp only
      exact Good.setManifest hb hc d f (fun m e => ⟨fun l hl => hc.gd (e ▸ hm) hl, hi s m (e ▸ hm)⟩)

theorem upload_good {env : Env} {st : Store} (hb : BlobsOk env st) (hc : Guard env st) (d : Digest) (c : Bytes) :
    Good env st (upload env st d c).1 [] := by
  unfold upload
  split
  · exact Good.refl hb hc _
  · split <;> exact Good.ofBlobStep (putBlob_step env st c) hb hc _

theorem pruneLayers_blob (env : Env) (st : Store) (k : String) :
    (pruneLayers env st).blob k = if env.inUse st ⟨.colon, k⟩ then st.blob k else none := by
  unfold pruneLayers Store.blob
  exact aget_filter_key st.blobs (fun k => env.inUse st ⟨.colon, k⟩) k

theorem pruneLayers_step (env : Env) {st : Store} (hc : Guard env st) : BlobStep env st (pruneLayers env st) := by
  refine ⟨rfl, fun k => ?_⟩
  rw [pruneLayers_blob]
  cases hr : env.inUse st ⟨.colon, k⟩ with
  | true => exact Or.inl rfl
  | false =>
    refine Or.inr ⟨Or.inl ?_, by simp⟩
    cases hk : st.keyReferenced k with
    | false => rfl
    | true =>
      have := inUse_of_key hc (d := ⟨.colon, k⟩) (Or.inr rfl) hk
      rw [hr] at this; cases this

theorem pruneStartup_good {env : Env} {st : Store} (hb : BlobsOk env st) (hc : Guard env st) :
    Good env st (pruneStartup env st).1 [] := by
  unfold pruneStartup
  split
  · exact Good.refl hb hc _
  · exact Good.ofBlobStep (pruneLayers_step env hc) hb hc _

/-- a create that does not end in the success event only added (correctly named) blobs -/
theorem createAt_good {env : Env} (hinj : HashInj env) {st : Store} (hb : BlobsOk env st) (hc : Guard env st)
    (r : CreateReq) (hf : ∀ d ∈ r.files, GD env d) (name : Name) (frev : Bool) :
    Good env st (createAt env st r name frev).1 [name] ∧
    ("s" ∉ (createAt env st r name frev).2 → BlobStep env st (createAt env st r name frev).1) := by
  unfold createAt
  simp only
  cases hbl : baseLayers env st r frev with
  | mk ob ev =>
    cases ob with
    | none => exact ⟨Good.refl hb hc _, fun _ => BlobStep.refl env st⟩
    | some base =>
      simp only
      have w := baseLayers_WL hc hb r hf frev base (by rw [hbl])
      obtain ⟨st0, s0, h⟩ := createModel_spec hinj name base r hb w
      have g0 : Good env st st0 [name] := Good.ofBlobStep s0 hb hc _
      rcases h with ⟨e1, e2⟩ | ⟨m, e, hcm, hcomp⟩
      · cases hcm : createModel env st name base r with
        | mk st1 o =>
          rw [hcm] at e1 e2
          simp only at e1 e2
          cases o with
          | none => cases e2
          | some err => simp only; rw [e1]; exact ⟨g0, fun _ => s0⟩
      · rw [e]
        simp only
        have g1 : Good env st0 (setManifest st0 name (.readable m)) [name] :=
          Good.setManifest g0.blobsOk g0.canon name _ (fun m' e' => by injection e' with e''; subst e''; exact ⟨hcm, hcomp⟩)
        have g01 := g0.trans g1
        cases hold : st.readableAt name with
        | none => exact ⟨g01, fun h => absurd (by simp) h⟩
        | some mo =>
          simp only
          have hmo : ∀ l ∈ mo.all, GD env l.digest := fun l hl => hc.gd (readableAt_eq_some.mp hold) hl
          exact ⟨g01.trans (Good.ofBlobStep (removeLayers_step env mo.all g01.canon hmo) g01.blobsOk g01.canon _),
            fun h => absurd (by simp) h⟩

/-- the manifest names an operation may write, after `getExistingName` -/
def targets (env : Env) (st : Store) (op : Op) (ch : Choice) : List Name :=
  match op with
  | .create r => [resolveName env st ch.ord1 r.name]
  | .copy _ d => [resolveName env st ch.ord2 d]
  | .delete n => [resolveName env st ch.ord1 n]
  | .plant _ d => [d]
  | .corrupt n => [n]
  | .dashify n => [n]
  | _ => []

/-! ## manifests are only ever changed at the target name (no guard needed) -/

theorem layerRemove_mans (env : Env) (st : Store) (d : Digest) : (layerRemove env st d).mans = st.mans := by
  unfold layerRemove; split <;> rfl

theorem removeLayers_mans (env : Env) (ls : List Layer) (st : Store) : (removeLayers env st ls).mans = st.mans := by
  induction ls generalizing st with
  | nil => rfl
  | cons l t ih =>
    unfold removeLayers
    simp only [List.foldl]
    exact (ih (layerRemove env st l.digest)).trans (layerRemove_mans env st l.digest)

theorem replaceLayer_mans (env : Env) (st : Store) (ls : List Layer) (media : Media) (c : Bytes) :
    (replaceLayer env st ls media c).1.mans = st.mans := by
  unfold replaceLayer newLayer
  simp only
  rw [putBlob_mans, removeLayers_mans]

theorem stepTemplate_mans (env : Env) (st : Store) (ls : List Layer) (t : Option (Bytes × Bool)) :
    (stepTemplate env st ls t).1.mans = st.mans := by
  cases t with
  | none => rfl
  | some tb =>
    obtain ⟨t, ok⟩ := tb
    cases ok with
    | false => simp only [stepTemplate, Bool.false_eq_true, if_false]; exact removeLayers_mans _ _ _
    | true => simp only [stepTemplate, if_true]; exact replaceLayer_mans _ _ _ _ _

theorem stepSystem_mans (env : Env) (st : Store) (ls : List Layer) (s : Option Bytes) :
    (stepSystem env st ls s).1.mans = st.mans := by
  cases s with
  | none => rfl
  | some s => exact replaceLayer_mans _ _ _ _ _

theorem stepParams_mans (env : Env) (st : Store) (ls : List Layer) (p : List (String × String)) :
    (stepParams env st ls p).1.mans = st.mans := by
  unfold stepParams
  split
  · rfl
  · rfl
  · exact replaceLayer_mans _ _ _ _ _

theorem createModel_mans (env : Env) (st : Store) (name : Name) (base : List (Layer × Option Meta))
    (r : CreateReq) :
    (createModel env st name base r).1.mans = st.mans ∨
    ∃ m, (createModel env st name base r).1.mans = aset st.mans name (.readable m) := by
  unfold createModel
  simp only
  have e1 := stepTemplate_mans env st (base.map (·.1)) r.template
  cases h1 : stepTemplate env st (base.map (·.1)) r.template with
  | mk st1 o1 =>
    rw [h1] at e1; simp only at e1
    cases o1 with
    | none => exact Or.inl e1
    | some l1 =>
      simp only
      have e2 := stepSystem_mans env st1 l1 r.system
      cases h2 : stepSystem env st1 l1 r.system with
      | mk st2 l2 =>
        rw [h2] at e2; simp only at e2
        have e3 := stepParams_mans env st2 l2 r.params
        cases h3 : stepParams env st2 l2 r.params with
        | mk st3 o3 =>
          rw [h3] at e3; simp only at e3
          cases o3 with
          | none => exact Or.inl (e3.trans (e2.trans e1))
          | some l3 =>
            simp only
            refine Or.inr ⟨⟨(newLayer env st3 (configJSON (base.filterMap (·.2)) (l3.map (·.digest))) .config).2, l3⟩, ?_⟩
            simp only [setManifest, newLayer, putBlob_mans]
            rw [e3, e2, e1]

theorem createAt_mans (env : Env) (st : Store) (r : CreateReq) (name : Name) (frev : Bool) :
    (createAt env st r name frev).1.mans = st.mans ∨
    ∃ m, (createAt env st r name frev).1.mans = aset st.mans name (.readable m) := by
  unfold createAt
  simp only
  cases hbl : baseLayers env st r frev with
  | mk ob ev =>
    cases ob with
    | none => exact Or.inl rfl
    | some base =>
      simp only
      have h := createModel_mans env st name base r
      cases hcm : createModel env st name base r with
      | mk st1 o =>
        rw [hcm] at h; simp only at h
        cases o with
        | some err => exact h
        | none =>
          simp only
          cases st.readableAt name with
          | none => exact h
          | some mo =>
            simp only
            rw [removeLayers_mans]
            exact h

/-- the manifest of any name other than the (resolved) target is the same file after the operation -/
theorem step_man_frame (env : Env) (st : Store) (op : Op) (ch : Choice) (n : Name)
    (hn : n ∉ targets env st op ch) : (step env st op ch).1.man n = st.man n := by
  cases op with
  | upload d c =>
    simp only [step, upload]
    split
    · rfl
    · split <;> exact man_congr (putBlob_mans env st c) n
  | create r =>
    simp only [step]
    simp only [targets, List.mem_singleton] at hn
    rcases createAt_mans env st r (resolveName env st ch.ord1 r.name) ch.frev with h | ⟨m, h⟩
    · exact man_congr h n
    · unfold Store.man; rw [h, aget_aset]; simp [hn]
  | copy s d =>
    simp only [step, copyAt]
    simp only [targets, List.mem_singleton] at hn
    split
    · rfl
    · split
      · rfl
      · rw [setManifest_man]; simp [hn]
  | delete t =>
    simp only [step, deleteAt]
    simp only [targets, List.mem_singleton] at hn
    split
    · rfl
    · rfl
    · rw [man_congr (removeLayers_mans _ _ _), delManifest_man]; simp [hn]
  | prune =>
    simp only [step, pruneStartup]
    split <;> rfl
  | plant s d =>
    simp only [step]
    simp only [targets, List.mem_singleton] at hn
    split
    · rw [setManifest_man]; simp [hn]
    · rfl
  | corrupt t =>
    simp only [step]
    simp only [targets, List.mem_singleton] at hn
    split
    · rw [setManifest_man]; simp [hn]
    · rfl
  | dashify t =>
    simp only [step]
    simp only [targets, List.mem_singleton] at hn
    split
    · rw [setManifest_man]; simp [hn]
    · rfl

/-! ## getExistingName and letter case -/

theorem foldEq_iff (a b : String) : foldEq a b = true ↔ lower a = lower b := by
  unfold foldEq; exact beq_iff_eq

/-- one part of the fold of `getExistingName` -/
def resolvePart (f : Name → String) (ord : List Name) (x : String) : String :=
  ord.foldl (fun cur e => if foldEq (f e) cur then f e else cur) x

theorem getExistingName_parts (ord : List Name) (n : Name) :
    (getExistingName ord n).host = resolvePart (·.host) ord n.host ∧
    (getExistingName ord n).ns = resolvePart (·.ns) ord n.ns ∧
    (getExistingName ord n).model = resolvePart (·.model) ord n.model ∧
    (getExistingName ord n).tag = resolvePart (·.tag) ord n.tag := by
  induction ord generalizing n with
  | nil => exact ⟨rfl, rfl, rfl, rfl⟩
  | cons e t ih =>
    have := ih (resolve1 n e)
    simp only [getExistingName, resolvePart, List.foldl] at this ⊢
    exact this

theorem resolvePart_spec (f : Name → String) (ord : List Name) (x : String) :
    lower (resolvePart f ord x) = lower x ∧
    ((∃ e ∈ ord, resolvePart f ord x = f e) ∨
     (resolvePart f ord x = x ∧ ∀ e ∈ ord, lower (f e) ≠ lower x)) := by
  induction ord generalizing x with
  | nil => exact ⟨rfl, Or.inr ⟨rfl, by simp⟩⟩
  | cons e t ih =>
    simp only [resolvePart, List.foldl]
    by_cases h : foldEq (f e) x = true
    · simp only [h, if_true]
      have hl := (foldEq_iff _ _).mp h
      obtain ⟨h1, h2⟩ := ih (f e)
      simp only [resolvePart] at h1 h2
      refine ⟨h1.trans hl, Or.inl ?_⟩
      rcases h2 with ⟨e', he', h2⟩ | ⟨h2, _⟩
      · exact ⟨e', by simp [he'], h2⟩
      · exact ⟨e, by simp, h2⟩
    · simp only [h]
      have hl : lower (f e) ≠ lower x := fun he => h ((foldEq_iff _ _).mpr he)
      obtain ⟨h1, h2⟩ := ih x
      simp only [resolvePart] at h1 h2
      refine ⟨h1, ?_⟩
      rcases h2 with ⟨e', he', h2⟩ | ⟨h2, h3⟩
      · exact Or.inl ⟨e', by simp [he'], h2⟩
      · refine Or.inr ⟨h2, ?_⟩
        intro e' he'
        simp only [List.mem_cons] at he'
        rcases he' with rfl | he'
        · exact hl
        · exact h3 e' he'

/-- a set of names spells part `f` consistently -/
def PartOk (f : Name → String) (S : Name → Prop) : Prop :=
  ∀ a b, S a → S b → lower (f a) = lower (f b) → f a = f b

/-- under consistent spelling the resolved part is THE existing spelling (whatever the order) -/
theorem resolvePart_canonical (f : Name → String) (S : Name → Prop) (hS : PartOk f S) (ord : List Name)
    (hord : ∀ e, e ∈ ord ↔ S e) (x : String) (e : Name) (he : S e)
    (hl : lower (f e) = lower (resolvePart f ord x)) : f e = resolvePart f ord x := by
  obtain ⟨h1, h2⟩ := resolvePart_spec f ord x
  rcases h2 with ⟨e', he', h2⟩ | ⟨_, h3⟩
  · rw [h2] at hl ⊢
    exact hS e e' he ((hord e').mp he') hl
  · exact absurd (hl.trans h1) (h3 e ((hord e).mpr he))

def MixOk (S : Name → Prop) : Prop :=
  PartOk (·.host) S ∧ PartOk (·.ns) S ∧ PartOk (·.model) S ∧ PartOk (·.tag) S

/-- adding a name produced by `getExistingName` keeps the spelling consistent -/
theorem MixOk.insert_resolved {S : Name → Prop} (h : MixOk S) (ord : List Name) (hord : ∀ e, e ∈ ord ↔ S e)
    (n : Name) : MixOk (fun a => S a ∨ a = getExistingName ord n) := by
  obtain ⟨p1, p2, p3, p4⟩ := getExistingName_parts ord n
  have key : ∀ (f : Name → String), PartOk f S → f (getExistingName ord n) = resolvePart f ord (f n) →
      PartOk f (fun a => S a ∨ a = getExistingName ord n) := by
    intro f hf hp a b ha hb hl
    rcases ha with ha | rfl <;> rcases hb with hb | rfl
    · exact hf a b ha hb hl
    · rw [hp] at hl ⊢
      exact resolvePart_canonical f S hf ord hord _ a ha hl
    · rw [hp] at hl ⊢
      exact (resolvePart_canonical f S hf ord hord _ b hb hl.symm).symm
    · rfl
  exact ⟨key _ h.1 p1, key _ h.2.1 p2, key _ h.2.2.1 p3, key _ h.2.2.2 p4⟩

theorem MixOk.mono {S S' : Name → Prop} (h : MixOk S) (hs : ∀ a, S' a → S a) : MixOk S' :=
  ⟨fun a b ha hb => h.1 a b (hs a ha) (hs b hb), fun a b ha hb => h.2.1 a b (hs a ha) (hs b hb),
   fun a b ha hb => h.2.2.1 a b (hs a ha) (hs b hb), fun a b ha hb => h.2.2.2 a b (hs a ha) (hs b hb)⟩

/-- the names `Manifests(true)` returns -/
def Readable (st : Store) (a : Name) : Prop := ∃ m, st.man a = some (.readable m)

theorem mem_readableNames {st : Store} {a : Name} : a ∈ st.readableNames ↔ Readable st a := by
  unfold Store.readableNames Readable
  simp only [List.mem_filter]
  constructor
  · rintro ⟨_, h⟩
    cases hr : st.readableAt a with
    | none => rw [hr] at h; cases h
    | some m => exact ⟨m, readableAt_eq_some.mp hr⟩
  · rintro ⟨m, hm⟩
    exact ⟨mem_names_iff.mpr (by rw [hm]; rfl), by rw [readableAt_eq_some.mpr hm]; rfl⟩

/-- no two readable manifests spell a fold-equal part differently -/
def NoMixed (st : Store) : Prop := MixOk (Readable st)

/-- no two readable (hence no two listed) models differ only by letter case -/
def NoTwins (st : Store) : Prop := ∀ a b, Readable st a → Readable st b → a.equalFold b = true → a = b

theorem NoMixed.noTwins {st : Store} (h : NoMixed st) : NoTwins st := by
  intro a b ha hb he
  simp only [Name.equalFold, Bool.and_eq_true, foldEq_iff] at he
  obtain ⟨⟨⟨e1, e2⟩, e3⟩, e4⟩ := he
  have h1 := h.1 a b ha hb e1
  have h2 := h.2.1 a b ha hb e2
  have h3 := h.2.2.1 a b ha hb e3
  have h4 := h.2.2.2 a b ha hb e4
  cases a; cases b; simp_all

/-- API operations (everything except the injected legacy manifest) -/
def ApiOp : Op → Prop
  | .plant _ _ => False
  | _ => True

/-- the iteration orders are orders of the map `Manifests(true)` returned -/
def Covers (st : Store) (ch : Choice) : Prop :=
  (∀ e, e ∈ ch.ord1 ↔ Readable st e) ∧ (∀ e, e ∈ ch.ord2 ↔ Readable st e)

/-! ## the repaired getExistingName (F16b) -/

theorem equalFold_iff (a b : Name) : a.equalFold b = true ↔
    lower a.host = lower b.host ∧ lower a.ns = lower b.ns ∧ lower a.model = lower b.model ∧
    lower a.tag = lower b.tag := by
  simp only [Name.equalFold, Bool.and_eq_true, foldEq_iff]
  constructor
  · rintro ⟨⟨⟨h1, h2⟩, h3⟩, h4⟩; exact ⟨h1, h2, h3, h4⟩
  · rintro ⟨h1, h2, h3, h4⟩; exact ⟨⟨⟨h1, h2⟩, h3⟩, h4⟩

theorem equalFold_symm {a b : Name} (h : a.equalFold b = true) : b.equalFold a = true := by
  rw [equalFold_iff] at h ⊢
  exact ⟨h.1.symm, h.2.1.symm, h.2.2.1.symm, h.2.2.2.symm⟩

theorem equalFold_trans {a b c : Name} (h1 : a.equalFold b = true) (h2 : b.equalFold c = true) :
    a.equalFold c = true := by
  rw [equalFold_iff] at h1 h2 ⊢
  exact ⟨h1.1.trans h2.1, h1.2.1.trans h2.2.1, h1.2.2.1.trans h2.2.2.1, h1.2.2.2.trans h2.2.2.2⟩

theorem mem_insertName (x y : Name) (l : List Name) : x ∈ insertName y l ↔ x = y ∨ x ∈ l := by
  induction l with
  | nil => simp [insertName]
  | cons z t ih =>
    simp only [insertName]
    split
    · simp
    · simp only [List.mem_cons, ih]
      constructor
      · rintro (h | h | h)
        · exact Or.inr (Or.inl h)
        · exact Or.inl h
        · exact Or.inr (Or.inr h)
      · rintro (h | h | h)
        · exact Or.inr (Or.inl h)
        · exact Or.inl h
        · exact Or.inr (Or.inr h)

theorem mem_sortNames (x : Name) (l : List Name) : x ∈ sortNames l ↔ x ∈ l := by
  induction l with
  | nil => simp [sortNames]
  | cons y t ih =>
    simp only [sortNames, List.foldr_cons, List.mem_cons] at ih ⊢
    rw [mem_insertName, ih]

theorem firstPart_lower (f : Name → String) (es : List Name) (x : String) :
    lower (firstPart f es x) = lower x := by
  unfold firstPart
  split
  · rename_i e he
    have := List.find?_some he
    exact (foldEq_iff _ _).mp this
  · rfl

/-- the repaired `getExistingName` returns an existing name, or a name no existing one is fold-equal to -/
theorem getExistingNameFixed_spec (es : List Name) (n : Name) :
    getExistingNameFixed es n ∈ es ∨
    ((∀ e ∈ es, e.equalFold n = false) ∧ (getExistingNameFixed es n).equalFold n = true) := by
  unfold getExistingNameFixed
  split
  · rename_i h
    exact Or.inl (by simpa using h)
  · simp only
    split
    · rename_i e he
      exact Or.inl ((mem_sortNames e es).mp (List.mem_of_find?_eq_some he))
    · rename_i hnone
      refine Or.inr ⟨?_, ?_⟩
      · intro e he
        have := List.find?_eq_none.mp hnone e ((mem_sortNames e es).mpr he)
        simpa using this
      · rw [equalFold_iff]
        exact ⟨firstPart_lower _ _ _, firstPart_lower _ _ _, firstPart_lower _ _ _, firstPart_lower _ _ _⟩

/-! ## events of a create request with N1 repaired -/

theorem fileLayers_err {env : Env} {st : Store} (ds : List Digest) (e : String)
    (h : fileLayers env st ds = .error e) : e ≠ "s" := by
  induction ds with
  | nil => simp [fileLayers] at h
  | cons d t ih =>
    simp only [fileLayers] at h
    split at h
    · injection h with h; subst h; decide
    · split at h
      · injection h with h; subst h; decide
      · split at h
        · rename_i e' he'
          injection h with h; subst h
          exact ih he'
        · cases h

/-- with N1 repaired, base layers come without any error event; without base layers there is no success -/
theorem baseLayers_events {env : Env} (hv : env.v.fixReturn = true) (st : Store) (r : CreateReq) (frev : Bool) :
    ((baseLayers env st r frev).1.isSome = true → (baseLayers env st r frev).2 = []) ∧
    ((baseLayers env st r frev).1 = none → "s" ∉ (baseLayers env st r frev).2) := by
  unfold baseLayers
  simp only [hv, if_true]
  cases r.src with
  | some f =>
    simp only
    cases st.readableAt f with
    | none => simp
    | some m =>
      simp only
      cases fromLayers env st m.layers with
      | none => simp
      | some b => simp
  | none =>
    simp only
    split
    · simp
    · cases hfl : fileLayers env st (if frev = true then r.files.reverse else r.files) with
      | error e =>
        simp only
        refine ⟨by simp, fun _ => ?_⟩
        simp only [List.mem_singleton]
        exact fun h => fileLayers_err _ e hfl h.symm
      | ok b => simp

theorem createModel_err {env : Env} {st : Store} {name : Name} {base : List (Layer × Option Meta)}
    {r : CreateReq} {e : String} (h : (createModel env st name base r).2 = some e) : e ≠ "s" := by
  unfold createModel at h
  simp only at h
  split at h
  · injection h with h; subst h; decide
  · split at h
    · injection h with h; subst h; decide
    · cases h

/-- **N1 repaired**: a create either reports exactly the success event, or no success event at all -/
theorem createAt_events_fixed {env : Env} (hv : env.v.fixReturn = true) (st : Store) (r : CreateReq)
    (name : Name) (frev : Bool) :
    (createAt env st r name frev).2 = ["s"] ∨ "s" ∉ (createAt env st r name frev).2 := by
  obtain ⟨h1, h2⟩ := baseLayers_events hv st r frev
  unfold createAt
  simp only
  cases hbl : baseLayers env st r frev with
  | mk ob ev =>
    rw [hbl] at h1 h2
    simp only at h1 h2
    cases ob with
    | none => exact Or.inr (h2 rfl)
    | some base =>
      simp only
      have hev : ev = [] := h1 rfl
      subst hev
      cases hcm : createModel env st name base r with
      | mk st1 o =>
        cases o with
        | some err =>
          simp only
          refine Or.inr ?_
          simp only [List.nil_append, List.mem_singleton]
          exact fun h => createModel_err (by rw [hcm]) h.symm
        | none =>
          simp only
          cases st.readableAt name <;> exact Or.inl rfl

end OllamaVerif.Store
