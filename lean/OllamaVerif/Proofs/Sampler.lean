/-
  C18 — helper lemmas about the sampler model (core Lean only).
-/
import OllamaVerif.Model.Sampler
namespace OllamaVerif.Sampler
variable {α : Type}

/-- the comparison is a strict weak order (IEEE `<` on non-NaN values) -/
structure OrdLaws (o : Ops α) : Prop where
  irrefl : ∀ a, o.lt a a = false
  trans : ∀ a b c, o.lt a b = true → o.lt b c = true → o.lt a c = true
  cotrans : ∀ a b c, o.lt a c = true → o.lt a b = true ∨ o.lt b c = true

theorem OrdLaws.asymm {o : Ops α} (h : OrdLaws o) {a b : α} (hab : o.lt a b = true) : o.lt b a = false := by
  cases hba : o.lt b a with
  | false => rfl
  | true => have := h.trans a b a hab hba; rw [h.irrefl] at this; cases this

theorem OrdLaws.nlt_trans {o : Ops α} (h : OrdLaws o) {a b c : α} (hab : o.lt a b = false)
    (hbc : o.lt b c = false) : o.lt a c = false := by
  cases hac : o.lt a c with
  | false => rfl
  | true =>
    rcases h.cotrans a b c hac with h1 | h1
    · rw [hab] at h1; cases h1
    · rw [hbc] at h1; cases h1

theorem foldl_max {o : Ops α} (h : OrdLaws o) (ts : List (Tok α)) (m0 : Tok α) :
    let m := ts.foldl (fun m x => if o.lt m.val x.val then x else m) m0
    (m = m0 ∨ m ∈ ts) ∧ o.lt m.val m0.val = false ∧ ∀ x ∈ ts, o.lt m.val x.val = false := by
  induction ts generalizing m0 with
  | nil => simp [h.irrefl]
  | cons x xs ih =>
    simp only [List.foldl_cons]
    cases hx : o.lt m0.val x.val with
    | true =>
      simp only [if_true]
      obtain ⟨h1, h2, h3⟩ := ih x
      refine ⟨?_, ?_, ?_⟩
      · rcases h1 with h1 | h1
        · right; rw [h1]; exact List.mem_cons_self
        · right; exact List.mem_cons_of_mem _ h1
      · exact h.nlt_trans h2 (h.asymm hx)
      · intro y hy
        rcases List.mem_cons.1 hy with rfl | hy
        · exact h2
        · exact h3 y hy
    | false =>
      simp only [Bool.false_eq_true, if_false]
      obtain ⟨h1, h2, h3⟩ := ih m0
      refine ⟨?_, h2, ?_⟩
      · rcases h1 with h1 | h1
        · left; exact h1
        · right; exact List.mem_cons_of_mem _ h1
      · intro y hy
        rcases List.mem_cons.1 hy with rfl | hy
        · exact h.nlt_trans h2 hx
        · exact h3 y hy

/-- greedy returns an element of the list that no element exceeds -/
theorem greedy_spec {o : Ops α} (h : OrdLaws o) (ts : List (Tok α)) (m : Tok α)
    (hg : greedy o ts = .ok m) : m ∈ ts ∧ ∀ x ∈ ts, o.lt m.val x.val = false := by
  cases ts with
  | nil => cases hg
  | cons t rest =>
    simp only [greedy] at hg
    injection hg with hg
    obtain ⟨h1, h2, h3⟩ := foldl_max h rest t
    rw [hg] at h1 h2 h3
    refine ⟨?_, ?_⟩
    · rcases h1 with h1 | h1
      · rw [h1]; exact List.mem_cons_self
      · exact List.mem_cons_of_mem _ h1
    · intro x hx
      rcases List.mem_cons.1 hx with rfl | hx
      · exact h2
      · exact h3 x hx

theorem bsearch_spec (below : Nat → Bool) (n : Nat) : ∀ fuel i j, i ≤ j → j ≤ n → j - i < fuel →
    (i = 0 ∨ below (i - 1) = true) → (j = n ∨ below j = false) →
    bsearch below fuel i j ≤ n ∧
    (bsearch below fuel i j = 0 ∨ below (bsearch below fuel i j - 1) = true) ∧
    (bsearch below fuel i j = n ∨ below (bsearch below fuel i j) = false) := by
  intro fuel
  induction fuel with
  | zero => intro i j _ _ h; omega
  | succ fuel ih =>
    intro i j hij hjn hf hi hj
    unfold bsearch
    by_cases hlt : i < j
    · simp only [hlt, if_true]
      cases hb : below ((i + j) / 2) with
      | true =>
        simp only [if_true]
        apply ih
        · omega
        · exact hjn
        · omega
        · right; simpa using hb
        · exact hj
      | false =>
        simp only [Bool.false_eq_true, if_false]
        apply ih
        · omega
        · omega
        · omega
        · exact hi
        · right; exact hb
    · simp only [hlt, if_false]
      have : i = j := by omega
      subst this
      exact ⟨hjn, hi, hj⟩

/-! ### cumulative sums -/

theorem cumsum_length (o : Ops α) (L : List (Tok α)) (s : α) : (cumsum o s L).length = L.length := by
  induction L generalizing s with
  | nil => rfl
  | cons x rest ih => simp [cumsum, ih]

/-- entry `i` of the cumulative list carries the id of entry `i` of the input and the previous
    cumulative value plus that entry's value -/
theorem cumsum_get (o : Ops α) : ∀ (L : List (Tok α)) (s : α) (i : Nat) (t : Tok α),
    (cumsum o s L)[i]? = some t →
    ∃ x, L[i]? = some x ∧ t.id = x.id ∧
      ((i = 0 ∧ t.val = o.add s x.val) ∨
       (∃ q, 1 ≤ i ∧ (cumsum o s L)[i - 1]? = some q ∧ t.val = o.add q.val x.val)) := by
  intro L
  induction L with
  | nil => intro s i t h; simp [cumsum] at h
  | cons x rest ih =>
    intro s i t h
    cases i with
    | zero =>
      simp only [cumsum, List.getElem?_cons_zero, Option.some.injEq] at h
      refine ⟨x, by simp, ?_, Or.inl ⟨rfl, ?_⟩⟩ <;> rw [← h]
    | succ i =>
      simp only [cumsum, List.getElem?_cons_succ] at h
      obtain ⟨y, hy, hid, hv⟩ := ih _ i t h
      refine ⟨y, by simpa using hy, hid, Or.inr ?_⟩
      rcases hv with ⟨hi0, hv⟩ | ⟨q, hi1, hq, hv⟩
      · subst hi0
        exact ⟨⟨x.id, o.add s x.val⟩, by omega, by simp [cumsum], hv⟩
      · refine ⟨q, by omega, ?_, hv⟩
        simp only [cumsum, Nat.add_sub_cancel]
        obtain ⟨j, rfl⟩ : ∃ j, i = j + 1 := ⟨i - 1, by omega⟩
        simpa using hq

/-! ### the weighted pick -/

/-- arithmetic law used by the pick: adding a zero does not strictly increase a sum -/
def AddZeroLaw (o : Ops α) : Prop :=
  ∀ s z, o.beq z o.zero = true → o.lt s (o.add s z) = false

/-- **the weighted pick.**  If `pick` returns a token then it sits at some position `idx` of the
    filtered list, carries that entry's id, and either it is the first entry or its own
    probability is not zero (a zero-probability entry is never the first index whose cumulative
    sum reaches the target: its cumulative value equals its predecessor's, which was below). -/
theorem pick_spec {o : Ops α} (h : OrdLaws o) (hz : AddZeroLaw o) (r : α) (L : List (Tok α))
    (t : Tok α) (hp : pick o r L = .ok t) :
    ∃ idx x, L[idx]? = some x ∧ x.id = t.id ∧ (idx = 0 ∨ o.beq x.val o.zero = false) := by
  unfold pick at hp
  simp only at hp
  split at hp
  · cases hp
  · rename_i last hlast
    split at hp
    · cases hp
    · split at hp
      · rename_i t' hidx
        injection hp with hp
        subst hp
        generalize hC : cumsum o o.zero L = C at *
        generalize hr : o.mul r last.val = r' at *
        have hspec := bsearch_spec (belowAt o C r') C.length (C.length + 1) 0 C.length
          (Nat.zero_le _) (Nat.le_refl _) (by omega) (Or.inl rfl) (Or.inl rfl)
        generalize hi : bsearch (belowAt o C r') (C.length + 1) 0 C.length = idx at *
        obtain ⟨_, hlo, hhi⟩ := hspec
        obtain ⟨x, hx, hid, hv⟩ := cumsum_get o L o.zero idx t' (by rw [hC]; exact hidx)
        refine ⟨idx, x, hx, hid.symm, ?_⟩
        rcases hv with ⟨h0, _⟩ | ⟨q, h1, hq, hv⟩
        · exact Or.inl h0
        · right
          rw [hC] at hq
          have hbelow : o.lt q.val r' = true := by
            rcases hlo with h0 | hb
            · omega
            · simpa [belowAt, hq] using hb
          have hnb : o.lt t'.val r' = false := by
            rcases hhi with hn | hb
            · have := (List.getElem?_eq_some_iff.1 hidx).1; omega
            · simpa [belowAt, hidx] using hb
          have hlt : o.lt q.val t'.val = true := by
            rcases h.cotrans _ t'.val _ hbelow with h1 | h1
            · exact h1
            · rw [hnb] at h1; cases h1
          cases hb : o.beq x.val o.zero with
          | false => rfl
          | true =>
            have := hz q.val x.val hb
            rw [← hv, hlt] at this; cases this
      · cases hp

/-! ### filters keep a non-empty prefix -/

theorem topP_prefix (o : Ops α) (p : α) (L : List (Tok α)) : topP o p L <+: L := by
  unfold topP
  split
  · exact List.prefix_refl _
  · exact List.take_prefix _ _

theorem topPCut_pos (o : Ops α) (p s : α) (x : Tok α) (rest : List (Tok α)) :
    1 ≤ topPCut o p s (x :: rest) := by
  simp only [topPCut]
  split <;> omega

theorem topP_ne_nil (o : Ops α) (p : α) (L : List (Tok α)) (hL : L ≠ []) : topP o p L ≠ [] := by
  unfold topP
  split
  · exact hL
  · cases L with
    | nil => exact absurd rfl hL
    | cons x rest =>
      have := topPCut_pos o p o.zero x rest
      obtain ⟨n, hn⟩ : ∃ n, topPCut o p o.zero (x :: rest) = n + 1 := ⟨topPCut o p o.zero (x :: rest) - 1, by omega⟩
      rw [hn]; simp

theorem minP_prefix (o : Ops α) (p : α) (L f : List (Tok α)) (hm : minP o p L = .ok f) : f <+: L := by
  cases L with
  | nil => cases hm
  | cons t0 rest =>
    simp only [minP] at hm
    injection hm with hm
    rw [← hm]; exact List.takeWhile_prefix _

/-- `minP` never panics on a non-empty list, and keeps the head as soon as `max*p ≤ max` -/
theorem minP_ne_nil (o : Ops α) (p : α) (t0 : Tok α) (rest : List (Tok α))
    (hmul : o.lt t0.val (o.mul t0.val p) = false) :
    ∃ f, minP o p (t0 :: rest) = .ok (t0 :: f) := by
  refine ⟨rest.takeWhile (fun t => !o.lt t.val (o.mul t0.val p)), ?_⟩
  simp [minP, hmul]

theorem prefix_get {β : Type} {f L : List β} (hp : f <+: L) {i : Nat} {x : β} (hx : f[i]? = some x) :
    L[i]? = some x := by
  obtain ⟨s, rfl⟩ := hp
  have hi : i < f.length := (List.getElem?_eq_some_iff.1 hx).1
  rw [List.getElem?_append_left hi]; exact hx

/-! ### positions through `setVals` -/

theorem setVals_get (L : List (Tok α)) (vs : List α) (i : Nat) (x : Tok α)
    (hx : (setVals L vs)[i]? = some x) :
    ∃ y v, L[i]? = some y ∧ vs[i]? = some v ∧ x = ⟨y.id, v⟩ := by
  unfold setVals at hx
  rw [List.getElem?_zipWith] at hx
  cases hy : L[i]? with
  | none => simp [hy] at hx
  | some y =>
    cases hv : vs[i]? with
    | none => simp [hy, hv] at hx
    | some v =>
      simp only [hy, hv] at hx
      exact ⟨y, v, rfl, rfl, by simpa using hx.symm⟩

theorem setVals_map_val (L : List (Tok α)) (vs : List α) (hl : vs.length = L.length) :
    (setVals L vs).map (·.val) = vs := by
  induction L generalizing vs with
  | nil => cases vs with
    | nil => rfl
    | cons _ _ => simp at hl
  | cons x rest ih =>
    cases vs with
    | nil => simp at hl
    | cons v vs =>
      simp only [setVals, List.zipWith_cons_cons, List.map_cons]
      congr 1
      exact ih vs (by simpa using hl)

theorem zip_all_get {β γ : Type} (f : β → γ → Bool) : ∀ (as : List β) (bs : List γ) (i : Nat) (a : β) (b : γ),
    (List.zipWith f as bs).all id = true → as[i]? = some a → bs[i]? = some b → f a b = true := by
  intro as
  induction as with
  | nil => intro bs i a b _ ha; simp at ha
  | cons a0 as ih =>
    intro bs i a b hall ha hb
    cases bs with
    | nil => simp at hb
    | cons b0 bs =>
      simp only [List.zipWith_cons_cons, List.all_cons, Bool.and_eq_true, id] at hall
      cases i with
      | zero =>
        simp only [List.getElem?_cons_zero, Option.some.injEq] at ha hb
        subst ha; subst hb; exact hall.1
      | succ i =>
        simp only [List.getElem?_cons_succ] at ha hb
        exact ih bs i a b hall.2 ha hb

theorem scaleVals_length (o : Ops α) (t : α) (vs : List α) : (scaleVals o t vs).length = vs.length := by
  simp [scaleVals]

/-! ### the pipeline after topK -/

/-- `==` implies "not less" (IEEE: equal values are not ordered) -/
def BeqLaw (o : Ops α) : Prop := ∀ a b, o.beq a b = true → o.lt b a = false

/-- the values after `temperature` -/
def scaledOf (o : Ops α) (P : Params α) (L : List (Tok α)) : List α :=
  scaleVals o P.temp (L.map (·.val))

/-- the token list after `temperature` and `softmax` -/
def probsOf (o : Ops α) (P : Params α) (L : List (Tok α)) : List (Tok α) :=
  softmax o (temperature o P.temp L)

theorem temperature_vals (o : Ops α) (P : Params α) (L : List (Tok α)) :
    (temperature o P.temp L).map (·.val) = scaledOf o P L := by
  unfold temperature scaledOf
  exact setVals_map_val _ _ (by simp [scaleVals_length])

/-- **everything after topK.**  `L` is the sorted list `topK` produced.  If the run's contracts
    hold (`guardOK`: the scaled maximum is finite — this excludes exactly finding F18 —,
    `scaleOK`, `softmaxOK`) and `sample` returns a token, then that token sits at a position `idx`
    which is inside the prefix kept by `minP ∘ topP`, carries the id of `L[idx]`, and the logit of
    `L[idx]` is not `-Inf`. -/
theorem afterTopK_spec {o : Ops α} (h : OrdLaws o) (hz : AddZeroLaw o) (hb : BeqLaw o)
    (P : Params α) (r : α) (L : List (Tok α)) (t : Tok α)
    (hres : afterTopK o false P r L = .ok t)
    (hg : guardOK o (scaledOf o P L) = true)
    (hsc : scaleOK o (L.map (·.val)) (scaledOf o P L) = true)
    (hsm : softmaxOK o (scaledOf o P L) (softmaxVals o (scaledOf o P L)) = true) :
    ∃ (idx : Nat) (y : Tok α) (f : List (Tok α)) (x : Tok α), L[idx]? = some y ∧ y.id = t.id ∧ o.beq y.val o.negInf = false ∧
      minP o P.minP (topP o P.topP (probsOf o P L)) = .ok f ∧ f <+: probsOf o P L ∧
      f[idx]? = some x ∧ x.id = t.id := by
  unfold afterTopK at hres
  simp only [Bool.false_eq_true, if_false, bind, Except.bind, pure, Except.pure] at hres
  split at hres
  · cases hres
  · rename_i f hf
    change minP o P.minP (topP o P.topP (probsOf o P L)) = .ok f at hf
    obtain ⟨idx, x, hx, hid, hnz⟩ := pick_spec h hz r f t hres
    have hpre : f <+: probsOf o P L :=
      List.IsPrefix.trans (minP_prefix o _ _ _ hf) (topP_prefix o _ _)
    have hxp : (probsOf o P L)[idx]? = some x := prefix_get hpre hx
    -- unfold the two setVals layers
    unfold probsOf softmax at hxp
    rw [temperature_vals] at hxp
    obtain ⟨s, pv, hs, hpv, hxe⟩ := setVals_get _ _ _ _ hxp
    unfold temperature at hs
    obtain ⟨y, sv, hy, hsv, hse⟩ := setVals_get _ _ _ _ hs
    change (scaledOf o P L)[idx]? = some sv at hsv
    have hxid : x.id = y.id := by rw [hxe, hse]
    have hxv : x.val = pv := by rw [hxe]
    refine ⟨idx, y, f, x, hy, by rw [← hxid]; exact hid, ?_, hf, hpre, hx, hid⟩
    -- the scaled value at idx is not -Inf
    have hsv_ne : o.beq sv o.negInf = false := by
      rcases hnz with h0 | hnz
      · subst h0
        unfold guardOK at hg
        simp only [Bool.and_eq_true] at hg
        cases hS : scaledOf o P L with
        | nil => rw [hS] at hsv; simp at hsv
        | cons v0 vs =>
          rw [hS] at hsv hg
          simp only [List.getElem?_cons_zero, Option.some.injEq] at hsv
          subst hsv
          cases hbq : o.beq v0 o.negInf with
          | false => rfl
          | true =>
            have h2 : o.lt o.negInf v0 = true := hg.2
            have := hb _ _ hbq; rw [h2] at this; cases this
      · unfold softmaxOK at hsm
        simp only [Bool.and_eq_true] at hsm
        have := zip_all_get _ _ _ idx sv pv hsm.1.2 hsv hpv
        rw [← hxv, hnz] at this
        simpa using this
    unfold scaleOK at hsc
    simp only [Bool.and_eq_true] at hsc
    have hyv : (L.map (·.val))[idx]? = some y.val := by simp [hy]
    have := zip_all_get _ _ _ idx y.val sv hsc.2 hyv hsv
    rw [hsv_ne] at this
    simpa using this
/-! ### ids only (no laws, no contracts: holds on every carrier, NaN included) -/

theorem pick_id (o : Ops α) (r : α) (L : List (Tok α)) (t : Tok α) (hp : pick o r L = .ok t) :
    ∃ (idx : Nat) (x : Tok α), L[idx]? = some x ∧ x.id = t.id := by
  unfold pick at hp
  simp only at hp
  split at hp
  · cases hp
  · split at hp
    · cases hp
    · split at hp
      · rename_i t' hidx
        injection hp with hp
        subst hp
        obtain ⟨x, hx, hid, _⟩ := cumsum_get o L o.zero _ t' hidx
        exact ⟨_, x, hx, hid.symm⟩
      · cases hp

theorem afterTopK_id (o : Ops α) (P : Params α) (r : α) (L : List (Tok α)) (t : Tok α)
    (hres : afterTopK o false P r L = .ok t) : ∃ y ∈ L, y.id = t.id := by
  unfold afterTopK at hres
  simp only [Bool.false_eq_true, if_false, bind, Except.bind, pure, Except.pure] at hres
  split at hres
  · cases hres
  · rename_i f hf
    obtain ⟨idx, x, hx, hid⟩ := pick_id o r f t hres
    have hpre : f <+: probsOf o P L :=
      List.IsPrefix.trans (minP_prefix o _ _ _ hf) (topP_prefix o _ _)
    have hxp : (probsOf o P L)[idx]? = some x := prefix_get hpre hx
    unfold probsOf softmax at hxp
    obtain ⟨s, pv, hs, _, hxe⟩ := setVals_get _ _ _ _ hxp
    unfold temperature at hs
    obtain ⟨y, sv, hy, _, hse⟩ := setVals_get _ _ _ _ hs
    refine ⟨y, List.mem_of_getElem? hy, ?_⟩
    rw [← hid, hxe, hse]

/-! ### tokens built from the logits -/

theorem mkTokensFrom_mem (i : Nat) (vs : List α) (x : Tok α) (hx : x ∈ mkTokensFrom i vs) :
    ∃ j, x.id = i + j ∧ vs[j]? = some x.val := by
  induction vs generalizing i with
  | nil => simp [mkTokensFrom] at hx
  | cons v vs ih =>
    simp only [mkTokensFrom, List.mem_cons] at hx
    rcases hx with rfl | hx
    · exact ⟨0, rfl, rfl⟩
    · obtain ⟨j, hj, hv⟩ := ih (i + 1) hx
      exact ⟨j + 1, by omega, by simpa using hv⟩

theorem mkTokens_mem (vs : List α) (x : Tok α) (hx : x ∈ mkTokens vs) : vs[x.id]? = some x.val := by
  obtain ⟨j, hj, hv⟩ := mkTokensFrom_mem 0 vs x hx
  have : x.id = j := by omega
  rw [this]; exact hv

/-! ### top-k -/

/-- what `topK` owes its callers -/
structure IsTopK (o : Ops α) (k : Int) (ts out : List (Tok α)) : Prop where
  len : out.length = if k ≥ ts.length ∨ k ≤ 0 then ts.length else k.toNat
  desc : out.Pairwise (fun a b => o.lt a.val b.val = false)
  sub : ∃ rest, (out ++ rest).Perm ts ∧ ∀ x ∈ rest, ∀ y ∈ out, o.lt y.val x.val = false

theorem IsTopK.mem {o : Ops α} {k : Int} {ts out : List (Tok α)} (h : IsTopK o k ts out) :
    ∀ x ∈ out, x ∈ ts := by
  intro x hx
  obtain ⟨rest, hp, _⟩ := h.sub
  exact hp.mem_iff.1 (List.mem_append_left _ hx)

theorem sortDesc_perm (o : Ops α) (ts : List (Tok α)) : (sortDesc o ts).Perm ts :=
  List.mergeSort_perm _ _

theorem sortDesc_pairwise {o : Ops α} (h : OrdLaws o) (ts : List (Tok α)) :
    (sortDesc o ts).Pairwise (fun a b => o.lt a.val b.val = false) := by
  have := List.pairwise_mergeSort (le := descLE o)
    (fun a b c hab hbc => by
      simp only [descLE, Bool.not_eq_true'] at *
      exact h.nlt_trans hab hbc)
    (fun a b => by
      simp only [descLE, Bool.or_eq_true, Bool.not_eq_true']
      cases hab : o.lt a.val b.val with
      | false => exact Or.inl rfl
      | true => exact Or.inr (h.asymm hab)) ts
  refine this.imp ?_
  intro a b hab
  simpa [descLE] using hab

/-- the specification-level top-k (k first of the stable descending sort) meets `IsTopK` -/
theorem topKSpec_isTopK {o : Ops α} (h : OrdLaws o) (k : Int) (ts : List (Tok α)) :
    IsTopK o k ts (topKSpec o k ts) := by
  have hperm := sortDesc_perm o ts
  have hpw := sortDesc_pairwise h ts
  unfold topKSpec
  split
  · rename_i hk
    refine ⟨by simp [hk, hperm.length_eq], hpw, [], by simpa using hperm, by simp⟩
  · rename_i hk
    have hk' : ¬ (k ≥ ts.length) ∧ ¬ (k ≤ 0) := by
      constructor <;> intro hh <;> exact hk (by simp [hh])
    refine ⟨?_, ?_, (sortDesc o ts).drop k.toNat, ?_, ?_⟩
    · simp only [hk, if_false, List.length_take, hperm.length_eq]
      omega
    · exact hpw.sublist (List.take_sublist _ _)
    · rw [List.take_append_drop]; exact hperm
    · intro x hx y hy
      have := hpw
      rw [← List.take_append_drop k.toNat (sortDesc o ts), List.pairwise_append] at this
      exact this.2.2 y hy x hx

/-- on its sorting branch the implemented `topK` is the specification -/
theorem topK_sort_branch (o : Ops α) (k : Int) (ts : List (Tok α)) (hk : k ≥ ts.length ∨ k ≤ 0) :
    topK o k ts = topKSpec o k ts := by
  simp [topK, topKSpec, hk]

/-! ### the seeded stream -/

/-- state after `n` draws -/
def advance {σ β : Type} (step : σ → β × σ) : Nat → σ → σ
  | 0, s => s
  | n + 1, s => advance step n (step s).2

/-- the k-th output does not depend on how many are drawn after it -/
theorem streamOf_append {σ β : Type} (step : σ → β × σ) (m n : Nat) (s : σ) :
    streamOf step (m + n) s = streamOf step m s ++ streamOf step n (advance step m s) := by
  induction m generalizing s with
  | zero => simp [streamOf, advance]
  | succ m ih =>
    rw [Nat.add_right_comm]
    simp only [streamOf, advance, List.cons_append]
    rw [ih]

/-! ### the repaired variant (`fix = true`): shift by the largest logit first -/

theorem afterTopK_fix (o : Ops α) (P : Params α) (r : α) (L : List (Tok α)) (t : Tok α)
    (hres : afterTopK o true P r L = .ok t) :
    ∃ L1, shiftMax o L = .ok L1 ∧ afterTopK o false P r L1 = .ok t := by
  unfold afterTopK at hres
  simp only [if_true, bind, Except.bind] at hres
  cases hs : shiftMax o L with
  | error e => rw [hs] at hres; cases hres
  | ok L1 =>
    rw [hs] at hres
    refine ⟨L1, rfl, ?_⟩
    unfold afterTopK
    simpa only [Bool.false_eq_true, if_false, bind, Except.bind, pure, Except.pure] using hres

/-- the shift keeps ids and positions -/
theorem shiftMax_get (o : Ops α) (L L1 : List (Tok α)) (hs : shiftMax o L = .ok L1)
    (i : Nat) (y1 : Tok α) (h1 : L1[i]? = some y1) :
    ∃ y, L[i]? = some y ∧ y.id = y1.id := by
  cases L with
  | nil =>
    simp only [shiftMax] at hs
    injection hs with hs; subst hs; simp at h1
  | cons t0 rest =>
    simp only [shiftMax] at hs
    split at hs
    · cases hs
    · injection hs with hs
      subst hs
      rw [List.getElem?_map] at h1
      cases hy : (t0 :: rest)[i]? with
      | none => simp [hy] at h1
      | some y =>
        simp only [hy, Option.map_some, Option.some.injEq] at h1
        exact ⟨y, rfl, by rw [← h1]⟩

theorem afterTopK_id_any (o : Ops α) (fix : Bool) (P : Params α) (r : α) (L : List (Tok α)) (t : Tok α)
    (hres : afterTopK o fix P r L = .ok t) : ∃ y ∈ L, y.id = t.id := by
  cases fix with
  | false => exact afterTopK_id o P r L t hres
  | true =>
    obtain ⟨L1, hs, h1⟩ := afterTopK_fix o P r L t hres
    obtain ⟨y1, hy1, hid⟩ := afterTopK_id o P r L1 t h1
    obtain ⟨i, hi⟩ := List.getElem?_of_mem hy1
    obtain ⟨y, hy, hyid⟩ := shiftMax_get o L L1 hs i y1 hi
    exact ⟨y, List.mem_of_getElem? hy, by rw [hyid, hid]⟩

/-- **everything after topK, repaired variant.**  Contracts are those of the run on the shifted
    list `L1`, plus the shift's own (`scaleOK` on (L, L1): still descending, `-Inf ↦ -Inf`). -/
theorem afterTopK_spec_fix {o : Ops α} (h : OrdLaws o) (hz : AddZeroLaw o) (hb : BeqLaw o)
    (P : Params α) (r : α) (L : List (Tok α)) (t : Tok α)
    (hres : afterTopK o true P r L = .ok t) :
    ∃ L1, shiftMax o L = .ok L1 ∧
    (guardOK o (scaledOf o P L1) = true →
     scaleOK o (L.map (·.val)) (L1.map (·.val)) = true →
     scaleOK o (L1.map (·.val)) (scaledOf o P L1) = true →
     softmaxOK o (scaledOf o P L1) (softmaxVals o (scaledOf o P L1)) = true →
     ∃ (idx : Nat) (y : Tok α) (f : List (Tok α)) (x : Tok α),
      L[idx]? = some y ∧ y.id = t.id ∧ o.beq y.val o.negInf = false ∧
      minP o P.minP (topP o P.topP (probsOf o P L1)) = .ok f ∧ f <+: probsOf o P L1 ∧
      f[idx]? = some x ∧ x.id = t.id) := by
  obtain ⟨L1, hs, h1⟩ := afterTopK_fix o P r L t hres
  refine ⟨L1, hs, ?_⟩
  intro hg hsh hsc hsm
  obtain ⟨idx, y1, f, x, hy1, hy1id, hy1v, hf, hpre, hx, hxid⟩ :=
    afterTopK_spec h hz hb P r L1 t h1 hg hsc hsm
  obtain ⟨y, hy, hyid⟩ := shiftMax_get o L L1 hs idx y1 hy1
  refine ⟨idx, y, f, x, hy, by rw [hyid, hy1id], ?_, hf, hpre, hx, hxid⟩
  unfold scaleOK at hsh
  simp only [Bool.and_eq_true] at hsh
  have ha : (L.map (·.val))[idx]? = some y.val := by simp [hy]
  have hb' : (L1.map (·.val))[idx]? = some y1.val := by simp [hy1]
  have := zip_all_get _ _ _ idx y.val y1.val hsh.2 ha hb'
  rw [hy1v] at this
  simpa using this

/-! ### the heap branch of topK only moves tokens around -/

theorem swapIfInBounds_perm (h : Array (Tok α)) (i j : Nat) : (h.swapIfInBounds i j).Perm h := by
  rw [Array.swapIfInBounds_def]
  split
  · split
    · exact Array.swap_perm _ _
    · exact Array.Perm.refl _
  · exact Array.Perm.refl _

theorem hdown_perm (o : Ops α) (n : Nat) : ∀ (fuel : Nat) (h : Array (Tok α)) (i : Nat),
    (hdown o n fuel h i).Perm h := by
  intro fuel
  induction fuel with
  | zero => intro h i; exact Array.Perm.refl _
  | succ fuel ih =>
    intro h i
    unfold hdown
    simp only
    split
    · exact Array.Perm.refl _
    · split <;> split <;>
        first | exact Array.Perm.refl _ | exact (ih _ _).trans (swapIfInBounds_perm _ _ _)

theorem hup_perm (o : Ops α) : ∀ (fuel : Nat) (h : Array (Tok α)) (j : Nat),
    (hup o fuel h j).Perm h := by
  intro fuel
  induction fuel with
  | zero => intro h j; exact Array.Perm.refl _
  | succ fuel ih =>
    intro h j
    unfold hup
    simp only
    split
    · exact Array.Perm.refl _
    · exact (ih _ _).trans (swapIfInBounds_perm _ _ _)

theorem hinit_perm (o : Ops α) (h : Array (Tok α)) : (hinit o h).Perm h := by
  unfold hinit
  simp only
  generalize (List.range (h.size / 2)).reverse = l
  generalize h.size = n
  have : ∀ (l : List Nat) (h0 : Array (Tok α)), (l.foldl (fun h i => hdown o n n h i) h0).Perm h0 := by
    intro l
    induction l with
    | nil => intro h0; exact Array.Perm.refl _
    | cons i l ih => intro h0; exact (ih _).trans (hdown_perm o n n h0 i)
  exact this l h

/-- `heap.Pop` returns an element of the heap and leaves a heap of the remaining size whose
    elements all come from the old one -/
theorem hpop_spec (o : Ops α) (h : Array (Tok α)) (hs : 0 < h.size) :
    (hpop o h).1 ∈ h ∧ (hpop o h).2.size = h.size - 1 ∧ ∀ y ∈ (hpop o h).2, y ∈ h := by
  unfold hpop
  simp only
  generalize hh2 : hdown o (h.size - 1) (h.size - 1) (h.swapIfInBounds 0 (h.size - 1)) 0 = h2
  have hp : h2.Perm h := by
    rw [← hh2]; exact (hdown_perm _ _ _ _ _).trans (swapIfInBounds_perm _ _ _)
  have hsz : h2.size = h.size := hp.size_eq
  have hlt : h.size - 1 < h2.size := by omega
  refine ⟨?_, by simp [hsz], ?_⟩
  · have : hget o h2 (h.size - 1) = h2[h.size - 1] := by
      simp [hget, Array.getElem?_eq_getElem hlt]
    rw [this]
    exact hp.mem_iff.1 (Array.getElem_mem hlt)
  · intro y hy
    obtain ⟨i, hi, rfl⟩ := Array.mem_iff_getElem.1 hy
    rw [Array.getElem_pop]
    exact hp.mem_iff.1 (Array.getElem_mem _)

theorem hpush_spec (o : Ops α) (h : Array (Tok α)) (x : Tok α) :
    (hpush o h x).size = h.size + 1 ∧ ∀ y ∈ hpush o h x, y ∈ h ∨ y = x := by
  unfold hpush
  simp only
  have hp := hup_perm o (h.push x).size (h.push x) ((h.push x).size - 1)
  refine ⟨by rw [hp.size_eq]; simp, ?_⟩
  intro y hy
  have := hp.mem_iff.1 hy
  simpa [Array.mem_push] using this

theorem hpopAll_mem (o : Ops α) : ∀ (n : Nat) (h : Array (Tok α)), h.size = n →
    ∀ y ∈ hpopAll o n h, y ∈ h := by
  intro n
  induction n with
  | zero => intro h _ y hy; simp [hpopAll] at hy
  | succ n ih =>
    intro h hs y hy
    obtain ⟨h1, h2, h3⟩ := hpop_spec o h (by omega)
    simp only [hpopAll, List.mem_cons] at hy
    rcases hy with rfl | hy
    · exact h1
    · exact h3 y (ih _ (by omega) y hy)

theorem hpopAll_length (o : Ops α) (n : Nat) (h : Array (Tok α)) : (hpopAll o n h).length = n := by
  induction n generalizing h with
  | zero => rfl
  | succ n ih => simp [hpopAll, ih]

/-- **the heap branch returns k tokens of its input** -/
theorem topKHeap_mem (o : Ops α) (k : Nat) (ts : List (Tok α)) (hk0 : 0 < k) (hk : k ≤ ts.length) :
    (topKHeap o k ts).length = k ∧ ∀ y ∈ topKHeap o k ts, y ∈ ts := by
  unfold topKHeap
  simp only
  -- invariant of the scan over ts.drop k
  have inv : ∀ (rest : List (Tok α)) (h : Array (Tok α)), h.size = k → (∀ y ∈ h, y ∈ ts) →
      (∀ y ∈ rest, y ∈ ts) →
      let h' := rest.foldl
        (fun h t => if o.lt (hget o h 0).val t.val then hpush o (hpop o h).2 t else h) h
      h'.size = k ∧ ∀ y ∈ h', y ∈ ts := by
    intro rest
    induction rest with
    | nil => intro h hs hm _; exact ⟨hs, hm⟩
    | cons t rest ih =>
      intro h hs hm hr
      simp only [List.foldl_cons]
      apply ih
      · split
        · obtain ⟨_, p2, _⟩ := hpop_spec o h (by omega)
          rw [(hpush_spec o _ t).1, p2]; omega
        · exact hs
      · split
        · intro y hy
          obtain ⟨_, _, p3⟩ := hpop_spec o h (by omega)
          rcases (hpush_spec o _ t).2 y hy with hy | rfl
          · exact hm y (p3 y hy)
          · exact hr y List.mem_cons_self
        · exact hm
      · intro y hy; exact hr y (List.mem_cons_of_mem _ hy)
  have h0p := hinit_perm o (ts.take k).toArray
  have h0s : (hinit o (ts.take k).toArray).size = k := by
    rw [h0p.size_eq]; simp; omega
  have h0m : ∀ y ∈ hinit o (ts.take k).toArray, y ∈ ts := by
    intro y hy
    have := h0p.mem_iff.1 hy
    exact List.mem_of_mem_take (by simpa using this)
  obtain ⟨fs, fm⟩ := inv (ts.drop k) _ h0s h0m (fun y hy => List.mem_of_mem_drop hy)
  refine ⟨by simp [hpopAll_length], ?_⟩
  intro y hy
  rw [List.mem_reverse] at hy
  exact fm y (hpopAll_mem o k _ fs y hy)

/-- the implemented `topK` returns tokens of its input, on both branches -/
theorem topK_mem (o : Ops α) (k : Int) (ts : List (Tok α)) : ∀ y ∈ topK o k ts, y ∈ ts := by
  intro y hy
  unfold topK at hy
  split at hy
  · exact (sortDesc_perm o ts).mem_iff.1 hy
  · rename_i hk
    have h1 : ¬ (k ≥ (ts.length : Int)) := fun h => hk (Or.inl h)
    have h2 : ¬ (k ≤ 0) := fun h => hk (Or.inr h)
    exact (topKHeap_mem o k.toNat ts (by omega) (by omega)).2 y hy

/-! ### minP is the threshold filter; the pick is the first index; no panic -/

/-- on a descending list, cutting at the first entry below the threshold (what `minP` does) keeps
    exactly the entries that are not below the threshold -/
theorem takeWhile_eq_filter_of_desc {o : Ops α} (h : OrdLaws o) (th : α) (L : List (Tok α))
    (hd : L.Pairwise (fun a b => o.lt a.val b.val = false)) :
    L.takeWhile (fun t => !o.lt t.val th) = L.filter (fun t => !o.lt t.val th) := by
  induction L with
  | nil => rfl
  | cons a L ih =>
    rw [List.pairwise_cons] at hd
    simp only [List.takeWhile_cons, List.filter_cons]
    cases ha : o.lt a.val th with
    | false => simp only [Bool.not_false, if_true]; rw [ih hd.2]
    | true =>
      simp only [Bool.not_true, Bool.false_eq_true, if_false]
      symm
      rw [List.filter_eq_nil_iff]
      intro b hb
      have hab := hd.1 b hb
      rcases h.cotrans _ b.val _ ha with h1 | h1
      · rw [hab] at h1; cases h1
      · simp [h1]

theorem minP_eq_filter {o : Ops α} (h : OrdLaws o) (p : α) (t0 : Tok α) (rest : List (Tok α))
    (hd : (t0 :: rest).Pairwise (fun a b => o.lt a.val b.val = false)) :
    minP o p (t0 :: rest) = .ok ((t0 :: rest).filter (fun t => !o.lt t.val (o.mul t0.val p))) := by
  simp only [minP]
  rw [takeWhile_eq_filter_of_desc h _ _ hd]

/-- ascending (adjacent) ⇒ every earlier entry is not above a later one -/
theorem isAsc_pairwise {o : Ops α} (h : OrdLaws o) : ∀ (vs : List α), isAsc o vs = true →
    vs.Pairwise (fun a b => o.lt b a = false) := by
  intro vs
  induction vs with
  | nil => intro _; exact List.Pairwise.nil
  | cons a vs ih =>
    intro hasc
    cases vs with
    | nil => exact List.pairwise_singleton _ _
    | cons b vs =>
      simp only [isAsc, Bool.and_eq_true, Bool.not_eq_true'] at hasc
      have hp := ih hasc.2
      rw [List.pairwise_cons]
      refine ⟨?_, hp⟩
      intro c hc
      rcases List.mem_cons.1 hc with rfl | hc
      · exact hasc.1
      · rw [List.pairwise_cons] at hp
        exact h.nlt_trans (hp.1 c hc) hasc.1

/-- **the pick is the first index whose cumulative sum reaches the target** when the cumulative
    sums are ascending (contract `cum`): everything before the returned index is below. -/
theorem bsearch_first {o : Ops α} (h : OrdLaws o) (C : List (Tok α)) (target : α)
    (hasc : isAsc o (C.map (·.val)) = true) :
    let idx := bsearch (belowAt o C target) (C.length + 1) 0 C.length
    ∀ j, j < idx → belowAt o C target j = true := by
  intro idx j hj
  obtain ⟨hle, hlo, _⟩ := bsearch_spec (belowAt o C target) C.length (C.length + 1) 0 C.length
    (Nat.zero_le _) (Nat.le_refl _) (by omega) (Or.inl rfl) (Or.inl rfl)
  have hlo : belowAt o C target (idx - 1) = true := by
    rcases hlo with h0 | hb
    · exact absurd hj (by show ¬ j < idx; omega)
    · exact hb
  have hpw := isAsc_pairwise h _ hasc
  -- C[idx-1] exists and is below the target
  unfold belowAt at hlo ⊢
  cases hq : C[idx - 1]? with
  | none => rw [hq] at hlo; cases hlo
  | some q =>
    rw [hq] at hlo
    have hjlt : j < C.length := by
      have := (List.getElem?_eq_some_iff.1 hq).1; omega
    have hcj : C[j]? = some C[j] := List.getElem?_eq_getElem hjlt
    rw [hcj]
    simp only
    by_cases hjeq : j = idx - 1
    · subst hjeq; rw [hcj] at hq; injection hq with hq; rw [hq]; exact hlo
    · have hlt : j < idx - 1 := by omega
      have hi1 : idx - 1 < C.length := (List.getElem?_eq_some_iff.1 hq).1
      have hrel : o.lt q.val (C[j]).val = false := by
        have := List.pairwise_iff_getElem.1 hpw j (idx - 1) (by simpa using hjlt) (by simpa using hi1) hlt
        have hq' : C[idx - 1] = q := by
          have := List.getElem?_eq_getElem hi1; rw [this] at hq; injection hq
        simpa [hq'] using this
      rcases h.cotrans _ (C[j]).val _ hlo with h1 | h1
      · rw [hrel] at h1; cases h1
      · exact h1

/-- **no panic in the pick**: on a non-empty filtered list whose scaled target does not exceed
    the total (contract `r`), `pick` returns a token or the NaN error — never an index panic -/
theorem pick_no_panic (o : Ops α) (r : α) (L : List (Tok α)) (hne : L ≠ [])
    (hr : ∀ last, (cumsum o o.zero L).getLast? = some last →
        o.lt last.val (o.mul r last.val) = false) :
    (∃ t, pick o r L = .ok t) ∨ pick o r L = .error .nanSum := by
  unfold pick
  simp only
  cases hl : (cumsum o o.zero L).getLast? with
  | none =>
    have : cumsum o o.zero L = [] := List.getLast?_eq_none_iff.1 hl
    have := congrArg List.length this
    rw [cumsum_length] at this
    exact absurd (List.eq_nil_of_length_eq_zero this) hne
  | some last =>
    simp only
    split
    · exact Or.inr rfl
    · generalize hC : cumsum o o.zero L = C at *
      generalize hr' : o.mul r last.val = r' at *
      obtain ⟨hle, hlo, hhi⟩ := bsearch_spec (belowAt o C r') C.length (C.length + 1) 0 C.length
        (Nat.zero_le _) (Nat.le_refl _) (by omega) (Or.inl rfl) (Or.inl rfl)
      generalize bsearch (belowAt o C r') (C.length + 1) 0 C.length = idx at *
      have hCne : C.length ≠ 0 := by
        intro h0
        have : C = [] := List.eq_nil_of_length_eq_zero h0
        rw [this] at hl; simp at hl
      have hlast : C[C.length - 1]? = some last := by
        rw [List.getLast?_eq_getElem?] at hl; exact hl
      have hidx : idx < C.length := by
        rcases Nat.lt_or_ge idx C.length with h1 | h1
        · exact h1
        · have hie : idx = C.length := by omega
          rcases hlo with h0 | hb
          · omega
          · rw [hie] at hb
            simp only [belowAt, hlast] at hb
            have := hr last hl
            rw [hr'] at this
            rw [this] at hb; cases hb
      left
      rw [List.getElem?_eq_getElem hidx]
      exact ⟨_, rfl⟩

theorem setVals_length (L : List (Tok α)) (vs : List α) (hl : vs.length = L.length) :
    (setVals L vs).length = L.length := by
  simp [setVals, hl]

theorem softmaxVals_length (o : Ops α) (vs : List α) : (softmaxVals o vs).length = vs.length := by
  simp [softmaxVals]

theorem probsOf_length (o : Ops α) (P : Params α) (L : List (Tok α)) :
    (probsOf o P L).length = L.length := by
  unfold probsOf softmax
  have h1 : (temperature o P.temp L).length = L.length := by
    unfold temperature; exact setVals_length _ _ (by simp [scaleVals_length])
  rw [setVals_length _ _ (by rw [softmaxVals_length]; simp), h1]

/-- **no panic after topK** (pinned variant): on a non-empty list, if the run's two arithmetic
    contracts hold (`max·minP ≤ max`, flag `empty`; `r·total ≤ total`, flag `r`), `sample` returns a
    token or the NaN error — none of the three index expressions can panic. -/
theorem afterTopK_no_panic (o : Ops α) (P : Params α) (r : α) (L : List (Tok α)) (hL : L ≠ [])
    (hmin : ∀ t0 rest, topP o P.topP (probsOf o P L) = t0 :: rest →
        o.lt t0.val (o.mul t0.val P.minP) = false)
    (hr : ∀ f last, minP o P.minP (topP o P.topP (probsOf o P L)) = .ok f →
        (cumsum o o.zero f).getLast? = some last → o.lt last.val (o.mul r last.val) = false) :
    (∃ t, afterTopK o false P r L = .ok t) ∨ afterTopK o false P r L = .error .nanSum := by
  have hpne : probsOf o P L ≠ [] := by
    intro h0
    have := congrArg List.length h0
    rw [probsOf_length] at this
    exact hL (List.eq_nil_of_length_eq_zero this)
  have htne := topP_ne_nil o P.topP _ hpne
  cases htp : topP o P.topP (probsOf o P L) with
  | nil => exact absurd htp htne
  | cons t0 rest =>
    obtain ⟨f, hf⟩ := minP_ne_nil o P.minP t0 rest (hmin t0 rest htp)
    have hpick := pick_no_panic o r (t0 :: f) (by simp)
      (fun last hl => hr (t0 :: f) last (by rw [htp]; exact hf) hl)
    have hunf : afterTopK o false P r L = pick o r (t0 :: f) := by
      unfold afterTopK
      simp only [Bool.false_eq_true, if_false, bind, Except.bind, pure, Except.pure]
      have e : softmax o (temperature o P.temp L) = probsOf o P L := rfl
      rw [e, htp, hf]
    rw [hunf]; exact hpick

end OllamaVerif.Sampler
