/-
  C18 — helper lemmas about the sampler model (core Lean only).
-/
import OllamaVerif.Model.Sampler
namespace OllamaVerif.Sampler
variable {α : Type}

/-- the comparison is a strict weak order (IEEE `<` on non-NaN values) -/
structure OrdLaws (o : Ops α) : Prop where
  irrefl : ∀ a, o.lt a a = false
  trans : ∀ a b c, o.lt a b = true → o.lt b c = true → o.lt a c = true
  cotrans : ∀ a b c, o.lt a c = true → o.lt a b = true ∨ o.lt b c = true

theorem OrdLaws.asymm {o : Ops α} (h : OrdLaws o) {a b : α} (hab : o.lt a b = true) : o.lt b a = false := by
  cases hba : o.lt b a with
  | false => rfl
  | true => have := h.trans a b a hab hba; rw [h.irrefl] at this; cases this

theorem OrdLaws.nlt_trans {o : Ops α} (h : OrdLaws o) {a b c : α} (hab : o.lt a b = false)
    (hbc : o.lt b c = false) : o.lt a c = false := by
  cases hac : o.lt a c with
  | false => rfl
  | true =>
    rcases h.cotrans a b c hac with h1 | h1
    · rw [hab] at h1; cases h1
    · rw [hbc] at h1; cases h1

theorem foldl_max {o : Ops α} (h : OrdLaws o) (ts : List (Tok α)) (m0 : Tok α) :
    let m := ts.foldl (fun m x => if o.lt m.val x.val then x else m) m0
    (m = m0 ∨ m ∈ ts) ∧ o.lt m.val m0.val = false ∧ ∀ x ∈ ts, o.lt m.val x.val = false := by
  induction ts generalizing m0 with
  | nil => simp [h.irrefl]
  | cons x xs ih =>
    simp only [List.foldl_cons]
    cases hx : o.lt m0.val x.val with
    | true =>
      simp only [if_true]
      obtain ⟨h1, h2, h3⟩ := ih x
      refine ⟨?_, ?_, ?_⟩
      · rcases h1 with h1 | h1
        · right; rw [h1]; exact List.mem_cons_self
        · right; exact List.mem_cons_of_mem _ h1
      · exact h.nlt_trans h2 (h.asymm hx)
      · intro y hy
        rcases List.mem_cons.1 hy with rfl | hy
        · exact h2
        · exact h3 y hy
    | false =>
      simp only [Bool.false_eq_true, if_false]
      obtain ⟨h1, h2, h3⟩ := ih m0
      refine ⟨?_, h2, ?_⟩
      · rcases h1 with h1 | h1
        · left; exact h1
        · right; exact List.mem_cons_of_mem _ h1
      · intro y hy
        rcases List.mem_cons.1 hy with rfl | hy
        · exact h.nlt_trans h2 hx
        · exact h3 y hy

/-- greedy returns an element of the list that no element exceeds -/
theorem greedy_spec {o : Ops α} (h : OrdLaws o) (ts : List (Tok α)) (m : Tok α)
    (hg : greedy o ts = .ok m) : m ∈ ts ∧ ∀ x ∈ ts, o.lt m.val x.val = false := by
  cases ts with
  | nil => cases hg
  | cons t rest =>
    simp only [greedy] at hg
    injection hg with hg
    obtain ⟨h1, h2, h3⟩ := foldl_max h rest t
    rw [hg] at h1 h2 h3
    refine ⟨?_, ?_⟩
    · rcases h1 with h1 | h1
      · rw [h1]; exact List.mem_cons_self
      · exact List.mem_cons_of_mem _ h1
    · intro x hx
      rcases List.mem_cons.1 hx with rfl | hx
      · exact h2
      · exact h3 x hx

theorem bsearch_spec (below : Nat → Bool) (n : Nat) : ∀ fuel i j, i ≤ j → j ≤ n → j - i < fuel →
    (i = 0 ∨ below (i - 1) = true) → (j = n ∨ below j = false) →
    bsearch below fuel i j ≤ n ∧
    (bsearch below fuel i j = 0 ∨ below (bsearch below fuel i j - 1) = true) ∧
    (bsearch below fuel i j = n ∨ below (bsearch below fuel i j) = false) := by
  intro fuel
  induction fuel with
  | zero => intro i j _ _ h; omega
  | succ fuel ih =>
    intro i j hij hjn hf hi hj
    unfold bsearch
    by_cases hlt : i < j
    · simp only [hlt, if_true]
      cases hb : below ((i + j) / 2) with
      | true =>
        simp only [if_true]
        apply ih
        · omega
        · exact hjn
        · omega
        · right; simpa using hb
        · exact hj
      | false =>
        simp only [Bool.false_eq_true, if_false]
        apply ih
        · omega
        · omega
        · omega
        · exact hi
        · right; exact hb
    · simp only [hlt, if_false]
      have : i = j := by omega
      subst this
      exact ⟨hjn, hi, hj⟩

/-! ### cumulative sums -/

theorem cumsum_length (o : Ops α) (L : List (Tok α)) (s : α) : (cumsum o s L).length = L.length := by
  induction L generalizing s with
  | nil => rfl
  | cons x rest ih => simp [cumsum, ih]

/-- entry `i` of the cumulative list carries the id of entry `i` of the input and the previous
    cumulative value plus that entry's value -/
theorem cumsum_get (o : Ops α) : ∀ (L : List (Tok α)) (s : α) (i : Nat) (t : Tok α),
    (cumsum o s L)[i]? = some t →
    ∃ x, L[i]? = some x ∧ t.id = x.id ∧
      ((i = 0 ∧ t.val = o.add s x.val) ∨
       (∃ q, 1 ≤ i ∧ (cumsum o s L)[i - 1]? = some q ∧ t.val = o.add q.val x.val)) := by
  intro L
  induction L with
  | nil => intro s i t h; simp [cumsum] at h
  | cons x rest ih =>
    intro s i t h
    cases i with
    | zero =>
      simp only [cumsum, List.getElem?_cons_zero, Option.some.injEq] at h
      refine ⟨x, by simp, ?_, Or.inl ⟨rfl, ?_⟩⟩ <;> rw [← h]
    | succ i =>
      simp only [cumsum, List.getElem?_cons_succ] at h
      obtain ⟨y, hy, hid, hv⟩ := ih _ i t h
      refine ⟨y, by simpa using hy, hid, Or.inr ?_⟩
      rcases hv with ⟨hi0, hv⟩ | ⟨q, hi1, hq, hv⟩
      · subst hi0
        exact ⟨⟨x.id, o.add s x.val⟩, by omega, by simp [cumsum], hv⟩
      · refine ⟨q, by omega, ?_, hv⟩
        simp only [cumsum, Nat.add_sub_cancel]
        obtain ⟨j, rfl⟩ : ∃ j, i = j + 1 := ⟨i - 1, by omega⟩
        simpa using hq

/-! ### the weighted pick -/

/-- arithmetic law used by the pick: adding a zero does not strictly increase a sum -/
def AddZeroLaw (o : Ops α) : Prop :=
  ∀ s z, o.beq z o.zero = true → o.lt s (o.add s z) = false

/-- **the weighted pick.**  If `pick` returns a token then it sits at some position `idx` of the
    filtered list, carries that entry's id, and either it is the first entry or its own
    probability is not zero (a zero-probability entry is never the first index whose cumulative
    sum reaches the target: its cumulative value equals its predecessor's, which was below). -/
theorem pick_spec {o : Ops α} (h : OrdLaws o) (hz : AddZeroLaw o) (r : α) (L : List (Tok α))
    (t : Tok α) (hp : pick o r L = .ok t) :
    ∃ idx x, L[idx]? = some x ∧ x.id = t.id ∧ (idx = 0 ∨ o.beq x.val o.zero = false) := by
  unfold pick at hp
  simp only at hp
  split at hp
  · cases hp
  · rename_i last hlast
    split at hp
    · cases hp
    · split at hp
      · rename_i t' hidx
        injection hp with hp
        subst hp
        generalize hC : cumsum o o.zero L = C at *
        generalize hr : o.mul r last.val = r' at *
        have hspec := bsearch_spec (belowAt o C r') C.length (C.length + 1) 0 C.length
          (Nat.zero_le _) (Nat.le_refl _) (by omega) (Or.inl rfl) (Or.inl rfl)
        generalize hi : bsearch (belowAt o C r') (C.length + 1) 0 C.length = idx at *
        obtain ⟨_, hlo, hhi⟩ := hspec
        obtain ⟨x, hx, hid, hv⟩ := cumsum_get o L o.zero idx t' (by rw [hC]; exact hidx)
        refine ⟨idx, x, hx, hid.symm, ?_⟩
        rcases hv with ⟨h0, _⟩ | ⟨q, h1, hq, hv⟩
        · exact Or.inl h0
        · right
          rw [hC] at hq
          have hbelow : o.lt q.val r' = true := by
            rcases hlo with h0 | hb
            · omega
            · simpa [belowAt, hq] using hb
          have hnb : o.lt t'.val r' = false := by
            rcases hhi with hn | hb
            · have := (List.getElem?_eq_some_iff.1 hidx).1; omega
            · simpa [belowAt, hidx] using hb
          have hlt : o.lt q.val t'.val = true := by
            rcases h.cotrans _ t'.val _ hbelow with h1 | h1
            · exact h1
            · rw [hnb] at h1; cases h1
          cases hb : o.beq x.val o.zero with
          | false => rfl
          | true =>
            have := hz q.val x.val hb
            rw [← hv, hlt] at this; cases this
      · cases hp

/-! ### filters keep a non-empty prefix -/

theorem topP_prefix (o : Ops α) (p : α) (L : List (Tok α)) : topP o p L <+: L := by
  unfold topP
  split
  · exact List.prefix_refl _
  · exact List.take_prefix _ _

theorem topPCut_pos (o : Ops α) (p s : α) (x : Tok α) (rest : List (Tok α)) :
    1 ≤ topPCut o p s (x :: rest) := by
  simp only [topPCut]
  split <;> omega

theorem topP_ne_nil (o : Ops α) (p : α) (L : List (Tok α)) (hL : L ≠ []) : topP o p L ≠ [] := by
  unfold topP
  split
  · exact hL
  · cases L with
    | nil => exact absurd rfl hL
    | cons x rest =>
      have := topPCut_pos o p o.zero x rest
      obtain ⟨n, hn⟩ : ∃ n, topPCut o p o.zero (x :: rest) = n + 1 := ⟨topPCut o p o.zero (x :: rest) - 1, by omega⟩
      rw [hn]; simp

theorem minP_prefix (o : Ops α) (p : α) (L f : List (Tok α)) (hm : minP o p L = .ok f) : f <+: L := by
  cases L with
  | nil => cases hm
  | cons t0 rest =>
    simp only [minP] at hm
    injection hm with hm
    rw [← hm]; exact List.takeWhile_prefix _

/-- `minP` never panics on a non-empty list, and keeps the head as soon as `max*p ≤ max` -/
theorem minP_ne_nil (o : Ops α) (p : α) (t0 : Tok α) (rest : List (Tok α))
    (hmul : o.lt t0.val (o.mul t0.val p) = false) :
    ∃ f, minP o p (t0 :: rest) = .ok (t0 :: f) := by
  refine ⟨rest.takeWhile (fun t => !o.lt t.val (o.mul t0.val p)), ?_⟩
  simp [minP, hmul]

theorem prefix_get {β : Type} {f L : List β} (hp : f <+: L) {i : Nat} {x : β} (hx : f[i]? = some x) :
    L[i]? = some x := by
  obtain ⟨s, rfl⟩ := hp
  have hi : i < f.length := (List.getElem?_eq_some_iff.1 hx).1
  rw [List.getElem?_append_left hi]; exact hx

/-! ### positions through `setVals` -/

theorem setVals_get (L : List (Tok α)) (vs : List α) (i : Nat) (x : Tok α)
    (hx : (setVals L vs)[i]? = some x) :
    ∃ y v, L[i]? = some y ∧ vs[i]? = some v ∧ x = ⟨y.id, v⟩ := by
  unfold setVals at hx
  rw [List.getElem?_zipWith] at hx
  cases hy : L[i]? with
  | none => simp [hy] at hx
  | some y =>
    cases hv : vs[i]? with
    | none => simp [hy, hv] at hx
    | some v =>
      simp only [hy, hv] at hx
      exact ⟨y, v, rfl, rfl, by simpa using hx.symm⟩

theorem setVals_map_val (L : List (Tok α)) (vs : List α) (hl : vs.length = L.length) :
    (setVals L vs).map (·.val) = vs := by
  induction L generalizing vs with
  | nil => cases vs with
    | nil => rfl
    | cons _ _ => simp at hl
  | cons x rest ih =>
    cases vs with
    | nil => simp at hl
    | cons v vs =>
      simp only [setVals, List.zipWith_cons_cons, List.map_cons]
      congr 1
      exact ih vs (by simpa using hl)

theorem zip_all_get {β γ : Type} (f : β → γ → Bool) : ∀ (as : List β) (bs : List γ) (i : Nat) (a : β) (b : γ),
    (List.zipWith f as bs).all id = true → as[i]? = some a → bs[i]? = some b → f a b = true := by
  intro as
  induction as with
  | nil => intro bs i a b _ ha; simp at ha
  | cons a0 as ih =>
    intro bs i a b hall ha hb
    cases bs with
    | nil => simp at hb
    | cons b0 bs =>
      simp only [List.zipWith_cons_cons, List.all_cons, Bool.and_eq_true, id] at hall
      cases i with
      | zero =>
        simp only [List.getElem?_cons_zero, Option.some.injEq] at ha hb
        subst ha; subst hb; exact hall.1
      | succ i =>
        simp only [List.getElem?_cons_succ] at ha hb
        exact ih bs i a b hall.2 ha hb

theorem scaleVals_length (o : Ops α) (t : α) (vs : List α) : (scaleVals o t vs).length = vs.length := by
  simp [scaleVals]

/-! ### the pipeline after topK -/

/-- `==` implies "not less" (IEEE: equal values are not ordered) -/
def BeqLaw (o : Ops α) : Prop := ∀ a b, o.beq a b = true → o.lt b a = false

/-- the values after `temperature` -/
def scaledOf (o : Ops α) (P : Params α) (L : List (Tok α)) : List α :=
  scaleVals o P.temp (L.map (·.val))

/-- the token list after `temperature` and `softmax` -/
def probsOf (o : Ops α) (P : Params α) (L : List (Tok α)) : List (Tok α) :=
  softmax o (temperature o P.temp L)

theorem temperature_vals (o : Ops α) (P : Params α) (L : List (Tok α)) :
    (temperature o P.temp L).map (·.val) = scaledOf o P L := by
  unfold temperature scaledOf
  exact setVals_map_val _ _ (by simp [scaleVals_length])

/-- **everything after topK.**  `L` is the sorted list `topK` produced.  If the run's contracts
    hold (`guardOK`: the scaled maximum is finite — this excludes exactly finding F18 —,
    `scaleOK`, `softmaxOK`) and `sample` returns a token, then that token sits at a position `idx`
    which is inside the prefix kept by `minP ∘ topP`, carries the id of `L[idx]`, and the logit of
    `L[idx]` is not `-Inf`. -/
theorem afterTopK_spec {o : Ops α} (h : OrdLaws o) (hz : AddZeroLaw o) (hb : BeqLaw o)
    (P : Params α) (r : α) (L : List (Tok α)) (t : Tok α)
    (hres : afterTopK o false P r L = .ok t)
    (hg : guardOK o (scaledOf o P L) = true)
    (hsc : scaleOK o (L.map (·.val)) (scaledOf o P L) = true)
    (hsm : softmaxOK o (scaledOf o P L) (softmaxVals o (scaledOf o P L)) = true) :
    ∃ (idx : Nat) (y : Tok α) (f : List (Tok α)) (x : Tok α), L[idx]? = some y ∧ y.id = t.id ∧ o.beq y.val o.negInf = false ∧
      minP o P.minP (topP o P.topP (probsOf o P L)) = .ok f ∧ f <+: probsOf o P L ∧
      f[idx]? = some x ∧ x.id = t.id := by
  unfold afterTopK at hres
  simp only [Bool.false_eq_true, if_false, bind, Except.bind, pure, Except.pure] at hres
  split at hres
  · cases hres
  · rename_i f hf
    change minP o P.minP (topP o P.topP (probsOf o P L)) = .ok f at hf
    obtain ⟨idx, x, hx, hid, hnz⟩ := pick_spec h hz r f t hres
    have hpre : f <+: probsOf o P L :=
      List.IsPrefix.trans (minP_prefix o _ _ _ hf) (topP_prefix o _ _)
    have hxp : (probsOf o P L)[idx]? = some x := prefix_get hpre hx
    -- unfold the two setVals layers
    unfold probsOf softmax at hxp
    rw [temperature_vals] at hxp
    obtain ⟨s, pv, hs, hpv, hxe⟩ := setVals_get _ _ _ _ hxp
    unfold temperature at hs
    obtain ⟨y, sv, hy, hsv, hse⟩ := setVals_get _ _ _ _ hs
    change (scaledOf o P L)[idx]? = some sv at hsv
    have hxid : x.id = y.id := by rw [hxe, hse]
    have hxv : x.val = pv := by rw [hxe]
    refine ⟨idx, y, f, x, hy, by rw [← hxid]; exact hid, ?_, hf, hpre, hx, hid⟩
    -- the scaled value at idx is not -Inf
    have hsv_ne : o.beq sv o.negInf = false := by
      rcases hnz with h0 | hnz
      · subst h0
        unfold guardOK at hg
        simp only [Bool.and_eq_true] at hg
        cases hS : scaledOf o P L with
        | nil => rw [hS] at hsv; simp at hsv
        | cons v0 vs =>
          rw [hS] at hsv hg
          simp only [List.getElem?_cons_zero, Option.some.injEq] at hsv
          subst hsv
          cases hbq : o.beq v0 o.negInf with
          | false => rfl
          | true =>
            have h2 : o.lt o.negInf v0 = true := hg.2
            have := hb _ _ hbq; rw [h2] at this; cases this
      · unfold softmaxOK at hsm
        simp only [Bool.and_eq_true] at hsm
        have := zip_all_get _ _ _ idx sv pv hsm.1.2 hsv hpv
        rw [← hxv, hnz] at this
        simpa using this
    unfold scaleOK at hsc
    simp only [Bool.and_eq_true] at hsc
    have hyv : (L.map (·.val))[idx]? = some y.val := by simp [hy]
    have := zip_all_get _ _ _ idx y.val sv hsc.2 hyv hsv
    rw [hsv_ne] at this
    simpa using this
/-! ### ids only (no laws, no contracts: holds on every carrier, NaN included) -/

theorem pick_id (o : Ops α) (r : α) (L : List (Tok α)) (t : Tok α) (hp : pick o r L = .ok t) :
    ∃ (idx : Nat) (x : Tok α), L[idx]? = some x ∧ x.id = t.id := by
  unfold pick at hp
  simp only at hp
  split at hp
  · cases hp
  · split at hp
    · cases hp
    · split at hp
      · rename_i t' hidx
        injection hp with hp
        subst hp
        obtain ⟨x, hx, hid, _⟩ := cumsum_get o L o.zero _ t' hidx
        exact ⟨_, x, hx, hid.symm⟩
      · cases hp

theorem afterTopK_id (o : Ops α) (P : Params α) (r : α) (L : List (Tok α)) (t : Tok α)
    (hres : afterTopK o false P r L = .ok t) : ∃ y ∈ L, y.id = t.id := by
  unfold afterTopK at hres
  simp only [Bool.false_eq_true, if_false, bind, Except.bind, pure, Except.pure] at hres
  split at hres
  · cases hres
  · rename_i f hf
    obtain ⟨idx, x, hx, hid⟩ := pick_id o r f t hres
    have hpre : f <+: probsOf o P L :=
      List.IsPrefix.trans (minP_prefix o _ _ _ hf) (topP_prefix o _ _)
    have hxp : (probsOf o P L)[idx]? = some x := prefix_get hpre hx
    unfold probsOf softmax at hxp
    obtain ⟨s, pv, hs, _, hxe⟩ := setVals_get _ _ _ _ hxp
    unfold temperature at hs
    obtain ⟨y, sv, hy, _, hse⟩ := setVals_get _ _ _ _ hs
    refine ⟨y, List.mem_of_getElem? hy, ?_⟩
    rw [← hid, hxe, hse]

/-! ### tokens built from the logits -/

theorem mkTokensFrom_mem (i : Nat) (vs : List α) (x : Tok α) (hx : x ∈ mkTokensFrom i vs) :
    ∃ j, x.id = i + j ∧ vs[j]? = some x.val := by
  induction vs generalizing i with
  | nil => simp [mkTokensFrom] at hx
  | cons v vs ih =>
    simp only [mkTokensFrom, List.mem_cons] at hx
    rcases hx with rfl | hx
    · exact ⟨0, rfl, rfl⟩
    · obtain ⟨j, hj, hv⟩ := ih (i + 1) hx
      exact ⟨j + 1, by omega, by simpa using hv⟩

theorem mkTokens_mem (vs : List α) (x : Tok α) (hx : x ∈ mkTokens vs) : vs[x.id]? = some x.val := by
  obtain ⟨j, hj, hv⟩ := mkTokensFrom_mem 0 vs x hx
  have : x.id = j := by omega
  rw [this]; exact hv

/-! ### top-k -/

/-- what `topK` owes its callers -/
structure IsTopK (o : Ops α) (k : Int) (ts out : List (Tok α)) : Prop where
  len : out.length = if k ≥ ts.length ∨ k ≤ 0 then ts.length else k.toNat
  desc : out.Pairwise (fun a b => o.lt a.val b.val = false)
  sub : ∃ rest, (out ++ rest).Perm ts ∧ ∀ x ∈ rest, ∀ y ∈ out, o.lt y.val x.val = false

theorem IsTopK.mem {o : Ops α} {k : Int} {ts out : List (Tok α)} (h : IsTopK o k ts out) :
    ∀ x ∈ out, x ∈ ts := by
  intro x hx
  obtain ⟨rest, hp, _⟩ := h.sub
  exact hp.mem_iff.1 (List.mem_append_left _ hx)

theorem sortDesc_perm (o : Ops α) (ts : List (Tok α)) : (sortDesc o ts).Perm ts :=
  List.mergeSort_perm _ _

theorem sortDesc_pairwise {o : Ops α} (h : OrdLaws o) (ts : List (Tok α)) :
    (sortDesc o ts).Pairwise (fun a b => o.lt a.val b.val = false) := by
  have := List.pairwise_mergeSort (le := descLE o)
    (fun a b c hab hbc => by
      simp only [descLE, Bool.not_eq_true'] at *
      exact h.nlt_trans hab hbc)
    (fun a b => by
      simp only [descLE, Bool.or_eq_true, Bool.not_eq_true']
      cases hab : o.lt a.val b.val with
      | false => exact Or.inl rfl
      | true => exact Or.inr (h.asymm hab)) ts
  refine this.imp ?_
  intro a b hab
  simpa [descLE] using hab

/-- the specification-level top-k (k first of the stable descending sort) meets `IsTopK` -/
theorem topKSpec_isTopK {o : Ops α} (h : OrdLaws o) (k : Int) (ts : List (Tok α)) :
    IsTopK o k ts (topKSpec o k ts) := by
  have hperm := sortDesc_perm o ts
  have hpw := sortDesc_pairwise h ts
  unfold topKSpec
  split
  · rename_i hk
    refine ⟨by simp [hk, hperm.length_eq], hpw, [], by simpa using hperm, by simp⟩
  · rename_i hk
    have hk' : ¬ (k ≥ ts.length) ∧ ¬ (k ≤ 0) := by
      constructor <;> intro hh <;> exact hk (by simp [hh])
    refine ⟨?_, ?_, (sortDesc o ts).drop k.toNat, ?_, ?_⟩
    · simp only [hk, if_false, List.length_take, hperm.length_eq]
      omega
    · exact hpw.sublist (List.take_sublist _ _)
    · rw [List.take_append_drop]; exact hperm
    · intro x hx y hy
      have := hpw
      rw [← List.take_append_drop k.toNat (sortDesc o ts), List.pairwise_append] at this
      exact this.2.2 y hy x hx

/-- on its sorting branch the implemented `topK` is the specification -/
theorem topK_sort_branch (o : Ops α) (k : Int) (ts : List (Tok α)) (hk : k ≥ ts.length ∨ k ≤ 0) :
    topK o k ts = topKSpec o k ts := by
  simp [topK, topKSpec, hk]

/-! ### the seeded stream -/

/-- state after `n` draws -/
def advance {σ β : Type} (step : σ → β × σ) : Nat → σ → σ
  | 0, s => s
  | n + 1, s => advance step n (step s).2

/-- the k-th output does not depend on how many are drawn after it -/
theorem streamOf_append {σ β : Type} (step : σ → β × σ) (m n : Nat) (s : σ) :
    streamOf step (m + n) s = streamOf step m s ++ streamOf step n (advance step m s) := by
  induction m generalizing s with
  | zero => simp [streamOf, advance]
  | succ m ih =>
    rw [Nat.add_right_comm]
    simp only [streamOf, advance, List.cons_append]
    rw [ih]

/-! ### the repaired variant (`fix = true`): shift by the largest logit first -/

theorem afterTopK_fix (o : Ops α) (P : Params α) (r : α) (L : List (Tok α)) (t : Tok α)
    (hres : afterTopK o true P r L = .ok t) :
    ∃ L1, shiftMax o L = .ok L1 ∧ afterTopK o false P r L1 = .ok t := by
  unfold afterTopK at hres
  simp only [if_true, bind, Except.bind] at hres
  cases hs : shiftMax o L with
  | error e => rw [hs] at hres; cases hres
  | ok L1 =>
    rw [hs] at hres
    refine ⟨L1, rfl, ?_⟩
    unfold afterTopK
    simpa only [Bool.false_eq_true, if_false, bind, Except.bind, pure, Except.pure] using hres

/-- the shift keeps ids and positions -/
theorem shiftMax_get (o : Ops α) (L L1 : List (Tok α)) (hs : shiftMax o L = .ok L1)
    (i : Nat) (y1 : Tok α) (h1 : L1[i]? = some y1) :
    ∃ y, L[i]? = some y ∧ y.id = y1.id := by
  cases L with
  | nil =>
    simp only [shiftMax] at hs
    injection hs with hs; subst hs; simp at h1
  | cons t0 rest =>
    simp only [shiftMax] at hs
    split at hs
    · cases hs
    · injection hs with hs
      subst hs
      rw [List.getElem?_map] at h1
      cases hy : (t0 :: rest)[i]? with
      | none => simp [hy] at h1
      | some y =>
        simp only [hy, Option.map_some, Option.some.injEq] at h1
        exact ⟨y, rfl, by rw [← h1]⟩

theorem afterTopK_id_any (o : Ops α) (fix : Bool) (P : Params α) (r : α) (L : List (Tok α)) (t : Tok α)
    (hres : afterTopK o fix P r L = .ok t) : ∃ y ∈ L, y.id = t.id := by
  cases fix with
  | false => exact afterTopK_id o P r L t hres
  | true =>
    obtain ⟨L1, hs, h1⟩ := afterTopK_fix o P r L t hres
    obtain ⟨y1, hy1, hid⟩ := afterTopK_id o P r L1 t h1
    obtain ⟨i, hi⟩ := List.getElem?_of_mem hy1
    obtain ⟨y, hy, hyid⟩ := shiftMax_get o L L1 hs i y1 hi
    exact ⟨y, List.mem_of_getElem? hy, by rw [hyid, hid]⟩

/-- **everything after topK, repaired variant.**  Contracts are those of the run on the shifted
    list `L1`, plus the shift's own (`scaleOK` on (L, L1): still descending, `-Inf ↦ -Inf`). -/
theorem afterTopK_spec_fix {o : Ops α} (h : OrdLaws o) (hz : AddZeroLaw o) (hb : BeqLaw o)
    (P : Params α) (r : α) (L : List (Tok α)) (t : Tok α)
    (hres : afterTopK o true P r L = .ok t) :
    ∃ L1, shiftMax o L = .ok L1 ∧
    (guardOK o (scaledOf o P L1) = true →
     scaleOK o (L.map (·.val)) (L1.map (·.val)) = true →
     scaleOK o (L1.map (·.val)) (scaledOf o P L1) = true →
     softmaxOK o (scaledOf o P L1) (softmaxVals o (scaledOf o P L1)) = true →
     ∃ (idx : Nat) (y : Tok α) (f : List (Tok α)) (x : Tok α),
      L[idx]? = some y ∧ y.id = t.id ∧ o.beq y.val o.negInf = false ∧
      minP o P.minP (topP o P.topP (probsOf o P L1)) = .ok f ∧ f <+: probsOf o P L1 ∧
      f[idx]? = some x ∧ x.id = t.id) := by
  obtain ⟨L1, hs, h1⟩ := afterTopK_fix o P r L t hres
  refine ⟨L1, hs, ?_⟩
  intro hg hsh hsc hsm
  obtain ⟨idx, y1, f, x, hy1, hy1id, hy1v, hf, hpre, hx, hxid⟩ :=
    afterTopK_spec h hz hb P r L1 t h1 hg hsc hsm
  obtain ⟨y, hy, hyid⟩ := shiftMax_get o L L1 hs idx y1 hy1
  refine ⟨idx, y, f, x, hy, by rw [hyid, hy1id], ?_, hf, hpre, hx, hxid⟩
  unfold scaleOK at hsh
  simp only [Bool.and_eq_true] at hsh
  have ha : (L.map (·.val))[idx]? = some y.val := by simp [hy]
  have hb' : (L1.map (·.val))[idx]? = some y1.val := by simp [hy1]
  have := zip_all_get _ _ _ idx y.val y1.val hsh.2 ha hb'
  rw [hy1v] at this
  simpa using this

/-! ### the heap branch of topK only moves tokens around -/

theorem swapIfInBounds_perm (h : Array (Tok α)) (i j : Nat) : (h.swapIfInBounds i j).Perm h := by
  rw [Array.swapIfInBounds_def]
  split
  · split
    · exact Array.swap_perm _ _
    · exact Array.Perm.refl _
  · exact Array.Perm.refl _

theorem hdown_perm (o : Ops α) (n : Nat) : ∀ (fuel : Nat) (h : Array (Tok α)) (i : Nat),
    (hdown o n fuel h i).Perm h := by
  intro fuel
  induction fuel with
  | zero => intro h i; exact Array.Perm.refl _
  | succ fuel ih =>
    intro h i
    unfold hdown
    simp only
    split
    · exact Array.Perm.refl _
    · split <;> split <;>
        first | exact Array.Perm.refl _ | exact (ih _ _).trans (swapIfInBounds_perm _ _ _)

theorem hup_perm (o : Ops α) : ∀ (fuel : Nat) (h : Array (Tok α)) (j : Nat),
    (hup o fuel h j).Perm h := by
  intro fuel
  induction fuel with
  | zero => intro h j; exact Array.Perm.refl _
  | succ fuel ih =>
    intro h j
    unfold hup
    simp only
    split
    · exact Array.Perm.refl _
    · exact (ih _ _).trans (swapIfInBounds_perm _ _ _)

theorem hinit_perm (o : Ops α) (h : Array (Tok α)) : (hinit o h).Perm h := by
  unfold hinit
  simp only
  generalize (List.range (h.size / 2)).reverse = l
  generalize h.size = n
  have : ∀ (l : List Nat) (h0 : Array (Tok α)), (l.foldl (fun h i => hdown o n n h i) h0).Perm h0 := by
    intro l
    induction l with
    | nil => intro h0; exact Array.Perm.refl _
    | cons i l ih => intro h0; exact (ih _).trans (hdown_perm o n n h0 i)
  exact this l h

/-- `heap.Pop` returns an element of the heap and leaves a heap of the remaining size whose
    elements all come from the old one -/
theorem hpop_spec (o : Ops α) (h : Array (Tok α)) (hs : 0 < h.size) :
    (hpop o h).1 ∈ h ∧ (hpop o h).2.size = h.size - 1 ∧ ∀ y ∈ (hpop o h).2, y ∈ h := by
  unfold hpop
  simp only
  generalize hh2 : hdown o (h.size - 1) (h.size - 1) (h.swapIfInBounds 0 (h.size - 1)) 0 = h2
  have hp : h2.Perm h := by
    rw [← hh2]; exact (hdown_perm _ _ _ _ _).trans (swapIfInBounds_perm _ _ _)
  have hsz : h2.size = h.size := hp.size_eq
  have hlt : h.size - 1 < h2.size := by omega
  refine ⟨?_, by simp [hsz], ?_⟩
  · have : hget o h2 (h.size - 1) = h2[h.size - 1] := by
      simp [hget, Array.getElem?_eq_getElem hlt]
    rw [this]
    exact hp.mem_iff.1 (Array.getElem_mem hlt)
  · intro y hy
    obtain ⟨i, hi, rfl⟩ := Array.mem_iff_getElem.1 hy
    rw [Array.getElem_pop]
    exact hp.mem_iff.1 (Array.getElem_mem _)

theorem hpush_spec (o : Ops α) (h : Array (Tok α)) (x : Tok α) :
    (hpush o h x).size = h.size + 1 ∧ ∀ y ∈ hpush o h x, y ∈ h ∨ y = x := by
  unfold hpush
  simp only
  have hp := hup_perm o (h.push x).size (h.push x) ((h.push x).size - 1)
  refine ⟨by rw [hp.size_eq]; simp, ?_⟩
  intro y hy
  have := hp.mem_iff.1 hy
  simpa [Array.mem_push] using this

theorem hpopAll_mem (o : Ops α) : ∀ (n : Nat) (h : Array (Tok α)), h.size = n →
    ∀ y ∈ hpopAll o n h, y ∈ h := by
  intro n
  induction n with
  | zero => intro h _ y hy; simp [hpopAll] at hy
  | succ n ih =>
    intro h hs y hy
    obtain ⟨h1, h2, h3⟩ := hpop_spec o h (by omega)
    simp only [hpopAll, List.mem_cons] at hy
    rcases hy with rfl | hy
    · exact h1
    · exact h3 y (ih _ (by omega) y hy)

theorem hpopAll_length (o : Ops α) (n : Nat) (h : Array (Tok α)) : (hpopAll o n h).length = n := by
  induction n generalizing h with
  | zero => rfl
  | succ n ih => simp [hpopAll, ih]

/-- **the heap branch returns k tokens of its input** -/
theorem topKHeap_mem (o : Ops α) (k : Nat) (ts : List (Tok α)) (hk0 : 0 < k) (hk : k ≤ ts.length) :
    (topKHeap o k ts).length = k ∧ ∀ y ∈ topKHeap o k ts, y ∈ ts := by
  unfold topKHeap
  simp only
  -- invariant of the scan over ts.drop k
  have inv : ∀ (rest : List (Tok α)) (h : Array (Tok α)), h.size = k → (∀ y ∈ h, y ∈ ts) →
      (∀ y ∈ rest, y ∈ ts) →
      let h' := rest.foldl
        (fun h t => if o.lt (hget o h 0).val t.val then hpush o (hpop o h).2 t else h) h
      h'.size = k ∧ ∀ y ∈ h', y ∈ ts := by
    intro rest
    induction rest with
    | nil => intro h hs hm _; exact ⟨hs, hm⟩
    | cons t rest ih =>
      intro h hs hm hr
      simp only [List.foldl_cons]
      apply ih
      · split
        · obtain ⟨_, p2, _⟩ := hpop_spec o h (by omega)
          rw [(hpush_spec o _ t).1, p2]; omega
        · exact hs
      · split
        · intro y hy
          obtain ⟨_, _, p3⟩ := hpop_spec o h (by omega)
          rcases (hpush_spec o _ t).2 y hy with hy | rfl
          · exact hm y (p3 y hy)
          · exact hr y List.mem_cons_self
        · exact hm
      · intro y hy; exact hr y (List.mem_cons_of_mem _ hy)
  have h0p := hinit_perm o (ts.take k).toArray
  have h0s : (hinit o (ts.take k).toArray).size = k := by
    rw [h0p.size_eq]; simp; omega
  have h0m : ∀ y ∈ hinit o (ts.take k).toArray, y ∈ ts := by
    intro y hy
    have := h0p.mem_iff.1 hy
    exact List.mem_of_mem_take (by simpa using this)
  obtain ⟨fs, fm⟩ := inv (ts.drop k) _ h0s h0m (fun y hy => List.mem_of_mem_drop hy)
  refine ⟨by simp [hpopAll_length], ?_⟩
  intro y hy
  rw [List.mem_reverse] at hy
  exact fm y (hpopAll_mem o k _ fs y hy)

/-- the implemented `topK` returns tokens of its input, on both branches -/
theorem topK_mem (o : Ops α) (k : Int) (ts : List (Tok α)) : ∀ y ∈ topK o k ts, y ∈ ts := by
  intro y hy
  unfold topK at hy
  split at hy
  · exact (sortDesc_perm o ts).mem_iff.1 hy
  · rename_i hk
    have h1 : ¬ (k ≥ (ts.length : Int)) := fun h => hk (Or.inl h)
    have h2 : ¬ (k ≤ 0) := fun h => hk (Or.inr h)
    exact (topKHeap_mem o k.toNat ts (by omega) (by omega)).2 y hy

/-! ### minP is the threshold filter; the pick is the first index; no panic -/

/-- on a descending list, cutting at the first entry below the threshold (what `minP` does) keeps
    exactly the entries that are not below the threshold -/
theorem takeWhile_eq_filter_of_desc {o : Ops α} (h : OrdLaws o) (th : α) (L : List (Tok α))
    (hd : L.Pairwise (fun a b => o.lt a.val b.val = false)) :
    L.takeWhile (fun t => !o.lt t.val th) = L.filter (fun t => !o.lt t.val th) := by
  induction L with
  | nil => rfl
  | cons a L ih =>
    rw [List.pairwise_cons] at hd
    simp only [List.takeWhile_cons, List.filter_cons]
    cases ha : o.lt a.val th with
    | false => simp only [Bool.not_false, if_true]; rw [ih hd.2]
    | true =>
      simp only [Bool.not_true, Bool.false_eq_true, if_false]
      symm
      rw [List.filter_eq_nil_iff]
      intro b hb
      have hab := hd.1 b hb
      rcases h.cotrans _ b.val _ ha with h1 | h1
      · rw [hab] at h1; cases h1
      · simp [h1]

theorem minP_eq_filter {o : Ops α} (h : OrdLaws o) (p : α) (t0 : Tok α) (rest : List (Tok α))
    (hd : (t0 :: rest).Pairwise (fun a b => o.lt a.val b.val = false)) :
    minP o p (t0 :: rest) = .ok ((t0 :: rest).filter (fun t => !o.lt t.val (o.mul t0.val p))) := by
  simp only [minP]
  rw [takeWhile_eq_filter_of_desc h _ _ hd]

/-- ascending (adjacent) ⇒ every earlier entry is not above a later one -/
theorem isAsc_pairwise {o : Ops α} (h : OrdLaws o) : ∀ (vs : List α), isAsc o vs = true →
    vs.Pairwise (fun a b => o.lt b a = false) := by
  intro vs
  induction vs with
  | nil => intro _; exact List.Pairwise.nil
  | cons a vs ih =>
    intro hasc
    cases vs with
    | nil => exact List.pairwise_singleton _ _
    | cons b vs =>
      simp only [isAsc, Bool.and_eq_true, Bool.not_eq_true'] at hasc
      have hp := ih hasc.2
      rw [List.pairwise_cons]
      refine ⟨?_, hp⟩
      intro c hc
      rcases List.mem_cons.1 hc with rfl | hc
      · exact hasc.1
      · rw [List.pairwise_cons] at hp
        exact h.nlt_trans (hp.1 c hc) hasc.1

/-- **the pick is the first index whose cumulative sum reaches the target** when the cumulative
    sums are ascending (contract `cum`): everything before the returned index is below. -/
theorem bsearch_first {o : Ops α} (h : OrdLaws o) (C : List (Tok α)) (target : α)
    (hasc : isAsc o (C.map (·.val)) = true) :
    let idx := bsearch (belowAt o C target) (C.length + 1) 0 C.length
    ∀ j, j < idx → belowAt o C target j = true := by
  intro idx j hj
  obtain ⟨hle, hlo, _⟩ := bsearch_spec (belowAt o C target) C.length (C.length + 1) 0 C.length
    (Nat.zero_le _) (Nat.le_refl _) (by omega) (Or.inl rfl) (Or.inl rfl)
  have hlo : belowAt o C target (idx - 1) = true := by
    rcases hlo with h0 | hb
    · exact absurd hj (by show ¬ j < idx; omega)
    · exact hb
  have hpw := isAsc_pairwise h _ hasc
  -- C[idx-1] exists and is below the target
  unfold belowAt at hlo ⊢
  cases hq : C[idx - 1]? with
  | none => rw [hq] at hlo; cases hlo
  | some q =>
    rw [hq] at hlo
    have hjlt : j < C.length := by
      have := (List.getElem?_eq_some_iff.1 hq).1; omega
    have hcj : C[j]? = some C[j] := List.getElem?_eq_getElem hjlt
    rw [hcj]
    simp only
    by_cases hjeq : j = idx - 1
    · subst hjeq; rw [hcj] at hq; injection hq with hq; rw [hq]; exact hlo
    · have hlt : j < idx - 1 := by omega
      have hi1 : idx - 1 < C.length := (List.getElem?_eq_some_iff.1 hq).1
      have hrel : o.lt q.val (C[j]).val = false := by
        have := List.pairwise_iff_getElem.1 hpw j (idx - 1) (by simpa using hjlt) (by simpa using hi1) hlt
        have hq' : C[idx - 1] = q := by
          have := List.getElem?_eq_getElem hi1; rw [this] at hq; injection hq
        simpa [hq'] using this
      rcases h.cotrans _ (C[j]).val _ hlo with h1 | h1
      · rw [hrel] at h1; cases h1
      · exact h1

/-- **no panic in the pick**: on a non-empty filtered list whose scaled target does not exceed
    the total (contract `r`), `pick` returns a token or the NaN error — never an index panic -/
theorem pick_no_panic (o : Ops α) (r : α) (L : List (Tok α)) (hne : L ≠ [])
    (hr : ∀ last, (cumsum o o.zero L).getLast? = some last →
        o.lt last.val (o.mul r last.val) = false) :
    (∃ t, pick o r L = .ok t) ∨ pick o r L = .error .nanSum := by
  unfold pick
  simp only
  cases hl : (cumsum o o.zero L).getLast? with
  | none =>
    have : cumsum o o.zero L = [] := List.getLast?_eq_none_iff.1 hl
    have := congrArg List.length this
    rw [cumsum_length] at this
    exact absurd (List.eq_nil_of_length_eq_zero this) hne
  | some last =>
    simp only
    split
    · exact Or.inr rfl
    · generalize hC : cumsum o o.zero L = C at *
      generalize hr' : o.mul r last.val = r' at *
      obtain ⟨hle, hlo, hhi⟩ := bsearch_spec (belowAt o C r') C.length (C.length + 1) 0 C.length
        (Nat.zero_le _) (Nat.le_refl _) (by omega) (Or.inl rfl) (Or.inl rfl)
      generalize bsearch (belowAt o C r') (C.length + 1) 0 C.length = idx at *
      have hCne : C.length ≠ 0 := by
        intro h0
        have : C = [] := List.eq_nil_of_length_eq_zero h0
        rw [this] at hl; simp at hl
      have hlast : C[C.length - 1]? = some last := by
        rw [List.getLast?_eq_getElem?] at hl; exact hl
      have hidx : idx < C.length := by
        rcases Nat.lt_or_ge idx C.length with h1 | h1
        · exact h1
        · have hie : idx = C.length := by omega
          rcases hlo with h0 | hb
          · omega
          · rw [hie] at hb
            simp only [belowAt, hlast] at hb
            have := hr last hl
            rw [hr'] at this
            rw [this] at hb; cases hb
      left
      rw [List.getElem?_eq_getElem hidx]
      exact ⟨_, rfl⟩

theorem setVals_length (L : List (Tok α)) (vs : List α) (hl : vs.length = L.length) :
    (setVals L vs).length = L.length := by
  simp [setVals, hl]

theorem softmaxVals_length (o : Ops α) (vs : List α) : (softmaxVals o vs).length = vs.length := by
  simp [softmaxVals]

theorem probsOf_length (o : Ops α) (P : Params α) (L : List (Tok α)) :
    (probsOf o P L).length = L.length := by
  unfold probsOf softmax
  have h1 : (temperature o P.temp L).length = L.length := by
    unfold temperature; exact setVals_length _ _ (by simp [scaleVals_length])
  rw [setVals_length _ _ (by rw [softmaxVals_length]; simp), h1]

/-- **no panic after topK** (pinned variant): on a non-empty list, if the run's two arithmetic
    contracts hold (`max·minP ≤ max`, flag `empty`; `r·total ≤ total`, flag `r`), `sample` returns a
    token or the NaN error — none of the three index expressions can panic. -/
theorem afterTopK_no_panic (o : Ops α) (P : Params α) (r : α) (L : List (Tok α)) (hL : L ≠ [])
    (hmin : ∀ t0 rest, topP o P.topP (probsOf o P L) = t0 :: rest →
        o.lt t0.val (o.mul t0.val P.minP) = false)
    (hr : ∀ f last, minP o P.minP (topP o P.topP (probsOf o P L)) = .ok f →
        (cumsum o o.zero f).getLast? = some last → o.lt last.val (o.mul r last.val) = false) :
    (∃ t, afterTopK o false P r L = .ok t) ∨ afterTopK o false P r L = .error .nanSum := by
  have hpne : probsOf o P L ≠ [] := by
    intro h0
    have := congrArg List.length h0
    rw [probsOf_length] at this
    exact hL (List.eq_nil_of_length_eq_zero this)
  have htne := topP_ne_nil o P.topP _ hpne
  cases htp : topP o P.topP (probsOf o P L) with
  | nil => exact absurd htp htne
  | cons t0 rest =>
    obtain ⟨f, hf⟩ := minP_ne_nil o P.minP t0 rest (hmin t0 rest htp)
    have hpick := pick_no_panic o r (t0 :: f) (by simp)
      (fun last hl => hr (t0 :: f) last (by rw [htp]; exact hf) hl)
    have hunf : afterTopK o false P r L = pick o r (t0 :: f) := by
      unfold afterTopK
      simp only [Bool.false_eq_true, if_false, bind, Except.bind, pure, Except.pure]
      have e : softmax o (temperature o P.temp L) = probsOf o P L := rfl
      rw [e, htp, hf]
    rw [hunf]; exact hpick

/-! ### round 7: the heap branch of `topK` is a correct top-k (heap order of the `container/heap` mirror)

  `HeapP h n lo`: every position `c < n` whose parent `(c-1)/2` is at least `lo` is not smaller
  than its parent.  `down` restores it below a position whose two sub-heaps are in order
  (`hdown_heap`), `up` restores it after an append (`hup_heap`); hence `Init` builds a heap,
  `Pop` returns a minimum and leaves a heap, `Push` keeps a heap; the scan over the remaining
  tokens keeps "heap ∪ dropped = seen, nothing dropped exceeds anything kept"; popping everything
  yields an ascending list. -/

/-- `a ≤ b` on tokens: `¬ b < a` -/
def tle (o : Ops α) (a b : Tok α) : Prop := o.lt b.val a.val = false

theorem tle_refl {o : Ops α} (h : OrdLaws o) (a : Tok α) : tle o a a := h.irrefl _
theorem tle_trans {o : Ops α} (h : OrdLaws o) {a b c : Tok α} (hab : tle o a b) (hbc : tle o b c) :
    tle o a c := h.nlt_trans hbc hab
theorem tle_of_lt {o : Ops α} (h : OrdLaws o) {a b : Tok α} (hab : o.lt a.val b.val = true) :
    tle o a b := h.asymm hab

theorem hget_swap (o : Ops α) (h : Array (Tok α)) (i j x : Nat) (hi : i < h.size) (hj : j < h.size) :
    hget o (h.swapIfInBounds i j) x =
      if x = j then hget o h i else if x = i then hget o h j else hget o h x := by
  simp only [hget, Array.swapIfInBounds_def, hi, hj, dite_true]
  rw [Array.getElem?_swap]
  by_cases h2 : x = j
  · subst h2; simp [Array.getElem?_eq_getElem hi]
  · by_cases h1 : x = i
    · subst h1
      have : ¬ j = x := fun e => h2 e.symm
      simp [h2, this, Array.getElem?_eq_getElem hj]
    · have a : ¬ j = x := fun e => h2 e.symm
      have b : ¬ i = x := fun e => h1 e.symm
      simp [h1, h2, a, b]

theorem hdown_succ (o : Ops α) (n fuel : Nat) (h : Array (Tok α)) (i : Nat) :
    hdown o n (fuel + 1) h i =
      if 2 * i + 1 ≥ n then h else
      if hless o h (if 2 * i + 1 + 1 < n ∧ hless o h (2 * i + 1 + 1) (2 * i + 1) = true then 2 * i + 1 + 1 else 2 * i + 1) i = true
      then hdown o n fuel (h.swapIfInBounds i (if 2 * i + 1 + 1 < n ∧ hless o h (2 * i + 1 + 1) (2 * i + 1) = true then 2 * i + 1 + 1 else 2 * i + 1))
        (if 2 * i + 1 + 1 < n ∧ hless o h (2 * i + 1 + 1) (2 * i + 1) = true then 2 * i + 1 + 1 else 2 * i + 1)
      else h := by
  simp only [hdown]
  split
  · rfl
  · simp only [Bool.and_eq_true, decide_eq_true_eq]
    split
    · cases hless o h (2 * i + 1 + 1) i <;> simp
    · cases hless o h (2 * i + 1) i <;> simp


def HeapP (o : Ops α) (h : Array (Tok α)) (n lo : Nat) : Prop :=
  ∀ c, 0 < c → c < n → lo ≤ (c - 1) / 2 → tle o (hget o h ((c - 1) / 2)) (hget o h c)

theorem hdown_heap {o : Ops α} (ho : OrdLaws o) (n lo : Nat) : ∀ (fuel : Nat) (h : Array (Tok α)) (i : Nat),
    n ≤ h.size → n ≤ i + fuel → lo ≤ i →
    (∀ c, 0 < c → c < n → lo ≤ (c - 1) / 2 → (c - 1) / 2 ≠ i → tle o (hget o h ((c - 1) / 2)) (hget o h c)) →
    (0 < i → lo ≤ (i - 1) / 2 → ∀ c, 0 < c → c < n → (c - 1) / 2 = i → tle o (hget o h ((i - 1) / 2)) (hget o h c)) →
    HeapP o (hdown o n fuel h i) n lo := by
  intro fuel
  induction fuel with
  | zero =>
    intro h i hn hf hlo hA hB c hc0 hcn hcl
    simp only [hdown]
    by_cases hp : (c - 1) / 2 = i
    · omega
    · exact hA c hc0 hcn hcl hp
  | succ fuel ih =>
    intro h i hn hf hlo hA hB
    rw [hdown_succ]
    by_cases h1 : 2 * i + 1 ≥ n
    · simp only [h1, if_true]
      intro c hc0 hcn hcl
      by_cases hp : (c - 1) / 2 = i
      · omega
      · exact hA c hc0 hcn hcl hp
    · simp only [h1, if_false]
      generalize hj : (if 2 * i + 1 + 1 < n ∧ hless o h (2 * i + 1 + 1) (2 * i + 1) = true then 2 * i + 1 + 1 else 2 * i + 1) = j
      have hjfacts : j < n ∧ (j - 1) / 2 = i ∧ 0 < j ∧
          (∀ c, 0 < c → c < n → (c - 1) / 2 = i → tle o (hget o h j) (hget o h c)) := by
        by_cases hc : 2 * i + 1 + 1 < n ∧ hless o h (2 * i + 1 + 1) (2 * i + 1) = true
        · rw [if_pos hc] at hj; subst hj
          refine ⟨hc.1, by omega, by omega, ?_⟩
          intro c hc0 hcn hcp
          have : c = 2 * i + 1 ∨ c = 2 * i + 1 + 1 := by omega
          rcases this with rfl | rfl
          · exact tle_of_lt ho hc.2
          · exact tle_refl ho _
        · rw [if_neg hc] at hj; subst hj
          refine ⟨by omega, by omega, by omega, ?_⟩
          intro c hc0 hcn hcp
          have : c = 2 * i + 1 ∨ c = 2 * i + 1 + 1 := by omega
          rcases this with rfl | rfl
          · exact tle_refl ho _
          · have : hless o h (2 * i + 1 + 1) (2 * i + 1) = false := by
              cases hl : hless o h (2 * i + 1 + 1) (2 * i + 1) with
              | false => rfl
              | true => exact absurd ⟨hcn, hl⟩ hc
            exact this
      obtain ⟨hjn, hjp, hj0, hjmin⟩ := hjfacts
      by_cases hl : hless o h j i = true
      · simp only [hl, if_true]
        have hin : i < h.size := by omega
        have hjs : j < h.size := by omega
        have hij : ¬ i = j := by omega
        apply ih
        · rw [Array.size_swapIfInBounds]; exact hn
        · omega
        · omega
        · intro c hc0 hcn hcl hcp
          rw [hget_swap o h i j _ hin hjs, hget_swap o h i j _ hin hjs]
          by_cases hpi : (c - 1) / 2 = i
          · have e1 : ¬ (c - 1) / 2 = j := by omega
            simp only [hpi, hij, if_false, if_true]
            by_cases hcj : c = j
            · subst hcj; simp only [if_true]; exact tle_of_lt ho hl
            · have : ¬ c = i := by omega
              simp only [hcj, this, if_false]
              exact hjmin c hc0 hcn hpi
          · have e1 : ¬ (c - 1) / 2 = j := hcp
            simp only [e1, hpi, if_false]
            by_cases hci : c = i
            · subst hci
              have : ¬ c = j := by omega
              simp only [this, if_false, if_true]
              exact hB hc0 hcl j hj0 hjn hjp
            · have : ¬ c = j := by omega
              simp only [this, hci, if_false]
              exact hA c hc0 hcn hcl hpi
        · intro _ _ c hc0 hcn hcp
          rw [hget_swap o h i j _ hin hjs, hget_swap o h i j _ hin hjs]
          have e1 : ¬ (j - 1) / 2 = j := by omega
          have e2 : ¬ c = j := by omega
          have e3 : ¬ c = i := by omega
          simp only [hjp, hij, e2, e3, if_false, if_true]
          have := hA c hc0 hcn (by omega) (by omega)
          rw [hcp] at this; exact this
      · simp only [hl, if_false]
        intro c hc0 hcn hcl
        by_cases hp : (c - 1) / 2 = i
        · rw [hp]
          have h1 : tle o (hget o h i) (hget o h j) := by
            cases hv : hless o h j i with
            | false => exact hv
            | true => exact absurd hv hl
          exact tle_trans ho h1 (hjmin c hc0 hcn hp)
        · exact hA c hc0 hcn hcl hp


theorem hup_succ (o : Ops α) (fuel : Nat) (h : Array (Tok α)) (j : Nat) :
    hup o (fuel + 1) h j =
      if (j - 1) / 2 = j ∨ hless o h j ((j - 1) / 2) = false then h
      else hup o fuel (h.swapIfInBounds ((j - 1) / 2) j) ((j - 1) / 2) := by
  simp only [hup, Bool.or_eq_true, beq_iff_eq, Bool.not_eq_true']

theorem hup_heap {o : Ops α} (ho : OrdLaws o) (n : Nat) : ∀ (fuel : Nat) (h : Array (Tok α)) (j : Nat),
    n ≤ h.size → j < n → j < fuel →
    (∀ c, 0 < c → c < n → c ≠ j → tle o (hget o h ((c - 1) / 2)) (hget o h c)) →
    (0 < j → ∀ c, 0 < c → c < n → (c - 1) / 2 = j → tle o (hget o h ((j - 1) / 2)) (hget o h c)) →
    HeapP o (hup o fuel h j) n 0 := by
  intro fuel
  induction fuel with
  | zero => intro h j _ _ hf; omega
  | succ fuel ih =>
    intro h j hn hjn hf hA hB
    rw [hup_succ]
    by_cases hstop : (j - 1) / 2 = j ∨ hless o h j ((j - 1) / 2) = false
    · simp only [hstop, if_true]
      intro c hc0 hcn _
      by_cases hcj : c = j
      · subst hcj
        rcases hstop with h0 | hl
        · omega
        · exact hl
      · exact hA c hc0 hcn hcj
    · simp only [hstop, if_false]
      have hj0 : 0 < j := by
        rcases Nat.eq_zero_or_pos j with h0 | h0
        · exact absurd (Or.inl (by omega)) hstop
        · exact h0
      have hl : hless o h j ((j - 1) / 2) = true := by
        cases hv : hless o h j ((j - 1) / 2) with
        | true => rfl
        | false => exact absurd (Or.inr hv) hstop
      generalize hi : (j - 1) / 2 = i at hl ⊢
      have hij : i < j := by omega
      have hin : i < h.size := by omega
      have hjs : j < h.size := by omega
      have hne : ¬ i = j := by omega
      have hne' : ¬ j = i := by omega
      have hji : tle o (hget o h j) (hget o h i) := tle_of_lt ho hl
      apply ih
      · rw [Array.size_swapIfInBounds]; exact hn
      · omega
      · omega
      · intro c hc0 hcn hci
        rw [hget_swap o h i j _ hin hjs, hget_swap o h i j _ hin hjs]
        by_cases hcj : c = j
        · subst hcj
          simp only [hi, hne, if_false, if_true]
          exact hji
        · simp only [hcj, hci, if_false]
          by_cases hp1 : (c - 1) / 2 = j
          · simp only [hp1, if_true]
            have := hB hj0 c hc0 hcn hp1
            rw [hi] at this; exact this
          · by_cases hp2 : (c - 1) / 2 = i
            · simp only [hp2, hne, if_false, if_true]
              have := hA c hc0 hcn hcj
              rw [hp2] at this
              exact tle_trans ho hji this
            · simp only [hp1, hp2, if_false]
              exact hA c hc0 hcn hcj
      · intro hi0 c hc0 hcn hcp
        rw [hget_swap o h i j _ hin hjs, hget_swap o h i j _ hin hjs]
        have e1 : ¬ (i - 1) / 2 = j := by omega
        have e2 : ¬ (i - 1) / 2 = i := by omega
        have e3 : ¬ c = i := by omega
        simp only [e1, e2, e3, if_false]
        have hpi := hA i hi0 (by omega) (by omega)
        by_cases hcj : c = j
        · subst hcj
          simp only [if_true]
          exact hpi
        · simp only [hcj, if_false]
          have := hA c hc0 hcn hcj
          rw [hcp] at this
          exact tle_trans ho hpi this

theorem heap_root_min {o : Ops α} (ho : OrdLaws o) (h : Array (Tok α)) (n : Nat) (hp : HeapP o h n 0) :
    ∀ i, i < n → tle o (hget o h 0) (hget o h i) := by
  intro i
  induction i using Nat.strongRecOn with
  | _ i ih =>
    intro hi
    rcases Nat.eq_zero_or_pos i with h0 | h0
    · subst h0; exact tle_refl ho _
    · exact tle_trans ho (ih ((i - 1) / 2) (by omega) (by omega)) (hp i h0 hi (Nat.zero_le _))

/-- `down(i, n)` does not touch positions `≥ n` -/
theorem hdown_get_ge (o : Ops α) (n : Nat) : ∀ (fuel : Nat) (h : Array (Tok α)) (i x : Nat),
    n ≤ h.size → n ≤ x → hget o (hdown o n fuel h i) x = hget o h x := by
  intro fuel
  induction fuel with
  | zero => intro h i x _ _; rfl
  | succ fuel ih =>
    intro h i x hn hx
    rw [hdown_succ]
    split
    · rfl
    · rename_i h1
      generalize hj : (if 2 * i + 1 + 1 < n ∧ hless o h (2 * i + 1 + 1) (2 * i + 1) = true then 2 * i + 1 + 1 else 2 * i + 1) = j
      have hjn : j < n ∧ i < j := by
        split at hj <;> omega
      split
      · rw [ih _ _ _ (by rw [Array.size_swapIfInBounds]; exact hn) hx,
          hget_swap o h i j x (by omega) (by omega)]
        have e1 : ¬ x = j := by omega
        have e2 : ¬ x = i := by omega
        simp only [e1, e2, if_false]
      · rfl


theorem hdown_size (o : Ops α) (n fuel : Nat) (h : Array (Tok α)) (i : Nat) :
    (hdown o n fuel h i).size = h.size := (hdown_perm o n fuel h i).size_eq

/-- `heap.Init` establishes the heap order -/
theorem hinit_heap {o : Ops α} (ho : OrdLaws o) (h : Array (Tok α)) :
    HeapP o (hinit o h) h.size 0 := by
  unfold hinit
  simp only
  generalize hn : h.size = n
  have step : ∀ (m : Nat) (h0 : Array (Tok α)), h0.size = n → HeapP o h0 n m →
      HeapP o ((List.range m).reverse.foldl (fun h i => hdown o n n h i) h0) n 0 := by
    intro m
    induction m with
    | zero => intro h0 _ hp; simpa using hp
    | succ m ih =>
      intro h0 hs hp
      rw [List.range_succ, List.reverse_append]
      simp only [List.reverse_cons, List.reverse_nil, List.nil_append, List.cons_append, List.foldl_cons]
      apply ih
      · rw [hdown_size]; exact hs
      · apply hdown_heap ho n m n h0 m (by omega) (by omega) (Nat.le_refl _)
        · intro c hc0 hcn hcl hne
          exact hp c hc0 hcn (by omega)
        · intro hm0 hml; omega
  apply step (n / 2) h hn
  intro c hc0 hcn hcl
  omega

theorem hget_mem (o : Ops α) (h : Array (Tok α)) (i : Nat) (hi : i < h.size) : hget o h i ∈ h.toList := by
  simp only [hget, Array.getElem?_eq_getElem hi, Option.getD_some]
  exact Array.mem_toList_iff.2 (Array.getElem_mem hi)

theorem mem_hget (o : Ops α) (h : Array (Tok α)) (y : Tok α) (hy : y ∈ h.toList) :
    ∃ i, i < h.size ∧ y = hget o h i := by
  obtain ⟨i, hi, rfl⟩ := Array.mem_iff_getElem.1 (Array.mem_toList_iff.1 hy)
  exact ⟨i, hi, by simp [hget, Array.getElem?_eq_getElem hi]⟩

/-- `heap.Pop` on a heap: returns the root (a minimum), leaves a heap with the other elements -/
theorem hpop_heap {o : Ops α} (ho : OrdLaws o) (h : Array (Tok α)) (hs : 0 < h.size)
    (hp : HeapP o h h.size 0) :
    (hpop o h).1 = hget o h 0 ∧ (hpop o h).2.size = h.size - 1 ∧
    HeapP o (hpop o h).2 (h.size - 1) 0 ∧ ((hpop o h).1 :: (hpop o h).2.toList).Perm h.toList := by
  unfold hpop
  simp only
  generalize hn : h.size - 1 = n
  have hnl : n < h.size := by omega
  generalize hh1 : h.swapIfInBounds 0 n = h1
  have h1s : h1.size = h.size := by rw [← hh1, Array.size_swapIfInBounds]
  have h1get : ∀ x, hget o h1 x = if x = n then hget o h 0 else if x = 0 then hget o h n else hget o h x := by
    intro x; rw [← hh1]; exact hget_swap o h 0 n x hs hnl
  generalize hh2 : hdown o n n h1 0 = h2
  have h2s : h2.size = h.size := by rw [← hh2, hdown_size, h1s]
  have h2p : h2.Perm h := by
    rw [← hh2, ← hh1]; exact (hdown_perm _ _ _ _ _).trans (swapIfInBounds_perm _ _ _)
  have hx : hget o h2 n = hget o h 0 := by
    rw [← hh2, hdown_get_ge o n n h1 0 n (by omega) (Nat.le_refl _), h1get]; simp
  have hheap : HeapP o h2 n 0 := by
    rw [← hh2]
    apply hdown_heap ho n 0 n h1 0 (by omega) (by omega) (Nat.le_refl _)
    · intro c hc0 hcn _ hne
      rw [h1get, h1get]
      have e1 : ¬ (c - 1) / 2 = n := by omega
      have e2 : ¬ c = n := by omega
      have e3 : ¬ c = 0 := by omega
      simp only [e1, hne, e2, e3, if_false]
      exact hp c hc0 (by omega) (Nat.zero_le _)
    · intro h0; omega
  refine ⟨hx, by simp [h2s, hn], ?_, ?_⟩
  · intro c hc0 hcn hcl
    have e : ∀ x, x < n → hget o h2.pop x = hget o h2 x := by
      intro x hxn
      simp only [hget]
      rw [Array.getElem?_pop]
      have : x < h2.size - 1 := by omega
      simp [this]
    rw [e _ (by omega), e _ hcn]
    exact hheap c hc0 hcn hcl
  · have hl : h2.toList = h2.pop.toList ++ [hget o h2 n] := by
      have hlt : n < h2.size := by omega
      have : hget o h2 n = h2[n] := by simp [hget, Array.getElem?_eq_getElem hlt]
      rw [this]
      have hne : h2.toList ≠ [] := by
        intro e
        have hlen : h2.toList.length = h2.size := Array.length_toList
        rw [e] at hlen
        simp only [List.length_nil] at hlen
        omega
      have hg : h2.toList.getLast hne = h2[n] := by
        rw [List.getLast_eq_getElem]
        simp only [Array.length_toList, Array.getElem_toList]
        congr 1; omega
      rw [Array.toList_pop, ← hg]
      exact (List.dropLast_concat_getLast hne).symm
    have h2l : h2.toList.Perm h.toList := Array.perm_iff_toList_perm.1 h2p
    rw [hl] at h2l
    exact (List.perm_append_comm (l₁ := [hget o h2 n]) (l₂ := h2.pop.toList)).trans h2l


theorem hget_push_lt (o : Ops α) (h : Array (Tok α)) (x : Tok α) (i : Nat) (hi : i < h.size) :
    hget o (h.push x) i = hget o h i := by
  simp only [hget]
  rw [Array.getElem?_push]
  have : ¬ i = h.size := by omega
  simp [this]

/-- `heap.Push` on a heap gives a heap with one more element -/
theorem hpush_heap {o : Ops α} (ho : OrdLaws o) (h : Array (Tok α)) (x : Tok α)
    (hp : HeapP o h h.size 0) :
    (hpush o h x).size = h.size + 1 ∧ HeapP o (hpush o h x) (h.size + 1) 0 ∧
    (hpush o h x).toList.Perm (x :: h.toList) := by
  refine ⟨(hpush_spec o h x).1, ?_, ?_⟩
  · unfold hpush
    simp only
    have hsz : (h.push x).size = h.size + 1 := by simp
    rw [hsz]
    apply hup_heap ho (h.size + 1) (h.size + 1) (h.push x) (h.size + 1 - 1) (by omega) (by omega) (by omega)
    · intro c hc0 hcn hne
      rw [hget_push_lt o h x _ (by omega), hget_push_lt o h x _ (by omega)]
      exact hp c hc0 (by omega) (Nat.zero_le _)
    · intro hj0 c hc0 hcn hcp
      omega
  · unfold hpush
    simp only
    have := Array.perm_iff_toList_perm.1 (hup_perm o (h.push x).size (h.push x) ((h.push x).size - 1))
    refine this.trans ?_
    simp only [Array.toList_push]
    exact List.perm_append_singleton _ _

/-- popping everything from a heap yields its elements in ascending order -/
theorem hpopAll_spec {o : Ops α} (ho : OrdLaws o) : ∀ (n : Nat) (h : Array (Tok α)), h.size = n →
    HeapP o h n 0 →
    (hpopAll o n h).Perm h.toList ∧ (hpopAll o n h).Pairwise (fun a b => tle o a b) := by
  intro n
  induction n with
  | zero =>
    intro h hs _
    have : h.toList = [] := by
      apply List.eq_nil_of_length_eq_zero
      rw [Array.length_toList]; exact hs
    simp [hpopAll, this]
  | succ n ih =>
    intro h hs hp
    obtain ⟨hx, hsz, hheap, hperm⟩ := hpop_heap ho h (by omega) (by rw [hs]; exact hp)
    have hn : h.size - 1 = n := by omega
    rw [hn] at hsz hheap
    obtain ⟨ip, iw⟩ := ih (hpop o h).2 hsz hheap
    simp only [hpopAll]
    refine ⟨(List.Perm.cons _ ip).trans hperm, ?_⟩
    rw [List.pairwise_cons]
    refine ⟨?_, iw⟩
    intro y hy
    have hy1 : y ∈ (hpop o h).2.toList := ip.mem_iff.1 hy
    have hy2 : y ∈ h.toList := hperm.mem_iff.1 (List.mem_cons_of_mem _ hy1)
    obtain ⟨i, hi, rfl⟩ := mem_hget o h y hy2
    rw [hx]
    exact heap_root_min ho h (n + 1) hp i (by omega)

theorem topKHeap_loop {o : Ops α} (ho : OrdLaws o) (k : Nat) (hk : 0 < k) :
    ∀ (todo : List (Tok α)) (h : Array (Tok α)) (rest done : List (Tok α)),
    h.size = k → HeapP o h k 0 → (h.toList ++ rest).Perm done →
    (∀ x ∈ rest, ∀ y ∈ h.toList, tle o x y) →
    ∃ rest', (todo.foldl (fun h t => if o.lt (hget o h 0).val t.val then hpush o (hpop o h).2 t else h) h).size = k ∧
      HeapP o (todo.foldl (fun h t => if o.lt (hget o h 0).val t.val then hpush o (hpop o h).2 t else h) h) k 0 ∧
      ((todo.foldl (fun h t => if o.lt (hget o h 0).val t.val then hpush o (hpop o h).2 t else h) h).toList ++ rest').Perm (done ++ todo) ∧
      (∀ x ∈ rest', ∀ y ∈ (todo.foldl (fun h t => if o.lt (hget o h 0).val t.val then hpush o (hpop o h).2 t else h) h).toList, tle o x y) := by
  intro todo
  induction todo with
  | nil => intro h rest done hs hp hperm hdom; exact ⟨rest, hs, hp, by simpa using hperm, hdom⟩
  | cons t todo ih =>
    intro h rest done hs hp hperm hdom
    simp only [List.foldl_cons]
    have hmin : ∀ y ∈ h.toList, tle o (hget o h 0) y := by
      intro y hy
      obtain ⟨i, hi, rfl⟩ := mem_hget o h y hy
      exact heap_root_min ho h k hp i (by omega)
    have hassoc : done ++ t :: todo = (done ++ [t]) ++ todo := by simp
    rw [hassoc]
    by_cases hlt : o.lt (hget o h 0).val t.val = true
    · simp only [hlt, if_true]
      obtain ⟨hx, hsz, hheap, hpp⟩ := hpop_heap ho h (by omega) (by rw [hs]; exact hp)
      have hk1 : h.size - 1 = k - 1 := by omega
      obtain ⟨psz, pheap, pperm⟩ := hpush_heap ho (hpop o h).2 t (by rw [hsz]; exact hheap)
      rw [hsz] at psz pheap
      have hk2 : h.size - 1 + 1 = k := by omega
      rw [hk2] at psz pheap
      rw [hx] at hpp
      have hmt : tle o (hget o h 0) t := tle_of_lt ho hlt
      apply ih _ (hget o h 0 :: rest) (done ++ [t]) psz pheap
      · -- permutation
        have p1 : ((hpush o (hpop o h).2 t).toList ++ hget o h 0 :: rest).Perm
            ((t :: (hpop o h).2.toList) ++ hget o h 0 :: rest) := List.Perm.append_right _ pperm
        have p2 : ((hpop o h).2.toList ++ hget o h 0 :: rest).Perm (hget o h 0 :: ((hpop o h).2.toList ++ rest)) :=
          List.perm_middle
        have p3 : (hget o h 0 :: ((hpop o h).2.toList ++ rest)).Perm (h.toList ++ rest) := by
          have := List.Perm.append_right rest hpp
          simpa using this
        have p4 : (t :: done).Perm (done ++ [t]) := (List.perm_append_singleton t done).symm
        exact p1.trans ((List.Perm.cons t (p2.trans (p3.trans hperm))).trans p4)
      · intro x hx' y hy
        have hy' : y = t ∨ y ∈ (hpop o h).2.toList := by
          have := pperm.mem_iff.1 hy
          simpa using this
        have hsub : ∀ z ∈ (hpop o h).2.toList, z ∈ h.toList := fun z hz =>
          hpp.mem_iff.1 (List.mem_cons_of_mem _ hz)
        rcases List.mem_cons.1 hx' with rfl | hxr
        · rcases hy' with rfl | hy'
          · exact hmt
          · exact hmin y (hsub y hy')
        · rcases hy' with rfl | hy'
          · exact tle_trans ho (hdom x hxr _ (hget_mem o h 0 (by omega))) hmt
          · exact hdom x hxr y (hsub y hy')
    · have hlf : o.lt (hget o h 0).val t.val = false := by
        cases hv : o.lt (hget o h 0).val t.val with
        | false => rfl
        | true => exact absurd hv hlt
      simp only [hlf, Bool.false_eq_true, if_false]
      apply ih h (t :: rest) (done ++ [t]) hs hp
      · have p2 : (h.toList ++ t :: rest).Perm (t :: (h.toList ++ rest)) := List.perm_middle
        exact p2.trans ((List.Perm.cons t hperm).trans (List.perm_append_singleton t done).symm)
      · intro x hx' y hy
        rcases List.mem_cons.1 hx' with rfl | hxr
        · exact tle_trans ho hlf (hmin y hy)
        · exact hdom x hxr y hy

/-- **the heap branch of `topK` is a correct top-k**: the `k` largest tokens, in descending order -/
theorem topKHeap_isTopK {o : Ops α} (ho : OrdLaws o) (k : Nat) (ts : List (Tok α)) (hk0 : 0 < k)
    (hk : k < ts.length) : IsTopK o (k : Int) ts (topKHeap o k ts) := by
  have hlen := (topKHeap_mem o k ts hk0 (by omega)).1
  unfold topKHeap at hlen ⊢
  simp only at hlen ⊢
  have h0s : (hinit o (ts.take k).toArray).size = k := by
    rw [(hinit_perm o (ts.take k).toArray).size_eq]; simp; omega
  have h0h : HeapP o (hinit o (ts.take k).toArray) k 0 := by
    have := hinit_heap ho (ts.take k).toArray
    have e : (ts.take k).toArray.size = k := by simp; omega
    rw [e] at this; exact this
  have h0p : ((hinit o (ts.take k).toArray).toList ++ []).Perm (ts.take k) := by
    have := Array.perm_iff_toList_perm.1 (hinit_perm o (ts.take k).toArray)
    simpa using this
  obtain ⟨rest, fs, fh, fp, fd⟩ := topKHeap_loop ho k hk0 (ts.drop k) _ [] (ts.take k) h0s h0h h0p
    (by intro x hx; cases hx)
  rw [List.take_append_drop] at fp
  obtain ⟨pp, pw⟩ := hpopAll_spec ho k _ fs fh
  refine ⟨?_, ?_, rest, ?_, ?_⟩
  · rw [hlen]
    have : ¬ ((k : Int) ≥ (ts.length : Int) ∨ (k : Int) ≤ 0) := by omega
    simp only [this, if_false]
    omega
  · rw [List.pairwise_reverse]
    exact pw
  · exact (List.Perm.append_right rest ((List.reverse_perm _).trans pp)).trans fp
  · intro x hx y hy
    rw [List.mem_reverse] at hy
    exact fd x hx y (pp.mem_iff.1 hy)

/-- **`topK` as implemented is a correct top-k on BOTH branches, for every `k`** -/
theorem topK_isTopK_all {o : Ops α} (ho : OrdLaws o) (k : Int) (ts : List (Tok α)) :
    IsTopK o k ts (topK o k ts) := by
  by_cases hk : k ≥ (ts.length : Int) ∨ k ≤ 0
  · rw [topK_sort_branch o k ts hk]; exact topKSpec_isTopK ho k ts
  · simp only [topK, hk, if_false]
    have h1 : 0 < k.toNat := by omega
    have h2 : k.toNat < ts.length := by omega
    have := topKHeap_isTopK ho k.toNat ts h1 h2
    have e : (k.toNat : Int) = k := by omega
    rw [e] at this; exact this

end OllamaVerif.Sampler
