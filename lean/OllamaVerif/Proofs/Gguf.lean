/-
  Helper lemmas for the GGUF model (C05 / C10).
-/
import OllamaVerif.Model.Gguf

namespace OllamaVerif.Gguf
open OllamaVerif

theorem padding_aligned (off align : Nat) (h : 0 < align) : (off + padding off align) % align = 0 := by
  unfold padding
  have h1 : off % align < align := Nat.mod_lt _ h
  by_cases h0 : off % align = 0
  · simp [h0, Nat.mod_self]
  · have h2 : (align - off % align) % align = align - off % align := Nat.mod_eq_of_lt (by omega)
    rw [h2]
    have h3 : off = align * (off / align) + off % align := (Nat.div_add_mod off align).symm
    have h4 : off + (align - off % align) = align * (off / align + 1) := by
      rw [Nat.mul_add]; omega
    rw [h4]; exact Nat.mul_mod_right _ _

theorem padding_of_aligned (off align : Nat) (h : off % align = 0) : padding off align = 0 := by
  unfold padding; rw [h]; simp

theorem padding_lt (off align : Nat) (h : 0 < align) : padding off align < align := by
  unfold padding; exact Nat.mod_lt _ h

/-- adding an aligned base does not change the padding -/
theorem padding_add_base (base off align : Nat) (hb : base % align = 0) :
    padding (base + off) align = padding off align := by
  unfold padding
  have : (base + off) % align = off % align := by
    rw [Nat.add_mod, hb, Nat.zero_add, Nat.mod_mod]
  rw [this]

end OllamaVerif.Gguf

namespace OllamaVerif.Gguf
open OllamaVerif

/-- under the input guard (key absent or a uint32) the lenient writer lays the file out with that alignment -/
theorem writerAlignment_lenient (kvs : List (Bytes × KVal)) (a : Nat) (h : alignmentIn kvs = .ok a) :
    writerAlignment false kvs = .ok a := by
  unfold alignmentIn at h
  unfold writerAlignment
  cases hf : ((kvs.find? (fun p => p.1 = keyAlignment)).map (·.2) : Option KVal) with
  | none => rw [hf] at h; exact h
  | some v =>
    rw [hf] at h
    cases v <;> simp_all

/-- the repaired writer only goes on when the input guard holds with a non-zero alignment -/
theorem writerAlignment_strict (kvs : List (Bytes × KVal)) (a : Nat) (h : writerAlignment true kvs = .ok a) :
    alignmentIn kvs = .ok a ∧ 0 < a := by
  unfold writerAlignment at h
  unfold alignmentIn
  cases hf : ((kvs.find? (fun p => p.1 = keyAlignment)).map (·.2) : Option KVal) with
  | none => rw [hf] at h; simp only [] at h ⊢; injection h with h; subst h; exact ⟨rfl, by decide⟩
  | some v =>
    rw [hf] at h
    cases v with
    | u32 n =>
      simp only [true_and] at h ⊢
      split at h
      · cases h
      · injection h with h; subst h; exact ⟨rfl, by omega⟩
    | f32 _ => simp at h
    | bool _ => simp at h
    | str _ => simp at h
    | ai32 _ => simp at h
    | au32 _ => simp at h
    | af32 _ => simp at h
    | astr _ => simp at h

/-- what the repaired writer writes is what the lenient one writes, and its input meets the guard -/
theorem encode_strict (kvs : List (Bytes × KVal)) (ts : List TIn) (file : Bytes)
    (h : encode false kvs ts true = .ok file) :
    ∃ align, alignmentIn kvs = .ok align ∧ 0 < align ∧ encode false kvs ts false = .ok file := by
  unfold encode at h
  cases ha : writerAlignment true kvs with
  | error e => rw [ha] at h; simp [bind, Except.bind] at h
  | ok a =>
    obtain ⟨h1, h2⟩ := writerAlignment_strict kvs a ha
    refine ⟨a, h1, h2, ?_⟩
    rw [ha] at h
    unfold encode
    rw [writerAlignment_lenient kvs a h1]
    exact h

/-- `slice bs off len` = the `len` bytes of `bs` starting at `off` -/
def slice (bs : Bytes) (off len : Nat) : Bytes := (bs.drop off).take len

/-- writer-side well-formedness: the tensor's WriterTo writes exactly `Size()` bytes -/
def WfT (t : TIn) : Prop := t.data.length = tensorSize t.kind t.shape

theorem offsets_length (p : Bool) (align : Nat) (ts : List TIn) (s : Nat) :
    (offsets p align ts s).length = ts.length := by
  induction ts generalizing s with
  | nil => simp [offsets]
  | cons t ts ih => simp [offsets, ih]

theorem offsets_ge (align : Nat) (ts : List TIn) (s : Nat) :
    ∀ o ∈ offsets false align ts s, s ≤ o := by
  induction ts generalizing s with
  | nil => simp [offsets]
  | cons t ts ih =>
    intro o ho
    simp only [offsets, List.mem_cons] at ho
    rcases ho with rfl | ho
    · omega
    · have := ih _ o ho
      simp at this
      omega

theorem offsets_aligned (align : Nat) (ha : 0 < align) (ts : List TIn) (s : Nat) :
    ∀ o ∈ offsets false align ts s, o % align = 0 := by
  induction ts generalizing s with
  | nil => simp [offsets]
  | cons t ts ih =>
    intro o ho
    simp only [offsets, List.mem_cons] at ho
    rcases ho with rfl | ho
    · exact padding_aligned s align ha
    · exact ih _ o ho

theorem slice_append_right (a b : Bytes) (off len : Nat) (h : a.length ≤ off) :
    slice (a ++ b) off len = slice b (off - a.length) len := by
  unfold slice
  rw [List.drop_append, List.drop_eq_nil_of_le h, List.nil_append]

theorem slice_prefix (a b : Bytes) : slice (a ++ b) 0 a.length = a := by
  unfold slice; simp

/-- Core placement lemma: with absolute write position `P` and logical accumulator `s` related
    by `P + padding P = base + (s + padding s)` (true at the start of the data section and
    re-established after every tensor), each tensor's bytes lie at `base + declared offset`. -/
theorem encData_slice (align base : Nat) (hb : base % align = 0) :
    ∀ (ts : List TIn) (P s : Nat),
      P + padding P align = base + (s + padding s align) →
      (∀ t ∈ ts, WfT t) →
      ∀ t o, (t, o) ∈ ts.zip (offsets false align ts s) →
        P ≤ base + o ∧ slice (encData align ts P) (base + o - P) t.data.length = t.data := by
  intro ts
  induction ts with
  | nil => intro P s _ _ t o h; simp [offsets] at h
  | cons t0 ts ih =>
    intro P s hP hwf t o hmem
    simp only [offsets, List.zip_cons_cons, List.mem_cons] at hmem
    have hsz : t0.data.length = tensorSize t0.kind t0.shape := hwf t0 (by simp)
    rcases hmem with heq | hmem
    · -- the head tensor
      obtain ⟨rfl, rfl⟩ := Prod.mk.inj heq
      refine ⟨by omega, ?_⟩
      have hidx : base + (s + padding s align) - P = padding P align := by omega
      simp only [encData]
      rw [hidx]
      have : (List.replicate (padding P align) (0 : UInt8) ++ t.data ++ encData align ts (P + padding P align + t.data.length))
          = List.replicate (padding P align) 0 ++ (t.data ++ encData align ts (P + padding P align + t.data.length)) := by
        simp [List.append_assoc]
      rw [this, slice_append_right _ _ _ _ (by simp)]
      simp only [List.length_replicate, Nat.sub_self]
      exact slice_prefix _ _
    · -- a later tensor
      simp only [Bool.false_eq_true, ↓reduceIte] at hmem
      have hge := offsets_ge align ts _ o (List.of_mem_zip hmem).2
      let P' := P + padding P align + t0.data.length
      have hP' : P' = base + (s + padding s align + tensorSize t0.kind t0.shape) := by
        simp only [P']; omega
      have hinv : P' + padding P' align
          = base + ((s + padding s align + tensorSize t0.kind t0.shape)
              + padding (s + padding s align + tensorSize t0.kind t0.shape) align) := by
        rw [hP', padding_add_base base _ align hb]; omega
      have := ih P' _ hinv (fun t ht => hwf t (by simp [ht])) t o hmem
      obtain ⟨hle, hsl⟩ := this
      refine ⟨by omega, ?_⟩
      simp only [encData]
      have hlen : (List.replicate (padding P align) (0 : UInt8) ++ t0.data).length ≤ base + o - P := by
        simp only [List.length_append, List.length_replicate]; omega
      rw [slice_append_right _ _ _ _ hlen]
      have : base + o - P - (List.replicate (padding P align) (0 : UInt8) ++ t0.data).length = base + o - P' := by
        simp only [List.length_append, List.length_replicate, P']; omega
      rw [this]; exact hsl

end OllamaVerif.Gguf
