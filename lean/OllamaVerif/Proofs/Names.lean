/-
  Helper lemmas for C13 (names, digests, store paths).  Core Lean only.
-/
import OllamaVerif.Model.Names

namespace OllamaVerif.Names
open OllamaVerif

/-! ## character classes -/

theorem isAlnumU_restOk (k : Kind) (c : UInt8) (h : isAlnumU c = true) : restOk k c = true := by
  unfold restOk
  split
  · rfl
  · split
    · rename_i h46
      have : c = 46 := by simpa using h46
      subst this; exact absurd h (by decide)
    · split
      · rename_i h58
        have : c = 58 := by simpa using h58
        subst this; exact absurd h (by decide)
      · exact h

/-- bytes a path component must never contain, and the separators of the name grammar -/
def badByte (c : UInt8) : Bool := c == 47 || c == 92 || c == 0 || c == 64

theorem restOk_not_bad (k : Kind) (c : UInt8) (h : restOk k c = true) : badByte c = false := by
  cases hb : badByte c with
  | false => rfl
  | true =>
    exfalso
    simp only [badByte, Bool.or_eq_true, beq_iff_eq] at hb
    rcases hb with ((hb | hb) | hb) | hb <;> (subst hb; revert h; cases k <;> decide)

theorem restOk_not_colon (k : Kind) (c : UInt8) (hk : k ≠ .host) (hk' : k ≠ .digest)
    (h : restOk k c = true) : c ≠ 58 := by
  intro e; subst e; revert h; cases k <;> simp_all [restOk] <;> decide

theorem isAlnumU_not_dot (c : UInt8) (h : isAlnumU c = true) : c ≠ 46 := by
  intro e; subst e; exact absurd h (by decide)

theorem charsOk_all (k : Kind) (s : Bytes) (h : charsOk k s = true) : ∀ c ∈ s, restOk k c = true := by
  cases s with
  | nil => intro c hc; cases hc
  | cons x xs =>
    simp only [charsOk, Bool.and_eq_true, List.all_eq_true] at h
    intro c hc
    rcases List.mem_cons.mp hc with rfl | hc
    · exact isAlnumU_restOk k _ h.1
    · exact h.2 c hc

theorem charsOk_head (k : Kind) (x : UInt8) (xs : Bytes) (h : charsOk k (x :: xs) = true) :
    isAlnumU x = true := by
  simp only [charsOk, Bool.and_eq_true] at h; exact h.1

/-- a safe path component: non-empty, not `.` or `..`, and free of `/`, `\`, NUL (and `@`) -/
def SafeComp (s : Bytes) : Prop :=
  s ≠ [] ∧ s ≠ sDot ∧ s ≠ sDotDot ∧ (∀ c ∈ s, badByte c = false) ∧ s.head? ≠ some cDot

theorem SafeComp.noSlash {s : Bytes} (h : SafeComp s) : ∀ c ∈ s, c ≠ cSlash := by
  intro c hc e
  have := h.2.2.2.1 c hc
  subst e; revert this; decide

theorem charsOk_safe (k : Kind) (s : Bytes) (hne : s ≠ []) (h : charsOk k s = true) : SafeComp s := by
  cases s with
  | nil => exact absurd rfl hne
  | cons x xs =>
    have hx := charsOk_head k x xs h
    have hdot : x ≠ 46 := isAlnumU_not_dot x hx
    refine ⟨hne, ?_, ?_, ?_, ?_⟩
    · intro e; simp only [sDot, List.cons.injEq] at e; exact hdot e.1
    · intro e; simp only [sDotDot, List.cons.injEq] at e; exact hdot e.1
    · intro c hc; exact restOk_not_bad k c (charsOk_all k _ h c hc)
    · simp only [List.head?, cDot, ne_eq, Option.some.injEq]; exact hdot

theorem validPartM_ne_nil {k : Kind} {s : Bytes} (h : validPartM k s = true) : s ≠ [] := by
  intro e; subst e; simp [validPartM] at h

theorem validPartM_charsOk {k : Kind} {s : Bytes} (h : validPartM k s = true) : charsOk k s = true := by
  simp only [validPartM, Bool.and_eq_true] at h; exact h.2

theorem validPartM_len {k : Kind} {s : Bytes} (h : validPartM k s = true) : s.length ≤ maxLen k := by
  simp only [validPartM, Bool.and_eq_true, decide_eq_true_eq] at h; exact h.1.2

theorem validPartM_safe {k : Kind} {s : Bytes} (h : validPartM k s = true) : SafeComp s :=
  charsOk_safe k s (validPartM_ne_nil h) (validPartM_charsOk h)

theorem validPartN_safe {k : Kind} {s : Bytes} (hne : s ≠ []) (h : validPartN k s = true) : SafeComp s := by
  simp only [validPartN, Bool.and_eq_true] at h
  exact charsOk_safe k s hne h.2

theorem validPartM_iff_N {k : Kind} {s : Bytes} (hne : s ≠ []) : validPartM k s = validPartN k s := by
  cases s with
  | nil => exact absurd rfl hne
  | cons x xs => simp [validPartM, validPartN]

theorem validPart_noColon {k : Kind} {s : Bytes} (hk : k ≠ .host) (hk' : k ≠ .digest)
    (h : charsOk k s = true) : ∀ c ∈ s, c ≠ cColon := by
  intro c hc
  exact restOk_not_colon k c hk hk' (charsOk_all k s h c hc)

/-! ## splitting -/

theorem splitLast_none (p : UInt8 → Bool) (s : Bytes) (h : ∀ c ∈ s, p c = false) :
    splitLast p s = none := by
  induction s with
  | nil => rfl
  | cons x xs ih =>
    simp only [splitLast, ih (fun c hc => h c (List.mem_cons_of_mem _ hc)), h x List.mem_cons_self]
    rfl

theorem splitLast_append (p : UInt8 → Bool) (b a : Bytes) (c : UInt8) (hc : p c = true)
    (ha : ∀ x ∈ a, p x = false) : splitLast p (b ++ c :: a) = some (b, a, c) := by
  induction b with
  | nil => simp [splitLast, splitLast_none p a ha, hc]
  | cons x xs ih => simp [splitLast, ih]

theorem splitFirst_append (p : UInt8 → Bool) (b a : Bytes) (c : UInt8) (hc : p c = true)
    (hb : ∀ x ∈ b, p x = false) : splitFirst p (b ++ c :: a) = some (b, a, c) := by
  induction b with
  | nil => simp [splitFirst, hc]
  | cons x xs ih =>
    have hx : p x = false := hb x List.mem_cons_self
    simp [splitFirst, hx, ih (fun y hy => hb y (List.mem_cons_of_mem _ hy))]

theorem splitFirst_none (p : UInt8 → Bool) (s : Bytes) (h : ∀ c ∈ s, p c = false) :
    splitFirst p s = none := by
  induction s with
  | nil => rfl
  | cons x xs ih =>
    simp [splitFirst, ih (fun c hc => h c (List.mem_cons_of_mem _ hc)), h x List.mem_cons_self]

theorem cutScheme_none (s : Bytes) (h : ∀ c ∈ s, c ≠ cSlash) : cutScheme s = none := by
  induction s with
  | nil => rfl
  | cons x xs ih =>
    have ih' := ih (fun c hc => h c (List.mem_cons_of_mem _ hc))
    have hx : (xs.take 2 == [47, 47]) = false := by
      cases xs with
      | nil => rfl
      | cons y ys =>
        have hy : y ≠ 47 := h y (List.mem_cons_of_mem _ List.mem_cons_self)
        cases ys with
        | nil => simp [hy]
        | cons z zs => simp [hy]
    simp [cutScheme, hx, ih']

theorem splitOn_noSep (c : UInt8) (s : Bytes) (h : ∀ x ∈ s, x ≠ c) : splitOn c s = [s] := by
  induction s with
  | nil => rfl
  | cons x xs ih =>
    have hx : (x == c) = false := by simpa using h x List.mem_cons_self
    simp [splitOn, hx, ih (fun y hy => h y (List.mem_cons_of_mem _ hy))]

theorem splitOn_append (c : UInt8) (a rest : Bytes) (h : ∀ x ∈ a, x ≠ c) :
    splitOn c (a ++ c :: rest) = a :: splitOn c rest := by
  induction a with
  | nil => simp [splitOn]
  | cons x xs ih =>
    have hx : (x == c) = false := by simpa using h x List.mem_cons_self
    simp [splitOn, hx, ih (fun y hy => h y (List.mem_cons_of_mem _ hy))]

theorem splitOn_ne_nil (c : UInt8) (s : Bytes) : splitOn c s ≠ [] := by
  induction s with
  | nil => simp [splitOn]
  | cons x xs ih =>
    simp only [splitOn]
    split
    · simp
    · split <;> simp

/-- `strings.Split` is the inverse of `strings.Join` when no piece contains the separator -/
theorem splitOn_joinWith (c : UInt8) (parts : List Bytes) (hne : parts ≠ [])
    (h : ∀ p ∈ parts, ∀ x ∈ p, x ≠ c) : splitOn c (joinWith c parts) = parts := by
  induction parts with
  | nil => exact absurd rfl hne
  | cons a rest ih =>
    cases rest with
    | nil => simpa [joinWith] using splitOn_noSep c a (h a List.mem_cons_self)
    | cons b rest' =>
      simp only [joinWith]
      rw [splitOn_append c a _ (h a List.mem_cons_self)]
      rw [ih (by simp) (fun p hp => h p (List.mem_cons_of_mem _ hp))]

theorem joinWith_append (c : UInt8) (l1 l2 : List Bytes) (h1 : l1 ≠ []) (h2 : l2 ≠ []) :
    joinWith c (l1 ++ l2) = joinWith c l1 ++ c :: joinWith c l2 := by
  induction l1 with
  | nil => exact absurd rfl h1
  | cons a rest ih =>
    cases rest with
    | nil =>
      cases l2 with
      | nil => exact absurd rfl h2
      | cons b l2' => simp [joinWith]
    | cons b rest' =>
      have := ih (by simp)
      simp only [List.cons_append, joinWith] at this ⊢
      rw [this]; simp

/-! ## filepath.Clean on clean components -/

/-- what `filepath.Clean` leaves alone: a component that is non-empty, not `.`/`..` and has no `/`.
    (Every directory entry name returned by the OS is one; every `SafeComp` is one.) -/
def CleanComp (s : Bytes) : Prop := s ≠ [] ∧ s ≠ sDot ∧ s ≠ sDotDot ∧ ∀ c ∈ s, c ≠ cSlash

theorem SafeComp.toClean {s : Bytes} (h : SafeComp s) : CleanComp s :=
  ⟨h.1, h.2.1, h.2.2.1, h.noSlash⟩

theorem cleanStep_clean (rooted : Bool) (st : List Bytes) (c : Bytes) (h : CleanComp c) :
    cleanStep rooted st c = c :: st := by
  obtain ⟨h1, h2, h3, _⟩ := h
  simp [cleanStep, h1, h2, h3]

theorem foldl_cleanStep_clean (rooted : Bool) (comps st : List Bytes) (h : ∀ c ∈ comps, CleanComp c) :
    comps.foldl (cleanStep rooted) st = comps.reverse ++ st := by
  induction comps generalizing st with
  | nil => rfl
  | cons c cs ih =>
    simp only [List.foldl_cons, cleanStep_clean rooted st c (h c List.mem_cons_self)]
    rw [ih _ (fun d hd => h d (List.mem_cons_of_mem _ hd))]
    simp

theorem foldl_cleanStep_safe (rooted : Bool) (comps st : List Bytes) (h : ∀ c ∈ comps, SafeComp c) :
    comps.foldl (cleanStep rooted) st = comps.reverse ++ st :=
  foldl_cleanStep_clean rooted comps st (fun c hc => (h c hc).toClean)

/-- an absolute path given by its components -/
def absPath (comps : List Bytes) : Bytes := cSlash :: joinWith cSlash comps

theorem splitOn_absPath' (comps : List Bytes) (hne : comps ≠ []) (h : ∀ c ∈ comps, CleanComp c) :
    splitOn cSlash (absPath comps) = [] :: comps := by
  have := splitOn_append cSlash [] (joinWith cSlash comps) (by simp)
  simp only [List.nil_append] at this
  rw [absPath, this, splitOn_joinWith cSlash comps hne (fun p hp => (h p hp).2.2.2)]

theorem splitOn_absPath (comps : List Bytes) (hne : comps ≠ []) (h : ∀ c ∈ comps, SafeComp c) :
    splitOn cSlash (absPath comps) = [] :: comps :=
  splitOn_absPath' comps hne (fun c hc => (h c hc).toClean)

/-- `filepath.Clean` is the identity on an absolute path whose components are all clean -/
theorem clean_absPath' (comps : List Bytes) (hne : comps ≠ []) (h : ∀ c ∈ comps, CleanComp c) :
    clean (absPath comps) = absPath comps := by
  have hs := splitOn_absPath' comps hne h
  unfold clean
  have h1 : (absPath comps).isEmpty = false := by simp [absPath]
  have h2 : ((absPath comps).head? == some cSlash) = true := by simp [absPath]
  simp only [h1, h2, hs, List.foldl_cons]
  have h3 : cleanStep true [] [] = [] := by simp [cleanStep]
  rw [h3, foldl_cleanStep_clean true comps [] h]
  simp [absPath]

theorem clean_absPath (comps : List Bytes) (hne : comps ≠ []) (h : ∀ c ∈ comps, SafeComp c) :
    clean (absPath comps) = absPath comps :=
  clean_absPath' comps hne (fun c hc => (h c hc).toClean)

/-- `filepath.Clean` is the identity on a relative path whose components are all clean -/
theorem clean_relPath' (comps : List Bytes) (hne : comps ≠ []) (h : ∀ c ∈ comps, CleanComp c) :
    clean (joinWith cSlash comps) = joinWith cSlash comps := by
  have hs := splitOn_joinWith cSlash comps hne (fun p hp => (h p hp).2.2.2)
  obtain ⟨a, rest, rfl⟩ := List.exists_cons_of_ne_nil hne
  have ha := h a List.mem_cons_self
  obtain ⟨x, xs, rfl⟩ := List.exists_cons_of_ne_nil ha.1
  have hx : x ≠ cSlash := ha.2.2.2 x List.mem_cons_self
  have hne' : joinWith cSlash ((x :: xs) :: rest) ≠ [] := by
    cases rest <;> simp [joinWith]
  have hhead : (joinWith cSlash ((x :: xs) :: rest)).head? = some x := by
    cases rest <;> simp [joinWith]
  unfold clean
  have h1 : (joinWith cSlash ((x :: xs) :: rest)).isEmpty = false := by
    simpa [List.isEmpty_iff] using hne'
  have h2 : ((joinWith cSlash ((x :: xs) :: rest)).head? == some cSlash) = false := by
    rw [hhead]; simpa using hx
  simp only [h1, h2, hs]
  rw [foldl_cleanStep_clean false _ [] h]
  simp

theorem clean_relPath (comps : List Bytes) (hne : comps ≠ []) (h : ∀ c ∈ comps, SafeComp c) :
    clean (joinWith cSlash comps) = joinWith cSlash comps :=
  clean_relPath' comps hne (fun c hc => (h c hc).toClean)

/-- `filepath.Join(root, rel)` for an absolute root of clean components `rc` and a relative path of clean
    components: exactly `rc ++ comps`, nothing cleaned away. -/
theorem pathJoin_abs_rel (rc : List Bytes) (hrc : rc ≠ []) (hs : ∀ c ∈ rc, CleanComp c)
    (comps : List Bytes) (hne : comps ≠ []) (hc : ∀ c ∈ comps, CleanComp c) :
    pathJoin [absPath rc, joinWith cSlash comps] = absPath (rc ++ comps) := by
  have hroot : (absPath rc).isEmpty = false := by simp [absPath]
  have hj : joinWith cSlash [absPath rc, joinWith cSlash comps] = absPath (rc ++ comps) := by
    simp only [absPath, joinWith_append cSlash rc comps hrc hne, joinWith]
    simp
  unfold pathJoin
  simp only [List.dropWhile, hroot]
  rw [hj]
  apply clean_absPath' _ (by simp [hrc])
  intro c hcm
  rcases List.mem_append.mp hcm with h | h
  · exact hs c h
  · exact hc c h

end OllamaVerif.Names
