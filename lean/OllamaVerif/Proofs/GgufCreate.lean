/-
  `server/create.go ggufLayers` on top of the decoder model (C10 / C05):

  * every reader function only moves forward in the file (`Adv`), the trailing seek loop does so
    once backward seeks are rejected (`negSeek`), hence a successful `Decode` that started at file
    position p ends at a position > p (`decodeFrom_progress`);
  * therefore the multi-model loop of `ggufLayers` terminates for every byte string
    (`ggufLayers_terminates`: the model's explicit "does not terminate" outcome is unreachable),
    with at most one iteration per 4 bytes of input;
  * it is safe (no panic, no over-budget allocation) for every byte string (`ggufLayers_safe`);
  * every layer it produces lies inside the file (`ggufLayers_within`).
-/
import OllamaVerif.Proofs.GgufSafe

namespace OllamaVerif.Gguf
open OllamaVerif

/-- reader outcome: the position did not move before `p` -/
def Adv {α : Type} (p : Nat) (x : Except Err (α × Rd)) : Prop :=
  match x with
  | .ok (_, r') => p ≤ r'.pos
  | .error _ => True

theorem Adv.bind {α β : Type} {x : Except Err (α × Rd)} {f : α × Rd → Except Err (β × Rd)} {p : Nat}
    (hx : Adv p x) (hf : ∀ a r', p ≤ r'.pos → Adv p (f (a, r'))) : Adv p (x >>= f) := by
  cases x with
  | error e => trivial
  | ok q => obtain ⟨a, r'⟩ := q; exact hf a r' hx

theorem Adv.mono {α : Type} {x : Except Err (α × Rd)} {p q : Nat} (h : Adv q x) (hpq : p ≤ q) : Adv p x := by
  cases x with
  | error e => trivial
  | ok z => obtain ⟨a, r'⟩ := z; exact Nat.le_trans hpq h

theorem Adv.seq_unit {α : Type} {u : Except Err Unit} {y : Except Err (α × Rd)} {p : Nat} (h : Adv p y) :
    Adv p (u >>= fun _ => y) := by
  cases u with
  | error e => trivial
  | ok _ => exact h

theorem readN_adv (k : Nat) (r : Rd) : Adv (r.pos + k) (readN k r) := by
  unfold readN; split
  · simp [Adv]
  · split <;> simp [Adv]

theorem readNCopy_adv (k : Nat) (r : Rd) : Adv (r.pos + k) (readNCopy k r) := by
  unfold readNCopy; split <;> simp [Adv]

theorem readUint_adv (be : Bool) (w : Nat) (r : Rd) : Adv (r.pos + w) (readUint be w r) := by
  unfold readUint
  have := readN_adv w r
  cases h : readN w r with
  | error e => simp [Adv]
  | ok q => obtain ⟨bs, r'⟩ := q; rw [h] at this; simpa [Adv] using this

theorem readUintIn_adv (be : Bool) (w total : Nat) (r : Rd) : Adv (r.pos + w) (readUintIn be w total r) := by
  unfold readUintIn; split
  · exact readUint_adv be w r
  · split <;> simp [Adv]

theorem readStrV1_adv (c : Cfg) (r : Rd) : Adv r.pos (readStrV1 c r) := by
  unfold readStrV1
  refine Adv.bind (Adv.mono (readUint_adv _ _ r) (by omega)) ?_
  intro n r' hr'
  simp only []
  split
  · split <;> simp [Adv]
  · refine Adv.bind (Adv.mono (readNCopy_adv _ r') (by omega)) ?_
    intro bs r'' h; simpa [Adv, pure, Except.pure] using h

theorem readStrV23_adv (c : Cfg) (r : Rd) : Adv r.pos (readStrV23 c r) := by
  unfold readStrV23
  refine Adv.bind (Adv.mono (readUint_adv _ _ r) (by omega)) ?_
  intro n r' hr'
  simp only []
  split
  · split
    · simp [Adv]
    · exact Adv.seq_unit (Adv.mono (readNCopy_adv _ r') (by omega))
  · split
    · split <;> simp [Adv]
    · exact Adv.mono (readN_adv _ r') (by omega)

theorem readStr_adv (c : Cfg) (r : Rd) : Adv r.pos (readStr c r) := by
  unfold readStr; split
  · exact readStrV1_adv c r
  · exact readStrV23_adv c r

theorem discardStr_adv (c : Cfg) (r : Rd) : Adv r.pos (discardStr c r) := by
  unfold discardStr
  refine Adv.bind (Adv.mono (readUint_adv _ _ r) (by omega)) ?_
  intro n r' hr'
  simp only []
  split
  · simpa [Adv, pure, Except.pure] using hr'
  · refine Adv.bind (Adv.mono (readNCopy_adv _ r') (by omega)) ?_
    intro bs r'' h; simpa [Adv, pure, Except.pure] using h

theorem readScalar_adv (c : Cfg) (t w : Nat) (r : Rd) : Adv r.pos (readScalar c t w r) := by
  unfold readScalar
  refine Adv.bind (Adv.mono (readUint_adv _ _ r) (by omega)) ?_
  intro n r' hr'; simpa [Adv, pure, Except.pure] using hr'

theorem readElem_adv (c : Cfg) (t : Nat) (collect : Bool) (r : Rd) : Adv r.pos (readElem c t collect r) := by
  unfold readElem
  split
  · refine Adv.bind (readScalar_adv _ _ _ r) ?_
    intro n r' hr'; simpa [Adv, pure, Except.pure] using hr'
  · split
    · split
      · refine Adv.bind (readStrV1_adv c r) ?_
        intro n r' hr'; simpa [Adv, pure, Except.pure] using hr'
      · split
        · refine Adv.bind (readStrV23_adv c r) ?_
          intro n r' hr'; simpa [Adv, pure, Except.pure] using hr'
        · refine Adv.bind (discardStr_adv c r) ?_
          intro n r' hr'; simpa [Adv, pure, Except.pure] using hr'
    · simp [Adv]

theorem readElems_adv (c : Cfg) (t : Nat) (collect : Bool) :
    ∀ (k : Nat) (r : Rd), Adv r.pos (readElems c t collect k r) := by
  intro k
  induction k with
  | zero => intro r; simp [readElems, Adv]
  | succ k ih =>
    intro r
    unfold readElems
    refine Adv.bind (readElem_adv c t collect r) ?_
    intro e r' hr'
    simp only []
    split
    · simp [Adv]
    · refine Adv.bind (Adv.mono (ih r') hr') ?_
      intro es r'' h; simpa [Adv, pure, Except.pure] using h

theorem readArr_adv (c : Cfg) (r : Rd) : Adv r.pos (readArr c r) := by
  unfold readArr
  refine Adv.bind (Adv.mono (readUint_adv _ _ r) (by omega)) ?_
  intro t r1 h1
  refine Adv.bind (Adv.mono (readUint_adv _ _ r1) (by omega)) ?_
  intro n r2 h2
  simp only []
  split
  · split <;> simp [Adv]
  · have hel : Adv r.pos (readElems c t (decide (c.maxArray < 0) || decide (toI64 n ≤ c.maxArray)) n r2 >>=
        fun x => pure (Val.arr t (toI64 n) (if (decide (c.maxArray < 0) || decide (toI64 n ≤ c.maxArray)) = true then some x.1 else none), x.2)) := by
      refine Adv.bind (Adv.mono (readElems_adv c t _ n r2) h2) ?_
      intro es r3 h3; simpa [Adv, pure, Except.pure] using h3
    split
    · exact Adv.seq_unit hel
    · exact hel

theorem readValue_adv (c : Cfg) (t : Nat) (r : Rd) : Adv r.pos (readValue c t r) := by
  unfold readValue
  split
  · refine Adv.bind (readScalar_adv _ _ _ r) ?_
    intro n r' hr'; simpa [Adv, pure, Except.pure] using hr'
  · split
    · refine Adv.bind (readStr_adv c r) ?_
      intro n r' hr'; simpa [Adv, pure, Except.pure] using hr'
    · split
      · exact readArr_adv c r
      · simp [Adv]

theorem readKVs_adv (c : Cfg) :
    ∀ (k : Nat) (acc : List (Bytes × Val)) (r : Rd), Adv r.pos (readKVs c k acc r) := by
  intro k
  induction k with
  | zero => intro acc r; simp [readKVs, Adv]
  | succ k ih =>
    intro acc r
    unfold readKVs
    refine Adv.bind (readStr_adv c r) ?_
    intro key r1 h1
    refine Adv.bind (Adv.mono (readUint_adv _ _ r1) (by omega)) ?_
    intro t r2 h2
    refine Adv.bind (Adv.mono (readValue_adv c t r2) h2) ?_
    intro v r3 h3
    exact Adv.mono (ih _ r3) h3

theorem readShape_adv (c : Cfg) : ∀ (k : Nat) (r : Rd), Adv r.pos (readShape c k r) := by
  intro k
  induction k with
  | zero => intro r; simp [readShape, Adv]
  | succ k ih =>
    intro r
    unfold readShape
    refine Adv.bind (Adv.mono (readUint_adv _ _ r) (by omega)) ?_
    intro d r1 h1
    refine Adv.bind (Adv.mono (ih r1) h1) ?_
    intro ds r2 h2; simpa [Adv, pure, Except.pure] using h2

theorem readTensor_adv (c : Cfg) (r : Rd) : Adv r.pos (readTensor c r) := by
  unfold readTensor
  refine Adv.bind (readStr_adv c r) ?_
  intro name r1 h1
  refine Adv.bind (Adv.mono (readUint_adv _ _ r1) (by omega)) ?_
  intro dims r2 h2
  simp only []
  split
  · split <;> simp [Adv]
  · refine Adv.seq_unit ?_
    refine Adv.bind (Adv.mono (readShape_adv c dims r2) h2) ?_
    intro shape r3 h3
    refine Adv.bind (Adv.mono (readUint_adv _ _ r3) (by omega)) ?_
    intro kind r4 h4
    refine Adv.bind (Adv.mono (readUint_adv _ _ r4) (by omega)) ?_
    intro off r5 h5; simpa [Adv, pure, Except.pure] using h5

theorem readTensors_adv (c : Cfg) : ∀ (k : Nat) (r : Rd), Adv r.pos (readTensors c k r) := by
  intro k
  induction k with
  | zero => intro r; simp [readTensors, Adv]
  | succ k ih =>
    intro r
    unfold readTensors
    refine Adv.bind (readTensor_adv c r) ?_
    intro t r1 h1
    refine Adv.bind (Adv.mono (ih r1) h1) ?_
    intro ts r2 h2; simpa [Adv, pure, Except.pure] using h2

/-- with backward seeks rejected the trailing seek loop ends at or after the position it started at -/
theorem seekTensors_ge (g : Guards) (hg : g.negSeek = true) (align : Nat) :
    ∀ (ts : List TInfo) (pos e : Nat), seekTensors g align ts pos = .ok e → pos ≤ e := by
  intro ts
  induction ts with
  | nil => intro pos e h; simp [seekTensors] at h; omega
  | cons t ts ih =>
    intro pos e h
    unfold seekTensors at h
    simp only [hg, true_and] at h
    split at h
    · cases h
    · split at h
      · cases h
      · rename_i hneg hrange
        have := ih _ _ h
        omega

/-- outcome of a whole decode: ok with an end offset of at least `p`, or any error -/
def EndGe (p : Nat) (x : Except Err Decoded) : Prop :=
  match x with
  | .ok d => p ≤ d.endOffset
  | .error _ => True

theorem Adv.end_bind {α : Type} {x : Except Err (α × Rd)} {f : α × Rd → Except Err Decoded} {p : Nat}
    (hx : Adv p x) (hf : ∀ a r', p ≤ r'.pos → EndGe p (f (a, r'))) : EndGe p (x >>= f) := by
  cases x with
  | error e => trivial
  | ok q => obtain ⟨a, r'⟩ := q; exact hf a r' hx

theorem decodeBody_end (c : Cfg) (hg : c.g.negSeek = true) (numKV numTensor : Nat) (r : Rd) :
    EndGe r.pos (decodeBody c numKV numTensor r) := by
  unfold decodeBody
  refine Adv.end_bind (readKVs_adv c numKV [] r) ?_
  intro kvs r1 h1
  refine Adv.end_bind (Adv.mono (readTensors_adv c numTensor r1) h1) ?_
  intro ts r2 h2
  simp only []
  cases hal : alignmentOf c.g (kvInsert kvs keyParamCount (Val.scalar 10 (sumParameters ts))) with
  | error e => simp [EndGe, bind, Except.bind]
  | ok align =>
    simp only [bind, Except.bind]
    split
    · split <;> simp [EndGe]
    · cases hse : seekTensors c.g align ts r2.pos with
      | error e => simp [EndGe]
      | ok e =>
        have := seekTensors_ge c.g hg align ts r2.pos e hse
        simp only [EndGe, pure, Except.pure]
        omega

/-- **Progress**: a successful decode that started at file position p ends after p (it read at
    least the 4-byte magic), for every decoder variant that rejects backward seeks. -/
theorem decodeFrom_progress (r : Rd) (maxArraySize : Int) (budget : Option Nat) (g : Guards)
    (hg : g.negSeek = true) (d : Decoded) (h : decodeFrom r maxArraySize budget g = .ok d) :
    r.pos + 4 ≤ d.endOffset := by
  have key : EndGe (r.pos + 4) (decodeFrom r maxArraySize budget g) := by
    unfold decodeFrom
    simp only []
    refine Adv.end_bind (readUint_adv false 4 r) ?_
    intro magic r1 h1
    simp only []
    split
    · trivial
    · refine Adv.end_bind (Adv.mono (readUint_adv _ 4 r1) (by omega)) ?_
      intro version r2 h2
      refine Adv.end_bind (Adv.mono (readUintIn_adv _ _ _ r2) (by omega)) ?_
      intro nT r3 h3
      refine Adv.end_bind (Adv.mono (readUint_adv _ _ r3) (by omega)) ?_
      intro nKV r4 h4
      have := decodeBody_end ⟨decide (magic = magicBE), version, (if maxArraySize = 0 then 1024 else maxArraySize), budget, g⟩ hg nKV nT r4
      cases hb : decodeBody ⟨decide (magic = magicBE), version, (if maxArraySize = 0 then 1024 else maxArraySize), budget, g⟩ nKV nT r4 with
      | error e => trivial
      | ok d' => rw [hb] at this; simp only [EndGe] at this ⊢; omega
  rw [h] at key
  exact key

/-! ### the multi-model loop of `ggufLayers` -/

/-! ### typed accessors never fail once mismatches are treated as missing keys -/

theorem kvString_all (kvs : List (Bytes × Val)) (key dflt : Bytes) : ∃ v, kvString Guards.all kvs key dflt = .ok v := by
  unfold kvString
  split
  · exact ⟨_, rfl⟩
  · exact ⟨_, rfl⟩
  · exact ⟨dflt, by simp [Guards.all]⟩

theorem kvUint_all (kvs : List (Bytes × Val)) (key : Bytes) (dflt : Nat) : ∃ v, kvUint Guards.all kvs key dflt = .ok v := by
  unfold kvUint
  split
  · exact ⟨_, rfl⟩
  · exact ⟨_, rfl⟩
  · exact ⟨dflt, by simp [Guards.all]⟩

theorem mediaType_all (kvs : List (Bytes × Val)) : ∃ m, mediaType Guards.all kvs = .ok m := by
  unfold mediaType kvKind kvArchitecture
  obtain ⟨k, hk⟩ := kvString_all kvs (bytesOf "general.type") (bytesOf "unknown")
  obtain ⟨a, ha⟩ := kvString_all kvs (bytesOf "general.architecture") (bytesOf "unknown")
  simp only [hk, ha, bind, Except.bind, pure, Except.pure]
  split
  · exact ⟨_, rfl⟩
  · split <;> exact ⟨_, rfl⟩

theorem createAccessors_all (kvs : List (Bytes × Val)) : createAccessors Guards.all kvs = .ok () := by
  unfold createAccessors kvArchitecture
  obtain ⟨t, ht⟩ := kvString_all kvs (bytesOf "tokenizer.chat_template") []
  obtain ⟨a, ha⟩ := kvString_all kvs (bytesOf "general.architecture") (bytesOf "unknown")
  obtain ⟨f, hf⟩ := kvUint_all kvs (bytesOf "general.file_type") 0
  simp only [ht, ha, hf, bind, Except.bind, pure, Except.pure]

/-- **Termination of `ggufLayers`' loop**: whenever the fuel covers the bytes still ahead, the
    loop ends by itself (each iteration moves the offset forward by at least 4 bytes). -/
theorem ggufLayersLoop_terminates (bs : Bytes) (budget : Option Nat) (g : Guards) (hg : g.negSeek = true) (maxSeek : Nat) :
    ∀ (fuel offset : Nat) (acc : List GLayer), bs.length ≤ fuel + offset →
      (ggufLayersLoop bs budget g maxSeek fuel offset acc).isSome = true := by
  intro fuel
  induction fuel with
  | zero =>
    intro offset acc h
    unfold ggufLayersLoop
    rw [if_neg (by omega)]
    rfl
  | succ fuel ih =>
    intro offset acc h
    unfold ggufLayersLoop
    split
    · rename_i hlt
      cases hd : decodeFrom ⟨bs.drop offset, offset⟩ 0 budget g with
      | error e => cases e <;> rfl
      | ok d =>
        simp only []
        have hp := decodeFrom_progress ⟨bs.drop offset, offset⟩ 0 budget g hg d hd
        simp only [] at hp
        split
        · rfl
        · cases hm : mediaType g d.kvs with
          | error e => rfl
          | ok m => exact ih _ _ (by omega)
    · rfl

/-- **`ggufLayers` terminates on every byte string** (for the working tree's decoder and every
    variant that rejects backward seeks). -/
theorem ggufLayers_terminates (bs : Bytes) (budget : Option Nat) (g : Guards) (hg : g.negSeek = true) (maxSeek : Nat) :
    (ggufLayers bs budget g maxSeek).isSome = true := by
  unfold ggufLayers
  simp only []
  split
  · rfl
  · exact ggufLayersLoop_terminates bs budget g hg maxSeek bs.length 0 [] (by omega)

/-- outcome of the loop is not a panic / over-budget allocation -/
def SafeL (x : Option (Except Err (List GLayer))) : Prop :=
  match x with
  | some y => Safe y
  | none => True

theorem ggufLayersLoop_safe (bs : Bytes) (B : Nat) (hB : bs.length ≤ B) (maxSeek : Nat) :
    ∀ (fuel offset : Nat) (acc : List GLayer), SafeL (ggufLayersLoop bs (some B) Guards.all maxSeek fuel offset acc) := by
  intro fuel
  induction fuel with
  | zero => intro offset acc; unfold ggufLayersLoop; split <;> simp [SafeL, Safe]
  | succ fuel ih =>
    intro offset acc
    unfold ggufLayersLoop
    split
    · have hs := decodeFrom_safe_all ⟨bs.drop offset, offset⟩ 0 B (by simp only [List.length_drop]; omega)
      cases hd : decodeFrom ⟨bs.drop offset, offset⟩ 0 (some B) Guards.all with
      | error e =>
        rw [hd] at hs
        cases e with
        | eof => simp only [SafeL]; split <;> simp [Safe, isBad]
        | ueof => simp [SafeL, Safe, isBad]
        | invalid w => simp [SafeL, Safe, isBad]
        | panic w => simp [Safe, isBad] at hs
        | alloc w n => simp [Safe, isBad] at hs
      | ok d =>
        simp only []
        split
        · simp [SafeL, Safe, isBad]
        · obtain ⟨m, hm⟩ := mediaType_all d.kvs
          rw [hm]
          exact ih _ _
    · simp [SafeL, Safe]

/-- **`ggufLayers` is safe on every byte string**: no panic, no allocation above 16 bytes per input
    byte (+ the same budget as the decoder), whatever the upload contains and however many models
    it holds. -/
theorem ggufLayers_safe (bs : Bytes) (B : Nat) (hB : bs.length ≤ B) (maxSeek : Nat) :
    SafeL (ggufLayers bs (some B) Guards.all maxSeek) := by
  unfold ggufLayers
  simp only []
  split
  · simp [SafeL, Safe, isBad]
  · exact ggufLayersLoop_safe bs B hB maxSeek _ _ _

/-- every layer lies inside the uploaded file -/
def Within (n : Nat) (ls : List GLayer) : Prop := ∀ l ∈ ls, l.start + l.size ≤ n

theorem ggufLayersLoop_within (bs : Bytes) (budget : Option Nat) (g : Guards) (maxSeek : Nat) :
    ∀ (fuel offset : Nat) (acc out : List GLayer), Within bs.length acc →
      ggufLayersLoop bs budget g maxSeek fuel offset acc = some (.ok out) → Within bs.length out := by
  intro fuel
  induction fuel with
  | zero =>
    intro offset acc out hacc h
    unfold ggufLayersLoop at h
    split at h
    · cases h
    · cases h; exact hacc
  | succ fuel ih =>
    intro offset acc out hacc h
    unfold ggufLayersLoop at h
    split at h
    · rename_i hlt
      cases hd : decodeFrom ⟨bs.drop offset, offset⟩ 0 budget g with
      | error e =>
        rw [hd] at h
        cases e with
        | eof =>
          simp only [] at h
          split at h
          · cases h
          · cases h; exact hacc
        | ueof => cases h
        | invalid w => cases h
        | panic w => cases h
        | alloc w n => cases h
      | ok d =>
        rw [hd] at h
        simp only [] at h
        split at h
        · cases h
        cases hm : mediaType g d.kvs with
        | error e => rw [hm] at h; cases h
        | ok m =>
        rw [hm] at h
        simp only [] at h
        refine ih _ _ _ ?_ h
        intro l hl
        rcases List.mem_append.mp hl with hl | hl
        · exact hacc l hl
        · simp only [List.mem_singleton] at hl
          subst hl
          simp only []
          split
          · rename_i hw
            simp only [decide_eq_true_eq] at hw
            omega
          · omega
    · cases h; exact hacc

theorem ggufLayers_within (bs : Bytes) (budget : Option Nat) (g : Guards) (maxSeek : Nat) (out : List GLayer)
    (h : ggufLayers bs budget g maxSeek = some (.ok out)) : Within bs.length out := by
  unfold ggufLayers at h
  simp only [] at h
  split at h
  · cases h
  · exact ggufLayersLoop_within bs budget g maxSeek _ _ _ _ (by intro l hl; cases hl) h

/-- no layer reaches past the position `lim` (the next decode start) -/
def EndsBy (lim : Nat) (ls : List GLayer) : Prop := ∀ l ∈ ls, l.start + l.size ≤ lim

/-- layers do not overlap: each one ends where or before the next one starts, in upload order
    (`List.Pairwise`: every layer ends by the start of every LATER layer) -/
def Disjoint (ls : List GLayer) : Prop := ls.Pairwise (fun a b => a.start + a.size ≤ b.start)

theorem ggufLayersLoop_disjoint (bs : Bytes) (budget : Option Nat) (g : Guards) (hg : g.negSeek = true) (maxSeek : Nat) :
    ∀ (fuel offset : Nat) (acc out : List GLayer), Disjoint acc → EndsBy offset acc →
      ggufLayersLoop bs budget g maxSeek fuel offset acc = some (.ok out) → Disjoint out := by
  intro fuel
  induction fuel with
  | zero =>
    intro offset acc out hd he h
    unfold ggufLayersLoop at h
    split at h
    · cases h
    · cases h; exact hd
  | succ fuel ih =>
    intro offset acc out hd he h
    unfold ggufLayersLoop at h
    split at h
    · rename_i hlt
      cases hdec : decodeFrom ⟨bs.drop offset, offset⟩ 0 budget g with
      | error e =>
        rw [hdec] at h
        cases e with
        | eof =>
          simp only [] at h
          split at h
          · cases h
          · cases h; exact hd
        | ueof => cases h
        | invalid w => cases h
        | panic w => cases h
        | alloc w n => cases h
      | ok d =>
        rw [hdec] at h
        simp only [] at h
        split at h
        · cases h
        cases hm : mediaType g d.kvs with
        | error e => rw [hm] at h; cases h
        | ok m =>
        rw [hm] at h
        simp only [] at h
        have hp := decodeFrom_progress ⟨bs.drop offset, offset⟩ 0 budget g hg d hdec
        simp only [] at hp
        refine ih _ _ _ ?_ ?_ h
        · -- the new layer starts at `offset`, where every earlier layer has ended
          unfold Disjoint
          rw [List.pairwise_append]
          refine ⟨hd, by simp, ?_⟩
          intro a ha b hb
          simp only [List.mem_singleton] at hb
          subst hb
          exact he a ha
        · -- … and ends by the next decode start
          intro l hl
          rcases List.mem_append.mp hl with hl | hl
          · have := he l hl; omega
          · simp only [List.mem_singleton] at hl
            subst hl
            simp only []
            split
            · rename_i hw
              simp only [decide_eq_true_eq] at hw
              omega
            · omega
    · cases h; exact hd

/-- **Layers cut out of an upload do not overlap** (each is its model's own extent): for every byte string -/
theorem ggufLayers_disjoint (bs : Bytes) (budget : Option Nat) (g : Guards) (hg : g.negSeek = true) (maxSeek : Nat)
    (out : List GLayer) (h : ggufLayers bs budget g maxSeek = some (.ok out)) : Disjoint out := by
  unfold ggufLayers at h
  simp only [] at h
  split at h
  · cases h
  · exact ggufLayersLoop_disjoint bs budget g hg maxSeek _ _ _ _ List.Pairwise.nil (by intro l hl; cases hl) h

theorem ggufLayersLoop_done (bs : Bytes) (budget : Option Nat) (g : Guards) (maxSeek fuel offset : Nat) (acc : List GLayer)
    (h : bs.length ≤ offset) : ggufLayersLoop bs budget g maxSeek fuel offset acc = some (.ok acc) := by
  cases fuel with
  | zero => unfold ggufLayersLoop; rw [if_neg (by omega)]
  | succ f => unfold ggufLayersLoop; rw [if_neg (by omega)]

/-- a successful decode has seen one of the two GGUF magics in the first four bytes -/
theorem magic_of_decode (bs : Bytes) (m : Int) (budget : Option Nat) (g : Guards) (d : Decoded)
    (hd : decodeFrom ⟨bs, 0⟩ m budget g = .ok d) :
    4 ≤ bs.length ∧ ¬ (leVal (bs.take 4) ≠ magicLE ∧ leVal (bs.take 4) ≠ magicBE) := by
  by_cases h4 : 4 ≤ bs.length
  · refine ⟨h4, ?_⟩
    intro hm
    have hr : readUint false 4 ⟨bs, 0⟩ = .ok (leVal (bs.take 4), ⟨bs.drop 4, 0 + 4⟩) := by
      simp [readUint, readN, h4]
    unfold decodeFrom at hd
    rw [hr] at hd
    simp only [bind, Except.bind] at hd
    rw [if_pos hm] at hd
    cases hd
  · exfalso
    have hr : ∃ e, readUint false 4 ⟨bs, 0⟩ = .error e := by
      unfold readUint readN
      simp only []
      rw [if_neg h4]
      by_cases h0 : bs.length = 0
      · rw [if_pos h0]; exact ⟨_, rfl⟩
      · rw [if_neg h0]; exact ⟨_, rfl⟩
    obtain ⟨e, hr⟩ := hr
    unfold decodeFrom at hd
    rw [hr] at hd
    simp [bind, Except.bind] at hd

/-- **A file that decodes as exactly one model is taken as it is**: when the decode of the whole
    upload ends at the file length, create produces one layer that reuses the uploaded blob
    (C05: this is what the end offset is used for). -/
theorem ggufLayers_single (bs : Bytes) (budget : Option Nat) (g : Guards) (maxSeek : Nat) (d : Decoded) (m : Nat)
    (hd : decode bs 0 budget g = .ok d) (hend : d.endOffset = bs.length) (hfs : bs.length ≤ maxSeek)
    (hmed : mediaType g d.kvs = .ok m) :
    ggufLayers bs budget g maxSeek = some (.ok [⟨0, bs.length, true, m, d⟩]) := by
  unfold decode at hd
  obtain ⟨h4, hm⟩ := magic_of_decode bs 0 budget g d hd
  unfold ggufLayers
  simp only []
  have ht : (bs.take 4).length = 4 := by simp [List.length_take]; omega
  rw [ht]
  simp only [Nat.sub_self, List.replicate_zero, List.append_nil]
  rw [if_neg hm]
  obtain ⟨f, hf⟩ : ∃ f, bs.length = f + 1 := ⟨bs.length - 1, by omega⟩
  rw [hf]
  unfold ggufLayersLoop
  rw [if_pos (by omega), List.drop_zero, hd]
  simp only [hend, List.nil_append]
  rw [if_neg (by omega), hmed]
  simp only []
  rw [ggufLayersLoop_done _ _ _ _ _ _ _ (by omega)]
  simp [hf]

/-! ### the whole metadata side of create: `ggufLayers` + the accessors called on every layer -/

theorem mapM_createAccessors_all (ls : List GLayer) :
    ∃ us, ls.mapM (fun l => createAccessors Guards.all l.d.kvs) = .ok us := by
  induction ls with
  | nil => exact ⟨[], rfl⟩
  | cons l ls ih =>
    obtain ⟨us, hus⟩ := ih
    refine ⟨() :: us, ?_⟩
    rw [List.mapM_cons, createAccessors_all, hus]
    rfl

theorem createUpload_eq_ggufLayers (bs : Bytes) (budget : Option Nat) (maxSeek : Nat) :
    createUpload bs budget Guards.all maxSeek = ggufLayers bs budget Guards.all maxSeek := by
  unfold createUpload
  cases h : ggufLayers bs budget Guards.all maxSeek with
  | none => rfl
  | some r =>
    cases r with
    | error e => rfl
    | ok ls =>
      obtain ⟨us, hus⟩ := mapM_createAccessors_all ls
      simp only [hus]

end OllamaVerif.Gguf
