/-
  Helper lemmas for C06 (kvcache.Causal model): the abstraction to the location-free spec and the
  pointwise facts the property theorems are assembled from.
-/
import OllamaVerif.Model.Causal

namespace OllamaVerif.Causal
open OllamaVerif.KV

/-- the spec entry a (cell, row) pair stands for; an unowned cell stands for nothing -/
def entryOf (x : Cell × Row) : Option Entry :=
  if x.1.seqs = [] then none else some ⟨x.1.seqs, x.1.pos, x.2.id, x.2.shift⟩

/-- **abstraction**: owned cells, in location order, each with the row found at its location -/
def abs (c : Cache) : Spec := (c.cells.zip c.rows).filterMap entryOf

theorem filterMap_congr' {α β} {f g : α → Option β} {l : List α} (h : ∀ x ∈ l, f x = g x) :
    l.filterMap f = l.filterMap g := by
  induction l with
  | nil => rfl
  | cons a as ih =>
    simp only [List.filterMap_cons, h a (by simp)]
    rw [ih (fun x hx => h x (by simp [hx]))]

/-! ### CopyPrefix -/

theorem entryOf_cpCell (src dst : Nat) (len : Int) (x : Cell × Row) :
    entryOf (cpCell src dst len x.1, x.2) = (entryOf x).bind (cpEntry src dst len) := by
  obtain ⟨⟨pos, seqs⟩, r⟩ := x
  by_cases h : seqs = []
  · subst h; simp [entryOf, cpCell, cpSeqs]
  · by_cases hc : cpSeqs src dst len pos seqs = [] <;> simp [entryOf, cpCell, cpEntry, h, hc]

/-! ### Remove -/

/-- what `Remove`'s loop does to one cell when it does not bail out -/
def rmCell (seq : Nat) (b e off : Int) (c : Cell) : Cell :=
  if seq ∈ c.seqs then
    if b ≤ c.pos ∧ c.pos < e then dropSeq seq c
    else if c.pos ≥ e then { c with pos := c.pos + off }
    else c
  else c

def refuseCell (seq : Nat) (b e : Int) (c : Cell) : Bool :=
  decide (seq ∈ c.seqs) && !(decide (b ≤ c.pos ∧ c.pos < e)) && decide (c.pos ≥ e) && sharedOther seq c.seqs

theorem removeCells_flag (seq : Nat) (b e off : Int) (cells : List Cell) :
    (removeCells seq b e off cells).2 = cells.any (refuseCell seq b e) := by
  induction cells with
  | nil => simp [removeCells]
  | cons c cs ih =>
    unfold removeCells
    by_cases h1 : seq ∈ c.seqs
    · by_cases h2 : b ≤ c.pos ∧ c.pos < e
      · simp [h1, h2, ih, refuseCell]
      · by_cases h3 : c.pos ≥ e
        · by_cases h4 : sharedOther seq c.seqs = true
          · simp [h1, h2, h3, h4, refuseCell]
          · simp only [Bool.not_eq_true] at h4
            simp [h1, h2, h3, h4, ih, refuseCell]
        · simp [h1, h2, h3, ih, refuseCell]
    · simp [h1, ih, refuseCell]

theorem removeCells_ok (seq : Nat) (b e off : Int) (cells : List Cell)
    (h : (removeCells seq b e off cells).2 = false) :
    (removeCells seq b e off cells).1 = cells.map (rmCell seq b e off) := by
  induction cells with
  | nil => simp [removeCells]
  | cons c cs ih =>
    unfold removeCells at h ⊢
    by_cases h1 : seq ∈ c.seqs
    · by_cases h2 : b ≤ c.pos ∧ c.pos < e
      · simp only [h1, h2, and_self, if_true] at h ⊢
        simp [ih h, rmCell, h1, h2]
      · by_cases h3 : c.pos ≥ e
        · by_cases h4 : sharedOther seq c.seqs = true
          · simp [h1, h2, h3, h4] at h
          · simp only [h1, h2, h3, h4, if_true, if_false] at h ⊢
            simp [ih h, rmCell, h1, h2, h3]
        · simp only [h1, h2, h3, if_true, if_false] at h ⊢
          simp [ih h, rmCell, h1, h2, h3]
    · simp only [h1, if_false] at h ⊢
      simp [ih h, rmCell, h1]

/-- cell and row after an accepted `Remove` with shift, as one pointwise function -/
def rmPair (seq : Nat) (b e off : Int) (doShift : Bool) (x : Cell × Row) : Cell × Row :=
  let c' := rmCell seq b e off x.1
  (c', if doShift ∧ seq ∈ c'.seqs ∧ c'.pos ≥ e + off then { x.2 with shift := x.2.shift + off } else x.2)

theorem zip_shiftRows (seq : Nat) (b e off : Int) (cells : List Cell) (rows : List Row) :
    (cells.map (rmCell seq b e off)).zip (shiftRows seq (e + off) off (cells.map (rmCell seq b e off)) rows)
      = (cells.zip rows).map (rmPair seq b e off true) := by
  induction cells generalizing rows with
  | nil => simp
  | cons c cs ih =>
    cases rows with
    | nil => simp [shiftRows]
    | cons r rs => simp [shiftRows, ih, rmPair]

theorem zip_noShift (seq : Nat) (b e off : Int) (cells : List Cell) (rows : List Row) :
    (cells.map (rmCell seq b e off)).zip rows = (cells.zip rows).map (rmPair seq b e off false) := by
  induction cells generalizing rows with
  | nil => simp
  | cons c cs ih =>
    cases rows with
    | nil => simp
    | cons r rs => simp [ih, rmPair]

theorem mem_filter_ne {seq : Nat} {l : List Nat} : seq ∉ l.filter (· ≠ seq) := by
  simp

/-- pointwise: an accepted `Remove` (with the shift applied) is the spec's `rmEntry` -/
theorem entryOf_rmPair_shift (seq : Nat) (b e : Int) (he : e ≠ maxInt32) (x : Cell × Row) :
    entryOf (rmPair seq b e (rmOffset b e) true x) = (entryOf x).bind (rmEntry seq b e) := by
  obtain ⟨⟨pos, seqs⟩, r⟩ := x
  have hoff : rmOffset b e = b - e := by simp [rmOffset, he]
  by_cases h0 : seqs = []
  · subst h0; simp [entryOf, rmPair, rmCell]
  · by_cases h1 : seq ∈ seqs
    · by_cases h2 : b ≤ pos ∧ pos < e
      · simp [entryOf, rmPair, rmCell, rmEntry, h0, h1, h2, dropSeq]
      · by_cases h3 : pos ≥ e
        · have : e + (b - e) ≤ pos + (b - e) := by omega
          simp [entryOf, rmPair, rmCell, rmEntry, h0, h1, h2, h3, hoff, this]
        · have h4 : ¬ (e + (b - e) ≤ pos) := by omega
          simp [entryOf, rmPair, rmCell, rmEntry, h0, h1, h2, h3, hoff, h4]
    · simp [entryOf, rmPair, rmCell, rmEntry, h0, h1]

/-- pointwise: an accepted `Remove` that performs no data shift is the spec's `rmEntry` as long
    as no position moves (`off = 0`, the `MaxInt32` case) or no cell of `seq` is left to shift -/
theorem entryOf_rmPair_noshift_inf (seq : Nat) (b : Int) (x : Cell × Row) :
    entryOf (rmPair seq b maxInt32 (rmOffset b maxInt32) false x) = (entryOf x).bind (rmEntry seq b maxInt32) := by
  obtain ⟨⟨pos, seqs⟩, r⟩ := x
  have hoff : rmOffset b maxInt32 = 0 := by simp [rmOffset]
  by_cases h0 : seqs = []
  · subst h0; simp [entryOf, rmPair, rmCell]
  · by_cases h1 : seq ∈ seqs
    · by_cases h2 : b ≤ pos ∧ pos < maxInt32
      · simp [entryOf, rmPair, rmCell, rmEntry, h0, h1, h2, dropSeq]
      · by_cases h3 : pos ≥ maxInt32
        · simp [entryOf, rmPair, rmCell, rmEntry, h0, h1, h2, h3, hoff]
        · simp [entryOf, rmPair, rmCell, rmEntry, h0, h1, h2, h3, hoff]
    · simp [entryOf, rmPair, rmCell, rmEntry, h0, h1]

theorem any_refuse_abs (seq : Nat) (b e : Int) (cells : List Cell) (rows : List Row)
    (hlen : cells.length = rows.length) :
    ((cells.zip rows).filterMap entryOf).any (mustRefuse seq b e) = cells.any (refuseCell seq b e) := by
  induction cells generalizing rows with
  | nil => simp
  | cons c cs ih =>
    cases rows with
    | nil => simp at hlen
    | cons r rs =>
      simp only [List.length_cons, Nat.add_right_cancel_iff] at hlen
      by_cases h0 : c.seqs = []
      · simp [List.zip_cons_cons, List.filterMap_cons, entryOf, h0, ih rs hlen, refuseCell]
      · simp [List.zip_cons_cons, List.filterMap_cons, entryOf, h0, ih rs hlen, refuseCell, mustRefuse]

/-! ### ranges -/

theorem Range.add_min_le (r : Range) (i : Nat) : (r.add i).min ≤ r.min ∧ (r.add i).min ≤ i := by
  unfold Range.add; simp only; split <;> omega

theorem Range.add_max_ge (r : Range) (i : Nat) : r.max ≤ (r.add i).max ∧ i ≤ (r.add i).max := by
  unfold Range.add; simp only; split <;> omega

theorem Range.add_max_le (r : Range) (i : Nat) : (r.add i).max = r.max ∨ (r.add i).max = i := by
  unfold Range.add; simp only; split <;> simp

theorem rangeFrom_mono (p : Nat → Cell → Bool) (cells : List Cell) (i : Nat) (r : Range) :
    (rangeFrom p i cells r).min ≤ r.min ∧ r.max ≤ (rangeFrom p i cells r).max := by
  induction cells generalizing i r with
  | nil => simp [rangeFrom]
  | cons c cs ih =>
    unfold rangeFrom
    have := ih (i + 1) (if p i c then r.add i else r)
    split at this <;> rename_i hp
    · simp only [hp, if_true]
      have h1 := Range.add_min_le r i
      have h2 := Range.add_max_ge r i
      omega
    · simp only [hp]
      exact this

/-- every index whose cell satisfies `p` lies inside the computed range -/
theorem rangeFrom_covers (p : Nat → Cell → Bool) (cells : List Cell) (i : Nat) (r : Range)
    (k : Nat) (hk : k < cells.length) (hp : p (i + k) cells[k] = true) :
    (rangeFrom p i cells r).min ≤ i + k ∧ i + k ≤ (rangeFrom p i cells r).max := by
  induction cells generalizing i r k with
  | nil => simp at hk
  | cons c cs ih =>
    unfold rangeFrom
    cases k with
    | zero =>
      simp only [List.getElem_cons_zero, Nat.add_zero] at hp
      simp only [hp, if_true, Nat.add_zero]
      have := rangeFrom_mono p cs (i + 1) (r.add i)
      have h1 := Range.add_min_le r i
      have h2 := Range.add_max_ge r i
      omega
    | succ k =>
      simp only [List.getElem_cons_succ] at hp
      simp only [List.length_cons, Nat.add_lt_add_iff_right] at hk
      have := ih (i + 1) (if p i c then r.add i else r) k hk (by rw [show i + 1 + k = i + (k + 1) by omega]; exact hp)
      omega

/-- the computed maximum is an index of the list (or the initial one) -/
theorem rangeFrom_max_lt (p : Nat → Cell → Bool) (cells : List Cell) (i : Nat) (r : Range) (n : Nat)
    (hn : i + cells.length ≤ n) (hr : r.max < n ∨ r.max = 0) :
    (rangeFrom p i cells r).max < n ∨ (rangeFrom p i cells r).max = 0 := by
  induction cells generalizing i r with
  | nil => simpa [rangeFrom] using hr
  | cons c cs ih =>
    unfold rangeFrom
    simp only [List.length_cons] at hn
    apply ih (i + 1) _ (by omega)
    split
    · have := Range.add_max_le r i
      omega
    · exact hr

theorem rangeOf_covers (p : Nat → Cell → Bool) (cells : List Cell) (k : Nat) (hk : k < cells.length)
    (hp : p k cells[k] = true) : (rangeOf p cells).min ≤ k ∧ k ≤ (rangeOf p cells).max := by
  have := rangeFrom_covers p cells 0 Range.new k hk (by simpa using hp)
  simpa [rangeOf] using this

theorem rangeOf_max_lt (p : Nat → Cell → Bool) (cells : List Cell) :
    (rangeOf p cells).max < cells.length ∨ (rangeOf p cells).max = 0 := by
  exact rangeFrom_max_lt p cells 0 Range.new cells.length (by omega) (Or.inr rfl)

theorem rangeOf_new (p : Nat → Cell → Bool) (cells : List Cell) (hsz : cells.length ≤ maxInt)
    (h : rangeOf p cells = Range.new) : ∀ k (hk : k < cells.length), p k cells[k] = false := by
  intro k hk
  cases hp : p k cells[k] with
  | false => rfl
  | true =>
    have := rangeOf_covers p cells k hk hp
    rw [h] at this
    simp only [Range.new] at this
    omega

/-! ### the mask -/

def entryAt (c : Cache) (j : Nat) : Option Entry :=
  entryOf (c.cells.getD j Cell.empty, c.rows.getD j default)

theorem zip_eq_range {α β} (l1 : List α) (l2 : List β) (d1 : α) (d2 : β) (h : l1.length = l2.length) :
    l1.zip l2 = (List.range l1.length).map (fun j => (l1.getD j d1, l2.getD j d2)) := by
  apply List.ext_getElem
  · simp [h]
  · intro i h1 h2
    simp only [List.length_zip] at h1
    have ha : i < l1.length := by omega
    have hb : i < l2.length := by omega
    simp [List.getD_eq_getElem?_getD, List.getElem?_eq_getElem ha, List.getElem?_eq_getElem hb]

theorem abs_eq_range (c : Cache) (hlen : c.cells.length = c.rows.length) :
    abs c = (List.range c.cells.length).filterMap (entryAt c) := by
  rw [abs, zip_eq_range c.cells c.rows Cell.empty default hlen, List.filterMap_map]
  rfl

theorem filter_filterMap' {α β} (f : α → Option β) (p : β → Bool) (l : List α) :
    (l.filterMap f).filter p = l.filterMap (fun x => (f x).filter p) := by
  induction l with
  | nil => rfl
  | cons a as ih =>
    simp only [List.filterMap_cons]
    cases h : f a with
    | none => simp [ih]
    | some b =>
      by_cases hp : p b = true
      · simp [List.filter_cons, hp, ih, Option.filter]
      · simp only [Bool.not_eq_true] at hp
        simp [List.filter_cons, hp, ih, Option.filter]

theorem filterMap_filter' {α β} (f : α → Option β) (p : α → Bool) (l : List α) :
    (l.filter p).filterMap f = l.filterMap (fun x => if p x then f x else none) := by
  induction l with
  | nil => rfl
  | cons a as ih =>
    by_cases hp : p a = true
    · rw [List.filter_cons_of_pos hp, List.filterMap_cons, List.filterMap_cons, ih]
      simp [hp]
    · rw [List.filter_cons_of_neg hp, List.filterMap_cons, ih]
      simp [hp]

theorem filterMap_all_none {α β} (f : α → Option β) (l : List α) (h : ∀ x ∈ l, f x = none) :
    l.filterMap f = [] := by
  induction l with
  | nil => rfl
  | cons a as ih =>
    simp only [List.filterMap_cons, h a (by simp)]
    exact ih (fun x hx => h x (by simp [hx]))

/-- outside `[lo, lo+len)` nothing is produced ⇒ scanning the window is scanning everything -/
theorem filterMap_range_restrict {β} (g : Nat → Option β) (n lo len : Nat) (h1 : lo + len ≤ n)
    (h2 : ∀ j, j < n → (j < lo ∨ lo + len ≤ j) → g j = none) :
    (List.range n).filterMap g = (List.range' lo len).filterMap g := by
  have hsplit : List.range n = List.range' 0 lo ++ (List.range' lo len ++ List.range' (lo + len) (n - (lo + len))) := by
    rw [List.range_eq_range']
    have e1 : List.range' lo len ++ List.range' (lo + len) (n - (lo + len)) = List.range' lo (len + (n - (lo + len))) := by
      simpa using (List.range'_append_1 (s := lo) (m := len) (n := n - (lo + len)))
    have e2 : List.range' 0 lo ++ List.range' lo (len + (n - (lo + len))) = List.range' 0 (lo + (len + (n - (lo + len)))) := by
      simpa using (List.range'_append_1 (s := 0) (m := lo) (n := len + (n - (lo + len))))
    rw [e1, e2]
    congr 1
    omega
  rw [hsplit, List.filterMap_append, List.filterMap_append]
  rw [filterMap_all_none g (List.range' 0 lo), filterMap_all_none g (List.range' (lo + len) _)]
  · simp
  · intro x hx
    simp only [List.mem_range'_1] at hx
    exact h2 x (by omega) (Or.inr hx.1)
  · intro x hx
    simp only [List.mem_range'_1] at hx
    exact h2 x (by omega) (Or.inl (by omega))

/-- one mask entry is the spec's visibility test on the entry found at that location -/
theorem maskBit_entryAt (c : Cache) (t : Tok) (j : Nat) :
    (if maskBit c t j then entryAt c j else none) = (entryAt c j).filter (vis c.window t.seq t.pos) := by
  unfold maskBit entryAt entryOf vis
  generalize c.cells.getD j Cell.empty = cell
  generalize c.rows.getD j default = row
  obtain ⟨pos, seqs⟩ := cell
  by_cases h0 : seqs = []
  · subst h0; simp
  · simp only [h0, if_false, Option.filter]

end OllamaVerif.Causal
