/-
  Helper lemmas for C06 (kvcache.Causal model): the abstraction to the location-free spec and the
  pointwise facts the property theorems are assembled from.
-/
import OllamaVerif.Model.Causal

namespace OllamaVerif.Causal
open OllamaVerif.KV

/-- the spec entry a (cell, row) pair stands for; an unowned cell stands for nothing -/
def entryOf (x : Cell × Row) : Option Entry :=
  if x.1.seqs = [] then none else some ⟨x.1.seqs, x.1.pos, x.2.id, x.2.shift⟩

/-- **abstraction**: owned cells, in location order, each with the row found at its location -/
def abs (c : Cache) : Spec := (c.cells.zip c.rows).filterMap entryOf

theorem filterMap_congr' {α β} {f g : α → Option β} {l : List α} (h : ∀ x ∈ l, f x = g x) :
    l.filterMap f = l.filterMap g := by
  induction l with
  | nil => rfl
  | cons a as ih =>
    simp only [List.filterMap_cons, h a (by simp)]
    rw [ih (fun x hx => h x (by simp [hx]))]

/-! ### CopyPrefix -/

theorem entryOf_cpCell (src dst : Nat) (len : Int) (x : Cell × Row) :
    entryOf (cpCell src dst len x.1, x.2) = (entryOf x).bind (cpEntry src dst len) := by
  obtain ⟨⟨pos, seqs⟩, r⟩ := x
  by_cases h : seqs = []
  · subst h; simp [entryOf, cpCell, cpSeqs]
  · by_cases hc : cpSeqs src dst len pos seqs = [] <;> simp [entryOf, cpCell, cpEntry, h, hc]

/-! ### Remove -/

/-- what `Remove`'s loop does to one cell when it does not bail out -/
def rmCell (seq : Nat) (b e off : Int) (c : Cell) : Cell :=
  if seq ∈ c.seqs then
    if b ≤ c.pos ∧ c.pos < e then dropSeq seq c
    else if c.pos ≥ e then { c with pos := c.pos + off }
    else c
  else c

def refuseCell (seq : Nat) (b e : Int) (c : Cell) : Bool :=
  decide (seq ∈ c.seqs) && !(decide (b ≤ c.pos ∧ c.pos < e)) && decide (c.pos ≥ e) && sharedOther seq c.seqs

theorem removeCells_flag (seq : Nat) (b e off : Int) (cells : List Cell) :
    (removeCells seq b e off cells).2 = cells.any (refuseCell seq b e) := by
  induction cells with
  | nil => simp [removeCells]
  | cons c cs ih =>
    unfold removeCells
    by_cases h1 : seq ∈ c.seqs
    · by_cases h2 : b ≤ c.pos ∧ c.pos < e
      · simp [h1, h2, ih, refuseCell]
      · by_cases h3 : c.pos ≥ e
        · by_cases h4 : sharedOther seq c.seqs = true
          · simp [h1, h2, h3, h4, refuseCell]
          · simp only [Bool.not_eq_true] at h4
            simp [h1, h2, h3, h4, ih, refuseCell]
        · simp [h1, h2, h3, ih, refuseCell]
    · simp [h1, ih, refuseCell]

theorem removeCells_ok (seq : Nat) (b e off : Int) (cells : List Cell)
    (h : (removeCells seq b e off cells).2 = false) :
    (removeCells seq b e off cells).1 = cells.map (rmCell seq b e off) := by
  induction cells with
  | nil => simp [removeCells]
  | cons c cs ih =>
    unfold removeCells at h ⊢
    by_cases h1 : seq ∈ c.seqs
    · by_cases h2 : b ≤ c.pos ∧ c.pos < e
      · simp only [h1, h2, and_self, if_true] at h ⊢
        simp [ih h, rmCell, h1, h2]
      · by_cases h3 : c.pos ≥ e
        · by_cases h4 : sharedOther seq c.seqs = true
          · simp [h1, h2, h3, h4] at h
          · simp only [h1, h2, h3, h4, if_true, if_false] at h ⊢
            simp [ih h, rmCell, h1, h2, h3]
        · simp only [h1, h2, h3, if_true, if_false] at h ⊢
          simp [ih h, rmCell, h1, h2, h3]
    · simp only [h1, if_false] at h ⊢
      simp [ih h, rmCell, h1]

/-- cell and row after an accepted `Remove` with shift, as one pointwise function -/
def rmPair (seq : Nat) (b e off : Int) (doShift : Bool) (x : Cell × Row) : Cell × Row :=
  let c' := rmCell seq b e off x.1
  (c', if doShift ∧ seq ∈ c'.seqs ∧ c'.pos ≥ e + off then { x.2 with shift := x.2.shift + off } else x.2)

theorem zip_shiftRows (seq : Nat) (b e off : Int) (cells : List Cell) (rows : List Row) :
    (cells.map (rmCell seq b e off)).zip (shiftRows seq (e + off) off (cells.map (rmCell seq b e off)) rows)
      = (cells.zip rows).map (rmPair seq b e off true) := by
  induction cells generalizing rows with
  | nil => simp
  | cons c cs ih =>
    cases rows with
    | nil => simp [shiftRows]
    | cons r rs => simp [shiftRows, ih, rmPair]

theorem zip_noShift (seq : Nat) (b e off : Int) (cells : List Cell) (rows : List Row) :
    (cells.map (rmCell seq b e off)).zip rows = (cells.zip rows).map (rmPair seq b e off false) := by
  induction cells generalizing rows with
  | nil => simp
  | cons c cs ih =>
    cases rows with
    | nil => simp
    | cons r rs => simp [ih, rmPair]

theorem mem_filter_ne {seq : Nat} {l : List Nat} : seq ∉ l.filter (· ≠ seq) := by
  simp

/-- pointwise: an accepted `Remove` (with the shift applied) is the spec's `rmEntry` -/
theorem entryOf_rmPair_shift (seq : Nat) (b e : Int) (he : e ≠ maxInt32) (x : Cell × Row) :
    entryOf (rmPair seq b e (rmOffset b e) true x) = (entryOf x).bind (rmEntry seq b e) := by
  obtain ⟨⟨pos, seqs⟩, r⟩ := x
  have hoff : rmOffset b e = b - e := by simp [rmOffset, he]
  by_cases h0 : seqs = []
  · subst h0; simp [entryOf, rmPair, rmCell]
  · by_cases h1 : seq ∈ seqs
    · by_cases h2 : b ≤ pos ∧ pos < e
      · simp [entryOf, rmPair, rmCell, rmEntry, h0, h1, h2, dropSeq]
      · by_cases h3 : pos ≥ e
        · have : e + (b - e) ≤ pos + (b - e) := by omega
          simp [entryOf, rmPair, rmCell, rmEntry, h0, h1, h2, h3, hoff, this]
        · have h4 : ¬ (e + (b - e) ≤ pos) := by omega
          simp [entryOf, rmPair, rmCell, rmEntry, h0, h1, h2, h3, hoff, h4]
    · simp [entryOf, rmPair, rmCell, rmEntry, h0, h1]

/-- pointwise: an accepted `Remove` that performs no data shift is the spec's `rmEntry` as long
    as no position moves (`off = 0`, the `MaxInt32` case) or no cell of `seq` is left to shift -/
theorem entryOf_rmPair_noshift_inf (seq : Nat) (b : Int) (x : Cell × Row) :
    entryOf (rmPair seq b maxInt32 (rmOffset b maxInt32) false x) = (entryOf x).bind (rmEntry seq b maxInt32) := by
  obtain ⟨⟨pos, seqs⟩, r⟩ := x
  have hoff : rmOffset b maxInt32 = 0 := by simp [rmOffset]
  by_cases h0 : seqs = []
  · subst h0; simp [entryOf, rmPair, rmCell]
  · by_cases h1 : seq ∈ seqs
    · by_cases h2 : b ≤ pos ∧ pos < maxInt32
      · simp [entryOf, rmPair, rmCell, rmEntry, h0, h1, h2, dropSeq]
      · by_cases h3 : pos ≥ maxInt32
        · simp [entryOf, rmPair, rmCell, rmEntry, h0, h1, h2, h3, hoff]
        · simp [entryOf, rmPair, rmCell, rmEntry, h0, h1, h2, h3, hoff]
    · simp [entryOf, rmPair, rmCell, rmEntry, h0, h1]

theorem any_refuse_abs (seq : Nat) (b e : Int) (cells : List Cell) (rows : List Row)
    (hlen : cells.length = rows.length) :
    ((cells.zip rows).filterMap entryOf).any (mustRefuse seq b e) = cells.any (refuseCell seq b e) := by
  induction cells generalizing rows with
  | nil => simp
  | cons c cs ih =>
    cases rows with
    | nil => simp at hlen
    | cons r rs =>
      simp only [List.length_cons, Nat.add_right_cancel_iff] at hlen
      by_cases h0 : c.seqs = []
      · simp [List.zip_cons_cons, List.filterMap_cons, entryOf, h0, ih rs hlen, refuseCell]
      · simp [List.zip_cons_cons, List.filterMap_cons, entryOf, h0, ih rs hlen, refuseCell, mustRefuse]

/-! ### ranges -/

theorem Range.add_min_le (r : Range) (i : Nat) : (r.add i).min ≤ r.min ∧ (r.add i).min ≤ i := by
  unfold Range.add; simp only; split <;> omega

theorem Range.add_max_ge (r : Range) (i : Nat) : r.max ≤ (r.add i).max ∧ i ≤ (r.add i).max := by
  unfold Range.add; simp only; split <;> omega

theorem Range.add_max_le (r : Range) (i : Nat) : (r.add i).max = r.max ∨ (r.add i).max = i := by
  unfold Range.add; simp only; split <;> simp

theorem rangeFrom_mono (p : Nat → Cell → Bool) (cells : List Cell) (i : Nat) (r : Range) :
    (rangeFrom p i cells r).min ≤ r.min ∧ r.max ≤ (rangeFrom p i cells r).max := by
  induction cells generalizing i r with
  | nil => simp [rangeFrom]
  | cons c cs ih =>
    unfold rangeFrom
    have := ih (i + 1) (if p i c then r.add i else r)
    split at this <;> rename_i hp
    · simp only [hp, if_true]
      have h1 := Range.add_min_le r i
      have h2 := Range.add_max_ge r i
      omega
    · simp only [hp]
      exact this

/-- every index whose cell satisfies `p` lies inside the computed range -/
theorem rangeFrom_covers (p : Nat → Cell → Bool) (cells : List Cell) (i : Nat) (r : Range)
    (k : Nat) (hk : k < cells.length) (hp : p (i + k) cells[k] = true) :
    (rangeFrom p i cells r).min ≤ i + k ∧ i + k ≤ (rangeFrom p i cells r).max := by
  induction cells generalizing i r k with
  | nil => simp at hk
  | cons c cs ih =>
    unfold rangeFrom
    cases k with
    | zero =>
      simp only [List.getElem_cons_zero, Nat.add_zero] at hp
      simp only [hp, if_true, Nat.add_zero]
      have := rangeFrom_mono p cs (i + 1) (r.add i)
      have h1 := Range.add_min_le r i
      have h2 := Range.add_max_ge r i
      omega
    | succ k =>
      simp only [List.getElem_cons_succ] at hp
      simp only [List.length_cons, Nat.add_lt_add_iff_right] at hk
      have := ih (i + 1) (if p i c then r.add i else r) k hk (by rw [show i + 1 + k = i + (k + 1) by omega]; exact hp)
      omega

/-- the computed maximum is an index of the list (or the initial one) -/
theorem rangeFrom_max_lt (p : Nat → Cell → Bool) (cells : List Cell) (i : Nat) (r : Range) (n : Nat)
    (hn : i + cells.length ≤ n) (hr : r.max < n ∨ r.max = 0) :
    (rangeFrom p i cells r).max < n ∨ (rangeFrom p i cells r).max = 0 := by
  induction cells generalizing i r with
  | nil => simpa [rangeFrom] using hr
  | cons c cs ih =>
    unfold rangeFrom
    simp only [List.length_cons] at hn
    apply ih (i + 1) _ (by omega)
    split
    · have := Range.add_max_le r i
      omega
    · exact hr

theorem rangeOf_covers (p : Nat → Cell → Bool) (cells : List Cell) (k : Nat) (hk : k < cells.length)
    (hp : p k cells[k] = true) : (rangeOf p cells).min ≤ k ∧ k ≤ (rangeOf p cells).max := by
  have := rangeFrom_covers p cells 0 Range.new k hk (by simpa using hp)
  simpa [rangeOf] using this

theorem rangeOf_max_lt (p : Nat → Cell → Bool) (cells : List Cell) :
    (rangeOf p cells).max < cells.length ∨ (rangeOf p cells).max = 0 := by
  exact rangeFrom_max_lt p cells 0 Range.new cells.length (by omega) (Or.inr rfl)

theorem rangeOf_new (p : Nat → Cell → Bool) (cells : List Cell) (hsz : cells.length ≤ maxInt)
    (h : rangeOf p cells = Range.new) : ∀ k (hk : k < cells.length), p k cells[k] = false := by
  intro k hk
  cases hp : p k cells[k] with
  | false => rfl
  | true =>
    have := rangeOf_covers p cells k hk hp
    rw [h] at this
    simp only [Range.new] at this
    omega

/-! ### the mask -/

def entryAt (c : Cache) (j : Nat) : Option Entry :=
  entryOf (c.cells.getD j Cell.empty, c.rows.getD j default)

theorem zip_eq_range {α β} (l1 : List α) (l2 : List β) (d1 : α) (d2 : β) (h : l1.length = l2.length) :
    l1.zip l2 = (List.range l1.length).map (fun j => (l1.getD j d1, l2.getD j d2)) := by
  apply List.ext_getElem
  · simp [h]
  · intro i h1 h2
    simp only [List.length_zip] at h1
    have ha : i < l1.length := by omega
    have hb : i < l2.length := by omega
    simp [List.getD_eq_getElem?_getD, List.getElem?_eq_getElem ha, List.getElem?_eq_getElem hb]

theorem abs_eq_range (c : Cache) (hlen : c.cells.length = c.rows.length) :
    abs c = (List.range c.cells.length).filterMap (entryAt c) := by
  rw [abs, zip_eq_range c.cells c.rows Cell.empty default hlen, List.filterMap_map]
  rfl

theorem filter_filterMap' {α β} (f : α → Option β) (p : β → Bool) (l : List α) :
    (l.filterMap f).filter p = l.filterMap (fun x => (f x).filter p) := by
  induction l with
  | nil => rfl
  | cons a as ih =>
    simp only [List.filterMap_cons]
    cases h : f a with
    | none => simp [ih]
    | some b =>
      by_cases hp : p b = true
      · simp [List.filter_cons, hp, ih, Option.filter]
      · simp only [Bool.not_eq_true] at hp
        simp [List.filter_cons, hp, ih, Option.filter]

theorem filterMap_filter' {α β} (f : α → Option β) (p : α → Bool) (l : List α) :
    (l.filter p).filterMap f = l.filterMap (fun x => if p x then f x else none) := by
  induction l with
  | nil => rfl
  | cons a as ih =>
    by_cases hp : p a = true
    · rw [List.filter_cons_of_pos hp, List.filterMap_cons, List.filterMap_cons, ih]
      simp [hp]
    · rw [List.filter_cons_of_neg hp, List.filterMap_cons, ih]
      simp [hp]

theorem filterMap_all_none {α β} (f : α → Option β) (l : List α) (h : ∀ x ∈ l, f x = none) :
    l.filterMap f = [] := by
  induction l with
  | nil => rfl
  | cons a as ih =>
    simp only [List.filterMap_cons, h a (by simp)]
    exact ih (fun x hx => h x (by simp [hx]))

/-- outside `[lo, lo+len)` nothing is produced ⇒ scanning the window is scanning everything -/
theorem filterMap_range_restrict {β} (g : Nat → Option β) (n lo len : Nat) (h1 : lo + len ≤ n)
    (h2 : ∀ j, j < n → (j < lo ∨ lo + len ≤ j) → g j = none) :
    (List.range n).filterMap g = (List.range' lo len).filterMap g := by
  have hsplit : List.range n = List.range' 0 lo ++ (List.range' lo len ++ List.range' (lo + len) (n - (lo + len))) := by
    rw [List.range_eq_range']
    have e1 : List.range' lo len ++ List.range' (lo + len) (n - (lo + len)) = List.range' lo (len + (n - (lo + len))) := by
      simpa using (List.range'_append_1 (s := lo) (m := len) (n := n - (lo + len)))
    have e2 : List.range' 0 lo ++ List.range' lo (len + (n - (lo + len))) = List.range' 0 (lo + (len + (n - (lo + len)))) := by
      simpa using (List.range'_append_1 (s := 0) (m := lo) (n := len + (n - (lo + len))))
    rw [e1, e2]
    congr 1
    omega
  rw [hsplit, List.filterMap_append, List.filterMap_append]
  rw [filterMap_all_none g (List.range' 0 lo), filterMap_all_none g (List.range' (lo + len) _)]
  · simp
  · intro x hx
    simp only [List.mem_range'_1] at hx
    exact h2 x (by omega) (Or.inr hx.1)
  · intro x hx
    simp only [List.mem_range'_1] at hx
    exact h2 x (by omega) (Or.inl (by omega))

/-- one mask entry is the spec's visibility test on the entry found at that location -/
theorem maskBit_entryAt (c : Cache) (t : Tok) (j : Nat) :
    (if maskBit c t j then entryAt c j else none) = (entryAt c j).filter (vis c.window t.seq t.pos) := by
  unfold maskBit entryAt entryOf vis
  generalize c.cells.getD j Cell.empty = cell
  generalize c.rows.getD j default = row
  obtain ⟨pos, seqs⟩ := cell
  by_cases h0 : seqs = []
  · subst h0; simp
  · simp only [h0, if_false, Option.filter]

theorem maskBitE_entryAt (en : Bool) (c : Cache) (t : Tok) (j : Nat) :
    (if maskBitE en c t j then entryAt c j else none) = (entryAt c j).filter (visE en c.window t.seq t.pos) := by
  unfold maskBitE entryAt entryOf visE
  generalize c.cells.getD j Cell.empty = cell
  generalize c.rows.getD j default = row
  obtain ⟨pos, seqs⟩ := cell
  by_cases h0 : seqs = []
  · subst h0; simp
  · simp only [h0, if_false, Option.filter]

/-! ### invariants -/

theorem length_mapFrom (f : Nat → Cell → Cell) (i : Nat) (l : List Cell) : (mapFrom f i l).length = l.length := by
  induction l generalizing i with
  | nil => rfl
  | cons a as ih => simp [mapFrom, ih]

theorem getElem_mapFrom (f : Nat → Cell → Cell) (i : Nat) (l : List Cell) (k : Nat) (hk : k < l.length) :
    (mapFrom f i l)[k]'(by rw [length_mapFrom]; exact hk) = f (i + k) l[k] := by
  induction l generalizing i k with
  | nil => simp at hk
  | cons a as ih =>
    cases k with
    | zero => simp [mapFrom]
    | succ k =>
      simp only [mapFrom, List.getElem_cons_succ]
      rw [ih (i + 1) k (by simpa using hk)]
      congr 1; omega

structure Inv (c : Cache) : Prop where
  len : c.cells.length = c.rows.length
  /-- `ranges_cover`: every cell holding `s` lies inside `cellRanges[s]` -/
  cover : ∀ j (hj : j < c.cells.length) s, s ∈ c.cells[j].seqs →
    ∃ r, c.ranges s = some r ∧ r.min ≤ j ∧ j ≤ r.max
  rmax : ∀ s r, c.ranges s = some r → r.max < c.cells.length ∨ r.max = 0
  pad : 0 < c.cachePad ∧ c.cells.length % c.cachePad = 0
  /-- the cache is smaller than `math.MaxInt` cells (so `newRange()` is never a real range) -/
  size : c.cells.length ≤ maxInt

theorem mem_dropSeq {s seq : Nat} {c : Cell} (h : s ∈ (dropSeq seq c).seqs) : s ∈ c.seqs ∧ s ≠ seq := by
  simpa [dropSeq] using h

theorem slideSeq_inv (c : Cache) (w : Int) (seq : Nat) (low : Int) (h : Inv c) : Inv (slideSeq c w seq low) := by
  unfold slideSeq
  cases hr : c.ranges seq with
  | none => simpa using h
  | some old =>
    simp only
    refine ⟨by simpa [length_mapFrom] using h.len, ?_, ?_, by simpa [length_mapFrom] using h.pad, by simpa [length_mapFrom] using h.size⟩
    · intro j hj s hs0
      have hj' : j < c.cells.length := by simpa [length_mapFrom] using hj
      have hs : s ∈ (evictCell seq (low - w) old j c.cells[j]).seqs := by
        have := getElem_mapFrom (evictCell seq (low - w) old) 0 c.cells j hj'
        simp only [Nat.zero_add] at this
        rw [← this]; exact hs0
      have horig : s ∈ c.cells[j].seqs := by
        unfold evictCell at hs
        split at hs
        · exact (mem_dropSeq hs).1
        · exact hs
      obtain ⟨r, hr', hmin, hmax⟩ := h.cover j hj' s horig
      by_cases hseq : s = seq
      · subst hseq
        rw [hr] at hr'; cases hr'
        have hkeep : keepsSeq s (low - w) old j c.cells[j] = true := by
          unfold evictCell at hs
          split at hs
          · exact absurd rfl (mem_dropSeq hs).2
          · rename_i hne
            simp only [keepsSeq, decide_eq_true_eq]
            refine ⟨hmin, hmax, horig, ?_⟩
            intro hlt
            exact hne ⟨hmin, hmax, horig, hlt⟩
        exact ⟨rangeOf (keepsSeq s (low - w) old) c.cells, by simp [setRange], rangeOf_covers _ _ j hj' hkeep⟩
      · exact ⟨r, by simp [setRange, hseq, hr'], hmin, hmax⟩
    · intro s r hs
      simp only [length_mapFrom]
      simp only [setRange] at hs
      split at hs
      · cases hs
        exact rangeOf_max_lt _ _
      · exact h.rmax s r hs

theorem foldl_inv {α} (f : Cache → α → Cache) (hf : ∀ c a, Inv c → Inv (f c a)) (l : List α) (c : Cache)
    (h : Inv c) : Inv (l.foldl f c) := by
  induction l generalizing c with
  | nil => exact h
  | cons a as ih => exact ih _ (hf c a h)

theorem slide_inv (c : Cache) (b : List Tok) (h : Inv c) : Inv (slide c b) := by
  unfold slide
  cases c.window with
  | none => exact h
  | some w =>
    apply foldl_inv _ _ _ _ h
    intro c seq hc
    cases lowest b seq with
    | none => exact hc
    | some low => exact slideSeq_inv c w seq low hc

/-- what placement needs from `defrag`'s data movement: sizes kept, cells only moved or emptied -/
def CellsMoved (cells' cells : List Cell) : Prop :=
  cells'.length = cells.length ∧ ∀ x ∈ cells', x.seqs = [] ∨ x ∈ cells

theorem defrag_inv (c : Cache) (h : Inv c)
    (hm : CellsMoved (defragCore c.v.fixDefrag c.cells c.rows).1 c.cells)
    (hr : (defragCore c.v.fixDefrag c.cells c.rows).2.length = c.rows.length) : Inv (defrag c) := by
  unfold defrag
  simp only
  obtain ⟨hlen, hsub⟩ := hm
  refine ⟨?_, ?_, ?_, by simpa [hlen] using h.pad, by simpa [hlen] using h.size⟩
  · simp only [hlen]
    split
    · rw [hr]; exact h.len
    · exact h.len
  · intro j hj s hs0
    have hj' : j < (defragCore c.v.fixDefrag c.cells c.rows).1.length := hj
    have hs : s ∈ ((defragCore c.v.fixDefrag c.cells c.rows).1[j]).seqs := hs0
    have hx := hsub _ (List.getElem_mem hj')
    rcases hx with hx | hx
    · rw [hx] at hs; simp at hs
    · obtain ⟨k, hk, hk'⟩ := List.getElem_of_mem hx
      have hs2 : s ∈ c.cells[k].seqs := by rw [hk']; exact hs
      obtain ⟨r, hr', _⟩ := h.cover k hk s hs2
      refine ⟨rangeOf (hasSeq s) (defragCore c.v.fixDefrag c.cells c.rows).1, by simp [hr'], ?_⟩
      exact rangeOf_covers _ _ j hj' (by simpa [hasSeq] using hs)
  · intro s r hs
    cases ho : c.ranges s with
    | none => simp [ho] at hs
    | some r0 =>
      simp only [ho, Option.map_some, Option.some.injEq] at hs
      subst hs
      exact rangeOf_max_lt _ _

/-! ### placement -/

/-- the current range contains the range of every sequence in `S`, and ends inside the cache -/
structure CurOK (c : Cache) (S : List Tok) : Prop where
  sub : ∀ t ∈ S, ∃ r, c.ranges t.seq = some r ∧ c.curRange.min ≤ r.min ∧ r.max ≤ c.curRange.max
  cmax : c.curRange.max < c.cells.length ∨ c.curRange.max = 0

theorem placeTok_inv (c : Cache) (idx : Nat) (t : Tok) (h : Inv c) (hidx : idx < c.cells.length) :
    Inv (placeTok c idx t) := by
  unfold placeTok
  refine ⟨by simpa using h.len, ?_, ?_, by simpa using h.pad, by simpa using h.size⟩
  · intro j hj s hs0
    have hj' : j < c.cells.length := by simpa using hj
    have hs : s ∈ ((c.cells.set idx ⟨t.pos, [t.seq]⟩)[j]'(by simpa using hj')).seqs := hs0
    rw [List.getElem_set] at hs
    by_cases hji : idx = j
    · subst hji
      simp only [if_true, List.mem_singleton] at hs
      subst hs
      refine ⟨((c.ranges t.seq).getD Range.new).add idx, by simp [setRange], ?_⟩
      exact ⟨(Range.add_min_le _ _).2, (Range.add_max_ge _ _).2⟩
    · simp only [hji, if_false] at hs
      obtain ⟨r, hr, hmin, hmax⟩ := h.cover j hj' s hs
      by_cases hseq : s = t.seq
      · subst hseq
        refine ⟨((c.ranges t.seq).getD Range.new).add idx, by simp [setRange], ?_⟩
        simp only [hr, Option.getD_some]
        have h1 := Range.add_min_le r idx
        have h2 := Range.add_max_ge r idx
        omega
      · exact ⟨r, by simp [setRange, hseq, hr], hmin, hmax⟩
  · intro s r hs
    simp only [List.length_set]
    simp only [setRange] at hs
    split at hs
    · cases hs
      have := Range.add_max_le ((c.ranges t.seq).getD Range.new) idx
      cases hr : c.ranges t.seq with
      | none => simp only [hr, Option.getD_none, Range.new] at this ⊢; omega
      | some r0 =>
        simp only [hr, Option.getD_some] at this ⊢
        have := h.rmax _ _ hr
        omega
    · exact h.rmax s r hs

theorem placeTok_cur (c : Cache) (idx : Nat) (t : Tok) (S : List Tok) (h : Inv c) (hc : CurOK c S)
    (hidx : idx < c.cells.length) : CurOK (placeTok c idx t) (t :: S) := by
  have hrm : ∀ r, c.ranges t.seq = some r → r.max < c.cells.length ∨ r.max = 0 := fun r hr => h.rmax _ _ hr
  unfold placeTok
  constructor
  · intro u hu
    simp only
    by_cases hseq : u.seq = t.seq
    · refine ⟨((c.ranges t.seq).getD Range.new).add idx, by simp [setRange, hseq], ?_⟩
      constructor <;> split <;> omega
    · have hu' : u ∈ S := by
        rcases List.mem_cons.mp hu with rfl | hu'
        · exact absurd rfl hseq
        · exact hu'
      obtain ⟨r, hr, hmin, hmax⟩ := hc.sub u hu'
      refine ⟨r, by simp [setRange, hseq, hr], ?_⟩
      constructor <;> split <;> omega
  · simp only [List.length_set]
    have := Range.add_max_le ((c.ranges t.seq).getD Range.new) idx
    have hcm := hc.cmax
    split
    · cases hr : c.ranges t.seq with
      | none => simp only [hr, Option.getD_none, Range.new] at this ⊢; omega
      | some r0 =>
        simp only [hr, Option.getD_some] at this ⊢
        have := hrm _ hr
        omega
    · exact hcm

theorem place_length (c : Cache) (idx : Nat) (toks : List Tok) : (place c idx toks).cells.length = c.cells.length := by
  induction toks generalizing c idx with
  | nil => rfl
  | cons t ts ih => simp [place, ih, placeTok]

theorem place_window (c : Cache) (idx : Nat) (toks : List Tok) : (place c idx toks).window = c.window := by
  induction toks generalizing c idx with
  | nil => rfl
  | cons t ts ih => simp [place, ih, placeTok]

theorem place_except (c : Cache) (idx : Nat) (toks : List Tok) : (place c idx toks).except = c.except := by
  induction toks generalizing c idx with
  | nil => rfl
  | cons t ts ih => simp [place, ih, placeTok]

theorem place_pad (c : Cache) (idx : Nat) (toks : List Tok) : (place c idx toks).cachePad = c.cachePad := by
  induction toks generalizing c idx with
  | nil => rfl
  | cons t ts ih => simp [place, ih, placeTok]

theorem place_inv (c : Cache) (idx : Nat) (toks S : List Tok) (h : Inv c) (hc : CurOK c S)
    (hfit : idx + toks.length ≤ c.cells.length) :
    Inv (place c idx toks) ∧ ∀ t, (t ∈ toks ∨ t ∈ S) →
      ∃ r, (place c idx toks).ranges t.seq = some r ∧ (place c idx toks).curRange.min ≤ r.min ∧ r.max ≤ (place c idx toks).curRange.max := by
  induction toks generalizing c idx S with
  | nil =>
    refine ⟨h, ?_⟩
    intro t ht
    rcases ht with ht | ht
    · simp at ht
    · exact hc.sub t ht
  | cons t ts ih =>
    simp only [List.length_cons] at hfit
    have hidx : idx < c.cells.length := by omega
    have h1 := placeTok_inv c idx t h hidx
    have h2 := placeTok_cur c idx t S h hc hidx
    have hl : (placeTok c idx t).cells.length = c.cells.length := by simp [placeTok]
    obtain ⟨hi, hcov⟩ := ih (placeTok c idx t) (idx + 1) (t :: S) h1 h2 (by rw [hl]; omega)
    refine ⟨hi, ?_⟩
    intro u hu
    apply hcov
    rcases hu with hu | hu
    · rcases List.mem_cons.mp hu with rfl | hu'
      · exact Or.inr (by simp)
      · exact Or.inl hu'
    · exact Or.inr (by simp [hu])

theorem place_cmax (c : Cache) (idx : Nat) (toks S : List Tok) (h : Inv c) (hc : CurOK c S)
    (hfit : idx + toks.length ≤ c.cells.length) :
    (place c idx toks).curRange.max < c.cells.length ∨ (place c idx toks).curRange.max = 0 := by
  induction toks generalizing c idx S with
  | nil => exact hc.cmax
  | cons t ts ih =>
    simp only [List.length_cons] at hfit
    have hidx : idx < c.cells.length := by omega
    have h1 := placeTok_inv c idx t h hidx
    have h2 := placeTok_cur c idx t S h hc hidx
    have hl : (placeTok c idx t).cells.length = c.cells.length := by simp [placeTok]
    have := ih (placeTok c idx t) (idx + 1) (t :: S) h1 h2 (by rw [hl]; omega)
    rw [hl] at this
    exact this

theorem roundUp_ge (m pad : Nat) (hp : 0 < pad) : m ≤ roundUp m pad := by
  unfold roundUp
  have h1 := Nat.div_add_mod (m + pad - 1) pad
  have h2 := Nat.mod_lt (m + pad - 1) hp
  rw [Nat.mul_comm] at h1
  omega

theorem roundUp_le (m pad n : Nat) (hp : 0 < pad) (hn : n % pad = 0) (hm : m ≤ n) : roundUp m pad ≤ n := by
  unfold roundUp
  obtain ⟨q, hq⟩ : ∃ q, n = q * pad := ⟨n / pad, by have := Nat.div_add_mod n pad; rw [hn, Nat.mul_comm] at this; omega⟩
  subst hq
  apply Nat.mul_le_mul_right
  apply Nat.le_of_lt_succ
  rw [Nat.div_lt_iff_lt_mul hp, Nat.succ_mul]
  omega

theorem roundDown_le (m pad : Nat) : roundDown m pad ≤ m := Nat.div_mul_le_self m pad

theorem findStartFrom_fits (k : Nat) (cells : List Cell) (i start count s : Nat)
    (h : findStartFrom k cells i start count = some s) (hinv : start + count = i) :
    s + k ≤ i + cells.length ∧ 0 < cells.length := by
  induction cells generalizing i start count with
  | nil => simp [findStartFrom] at h
  | cons c cs ih =>
    unfold findStartFrom at h
    simp only [List.length_cons]
    split at h
    · split at h
      · cases h; omega
      · have := ih (i + 1) start (count + 1) h (by omega); omega
    · have := ih (i + 1) (i + 1) 0 h (by omega); omega

/-! ### defrag only moves cells -/

theorem getD_mem_or {α} (l : List α) (i : Nat) (d : α) : l.getD i d = d ∨ l.getD i d ∈ l := by
  by_cases h : i < l.length
  · right; simp [List.getD_eq_getElem?_getD, List.getElem?_eq_getElem h]
  · left; simp [List.getD_eq_getElem?_getD, List.getElem?_eq_none (by omega : l.length ≤ i)]

theorem length_moveRowsFrom (old : List Row) (src dst len i : Nat) (rows : List Row) :
    (moveRowsFrom old src dst len i rows).length = rows.length := by
  induction rows generalizing i with
  | nil => rfl
  | cons r rs ih => simp [moveRowsFrom, ih]

theorem length_moveRows (rows : List Row) (src dst len : Nat) : (moveRows rows src dst len).length = rows.length :=
  length_moveRowsFrom _ _ _ _ _ _

theorem mem_mapFrom {f : Nat → Cell → Cell} {i : Nat} {l : List Cell} {x : Cell} (h : x ∈ mapFrom f i l) :
    ∃ k c, c ∈ l ∧ x = f k c := by
  induction l generalizing i with
  | nil => simp [mapFrom] at h
  | cons a as ih =>
    simp only [mapFrom, List.mem_cons] at h
    rcases h with h | h
    · exact ⟨i, a, by simp, h⟩
    · obtain ⟨k, c, hc, hx⟩ := ih h
      exact ⟨k, c, by simp [hc], hx⟩

/-- loop invariant of `defrag`: sizes are kept and every cell is an original cell or unowned -/
structure DInv (cells : List Cell) (rows : List Row) (st : DS) : Prop where
  clen : st.cells.length = cells.length
  rlen : st.rows.length = rows.length
  sub : ∀ x ∈ st.cells, x.seqs = [] ∨ x ∈ cells

theorem sub_set {cells l : List Cell} (h : ∀ x ∈ l, x.seqs = [] ∨ x ∈ cells) (i : Nat) (a : Cell)
    (ha : a.seqs = [] ∨ a ∈ cells) : ∀ x ∈ l.set i a, x.seqs = [] ∨ x ∈ cells := by
  intro x hx
  rcases List.mem_or_eq_of_mem_set hx with hx | hx
  · exact h x hx
  · rw [hx]; exact ha

theorem sub_getD {cells l : List Cell} (h : ∀ x ∈ l, x.seqs = [] ∨ x ∈ cells) (i : Nat) :
    (l.getD i Cell.empty).seqs = [] ∨ l.getD i Cell.empty ∈ cells := by
  rcases getD_mem_or l i Cell.empty with hx | hx
  · left; rw [hx]; rfl
  · exact h _ hx

theorem fillHole_dinv (fix : Bool) (cells : List Cell) (rows : List Row) (st : DS) (dst s : Nat)
    (h : DInv cells rows st) : DInv cells rows (fillHole fix st dst s) := by
  have hsub2 : ∀ x ∈ (st.cells.set dst (st.cells.getD s Cell.empty)).set s Cell.empty, x.seqs = [] ∨ x ∈ cells :=
    sub_set (sub_set h.sub dst _ (sub_getD h.sub s)) s _ (Or.inl rfl)
  have hrot : ∀ pDst, ∀ x ∈ rotateIn ((st.cells.set dst (st.cells.getD s Cell.empty)).set s Cell.empty) pDst dst,
      x.seqs = [] ∨ x ∈ cells := by
    intro pDst x hx
    unfold rotateIn at hx
    obtain ⟨k, c, hc, hxe⟩ := mem_mapFrom hx
    subst hxe
    split
    · exact sub_getD hsub2 dst
    · split
      · rcases getD_mem_or ((st.cells.set dst (st.cells.getD s Cell.empty)).set s Cell.empty) (k - 1) c with hx | hx
        · rw [hx]; exact hsub2 c hc
        · exact hsub2 _ hx
      · exact hsub2 c hc
  unfold fillHole
  simp only
  split
  · split
    · split
      · exact ⟨by simp [rotateIn, length_mapFrom, h.clen], h.rlen, hrot _⟩
      · exact ⟨by simp [h.clen], by simp [length_moveRows, h.rlen], hsub2⟩
    · split
      · exact ⟨by simp [h.clen], h.rlen, hsub2⟩
      · exact ⟨by simp [h.clen], by simp [length_moveRows, h.rlen], hsub2⟩
  · exact ⟨by simp [h.clen], h.rlen, hsub2⟩

theorem defragLoop_dinv (fix : Bool) (cells : List Cell) (rows : List Row) (fuel : Nat) (st : DS) (dst src : Nat)
    (h : DInv cells rows st) : DInv cells rows (defragLoop fix fuel st dst src) := by
  induction fuel generalizing st dst src with
  | zero => exact h
  | succ f ih =>
    unfold defragLoop
    split
    · split
      · simp only
        split
        · exact ih _ _ _ (fillHole_dinv fix cells rows st dst _ h)
        · exact ih _ _ _ h
      · exact ih _ _ _ h
    · exact h

theorem defragCore_moved (fix : Bool) (cells : List Cell) (rows : List Row) :
    CellsMoved (defragCore fix cells rows).1 cells ∧ (defragCore fix cells rows).2.length = rows.length := by
  have h := defragLoop_dinv fix cells rows cells.length ⟨cells, rows, 0, 0, 0⟩ 0 (cells.length - 1)
    ⟨rfl, rfl, fun x hx => Or.inr hx⟩
  unfold defragCore
  simp only
  refine ⟨⟨h.clen, h.sub⟩, ?_⟩
  split
  · rw [length_moveRows]; exact h.rlen
  · exact h.rlen

/-! ### the block returned by findStartLoc is free -/

theorem findStartFrom_holes (k : Nat) (pre cells : List Cell) (start count s : Nat)
    (h : findStartFrom k cells pre.length start count = some s) (hinv : start + count = pre.length)
    (hpre : ∀ j, start ≤ j → j < pre.length → ((pre ++ cells).getD j Cell.empty).seqs = []) :
    ∀ j, s ≤ j → j < s + k → ((pre ++ cells).getD j Cell.empty).seqs = [] := by
  induction cells generalizing pre start count with
  | nil => simp [findStartFrom] at h
  | cons c cs ih =>
    unfold findStartFrom at h
    have hidx : ((pre ++ c :: cs).getD pre.length Cell.empty) = c := by
      simp [List.getD_eq_getElem?_getD]
    have happ : pre ++ c :: cs = (pre ++ [c]) ++ cs := by simp
    split at h
    · rename_i hc
      split at h
      · cases h
        intro j hj1 hj2
        by_cases hjp : j < pre.length
        · exact hpre j hj1 hjp
        · have : j = pre.length := by omega
          subst this; rw [hidx]; exact hc
      · rw [happ]
        apply ih (pre ++ [c]) start (count + 1) (by simpa using h) (by simp; omega)
        intro j hj1 hj2
        rw [← happ]
        by_cases hjp : j < pre.length
        · exact hpre j hj1 hjp
        · have : j = pre.length := by simp at hj2; omega
          subst this; rw [hidx]; exact hc
    · rw [happ]
      apply ih (pre ++ [c]) (pre.length + 1) 0 (by simpa using h) (by simp)
      intro j hj1 hj2
      simp at hj2
      omega

theorem findStart_holes (cells : List Cell) (k s : Nat) (h : findStart cells k = some s) :
    ∀ j, s ≤ j → j < s + k → (cells.getD j Cell.empty).seqs = [] := by
  have := findStartFrom_holes k [] cells 0 0 s (by simpa [findStart] using h) rfl (by intro j _ hj; simp at hj)
  simpa using this

/-! ### what placement and the unwind do to the cells -/

def placeCells : List Cell → Nat → List Tok → List Cell
  | cells, _, [] => cells
  | cells, idx, t :: ts => placeCells (cells.set idx ⟨t.pos, [t.seq]⟩) (idx + 1) ts

theorem place_cells (c : Cache) (idx : Nat) (toks : List Tok) :
    (place c idx toks).cells = placeCells c.cells idx toks ∧ (place c idx toks).rows = c.rows ∧
    (place c idx toks).hasShift = c.hasShift ∧ (place c idx toks).hasLayers = c.hasLayers ∧
    (place c idx toks).curLoc = c.curLoc := by
  induction toks generalizing c idx with
  | nil => simp [place, placeCells]
  | cons t ts ih =>
    have := ih (placeTok c idx t) (idx + 1)
    simpa [place, placeCells, placeTok] using this

theorem length_placeCells (cells : List Cell) (idx : Nat) (toks : List Tok) :
    (placeCells cells idx toks).length = cells.length := by
  induction toks generalizing cells idx with
  | nil => rfl
  | cons t ts ih => simp [placeCells, ih]

/-- outside the block nothing changes; inside, the cell is owned by exactly one batch token's
    sequence at that token's position -/
theorem getD_placeCells (cells : List Cell) (idx : Nat) (toks : List Tok) (j : Nat)
    (hfit : idx + toks.length ≤ cells.length) :
    (j < idx ∨ idx + toks.length ≤ j → (placeCells cells idx toks).getD j Cell.empty = cells.getD j Cell.empty) ∧
    (idx ≤ j → j < idx + toks.length →
      ∃ t ∈ toks, (placeCells cells idx toks).getD j Cell.empty = ⟨t.pos, [t.seq]⟩) := by
  induction toks generalizing cells idx with
  | nil => simp [placeCells]
  | cons t ts ih =>
    simp only [List.length_cons] at hfit
    have hi := ih (cells.set idx ⟨t.pos, [t.seq]⟩) (idx + 1) (by simp; omega)
    simp only [placeCells, List.length_cons]
    constructor
    · intro hout
      rw [hi.1 (by omega)]
      have : idx ≠ j := by omega
      simp [List.getD_eq_getElem?_getD, List.getElem?_set, this]
    · intro h1 h2
      by_cases hj : j = idx
      · subst hj
        refine ⟨t, by simp, ?_⟩
        rw [hi.1 (by omega)]
        have : j < cells.length := by omega
        simp [List.getD_eq_getElem?_getD, List.getElem?_set, this]
      · obtain ⟨u, hu, he⟩ := hi.2 (by omega) (by omega)
        exact ⟨u, by simp [hu], he⟩

/-- `Remove(seq, p, MaxInt32)` on one cell whose position is a real int32 -/
def rmInf (seq : Nat) (p : Int) (x : Cell) : Cell :=
  if seq ∈ x.seqs ∧ p ≤ x.pos then dropSeq seq x else x

/-- all recorded positions are below the `MaxInt32` sentinel -/
def PosBound (cells : List Cell) : Prop := ∀ x ∈ cells, ∀ s ∈ x.seqs, x.pos < maxInt32

theorem rmCell_inf (seq : Nat) (p : Int) (x : Cell) (hx0 : ∀ s ∈ x.seqs, x.pos < maxInt32) :
    rmCell seq p maxInt32 (rmOffset p maxInt32) x = rmInf seq p x := by
  unfold rmCell rmInf
  by_cases h1 : seq ∈ x.seqs
  · have hx := hx0 seq h1
    by_cases h2 : p ≤ x.pos
    · simp [h1, h2, hx]
    · have : ¬ x.pos ≥ maxInt32 := by omega
      simp [h1, h2, this]
  · simp [h1]

theorem remove_inf (c : Cache) (seq : Nat) (p : Int) (hb : PosBound c.cells) :
    (remove c seq p maxInt32).1.cells = c.cells.map (rmInf seq p) ∧
    (remove c seq p maxInt32).1.rows = c.rows ∧ (remove c seq p maxInt32).2 = .ok := by
  have hflag : (removeCells seq p maxInt32 (rmOffset p maxInt32) c.cells).2 = false := by
    rw [removeCells_flag]
    apply List.any_eq_false.mpr
    intro x hx
    by_cases hs : seq ∈ x.seqs
    · have := hb x hx seq hs
      have h3 : ¬ x.pos ≥ maxInt32 := by omega
      simp [refuseCell, h3]
    · simp [refuseCell, hs]
  have hcells := removeCells_ok seq p maxInt32 _ c.cells hflag
  have hmap : c.cells.map (rmCell seq p maxInt32 (rmOffset p maxInt32)) = c.cells.map (rmInf seq p) := by
    apply List.map_congr_left
    intro x hx
    exact rmCell_inf seq p x (hb x hx)
  unfold remove
  simp only [hflag, Bool.false_eq_true, if_false, hcells, hmap]
  split <;> simp

theorem posBound_map_rmInf (cells : List Cell) (seq : Nat) (p : Int) (h : PosBound cells) :
    PosBound (cells.map (rmInf seq p)) := by
  intro x hx s hs
  obtain ⟨y, hy, rfl⟩ := List.mem_map.mp hx
  have hpos : (rmInf seq p y).pos = y.pos := by unfold rmInf; split <;> simp [dropSeq]
  rw [hpos]
  unfold rmInf at hs
  split at hs
  · exact h y hy s (mem_dropSeq hs).1
  · exact h y hy s hs

/-- with positions below `MaxInt32` a removal to the end is never refused, so the repaired `Remove`
    behaves like the pinned one -/
theorem removeV_inf (c : Cache) (seq : Nat) (p : Int) (hb : PosBound c.cells) :
    removeV c seq p maxInt32 = remove c seq p maxInt32 := by
  unfold removeV
  split
  · have hg : removeGuard c seq p maxInt32 = none := by
      unfold removeGuard
      have h1 : c.cells.any (fun x => decide (seq ∈ x.seqs) && !(decide (p ≤ x.pos ∧ x.pos < maxInt32))
          && decide (x.pos ≥ maxInt32) && sharedOther seq x.seqs) = false := by
        rw [List.any_eq_false]
        intro x hx
        by_cases hs : seq ∈ x.seqs
        · have := hb x hx seq hs
          have h2 : ¬ x.pos ≥ maxInt32 := by omega
          simp [h2]
        · simp [hs]
      rw [h1]
      simp
    rw [hg]
  · rfl

/-- the whole unwind on one cell -/
def unwCell (b : List Tok) (x : Cell) : Cell := b.foldl (fun x t => rmInf t.seq t.pos x) x

theorem unwind_cells (c : Cache) (b : List Tok) (hb : PosBound c.cells) :
    (unwind c b).cells = c.cells.map (unwCell b) ∧ (unwind c b).rows = c.rows := by
  induction b generalizing c with
  | nil =>
    have : (fun x => unwCell [] x) = id := by funext x; rfl
    simp [unwind, this]
  | cons t ts ih =>
    obtain ⟨h1, h2, _⟩ := remove_inf c t.seq t.pos hb
    have hb' : PosBound (remove c t.seq t.pos maxInt32).1.cells := by
      rw [h1]; exact posBound_map_rmInf _ _ _ hb
    have := ih (remove c t.seq t.pos maxInt32).1 hb'
    simp only [unwind, List.foldl_cons] at this ⊢
    rw [removeV_inf c t.seq t.pos hb, this.1, this.2, h1, h2]
    simp [unwCell, List.map_map, Function.comp]

theorem unwCell_pos (b : List Tok) (x : Cell) : (unwCell b x).pos = x.pos := by
  induction b generalizing x with
  | nil => rfl
  | cons t ts ih =>
    simp only [unwCell, List.foldl_cons] at ih ⊢
    rw [ih]
    unfold rmInf; split <;> simp [dropSeq]

theorem unwCell_sub (b : List Tok) (x : Cell) : ∀ s ∈ (unwCell b x).seqs, s ∈ x.seqs := by
  induction b generalizing x with
  | nil => intro s hs; exact hs
  | cons t ts ih =>
    intro s hs
    simp only [unwCell, List.foldl_cons] at ih hs
    have := ih _ s hs
    unfold rmInf at this
    split at this
    · exact (mem_dropSeq this).1
    · exact this

theorem unwCell_drops (b : List Tok) (x : Cell) (t : Tok) (ht : t ∈ b) (hp : t.pos ≤ x.pos) :
    t.seq ∉ (unwCell b x).seqs := by
  induction b generalizing x with
  | nil => simp at ht
  | cons u us ih =>
    simp only [unwCell, List.foldl_cons]
    rcases List.mem_cons.mp ht with rfl | ht'
    · intro hmem
      have hsub := unwCell_sub us (rmInf t.seq t.pos x) t.seq (by simpa [unwCell] using hmem)
      unfold rmInf at hsub
      split at hsub
      · exact (mem_dropSeq hsub).2 rfl
      · rename_i hne; exact hne ⟨hsub, hp⟩
    · have hpos : (rmInf u.seq u.pos x).pos = x.pos := by unfold rmInf; split <;> simp [dropSeq]
      have := ih (rmInf u.seq u.pos x) ht' (by rw [hpos]; exact hp)
      simpa [unwCell] using this

/-- a cell the batch does not reach (no token of one of its sequences at or below its position) is
    left alone by the unwind -/
theorem unwCell_id (b : List Tok) (x : Cell) (h : ∀ t ∈ b, t.seq ∈ x.seqs → x.pos < t.pos) : unwCell b x = x := by
  induction b with
  | nil => rfl
  | cons u us ih =>
    simp only [unwCell, List.foldl_cons]
    have hu : rmInf u.seq u.pos x = x := by
      unfold rmInf
      split
      · rename_i hc
        have := h u (by simp) hc.1
        omega
      · rfl
    rw [hu]
    exact ih (fun t ht => h t (by simp [ht]))

theorem mem_placeCells (cells : List Cell) (idx : Nat) (toks : List Tok) (x : Cell)
    (h : x ∈ placeCells cells idx toks) : x ∈ cells ∨ ∃ t ∈ toks, x = ⟨t.pos, [t.seq]⟩ := by
  induction toks generalizing cells idx with
  | nil => exact Or.inl h
  | cons t ts ih =>
    rcases ih _ _ h with h1 | ⟨u, hu, he⟩
    · rcases List.mem_or_eq_of_mem_set h1 with h2 | h2
      · exact Or.inl h2
      · exact Or.inr ⟨t, by simp, h2⟩
    · exact Or.inr ⟨u, by simp [hu], he⟩

theorem getD_map_lt {α β} (f : α → β) (l : List α) (j : Nat) (h : j < l.length) (d : β) (d' : α) :
    (l.map f).getD j d = f (l.getD j d') := by
  simp [List.getD_eq_getElem?_getD, List.getElem?_eq_getElem h]

theorem getD_mem {α} (l : List α) (j : Nat) (h : j < l.length) (d : α) : l.getD j d ∈ l := by
  simp [List.getD_eq_getElem?_getD, List.getElem?_eq_getElem h]

/-! ### exact contents of the placed block (cells and rows) -/

instance : Inhabited Tok := ⟨⟨0, 0⟩⟩

theorem getD_set_eq {α} (l : List α) (i : Nat) (a d : α) (h : i < l.length) : (l.set i a).getD i d = a := by
  simp [List.getD_eq_getElem?_getD, h]

theorem getD_set_ne {α} (l : List α) (i j : Nat) (a d : α) (h : i ≠ j) : (l.set i a).getD j d = l.getD j d := by
  simp [List.getD_eq_getElem?_getD, List.getElem?_set_ne h]

theorem getD_placeCells_block (cells : List Cell) (idx : Nat) (toks : List Tok) (k : Nat)
    (hfit : idx + toks.length ≤ cells.length) (hk : k < toks.length) :
    (placeCells cells idx toks).getD (idx + k) Cell.empty = ⟨(toks.getD k default).pos, [(toks.getD k default).seq]⟩ := by
  induction toks generalizing cells idx k with
  | nil => simp at hk
  | cons t ts ih =>
    simp only [List.length_cons] at hfit hk
    simp only [placeCells]
    cases k with
    | zero =>
      have := (getD_placeCells (cells.set idx ⟨t.pos, [t.seq]⟩) (idx + 1) ts idx (by simp; omega)).1 (Or.inl (by omega))
      simp only [Nat.add_zero, this, List.getD_cons_zero]
      exact getD_set_eq _ _ _ _ (by omega)
    | succ k =>
      have := ih (cells.set idx ⟨t.pos, [t.seq]⟩) (idx + 1) k (by simp; omega) (by omega)
      rw [show idx + (k + 1) = idx + 1 + k by omega, this]
      simp

theorem getD_putRows (rows : List Row) (idx : Nat) (ids : List Nat) (j : Nat)
    (hfit : idx + ids.length ≤ rows.length) :
    (j < idx ∨ idx + ids.length ≤ j → (putRows rows idx ids).getD j default = rows.getD j default) := by
  induction ids generalizing rows idx with
  | nil => intro _; rfl
  | cons a as ih =>
    simp only [List.length_cons] at hfit ⊢
    intro hout
    simp only [putRows]
    rw [ih (rows.set idx ⟨a, 0⟩) (idx + 1) (by simp; omega) (by omega)]
    exact getD_set_ne _ _ _ _ _ (by omega)

theorem getD_putRows_block (rows : List Row) (idx : Nat) (ids : List Nat) (k : Nat)
    (hfit : idx + ids.length ≤ rows.length) (hk : k < ids.length) :
    (putRows rows idx ids).getD (idx + k) default = ⟨ids.getD k 0, 0⟩ := by
  induction ids generalizing rows idx k with
  | nil => simp at hk
  | cons a as ih =>
    simp only [List.length_cons] at hfit hk
    simp only [putRows]
    cases k with
    | zero =>
      simp only [Nat.add_zero]
      rw [getD_putRows (rows.set idx ⟨a, 0⟩) (idx + 1) as idx (by simp; omega) (Or.inl (by omega))]
      simp only [List.getD_cons_zero]
      exact getD_set_eq _ _ _ _ (by omega)
    | succ k =>
      have := ih (rows.set idx ⟨a, 0⟩) (idx + 1) k (by simp; omega) (by omega)
      rw [show idx + (k + 1) = idx + 1 + k by omega, this]
      simp

theorem range_split3 (n lo len : Nat) (h : lo + len ≤ n) :
    List.range n = List.range' 0 lo ++ (List.range' lo len ++ List.range' (lo + len) (n - (lo + len))) := by
  rw [List.range_eq_range']
  have e1 : List.range' lo len ++ List.range' (lo + len) (n - (lo + len)) = List.range' lo (len + (n - (lo + len))) := by
    simpa using (List.range'_append_1 (s := lo) (m := len) (n := n - (lo + len)))
  have e2 : List.range' 0 lo ++ List.range' lo (len + (n - (lo + len))) = List.range' 0 (lo + (len + (n - (lo + len)))) := by
    simpa using (List.range'_append_1 (s := 0) (m := lo) (n := len + (n - (lo + len))))
  rw [e1, e2]
  congr 1
  omega

/-- a block of `some`s produced by consecutive indices is a `map` over the offsets -/
theorem filterMap_block {β} (f : Nat → Option β) (g : Nat → β) (lo len : Nat)
    (h : ∀ k, k < len → f (lo + k) = some (g k)) :
    (List.range' lo len).filterMap f = (List.range len).map g := by
  induction len generalizing lo g with
  | zero => simp
  | succ m ih =>
    rw [List.range'_succ, List.filterMap_cons, show f lo = some (g 0) from by simpa using h 0 (by omega)]
    rw [List.range_succ_eq_map, List.map_cons, List.map_map]
    simp only
    congr 1
    exact ih (g ∘ Nat.succ) (lo + 1) (fun k hk => by
      have := h (k + 1) (by omega)
      rw [show lo + (k + 1) = lo + 1 + k by omega] at this
      simpa using this)

/-! ### Inv is kept by Put, CopyPrefix and Remove (all outcomes) -/

theorem length_putRows (rows : List Row) (idx : Nat) (ids : List Nat) : (putRows rows idx ids).length = rows.length := by
  induction ids generalizing rows idx with
  | nil => rfl
  | cons a as ih => simp [putRows, ih]

theorem put_inv (c : Cache) (ids : List Nat) (h : Inv c) : Inv (put c ids) :=
  ⟨by simpa [put, length_putRows] using h.len, h.cover, h.rmax, h.pad, h.size⟩

theorem mem_cpSeqs {src dst s : Nat} {len pos : Int} {seqs : List Nat} (h : s ∈ cpSeqs src dst len pos seqs) :
    s = dst ∨ s ∈ seqs := by
  unfold cpSeqs at h
  simp only at h
  split at h
  · rcases List.mem_append.mp h with h | h
    · right; exact (List.mem_filter.mp h).1
    · left; simpa using h
  · right; exact (List.mem_filter.mp h).1

theorem copyPrefix_inv (c : Cache) (src dst : Nat) (len : Int) (h : Inv c) : Inv (copyPrefix c src dst len) := by
  unfold copyPrefix
  simp only
  refine ⟨by simpa using h.len, ?_, ?_, by simpa using h.pad, by simpa using h.size⟩
  · intro j hj s hs0
    have hj' : j < c.cells.length := by simpa using hj
    have hs : s ∈ (cpCell src dst len c.cells[j]).seqs := by simpa using hs0
    by_cases hsd : s = dst
    · subst hsd
      refine ⟨rangeOf (hasSeq s) (c.cells.map (cpCell src s len)), by simp [setRange], ?_⟩
      exact rangeOf_covers _ _ j (by simpa using hj') (by simpa [hasSeq] using hs)
    · rcases mem_cpSeqs hs with h1 | h1
      · exact absurd h1 hsd
      · obtain ⟨r, hr, hb⟩ := h.cover j hj' s h1
        exact ⟨r, by simp [setRange, hsd, hr], hb⟩
  · intro s r hs
    simp only [setRange] at hs
    split at hs
    · cases hs
      have := rangeOf_max_lt (hasSeq dst) (c.cells.map (cpCell src dst len))
      simpa using this
    · simpa using h.rmax s r hs

theorem length_removeCells (seq : Nat) (b e off : Int) (cells : List Cell) :
    (removeCells seq b e off cells).1.length = cells.length := by
  induction cells with
  | nil => rfl
  | cons c cs ih =>
    unfold removeCells
    split
    · split
      · simp [ih]
      · split
        · split
          · rfl
          · simp [ih]
        · simp [ih]
    · simp [ih]

/-- `Remove`'s loop never adds an owner to a cell, whether or not it bails out -/
theorem removeCells_sub (seq : Nat) (b e off : Int) (cells : List Cell) (j : Nat)
    (hj : j < cells.length) :
    ∀ s ∈ ((removeCells seq b e off cells).1[j]'(by rw [length_removeCells]; exact hj)).seqs, s ∈ cells[j].seqs := by
  induction cells generalizing j with
  | nil => simp at hj
  | cons c cs ih =>
    have key : ∀ (hd : Cell) (tl : List Cell) (hl : tl.length = cs.length)
        (hhd : ∀ s ∈ hd.seqs, s ∈ c.seqs)
        (htl : ∀ k (hk : k < cs.length), ∀ s ∈ (tl[k]'(by rw [hl]; exact hk)).seqs, s ∈ cs[k].seqs),
        ∀ (hjj : j < (hd :: tl).length), ∀ s ∈ ((hd :: tl)[j]'hjj).seqs, s ∈ (c :: cs)[j].seqs := by
      intro hd tl hl hhd htl hjj s hs
      cases j with
      | zero => exact hhd s (by simpa using hs)
      | succ k =>
        simp only [List.getElem_cons_succ] at hs ⊢
        exact htl k (by simpa using hj) s hs
    have hrec : ∀ k (hk : k < cs.length),
        ∀ s ∈ ((removeCells seq b e off cs).1[k]'(by rw [length_removeCells]; exact hk)).seqs, s ∈ cs[k].seqs :=
      fun k hk => ih k hk
    have hlr := length_removeCells seq b e off cs
    intro s hs
    unfold removeCells at hs
    split at hs
    · split at hs
      · exact key (dropSeq seq c) _ hlr (fun s hs => (mem_dropSeq hs).1) hrec _ s hs
      · split at hs
        · split at hs
          · exact hs
          · exact key { c with pos := c.pos + off } _ hlr (fun s hs => hs) hrec _ s hs
        · exact key c _ hlr (fun s hs => hs) hrec _ s hs
    · exact key c _ hlr (fun s hs => hs) hrec _ s hs

theorem length_shiftRows (seq : Nat) (frm off : Int) (cells : List Cell) (rows : List Row) :
    (shiftRows seq frm off cells rows).length = rows.length := by
  induction cells generalizing rows with
  | nil => cases rows <;> simp [shiftRows]
  | cons c cs ih =>
    cases rows with
    | nil => simp [shiftRows]
    | cons r rs => simp [shiftRows, ih]

theorem remove_inv (c : Cache) (seq : Nat) (b e : Int) (h : Inv c) : Inv (remove c seq b e).1 := by
  have hl := length_removeCells seq b e (rmOffset b e) c.cells
  have hsub := removeCells_sub seq b e (rmOffset b e) c.cells
  -- a state with the new cells and the ranges of `seq` recomputed (or dropped when empty)
  have hcore : ∀ (rows : List Row) (hr : rows.length = c.rows.length) (rg : Option Range)
      (hrg : rg = some (rangeOf (hasSeq seq) (removeCells seq b e (rmOffset b e) c.cells).1) ∨
        (rg = none ∧ rangeOf (hasSeq seq) (removeCells seq b e (rmOffset b e) c.cells).1 = Range.new)),
      Inv { c with cells := (removeCells seq b e (rmOffset b e) c.cells).1, rows := rows,
                   ranges := setRange c.ranges seq rg } := by
    intro rows hr rg hrg
    refine ⟨by simp only [hl, hr]; exact h.len, ?_, ?_, by simpa [hl] using h.pad, by simpa [hl] using h.size⟩
    · intro j hj s hs
      have hj' : j < c.cells.length := by rw [← hl]; exact hj
      by_cases hseq : s = seq
      · subst hseq
        have hc := rangeOf_covers (hasSeq s) _ j hj (by simpa [hasSeq] using hs)
        rcases hrg with hrg | ⟨_, hnew⟩
        · exact ⟨_, by simp [setRange, hrg], hc⟩
        · exfalso
          have := rangeOf_new _ _ (by rw [hl]; exact h.size) hnew j hj
          simp only [hasSeq, decide_eq_false_iff_not] at this
          exact this hs
      · obtain ⟨r, hr', hb⟩ := h.cover j hj' s (hsub j hj' s hs)
        exact ⟨r, by simp [setRange, hseq, hr'], hb⟩
    · intro s r hs
      simp only [hl]
      simp only [setRange] at hs
      split at hs
      · rcases hrg with hrg | ⟨hrg, _⟩
        · rw [hrg] at hs; cases hs
          have := rangeOf_max_lt (hasSeq seq) (removeCells seq b e (rmOffset b e) c.cells).1
          rw [hl] at this; exact this
        · rw [hrg] at hs; cases hs
      · exact h.rmax s r hs
  unfold remove
  simp only
  split
  · -- shared: partial mutation, ranges untouched
    refine ⟨by simp only [hl]; exact h.len, ?_, by simpa [hl] using h.rmax, by simpa [hl] using h.pad, by simpa [hl] using h.size⟩
    intro j hj s hs
    have hj' : j < c.cells.length := by rw [← hl]; exact hj
    exact h.cover j hj' s (hsub j hj' s hs)
  · split
    · rename_i hnew
      exact hcore c.rows rfl none (Or.inr ⟨rfl, hnew⟩)
    · split
      · exact hcore c.rows rfl _ (Or.inl rfl)
      · split
        · exact hcore c.rows rfl _ (Or.inl rfl)
        · refine hcore _ ?_ _ (Or.inl rfl)
          split
          · exact length_shiftRows _ _ _ _ _
          · rfl

end OllamaVerif.Causal
