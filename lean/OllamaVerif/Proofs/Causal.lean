/-
  Helper lemmas for C06 (kvcache.Causal model).
-/
import OllamaVerif.Model.Causal

namespace OllamaVerif.Causal
open OllamaVerif.KV

end OllamaVerif.Causal
