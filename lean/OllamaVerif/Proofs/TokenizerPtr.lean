/-
  C20 helper lemmas, part 4: the Go code's `merges` array with its stored `p` / `n` pointers refines the model's list
  of live parts (`goMergeAll_eq`).
-/
import OllamaVerif.Proofs.TokenizerAdj
namespace OllamaVerif.Tok

/-! ## the Go code's `merges` array with its stored `p` / `n` pointers refines the list of live parts

`merges []merge{p, n, runes}` is modelled as a table keyed by the array index (`start`), in index order; an entry
whose `runes` are empty is dead.  `goLoop` is the Go loop statement by statement: both ends of the popped pair
are read from the table, the four assignments, and the two `pairwise` calls that follow the STORED pointers
`merges[pair.a].p` and `merges[pair.a].n`.  Theorem `goMergeAll_eq`: the live entries it leaves are exactly the
parts of the model's `mergeAll`. -/

structure MEnt where
  start : Nat
  p : Option Nat     -- `none` = -1
  n : Nat
  runes : Str

def MEnt.live (e : MEnt) : Bool := !e.runes.isEmpty
def MEnt.part (e : MEnt) : Part := ⟨e.start, e.runes⟩

def getEnt (ms : List MEnt) (i : Nat) : Option MEnt := ms.find? (fun e => e.start == i)
def updEnt (ms : List MEnt) (i : Nat) (f : MEnt → MEnt) : List MEnt := ms.map fun e => if e.start = i then f e else e
def liveParts (ms : List MEnt) : List Part := (ms.filter MEnt.live).map MEnt.part

/-- `left, right := merges[a], merges[b]`; the emptiness tests and the family's validity test; then
    `merges[a].runes = append(left.runes, right.runes...)`, `merges[b].runes = nil`, `merges[a].n = right.n`,
    `if right.n < len(merges) { merges[right.n].p = a }` (no entry is keyed `right.n` otherwise) -/
def goJoin (ok : Str → Str → Bool) (ms : List MEnt) (a b : Nat) : Option (List MEnt) :=
  match getEnt ms a, getEnt ms b with
  | some l, some r =>
    if l.live && r.live && ok l.runes r.runes then
      some (updEnt (updEnt (updEnt ms a fun e => { e with runes := l.runes ++ r.runes, n := r.n })
        b fun e => { e with runes := [] }) r.n fun e => { e with p := some a })
    else none
  | _, _ => none

/-- `pairwise(a, b)` + push: `a < 0` or `b >= len(runes)` (no entry keyed `b`) gives nil -/
def goPairwise (cfg : Cfg) (ms : List MEnt) (h : Array Cand) (a : Option Nat) (b : Nat) : Array Cand :=
  match a with
  | none => h
  | some a =>
    match getEnt ms a, getEnt ms b with
    | some l, some r =>
      match cfg.make l.runes r.runes with
      | some (key, size, value) => heapPush cfg.less h ⟨a, b, key, size, value⟩
      | none => h
    | _, _ => h

def goLoop (cfg : Cfg) : Nat → List MEnt → Array Cand → List MEnt
  | 0, ms, _ => ms
  | f+1, ms, h =>
    match heapPop cfg.less h with
    | none => ms
    | some (c, h) =>
      match goJoin (cfg.ok c) ms c.a c.b with
      | some ms' =>
        match getEnt ms' c.a with
        | some ea =>
          let h := goPairwise cfg ms' h ea.p c.a
          let h := goPairwise cfg ms' h (some c.a) ea.n
          goLoop cfg f ms' h
        | none => ms'
      | none => goLoop cfg f ms h

/-! ### the table -/

def KeysSorted (ms : List MEnt) : Prop := ms.Pairwise (fun x y => x.start < y.start)

theorem getEnt_cons (e : MEnt) (ms : List MEnt) (i : Nat) :
    getEnt (e :: ms) i = if e.start = i then some e else getEnt ms i := by
  unfold getEnt
  rw [List.find?_cons]
  by_cases h : e.start = i
  · simp [h]
  · have : (e.start == i) = false := by simp [h]
    simp [this, h]

theorem getEnt_some (ms : List MEnt) (i : Nat) (e : MEnt) (h : getEnt ms i = some e) : e ∈ ms ∧ e.start = i := by
  unfold getEnt at h
  exact ⟨List.mem_of_find?_eq_some h, by simpa using List.find?_some h⟩

theorem getEnt_of_mem (ms : List MEnt) (hs : KeysSorted ms) (e : MEnt) (he : e ∈ ms) : getEnt ms e.start = some e := by
  induction ms with
  | nil => cases he
  | cons x ms ih =>
    have hp := List.pairwise_cons.mp hs
    rw [getEnt_cons]
    rcases List.mem_cons.mp he with rfl | he
    · simp
    · have := hp.1 e he
      rw [if_neg (by omega)]
      exact ih hp.2 he

theorem liveParts_cons (e : MEnt) (ms : List MEnt) :
    liveParts (e :: ms) = if e.live then e.part :: liveParts ms else liveParts ms := by
  unfold liveParts
  by_cases h : e.live = true
  · simp [h]
  · simp [h]

theorem liveParts_sorted (ms : List MEnt) (hs : KeysSorted ms) : SortedP (liveParts ms) := by
  induction ms with
  | nil => exact List.Pairwise.nil
  | cons e ms ih =>
    have hp := List.pairwise_cons.mp hs
    rw [liveParts_cons]
    split
    · apply List.Pairwise.cons _ (ih hp.2)
      intro q hq
      simp only [liveParts, List.mem_map, List.mem_filter] at hq
      obtain ⟨x, ⟨hx, _⟩, rfl⟩ := hq
      exact hp.1 x hx
    · exact ih hp.2

/-- looking a live part up = looking the table entry up and testing that it is live -/
theorem getPart_liveParts (ms : List MEnt) (hs : KeysSorted ms) (i : Nat) :
    getPart (liveParts ms) i = match getEnt ms i with
      | some e => if e.live then some e.part else none
      | none => none := by
  induction ms with
  | nil => rfl
  | cons e ms ih =>
    have hp := List.pairwise_cons.mp hs
    rw [liveParts_cons, getEnt_cons]
    by_cases hi : e.start = i
    · rw [if_pos hi]
      by_cases hl : e.live = true
      · simp [hl, getPart_cons, MEnt.part, hi]
      · simp only [hl, if_false, Bool.false_eq_true]
        -- a dead entry keyed i: no other entry is keyed i
        apply getPart_none_of_lt
        intro q hq
        simp only [liveParts, List.mem_map, List.mem_filter] at hq
        obtain ⟨x, ⟨hx, _⟩, rfl⟩ := hq
        have := hp.1 x hx
        simp only [MEnt.part]; omega
    · rw [if_neg hi]
      by_cases hl : e.live = true
      · simp only [hl, if_true]
        rw [getPart_cons, if_neg (by simpa [MEnt.part] using hi)]
        exact ih hp.2
      · simp only [hl, if_false, Bool.false_eq_true]
        exact ih hp.2

/-! ### neighbours in a sorted list of parts -/

def headStart? (l : List Part) : Option Nat := l.head?.map (·.start)

theorem prevStart_cons (x : Part) (l : List Part) (s : Nat) :
    prevStart (x :: l) s = if headStart? l = some s then some x.start else prevStart l s := by
  cases l with
  | nil => simp [prevStart, headStart?]
  | cons y l => simp [prevStart, headStart?]

theorem nextStart_cons (x : Part) (l : List Part) (s N : Nat) :
    nextStart (x :: l) s N = match headStart? l with
      | none => N
      | some y => if x.start = s then y else nextStart l s N := by
  cases l with
  | nil => simp [nextStart, headStart?]
  | cons y l => simp [nextStart, headStart?]

theorem headStart?_append_cons (pre : List Part) (p : Part) (l : List Part) :
    ∃ y, headStart? (pre ++ p :: l) = some y ∧ (y = p.start ∨ ∃ x ∈ pre, y = x.start) := by
  cases pre with
  | nil => exact ⟨p.start, rfl, Or.inl rfl⟩
  | cons x pre => exact ⟨x.start, rfl, Or.inr ⟨x, by simp, rfl⟩⟩

theorem headStart?_append_congr (pre : List Part) (p p' : Part) (l l' : List Part) (h : p.start = p'.start) :
    headStart? (pre ++ p :: l) = headStart? (pre ++ p' :: l') := by
  cases pre with
  | nil => simp [headStart?, h]
  | cons x pre => rfl

section neighbours
variable (pre rest : List Part) (p q p' : Part) (a b N : Nat)
variable (hpa : p.start = a) (hqb : q.start = b) (hp'a : p'.start = a) (hab : a < b)
variable (hpre : ∀ x ∈ pre, x.start < a) (hrest : ∀ z ∈ rest, b < z.start)

include hpa hqb hp'a in
theorem prevStart_join_other (s : Nat) (hsb : s ≠ b) (hsr : headStart? rest ≠ some s) :
    prevStart (pre ++ p' :: rest) s = prevStart (pre ++ p :: q :: rest) s := by
  induction pre with
  | nil =>
    simp only [List.nil_append]
    rw [prevStart_cons, prevStart_cons, prevStart_cons, if_neg hsr]
    have : headStart? (q :: rest) ≠ some s := by simp [headStart?, hqb]; omega
    rw [if_neg this, if_neg hsr]
  | cons x pre ih =>
    simp only [List.cons_append]
    rw [prevStart_cons, prevStart_cons, headStart?_append_congr pre p' p rest (q :: rest) (by rw [hpa, hp'a]), ih]

include hp'a hab hpre hrest in
theorem prevStart_join_next (z : Part) (rest' : List Part) (hr : rest = z :: rest') :
    prevStart (pre ++ p' :: rest) z.start = some a := by
  subst hr
  have hz : b < z.start := hrest z (by simp)
  induction pre with
  | nil => simp [prevStart, hp'a]
  | cons x pre ih =>
    simp only [List.cons_append]
    rw [prevStart_cons]
    obtain ⟨y, hy, hy'⟩ := headStart?_append_cons pre p' (z :: rest')
    have hne : y ≠ z.start := by
      rcases hy' with rfl | ⟨w, hw, rfl⟩
      · omega
      · have := hpre w (List.mem_cons_of_mem _ hw); omega
    rw [hy, if_neg (by simpa using hne)]
    exact ih (fun w hw => hpre w (List.mem_cons_of_mem _ hw))

include hpa hqb hp'a in
theorem nextStart_join_other (s : Nat) (hsa : s ≠ a) (hsb : s ≠ b) :
    nextStart (pre ++ p' :: rest) s N = nextStart (pre ++ p :: q :: rest) s N := by
  induction pre with
  | nil =>
    simp only [List.nil_append]
    rw [nextStart_cons, nextStart_cons p, nextStart_cons q]
    have h1 : headStart? (q :: rest) = some b := by simp [headStart?, hqb]
    rw [h1]
    simp only [hpa, hp'a, hqb, if_neg (Ne.symm hsa), if_neg (Ne.symm hsb)]
  | cons x pre ih =>
    simp only [List.cons_append]
    rw [nextStart_cons, nextStart_cons x, headStart?_append_congr pre p' p rest (q :: rest) (by rw [hpa, hp'a]), ih]

include hpa hqb hp'a hab hpre in
theorem nextStart_join_a :
    nextStart (pre ++ p' :: rest) a N = (headStart? rest).getD N ∧
    nextStart (pre ++ p :: q :: rest) b N = (headStart? rest).getD N := by
  induction pre with
  | nil =>
    simp only [List.nil_append]
    rw [nextStart_cons, nextStart_cons p, nextStart_cons q]
    have h1 : headStart? (q :: rest) = some b := by simp [headStart?, hqb]
    rw [h1]
    have hne : ¬ p.start = b := by omega
    simp only [hp'a, hqb, if_true, if_neg hne]
    cases headStart? rest <;> simp
  | cons x pre ih =>
    have hx := hpre x (by simp)
    have ih' := ih (fun w hw => hpre w (List.mem_cons_of_mem _ hw))
    simp only [List.cons_append]
    rw [nextStart_cons, nextStart_cons x]
    obtain ⟨y, hy, _⟩ := headStart?_append_cons pre p' rest
    obtain ⟨y2, hy2, _⟩ := headStart?_append_cons pre p (q :: rest)
    rw [hy, hy2]
    simp only [if_neg (show ¬ x.start = a by omega), if_neg (show ¬ x.start = b by omega)]
    exact ih'

end neighbours

/-! ### the representation invariant and the simulation -/

structure Rep (N : Nat) (ms : List MEnt) (ps : List Part) : Prop where
  sorted : KeysSorted ms
  bound : ∀ e ∈ ms, e.start < N
  parts : ps = liveParts ms
  ptr : ∀ e ∈ ms, e.live = true → e.p = prevStart ps e.start ∧ e.n = nextStart ps e.start N

theorem getPart_of_mem (ps : List Part) (hs : SortedP ps) (q : Part) (hq : q ∈ ps) : getPart ps q.start = some q := by
  induction ps with
  | nil => cases hq
  | cons x ps ih =>
    have hp := List.pairwise_cons.mp hs
    rw [getPart_cons]
    rcases List.mem_cons.mp hq with rfl | hq
    · simp
    · have := hp.1 q hq
      rw [if_neg (by omega)]
      exact ih hp.2 hq

/-- the table entry keyed by the start of a live part is live -/
theorem Rep.live_of_part {N ms ps} (R : Rep N ms ps) (q : Part) (hq : q ∈ ps) :
    ∃ e, getEnt ms q.start = some e ∧ e.live = true ∧ e.part = q := by
  have h1 := getPart_of_mem ps (by rw [R.parts]; exact liveParts_sorted ms R.sorted) q hq
  rw [R.parts, getPart_liveParts ms R.sorted] at h1
  cases hg : getEnt ms q.start with
  | none => rw [hg] at h1; cases h1
  | some e =>
    rw [hg] at h1
    by_cases hl : e.live = true
    · simp only [hl, if_true, Option.some.injEq] at h1
      exact ⟨e, rfl, hl, h1⟩
    · simp [hl] at h1

theorem goPairwise_eq_pushCand (cfg : Cfg) {N ms ps} (R : Rep N ms ps) (h : Array Cand) (x y : Nat)
    (hx : ∀ l, getEnt ms x = some l → l.live = true) (hy : ∀ r, getEnt ms y = some r → r.live = true) :
    goPairwise cfg ms h (some x) y = pushCand cfg ps h x y := by
  unfold goPairwise pushCand
  rw [R.parts, getPart_liveParts ms R.sorted, getPart_liveParts ms R.sorted]
  dsimp only
  cases hgx : getEnt ms x with
  | none => simp
  | some l =>
    have hl := hx l hgx
    cases hgy : getEnt ms y with
    | none => simp [hl]
    | some r =>
      have hr := hy r hgy
      simp only [hl, hr, if_true, MEnt.part]
      cases cfg.make l.runes r.runes with
      | none => rfl
      | some v => rfl

theorem filter_ne_cons_pos (x : Part) (l : List Part) (b : Nat) (h : x.start ≠ b) :
    (x :: l).filter (fun p => p.start != b) = x :: l.filter (fun p => p.start != b) := by simp [h]

theorem filter_ne_cons_neg (x : Part) (l : List Part) (b : Nat) (h : x.start = b) :
    (x :: l).filter (fun p => p.start != b) = l.filter (fun p => p.start != b) := by simp [h]

theorem keysSorted_map (ms : List MEnt) (F : MEnt → MEnt) (hF : ∀ e, (F e).start = e.start) (hs : KeysSorted ms) :
    KeysSorted (ms.map F) := by
  unfold KeysSorted
  rw [List.pairwise_map]
  exact hs.imp (fun {x y} h => by rw [hF, hF]; exact h)

/-- the three updates of the Go step as one map -/
def stepF (a b rn : Nat) (X : Str) (e : MEnt) : MEnt :=
  if e.start = a then { e with runes := X, n := rn }
  else if e.start = b then { e with runes := [] }
  else if e.start = rn then { e with p := some a }
  else e

theorem stepF_start (a b rn : Nat) (X : Str) (e : MEnt) : (stepF a b rn X e).start = e.start := by
  unfold stepF; repeat' split
  all_goals rfl

theorem stepF_a {a b rn : Nat} {X : Str} {e : MEnt} (h1 : e.start = a) :
    stepF a b rn X e = { e with runes := X, n := rn } := by unfold stepF; rw [if_pos h1]
theorem stepF_b {a b rn : Nat} {X : Str} {e : MEnt} (h1 : ¬ e.start = a) (h2 : e.start = b) :
    stepF a b rn X e = { e with runes := [] } := by unfold stepF; rw [if_neg h1, if_pos h2]
theorem stepF_rn {a b rn : Nat} {X : Str} {e : MEnt} (h1 : ¬ e.start = a) (h2 : ¬ e.start = b) (h3 : e.start = rn) :
    stepF a b rn X e = { e with p := some a } := by unfold stepF; rw [if_neg h1, if_neg h2, if_pos h3]
theorem stepF_else {a b rn : Nat} {X : Str} {e : MEnt} (h1 : ¬ e.start = a) (h2 : ¬ e.start = b) (h3 : ¬ e.start = rn) :
    stepF a b rn X e = e := by unfold stepF; rw [if_neg h1, if_neg h2, if_neg h3]

theorem updEnt3_eq (ms : List MEnt) (a b rn : Nat) (X : Str) (hab : a ≠ b) (har : a ≠ rn) (hbr : b ≠ rn) :
    updEnt (updEnt (updEnt ms a fun e => { e with runes := X, n := rn }) b fun e => { e with runes := [] })
      rn (fun e => { e with p := some a }) = ms.map (stepF a b rn X) := by
  unfold updEnt
  rw [List.map_map, List.map_map]
  apply List.map_congr_left
  intro e _
  simp only [Function.comp]
  unfold stepF
  by_cases h1 : e.start = a
  · simp [h1, hab, har]
  · by_cases h2 : e.start = b
    · simp [h2, Ne.symm hab, hbr]
    · by_cases h3 : e.start = rn
      · simp [h3, Ne.symm har, Ne.symm hbr]
      · simp [h1, h2, h3]

theorem liveParts_step (ms : List MEnt) (a b rn : Nat) (X : Str) (hX : X ≠ []) (hab : a ≠ b)
    (hla : ∀ e ∈ ms, e.start = a → e.live = true) :
    liveParts (ms.map (stepF a b rn X)) =
      ((liveParts ms).filter (fun p => p.start != b)).map fun p =>
        if p.start = a then ({ start := a, runes := X } : Part) else p := by
  induction ms with
  | nil => rfl
  | cons e ms ih =>
    have ih' := ih (fun x hx => hla x (List.mem_cons_of_mem _ hx))
    rw [List.map_cons, liveParts_cons, liveParts_cons, ih']
    by_cases h1 : e.start = a
    · have hl := hla e (by simp) h1
      have hlive : (stepF a b rn X e).live = true := by
        rw [stepF_a h1]; simp [MEnt.live, hX]
      rw [if_pos hlive, if_pos hl, filter_ne_cons_pos _ _ _ (by simp only [MEnt.part]; omega), List.map_cons]
      rw [stepF_a h1]
      simp [h1, MEnt.part]
    · by_cases h2 : e.start = b
      · have hdead : ¬ (stepF a b rn X e).live = true := by rw [stepF_b h1 h2]; simp [MEnt.live]
        rw [if_neg hdead]
        by_cases hl : e.live = true
        · rw [if_pos hl, filter_ne_cons_neg _ _ _ (by simpa [MEnt.part] using h2)]
        · rw [if_neg hl]
      · have hsame : (stepF a b rn X e).live = e.live ∧ (stepF a b rn X e).part = e.part := by
          by_cases h3 : e.start = rn
          · rw [stepF_rn h1 h2 h3]; exact ⟨rfl, rfl⟩
          · rw [stepF_else h1 h2 h3]; exact ⟨rfl, rfl⟩
        by_cases hl : e.live = true
        · rw [if_pos (by rw [hsame.1]; exact hl), if_pos hl,
            filter_ne_cons_pos _ _ _ (by simpa [MEnt.part] using h2), List.map_cons, hsame.2,
            if_neg (by simpa [MEnt.part] using h1)]
        · rw [if_neg (by rw [hsame.1]; exact hl), if_neg hl]

theorem nextStart_gt (ps : List Part) (hs : SortedP ps) (s N x : Nat) (hN : s < N) (h : nextStart ps s N = x) : s < x := by
  by_cases hx : x = N
  · omega
  · obtain ⟨pre, p, q, rest, he, e1, e2⟩ := nextStart_decomp ps s N x h hx
    have := (sorted_consecutive_adj pre rest p q (by rw [← he]; exact hs)).1
    omega

/-- **one step**: on a represented state, the Go step succeeds exactly when the model's does, and the new table
    represents the new list of parts (live entries AND stored pointers) -/
theorem goJoin_sim (ok : Str → Str → Bool) {N ms ps} (R : Rep N ms ps) (a b : Nat) (hadj : AdjOk ps a b) :
    match goJoin ok ms a b with
    | none => joinAt ok ps a b = none
    | some ms' => ∃ ps', joinAt ok ps a b = some ps' ∧ Rep N ms' ps' := by
  have hsp : SortedP ps := by rw [R.parts]; exact liveParts_sorted ms R.sorted
  have hab := hadj.1
  rw [joinAt_eq_direct ok ps a b hsp hadj]
  unfold goJoin joinDirect
  rw [R.parts, getPart_liveParts ms R.sorted, getPart_liveParts ms R.sorted]
  cases hga : getEnt ms a with
  | none => simp
  | some l =>
    cases hgb : getEnt ms b with
    | none =>
      by_cases hl : l.live = true <;> simp [hl]
    | some r =>
      simp only
      by_cases hl : l.live = true
      · by_cases hr : r.live = true
        · simp only [hl, hr, Bool.true_and, if_true, MEnt.part]
          by_cases hok : ok l.runes r.runes = true
          · simp only [hok, if_true]
            obtain ⟨hlm, hls⟩ := getEnt_some ms a l hga
            obtain ⟨hrm, hrs⟩ := getEnt_some ms b r hgb
            have hrn : r.n = nextStart ps b N := by have := (R.ptr r hrm hr).2; rw [hrs] at this; exact this
            have hbN : b < N := by have := R.bound r hrm; omega
            have hbrn : b < r.n := nextStart_gt ps hsp b N r.n hbN hrn.symm
            have hX : l.runes ++ r.runes ≠ [] := by
              intro h
              have : l.runes = [] := (List.append_eq_nil_iff.mp h).1
              simp [MEnt.live, this] at hl
            have huniq : ∀ e ∈ ms, e.start = a → e = l := by
              intro e he hea
              have := getEnt_of_mem ms R.sorted e he
              rw [hea, hga] at this
              exact (Option.some.inj this).symm
            have huniqb : ∀ e ∈ ms, e.start = b → e = r := by
              intro e he heb
              have := getEnt_of_mem ms R.sorted e he
              rw [heb, hgb] at this
              exact (Option.some.inj this).symm
            rw [updEnt3_eq ms a b r.n _ (by omega) (by omega) (by omega)]
            have hparts := liveParts_step ms a b r.n (l.runes ++ r.runes) hX (by omega)
              (fun e he hea => by rw [huniq e he hea]; exact hl)
            refine ⟨_, rfl, ?_⟩
            -- the model's own step, in its successor-lookup form, to get the decomposition
            have hjd : joinDirect ok ps a b = some (((liveParts ms).filter (fun p => p.start != b)).map fun p =>
                if p.start = a then ({ start := a, runes := l.runes ++ r.runes } : Part) else p) := by
              unfold joinDirect
              rw [R.parts, getPart_liveParts ms R.sorted, getPart_liveParts ms R.sorted, hga, hgb]
              simp [hl, hr, MEnt.part, hok]
            rw [← joinAt_eq_direct ok ps a b hsp hadj] at hjd
            obtain ⟨pre, p, q, rest, hps, hpa, hqb, _, hps'⟩ := joinAt_some _ _ _ _ _ hjd
            have hsorted := hsp
            rw [hps] at hsorted
            have hsa := List.pairwise_append.mp hsorted
            have hpre : ∀ x ∈ pre, x.start < a := by
              intro x hx; have := hsa.2.2 x hx p (by simp); omega
            have hs2 := List.pairwise_cons.mp hsa.2.1
            have hs3 := List.pairwise_cons.mp hs2.2
            have hrest : ∀ z ∈ rest, b < z.start := by
              intro z hz; have := hs3.1 z hz; omega
            have hrnval : r.n = (headStart? rest).getD N := by
              rw [hrn, hps]
              exact (nextStart_join_a pre rest p q ⟨a, p.runes ++ q.runes⟩ a b N hpa hqb rfl hab hpre).2
            refine ⟨keysSorted_map ms _ (stepF_start a b r.n _) R.sorted, ?_, hparts.symm, ?_⟩
            · intro e he
              simp only [List.mem_map] at he
              obtain ⟨e0, he0, rfl⟩ := he
              rw [stepF_start]; exact R.bound e0 he0
            · intro e he hlive
              simp only [List.mem_map] at he
              obtain ⟨e0, he0, rfl⟩ := he
              rw [stepF_start, hps']
              by_cases h1 : e0.start = a
              · have he0l := huniq e0 he0 h1
                subst he0l
                have hp0 := R.ptr e0 he0 hl
                rw [h1] at hp0 ⊢
                have hnr : headStart? rest ≠ some a := by
                  cases hrest' : rest with
                  | nil => simp [headStart?]
                  | cons z rest' =>
                    have := hrest z (by rw [hrest']; simp)
                    simp [headStart?]; omega
                rw [stepF_a h1]
                constructor
                · show e0.p = _
                  rw [hp0.1, hps]
                  exact (prevStart_join_other pre rest p q ⟨a, p.runes ++ q.runes⟩ a b hpa hqb rfl a (by omega) hnr).symm
                · show r.n = _
                  rw [hrnval]
                  exact ((nextStart_join_a pre rest p q ⟨a, p.runes ++ q.runes⟩ a b N hpa hqb rfl hab hpre).1).symm
              · by_cases h2 : e0.start = b
                · exfalso
                  rw [stepF_b h1 h2] at hlive
                  simp [MEnt.live] at hlive
                · have hlive0 : e0.live = true := by
                    by_cases h3 : e0.start = r.n
                    · rw [stepF_rn h1 h2 h3] at hlive; exact hlive
                    · rw [stepF_else h1 h2 h3] at hlive; exact hlive
                  have hp0 := R.ptr e0 he0 hlive0
                  by_cases h3 : e0.start = r.n
                  · -- the entry after `b`: its `p` becomes `a`
                    have hrest' : ∃ z rest', rest = z :: rest' ∧ z.start = r.n := by
                      cases hre : rest with
                      | nil =>
                        exfalso
                        rw [hre] at hrnval
                        simp [headStart?] at hrnval
                        have := R.bound e0 he0
                        omega
                      | cons z rest' =>
                        rw [hre] at hrnval
                        simp [headStart?] at hrnval
                        exact ⟨z, rest', rfl, hrnval.symm⟩
                    obtain ⟨z, rest', hre, hz⟩ := hrest'
                    rw [stepF_rn h1 h2 h3]
                    constructor
                    · show some a = _
                      rw [h3, ← hz]
                      exact (prevStart_join_next pre rest ⟨a, p.runes ++ q.runes⟩ a b rfl hab hpre hrest z rest' hre).symm
                    · show e0.n = _
                      rw [hp0.2, hps]
                      exact (nextStart_join_other pre rest p q ⟨a, p.runes ++ q.runes⟩ a b N hpa hqb rfl e0.start h1 h2).symm
                  · rw [stepF_else h1 h2 h3]
                    have hnr : headStart? rest ≠ some e0.start := by
                      intro hh
                      rw [hh] at hrnval
                      simp at hrnval
                      exact h3 hrnval.symm
                    constructor
                    · rw [hp0.1, hps]
                      exact (prevStart_join_other pre rest p q ⟨a, p.runes ++ q.runes⟩ a b hpa hqb rfl e0.start h2 hnr).symm
                    · rw [hp0.2, hps]
                      exact (nextStart_join_other pre rest p q ⟨a, p.runes ++ q.runes⟩ a b N hpa hqb rfl e0.start h1 h2).symm
          · simp [hok]
        · simp [hl, hr]
      · simp [hl]


theorem Rep.live_key {N ms ps} (R : Rep N ms ps) (x : Nat) (hx : ∃ q ∈ ps, q.start = x) :
    ∀ l, getEnt ms x = some l → l.live = true := by
  obtain ⟨q, hq, rfl⟩ := hx
  obtain ⟨e, he, hl, _⟩ := R.live_of_part q hq
  intro l hl'
  rw [he] at hl'
  cases hl'
  exact hl

theorem Rep.no_key {N ms ps} (R : Rep N ms ps) (x : Nat) (hx : N ≤ x) : getEnt ms x = none := by
  cases h : getEnt ms x with
  | none => rfl
  | some e =>
    have h1 := getEnt_some ms x e h
    have := R.bound e h1.1
    omega

theorem pushes_adj (cfg : Cfg) (ps' : List Part) (h' : Array Cand) (a N : Nat) (h1 : AdjInv ps' h') :
    AdjInv ps' (if nextStart ps' a N < N then
        pushCand cfg ps' (match prevStart ps' a with
          | some p => pushCand cfg ps' h' p a
          | none => h') a (nextStart ps' a N)
      else (match prevStart ps' a with
          | some p => pushCand cfg ps' h' p a
          | none => h')) := by
  have h2 : AdjInv ps' (match prevStart ps' a with
      | some p => pushCand cfg ps' h' p a
      | none => h') := by
    split
    · rename_i x hx
      obtain ⟨pre, p, q, rest, he, e1, e2⟩ := prevStart_decomp _ _ _ hx
      apply pushCand_adj _ _ _ _ _ h1
      have := sorted_consecutive_adj pre rest p q (by rw [← he]; exact h1.1)
      rw [← he, e1, e2] at this
      exact this
    · exact h1
  split
  · rename_i hlt
    obtain ⟨pre, p, q, rest, he, e1, e2⟩ := nextStart_decomp ps' a N _ rfl (by omega)
    apply pushCand_adj _ _ _ _ _ h2
    have := sorted_consecutive_adj pre rest p q (by rw [← he]; exact h1.1)
    rw [← he, e1, e2] at this
    exact this
  · exact h2

/-- **the Go loop (table + stored pointers) and the model loop run in lock step** -/
theorem goLoop_sim (cfg : Cfg) (N f : Nat) {ms : List MEnt} {ps : List Part} (h : Array Cand)
    (R : Rep N ms ps) (hi : AdjInv ps h) : liveParts (goLoop cfg f ms h) = mergeLoop cfg N f ps h := by
  induction f generalizing ms ps h with
  | zero => exact R.parts.symm
  | succ f ih =>
    unfold goLoop mergeLoop
    cases hp : heapPop cfg.less h with
    | none => exact R.parts.symm
    | some ch =>
      obtain ⟨c, h'⟩ := ch
      obtain ⟨hcm, hsub⟩ := heapPop_mem _ _ _ _ hp
      simp only
      have hsim := goJoin_sim (cfg.ok c) R c.a c.b (hi.2 c hcm)
      cases hg : goJoin (cfg.ok c) ms c.a c.b with
      | none =>
        rw [hg] at hsim
        simp only at hsim ⊢
        rw [hsim]
        exact ih h' R ⟨hi.1, fun x hx => hi.2 x (hsub x hx)⟩
      | some ms' =>
        rw [hg] at hsim
        obtain ⟨ps', hj, R'⟩ := hsim
        simp only
        rw [hj]
        simp only
        have h1 := join_adj _ _ _ _ _ _ _ hi hsub hj
        obtain ⟨pre, p, q, rest, hps, hpa, hqb, _, hps'⟩ := joinAt_some _ _ _ _ _ hj
        have hamem : (⟨c.a, p.runes ++ q.runes⟩ : Part) ∈ ps' := by rw [hps']; simp
        obtain ⟨ea, hea, heal, _⟩ := R'.live_of_part _ hamem
        simp only at hea
        rw [hea]
        simp only
        obtain ⟨heam, heas⟩ := getEnt_some ms' c.a ea hea
        have hptr := R'.ptr ea heam heal
        rw [heas] at hptr
        have hakey : ∀ l, getEnt ms' c.a = some l → l.live = true :=
          R'.live_key c.a ⟨_, hamem, rfl⟩
        -- first push: follows the stored pointer `merges[a].p`
        have e1 : goPairwise cfg ms' h' ea.p c.a = (match prevStart ps' c.a with
            | some p => pushCand cfg ps' h' p c.a
            | none => h') := by
          rw [hptr.1]
          cases hpv : prevStart ps' c.a with
          | none => rfl
          | some x =>
            obtain ⟨pre2, p2, q2, rest2, he2, e21, _⟩ := prevStart_decomp _ _ _ hpv
            exact goPairwise_eq_pushCand cfg R' h' x c.a
              (R'.live_key x ⟨p2, by rw [he2]; simp, e21⟩) hakey
        -- second push: follows the stored pointer `merges[a].n`
        have e2 : ∀ H, goPairwise cfg ms' H (some c.a) ea.n =
            (if nextStart ps' c.a N < N then pushCand cfg ps' H c.a (nextStart ps' c.a N) else H) := by
          intro H
          rw [hptr.2]
          by_cases hlt : nextStart ps' c.a N < N
          · rw [if_pos hlt]
            obtain ⟨pre2, p2, q2, rest2, he2, _, e22⟩ := nextStart_decomp ps' c.a N _ rfl (by omega)
            exact goPairwise_eq_pushCand cfg R' H c.a _ hakey
              (R'.live_key _ ⟨q2, by rw [he2]; simp, e22⟩)
          · rw [if_neg hlt]
            unfold goPairwise
            simp only
            rw [R'.no_key (nextStart ps' c.a N) (by omega)]
            cases getEnt ms' c.a <;> rfl
        rw [e1, e2]
        exact ih _ R' (pushes_adj cfg ps' h' c.a N h1)

/-! ### the initial state: `merges[r] = merge{p: r-1, n: r+1, runes: []rune{runes[r]}}` and the first pairs -/

def goInit : Str → Nat → List MEnt
  | [], _ => []
  | r :: rs, i => ⟨i, if i = 0 then none else some (i - 1), i + 1, [r]⟩ :: goInit rs (i + 1)

/-- `for i := range len(runes) - 1 { pairwise(i, i+1) }` -/
def goInitHeap (cfg : Cfg) (ms : List MEnt) : List MEnt → Array Cand → Array Cand
  | e :: e' :: rest, h => goInitHeap cfg ms (e' :: rest) (goPairwise cfg ms h (some e.start) e'.start)
  | _, h => h

/-- the Go merge procedure on a rune string; the result is what the final loop over `merges` emits -/
def goMergeAll (cfg : Cfg) (rs : Str) : List Part :=
  let ms := goInit rs 0
  liveParts (goLoop cfg (3 * rs.length + 3) ms (goInitHeap cfg ms ms #[]))

theorem goInit_facts (rs : Str) (k : Nat) : ∀ e ∈ goInit rs k,
    e.p = (if e.start = 0 then none else some (e.start - 1)) ∧ e.n = e.start + 1 ∧ k ≤ e.start ∧
      e.start < k + rs.length ∧ e.live = true := by
  induction rs generalizing k with
  | nil => intro e he; cases he
  | cons r rs ih =>
    intro e he
    simp only [goInit, List.mem_cons] at he
    rcases he with rfl | he
    · simp [MEnt.live]
    · obtain ⟨h1, h2, h3, h4, h5⟩ := ih (k + 1) e he
      simp only [List.length_cons]
      exact ⟨h1, h2, by omega, by omega, h5⟩

theorem goInit_sorted (rs : Str) (k : Nat) : KeysSorted (goInit rs k) := by
  induction rs generalizing k with
  | nil => exact List.Pairwise.nil
  | cons r rs ih =>
    simp only [goInit]
    apply List.Pairwise.cons _ (ih (k + 1))
    intro e he
    have := (goInit_facts rs (k + 1) e he).2.2.1
    simp only; omega

theorem goInit_parts (rs : Str) (k : Nat) : liveParts (goInit rs k) = initParts rs k ∧
    (goInit rs k).map MEnt.part = initParts rs k := by
  induction rs generalizing k with
  | nil => exact ⟨rfl, rfl⟩
  | cons r rs ih =>
    simp only [goInit, initParts, liveParts_cons, List.map_cons]
    simp [MEnt.live, MEnt.part, (ih (k + 1)).1, (ih (k + 1)).2]

theorem headStart?_initParts (rs : Str) (k : Nat) :
    headStart? (initParts rs k) = if rs = [] then none else some k := by
  cases rs <;> simp [initParts, headStart?]

theorem prevStart_initParts (rs : Str) (k s : Nat) :
    prevStart (initParts rs k) s = if k < s ∧ s < k + rs.length then some (s - 1) else none := by
  induction rs generalizing k with
  | nil =>
    rw [if_neg (by simp only [List.length_nil]; omega)]
    rfl
  | cons r rs ih =>
    simp only [initParts]
    rw [prevStart_cons, headStart?_initParts, ih (k + 1)]
    simp only [List.length_cons]
    cases rs with
    | nil =>
      simp only [if_true, List.length_nil]
      have : ¬ (k < s ∧ s < k + (0 + 1)) := by omega
      have h2 : ¬ (k + 1 < s ∧ s < k + 1 + 0) := by omega
      simp [this, h2]
    | cons r2 rs =>
      simp only [List.length_cons, reduceCtorEq, if_false]
      by_cases hs : s = k + 1
      · subst hs
        simp
      · have : ¬ (some (k + 1) = some s) := by simp; omega
        rw [if_neg this]
        by_cases h3 : k + 1 < s ∧ s < k + 1 + (rs.length + 1)
        · rw [if_pos h3, if_pos (by omega)]
        · rw [if_neg h3, if_neg (by omega)]

theorem nextStart_initParts (rs : Str) (k s N : Nat) :
    nextStart (initParts rs k) s N = if k ≤ s ∧ s + 1 < k + rs.length then s + 1 else N := by
  induction rs generalizing k with
  | nil =>
    rw [if_neg (by simp only [List.length_nil]; omega)]
    rfl
  | cons r rs ih =>
    simp only [initParts]
    rw [nextStart_cons, headStart?_initParts, ih (k + 1)]
    simp only [List.length_cons]
    cases rs with
    | nil =>
      simp only [if_true, List.length_nil]
      rw [if_neg (by omega)]
    | cons r2 rs =>
      simp only [List.length_cons, reduceCtorEq, if_false]
      by_cases hs : k = s
      · subst hs
        rw [if_pos rfl, if_pos (by omega)]
      · rw [if_neg hs]
        by_cases h3 : k + 1 ≤ s ∧ s + 1 < k + 1 + (rs.length + 1)
        · rw [if_pos h3, if_pos (by omega)]
        · rw [if_neg h3, if_neg (by omega)]

theorem goInit_rep (rs : Str) : Rep rs.length (goInit rs 0) (initParts rs 0) := by
  refine ⟨goInit_sorted rs 0, ?_, (goInit_parts rs 0).1.symm, ?_⟩
  · intro e he
    have := (goInit_facts rs 0 e he).2.2.2.1
    omega
  · intro e he _
    obtain ⟨h1, h2, _, h4, _⟩ := goInit_facts rs 0 e he
    rw [prevStart_initParts, nextStart_initParts, h1, h2]
    constructor
    · by_cases h0 : e.start = 0
      · rw [if_pos h0, if_neg (by omega)]
      · rw [if_neg h0, if_pos (by omega)]
    · by_cases hl : e.start + 1 < 0 + rs.length
      · rw [if_pos ⟨by omega, hl⟩]
      · rw [if_neg (by omega)]; omega

theorem goInitHeap_eq (cfg : Cfg) {N ms ps} (R : Rep N ms ps) (l : List MEnt) (h : Array Cand)
    (hl : ∀ e ∈ l, e ∈ ms ∧ e.live = true) :
    goInitHeap cfg ms l h = initHeap cfg ps (l.map MEnt.part) h := by
  induction l generalizing h with
  | nil => rfl
  | cons e rest ih =>
    cases rest with
    | nil => rfl
    | cons e' rest =>
      simp only [goInitHeap, List.map_cons, initHeap]
      have key : ∀ x ∈ e :: e' :: rest, ∀ l', getEnt ms x.start = some l' → l'.live = true := by
        intro x hx l' hl'
        obtain ⟨hxm, hxl⟩ := hl x hx
        rw [getEnt_of_mem ms R.sorted x hxm] at hl'
        cases hl'
        exact hxl
      rw [goPairwise_eq_pushCand cfg R h e.start e'.start (key e (by simp)) (key e' (by simp))]
      exact ih _ (fun x hx => hl x (List.mem_cons_of_mem _ hx))

/-- **The Go merge procedure — array of `merge{p, n, runes}` entries, both ends of a popped pair indexed directly,
    neighbours found through the STORED pointers — leaves exactly the parts of the model's `mergeAll`**
    (either family, any vocabulary, any queue order, any input). -/
theorem goMergeAll_eq (cfg : Cfg) (rs : Str) : goMergeAll cfg rs = mergeAll cfg rs := by
  unfold goMergeAll mergeAll
  simp only
  have R := goInit_rep rs
  have hheap : goInitHeap cfg (goInit rs 0) (goInit rs 0) #[]
      = initHeap cfg (initParts rs 0) (initParts rs 0) #[] := by
    rw [goInitHeap_eq cfg R (goInit rs 0) #[] (fun e he => ⟨he, (goInit_facts rs 0 e he).2.2.2.2⟩),
      (goInit_parts rs 0).2]
  rw [hheap]
  apply goLoop_sim cfg rs.length _ _ R
  apply initHeap_adj cfg _ [] _ _ rfl
  exact ⟨initParts_sorted rs 0, fun c hc => by simp at hc⟩

end OllamaVerif.Tok
