/-
  Helper lemmas for C08 (blob cache).  Core Lean only.
-/
import OllamaVerif.Model.BlobCache
namespace OllamaVerif.BlobCache
open OllamaVerif

/-- The C08 predicate on one blob file: IF the cache reports it present (`Get`: exists, non-zero length)
    with the size it was stored under, THEN its content hashes to its digest. -/
def Trusted (hash : Bytes → Digest) (st : FileSt) (d : Digest) (size : Nat) : Prop :=
  ∀ f, st = some f → f.length ≠ 0 → f.length = size → hash f = d

theorem trusted_none (hash : Bytes → Digest) (d : Digest) (size : Nat) : Trusted hash none d size := by
  intro f h; cases h

theorem trusted_nil (hash : Bytes → Digest) (d : Digest) (size : Nat) : Trusted hash (some []) d size := by
  intro f h hz; cases h; simp at hz

theorem trusted_size_zero (hash : Bytes → Digest) (d : Digest) (st : FileSt) : Trusted hash st d 0 := by
  intro f _ hz h0; exact absurd h0 hz

@[simp] theorem run_nil (st : FileSt) : run [] st = st := rfl
@[simp] theorem run_cons (e : Eff) (es : List Eff) (st : FileSt) :
    run (e :: es) st = run es (applyEff e st) := rfl

theorem run_append (a b : List Eff) (st : FileSt) : run (a ++ b) st = run b (run a st) := by
  simp [run, List.foldl_append]

/-- the file while a sequential writer that has written `seen` works over old content `g` -/
def overlay (seen g : Bytes) : Bytes := seen ++ g.drop seen.length

theorem overlay_length (seen g : Bytes) : (overlay seen g).length = max seen.length g.length := by
  simp [overlay]; omega

theorem pwriteAt_overlay (seen g bs : Bytes) :
    pwriteAt (overlay seen g) seen.length bs = overlay (seen ++ bs) g := by
  unfold pwriteAt
  split
  · next h => subst h; simp
  · have hlen : seen.length - (overlay seen g).length = 0 := by
      rw [overlay_length]; omega
    simp only [hlen, zeros, List.replicate_zero, List.append_nil]
    simp [overlay, List.drop_append]

/-- loop invariant of `io.Copy(checkWriter)`: never more than `size` bytes, and `size` bytes only verified -/
def SeenOK (hash : Bytes → Digest) (d : Digest) (size : Nat) (seen : Bytes) : Prop :=
  seen.length ≤ size ∧ (seen.length = size → hash seen = d)

theorem trusted_overlay (hash : Bytes → Digest) (d : Digest) (size : Nat) (seen g : Bytes)
    (hg : g.length < size) (hs : SeenOK hash d size seen) :
    Trusted hash (some (overlay seen g)) d size := by
  intro f hf _ hlen
  cases hf
  rw [overlay_length] at hlen
  have h1 : seen.length = size := by have := hs.1; omega
  have : overlay seen g = seen := by
    simp [overlay, List.drop_eq_nil_of_le (show g.length ≤ seen.length by omega)]
  rw [this]; exact hs.2 h1

/-- a cut of a list whose every effect (and every torn variant of it) preserves `P` preserves `P` -/
theorem cut_preserves (P : FileSt → Prop) :
    ∀ (es p : List Eff) (st : FileSt), Cut es p → P st →
      (∀ e ∈ es, ∀ st, P st → P (applyEff e st)) →
      (∀ off bs k, Eff.pwrite off bs ∈ es → ∀ st, P st → P (applyEff (.pwrite off (bs.take k)) st)) →
      P (run p st) := by
  intro es p st hc
  induction hc generalizing st with
  | stop es => intro h _ _; exact h
  | next e es p _ ih =>
    intro h he ht
    simp only [run_cons]
    apply ih
    · exact he e (List.mem_cons_self) st h
    · intro e' hm; exact he e' (List.mem_cons_of_mem _ hm)
    · intro off bs k hm; exact ht off bs k (List.mem_cons_of_mem _ hm)
  | torn off bs es k =>
    intro h _ ht
    simp only [run_cons, run_nil]
    exact ht off bs k (List.mem_cons_self) st h

theorem trusted_truncate0 (hash : Bytes → Digest) (d : Digest) (size : Nat) (st : FileSt) :
    Trusted hash (applyEff (.truncate 0) st) d size := by
  cases st with
  | none => exact trusted_none hash d size
  | some f =>
    have : applyEff (.truncate 0) (some f) = some [] := by simp [applyEff, truncTo, zeros]
    rw [this]; exact trusted_nil hash d size

/-- the two possible endings of `copyNamedFile` after the copy loop -/
def IsTail (tail : List Eff) : Prop := tail = [.close] ∨ tail = [.truncate 0, .close]

theorem tail_cut_trusted (hash : Bytes → Digest) (d : Digest) (size : Nat) (tail p : List Eff)
    (st : FileSt) (ht : IsTail tail) (hc : Cut tail p) (h : Trusted hash st d size) :
    Trusted hash (run p st) d size := by
  apply cut_preserves (fun s => Trusted hash s d size) tail p st hc h
  · intro e he st' h'
    rcases ht with rfl | rfl
    · simp at he; subst he; exact h'
    · simp at he; rcases he with rfl | rfl
      · exact trusted_truncate0 hash d size st'
      · exact h'
  · intro off bs k hm
    rcases ht with rfl | rfl <;> simp at hm

/-- **Core of crash safety.**  While the copy loop runs over old content `g` shorter than `size`, every cut
    of (its writes ++ the ending) leaves a trusted file. -/
theorem copyLoop_cut (hash : Bytes → Digest) (d : Digest) (size : Nat) (g : Bytes) (hg : g.length < size)
    (tail : List Eff) (ht : IsTail tail) :
    ∀ (chunks : List Bytes) (seen : Bytes) (fin : SrcEnd) (p : List Eff),
      SeenOK hash d size seen →
      Cut ((copyLoop hash d size 0 seen chunks fin).1 ++ tail) p →
      Trusted hash (run p (some (overlay seen g))) d size := by
  intro chunks
  induction chunks with
  | nil =>
    intro seen fin p hs hc
    have : (copyLoop hash d size 0 seen [] fin).1 = [] := by cases fin <;> simp [copyLoop]
    rw [this, List.nil_append] at hc
    exact tail_cut_trusted hash d size tail p _ ht hc (trusted_overlay hash d size seen g hg hs)
  | cons c cs ih =>
    intro seen fin p hs hc
    unfold copyLoop at hc
    split at hc
    · exact ih seen fin p hs hc
    · split at hc
      · rw [List.nil_append] at hc
        exact tail_cut_trusted hash d size tail p _ ht hc (trusted_overlay hash d size seen g hg hs)
      · next hnu =>
        split at hc
        · rw [List.nil_append] at hc
          exact tail_cut_trusted hash d size tail p _ ht hc (trusted_overlay hash d size seen g hg hs)
        · next hne =>
          have hle : seen.length + c.length ≤ size := by omega
          have hs' : SeenOK hash d size (seen ++ c) := by
            refine ⟨by simpa using hle, ?_⟩
            intro hl
            have hl' : seen.length + c.length = size := by simpa using hl
            by_cases hh : hash (seen ++ c) = d
            · exact hh
            · exact absurd ⟨hl', hh⟩ hnu
          simp only [Nat.zero_add, List.cons_append] at hc
          cases hc with
          | stop => exact trusted_overlay hash d size seen g hg hs
          | next _ _ p' hc' =>
            simp only [run_cons, applyEff, pwriteAt_overlay]
            exact ih (seen ++ c) fin p' hs' hc'
          | torn _ _ _ k =>
            simp only [run_cons, run_nil, applyEff, pwriteAt_overlay]
            apply trusted_overlay hash d size _ g hg
            refine ⟨?_, ?_⟩
            · simp only [List.length_append, List.length_take]; omega
            · intro hl
              simp only [List.length_append, List.length_take] at hl
              have : c.take k = c := List.take_of_length_le (by omega)
              rw [this]; exact hs'.2 (by simp only [List.length_append]; omega)


/-! ## shape of `copyNamedFile` after the stat -/

theorem afterStat_shape (hash : Bytes → Digest) (trunc : Bool) (d : Digest) (size : Nat) (s : Script)
    (hsz : size ≠ 0) :
    ∃ tail, IsTail tail ∧
      (afterStat hash trunc d size s).1 =
        .openCreate trunc :: ((copyLoop hash d size 0 [] s.chunks s.fin).1 ++ tail) := by
  unfold afterStat
  simp only [hsz, if_false]
  split
  · exact ⟨[.close], Or.inl rfl, by simp⟩
  · exact ⟨[.truncate 0, .close], Or.inr rfl, by simp⟩

theorem afterStat_res (hash : Bytes → Digest) (trunc : Bool) (d : Digest) (size : Nat) (s : Script)
    (hsz : size ≠ 0) :
    (afterStat hash trunc d size s).2 = (copyLoop hash d size 0 [] s.chunks s.fin).2 := by
  unfold afterStat
  simp only [hsz, if_false]
  split
  · next h => simp [h]
  · rfl

theorem afterStat_effs_ok (hash : Bytes → Digest) (trunc : Bool) (d : Digest) (size : Nat) (s : Script)
    (hsz : size ≠ 0) (hok : (copyLoop hash d size 0 [] s.chunks s.fin).2 = .ok) :
    (afterStat hash trunc d size s).1 =
      .openCreate trunc :: ((copyLoop hash d size 0 [] s.chunks s.fin).1 ++ [.close]) := by
  unfold afterStat
  simp only [hsz, if_false]
  split
  · simp
  · next hne => exact absurd hok (hne)

/-- what `open` leaves when the same-size shortcut was not taken: something shorter than `size` -/
theorem open_short (st : FileSt) (size : Nat) (hne : st.map List.length ≠ some size) (hsz : size ≠ 0) :
    ∃ g, applyEff (.openCreate (statTrunc st size)) st = some g ∧ g.length < size := by
  cases st with
  | none => exact ⟨[], rfl, by simp; omega⟩
  | some f =>
    by_cases h : f.length > size
    · exact ⟨[], by simp [statTrunc, h, applyEff], by simp; omega⟩
    · refine ⟨f, by simp [statTrunc, h, applyEff], ?_⟩
      have : f.length ≠ size := by intro e; apply hne; simp [e]
      omega

theorem overlay_nil (g : Bytes) : overlay [] g = g := by simp [overlay]

theorem seenOK_nil (hash : Bytes → Digest) (d : Digest) (size : Nat) (hsz : size ≠ 0) :
    SeenOK hash d size [] := ⟨by simp, by intro h; simp at h; exact absurd h.symm hsz⟩

/-- a copy loop that reports success has written exactly the streamed bytes, `size` of them, verified -/
theorem copyLoop_ok (hash : Bytes → Digest) (d : Digest) (size : Nat) (g : Bytes) (hg : g.length < size) :
    ∀ (chunks : List Bytes) (seen : Bytes) (fin : SrcEnd),
      SeenOK hash d size seen → (copyLoop hash d size 0 seen chunks fin).2 = .ok →
      run (copyLoop hash d size 0 seen chunks fin).1 (some (overlay seen g)) = some (seen ++ chunks.flatten)
      ∧ (seen ++ chunks.flatten).length = size ∧ hash (seen ++ chunks.flatten) = d := by
  intro chunks
  induction chunks with
  | nil =>
    intro seen fin hs hok
    cases fin with
    | err => simp [copyLoop] at hok
    | eof =>
      simp only [copyLoop] at hok ⊢
      split at hok
      · cases hok
      · next hn =>
        have hl : seen.length = size := by have := hs.1; omega
        have : overlay seen g = seen := by
          simp [overlay, List.drop_eq_nil_of_le (show g.length ≤ seen.length by omega)]
        simp [this, hl, hs.2 hl]
  | cons c cs ih =>
    intro seen fin hs hok
    unfold copyLoop at hok ⊢
    split
    · next hc =>
      simp only [hc, if_true] at hok
      subst hc
      simpa using ih seen fin hs hok
    · next hc =>
      simp only [hc, if_false] at hok
      split
      · next hu => simp [hu] at hok
      · next hnu =>
        simp only [hnu, if_false] at hok
        split
        · next he => simp [he] at hok
        · next hne =>
          simp only [hne, if_false] at hok
          have hs' : SeenOK hash d size (seen ++ c) := by
            refine ⟨by simp only [List.length_append]; omega, ?_⟩
            intro hl
            have hl' : seen.length + c.length = size := by simpa using hl
            by_cases hh : hash (seen ++ c) = d
            · exact hh
            · exact absurd ⟨hl', hh⟩ hnu
          have := ih (seen ++ c) fin hs' hok
          simp only [Nat.zero_add, run_cons, applyEff, pwriteAt_overlay]
          simpa [List.append_assoc] using this

/-- storing exactly the bytes that hash to the digest, under their length, always succeeds -/
theorem copyNamed_exact_ok (hash : Bytes → Digest) (st : FileSt) (f : Bytes) :
    (copyNamedEffs hash st (hash f) f.length ⟨[f], .eof⟩).2 = .ok := by
  unfold copyNamedEffs
  split
  · rfl
  · by_cases hz : f.length = 0
    · simp [afterStat, hz]
    · rw [afterStat_res _ _ _ _ _ hz]
      have hf : f ≠ [] := by intro e; apply hz; simp [e]
      simp [copyLoop, hf]

/-! ## concurrent writers whose sources all deliver the true content -/

/-- a source that delivers exactly `content` (any chunking, empty reads allowed) and then EOF -/
def GoodScript (content : Bytes) (s : Script) : Prop := s.chunks.flatten = content ∧ s.fin = .eof

/-- the rest of a good writer's effect list: sequential writes of `content`'s own bytes from `off` to the
    end, then `close` -/
inductive GoodWrites (content : Bytes) : Nat → List Eff → Prop
  | fin : GoodWrites content content.length [.close]
  | write (off : Nat) (c : Bytes) (rest : List Eff) :
      c = (content.drop off).take c.length → off + c.length ≤ content.length →
      GoodWrites content (off + c.length) rest → GoodWrites content off (.pwrite off c :: rest)

theorem copyLoop_good (hash : Bytes → Digest) (d : Digest) (content : Bytes) (hh : hash content = d) :
    ∀ (chunks : List Bytes) (seen : Bytes), seen ++ chunks.flatten = content →
      (copyLoop hash d content.length 0 seen chunks .eof).2 = .ok ∧
      GoodWrites content seen.length ((copyLoop hash d content.length 0 seen chunks .eof).1 ++ [.close]) := by
  intro chunks
  induction chunks with
  | nil =>
    intro seen h
    simp only [List.flatten_nil, List.append_nil] at h
    subst h
    simp only [copyLoop, Nat.lt_irrefl, if_false, List.nil_append, true_and]
    exact GoodWrites.fin
  | cons c cs ih =>
    intro seen h
    unfold copyLoop
    split
    · next hc => subst hc; exact ih seen (by simpa using h)
    · have hlen : seen.length + c.length + cs.flatten.length = content.length := by
        rw [← h]; simp [Nat.add_assoc]
      have h' : (seen ++ c) ++ cs.flatten = content := by rw [← h]; simp
      split
      · next hu =>
        exfalso
        apply hu.2
        have : cs.flatten = [] := List.eq_nil_of_length_eq_zero (by omega)
        rw [this, List.append_nil] at h'
        rw [h']; exact hh
      · split
        · next he => omega
        · have := ih (seen ++ c) h'
          refine ⟨this.1, ?_⟩
          simp only [Nat.zero_add, List.cons_append]
          apply GoodWrites.write seen.length c _ _ (by omega)
          · simpa using this.2
          · rw [← h]; simp

theorem afterStat_good (hash : Bytes → Digest) (d : Digest) (content : Bytes) (hh : hash content = d)
    (hsz : content.length ≠ 0) (trunc : Bool) (s : Script) (hs : GoodScript content s) :
    ∃ es, afterStat hash trunc d content.length s = (.openCreate trunc :: es, .ok) ∧ GoodWrites content 0 es := by
  obtain ⟨hf, hfin⟩ := hs
  have := copyLoop_good hash d content hh s.chunks [] (by simpa using hf)
  rw [← hfin] at this
  refine ⟨(copyLoop hash d content.length 0 [] s.chunks s.fin).1 ++ [.close], ?_, by simpa using this.2⟩
  unfold afterStat
  simp only [hsz, if_false, this.1, List.cons_append]

/-- the file is `content`'s first `N` bytes followed by leftovers, and reaches full size only as `content` -/
def FileB (content : Bytes) (file : FileSt) (N : Nat) : Prop :=
  match file with
  | none => N = 0
  | some f => ∃ rest, f = content.take N ++ rest ∧ N + rest.length ≤ content.length ∧
      (N + rest.length = content.length → N = content.length)

def WOK (content : Bytes) (file : FileSt) (N : Nat) : W → Prop
  | .init s => GoodScript content s
  | .running es _ =>
      (∃ es', es = .openCreate false :: es' ∧ GoodWrites content 0 es') ∨
      (file ≠ none ∧ ∃ off, off ≤ N ∧ GoodWrites content off es) ∨ es = []
  | .done _ => True
  | .dead => True

theorem WOK_mono (content : Bytes) (file file' : FileSt) (N N' : Nat) (w : W)
    (hf : file ≠ none → file' ≠ none) (hN : N ≤ N') (h : WOK content file N w) : WOK content file' N' w := by
  cases w with
  | init s => exact h
  | running es r =>
    rcases h with h | ⟨hne, off, ho, hg⟩ | h
    · exact Or.inl h
    · exact Or.inr (Or.inl ⟨hf hne, off, by omega, hg⟩)
    · exact Or.inr (Or.inr h)
  | done r => trivial
  | dead => trivial

theorem pwriteAt_same (f c : Bytes) (off : Nat) (h : (f.drop off).take c.length = c)
    (hl : off + c.length ≤ f.length) : pwriteAt f off c = f := by
  unfold pwriteAt
  split
  · rfl
  · have h0 : off - f.length = 0 := by omega
    simp only [h0, zeros, List.replicate_zero, List.append_nil]
    have h2 : f.drop (off + c.length) = (f.drop off).drop c.length := by simp [List.drop_drop]
    conv => lhs; rw [h2]; arg 1; arg 2; rw [← h]
    rw [List.append_assoc, List.take_append_drop, List.take_append_drop]

/-- writing `content`'s own bytes at an offset inside the already-correct prefix keeps the file shape and can
    only extend the correct prefix -/
theorem pwrite_good (content f c : Bytes) (N off : Nat) (hN : N ≤ content.length)
    (hf : FileB content (some f) N) (ho : off ≤ N)
    (hc : c = (content.drop off).take c.length) (hl : off + c.length ≤ content.length) :
    FileB content (some (pwriteAt f off c)) (max N (off + c.length)) := by
  obtain ⟨rest, rfl, hr1, hr2⟩ := hf
  have htl : (content.take N).length = N := by simp; omega
  by_cases hcase : off + c.length ≤ N
  · -- overwrite inside the correct prefix: nothing changes
    have hmax : max N (off + c.length) = N := by omega
    rw [hmax]
    have : pwriteAt (content.take N ++ rest) off c = content.take N ++ rest := by
      apply pwriteAt_same
      · rw [List.drop_append_of_le_length (by omega), List.take_append_of_le_length (by simp; omega)]
        rw [List.drop_take, List.take_take]
        rw [show min c.length (N - off) = c.length by omega]
        exact hc.symm
      · simp; omega
    rw [this]
    exact ⟨rest, rfl, hr1, hr2⟩
  · have hmax : max N (off + c.length) = off + c.length := by omega
    rw [hmax]
    have hcne : c ≠ [] := by intro e; subst e; simp at hcase; omega
    refine ⟨rest.drop (off + c.length - N), ?_, by simp; omega, by simp; omega⟩
    unfold pwriteAt
    simp only [hcne, if_false]
    have h0 : off - (content.take N ++ rest).length = 0 := by simp; omega
    simp only [h0, zeros, List.replicate_zero, List.append_nil]
    rw [List.take_append_of_le_length (by omega), List.take_take, show min off N = off by omega]
    rw [List.drop_append, htl, List.drop_eq_nil_of_le (by omega : (content.take N).length ≤ off + c.length),
      List.nil_append]
    rw [List.take_add]
    congr 1
    rw [← hc]

def NotRunning : W → Prop
  | .running _ _ => False
  | _ => True

/-- invariant of any interleaving of good writers: either (A) the file was complete from the start and nobody
    ever opens it, or (B) it is a correct prefix of `content` plus leftovers and every running writer's next
    write lies inside (or right at the end of) that prefix -/
def ConcInv (hash : Bytes → Digest) (d : Digest) (content : Bytes) (s : Sys) : Prop :=
  (∃ g, s.file = some g ∧ g.length = content.length ∧ hash g = d ∧ ∀ w ∈ s.ws, NotRunning w) ∨
  (∃ N, N ≤ content.length ∧ FileB content s.file N ∧ ∀ w ∈ s.ws, WOK content s.file N w)

theorem concInv_trusted (hash : Bytes → Digest) (d : Digest) (content : Bytes) (hh : hash content = d)
    (s : Sys) (h : ConcInv hash d content s) : Trusted hash s.file d content.length := by
  rcases h with ⟨g, hf, hl, hg, _⟩ | ⟨N, hN, hf, _⟩
  · intro f hf' _ _; rw [hf] at hf'; cases hf'; exact hg
  · intro f hf' _ hlen
    rw [hf'] at hf
    obtain ⟨rest, rfl, _, hr2⟩ := hf
    have htl : (content.take N).length = N := by simp; omega
    have hN' : N = content.length := hr2 (by simp only [List.length_append, htl] at hlen; exact hlen)
    have : rest = [] := List.eq_nil_of_length_eq_zero (by
      simp only [List.length_append, htl] at hlen; omega)
    subst this
    rw [hN', List.take_length, List.append_nil]; exact hh

theorem wtear_cases (k : Nat) (w : W) (f : FileSt) :
    wtear k w f = (.dead, f) ∨
    ∃ off bs rest r, w = .running (.pwrite off bs :: rest) r ∧
      wtear k w f = (.dead, applyEff (.pwrite off (bs.take k)) f) := by
  cases w with
  | running es r =>
    cases es with
    | nil => exact Or.inl rfl
    | cons e es =>
      cases e with
      | pwrite off bs => exact Or.inr ⟨off, bs, es, r, rfl, rfl⟩
      | _ => exact Or.inl rfl
  | _ => exact Or.inl rfl

theorem set_all {α} (P : α → Prop) (l : List α) (i : Nat) (a : α) (hl : ∀ x ∈ l, P x) (ha : P a) :
    ∀ x ∈ l.set i a, P x := by
  intro x hx
  rcases List.mem_or_eq_of_mem_set hx with h | h
  · exact hl x h
  · rw [h]; exact ha

theorem execEv_inv (hash : Bytes → Digest) (d : Digest) (content : Bytes) (hh : hash content = d)
    (hsz : content.length ≠ 0) (s : Sys) (ev : Ev) (h : ConcInv hash d content s) :
    ConcInv hash d content (execEv hash d content.length s ev) := by
  cases ev with
  | step i =>
    simp only [execEv]
    cases hi : s.ws[i]? with
    | none => exact h
    | some w =>
      have hw : w ∈ s.ws := List.mem_of_getElem? hi
      simp only
      rcases h with ⟨g, hf, hl, hg, hnr⟩ | ⟨N, hN, hf, hws⟩
      · -- (A)
        left
        cases w with
        | init sc =>
          have : wstep hash d content.length (.init sc) s.file = (.done .ok, s.file) := by
            simp [wstep, hf, hl]
          rw [this]
          exact ⟨g, hf, hl, hg, set_all _ _ _ _ hnr trivial⟩
        | running es r => exact absurd (hnr _ hw) (by simp [NotRunning])
        | done r => exact ⟨g, hf, hl, hg, set_all _ _ _ _ hnr trivial⟩
        | dead => exact ⟨g, hf, hl, hg, set_all _ _ _ _ hnr trivial⟩
      · -- (B)
        right
        have hwok := hws w hw
        cases w with
        | init sc =>
          simp only [wstep]
          split
          · exact ⟨N, hN, hf, set_all _ _ _ _ hws trivial⟩
          · have htr : statTrunc s.file content.length = false := by
              cases hfile : s.file with
              | none => rfl
              | some f =>
                rw [hfile] at hf
                obtain ⟨rest, rfl, hr1, _⟩ := hf
                have htl : (content.take N).length = N := by simp; omega
                simp only [statTrunc, List.length_append, htl, decide_eq_false_iff_not]; omega
            obtain ⟨es', hes, hgw⟩ := afterStat_good hash d content hh hsz false sc hwok
            rw [htr, hes]
            exact ⟨N, hN, hf, set_all _ _ _ _ hws (Or.inl ⟨es', rfl, hgw⟩)⟩
        | running es r =>
          cases es with
          | nil => exact ⟨N, hN, hf, set_all _ _ _ _ hws trivial⟩
          | cons e es =>
            simp only [wstep]
            rcases hwok with ⟨es', he, hgw⟩ | ⟨hne, off, ho, hgw⟩ | he
            · -- the open
              simp only [List.cons.injEq] at he
              obtain ⟨rfl, rfl⟩ := he
              cases hfile : s.file with
              | none =>
                rw [hfile] at hf hws
                have hN0 : N = 0 := hf
                subst hN0
                refine ⟨0, hN, ⟨[], by simp, by simp, by simp⟩, ?_⟩
                apply set_all
                · intro x hx; exact WOK_mono content none _ 0 0 x (by simp) (Nat.le_refl _) (hws x hx)
                · exact Or.inr (Or.inl ⟨by simp [applyEff], 0, Nat.le_refl _, hgw⟩)
              | some f =>
                rw [hfile] at hf hws
                refine ⟨N, hN, hf, ?_⟩
                apply set_all _ _ _ _ hws
                exact Or.inr (Or.inl ⟨by simp [applyEff], 0, Nat.zero_le _, hgw⟩)
            · -- a write or the close
              cases hfile : s.file with
              | none => exact absurd hfile hne
              | some f =>
                rw [hfile] at hf hws
                cases hgw with
                | fin =>
                  refine ⟨N, hN, hf, ?_⟩
                  apply set_all _ _ _ _ hws
                  exact Or.inr (Or.inr rfl)
                | write _ c rest hc hl hrest =>
                  refine ⟨max N (off + c.length), by omega, ?_, ?_⟩
                  · exact pwrite_good content f c N off hN hf ho hc hl
                  · apply set_all
                    · intro x hx
                      exact WOK_mono content (some f) _ N _ x (by simp [applyEff]) (by omega) (hws x hx)
                    · exact Or.inr (Or.inl ⟨by simp [applyEff], off + c.length, by omega, hrest⟩)
            · cases he
        | done r => exact ⟨N, hN, hf, set_all _ _ _ _ hws trivial⟩
        | dead => exact ⟨N, hN, hf, set_all _ _ _ _ hws trivial⟩
  | tear i k =>
    simp only [execEv]
    cases hi : s.ws[i]? with
    | none => exact h
    | some w =>
      have hw : w ∈ s.ws := List.mem_of_getElem? hi
      simp only
      rcases wtear_cases k w s.file with ht | ⟨off, bs, rest, r, rfl, ht⟩
      · rw [ht]
        rcases h with ⟨g, hf, hl, hg, hnr⟩ | ⟨N, hN, hf, hws⟩
        · exact Or.inl ⟨g, hf, hl, hg, set_all _ _ _ _ hnr trivial⟩
        · exact Or.inr ⟨N, hN, hf, set_all _ _ _ _ hws trivial⟩
      · rw [ht]
        rcases h with ⟨g, hf, hl, hg, hnr⟩ | ⟨N, hN, hf, hws⟩
        · exact absurd (hnr _ hw) (by simp [NotRunning])
        · right
          rcases hws _ hw with ⟨es', he, _⟩ | ⟨hne, off', ho, hgw⟩ | he
          · simp at he
          · cases hfile : s.file with
            | none => exact absurd hfile hne
            | some f =>
              rw [hfile] at hf hws
              cases hgw with
              | write _ _ _ hc hl hrest =>
                have hc' : bs.take k = (content.drop off).take (bs.take k).length := by
                  conv => lhs; rw [hc]
                  rw [List.take_take, List.length_take]
                have hl' : off + (bs.take k).length ≤ content.length := by
                  rw [List.length_take]; omega
                refine ⟨max N (off + (bs.take k).length), by omega, ?_, ?_⟩
                · exact pwrite_good content f _ N off hN hf ho hc' hl'
                · apply set_all
                  · intro x hx
                    exact WOK_mono content (some f) _ N _ x (by simp [applyEff]) (by omega) (hws x hx)
                  · trivial
          · cases he

theorem exec_inv (hash : Bytes → Digest) (d : Digest) (content : Bytes) (hh : hash content = d)
    (hsz : content.length ≠ 0) (evs : List Ev) : ∀ (s : Sys), ConcInv hash d content s →
    ConcInv hash d content (exec hash d content.length evs s) := by
  induction evs with
  | nil => intro s h; exact h
  | cons ev evs ih =>
    intro s h
    exact ih _ (execEv_inv hash d content hh hsz s ev h)

/-! ## manifests -/

theorem copyNamed_exact_file (hash : Bytes → Digest) (st : FileSt) (f : Bytes)
    (hne : st.map List.length ≠ some f.length) :
    run (copyNamedEffs hash st (hash f) f.length ⟨[f], .eof⟩).1 st = some f := by
  unfold copyNamedEffs
  simp only [hne, if_false]
  by_cases hz : f.length = 0
  · have hf : f = [] := List.eq_nil_of_length_eq_zero hz
    subst hf
    cases st with
    | none => simp [afterStat, applyEff]
    | some g =>
      have hg : g.length ≠ 0 := by intro e; apply hne; simp [e]
      have : statTrunc (some g) 0 = true := by simp [statTrunc]; omega
      simp [afterStat, this, applyEff]
  · have hok : (copyLoop hash (hash f) f.length 0 [] [f] .eof).2 = .ok := by
      have hf : f ≠ [] := by intro e; apply hz; simp [e]
      simp [copyLoop, hf]
    have heff := afterStat_effs_ok hash (statTrunc st f.length) (hash f) f.length ⟨[f], .eof⟩ hz hok
    rw [heff]
    obtain ⟨g, hopen, hg⟩ := open_short st f.length hne hz
    have := copyLoop_ok hash (hash f) f.length g hg [f] [] .eof (seenOK_nil hash _ _ hz) hok
    simp only [overlay_nil, List.nil_append, List.flatten_cons, List.flatten_nil, List.append_nil] at this
    simp only [run_cons, hopen, run_append, this.1]
    rfl

theorem foldEq_refl (a : MPath) : foldEq a a = true := by simp [foldEq]

theorem manGet_manInsertNew (p : MPath) (v : Bytes) : ∀ (mans : List (MPath × Bytes)),
    (∀ e ∈ mans, (e.1 == p) = false) → manGet (manInsertNew p v mans) p = some v := by
  intro mans
  induction mans with
  | nil => intro _; simp [manInsertNew, manGet]
  | cons x xs ih =>
    intro h
    unfold manInsertNew
    split
    · simp [manGet]
    · have hx := h x (List.mem_cons_self)
      have := ih (fun e he => h e (List.mem_cons_of_mem _ he))
      simp only [manGet, List.find?_cons, hx] at this ⊢
      exact this

theorem manGet_map_replace (p : MPath) (v : Bytes) : ∀ (mans : List (MPath × Bytes)),
    mans.any (fun e => e.1 == p) = true →
    manGet (mans.map (fun e => if e.1 == p then (p, v) else e)) p = some v := by
  intro mans
  induction mans with
  | nil => intro h; simp at h
  | cons x xs ih =>
    intro h
    by_cases hx : (x.1 == p) = true
    · simp only [manGet, List.map_cons, hx, if_true, List.find?_cons, beq_self_eq_true, Option.map_some]
    · have hx' : (x.1 == p) = false := by simpa using hx
      have hany : xs.any (fun e => e.1 == p) = true := by simpa [hx'] using h
      have := ih hany
      simp only [manGet, List.map_cons, hx', Bool.false_eq_true, if_false, List.find?_cons] at this ⊢
      exact this

theorem manGet_manSet_same (mans : List (MPath × Bytes)) (p : MPath) (v : Bytes) :
    manGet (manSet mans p (some v)) p = some v := by
  unfold manSet
  simp only
  split
  · next h => exact manGet_map_replace p v mans h
  · next h =>
    apply manGet_manInsertNew
    intro e he
    have : ¬ (mans.any (fun e => e.1 == p) = true) := h
    simp only [List.any_eq_true, not_exists, not_and] at this
    simpa using this e he

theorem manifestPathOf_insertNew (want : MPath) (v : Bytes) : ∀ (mans : List (MPath × Bytes)),
    (∀ e ∈ mans, foldEq want e.1 = false) →
    manifestPathOf (manInsertNew want v mans) want = want := by
  intro mans
  induction mans with
  | nil => intro _; simp [manInsertNew, manifestPathOf, foldEq_refl]
  | cons x xs ih =>
    intro h
    unfold manInsertNew
    split
    · simp [manifestPathOf, foldEq_refl]
    · have hx := h x (List.mem_cons_self)
      have := ih (fun e he => h e (List.mem_cons_of_mem _ he))
      simp only [manifestPathOf, List.find?_cons, hx] at this ⊢
      exact this

theorem manifestPathOf_map_replace (want : MPath) (v : Bytes) (e : MPath × Bytes) :
    ∀ (mans : List (MPath × Bytes)), mans.find? (fun x => foldEq want x.1) = some e →
    manifestPathOf (mans.map (fun x => if x.1 == e.1 then (e.1, v) else x)) want = e.1 := by
  intro mans
  induction mans with
  | nil => intro h; simp at h
  | cons x xs ih =>
    intro h
    by_cases hx : foldEq want x.1 = true
    · simp only [List.find?_cons, hx, Option.some.injEq] at h
      subst h
      simp [manifestPathOf, hx]
    · have hx' : foldEq want x.1 = false := by simpa using hx
      simp only [List.find?_cons, hx'] at h
      have he : foldEq want e.1 = true := by simpa using List.find?_some h
      have hne : (x.1 == e.1) = false := by
        cases hb : (x.1 == e.1) with
        | false => rfl
        | true => rw [beq_iff_eq] at hb; rw [hb] at hx'; rw [hx'] at he; cases he
      have := ih h
      simp only [manifestPathOf, List.map_cons, hne, Bool.false_eq_true, if_false, List.find?_cons, hx'] at this ⊢
      exact this

/-- writing the manifest at `manifestPath(name)` does not change what `manifestPath(name)` is -/
theorem manifestPathOf_manSet (mans : List (MPath × Bytes)) (want : MPath) (v : Bytes) :
    manifestPathOf (manSet mans (manifestPathOf mans want) (some v)) want = manifestPathOf mans want := by
  cases hfind : mans.find? (fun x => foldEq want x.1) with
  | some e =>
    have hp : manifestPathOf mans want = e.1 := by simp [manifestPathOf, hfind]
    rw [hp]
    have hmem : e ∈ mans := List.mem_of_find?_eq_some hfind
    have hany : mans.any (fun x => x.1 == e.1) = true := by
      simp only [List.any_eq_true]; exact ⟨e, hmem, by simp⟩
    simp only [manSet, hany, if_true]
    exact manifestPathOf_map_replace want v e mans hfind
  | none =>
    have hp : manifestPathOf mans want = want := by simp [manifestPathOf, hfind]
    rw [hp]
    have hall : ∀ e ∈ mans, foldEq want e.1 = false := by
      intro e he
      have := List.find?_eq_none.mp hfind e he
      simpa using this
    have hany : mans.any (fun x => x.1 == want) = false := by
      rw [Bool.eq_false_iff]
      intro h
      simp only [List.any_eq_true] at h
      obtain ⟨e, he, hk⟩ := h
      rw [beq_iff_eq] at hk
      have := hall e he
      rw [hk, foldEq_refl] at this
      cases this
    simp only [manSet, hany, Bool.false_eq_true, if_false]
    exact manifestPathOf_insertNew want v mans hall

/-! ## names are confined to manifests/ -/

/-- a path component that `filepath.Join` keeps as one directory entry below its parent: non-empty, does not
    begin with `.` (so it is neither `.` nor `..`), contains no `/` -/
def SafeC (s : Bytes) : Prop := s ≠ [] ∧ s.head? ≠ some 0x2e ∧ ∀ c ∈ s, c ≠ cSlash

theorem SafeC.ne_dot {s : Bytes} (h : SafeC s) : s ≠ [0x2e] ∧ s ≠ [0x2e, 0x2e] := by
  refine ⟨?_, ?_⟩ <;> intro e <;> subst e <;> exact h.2.1 rfl

theorem isAlnumU_not_special (c : UInt8) (h : isAlnumU c = true) : c ≠ 0x2e ∧ c ≠ cSlash := by
  refine ⟨?_, ?_⟩ <;> intro e <;> subst e <;> revert h <;> decide

theorem validRest_noSlash (kind : Part) : ∀ (s : Bytes), validRest kind s = true → ∀ c ∈ s, c ≠ cSlash := by
  intro s
  induction s with
  | nil => intro _ c hc; cases hc
  | cons x xs ih =>
    intro h c hc
    simp only [validRest, Bool.and_eq_true] at h
    rcases List.mem_cons.mp hc with rfl | hm
    · intro e
      subst e
      have h1 := h.1
      cases kind <;> exact absurd h1 (by decide)
    · exact ih h.2 c hm

/-- **`isValidPart` ⇒ safe component** (non-empty parts; emptiness is tested by `IsFullyQualified`) -/
theorem isValidPart_safe (kind : Part) (s : Bytes) (hne : s ≠ []) (h : isValidPart kind s = true) : SafeC s := by
  cases s with
  | nil => exact absurd rfl hne
  | cons c cs =>
    simp only [isValidPart, Bool.and_eq_true] at h
    obtain ⟨_, hc, hr⟩ := h
    have hs := isAlnumU_not_special c hc
    refine ⟨by simp, ?_, ?_⟩
    · simp only [List.head?_cons, ne_eq, Option.some.injEq]; exact hs.1
    · intro x hx
      rcases List.mem_cons.mp hx with rfl | hm
      · exact hs.2
      · exact validRest_noSlash kind cs hr x hm

def SafePath (p : MPath) : Prop := ∃ h n m t, p = [h, n, m, t] ∧ SafeC h ∧ SafeC n ∧ SafeC m ∧ SafeC t

/-- **`nameToPath` is confined**: whatever the string, it is refused or yields exactly four safe components,
    i.e. `manifests/<h>/<n>/<m>/<t>` is a file four levels below `manifests/` and nowhere else -/
theorem nameToPath_safe (name : Bytes) (p : MPath) (h : nameToPath name = some p) : SafePath p := by
  unfold nameToPath at h
  simp only at h
  split at h
  · next hfq =>
    cases h
    simp only [Name.isFullyQualified, Name.isValid, Bool.and_eq_true, Bool.or_eq_true, Bool.not_eq_true',
      List.isEmpty_eq_false_iff] at hfq
    obtain ⟨⟨⟨⟨⟨⟨⟨vh, vn⟩, vt⟩, _, vm⟩, hh⟩, hn⟩, hm⟩, ht⟩ := hfq
    have nh : (parseName name).h.isEmpty = false := by simpa using hh
    have nn : (parseName name).n.isEmpty = false := by simpa using hn
    have nt : (parseName name).t.isEmpty = false := by simpa using ht
    have oh : isValidPart .host (parseName name).h = true := by
      rcases vh with e | e
      · rw [nh] at e; cases e
      · exact e
    have on : isValidPart .ns (parseName name).n = true := by
      rcases vn with e | e
      · rw [nn] at e; cases e
      · exact e
    have ot : isValidPart .tag (parseName name).t = true := by
      rcases vt with e | e
      · rw [nt] at e; cases e
      · exact e
    exact ⟨_, _, _, _, rfl, isValidPart_safe _ _ hh oh, isValidPart_safe _ _ hn on,
      isValidPart_safe _ _ hm vm, isValidPart_safe _ _ ht ot⟩
  · cases h

def AllSafe (mans : List (MPath × Bytes)) : Prop := ∀ e ∈ mans, SafePath e.1

theorem manifestPathOf_safe (mans : List (MPath × Bytes)) (want : MPath) (hm : AllSafe mans)
    (hw : SafePath want) : SafePath (manifestPathOf mans want) := by
  unfold manifestPathOf
  split
  · next e he => exact hm e (List.mem_of_find?_eq_some he)
  · exact hw

theorem manInsertNew_mem (p : MPath) (v : Bytes) : ∀ (mans : List (MPath × Bytes)) (e : MPath × Bytes),
    e ∈ manInsertNew p v mans → e = (p, v) ∨ e ∈ mans := by
  intro mans
  induction mans with
  | nil => intro e he; simp [manInsertNew] at he; exact Or.inl he
  | cons x xs ih =>
    intro e he
    unfold manInsertNew at he
    split at he
    · rcases List.mem_cons.mp he with h | h
      · exact Or.inl h
      · exact Or.inr h
    · rcases List.mem_cons.mp he with h | h
      · exact Or.inr (h ▸ List.mem_cons_self)
      · rcases ih e h with h' | h'
        · exact Or.inl h'
        · exact Or.inr (List.mem_cons_of_mem _ h')

/-- writing or removing a manifest at a safe path keeps every manifest at a safe path -/
theorem manSet_safe (mans : List (MPath × Bytes)) (p : MPath) (v : FileSt) (hm : AllSafe mans)
    (hp : SafePath p) : AllSafe (manSet mans p v) := by
  intro e he
  unfold manSet at he
  cases v with
  | none =>
    simp only [List.mem_filter] at he
    exact hm e he.1
  | some b =>
    simp only at he
    split at he
    · simp only [List.mem_map] at he
      obtain ⟨x, hx, rfl⟩ := he
      split
      · exact hp
      · exact hm x hx
    · rcases manInsertNew_mem p b mans e he with rfl | h
      · exact hp
      · exact hm e h

end OllamaVerif.BlobCache
