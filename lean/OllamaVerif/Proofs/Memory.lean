/-
  Helper lemmas for C16 (memory estimator).  Core Lean only.

  Part 1 (no guard): counting — every placed layer is counted on exactly one GPU, the layer
  count is bounded by blocks+1 and by num_gpu.
  Part 2 (no-wrap guard): the per-GPU allocation invariant through admission, the block loop,
  the output layer and the graph addition; TotalSize ≥ VRAMSize.
-/
import OllamaVerif.Model.Memory

namespace OllamaVerif.Memory

def W : Nat := 18446744073709551616

theorem wr_le (x : Nat) : wr x ≤ x := by unfold wr; exact Nat.mod_le _ _
theorem wr_lt (x : Nat) : wr x < W := by unfold wr W; omega
theorem wr_id {x : Nat} (h : x < W) : wr x = x := by unfold wr; unfold W at h; omega

def sumCount (gs : List GS) : Nat := (gs.map (·.count)).sum

/-! ## Part 1: counting -/

theorem lookup_some {ws : List Nat} {gs : List GS} {p g : Nat} {s : GS}
    (h : lookup ws gs p = some (g, s)) : gs[g]? = some s := by
  unfold lookup at h
  split at h
  · cases h
  · split at h
    · cases h
    · rename_i hs
      injection h with h
      injection h with h1 h2
      subst h1; subst h2; exact hs

theorem placeLayer_some (c : Core) (gs : List GS) (i L : Nat) :
    ∀ (j : Nat) (ws : List Nat) (g : Nat) (ws' : List Nat),
      placeLayer c gs i L j ws = (some g, ws') → ∃ s, gs[g]? = some s ∧ fits c s L = true := by
  intro j
  induction j with
  | zero => intro ws g ws' h; simp [placeLayer] at h
  | succ j ih =>
    intro ws g ws' h
    unfold placeLayer at h
    simp only at h
    split at h
    · rename_i g0 s0 hl
      split at h
      · rename_i hf
        injection h with h1 _
        injection h1 with h1
        subst h1
        exact ⟨s0, lookup_some hl, hf⟩
      · exact ih _ _ _ h
    · exact ih _ _ _ h

theorem placeOut_some (c : Core) (gs : List GS) (ws : List Nat) (lc need : Nat) :
    ∀ (j : Nat) (g : Nat), placeOut c gs ws lc need j = some g →
      ∃ s, gs[g]? = some s ∧ fits c s need = true := by
  intro j
  induction j with
  | zero => intro g h; simp [placeOut] at h
  | succ j ih =>
    intro g h
    unfold placeOut at h
    split at h
    · rename_i g0 s0 hl
      split at h
      · rename_i hf
        injection h with h1
        subst h1
        exact ⟨s0, lookup_some hl, hf⟩
      · exact ih _ h
    · exact ih _ h

theorem bump_count (need : Nat) : ∀ (gs : List GS) (g : Nat) (s : GS), gs[g]? = some s →
    sumCount (bump need gs g) = sumCount gs + 1 := by
  intro gs
  induction gs with
  | nil => intro g s h; simp at h
  | cons a rest ih =>
    intro g s h
    cases g with
    | zero => simp [bump, sumCount]; omega
    | succ g =>
      simp only [List.getElem?_cons_succ] at h
      have := ih g s h
      simp only [bump, sumCount, List.map_cons, List.sum_cons] at this ⊢
      omega

/-- elementwise effect of `bump` -/
theorem bump_forall (P : GS → Prop) (need : Nat) : ∀ (gs : List GS) (g : Nat),
    (∀ s ∈ gs, P s) →
    (∀ s, gs[g]? = some s → P { s with alloc := wr (s.alloc + need), count := s.count + 1 }) →
    ∀ s ∈ bump need gs g, P s := by
  intro gs
  induction gs with
  | nil => intro g _ _ s hs; simp [bump] at hs
  | cons a rest ih =>
    intro g hall hg s hs
    cases g with
    | zero =>
      simp only [bump, List.mem_cons] at hs
      rcases hs with rfl | hs
      · exact hg a (by simp)
      · exact hall s (by simp [hs])
    | succ g =>
      simp only [bump, List.mem_cons] at hs
      rcases hs with rfl | hs
      · exact hall _ (by simp)
      · exact ih g (fun s hs => hall s (by simp [hs]))
          (fun s h => hg s (by simpa using h)) s hs

theorem bump_free (need : Nat) : ∀ (gs : List GS) (g : Nat),
    (bump need gs g).map (·.free) = gs.map (·.free) := by
  intro gs
  induction gs with
  | nil => intro g; simp [bump]
  | cons a rest ih =>
    intro g
    cases g with
    | zero => simp [bump]
    | succ g => simp [bump, ih g]

/-- counting invariant of the block loop, with both bounds on the layer count -/
theorem layerLoop_count (c : Core) : ∀ (Ls : List Nat) (i : Nat) (st : St),
    sumCount st.gs = st.lc →
    let r := layerLoop c i Ls st
    sumCount r.gs = r.lc ∧ st.lc ≤ r.lc ∧ r.lc ≤ st.lc + Ls.length ∧
      (0 ≤ c.numGPU → (st.lc : Int) ≤ c.numGPU → (r.lc : Int) ≤ c.numGPU) := by
  intro Ls
  induction Ls with
  | nil => intro i st h; simp [layerLoop, h]
  | cons L rest ih =>
    intro i st h
    simp only [layerLoop]
    split
    · have := ih (i + 1) st h
      simp only [List.length_cons] at this ⊢
      omega
    · rename_i hcap
      split
      · rename_i g ws hp
        obtain ⟨s, hs, _⟩ := placeLayer_some c st.gs i L _ _ _ _ hp
        have h' : sumCount (bump L st.gs g) = st.lc + 1 := by rw [bump_count L st.gs g s hs, h]
        have := ih (i + 1) { ws := ws, gs := bump L st.gs g, lc := st.lc + 1 } h'
        simp only [List.length_cons] at this ⊢
        refine ⟨this.1, by omega, by omega, ?_⟩
        intro h0 h1
        apply this.2.2.2 h0
        simp only [capped, decide_eq_true_eq] at hcap
        show ((st.lc + 1 : Nat) : Int) ≤ c.numGPU
        omega
      · rename_i ws hp
        have := ih (i + 1) { st with ws := ws } h
        simp only [List.length_cons] at this ⊢
        omega

theorem addGraph_count (graph : Nat) (gs : List GS) :
    (addGraph graph gs).map (·.count) = gs.map (·.count) := by
  unfold addGraph
  rw [List.map_map]
  apply List.map_congr_left
  intro s _
  simp only [Function.comp]
  split <;> rfl

theorem addGraph_free (graph : Nat) (gs : List GS) :
    (addGraph graph gs).map (·.free) = gs.map (·.free) := by
  unfold addGraph
  rw [List.map_map]
  apply List.map_congr_left
  intro s _
  simp only [Function.comp]
  split <;> rfl

theorem admit_count (c : Core) : ∀ (gpus : List Gpu) (i : Nat) (ws : List Nat),
    sumCount (admit c i gpus ws).2 = 0 := by
  intro gpus
  induction gpus with
  | nil => intro i ws; simp [admit, sumCount]
  | cons g rest ih =>
    intro i ws
    rw [admit]
    by_cases hadm : admitReject c g (if ws.isEmpty then c.gzo else 0) = true
    · simp only [hadm, ↓reduceIte]
      have := ih (i + 1) ws
      simp only [sumCount, List.map_cons, List.sum_cons] at this ⊢
      omega
    · simp only [Bool.not_eq_true] at hadm
      simp only [hadm, Bool.false_eq_true, ↓reduceIte]
      have := ih (i + 1) (ws ++ [i])
      simp only [sumCount, List.map_cons, List.sum_cons] at this ⊢
      omega

theorem admit_free (c : Core) : ∀ (gpus : List Gpu) (i : Nat) (ws : List Nat),
    (admit c i gpus ws).2.map (·.free) = gpus.map (·.free) := by
  intro gpus
  induction gpus with
  | nil => intro i ws; simp [admit]
  | cons g rest ih =>
    intro i ws
    rw [admit]
    by_cases hadm : admitReject c g (if ws.isEmpty then c.gzo else 0) = true
    · simp only [hadm, ↓reduceIte, List.map_cons, ih (i + 1) ws]
    · simp only [Bool.not_eq_true] at hadm
      simp only [hadm, Bool.false_eq_true, ↓reduceIte, List.map_cons, ih (i + 1) (ws ++ [i])]

theorem resolve_length : ∀ (bl : List (Option Nat × Nat)) (prev : Nat),
    (resolve prev bl).length = bl.length := by
  intro bl
  induction bl with
  | nil => intro prev; simp [resolve]
  | cons b rest ih =>
    intro prev
    obtain ⟨w, kv⟩ := b
    cases w <;> simp [resolve, ih]

theorem mkCore_blocks (inp : Inp) : (mkCore inp).layerSizes.length = inp.blocks.length := by
  simp [mkCore, resolve_length]

theorem mkCore_numGPU (inp : Inp) : (mkCore inp).numGPU = inp.numGPU := by
  simp [mkCore]

theorem mkCore_overhead (inp : Inp) : (mkCore inp).overhead = inp.overhead := by
  simp [mkCore]

theorem mkCore_ovSafe (inp : Inp) : (mkCore inp).ovSafe = inp.ovSafe := by
  simp [mkCore]

/-- the plan's counting facts -/
theorem plan_count (c : Core) (gpus : List Gpu) :
    let p := plan c gpus
    sumCount p.gs = p.lc ∧ p.lc ≤ c.layerSizes.length + 1 ∧
      (0 ≤ c.numGPU → (p.lc : Int) ≤ c.numGPU) := by
  have h0 : sumCount (admit c 0 gpus []).2 = 0 := admit_count c gpus 0 []
  have hl := layerLoop_count c c.layerSizes 0
    { ws := (admit c 0 gpus []).1, gs := (admit c 0 gpus []).2, lc := 0 } h0
  generalize hst : layerLoop c 0 c.layerSizes
    { ws := (admit c 0 gpus []).1, gs := (admit c 0 gpus []).2, lc := 0 } = st at hl
  obtain ⟨hc, _, hle, hcap⟩ := hl
  simp only [Nat.zero_add] at hle
  have hcap' : 0 ≤ c.numGPU → (st.lc : Int) ≤ c.numGPU := fun h => hcap h (by simpa using h)
  clear hcap
  simp only [plan, hst]
  generalize hpl : (if (decide (c.memOut > 0) && !capped c st.lc) = true then
      placeOut c st.gs st.ws st.lc c.memOut st.ws.length else none) = placed
  cases placed with
  | none =>
    simp only [sumCount, addGraph_count]
    refine ⟨hc, by omega, ?_⟩
    exact hcap'
  | some g =>
    split at hpl
    · rename_i hco
      obtain ⟨s, hs, _⟩ := placeOut_some c st.gs st.ws st.lc c.memOut _ _ hpl
      simp only [sumCount, addGraph_count]
      have := bump_count c.memOut st.gs g s hs
      simp only [sumCount] at this hc
      refine ⟨by omega, by omega, ?_⟩
      intro h
      simp only [Bool.and_eq_true, Bool.not_eq_true', decide_eq_true_eq, capped,
        decide_eq_false_iff_not] at hco
      omega
    · cases hpl

theorem layerLoop_free (c : Core) : ∀ (Ls : List Nat) (i : Nat) (st : St),
    (layerLoop c i Ls st).gs.map (·.free) = st.gs.map (·.free) := by
  intro Ls
  induction Ls with
  | nil => intro i st; simp [layerLoop]
  | cons L rest ih =>
    intro i st
    simp only [layerLoop]
    split
    · exact ih (i + 1) st
    · split
      · rw [ih]; exact bump_free L st.gs _
      · rw [ih]

/-- the plan keeps one entry per GPU, in order -/
theorem plan_free (c : Core) (gpus : List Gpu) :
    (plan c gpus).gs.map (·.free) = gpus.map (·.free) := by
  have hfree := layerLoop_free c c.layerSizes 0
    { ws := (admit c 0 gpus []).1, gs := (admit c 0 gpus []).2, lc := 0 }
  rw [show ({ ws := (admit c 0 gpus []).1, gs := (admit c 0 gpus []).2, lc := 0 } : St).gs
      = (admit c 0 gpus []).2 from rfl, admit_free] at hfree
  simp only [plan]
  split <;> simp only [addGraph_free, bump_free, hfree]

theorem plan_length (c : Core) (gpus : List Gpu) : (plan c gpus).gs.length = gpus.length := by
  have := congrArg List.length (plan_free c gpus)
  simpa using this

/-! ## Part 2: allocations under the no-wrap guard -/

/-- running invariant of one GPU: untouched, or what is planned on it plus the larger graph plus
    the overhead fits in its free memory (strictly once a layer was placed on it) -/
def OkG (c : Core) (s : GS) : Prop :=
  (s.alloc = 0 ∧ s.count = 0) ∨
  (s.alloc + c.maxg + c.overhead ≤ s.free ∧ (0 < s.count → s.alloc + c.maxg + c.overhead < s.free))

/-- no sum the estimator forms for this GPU and this layer size reaches 2^64
    (in variant C16-W1 the overhead is not part of any sum) -/
def Room (c : Core) (free minimum L : Nat) : Prop :=
  (if c.ovSafe then 0 else c.overhead) + c.gzo + c.maxg + minimum + 2 * c.layer0 + free + L < W

def Good (c : Core) (N : List Nat) (s : GS) : Prop :=
  OkG c s ∧ ∀ L ∈ N, Room c s.free s.minimum L

/-- what the finished plan guarantees for one GPU -/
def FinalOk (c : Core) (s : GS) : Prop :=
  (s.alloc = 0 ∨ s.alloc + c.overhead ≤ s.free) ∧ (0 < s.count → s.alloc + c.overhead < s.free)

theorem subW_eq {a b : Nat} (h1 : b ≤ a) (h2 : a < W) : subW a b = a - b := by
  unfold subW; unfold W at h2; omega

/-- (fixed variant only) every GPU still in `gpusWithSpace` has `overhead ≤ free`, so that
    `free - overhead` does not wrap.  `frees` is the (immutable) list of free-memory figures. -/
def WsOk (c : Core) (frees : List Nat) (ws : List Nat) : Prop :=
  c.ovSafe = true → ∀ g ∈ ws, ∀ f, frees[g]? = some f → c.overhead ≤ f

theorem lookup_mem {ws : List Nat} {gs : List GS} {p g : Nat} {s : GS}
    (h : lookup ws gs p = some (g, s)) : g ∈ ws := by
  unfold lookup at h
  split at h
  · cases h
  · rename_i g0 hg0
    split at h
    · cases h
    · injection h with h
      injection h with h1 _
      subst h1
      exact List.mem_of_getElem? hg0

theorem placeLayer_mem (c : Core) (gs : List GS) (i L : Nat) :
    ∀ (j : Nat) (ws : List Nat) (r : Option Nat) (ws' : List Nat),
      placeLayer c gs i L j ws = (r, ws') →
      (∀ x ∈ ws', x ∈ ws) ∧ (∀ g, r = some g → g ∈ ws) := by
  intro j
  induction j with
  | zero =>
    intro ws r ws' h
    simp only [placeLayer, Prod.mk.injEq] at h
    obtain ⟨h1, h2⟩ := h
    subst h1; subst h2
    exact ⟨fun x hx => hx, fun g hg => by cases hg⟩
  | succ j ih =>
    intro ws r ws' h
    unfold placeLayer at h
    simp only at h
    have herase : ∀ x ∈ ws.eraseIdx (i % (j + 1)), x ∈ ws :=
      fun x hx => List.mem_of_mem_eraseIdx hx
    split at h
    · rename_i g0 s0 hl
      split at h
      · simp only [Prod.mk.injEq] at h
        obtain ⟨h1, h2⟩ := h
        subst h1; subst h2
        exact ⟨fun x hx => hx, fun g hg => by injection hg with hg; subst hg; exact lookup_mem hl⟩
      · obtain ⟨a, b⟩ := ih _ _ _ h
        exact ⟨fun x hx => herase x (a x hx), fun g hg => herase g (b g hg)⟩
    · obtain ⟨a, b⟩ := ih _ _ _ h
      exact ⟨fun x hx => herase x (a x hx), fun g hg => herase g (b g hg)⟩

theorem placeOut_mem (c : Core) (gs : List GS) (ws : List Nat) (lc need : Nat) :
    ∀ (j : Nat) (g : Nat), placeOut c gs ws lc need j = some g → g ∈ ws := by
  intro j
  induction j with
  | zero => intro g h; simp [placeOut] at h
  | succ j ih =>
    intro g h
    unfold placeOut at h
    split at h
    · rename_i g0 s0 hl
      split at h
      · injection h with h1
        subst h1
        exact lookup_mem hl
      · exact ih _ h
    · exact ih _ h

theorem fits_good (c : Core) (N : List Nat) (s : GS) (L : Nat) (hL : L ∈ N)
    (hov : c.ovSafe = true → c.overhead ≤ s.free)
    (hg : Good c N s) (hf : fits c s L = true) :
    Good c N { s with alloc := wr (s.alloc + L), count := s.count + 1 } := by
  obtain ⟨hok, hroom⟩ := hg
  refine ⟨?_, hroom⟩
  have hr := hroom L hL
  unfold fits at hf
  unfold OkG at hok ⊢
  unfold Room W at hr
  cases hv : c.ovSafe with
  | false =>
    simp only [hv, Bool.false_eq_true, ↓reduceIte, decide_eq_true_eq] at hf hr
    unfold wr at hf ⊢
    simp only
    right
    rcases hok with ⟨h0, _⟩ | ⟨h1, _⟩
    · omega
    · omega
  | true =>
    have hle := hov hv
    simp only [hv, ↓reduceIte, decide_eq_true_eq] at hf hr
    rw [subW_eq hle (by unfold W; omega)] at hf
    unfold wr at hf ⊢
    simp only
    right
    rcases hok with ⟨h0, _⟩ | ⟨h1, _⟩
    · omega
    · omega

theorem admit_good (c : Core) (N : List Nat) (L0 : Nat) (hL0 : L0 ∈ N) :
    ∀ (gpus : List Gpu) (i : Nat) (ws : List Nat),
      (∀ g ∈ gpus, ∀ L ∈ N, Room c g.free g.minimum L) →
      ∀ s ∈ (admit c i gpus ws).2, Good c N s := by
  intro gpus
  induction gpus with
  | nil => intro i ws _ s hs; simp [admit] at hs
  | cons g rest ih =>
    intro i ws hroom s hs
    have hrest : ∀ g ∈ rest, ∀ L ∈ N, Room c g.free g.minimum L :=
      fun g' hg' => hroom g' (by simp [hg'])
    have hg := hroom g (by simp)
    rw [admit] at hs
    generalize hgz : (if ws.isEmpty then c.gzo else 0) = gzo at hs
    have hgzle : gzo ≤ c.gzo := by subst hgz; split <;> omega
    cases hadm : admitReject c g gzo with
    | true =>
      simp only [hadm, ↓reduceIte, List.mem_cons] at hs
      rcases hs with rfl | hs
      · exact ⟨Or.inl ⟨rfl, rfl⟩, hg⟩
      · exact ih (i + 1) ws hrest s hs
    | false =>
      simp only [hadm, Bool.false_eq_true, ↓reduceIte, List.mem_cons] at hs
      rcases hs with rfl | hs
      · refine ⟨?_, hg⟩
        have hr := hg L0 hL0
        unfold Room W at hr
        unfold admitReject at hadm
        unfold OkG
        simp only
        right
        cases hv : c.ovSafe with
        | false =>
          simp only [hv, Bool.false_eq_true, ↓reduceIte, decide_eq_false_iff_not, Nat.not_lt] at hadm hr
          unfold admitNeed wr at hadm
          unfold wr
          omega
        | true =>
          simp only [hv, ↓reduceIte, Bool.or_eq_false_iff, decide_eq_false_iff_not, Nat.not_lt] at hadm hr
          obtain ⟨h1, h2⟩ := hadm
          rw [subW_eq h1 (by unfold W; omega)] at h2
          unfold wr at h2 ⊢
          omega
      · exact ih (i + 1) (ws ++ [i]) hrest s hs

theorem admit_ws (c : Core) (all : List Gpu) : ∀ (rest : List Gpu) (i : Nat) (ws : List Nat),
    (∀ k, rest[k]? = all[i + k]?) → WsOk c (all.map (·.free)) ws →
    WsOk c (all.map (·.free)) (admit c i rest ws).1 := by
  intro rest
  induction rest with
  | nil => intro i ws _ h; simpa [admit] using h
  | cons g rest ih =>
    intro i ws hidx h
    have hshift : ∀ k, rest[k]? = all[i + 1 + k]? := by
      intro k
      have := hidx (k + 1)
      rw [List.getElem?_cons_succ] at this
      rw [this]
      congr 1
      omega
    rw [admit]
    cases hadm : admitReject c g (if ws.isEmpty then c.gzo else 0) with
    | true =>
      simp only [↓reduceIte]
      exact ih (i + 1) ws hshift h
    | false =>
      simp only [Bool.false_eq_true, ↓reduceIte]
      apply ih (i + 1) (ws ++ [i]) hshift
      intro hv x hx f hf
      simp only [List.mem_append, List.mem_singleton] at hx
      rcases hx with hx | rfl
      · exact h hv x hx f hf
      · have h0 := hidx 0
        simp only [List.getElem?_cons_zero, Nat.add_zero] at h0
        rw [List.getElem?_map, ← h0] at hf
        simp only [Option.map_some, Option.some.injEq] at hf
        subst hf
        unfold admitReject at hadm
        simp only [hv, ↓reduceIte, Bool.or_eq_false_iff, decide_eq_false_iff_not, Nat.not_lt] at hadm
        exact hadm.1

theorem WsOk.sub {c : Core} {frees : List Nat} {ws ws' : List Nat} (h : WsOk c frees ws)
    (hs : ∀ x ∈ ws', x ∈ ws) : WsOk c frees ws' :=
  fun hv g hg f hf => h hv g (hs g hg) f hf

theorem layerLoop_good (c : Core) (N : List Nat) (frees : List Nat) :
    ∀ (Ls : List Nat) (i : Nat) (st : St),
    (∀ L ∈ Ls, L ∈ N) → (∀ s ∈ st.gs, Good c N s) →
    st.gs.map (·.free) = frees → WsOk c frees st.ws →
    let r := layerLoop c i Ls st
    (∀ s ∈ r.gs, Good c N s) ∧ WsOk c frees r.ws := by
  intro Ls
  induction Ls with
  | nil => intro i st _ h _ hw; simpa [layerLoop] using ⟨h, hw⟩
  | cons L rest ih =>
    intro i st hN h hfr hw
    have hrest : ∀ L ∈ rest, L ∈ N := fun L' h' => hN L' (by simp [h'])
    simp only [layerLoop]
    split
    · exact ih (i + 1) st hrest h hfr hw
    · split
      · rename_i g ws hp
        obtain ⟨s0, hs0, hf⟩ := placeLayer_some c st.gs i L _ _ _ _ hp
        obtain ⟨hsub, hmem⟩ := placeLayer_mem c st.gs i L _ _ _ _ hp
        apply ih (i + 1) _ hrest
        · apply bump_forall (Good c N) L st.gs g h
          intro s hs
          rw [hs0] at hs
          injection hs with hs
          subst hs
          refine fits_good c N s0 L (hN L (by simp)) ?_ (h s0 (List.mem_of_getElem? hs0)) hf
          intro hv
          apply hw hv g (hmem g rfl) s0.free
          rw [← hfr, List.getElem?_map, hs0]
          rfl
        · show (bump L st.gs g).map (·.free) = frees
          rw [bump_free]; exact hfr
        · exact hw.sub hsub
      · rename_i ws hp
        obtain ⟨hsub, _⟩ := placeLayer_mem c st.gs i L _ _ _ _ hp
        exact ih (i + 1) _ hrest h hfr (hw.sub hsub)

theorem addGraph_final (c : Core) (N : List Nat) (L0 : Nat) (hL0 : L0 ∈ N) (graph : Nat)
    (hgr : graph ≤ c.maxg) (gs : List GS) (h : ∀ s ∈ gs, Good c N s) :
    ∀ s ∈ addGraph graph gs, FinalOk c s := by
  intro s hs
  unfold addGraph at hs
  simp only [List.mem_map] at hs
  obtain ⟨s0, hs0, rfl⟩ := hs
  obtain ⟨hok, hroom⟩ := h s0 hs0
  have hr := hroom L0 hL0
  unfold Room W at hr
  have hr' : c.maxg + s0.free < 18446744073709551616 := by
    split at hr <;> omega
  clear hr
  unfold OkG at hok
  unfold FinalOk
  split
  · rename_i hc
    rcases hok with ⟨h0, _⟩ | ⟨h1, _⟩
    · exact ⟨Or.inl h0, by omega⟩
    · exact ⟨Or.inr (by omega), by omega⟩
  · rename_i hc
    unfold wr
    simp only
    rcases hok with ⟨_, h0⟩ | ⟨h1, h2⟩
    · omega
    · have := h2 (by omega)
      exact ⟨Or.inr (by omega), fun _ => by omega⟩

/-- the guard on the placement constants and the GPU list: for every GPU and every layer size
    the estimator will try on it (block layers and the output layer) no sum reaches 2^64 -/
def RoomAll (c : Core) (gpus : List Gpu) : Prop :=
  ∀ g ∈ gpus, ∀ L ∈ c.memOut :: c.layerSizes, Room c g.free g.minimum L

theorem plan_final (c : Core) (gpus : List Gpu) (hroom : RoomAll c gpus) :
    (∀ s ∈ (plan c gpus).gs, FinalOk c s) ∧
    (plan c gpus).gs.map (·.free) = gpus.map (·.free) := by
  let N := c.memOut :: c.layerSizes
  have hmem : c.memOut ∈ N := by simp [N]
  have hadm := admit_good c N c.memOut hmem gpus 0 [] hroom
  have hws : WsOk c (gpus.map (·.free)) (admit c 0 gpus []).1 :=
    admit_ws c gpus gpus 0 [] (fun k => by simp) (fun _ g hg => by simp at hg)
  have hloop := layerLoop_good c N (gpus.map (·.free)) c.layerSizes 0
    { ws := (admit c 0 gpus []).1, gs := (admit c 0 gpus []).2, lc := 0 }
    (fun L hL => by simp [N, hL]) hadm (admit_free c gpus 0 []) hws
  have hfree := layerLoop_free c c.layerSizes 0
    { ws := (admit c 0 gpus []).1, gs := (admit c 0 gpus []).2, lc := 0 }
  rw [show ({ ws := (admit c 0 gpus []).1, gs := (admit c 0 gpus []).2, lc := 0 } : St).gs
      = (admit c 0 gpus []).2 from rfl, admit_free] at hfree
  simp only at hloop
  generalize hst : layerLoop c 0 c.layerSizes
    { ws := (admit c 0 gpus []).1, gs := (admit c 0 gpus []).2, lc := 0 } = st at hloop hfree
  obtain ⟨hloop, hwst⟩ := hloop
  have hgP : c.gP ≤ c.maxg := by unfold Core.maxg; omega
  have hgF : c.gF ≤ c.maxg := by unfold Core.maxg; omega
  simp only [plan, hst]
  generalize hpl : (if (decide (c.memOut > 0) && !capped c st.lc) = true then
      placeOut c st.gs st.ws st.lc c.memOut st.ws.length else none) = placed
  have hgraph : ∀ (b : Bool), (if b then c.gF else c.gP) ≤ c.maxg := by
    intro b; cases b <;> simp [hgP, hgF]
  cases placed with
  | none =>
    simp only [addGraph_free]
    exact ⟨addGraph_final c N c.memOut hmem _ (hgraph _) _ hloop, hfree⟩
  | some g =>
    simp only [addGraph_free, bump_free]
    refine ⟨addGraph_final c N c.memOut hmem _ (hgraph _) _ ?_, hfree⟩
    split at hpl
    · obtain ⟨s0, hs0, hf⟩ := placeOut_some c st.gs st.ws st.lc c.memOut _ _ hpl
      have hgm := placeOut_mem c st.gs st.ws st.lc c.memOut _ _ hpl
      apply bump_forall (Good c N) c.memOut st.gs g hloop
      intro s hs
      rw [hs0] at hs
      injection hs with hs
      subst hs
      refine fits_good c N s0 c.memOut hmem ?_ (hloop s0 (List.mem_of_getElem? hs0)) hf
      intro hv
      apply hwst hv g hgm s0.free
      rw [← hfree, List.getElem?_map, hs0]
      rfl
    · cases hpl

/-! ### sums -/

theorem accW_le : ∀ (xs : List Nat) (a : Nat), accW a xs ≤ a + xs.sum := by
  intro xs
  induction xs with
  | nil => intro a; simp [accW]
  | cons x rest ih =>
    intro a
    simp only [accW, List.sum_cons]
    have := ih (wr (a + x))
    have := wr_le (a + x)
    omega

theorem accW_eq : ∀ (xs : List Nat) (a : Nat), a + xs.sum < W → accW a xs = a + xs.sum := by
  intro xs
  induction xs with
  | nil => intro a _; simp [accW]
  | cons x rest ih =>
    intro a h
    simp only [accW, List.sum_cons] at h ⊢
    have hx : wr (a + x) = a + x := wr_id (by omega)
    rw [hx, ih (a + x) (by omega)]
    omega

theorem sum_alloc_le : ∀ (gs : List GS), (∀ s ∈ gs, s.alloc ≤ s.free) →
    (gs.map (·.alloc)).sum ≤ (gs.map (·.free)).sum := by
  intro gs
  induction gs with
  | nil => intro _; simp
  | cons a rest ih =>
    intro h
    have h1 := h a (by simp)
    have h2 := ih (fun s hs => h s (by simp [hs]))
    simp only [List.map_cons, List.sum_cons]
    omega

theorem FinalOk.alloc_le {c : Core} {s : GS} (h : FinalOk c s) : s.alloc ≤ s.free := by
  unfold FinalOk at h
  rcases h.1 with h | h <;> omega

theorem plan_overflow_le (c : Core) (gpus : List Gpu) :
    (plan c gpus).overflow ≤ c.layerSizes.length * lastLayer c + c.memOut := by
  simp only [plan]
  generalize layerLoop c 0 c.layerSizes _ = st
  have h1 : (if st.lc ≥ c.layerSizes.length then 0
      else wr ((c.layerSizes.length - st.lc) * lastLayer c)) ≤ c.layerSizes.length * lastLayer c := by
    split
    · omega
    · exact Nat.le_trans (wr_le _) (Nat.mul_le_mul_right _ (Nat.sub_le _ _))
  generalize (if st.lc ≥ c.layerSizes.length then 0
      else wr ((c.layerSizes.length - st.lc) * lastLayer c)) = ov at h1
  have := wr_le (ov + c.memOut)
  repeat' split
  all_goals omega

/-! ## Part 3: the scheduler's free-memory adjustment -/

theorem adjust_le_free (p : Nat) (g : SGpu) : adjust p g ≤ g.free := by
  unfold adjust
  split
  · omega
  · split <;> omega

/-- after the adjustment, adjusted free + predicted usage fits in the total memory -/
theorem adjust_le_total (p : Nat) (g : SGpu) (h : p ≤ g.total) : adjust p g + p ≤ g.total := by
  unfold adjust
  split
  · omega
  · split <;> omega

theorem updateFree_length (gpus : List SGpu) (runners : List Runner) :
    (updateFree gpus runners).length = gpus.length := by
  unfold updateFree
  split <;> simp

/-! ## Part 4: ByLibrary, EstimatedVRAMByGPU -/

def groupTotal (gs : List Group) : Nat := (gs.map (fun g => g.members.length)).sum

theorem insertGroup_total (x : FGpu) : ∀ (gs : List Group),
    groupTotal (insertGroup x gs) = groupTotal gs + 1 := by
  intro gs
  induction gs with
  | nil => simp [insertGroup, groupTotal]
  | cons g rest ih =>
    simp only [insertGroup]
    split
    · simp [groupTotal]; omega
    · simp only [groupTotal, List.map_cons, List.sum_cons] at ih ⊢
      omega

theorem insertGroup_nonempty (x : FGpu) : ∀ (gs : List Group),
    (∀ g ∈ gs, g.members ≠ []) → ∀ g ∈ insertGroup x gs, g.members ≠ [] := by
  intro gs
  induction gs with
  | nil => intro _ g hg; simp [insertGroup] at hg; subst hg; simp
  | cons g0 rest ih =>
    intro h g hg
    simp only [insertGroup] at hg
    split at hg
    · simp only [List.mem_cons] at hg
      rcases hg with rfl | hg
      · simp
      · exact h g (by simp [hg])
    · simp only [List.mem_cons] at hg
      rcases hg with rfl | hg
      · exact h _ (by simp)
      · exact ih (fun g' hg' => h g' (by simp [hg'])) g hg

theorem insertGroup_keys (x : FGpu) : ∀ (gs : List Group),
    (∀ g ∈ gs, ∀ m ∈ g.members, m.key = g.key) →
    ∀ g ∈ insertGroup x gs, ∀ m ∈ g.members, m.key = g.key := by
  intro gs
  induction gs with
  | nil =>
    intro _ g hg m hm
    simp [insertGroup] at hg
    subst hg
    simp at hm
    subst hm
    rfl
  | cons g0 rest ih =>
    intro h g hg m hm
    simp only [insertGroup] at hg
    split at hg
    · rename_i hk
      simp only [List.mem_cons] at hg
      rcases hg with rfl | hg
      · simp only [List.mem_append, List.mem_singleton] at hm
        rcases hm with hm | rfl
        · exact h g0 (by simp) m hm
        · simp only [beq_iff_eq] at hk; exact hk.symm
      · exact h g (by simp [hg]) m hm
    · simp only [List.mem_cons] at hg
      rcases hg with rfl | hg
      · exact h _ (by simp) m hm
      · exact ih (fun g' hg' => h g' (by simp [hg'])) g hg m hm

theorem byLibrary_spec (l : List FGpu) :
    groupTotal (byLibrary l) = l.length ∧
    (∀ g ∈ byLibrary l, g.members ≠ []) ∧
    (∀ g ∈ byLibrary l, ∀ m ∈ g.members, m.key = g.key) := by
  unfold byLibrary
  suffices h : ∀ (l : List FGpu) (acc : List Group),
      (∀ g ∈ acc, g.members ≠ []) → (∀ g ∈ acc, ∀ m ∈ g.members, m.key = g.key) →
      groupTotal (l.foldl (fun acc x => insertGroup x acc) acc) = groupTotal acc + l.length ∧
      (∀ g ∈ l.foldl (fun acc x => insertGroup x acc) acc, g.members ≠ []) ∧
      (∀ g ∈ l.foldl (fun acc x => insertGroup x acc) acc, ∀ m ∈ g.members, m.key = g.key) by
    have := h l [] (by simp) (by simp)
    simpa [groupTotal] using this
  intro l
  induction l with
  | nil => intro acc h1 h2; exact ⟨by simp, h1, h2⟩
  | cons x rest ih =>
    intro acc h1 h2
    simp only [List.foldl_cons, List.length_cons]
    have := ih (insertGroup x acc) (insertGroup_nonempty x acc h1) (insertGroup_keys x acc h2)
    rw [insertGroup_total] at this
    refine ⟨by omega, this.2.1, this.2.2⟩

/-- `EstimatedVRAMByGPU` is 0 or the size planned on a GPU with that ID -/
theorem vramByGPU_spec : ∀ (ids sizes : List Nat) (id : Nat),
    vramByGPU ids sizes id = 0 ∨
    ∃ k : Nat, ids[k]? = some id ∧ sizes[k]? = some (vramByGPU ids sizes id) := by
  intro ids
  induction ids with
  | nil => intro sizes id; left; simp [vramByGPU]
  | cons i is ih =>
    intro sizes id
    cases sizes with
    | nil => left; simp [vramByGPU]
    | cons s ss =>
      simp only [vramByGPU]
      split
      · rename_i h
        right
        exact ⟨0, by simp only [beq_iff_eq] at h; simp [h], by simp⟩
      · rcases ih ss id with h | ⟨k, h1, h2⟩
        · left; exact h
        · right; exact ⟨k + 1, by simpa using h1, by simpa using h2⟩

/-! ## Part 5: pickBestFullFitByLibrary -/

theorem mem_insertDesc (x y : FGpu) : ∀ (l : List FGpu), y ∈ insertDesc x l ↔ y = x ∨ y ∈ l := by
  intro l
  induction l with
  | nil => simp [insertDesc]
  | cons a rest ih =>
    simp only [insertDesc]
    split
    · simp
    · simp only [List.mem_cons, ih]
      constructor
      · rintro (h | h | h)
        · exact Or.inr (Or.inl h)
        · exact Or.inl h
        · exact Or.inr (Or.inr h)
      · rintro (h | h | h)
        · exact Or.inr (Or.inl h)
        · exact Or.inl h
        · exact Or.inr (Or.inr h)

theorem mem_sortDesc (y : FGpu) (l : List FGpu) : y ∈ sortDesc l ↔ y ∈ l := by
  unfold sortDesc
  suffices h : ∀ (l acc : List FGpu),
      y ∈ l.foldl (fun acc x => insertDesc x acc) acc ↔ y ∈ acc ∨ y ∈ l by
    simpa using h l []
  intro l
  induction l with
  | nil => intro acc; simp
  | cons x rest ih =>
    intro acc
    simp only [List.foldl_cons, ih, mem_insertDesc, List.mem_cons]
    constructor
    · rintro ((h | h) | h)
      · exact Or.inr (Or.inl h)
      · exact Or.inl h
      · exact Or.inr (Or.inr h)
    · rintro (h | h | h)
      · exact Or.inl (Or.inr h)
      · exact Or.inl (Or.inl h)
      · exact Or.inr h

theorem length_insertDesc (x : FGpu) : ∀ (l : List FGpu), (insertDesc x l).length = l.length + 1 := by
  intro l
  induction l with
  | nil => simp [insertDesc]
  | cons a rest ih =>
    simp only [insertDesc]
    split <;> simp [ih]

theorem length_sortDesc (l : List FGpu) : (sortDesc l).length = l.length := by
  unfold sortDesc
  suffices h : ∀ (l acc : List FGpu),
      (l.foldl (fun acc x => insertDesc x acc) acc).length = acc.length + l.length by
    simpa using h l []
  intro l
  induction l with
  | nil => intro acc; simp
  | cons x rest ih =>
    intro acc
    simp only [List.foldl_cons, ih, length_insertDesc, List.length_cons]
    omega

def DescSorted (l : List FGpu) : Prop := List.Pairwise (fun a b => b.gpu.free ≤ a.gpu.free) l

theorem insertDesc_sorted (x : FGpu) : ∀ (l : List FGpu), DescSorted l → DescSorted (insertDesc x l) := by
  intro l
  induction l with
  | nil => intro _; simp [insertDesc, DescSorted]
  | cons a rest ih =>
    intro h
    unfold DescSorted at h ⊢
    rw [List.pairwise_cons] at h
    simp only [insertDesc]
    split
    · rename_i hlt
      rw [List.pairwise_cons]
      refine ⟨?_, List.pairwise_cons.mpr h⟩
      intro b hb
      simp only [List.mem_cons] at hb
      rcases hb with rfl | hb
      · omega
      · have := h.1 b hb; omega
    · rename_i hge
      rw [List.pairwise_cons]
      refine ⟨?_, ih h.2⟩
      intro b hb
      rw [mem_insertDesc] at hb
      rcases hb with rfl | hb
      · omega
      · exact h.1 b hb

theorem sortDesc_sorted (l : List FGpu) : DescSorted (sortDesc l) := by
  unfold sortDesc
  suffices h : ∀ (l acc : List FGpu), DescSorted acc →
      DescSorted (l.foldl (fun acc x => insertDesc x acc) acc) by
    exact h l [] (by simp [DescSorted])
  intro l
  induction l with
  | nil => intro acc h; simpa using h
  | cons x rest ih => intro acc h; exact ih _ (insertDesc_sorted x acc h)

/-- a non-empty list of one `Library[_Variant]` key is its own single ByLibrary group -/
theorem byLibrary_homog (k : Nat) : ∀ (l : List FGpu), l ≠ [] → (∀ m ∈ l, m.key = k) →
    byLibrary l = [⟨k, l⟩] := by
  have hstep : ∀ (l pre : List FGpu), (∀ m ∈ l, m.key = k) →
      l.foldl (fun acc x => insertGroup x acc) [⟨k, pre⟩] = [⟨k, pre ++ l⟩] := by
    intro l
    induction l with
    | nil => intro pre _; simp
    | cons x rest ih =>
      intro pre h
      have hx : x.key = k := h x (by simp)
      simp only [List.foldl_cons, insertGroup, hx, beq_self_eq_true, ↓reduceIte]
      rw [ih (pre ++ [x]) (fun m hm => h m (by simp [hm]))]
      simp
  intro l hne h
  cases l with
  | nil => exact absurd rfl hne
  | cons x rest =>
    have hx : x.key = k := h x (by simp)
    unfold byLibrary
    simp only [List.foldl_cons, insertGroup, hx]
    rw [hstep rest [x] (fun m hm => h m (by simp [hm]))]
    simp

theorem firstSingle_some (common : Inp) : ∀ (l : List FGpu) (g : FGpu),
    firstSingle common l = some g → g ∈ l ∧ (predictFitAll common [g]).1 = true := by
  intro l
  induction l with
  | nil => intro g h; simp [firstSingle] at h
  | cons a rest ih =>
    intro g h
    simp only [firstSingle] at h
    split at h
    · rename_i hf
      injection h with h
      subst h
      exact ⟨by simp, hf⟩
    · obtain ⟨h1, h2⟩ := ih g h
      exact ⟨by simp [h1], h2⟩

theorem trySingles_some (commonOf : Nat → Inp) (sgl : List FGpu) : ∀ (ps : List Nat) (L : List FGpu) (p : Nat),
    trySingles commonOf sgl ps = some (L, p) →
    p ∈ ps ∧ ∃ g ∈ sgl, L = [g] ∧ (predictFitAll (commonOf p) L).1 = true := by
  intro ps
  induction ps with
  | nil => intro L p h; simp [trySingles] at h
  | cons q rest ih =>
    intro L p h
    simp only [trySingles] at h
    split at h
    · rename_i g hg
      simp only [Option.some.injEq, Prod.mk.injEq] at h
      obtain ⟨h1, h2⟩ := h
      subst h1; subst h2
      obtain ⟨hm, hf⟩ := firstSingle_some _ _ _ hg
      exact ⟨by simp, g, hm, rfl, hf⟩
    · obtain ⟨h1, h2⟩ := ih L p h
      exact ⟨by simp [h1], h2⟩

theorem tryAll_some (commonOf : Nat → Inp) (sgl : List FGpu) : ∀ (ps : List Nat) (L : List FGpu) (p : Nat),
    tryAll commonOf sgl ps = some (L, p) →
    p ∈ ps ∧ L = sgl ∧ (predictFitAll (commonOf p) L).1 = true := by
  intro ps
  induction ps with
  | nil => intro L p h; simp [tryAll] at h
  | cons q rest ih =>
    intro L p h
    simp only [tryAll] at h
    split at h
    · rename_i hf
      simp only [Option.some.injEq, Prod.mk.injEq] at h
      obtain ⟨h1, h2⟩ := h
      subst h1; subst h2
      exact ⟨by simp, rfl, hf⟩
    · obtain ⟨h1, h2⟩ := ih L p h
      exact ⟨by simp [h1], h2⟩

/-- what `pickBestFullFitByLibrary` returns was fit-checked as returned: the returned list `L` (in
    the returned order) passed `PredictServerFit` with the returned parallelism, and it is either the
    whole sorted library group or one GPU of it. -/
theorem pickFullGroups_some (commonOf : Nat → Inp) (tries : List Nat) (spread : Bool) :
    ∀ (groups : List Group) (L : List FGpu) (p : Nat),
    pickFullGroups commonOf tries spread groups = some (L, p) →
    p ∈ tries ∧ (predictFitAll (commonOf p) L).1 = true ∧
    ∃ g ∈ groups, (L = sortDesc g.members ∨ ∃ x ∈ sortDesc g.members, L = [x]) := by
  intro groups
  induction groups with
  | nil => intro L p h; simp [pickFullGroups] at h
  | cons g rest ih =>
    intro L p h
    simp only [pickFullGroups] at h
    split at h
    · rename_i r hr
      injection h with h
      subst h
      split at hr
      · cases hr
      · obtain ⟨h1, x, hx, h2, h3⟩ := trySingles_some _ _ _ _ _ hr
        exact ⟨h1, h3, g, by simp, Or.inr ⟨x, hx, h2⟩⟩
    · split at h
      · rename_i r hr
        injection h with h
        subst h
        obtain ⟨h1, h2, h3⟩ := tryAll_some _ _ _ _ _ hr
        exact ⟨h1, h3, g, by simp, Or.inl h2⟩
      · obtain ⟨h1, h2, g', hg', h3⟩ := ih L p h
        exact ⟨h1, h2, g', by simp [hg'], h3⟩

theorem insertGroup_members (P : FGpu → Prop) (x : FGpu) (hx : P x) : ∀ (gs : List Group),
    (∀ g ∈ gs, ∀ m ∈ g.members, P m) → ∀ g ∈ insertGroup x gs, ∀ m ∈ g.members, P m := by
  intro gs
  induction gs with
  | nil =>
    intro _ g hg m hm
    simp [insertGroup] at hg
    subst hg
    simp at hm
    subst hm
    exact hx
  | cons g0 rest ih =>
    intro h g hg m hm
    simp only [insertGroup] at hg
    split at hg
    · simp only [List.mem_cons] at hg
      rcases hg with rfl | hg
      · simp only [List.mem_append, List.mem_singleton] at hm
        rcases hm with hm | rfl
        · exact h g0 (by simp) m hm
        · exact hx
      · exact h g (by simp [hg]) m hm
    · simp only [List.mem_cons] at hg
      rcases hg with rfl | hg
      · exact h _ (by simp) m hm
      · exact ih (fun g' hg' => h g' (by simp [hg'])) g hg m hm

theorem byLibrary_mem (l : List FGpu) : ∀ g ∈ byLibrary l, ∀ m ∈ g.members, m ∈ l := by
  unfold byLibrary
  suffices h : ∀ (l' : List FGpu) (acc : List Group), (∀ m ∈ l', m ∈ l) →
      (∀ g ∈ acc, ∀ m ∈ g.members, m ∈ l) →
      ∀ g ∈ l'.foldl (fun acc x => insertGroup x acc) acc, ∀ m ∈ g.members, m ∈ l by
    exact h l [] (fun m hm => hm) (by simp)
  intro l'
  induction l' with
  | nil => intro acc _ h; simpa using h
  | cons x rest ih =>
    intro acc hl h
    simp only [List.foldl_cons]
    exact ih _ (fun m hm => hl m (by simp [hm]))
      (insertGroup_members (· ∈ l) x (hl x (by simp)) acc h)

/-! ### the load path -/

theorem removeFirstId_sublist (id : Nat) : ∀ (l : List IGpu), (removeFirstId id l).Sublist l := by
  intro l
  induction l with
  | nil => simp [removeFirstId]
  | cons g rest ih =>
    simp only [removeFirstId]
    split
    · exact List.sublist_cons_self g rest
    · exact ih.cons_cons g

theorem removeIds_sublist : ∀ (ids : List Nat) (l : List IGpu), (removeIds ids l).Sublist l := by
  intro ids
  induction ids with
  | nil => intro l; simp [removeIds]
  | cons id rest ih =>
    intro l
    simp only [removeIds]
    exact (ih _).trans (removeFirstId_sublist id l)

theorem filterLoading_sublist : ∀ (rs : List LRunner) (l : List IGpu), (filterLoading rs l).Sublist l := by
  intro rs
  induction rs with
  | nil => intro l; simp [filterLoading]
  | cons r rest ih =>
    intro l
    simp only [filterLoading]
    split
    · exact (ih _).trans (removeIds_sublist r.ids l)
    · exact ih l

def idsOf (l : List IGpu) : List Nat := l.map (fun g => g.f.idk)

theorem idsOf_nodup_sublist {l l' : List IGpu} (h : l'.Sublist l) (hn : (idsOf l).Nodup) : (idsOf l').Nodup :=
  List.Nodup.sublist (h.map _) hn

/-- with unique IDs, removing the first entry with an ID removes the ID -/
theorem removeFirstId_gone (id : Nat) : ∀ (l : List IGpu), (idsOf l).Nodup →
    ∀ g ∈ removeFirstId id l, g.f.idk ≠ id := by
  intro l
  induction l with
  | nil => intro _ g hg; simp [removeFirstId] at hg
  | cons a rest ih =>
    intro hn g hg
    simp only [idsOf, List.map_cons, List.nodup_cons] at hn
    simp only [removeFirstId] at hg
    split at hg
    · rename_i heq
      have heq' : a.f.idk = id := by simpa using heq
      intro hgid
      apply hn.1
      rw [heq', ← hgid]
      exact List.mem_map.mpr ⟨g, hg, rfl⟩
    · rename_i hne
      simp only [List.mem_cons] at hg
      rcases hg with rfl | hg
      · simpa using hne
      · exact ih hn.2 g hg

theorem removeIds_gone : ∀ (ids : List Nat) (l : List IGpu), (idsOf l).Nodup →
    ∀ id ∈ ids, ∀ g ∈ removeIds ids l, g.f.idk ≠ id := by
  intro ids
  induction ids with
  | nil => intro l _ id hid; simp at hid
  | cons x rest ih =>
    intro l hn id hid g hg
    simp only [removeIds] at hg
    have hn' := idsOf_nodup_sublist (removeFirstId_sublist x l) hn
    simp only [List.mem_cons] at hid
    rcases hid with rfl | hid
    · exact removeFirstId_gone id l hn g ((removeIds_sublist rest _).subset hg)
    · exact ih _ hn' id hid g hg

/-- **GPUs of a runner that is still loading are not offered**: with unique IDs in the inventory,
    no GPU left by `filterGPUsWithoutLoadingModels` carries an ID a loading runner was provisioned on -/
theorem filterLoading_gone : ∀ (rs : List LRunner) (l : List IGpu), (idsOf l).Nodup →
    ∀ r ∈ rs, r.loading = true → ∀ id ∈ r.ids, ∀ g ∈ filterLoading rs l, g.f.idk ≠ id := by
  intro rs
  induction rs with
  | nil => intro l _ r hr; simp at hr
  | cons a rest ih =>
    intro l hn r hr hld id hid g hg
    simp only [filterLoading] at hg
    simp only [List.mem_cons] at hr
    rcases hr with rfl | hr
    · simp only [hld, ↓reduceIte] at hg
      exact removeIds_gone r.ids l hn id hid g ((filterLoading_sublist rest _).subset hg)
    · split at hg
      · exact ih _ (idsOf_nodup_sublist (removeIds_sublist a.ids l) hn) r hr hld id hid g hg
      · exact ih l hn r hr hld id hid g hg

theorem zipWith_map_self {α β γ : Type} (f : α → β → γ) (h : α → β) : ∀ (l : List α),
    List.zipWith f l (l.map h) = l.map (fun x => f x (h x)) := by
  intro l
  induction l with
  | nil => rfl
  | cons a rest ih => simp [ih]

/-- the summed prediction `updateFreeSpace` holds against GPU `g` of the load path -/
def loadPred (inv : List IGpu) (runners : List LRunner) (g : IGpu) : Nat :=
  predOf ((filterLoading runners inv).map IGpu.toS) (runners.map LRunner.toR) g.lkey

theorem any_toR (runners : List LRunner) (h : runners ≠ []) :
    (runners.map LRunner.toR).any (·.isSome) = true := by
  cases runners with
  | nil => exact absurd rfl h
  | cons a rest => simp [LRunner.toR]

/-- every GPU the load path offers to the pick functions is a GPU of the inventory that no loading
    runner sits on, with its free figure lowered (never raised), and — when the prediction does not
    exceed the total — free + predicted ≤ total -/
theorem adjInv_mem (inv : List IGpu) (runners : List LRunner) (hne : runners ≠ []) :
    ∀ m ∈ adjInv inv runners, ∃ g ∈ filterLoading runners inv, ∃ fr, m = g.withFree fr ∧
      fr ≤ g.f.gpu.free ∧ (loadPred inv runners g ≤ g.total → fr + loadPred inv runners g ≤ g.total) := by
  intro m hm
  unfold adjInv updateFree at hm
  simp only [any_toR runners hne, ↓reduceIte, List.map_map] at hm
  rw [zipWith_map_self] at hm
  simp only [List.mem_map] at hm
  obtain ⟨g, hg, rfl⟩ := hm
  refine ⟨g, hg, _, rfl, ?_, ?_⟩
  · exact adjust_le_free _ _
  · intro hp
    exact adjust_le_total _ _ hp

theorem adjInv_length (inv : List IGpu) (runners : List LRunner) :
    (adjInv inv runners).length = (filterLoading runners inv).length := by
  unfold adjInv
  simp [List.length_zipWith, updateFree_length]

/-! ### histories of the load path -/

theorem estOf_zip : ∀ (ids sizes : List Nat) (id : Nat), estOf (ids.zip sizes) id = vramByGPU ids sizes id := by
  intro ids
  induction ids with
  | nil => intro sizes id; simp [estOf, vramByGPU]
  | cons i is ih =>
    intro sizes id
    cases sizes with
    | nil => simp [estOf, vramByGPU]
    | cons s ss =>
      have := ih ss id
      unfold estOf at this ⊢
      simp only [List.zip_cons_cons, List.lookup, vramByGPU]
      by_cases h : i = id
      · subst h; simp
      · have h' : (id == i) = false := by simp; exact fun e => h e.symm
        have h'' : (i == id) = false := by simp [h]
        rw [h', h'']
        simpa using this

theorem filter_key_unique {α : Type} (key : α → Nat) : ∀ (l : List α), (l.map key).Nodup → ∀ g ∈ l,
    l.filter (fun x => key x == key g) = [g] := by
  intro l
  induction l with
  | nil => intro _ g hg; simp at hg
  | cons a rest ih =>
    intro hn g hg
    simp only [List.map_cons, List.nodup_cons] at hn
    simp only [List.mem_cons] at hg
    rcases hg with rfl | hg
    · have hnone : rest.filter (fun x => key x == key g) = [] := by
        rw [List.filter_eq_nil_iff]
        intro x hx hk
        apply hn.1
        have : key x = key g := by simpa using hk
        rw [← this]
        exact List.mem_map.mpr ⟨x, hx, rfl⟩
      simp [hnone]
    · have hne : (key a == key g) = false := by
        simp only [beq_eq_false_iff_ne, ne_eq]
        intro he
        apply hn.1
        rw [he]
        exact List.mem_map.mpr ⟨g, hg, rfl⟩
      simp only [List.filter_cons, hne, Bool.false_eq_true, ↓reduceIte]
      exact ih hn.2 g hg

/-- what the loaded runners are predicted to use on the GPU with ID class `id` -/
def usedOn (rs : List LRunner) (id : Nat) : Nat := (rs.map fun r => vramByGPU r.ids r.sizes id).sum

theorem usedOn_append (rs : List LRunner) (r : LRunner) (id : Nat) :
    usedOn (rs ++ [r]) id = usedOn rs id + vramByGPU r.ids r.sizes id := by
  simp [usedOn]

/-- with unique IDs and `(Library, ID)` classes that coincide with the ID classes, the summed prediction
    `updateFreeSpace` holds against an offered GPU is exactly what the loaded runners plan on it -/
theorem loadPred_eq_usedOn (inv : List IGpu) (rs : List LRunner) (g : IGpu)
    (hn : (idsOf inv).Nodup) (hk : ∀ x ∈ inv, x.lkey = x.f.idk)
    (hg : g ∈ filterLoading rs inv) (hlt : usedOn rs g.f.idk < W) :
    loadPred inv rs g = usedOn rs g.f.idk := by
  have hsub := filterLoading_sublist rs inv
  have hn' : ((filterLoading rs inv).map (fun x => x.lkey)).Nodup := by
    have h1 : (idsOf (filterLoading rs inv)).Nodup := idsOf_nodup_sublist hsub hn
    have h2 : (filterLoading rs inv).map (fun x => x.lkey) = idsOf (filterLoading rs inv) := by
      unfold idsOf
      apply List.map_congr_left
      intro x hx
      exact hk x (hsub.subset hx)
    rw [h2]; exact h1
  have hfilt : ((filterLoading rs inv).map IGpu.toS).filter (fun s => s.key == g.lkey) = [g.toS] := by
    rw [List.filter_map]
    have := filter_key_unique (fun x : IGpu => x.lkey) (filterLoading rs inv) hn' g hg
    have hfe : (fun s : SGpu => s.key == g.lkey) ∘ IGpu.toS = fun x : IGpu => x.lkey == g.lkey := by
      funext x; simp [IGpu.toS]
    rw [hfe, this]
    rfl
  have hterms : ∀ r : LRunner, runnerTerms ((filterLoading rs inv).map IGpu.toS) g.lkey r.toR
      = [vramByGPU r.ids r.sizes g.f.idk] := by
    intro r
    simp only [runnerTerms, LRunner.toR, hfilt, List.map_cons, List.map_nil, estOf_zip, IGpu.toS]
  have hflat : ∀ (l : List LRunner), (l.map LRunner.toR).flatMap (runnerTerms ((filterLoading rs inv).map IGpu.toS) g.lkey)
      = l.map (fun r => vramByGPU r.ids r.sizes g.f.idk) := by
    intro l
    induction l with
    | nil => rfl
    | cons a rest ih => simp only [List.map_cons, List.flatMap_cons, hterms, ih, List.singleton_append]
  unfold loadPred predOf
  rw [hflat]
  have := accW_eq (rs.map fun r => vramByGPU r.ids r.sizes g.f.idk) 0 (by simpa [usedOn] using hlt)
  simpa [usedOn] using this


theorem eraseIdx_usedOn_le (id : Nat) : ∀ (rs : List LRunner) (k : Nat), usedOn (rs.eraseIdx k) id ≤ usedOn rs id := by
  intro rs
  induction rs with
  | nil => intro k; simp
  | cons a rest ih =>
    intro k
    cases k with
    | zero => simp [usedOn]
    | succ k =>
      have := ih k
      simp only [usedOn, List.eraseIdx_cons_succ, List.map_cons, List.sum_cons] at this ⊢
      omega

/-- runner `k` finishes loading (`runner.loading = false`) -/
def finishAt : Nat → List LRunner → List LRunner
  | _, [] => []
  | 0, r :: rest => { r with loading := false } :: rest
  | k + 1, r :: rest => r :: finishAt k rest

theorem finishAt_usedOn (id : Nat) : ∀ (rs : List LRunner) (k : Nat), usedOn (finishAt k rs) id = usedOn rs id := by
  intro rs
  induction rs with
  | nil => intro k; cases k <;> rfl
  | cons a rest ih =>
    intro k
    cases k with
    | zero => simp [finishAt, usedOn]
    | succ k =>
      have := ih k
      simp only [usedOn, finishAt, List.map_cons, List.sum_cons] at this ⊢
      omega

/-! ### the reservation of the larger graph -/

/-- the finished plan, with the reservation the code really compares: the planned size plus the part of the
    LARGER graph that was reserved but not charged (`max(gP,gF) - graph`) plus the overhead fits -/
def FinalOkS (c : Core) (graph : Nat) (s : GS) : Prop :=
  (s.alloc = 0 ∨ s.alloc + (c.maxg - graph) + c.overhead ≤ s.free) ∧
  (0 < s.count → s.alloc + (c.maxg - graph) + c.overhead < s.free)

theorem addGraph_final_strong (c : Core) (N : List Nat) (L0 : Nat) (hL0 : L0 ∈ N) (graph : Nat)
    (hgr : graph ≤ c.maxg) (gs : List GS) (h : ∀ s ∈ gs, Good c N s) :
    ∀ s ∈ addGraph graph gs, FinalOkS c graph s := by
  intro s hs
  unfold addGraph at hs
  simp only [List.mem_map] at hs
  obtain ⟨s0, hs0, rfl⟩ := hs
  obtain ⟨hok, hroom⟩ := h s0 hs0
  have hr := hroom L0 hL0
  unfold Room W at hr
  have hr' : c.maxg + s0.free < 18446744073709551616 := by
    split at hr <;> omega
  clear hr
  unfold OkG at hok
  unfold FinalOkS
  split
  · rename_i hc
    rcases hok with ⟨h0, _⟩ | ⟨h1, _⟩
    · exact ⟨Or.inl h0, by omega⟩
    · exact ⟨Or.inr (by omega), by omega⟩
  · rename_i hc
    unfold wr
    simp only
    rcases hok with ⟨_, h0⟩ | ⟨h1, h2⟩
    · omega
    · have := h2 (by omega)
      exact ⟨Or.inr (by omega), fun _ => by omega⟩


theorem plan_final_strong (c : Core) (gpus : List Gpu) (hroom : RoomAll c gpus) :
    (∀ s ∈ (plan c gpus).gs, FinalOkS c (if (plan c gpus).fully then c.gF else c.gP) s) ∧
    (plan c gpus).gs.map (·.free) = gpus.map (·.free) := by
  let N := c.memOut :: c.layerSizes
  have hmem : c.memOut ∈ N := by simp [N]
  have hadm := admit_good c N c.memOut hmem gpus 0 [] hroom
  have hws : WsOk c (gpus.map (·.free)) (admit c 0 gpus []).1 :=
    admit_ws c gpus gpus 0 [] (fun k => by simp) (fun _ g hg => by simp at hg)
  have hloop := layerLoop_good c N (gpus.map (·.free)) c.layerSizes 0
    { ws := (admit c 0 gpus []).1, gs := (admit c 0 gpus []).2, lc := 0 }
    (fun L hL => by simp [N, hL]) hadm (admit_free c gpus 0 []) hws
  have hfree := layerLoop_free c c.layerSizes 0
    { ws := (admit c 0 gpus []).1, gs := (admit c 0 gpus []).2, lc := 0 }
  rw [show ({ ws := (admit c 0 gpus []).1, gs := (admit c 0 gpus []).2, lc := 0 } : St).gs
      = (admit c 0 gpus []).2 from rfl, admit_free] at hfree
  simp only at hloop
  generalize hst : layerLoop c 0 c.layerSizes
    { ws := (admit c 0 gpus []).1, gs := (admit c 0 gpus []).2, lc := 0 } = st at hloop hfree
  obtain ⟨hloop, hwst⟩ := hloop
  have hgP : c.gP ≤ c.maxg := by unfold Core.maxg; omega
  have hgF : c.gF ≤ c.maxg := by unfold Core.maxg; omega
  simp only [plan, hst]
  generalize hpl : (if (decide (c.memOut > 0) && !capped c st.lc) = true then
      placeOut c st.gs st.ws st.lc c.memOut st.ws.length else none) = placed
  have hgraph : ∀ (b : Bool), (if b then c.gF else c.gP) ≤ c.maxg := by
    intro b; cases b <;> simp [hgP, hgF]
  cases placed with
  | none =>
    simp only [addGraph_free]
    exact ⟨addGraph_final_strong c N c.memOut hmem _ (hgraph _) _ hloop, hfree⟩
  | some g =>
    simp only [addGraph_free, bump_free]
    refine ⟨addGraph_final_strong c N c.memOut hmem _ (hgraph _) _ ?_, hfree⟩
    split at hpl
    · obtain ⟨s0, hs0, hf⟩ := placeOut_some c st.gs st.ws st.lc c.memOut _ _ hpl
      have hgm := placeOut_mem c st.gs st.ws st.lc c.memOut _ _ hpl
      apply bump_forall (Good c N) c.memOut st.gs g hloop
      intro s hs
      rw [hs0] at hs
      injection hs with hs
      subst hs
      refine fits_good c N s0 c.memOut hmem ?_ (hloop s0 (List.mem_of_getElem? hs0)) hf
      intro hv
      apply hwst hv g hgm s0.free
      rw [← hfree, List.getElem?_map, hs0]
      rfl
    · cases hpl


end OllamaVerif.Memory
