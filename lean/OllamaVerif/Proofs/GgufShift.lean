/-
  C05 — a written file decoded as the 2nd, 3rd, … model of an upload, and what create makes of several written
  files uploaded back to back.

  `decode_encode_at`: the round trip with the reader standing at file position `p` (a multiple of the file's
  alignment — the decoder pads to ABSOLUTE file offsets, the writer to offsets of its own file) and with arbitrary
  bytes after the file: same keys, values and tensor infos; data start and end offset moved by `p`.

  `create_layers_of_written_files`: for a list of written files `fs`, each starting at a multiple of its own
  alignment, `ggufLayers (concat fs)` is exactly one layer per file: layer i starts where file i starts and has its
  length ("each layer is exactly one model" for written models — the use of the end offset the property names).
-/
import OllamaVerif.Proofs.Gguf
import OllamaVerif.Proofs.GgufRoundTrip
import OllamaVerif.Proofs.GgufSort
import OllamaVerif.Proofs.GgufFull
import OllamaVerif.Proofs.GgufCreate

namespace OllamaVerif.Gguf
open OllamaVerif

/-- the seek loop over a written data section, the reader at absolute position `p + P` (`p` aligned) -/
theorem seekTensors_enc_at (align p : Nat) (hp : p % align = 0) :
    ∀ (ts : List TIn) (os : List Nat) (P : Nat), os.length = ts.length →
      (∀ t ∈ ts, WfT t) → p + P + (encData align ts P).length < two63 →
      seekTensors Guards.all align (infosOf ts os) (p + P) = .ok (p + P + (encData align ts P).length) := by
  intro ts
  induction ts with
  | nil => intro os P _ _ _; cases os <;> simp [infosOf, seekTensors, encData]
  | cons t ts ih =>
    intro os P hlen hw hb
    cases os with
    | nil => simp at hlen
    | cons o os =>
      have hsz : t.data.length = tensorSize t.kind t.shape := hw t (by simp)
      simp only [encData, List.length_append, List.length_replicate] at hb ⊢
      have hlt : tensorSize t.kind t.shape < two63 := by omega
      have hpad : padding (p + P) align = padding P align := padding_add_base p P align hp
      simp only [infosOf, seekTensors, infoOf, tensorSize_reverse, toI64_small _ hlt, hpad]
      have hneg : ¬ ((tensorSize t.kind t.shape : Int) < 0) := by omega
      have h2 : (two63 : Int) = ((two63 : Nat) : Int) := rfl
      have hrange : ¬ (((p + P + padding P align : Nat) : Int) + (tensorSize t.kind t.shape : Int) < 0 ∨
          ((p + P + padding P align : Nat) : Int) + (tensorSize t.kind t.shape : Int) ≥ (two63 : Int)) := by
        omega
      simp only [hneg, and_false, ↓reduceIte, hrange]
      have hnat : (((p + P + padding P align : Nat) : Int) + (tensorSize t.kind t.shape : Int)).toNat
          = p + (P + padding P align + t.data.length) := by omega
      rw [hnat]
      rw [ih os _ (by simpa using hlen) (fun t' h => hw t' (by simp [h])) (by omega)]
      congr 1
      omega

/-- **Round trip at file position `p`** (keys given in key order), followed by arbitrary bytes `tail` -/
theorem decode_encode_at_sorted (kvs : List (Bytes × KVal)) (ts : List TIn) (file tail : Bytes) (align p : Nat)
    (maxArraySize : Int)
    (hsorted : sortKVs kvs = kvs) (hnodup : (kvs.map (·.1)).Nodup)
    (hnoparam : ∀ kv ∈ kvs, kv.1 ≠ keyParamCount)
    (hwkv : ∀ kv ∈ kvs, WfKV kv) (hwt : ∀ t ∈ ts, WfTensor t ∧ WfT t)
    (hnk : kvs.length < two64) (hnt : ts.length < two64)
    (halign : alignmentIn kvs = .ok align) (hpos : 0 < align) (hp : p % align = 0)
    (hoff : ∀ o ∈ offsets false align ts 0, o < two64)
    (henc : encode false kvs ts = .ok file) (hlen : p + file.length < two63) :
    let maxA : Int := if maxArraySize = 0 then 1024 else maxArraySize
    let head := encHead false align kvs ts
    let infos := infosOf ts (offsets false align ts 0)
    decodeFrom ⟨file ++ tail, p⟩ maxArraySize none
      = .ok ⟨3, kvs.map (fun kv => (kv.1, toVal maxA kv.2)) ++ [(keyParamCount, .scalar 10 (sumParameters infos))],
             infos, p + (head.length + padding head.length align), p + file.length⟩ := by
  intro maxA head infos
  obtain ⟨H, hHd⟩ : ∃ H, H = head.length := ⟨_, rfl⟩
  have hfile : file = head ++ encData align ts H := by
    unfold encode at henc
    simp only [writerAlignment_lenient _ _ halign, bind, Except.bind] at henc
    split at henc
    · cases henc
    · simp only [pure, Except.pure] at henc
      injection henc with h; rw [hHd]; exact h.symm
  have hc : V3T (⟨false, 3, maxA, none, Guards.tree⟩ : Cfg) := ⟨⟨rfl, rfl, rfl⟩, rfl⟩
  have hhead : head = u32le magicLE ++ (u32le 3 ++ (u64le ts.length ++ (u64le kvs.length ++
      (kvs.flatMap encKV ++ (encTInfos ts (offsets false align ts 0)))))) := by
    simp only [head, encHead, encHeader, hsorted, List.append_assoc]
  have hheadlen : p + 4 + 4 + 8 + 8 + (kvs.flatMap encKV).length + (encTInfos ts (offsets false align ts 0)).length
      = p + H := by
    rw [hHd, hhead]
    simp only [List.length_append, u32le_length, u64le_length]
    omega
  have hflen : file.length = H + (encData align ts H).length := by
    rw [hfile, List.length_append, ← hHd]
  rw [← hHd]
  unfold decodeFrom
  simp only []
  rw [hfile, hhead]
  simp only [List.append_assoc]
  rw [readU32 magicLE (by decide)]
  simp only [bind, Except.bind, show ¬ (magicLE ≠ magicLE ∧ magicLE ≠ magicBE) by decide, ↓reduceIte,
    show (decide (magicLE = magicBE)) = false by decide]
  rw [readU32 3 (by decide)]
  simp only [show ¬ ((3 : Nat) = 1) by decide, ↓reduceIte]
  rw [show ∀ (n : Nat) (rest : Bytes) (q : Nat), readUintIn false 8 (2 * 8) ⟨u64le n ++ (u64le kvs.length ++ rest), q⟩
      = readUint false 8 ⟨u64le n ++ (u64le kvs.length ++ rest), q⟩ from by
    intro n rest q; unfold readUintIn
    simp only [List.length_append, u64le_length]
    rw [if_pos (by omega)]]
  rw [readU64 _ hnt]
  simp only []
  rw [readU64 _ hnk]
  simp only []
  unfold decodeBody
  have hk := readKVs_enc hc kvs [] (encTInfos ts (offsets false align ts 0) ++ (encData align ts H ++ tail))
    (p + 4 + 4 + 8 + 8) hwkv
  simp only [] at hk
  simp only [bind, Except.bind]
  rw [hk]
  simp only []
  rw [foldl_kvInsert_nodup maxA kvs [] hnodup (by intro _ _ q hq; cases hq)]
  have ht := readTensors_enc hc ts (offsets false align ts 0) (encData align ts H ++ tail)
    (p + 4 + 4 + 8 + 8 + (kvs.flatMap encKV).length) (offsets_length _ _ _ _)
    (fun t h => (hwt t h).1) hoff
  rw [ht]
  simp only [List.nil_append]
  rw [kvInsert_fresh _ keyParamCount _ (by
    intro q hq
    obtain ⟨kv, hkv, rfl⟩ := List.mem_map.mp hq
    exact hnoparam kv hkv)]
  rw [show Guards.tree = Guards.all from rfl]
  rw [alignment_agrees maxA kvs align _ hwkv halign]
  simp only [show ¬ (align = 0) by omega, ↓reduceIte, hheadlen]
  have hseek := seekTensors_enc_at align p hp ts (offsets false align ts 0) H (offsets_length _ _ _ _)
    (fun t h => (hwt t h).2) (by omega)
  rw [hseek]
  simp only [pure, Except.pure]
  have hpad : padding (p + H) align = padding H align := padding_add_base p H align hp
  rw [hpad]
  congr 2
  all_goals (try simp only [List.length_append, u32le_length, u64le_length]); omega

/-- a file the writer produced from distinct, well-typed keys and tensors (`write_decode_full`'s hypotheses) -/
structure Written (file : Bytes) (align : Nat) : Prop where
  ex : ∃ (kvs : List (Bytes × KVal)) (ts : List TIn),
    (kvs.map (·.1)).Nodup ∧ (∀ kv ∈ kvs, kv.1 ≠ keyParamCount) ∧
    (∀ kv ∈ kvs, TypedVal kv.2) ∧ (∀ t ∈ ts, TypedTensor t ∧ WfT t) ∧
    alignmentIn kvs = .ok align ∧ 0 < align ∧ encode false kvs ts = .ok file

/-- **End offset of a written file decoded at position `p`**: `p + length`, whatever follows it -/
theorem decode_written_at (file tail : Bytes) (align p : Nat) (maxArraySize : Int) (hw : Written file align)
    (hp : p % align = 0) (hlen : p + file.length < two63) :
    ∃ d, decodeFrom ⟨file ++ tail, p⟩ maxArraySize none = .ok d ∧ d.endOffset = p + file.length := by
  obtain ⟨kvs, ts, hnodup, hnoparam, htv, htt, halign, hpos, henc⟩ := hw.ex
  -- size hypotheses from the file length, exactly as in `write_decode_full`
  obtain ⟨head, hheadd⟩ : ∃ head, head = encHead false align kvs ts := ⟨_, rfl⟩
  have hfile : file = head ++ encData align ts head.length := by
    unfold encode at henc
    simp only [writerAlignment_lenient _ _ halign, bind, Except.bind] at henc
    split at henc
    · cases henc
    · simp only [pure, Except.pure] at henc
      injection henc with h; rw [hheadd]; exact h.symm
  have hflen : file.length = head.length + (encData align ts head.length).length := by
    rw [hfile, List.length_append]
  have hheadlen : head.length = 24 + ((sortKVs kvs).flatMap encKV).length
      + (encTInfos ts (offsets false align ts 0)).length := by
    rw [hheadd]; simp [encHead, encHeader, u32le, u64le]; omega
  have hperm := sortKVs_perm kvs
  have holen : (offsets false align ts 0).length = ts.length := offsets_length _ _ _ _
  have hflt : file.length < two63 := by omega
  have hwkv : ∀ kv ∈ sortKVs kvs, WfKV kv := by
    intro kv hkv
    have := length_le_flatMap encKV (sortKVs kvs) kv hkv
    exact WfKV_of_length kv (htv kv (hperm.mem_iff.mp hkv)) (by omega)
  have hnk : (sortKVs kvs).length < two64 := by
    have := count_le_flatMap encKV (sortKVs kvs) (fun kv _ => by rw [encKV_length]; omega)
    unfold two63 at hflt; unfold two64; omega
  obtain ⟨hti1, hti2⟩ := encTInfos_bounds ts (offsets false align ts 0) holen
  have hnt : ts.length < two64 := by unfold two63 at hflt; unfold two64; omega
  have hwt : ∀ t ∈ ts, WfTensor t ∧ WfT t := by
    intro t ht
    obtain ⟨⟨h1, h2, h3⟩, h4⟩ := htt t ht
    have := hti2 t ht
    exact ⟨⟨by omega, h1, h2, h3⟩, h4⟩
  have hbase : (head.length + padding head.length align) % align = 0 := padding_aligned _ _ hpos
  have hinv : head.length + padding head.length align
      = (head.length + padding head.length align) + (0 + padding 0 align) := by
    simp [padding]
  have hoff : ∀ o ∈ offsets false align ts 0, o < two64 := by
    intro o ho
    have := offsets_le_encData align _ hbase ts head.length 0 hinv (fun t ht => (htt t ht).2) o ho
    unfold two63 at hflt; unfold two64; omega
  have h := decode_encode_at_sorted (sortKVs kvs) ts file tail align p maxArraySize (sortKVs_idem kvs)
    ((hperm.map (·.1)).nodup_iff.mpr hnodup)
    (fun kv hkv => hnoparam kv (hperm.mem_iff.mp hkv)) hwkv hwt hnk hnt
    (by rw [alignmentIn_sort kvs hnodup]; exact halign) hpos hp hoff
    (by rw [encode_sort kvs ts hnodup]; exact henc) hlen
  exact ⟨_, h, rfl⟩

/-! ### create on several written files back to back -/

/-- the starts of the files of an upload: running sum of the lengths -/
def startsFrom : Nat → List Bytes → List Nat
  | _, [] => []
  | s, f :: fs => s :: startsFrom (s + f.length) fs

/-- every file of the list (with its alignment) is written and starts at a multiple of its own alignment -/
def AlignedWritten : Nat → List (Bytes × Nat) → Prop
  | _, [] => True
  | s, (f, a) :: fs => Written f a ∧ s % a = 0 ∧ AlignedWritten (s + f.length) fs

/-- what the layers must be: one per file, at the file's start, of the file's length, cut (not the whole blob) -/
def LayersMatch : List GLayer → List Nat → List Bytes → Prop
  | [], [], [] => True
  | l :: ls, s :: ss, f :: fs => l.start = s ∧ l.size = f.length ∧ l.whole = false ∧ LayersMatch ls ss fs
  | _, _, _ => False

theorem LayersMatch_append (ls : List GLayer) (ss : List Nat) (fs : List Bytes) (l : GLayer) (s : Nat) (f : Bytes)
    (h : LayersMatch ls ss fs) (h1 : l.start = s) (h2 : l.size = f.length) (h3 : l.whole = false) :
    LayersMatch (ls ++ [l]) (ss ++ [s]) (fs ++ [f]) := by
  induction ls generalizing ss fs with
  | nil =>
    cases ss with
    | nil =>
      cases fs with
      | nil => exact ⟨h1, h2, h3, trivial⟩
      | cons _ _ => cases h
    | cons _ _ => cases fs <;> cases h
  | cons l0 ls ih =>
    cases ss with
    | nil => cases fs <;> cases h
    | cons s0 ss =>
      cases fs with
      | nil => cases h
      | cons f0 fs =>
        obtain ⟨a, b, c, d⟩ := h
        exact ⟨a, b, c, ih ss fs d⟩

/-- the loop, standing at the start of the remaining files `fs` (already `done` bytes and `acc` layers behind it,
    at least one of them so that no layer is the whole blob) -/
theorem ggufLayersLoop_written (maxSeek : Nat) :
    ∀ (fs : List (Bytes × Nat)) (done : Bytes) (fuel : Nat) (acc : List GLayer),
      let bs := done ++ (fs.map (·.1)).flatten
      bs.length < two63 → bs.length ≤ maxSeek →
      AlignedWritten done.length fs → (fs.map (·.1)).flatten.length ≤ fuel →
      (∀ f ∈ fs, 0 < f.1.length) →
      (0 < done.length ∨ 2 ≤ fs.length) →
      ∃ out, ggufLayersLoop bs none Guards.tree maxSeek fuel done.length acc = some (.ok (acc ++ out)) ∧
        LayersMatch out (startsFrom done.length (fs.map (·.1))) (fs.map (·.1)) := by
  intro fs
  induction fs with
  | nil =>
    intro done fuel acc bs hlt hms _ _ _ _
    refine ⟨[], ?_, trivial⟩
    simp only [bs, List.map_nil, List.flatten_nil, List.append_nil]
    cases fuel with
    | zero => unfold ggufLayersLoop; simp
    | succ fuel => unfold ggufLayersLoop; simp
  | cons fa fs ih =>
    obtain ⟨f, a⟩ := fa
    intro done fuel acc bs hlt hms haw hfuel hposl hmulti
    obtain ⟨hw, hal, hrest⟩ := haw
    have hfpos : 0 < f.length := hposl (f, a) (by simp)
    have hbs : bs = done ++ (f ++ (fs.map (·.1)).flatten) := by
      simp only [bs, List.map_cons, List.flatten_cons]
    have hbl : bs.length = done.length + f.length + (fs.map (·.1)).flatten.length := by
      rw [hbs]; simp only [List.length_append]; omega
    cases fuel with
    | zero =>
      simp only [List.map_cons, List.flatten_cons, List.length_append] at hfuel
      omega
    | succ fuel =>
      unfold ggufLayersLoop
      rw [if_pos (by omega)]
      have hdrop : bs.drop done.length = f ++ (fs.map (·.1)).flatten := by
        rw [hbs, List.drop_left]
      rw [hdrop]
      obtain ⟨d, hd, hend⟩ := decode_written_at f ((fs.map (·.1)).flatten) a done.length 0 hw hal (by omega)
      rw [hd]
      simp only [hend]
      rw [if_neg (by omega)]
      obtain ⟨m, hm⟩ := mediaType_all d.kvs
      rw [show Guards.tree = Guards.all from rfl, hm]
      simp only []
      -- not the whole blob: something before or after this file
      have hnotwhole : ¬ (done.length + f.length = bs.length ∧ done.length = 0) := by
        intro ⟨h1, h2⟩
        rcases hmulti with h | h
        · omega
        · -- at least one more non-empty file follows
          cases fs with
          | nil => simp at h
          | cons g gs =>
            have hg : 0 < g.1.length := hposl g (by simp)
            simp only [List.map_cons, List.flatten_cons, List.length_append] at hbl
            omega
      have hwhole : (decide (done.length + f.length = bs.length ∧ done.length = 0)) = false := by
        simp only [decide_eq_false_iff_not]; exact hnotwhole
      simp only [hwhole, Bool.false_eq_true, ↓reduceIte]
      have hsize : min (done.length + f.length - done.length) (bs.length - done.length) = f.length := by
        omega
      rw [hsize]
      -- continue behind this file
      have hdone' : (done ++ f).length = done.length + f.length := by simp
      have hbs' : (done ++ f) ++ (fs.map (·.1)).flatten = bs := by rw [hbs, List.append_assoc]
      have := ih (done ++ f) fuel (acc ++ [⟨done.length, f.length, false, m, d⟩])
      simp only [hbs', hdone'] at this
      obtain ⟨out, hout, hmatch⟩ := this hlt hms hrest
        (by simp only [List.map_cons, List.flatten_cons, List.length_append] at hfuel; omega)
        (fun g hg => hposl g (by simp [hg])) (Or.inl (by omega))
      refine ⟨⟨done.length, f.length, false, m, d⟩ :: out, ?_, ?_⟩
      · rw [show Guards.all = Guards.tree from rfl] at *
        rw [hout]; simp
      · simp only [List.map_cons, startsFrom]
        exact ⟨rfl, rfl, rfl, hmatch⟩

/-- **create on written files uploaded back to back**: two or more non-empty written files, each starting at a
    multiple of its own alignment (total below 2^63 bytes and below the file system's seek limit): `ggufLayers` answers
    with exactly one layer per file — layer i starts where file i starts and is as long as file i. -/
theorem create_layers_of_written_files (fs : List (Bytes × Nat)) (maxSeek : Nat)
    (h2 : 2 ≤ fs.length) (hpos : ∀ f ∈ fs, 0 < f.1.length)
    (haw : AlignedWritten 0 fs)
    (hlt : (fs.map (·.1)).flatten.length < two63) (hms : (fs.map (·.1)).flatten.length ≤ maxSeek) :
    ∃ out, ggufLayers (fs.map (·.1)).flatten none Guards.tree maxSeek = some (.ok out) ∧
      LayersMatch out (startsFrom 0 (fs.map (·.1))) (fs.map (·.1)) := by
  -- the first file starts with the magic
  obtain ⟨out, hout, hmatch⟩ := ggufLayersLoop_written maxSeek fs [] (fs.map (·.1)).flatten.length []
    (by simpa using hlt) (by simpa using hms) (by simpa using haw) (by simp) hpos (Or.inr h2)
  simp only [List.nil_append, List.length_nil] at hout hmatch
  refine ⟨out, ?_, hmatch⟩
  unfold ggufLayers
  simp only []
  -- content sniffing: the loop's first decode succeeded, so the magic is there
  cases fs with
  | nil => simp at h2
  | cons fa rest =>
    obtain ⟨f, a⟩ := fa
    obtain ⟨hw, hal, _⟩ := haw
    have hfpos : 0 < f.length := hpos (f, a) (by simp)
    obtain ⟨d, hd, _⟩ := decode_written_at f ((rest.map (·.1)).flatten) a 0 0 hw (by simp)
      (by simp only [List.map_cons, List.flatten_cons, List.length_append] at hlt; omega)
    obtain ⟨h4, hmag⟩ := magic_of_decode (f ++ (rest.map (·.1)).flatten) 0 none Guards.tree d hd
    simp only [List.map_cons, List.flatten_cons] at hout ⊢
    have ht : ((f ++ (rest.map (·.1)).flatten).take 4).length = 4 := by
      rw [List.length_take]; omega
    rw [ht]
    simp only [Nat.sub_self, List.replicate_zero, List.append_nil]
    rw [if_neg hmag]
    exact hout

end OllamaVerif.Gguf
