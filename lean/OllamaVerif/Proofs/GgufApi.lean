/-
  C10 — create-from and show on every installed blob: no panic site, no over-budget allocation.
-/
import OllamaVerif.Model.GgufApi
import OllamaVerif.Proofs.GgufSafe
import OllamaVerif.Proofs.GgufCreate

namespace OllamaVerif.Gguf
open OllamaVerif

theorem mapM_safe {α β : Type} (f : α → Except Err β) : ∀ (l : List α), (∀ a ∈ l, Safe (f a)) → Safe (l.mapM f) := by
  intro l
  induction l with
  | nil => intro _; simp [Safe, pure, Except.pure]
  | cons a as ih =>
    intro h
    rw [List.mapM_cons]
    have ha := h a (by simp)
    cases hfa : f a with
    | error e => rw [hfa] at ha; exact ha
    | ok b =>
      have hrest := ih (fun x hx => h x (by simp [hx]))
      simp only [bind, Except.bind]
      cases hm : as.mapM f with
      | error e => rw [hm] at hrest; exact hrest
      | ok bs => simp [Safe, pure, Except.pure]

theorem decodeFile_safe (bs : Bytes) (maxArraySize : Int) (B : Nat) (hB : bs.length ≤ B) (maxSeek : Nat) :
    Safe (decodeFile bs maxArraySize (some B) Guards.all maxSeek) := by
  unfold decodeFile
  have hd := decode_safe_all bs maxArraySize B hB
  cases h : decode bs maxArraySize (some B) Guards.all with
  | error e => rw [h] at hd; exact hd
  | ok d => simp only []; split <;> simp [Safe, isBad]

theorem parseFromModel_safe (blobs : List Bytes) (B : Nat) (hB : ∀ b ∈ blobs, b.length ≤ B) (maxSeek : Nat) :
    Safe (parseFromModel blobs (some B) Guards.all maxSeek) :=
  mapM_safe _ blobs (fun b hb => decodeFile_safe b 0 B (hB b hb) maxSeek)

/-- **create-from is safe on every installed model** -/
theorem createFrom_safe (blobs : List Bytes) (B : Nat) (hB : ∀ b ∈ blobs, b.length ≤ B) (maxSeek : Nat) :
    Safe (createFrom blobs (some B) Guards.all maxSeek) := by
  unfold createFrom
  have hp := parseFromModel_safe blobs B hB maxSeek
  simp only [bind, Except.bind]
  cases h : parseFromModel blobs (some B) Guards.all maxSeek with
  | error e => rw [h] at hp; exact hp
  | ok ds =>
    simp only []
    have : Safe (ds.mapM (fun d => createAccessors Guards.all d.kvs)) :=
      mapM_safe _ ds (fun d _ => by rw [createAccessors_all]; trivial)
    cases hm : ds.mapM (fun d => createAccessors Guards.all d.kvs) with
    | error e => rw [hm] at this; exact this
    | ok u => simp [Safe, pure, Except.pure]

theorem capabilities_safe (blob : Bytes) (B : Nat) (hB : blob.length ≤ B) (maxSeek : Nat) :
    Safe (capabilities blob (some B) Guards.all maxSeek) := by
  unfold capabilities
  have hd := decodeFile_safe blob 0 B hB maxSeek
  cases h : decodeFile blob 0 (some B) Guards.all maxSeek with
  | error e =>
    rw [h] at hd
    cases e with
    | panic s => simp [Safe, isBad] at hd
    | alloc s n => simp [Safe, isBad] at hd
    | eof => trivial
    | ueof => trivial
    | invalid w => trivial
  | ok d =>
    simp only []
    obtain ⟨a, ha⟩ := kvString_all d.kvs (bytesOf "general.architecture") (bytesOf "unknown")
    unfold kvArchitecture
    rw [ha]
    simp [Safe, bind, Except.bind, pure, Except.pure]

/-- **show is safe on every installed blob**, verbose or not -/
theorem showModel_safe (blob : Bytes) (verbose : Bool) (B : Nat) (hB : blob.length ≤ B) (maxSeek : Nat) :
    Safe (showModel blob verbose (some B) Guards.all maxSeek) := by
  unfold showModel
  have hc := capabilities_safe blob B hB maxSeek
  simp only [bind, Except.bind]
  cases h : capabilities blob (some B) Guards.all maxSeek with
  | error e => rw [h] at hc; exact hc
  | ok cs =>
    simp only []
    have hd := decodeFile_safe blob (if verbose then -1 else 0) B hB maxSeek
    cases h2 : decodeFile blob (if verbose then -1 else 0) (some B) Guards.all maxSeek with
    | error e => rw [h2] at hd; exact hd
    | ok d => simp [Safe, pure, Except.pure]

end OllamaVerif.Gguf
