/-
  C18 — the order laws RELATIVISED to the NaN-free part of the carrier (round 7, after review).

  `OrdLaws o` (a strict weak order on the whole carrier) cannot hold on a carrier that has a NaN:
  `0 < 1` but neither `0 < NaN` nor `NaN < 1`, so `cotrans` fails (`Properties/C18.lean`,
  `X_not_OrdLaws`).  IEEE `<` is a strict weak order on the values that are not NaN: `OrdLawsOn`.

  Transfer: `totalize o` is `o` with a comparison that puts every NaN below everything else (all
  NaN equivalent).  It satisfies the total `OrdLaws` as soon as `o` satisfies `OrdLawsOn`
  (`totalize_laws`), it agrees with `o` on non-NaN values (`totalize_lt`), and the order-only
  algorithms of the sampler — `greedy`, the stable sort, every function of the `container/heap`
  mirror, `topK` — only ever compare values of their input, so on a NaN-free input they compute
  the same result for `o` and for `totalize o` (`*_totalize`).  Every theorem proved for a total
  strict weak order therefore holds for `o` itself on NaN-free inputs.
-/
import OllamaVerif.Proofs.Sampler
namespace OllamaVerif.Sampler
variable {α : Type}

/-- `<` is a strict weak order on the values that are not NaN; `0` and `-Inf` are not NaN -/
structure OrdLawsOn (o : Ops α) : Prop where
  irrefl : ∀ a, o.isNaN a = false → o.lt a a = false
  trans : ∀ a b c, o.isNaN a = false → o.isNaN b = false → o.isNaN c = false →
    o.lt a b = true → o.lt b c = true → o.lt a c = true
  cotrans : ∀ a b c, o.isNaN a = false → o.isNaN b = false → o.isNaN c = false →
    o.lt a c = true → o.lt a b = true ∨ o.lt b c = true
  zero : o.isNaN o.zero = false
  negInf : o.isNaN o.negInf = false

/-- `a == b` only holds between non-NaN values, and then `b` is not below `a` -/
structure BeqLawOn (o : Ops α) : Prop where
  good : ∀ a b, o.beq a b = true → o.isNaN a = false ∧ o.isNaN b = false
  nlt : ∀ a b, o.beq a b = true → o.lt b a = false

/-- the same operations with a comparison that puts every NaN below everything else -/
def totalize (o : Ops α) : Ops α :=
  { o with lt := fun a b => !o.isNaN b && (o.isNaN a || o.lt a b) }

theorem totalize_lt (o : Ops α) {a b : α} (ha : o.isNaN a = false) (hb : o.isNaN b = false) :
    (totalize o).lt a b = o.lt a b := by
  simp [totalize, ha, hb]

theorem totalize_laws {o : Ops α} (h : OrdLawsOn o) : OrdLaws (totalize o) where
  irrefl := by
    intro a
    cases ha : o.isNaN a with
    | true => simp [totalize, ha]
    | false => simp [totalize, ha, h.irrefl a ha]
  trans := by
    intro a b c hab hbc
    simp only [totalize, Bool.and_eq_true, Bool.not_eq_true', Bool.or_eq_true] at hab hbc ⊢
    refine ⟨hbc.1, ?_⟩
    cases ha : o.isNaN a with
    | true => exact Or.inl rfl
    | false =>
      right
      rcases hab.2 with h1 | h1
      · rw [ha] at h1; cases h1
      · rcases hbc.2 with h2 | h2
        · rw [hab.1] at h2; cases h2
        · exact h.trans a b c ha hab.1 hbc.1 h1 h2
  cotrans := by
    intro a b c hac
    simp only [totalize, Bool.and_eq_true, Bool.not_eq_true', Bool.or_eq_true] at hac ⊢
    cases hb : o.isNaN b with
    | true => exact Or.inr ⟨hac.1, Or.inl rfl⟩
    | false =>
      cases ha : o.isNaN a with
      | true => exact Or.inl ⟨rfl, Or.inl rfl⟩
      | false =>
        rcases hac.2 with h1 | h1
        · rw [ha] at h1; cases h1
        · rcases h.cotrans a b c ha hb hac.1 h1 with h2 | h2
          · exact Or.inl ⟨rfl, Or.inr h2⟩
          · exact Or.inr ⟨hac.1, Or.inr h2⟩

theorem totalize_beqLaw {o : Ops α} (h : BeqLawOn o) : BeqLaw (totalize o) := by
  intro a b hab
  have hg := h.good a b hab
  have : (totalize o).lt b a = o.lt b a := totalize_lt o hg.2 hg.1
  rw [this]; exact h.nlt a b hab

/-- no token of the list carries a NaN -/
def GoodL (o : Ops α) (ts : List (Tok α)) : Prop := ∀ t ∈ ts, o.isNaN t.val = false

/-! ### the order-only algorithms do not see the difference on NaN-free inputs -/

theorem greedy_totalize (o : Ops α) (ts : List (Tok α)) (hg : GoodL o ts) :
    greedy (totalize o) ts = greedy o ts := by
  cases ts with
  | nil => rfl
  | cons t rest =>
    simp only [greedy]
    congr 1
    have : ∀ (l : List (Tok α)) (m : Tok α), o.isNaN m.val = false → (∀ x ∈ l, o.isNaN x.val = false) →
        l.foldl (fun m x => if (totalize o).lt m.val x.val then x else m) m =
        l.foldl (fun m x => if o.lt m.val x.val then x else m) m := by
      intro l
      induction l with
      | nil => intro m _ _; rfl
      | cons x xs ih =>
        intro m hm hl
        have hx := hl x List.mem_cons_self
        simp only [List.foldl_cons, totalize_lt o hm hx]
        apply ih
        · split <;> assumption
        · intro y hy; exact hl y (List.mem_cons_of_mem _ hy)
    exact this rest t (hg t List.mem_cons_self) (fun x hx => hg x (List.mem_cons_of_mem _ hx))

theorem sortDesc_totalize (o : Ops α) (ts : List (Tok α)) (hg : GoodL o ts) :
    sortDesc (totalize o) ts = sortDesc o ts := by
  have := List.map_mergeSort (r := descLE (totalize o)) (s := descLE o) (f := id) (l := ts)
    (by
      intro a ha b hb
      simp only [descLE, id, totalize_lt o (hg a ha) (hg b hb)])
  simpa [sortDesc] using this

/-- every token of the array is NaN-free -/
def GoodA (o : Ops α) (h : Array (Tok α)) : Prop := ∀ y ∈ h, o.isNaN y.val = false

theorem hget_good {o : Ops α} (hz : o.isNaN o.zero = false) (h : Array (Tok α)) (hg : GoodA o h) (i : Nat) :
    o.isNaN (hget o h i).val = false := by
  simp only [hget]
  cases hi : h[i]? with
  | none => simpa using hz
  | some y =>
    simp only [Option.getD_some]
    exact hg y (Array.mem_of_getElem? hi)

theorem hless_totalize {o : Ops α} (hz : o.isNaN o.zero = false) (h : Array (Tok α)) (hg : GoodA o h)
    (i j : Nat) : hless (totalize o) h i j = hless o h i j := by
  simp only [hless]
  exact totalize_lt o (hget_good hz h hg i) (hget_good hz h hg j)

theorem goodA_swap {o : Ops α} (h : Array (Tok α)) (hg : GoodA o h) (i j : Nat) :
    GoodA o (h.swapIfInBounds i j) := by
  intro y hy
  exact hg y ((swapIfInBounds_perm h i j).mem_iff.1 hy)

theorem hdown_totalize {o : Ops α} (hz : o.isNaN o.zero = false) (n : Nat) :
    ∀ (fuel : Nat) (h : Array (Tok α)) (i : Nat), GoodA o h →
    hdown (totalize o) n fuel h i = hdown o n fuel h i := by
  intro fuel
  induction fuel with
  | zero => intro h i _; rfl
  | succ fuel ih =>
    intro h i hg
    rw [hdown_succ, hdown_succ]
    have ih' : ∀ a b, hdown (totalize o) n fuel (h.swapIfInBounds a b) b =
        hdown o n fuel (h.swapIfInBounds a b) b := fun a b => ih _ _ (goodA_swap h hg a b)
    simp only [hless_totalize hz h hg, ih']

theorem hup_totalize {o : Ops α} (hz : o.isNaN o.zero = false) :
    ∀ (fuel : Nat) (h : Array (Tok α)) (j : Nat), GoodA o h →
    hup (totalize o) fuel h j = hup o fuel h j := by
  intro fuel
  induction fuel with
  | zero => intro h j _; rfl
  | succ fuel ih =>
    intro h j hg
    rw [hup_succ, hup_succ]
    have ih' : ∀ a b, hup (totalize o) fuel (h.swapIfInBounds a b) a =
        hup o fuel (h.swapIfInBounds a b) a := fun a b => ih _ _ (goodA_swap h hg a b)
    simp only [hless_totalize hz h hg, ih']

theorem goodA_hdown {o : Ops α} (n fuel : Nat) (h : Array (Tok α)) (i : Nat) (hg : GoodA o h) :
    GoodA o (hdown o n fuel h i) := by
  intro y hy
  exact hg y ((hdown_perm o n fuel h i).mem_iff.1 hy)

theorem hinit_totalize {o : Ops α} (hz : o.isNaN o.zero = false) (h : Array (Tok α)) (hg : GoodA o h) :
    hinit (totalize o) h = hinit o h := by
  unfold hinit
  simp only
  generalize (List.range (h.size / 2)).reverse = l
  generalize h.size = n
  induction l generalizing h with
  | nil => rfl
  | cons i l ih =>
    simp only [List.foldl_cons]
    rw [hdown_totalize hz n n h i hg]
    exact ih _ (goodA_hdown n n h i hg)

theorem hpop_totalize {o : Ops α} (hz : o.isNaN o.zero = false) (h : Array (Tok α)) (hg : GoodA o h) :
    hpop (totalize o) h = hpop o h := by
  unfold hpop
  simp only
  rw [hdown_totalize hz _ _ _ _ (goodA_swap h hg _ _)]
  rfl

theorem goodA_hpop {o : Ops α} (h : Array (Tok α)) (hs : 0 < h.size) (hg : GoodA o h) :
    GoodA o (hpop o h).2 := by
  intro y hy
  exact hg y ((hpop_spec o h hs).2.2 y hy)

theorem goodA_push {o : Ops α} (h : Array (Tok α)) (x : Tok α) (hg : GoodA o h)
    (hx : o.isNaN x.val = false) : GoodA o (h.push x) := by
  intro y hy
  rcases Array.mem_push.1 hy with hy | rfl
  · exact hg y hy
  · exact hx

theorem hpush_totalize {o : Ops α} (hz : o.isNaN o.zero = false) (h : Array (Tok α)) (x : Tok α)
    (hg : GoodA o h) (hx : o.isNaN x.val = false) : hpush (totalize o) h x = hpush o h x := by
  unfold hpush
  simp only
  exact hup_totalize hz _ _ _ (goodA_push h x hg hx)

theorem goodA_hpush {o : Ops α} (h : Array (Tok α)) (x : Tok α) (hg : GoodA o h)
    (hx : o.isNaN x.val = false) : GoodA o (hpush o h x) := by
  intro y hy
  rcases (hpush_spec o h x).2 y hy with hy | rfl
  · exact hg y hy
  · exact hx

theorem hpopAll_totalize {o : Ops α} (hz : o.isNaN o.zero = false) :
    ∀ (n : Nat) (h : Array (Tok α)), h.size = n → GoodA o h →
    hpopAll (totalize o) n h = hpopAll o n h := by
  intro n
  induction n with
  | zero => intro h _ _; rfl
  | succ n ih =>
    intro h hs hg
    simp only [hpopAll, hpop_totalize hz h hg]
    congr 1
    exact ih _ (by rw [(hpop_spec o h (by omega)).2.1]; omega) (goodA_hpop h (by omega) hg)

theorem topKHeap_totalize {o : Ops α} (hz : o.isNaN o.zero = false) (k : Nat) (ts : List (Tok α))
    (hk0 : 0 < k) (hk : k ≤ ts.length) (hg : GoodL o ts) :
    topKHeap (totalize o) k ts = topKHeap o k ts := by
  unfold topKHeap
  simp only
  have g0 : GoodA o (ts.take k).toArray := by
    intro y hy
    exact hg y (List.mem_of_mem_take (by simpa using hy))
  have s0 : (hinit o (ts.take k).toArray).size = k := by
    rw [(hinit_perm o (ts.take k).toArray).size_eq]; simp; omega
  have g1 : GoodA o (hinit o (ts.take k).toArray) := by
    intro y hy
    exact g0 y ((hinit_perm o _).mem_iff.1 hy)
  rw [hinit_totalize hz _ g0]
  have loop : ∀ (rest : List (Tok α)) (h : Array (Tok α)), h.size = k → GoodA o h →
      (∀ t ∈ rest, o.isNaN t.val = false) →
      rest.foldl (fun h t => if (totalize o).lt (hget (totalize o) h 0).val t.val then
          hpush (totalize o) (hpop (totalize o) h).2 t else h) h =
        rest.foldl (fun h t => if o.lt (hget o h 0).val t.val then hpush o (hpop o h).2 t else h) h ∧
      (rest.foldl (fun h t => if o.lt (hget o h 0).val t.val then hpush o (hpop o h).2 t else h) h).size = k ∧
      GoodA o (rest.foldl (fun h t => if o.lt (hget o h 0).val t.val then hpush o (hpop o h).2 t else h) h) := by
    intro rest
    induction rest with
    | nil => intro h hs hgd _; exact ⟨rfl, hs, hgd⟩
    | cons t rest ih =>
      intro h hs hgd hr
      have ht := hr t List.mem_cons_self
      simp only [List.foldl_cons]
      have e1 : (totalize o).lt (hget (totalize o) h 0).val t.val = o.lt (hget o h 0).val t.val :=
        totalize_lt o (hget_good hz h hgd 0) ht
      rw [e1, hpop_totalize hz h hgd, hpush_totalize hz _ t (goodA_hpop h (by omega) hgd) ht]
      apply ih
      · split
        · rw [(hpush_spec o _ t).1, (hpop_spec o h (by omega)).2.1]; omega
        · exact hs
      · split
        · exact goodA_hpush _ t (goodA_hpop h (by omega) hgd) ht
        · exact hgd
      · intro y hy; exact hr y (List.mem_cons_of_mem _ hy)
  obtain ⟨e, fs, fg⟩ := loop (ts.drop k) _ s0 g1 (fun t ht => hg t (List.mem_of_mem_drop ht))
  rw [e, hpopAll_totalize hz k _ fs fg]

/-- `topK` computes the same list for `o` and for `totalize o` on a NaN-free input -/
theorem topK_totalize {o : Ops α} (hz : o.isNaN o.zero = false) (k : Int) (ts : List (Tok α))
    (hg : GoodL o ts) : topK (totalize o) k ts = topK o k ts := by
  unfold topK
  split
  · exact sortDesc_totalize o ts hg
  · rename_i hk
    exact topKHeap_totalize hz k.toNat ts (by omega) (by omega) hg

/-- `IsTopK` for the total extension is `IsTopK` for `o` itself when the input is NaN-free -/
theorem IsTopK.of_totalize {o : Ops α} {k : Int} {ts out : List (Tok α)} (hg : GoodL o ts)
    (h : IsTopK (totalize o) k ts out) : IsTopK o k ts out := by
  obtain ⟨rest, hp, hdom⟩ := h.sub
  have hout : ∀ x ∈ out, o.isNaN x.val = false := fun x hx =>
    hg x (hp.mem_iff.1 (List.mem_append_left _ hx))
  have hrest : ∀ x ∈ rest, o.isNaN x.val = false := fun x hx =>
    hg x (hp.mem_iff.1 (List.mem_append_right _ hx))
  refine ⟨h.len, ?_, rest, hp, ?_⟩
  · refine List.Pairwise.imp_of_mem ?_ h.desc
    intro a b ha hb hab
    rw [← totalize_lt o (hout a ha) (hout b hb)]; exact hab
  · intro x hx y hy
    rw [← totalize_lt o (hout y hy) (hrest x hx)]; exact hdom x hx y hy

/-- **`topK` is a correct top-k on both branches for IEEE-like carriers**: relativised laws, NaN-free
    input (the property's quantifier: finite logits and infinities) -/
theorem topK_isTopK_on {o : Ops α} (h : OrdLawsOn o) (k : Int) (ts : List (Tok α)) (hg : GoodL o ts) :
    IsTopK o k ts (topK o k ts) := by
  have := topK_isTopK_all (totalize_laws h) k ts
  rw [topK_totalize h.zero k ts hg] at this
  exact this.of_totalize hg

/-! ### the arithmetic part of the pipeline: same run for `o` and `totalize o` when no NaN is compared -/

/-- what the carrier must provide beyond `OrdLawsOn` for the weighted path -/
structure ArithLawsOn (o : Ops α) : Prop where
  posInf : o.isNaN o.posInf = false
  /-- adding a zero does not make a non-NaN sum larger -/
  addZero : ∀ s z, o.beq z o.zero = true → o.isNaN s = false → o.lt s (o.add s z) = false
  /-- NaN is absorbing for `+` on the left -/
  addNaN : ∀ s z, o.isNaN s = true → o.isNaN (o.add s z) = true

theorem fmax_totalize (o : Ops α) (a b : α) : fmax (totalize o) a b = fmax o a b := by
  unfold fmax
  cases ha : o.isNaN a with
  | true => simp [totalize, ha]
  | false =>
    cases hb : o.isNaN b with
    | true => simp [totalize, ha, hb]
    | false =>
      have : (totalize o).lt a b = o.lt a b := totalize_lt o ha hb
      have e1 : (totalize o).isNaN a = false := ha
      have e2 : (totalize o).isNaN b = false := hb
      simp only [e1, e2, ha, hb, this, Bool.false_eq_true, if_false]

theorem scaleVals_totalize (o : Ops α) (t : α) (vs : List α) :
    scaleVals (totalize o) t vs = scaleVals o t vs := by
  unfold scaleVals
  simp only
  have : fmax (totalize o) t (totalize o).tempFloor = fmax o t o.tempFloor := fmax_totalize o t o.tempFloor
  rw [this]
  rfl

theorem temperature_totalize (o : Ops α) (t : α) (L : List (Tok α)) :
    temperature (totalize o) t L = temperature o t L := by
  unfold temperature
  rw [scaleVals_totalize]

theorem softmaxVals_totalize {o : Ops α} (hneg : o.isNaN o.negInf = false) (vs : List α)
    (hv : ∀ v ∈ vs, o.isNaN v = false) : softmaxVals (totalize o) vs = softmaxVals o vs := by
  unfold softmaxVals
  have hm : ∀ (l : List α) (m : α), o.isNaN m = false → (∀ v ∈ l, o.isNaN v = false) →
      l.foldl (fun m v => if (totalize o).lt m v then v else m) m =
      l.foldl (fun m v => if o.lt m v then v else m) m := by
    intro l
    induction l with
    | nil => intro m _ _; rfl
    | cons x xs ih =>
      intro m hm hl
      have hx := hl x List.mem_cons_self
      simp only [List.foldl_cons, totalize_lt o hm hx]
      apply ih
      · split <;> assumption
      · intro y hy; exact hl y (List.mem_cons_of_mem _ hy)
  have := hm vs o.negInf hneg hv
  simp only
  have e : (totalize o).negInf = o.negInf := rfl
  rw [e, this]
  rfl

theorem softmax_totalize {o : Ops α} (hneg : o.isNaN o.negInf = false) (L : List (Tok α))
    (hv : ∀ t ∈ L, o.isNaN t.val = false) : softmax (totalize o) L = softmax o L := by
  unfold softmax
  rw [softmaxVals_totalize hneg]
  intro v hv'
  obtain ⟨t, ht, rfl⟩ := List.mem_map.1 hv'
  exact hv t ht

/-- every running sum of the `topP` scan is not NaN -/
def sumsGood (o : Ops α) : α → List (Tok α) → Bool
  | _, [] => true
  | s, t :: rest => !o.isNaN (o.add s t.val) && sumsGood o (o.add s t.val) rest

theorem topPCut_totalize (o : Ops α) (p : α) (hp : o.isNaN p = false) : ∀ (L : List (Tok α)) (s : α),
    sumsGood o s L = true → topPCut (totalize o) p s L = topPCut o p s L := by
  intro L
  induction L with
  | nil => intro s _; rfl
  | cons t rest ih =>
    intro s hs
    simp only [sumsGood, Bool.and_eq_true, Bool.not_eq_true'] at hs
    simp only [topPCut]
    have e : (totalize o).add s t.val = o.add s t.val := rfl
    rw [e, totalize_lt o hp hs.1, ih _ hs.2]

theorem topP_totalize (o : Ops α) (p : α) (hp : o.isNaN p = false) (L : List (Tok α))
    (hs : sumsGood o o.zero L = true) : topP (totalize o) p L = topP o p L := by
  unfold topP
  have e1 : (totalize o).beq p (totalize o).one = o.beq p o.one := rfl
  have e2 : (totalize o).zero = o.zero := rfl
  rw [e1, e2, topPCut_totalize o p hp L o.zero hs]

theorem minP_totalize (o : Ops α) (p : α) (L : List (Tok α))
    (hv : ∀ t ∈ L, o.isNaN t.val = false)
    (hth : ∀ t0 rest, L = t0 :: rest → o.isNaN (o.mul t0.val p) = false) :
    minP (totalize o) p L = minP o p L := by
  cases L with
  | nil => rfl
  | cons t0 rest =>
    simp only [minP]
    have hth' := hth t0 rest rfl
    have e : (totalize o).mul t0.val p = o.mul t0.val p := rfl
    rw [e]
    congr 1
    have : ∀ (l : List (Tok α)), (∀ t ∈ l, o.isNaN t.val = false) →
        l.takeWhile (fun t => !(totalize o).lt t.val (o.mul t0.val p)) =
        l.takeWhile (fun t => !o.lt t.val (o.mul t0.val p)) := by
      intro l
      induction l with
      | nil => intro _; rfl
      | cons x xs ih =>
        intro hl
        simp only [List.takeWhile_cons, totalize_lt o (hl x List.mem_cons_self) hth']
        rw [ih (fun t ht => hl t (List.mem_cons_of_mem _ ht))]
    exact this _ hv

theorem cumsum_totalize (o : Ops α) (s : α) (L : List (Tok α)) : cumsum (totalize o) s L = cumsum o s L := by
  induction L generalizing s with
  | nil => rfl
  | cons t rest ih => simp only [cumsum]; exact congrArg _ (ih _)

theorem pick_totalize (o : Ops α) (r : α) (L : List (Tok α))
    (hc : ∀ t ∈ cumsum o o.zero L, o.isNaN t.val = false)
    (hr : ∀ last, (cumsum o o.zero L).getLast? = some last → o.isNaN (o.mul r last.val) = false) :
    pick (totalize o) r L = pick o r L := by
  unfold pick
  have e0 : (totalize o).zero = o.zero := rfl
  simp only [e0, cumsum_totalize]
  cases hl : (cumsum o o.zero L).getLast? with
  | none => rfl
  | some last =>
    simp only
    have hr' := hr last hl
    have e : (totalize o).mul r last.val = o.mul r last.val := rfl
    have hb : belowAt (totalize o) (cumsum o o.zero L) (o.mul r last.val) =
        belowAt o (cumsum o o.zero L) (o.mul r last.val) := by
      funext h
      unfold belowAt
      cases hg : (cumsum o o.zero L)[h]? with
      | none => rfl
      | some t => exact totalize_lt o (hc t (List.mem_of_getElem? hg)) hr'
    rw [e, hb]
    rfl


/-- **the run guard**: no NaN is ever compared in the run on the (shifted) list `L1` — none among the
    scaled values, the probabilities, the running sums of the `topP` scan, the `minP` threshold, the
    cumulative sums and the target `r·total`, and `top_p` itself is not NaN.  Decidable; evaluated on
    every sampled run by the oracle and, independently, by the Go driver (flag `nan` of `c=`). -/
def runGood (o : Ops α) (P : Params α) (r : α) (L1 : List (Tok α)) : Bool :=
  (temperature o P.temp L1).all (fun t => !o.isNaN t.val) &&
  (probsOf o P L1).all (fun t => !o.isNaN t.val) &&
  !o.isNaN P.topP && sumsGood o o.zero (probsOf o P L1) &&
  (match topP o P.topP (probsOf o P L1) with
   | [] => true
   | t0 :: _ => !o.isNaN (o.mul t0.val P.minP)) &&
  (match minP o P.minP (topP o P.topP (probsOf o P L1)) with
   | .ok f => (cumsum o o.zero f).all (fun t => !o.isNaN t.val) &&
       (match (cumsum o o.zero f).getLast? with
        | some last => !o.isNaN (o.mul r last.val)
        | none => true)
   | .error _ => true)

theorem runGood_stages {o : Ops α} (hneg : o.isNaN o.negInf = false) (P : Params α) (r : α)
    (L1 : List (Tok α)) (hg : runGood o P r L1 = true) :
    (∀ v ∈ scaledOf o P L1, o.isNaN v = false) ∧
    (∀ t ∈ probsOf o P L1, o.isNaN t.val = false) ∧
    probsOf (totalize o) P L1 = probsOf o P L1 ∧
    topP (totalize o) P.topP (probsOf o P L1) = topP o P.topP (probsOf o P L1) ∧
    minP (totalize o) P.minP (topP o P.topP (probsOf o P L1)) = minP o P.minP (topP o P.topP (probsOf o P L1)) ∧
    (∀ f, minP o P.minP (topP o P.topP (probsOf o P L1)) = .ok f → pick (totalize o) r f = pick o r f) := by
  unfold runGood at hg
  simp only [Bool.and_eq_true, List.all_eq_true, Bool.not_eq_true'] at hg
  obtain ⟨⟨⟨⟨⟨hS, hP⟩, hp⟩, hsum⟩, hth⟩, hpk⟩ := hg
  have hS' : ∀ v ∈ scaledOf o P L1, o.isNaN v = false := by
    intro v hv
    rw [← temperature_vals] at hv
    obtain ⟨t, ht, rfl⟩ := List.mem_map.1 hv
    exact hS t ht
  have e1 : probsOf (totalize o) P L1 = probsOf o P L1 := by
    unfold probsOf
    rw [temperature_totalize, softmax_totalize hneg _ hS]
  have hfp : ∀ t ∈ topP o P.topP (probsOf o P L1), o.isNaN t.val = false := fun t ht =>
    hP t ((topP_prefix o P.topP _).subset ht)
  refine ⟨hS', hP, e1, topP_totalize o P.topP hp _ hsum, ?_, ?_⟩
  · apply minP_totalize o P.minP _ hfp
    intro t0 rest he
    rw [he] at hth
    simpa using hth
  · intro f hf
    rw [hf] at hpk
    simp only [Bool.and_eq_true, List.all_eq_true, Bool.not_eq_true'] at hpk
    apply pick_totalize o r f hpk.1
    intro last hl
    have := hpk.2
    rw [hl] at this
    simpa using this

theorem afterTopK_totalize {o : Ops α} (hneg : o.isNaN o.negInf = false) (P : Params α) (r : α)
    (L1 : List (Tok α)) (hg : runGood o P r L1 = true) :
    afterTopK (totalize o) false P r L1 = afterTopK o false P r L1 := by
  obtain ⟨_, _, e1, e2, e3, e4⟩ := runGood_stages hneg P r L1 hg
  have u : ∀ (o' : Ops α), afterTopK o' false P r L1 =
      (match minP o' P.minP (topP o' P.topP (probsOf o' P L1)) with
       | .ok f => pick o' r f
       | .error e => .error e) := by
    intro o'
    unfold afterTopK probsOf
    simp only [Bool.false_eq_true, if_false, bind, Except.bind, pure, Except.pure]
    cases minP o' P.minP (topP o' P.topP (softmax o' (temperature o' P.temp L1))) <;> rfl
  rw [u, u, e1, e2, e3]
  cases hm : minP o P.minP (topP o P.topP (probsOf o P L1)) with
  | error e => rfl
  | ok f => exact e4 f hm

theorem all_congr_mem {β : Type} (l : List β) (f g : β → Bool) (h : ∀ x ∈ l, f x = g x) :
    l.all f = l.all g := by
  induction l with
  | nil => rfl
  | cons a rest ih =>
    simp only [List.all_cons, h a List.mem_cons_self, ih (fun x hx => h x (List.mem_cons_of_mem _ hx))]

theorem isDesc_totalize (o : Ops α) : ∀ (vs : List α), (∀ v ∈ vs, o.isNaN v = false) →
    isDesc (totalize o) vs = isDesc o vs := by
  intro vs
  induction vs with
  | nil => intro _; rfl
  | cons a rest ih =>
    intro hv
    cases rest with
    | nil => rfl
    | cons b rest' =>
      simp only [isDesc]
      rw [totalize_lt o (hv a List.mem_cons_self) (hv b (List.mem_cons_of_mem _ List.mem_cons_self)),
        ih (fun v hv' => hv v (List.mem_cons_of_mem _ hv'))]

theorem guardOK_totalize {o : Ops α} (hneg : o.isNaN o.negInf = false) (hpos : o.isNaN o.posInf = false)
    (vs : List α) (hv : ∀ v ∈ vs, o.isNaN v = false) : guardOK (totalize o) vs = guardOK o vs := by
  unfold guardOK
  have e1 : vs.all (fun v => !(totalize o).isNaN v && (totalize o).lt v (totalize o).posInf) =
      vs.all (fun v => !o.isNaN v && o.lt v o.posInf) := by
    apply all_congr_mem
    intro v hv'
    have : (totalize o).lt v (totalize o).posInf = o.lt v o.posInf := totalize_lt o (hv v hv') hpos
    rw [this]; rfl
  rw [e1]
  cases vs with
  | nil => rfl
  | cons v rest =>
    have : (totalize o).lt (totalize o).negInf v = o.lt o.negInf v := totalize_lt o hneg (hv v List.mem_cons_self)
    simp only [this]

theorem scaleOK_totalize (o : Ops α) (vs ss : List α) (hs : ∀ v ∈ ss, o.isNaN v = false) :
    scaleOK (totalize o) vs ss = scaleOK o vs ss := by
  unfold scaleOK
  rw [isDesc_totalize o ss hs]
  rfl

theorem softmaxOK_totalize {o : Ops α} (hz : o.isNaN o.zero = false) (vs ps : List α)
    (hp : ∀ p ∈ ps, o.isNaN p = false) : softmaxOK (totalize o) vs ps = softmaxOK o vs ps := by
  unfold softmaxOK
  rw [isDesc_totalize o ps hp]
  have e1 : ps.all (fun p => !(totalize o).isNaN p && !(totalize o).lt p (totalize o).zero) =
      ps.all (fun p => !o.isNaN p && !o.lt p o.zero) := by
    apply all_congr_mem
    intro p hp'
    have : (totalize o).lt p (totalize o).zero = o.lt p o.zero := totalize_lt o (hp p hp') hz
    rw [this]; rfl
  rw [e1]
  cases ps with
  | nil => rfl
  | cons p rest =>
    have : (totalize o).lt (totalize o).zero p = o.lt o.zero p := totalize_lt o hz (hp p List.mem_cons_self)
    simp only [this]
    rfl

theorem totalize_addZero {o : Ops α} (ha : ArithLawsOn o) : AddZeroLaw (totalize o) := by
  intro s z hz
  show (!o.isNaN (o.add s z) && (o.isNaN s || o.lt s (o.add s z))) = false
  cases hs : o.isNaN s with
  | true => simp [ha.addNaN s z hs]
  | false =>
    cases hn : o.isNaN (o.add s z) with
    | true => simp
    | false => simp [ha.addZero s z hz hs]

/-- **everything after topK, repaired variant, for IEEE-like carriers**: relativised laws; the run
    guard `runGood` (no NaN is ever compared) joins the contracts -/
theorem afterTopK_spec_fix_on {o : Ops α} (h : OrdLawsOn o) (ha : ArithLawsOn o) (hb : BeqLawOn o)
    (P : Params α) (r : α) (L : List (Tok α)) (t : Tok α)
    (hres : afterTopK o true P r L = .ok t) :
    ∃ L1, shiftMax o L = .ok L1 ∧
    (runGood o P r L1 = true →
     guardOK o (scaledOf o P L1) = true →
     scaleOK o (L.map (·.val)) (L1.map (·.val)) = true →
     scaleOK o (L1.map (·.val)) (scaledOf o P L1) = true →
     softmaxOK o (scaledOf o P L1) (softmaxVals o (scaledOf o P L1)) = true →
     ∃ (idx : Nat) (y : Tok α) (f : List (Tok α)) (x : Tok α),
      L[idx]? = some y ∧ y.id = t.id ∧ o.beq y.val o.negInf = false ∧
      minP o P.minP (topP o P.topP (probsOf o P L1)) = .ok f ∧ f <+: probsOf o P L1 ∧
      f[idx]? = some x ∧ x.id = t.id) := by
  obtain ⟨L1, hs, h1⟩ := afterTopK_fix o P r L t hres
  refine ⟨L1, hs, ?_⟩
  intro hrg hg hsh hsc hsm
  obtain ⟨hS, hP, e1, e2, e3, _⟩ := runGood_stages h.negInf P r L1 hrg
  have hsc_eq : scaledOf (totalize o) P L1 = scaledOf o P L1 := scaleVals_totalize o _ _
  have hsm_eq : softmaxVals (totalize o) (scaledOf o P L1) = softmaxVals o (scaledOf o P L1) :=
    softmaxVals_totalize h.negInf _ hS
  have hPv : ∀ p ∈ softmaxVals o (scaledOf o P L1), o.isNaN p = false := by
    intro p hp
    have hm : (probsOf o P L1).map (·.val) = softmaxVals o (scaledOf o P L1) := by
      unfold probsOf softmax
      rw [temperature_vals]
      exact setVals_map_val _ _ (by simp [softmaxVals_length, scaleVals_length, scaledOf, temperature,
        setVals_length])
    rw [← hm] at hp
    obtain ⟨t', ht', rfl⟩ := List.mem_map.1 hp
    exact hP t' ht'
  have h1' : afterTopK (totalize o) false P r L1 = .ok t := by
    rw [afterTopK_totalize h.negInf P r L1 hrg]; exact h1
  obtain ⟨idx, y1, f, x, hy1, hy1id, hy1v, hf, hpre, hx, hxid⟩ :=
    afterTopK_spec (totalize_laws h) (totalize_addZero ha) (totalize_beqLaw hb) P r L1 t h1'
      (by rw [hsc_eq, guardOK_totalize h.negInf ha.posInf _ hS]; exact hg)
      (by rw [hsc_eq, scaleOK_totalize o _ _ hS]; exact hsc)
      (by rw [hsc_eq, hsm_eq, softmaxOK_totalize h.zero _ _ hPv]; exact hsm)
  rw [e1, e2, e3] at hf
  rw [e1] at hpre
  obtain ⟨y, hy, hyid⟩ := shiftMax_get o L L1 hs idx y1 hy1
  refine ⟨idx, y, f, x, hy, by rw [hyid, hy1id], ?_, hf, hpre, hx, hxid⟩
  unfold scaleOK at hsh
  simp only [Bool.and_eq_true] at hsh
  have ha' : (L.map (·.val))[idx]? = some y.val := by simp [hy]
  have hb' : (L1.map (·.val))[idx]? = some y1.val := by simp [hy1]
  have := zip_all_get _ _ _ idx y.val y1.val hsh.2 ha' hb'
  have hy1v' : o.beq y1.val o.negInf = false := hy1v
  rw [hy1v'] at this
  simpa using this

/-- the residual per-run guard: the normaliser, the probabilities and the kept mass are FINITE (a
    quantitative fact — a sum of at most 2³¹ numbers of `[0, 1]` — that no order law gives) -/
def massFinite (o : Ops α) (P : Params α) (L1 : List (Tok α)) : Bool :=
  let vs := scaledOf o P L1
  let m := vs.foldl (fun m v => if o.lt m v then v else m) o.negInf
  let s := (vs.map (fun v => o.exp (o.sub v m))).foldl o.add o.zero
  o.lt o.zero s && o.lt s o.posInf &&
  (probsOf o P L1).all (fun t => o.lt t.val o.posInf) &&
  (match minP o P.minP (topP o P.topP (probsOf o P L1)) with
   | .ok f => (cumsum o o.zero f).all (fun t => o.lt t.val o.posInf)
   | .error _ => true)

end OllamaVerif.Sampler
