/-
  C18 — the order laws RELATIVISED to the NaN-free part of the carrier (round 7, after review).

  `OrdLaws o` (a strict weak order on the whole carrier) cannot hold on a carrier that has a NaN:
  `0 < 1` but neither `0 < NaN` nor `NaN < 1`, so `cotrans` fails (`Properties/C18.lean`,
  `X_not_OrdLaws`).  IEEE `<` is a strict weak order on the values that are not NaN: `OrdLawsOn`.

  Transfer: `totalize o` is `o` with a comparison that puts every NaN below everything else (all
  NaN equivalent).  It satisfies the total `OrdLaws` as soon as `o` satisfies `OrdLawsOn`
  (`totalize_laws`), it agrees with `o` on non-NaN values (`totalize_lt`), and the order-only
  algorithms of the sampler — `greedy`, the stable sort, every function of the `container/heap`
  mirror, `topK` — only ever compare values of their input, so on a NaN-free input they compute
  the same result for `o` and for `totalize o` (`*_totalize`).  Every theorem proved for a total
  strict weak order therefore holds for `o` itself on NaN-free inputs.
-/
import OllamaVerif.Proofs.Sampler
namespace OllamaVerif.Sampler
variable {α : Type}

/-- `<` is a strict weak order on the values that are not NaN; `0` and `-Inf` are not NaN -/
structure OrdLawsOn (o : Ops α) : Prop where
  irrefl : ∀ a, o.isNaN a = false → o.lt a a = false
  trans : ∀ a b c, o.isNaN a = false → o.isNaN b = false → o.isNaN c = false →
    o.lt a b = true → o.lt b c = true → o.lt a c = true
  cotrans : ∀ a b c, o.isNaN a = false → o.isNaN b = false → o.isNaN c = false →
    o.lt a c = true → o.lt a b = true ∨ o.lt b c = true
  zero : o.isNaN o.zero = false
  negInf : o.isNaN o.negInf = false

/-- `a == b` only holds between non-NaN values, and then `b` is not below `a` -/
structure BeqLawOn (o : Ops α) : Prop where
  good : ∀ a b, o.beq a b = true → o.isNaN a = false ∧ o.isNaN b = false
  nlt : ∀ a b, o.beq a b = true → o.lt b a = false

/-- the same operations with a comparison that puts every NaN below everything else -/
def totalize (o : Ops α) : Ops α :=
  { o with lt := fun a b => !o.isNaN b && (o.isNaN a || o.lt a b) }

theorem totalize_lt (o : Ops α) {a b : α} (ha : o.isNaN a = false) (hb : o.isNaN b = false) :
    (totalize o).lt a b = o.lt a b := by
  simp [totalize, ha, hb]

theorem totalize_laws {o : Ops α} (h : OrdLawsOn o) : OrdLaws (totalize o) where
  irrefl := by
    intro a
    cases ha : o.isNaN a with
    | true => simp [totalize, ha]
    | false => simp [totalize, ha, h.irrefl a ha]
  trans := by
    intro a b c hab hbc
    simp only [totalize, Bool.and_eq_true, Bool.not_eq_true', Bool.or_eq_true] at hab hbc ⊢
    refine ⟨hbc.1, ?_⟩
    cases ha : o.isNaN a with
    | true => exact Or.inl rfl
    | false =>
      right
      rcases hab.2 with h1 | h1
      · rw [ha] at h1; cases h1
      · rcases hbc.2 with h2 | h2
        · rw [hab.1] at h2; cases h2
        · exact h.trans a b c ha hab.1 hbc.1 h1 h2
  cotrans := by
    intro a b c hac
    simp only [totalize, Bool.and_eq_true, Bool.not_eq_true', Bool.or_eq_true] at hac ⊢
    cases hb : o.isNaN b with
    | true => exact Or.inr ⟨hac.1, Or.inl rfl⟩
    | false =>
      cases ha : o.isNaN a with
      | true => exact Or.inl ⟨rfl, Or.inl rfl⟩
      | false =>
        rcases hac.2 with h1 | h1
        · rw [ha] at h1; cases h1
        · rcases h.cotrans a b c ha hb hac.1 h1 with h2 | h2
          · exact Or.inl ⟨rfl, Or.inr h2⟩
          · exact Or.inr ⟨hac.1, Or.inr h2⟩

theorem totalize_beqLaw {o : Ops α} (h : BeqLawOn o) : BeqLaw (totalize o) := by
  intro a b hab
  have hg := h.good a b hab
  have : (totalize o).lt b a = o.lt b a := totalize_lt o hg.2 hg.1
  rw [this]; exact h.nlt a b hab

/-- no token of the list carries a NaN -/
def GoodL (o : Ops α) (ts : List (Tok α)) : Prop := ∀ t ∈ ts, o.isNaN t.val = false

/-! ### the order-only algorithms do not see the difference on NaN-free inputs -/

theorem greedy_totalize (o : Ops α) (ts : List (Tok α)) (hg : GoodL o ts) :
    greedy (totalize o) ts = greedy o ts := by
  cases ts with
  | nil => rfl
  | cons t rest =>
    simp only [greedy]
    congr 1
    have : ∀ (l : List (Tok α)) (m : Tok α), o.isNaN m.val = false → (∀ x ∈ l, o.isNaN x.val = false) →
        l.foldl (fun m x => if (totalize o).lt m.val x.val then x else m) m =
        l.foldl (fun m x => if o.lt m.val x.val then x else m) m := by
      intro l
      induction l with
      | nil => intro m _ _; rfl
      | cons x xs ih =>
        intro m hm hl
        have hx := hl x List.mem_cons_self
        simp only [List.foldl_cons, totalize_lt o hm hx]
        apply ih
        · split <;> assumption
        · intro y hy; exact hl y (List.mem_cons_of_mem _ hy)
    exact this rest t (hg t List.mem_cons_self) (fun x hx => hg x (List.mem_cons_of_mem _ hx))

theorem sortDesc_totalize (o : Ops α) (ts : List (Tok α)) (hg : GoodL o ts) :
    sortDesc (totalize o) ts = sortDesc o ts := by
  have := List.map_mergeSort (r := descLE (totalize o)) (s := descLE o) (f := id) (l := ts)
    (by
      intro a ha b hb
      simp only [descLE, id, totalize_lt o (hg a ha) (hg b hb)])
  simpa [sortDesc] using this

/-- every token of the array is NaN-free -/
def GoodA (o : Ops α) (h : Array (Tok α)) : Prop := ∀ y ∈ h, o.isNaN y.val = false

theorem hget_good {o : Ops α} (hz : o.isNaN o.zero = false) (h : Array (Tok α)) (hg : GoodA o h) (i : Nat) :
    o.isNaN (hget o h i).val = false := by
  simp only [hget]
  cases hi : h[i]? with
  | none => simpa using hz
  | some y =>
    simp only [Option.getD_some]
    exact hg y (Array.mem_of_getElem? hi)

theorem hless_totalize {o : Ops α} (hz : o.isNaN o.zero = false) (h : Array (Tok α)) (hg : GoodA o h)
    (i j : Nat) : hless (totalize o) h i j = hless o h i j := by
  simp only [hless]
  exact totalize_lt o (hget_good hz h hg i) (hget_good hz h hg j)

theorem goodA_swap {o : Ops α} (h : Array (Tok α)) (hg : GoodA o h) (i j : Nat) :
    GoodA o (h.swapIfInBounds i j) := by
  intro y hy
  exact hg y ((swapIfInBounds_perm h i j).mem_iff.1 hy)

theorem hdown_totalize {o : Ops α} (hz : o.isNaN o.zero = false) (n : Nat) :
    ∀ (fuel : Nat) (h : Array (Tok α)) (i : Nat), GoodA o h →
    hdown (totalize o) n fuel h i = hdown o n fuel h i := by
  intro fuel
  induction fuel with
  | zero => intro h i _; rfl
  | succ fuel ih =>
    intro h i hg
    rw [hdown_succ, hdown_succ]
    have ih' : ∀ a b, hdown (totalize o) n fuel (h.swapIfInBounds a b) b =
        hdown o n fuel (h.swapIfInBounds a b) b := fun a b => ih _ _ (goodA_swap h hg a b)
    simp only [hless_totalize hz h hg, ih']

theorem hup_totalize {o : Ops α} (hz : o.isNaN o.zero = false) :
    ∀ (fuel : Nat) (h : Array (Tok α)) (j : Nat), GoodA o h →
    hup (totalize o) fuel h j = hup o fuel h j := by
  intro fuel
  induction fuel with
  | zero => intro h j _; rfl
  | succ fuel ih =>
    intro h j hg
    rw [hup_succ, hup_succ]
    have ih' : ∀ a b, hup (totalize o) fuel (h.swapIfInBounds a b) a =
        hup o fuel (h.swapIfInBounds a b) a := fun a b => ih _ _ (goodA_swap h hg a b)
    simp only [hless_totalize hz h hg, ih']

theorem goodA_hdown {o : Ops α} (n fuel : Nat) (h : Array (Tok α)) (i : Nat) (hg : GoodA o h) :
    GoodA o (hdown o n fuel h i) := by
  intro y hy
  exact hg y ((hdown_perm o n fuel h i).mem_iff.1 hy)

theorem hinit_totalize {o : Ops α} (hz : o.isNaN o.zero = false) (h : Array (Tok α)) (hg : GoodA o h) :
    hinit (totalize o) h = hinit o h := by
  unfold hinit
  simp only
  generalize (List.range (h.size / 2)).reverse = l
  generalize h.size = n
  induction l generalizing h with
  | nil => rfl
  | cons i l ih =>
    simp only [List.foldl_cons]
    rw [hdown_totalize hz n n h i hg]
    exact ih _ (goodA_hdown n n h i hg)

theorem hpop_totalize {o : Ops α} (hz : o.isNaN o.zero = false) (h : Array (Tok α)) (hg : GoodA o h) :
    hpop (totalize o) h = hpop o h := by
  unfold hpop
  simp only
  rw [hdown_totalize hz _ _ _ _ (goodA_swap h hg _ _)]
  rfl

theorem goodA_hpop {o : Ops α} (h : Array (Tok α)) (hs : 0 < h.size) (hg : GoodA o h) :
    GoodA o (hpop o h).2 := by
  intro y hy
  exact hg y ((hpop_spec o h hs).2.2 y hy)

theorem goodA_push {o : Ops α} (h : Array (Tok α)) (x : Tok α) (hg : GoodA o h)
    (hx : o.isNaN x.val = false) : GoodA o (h.push x) := by
  intro y hy
  rcases Array.mem_push.1 hy with hy | rfl
  · exact hg y hy
  · exact hx

theorem hpush_totalize {o : Ops α} (hz : o.isNaN o.zero = false) (h : Array (Tok α)) (x : Tok α)
    (hg : GoodA o h) (hx : o.isNaN x.val = false) : hpush (totalize o) h x = hpush o h x := by
  unfold hpush
  simp only
  exact hup_totalize hz _ _ _ (goodA_push h x hg hx)

theorem goodA_hpush {o : Ops α} (h : Array (Tok α)) (x : Tok α) (hg : GoodA o h)
    (hx : o.isNaN x.val = false) : GoodA o (hpush o h x) := by
  intro y hy
  rcases (hpush_spec o h x).2 y hy with hy | rfl
  · exact hg y hy
  · exact hx

theorem hpopAll_totalize {o : Ops α} (hz : o.isNaN o.zero = false) :
    ∀ (n : Nat) (h : Array (Tok α)), h.size = n → GoodA o h →
    hpopAll (totalize o) n h = hpopAll o n h := by
  intro n
  induction n with
  | zero => intro h _ _; rfl
  | succ n ih =>
    intro h hs hg
    simp only [hpopAll, hpop_totalize hz h hg]
    congr 1
    exact ih _ (by rw [(hpop_spec o h (by omega)).2.1]; omega) (goodA_hpop h (by omega) hg)

theorem topKHeap_totalize {o : Ops α} (hz : o.isNaN o.zero = false) (k : Nat) (ts : List (Tok α))
    (hk0 : 0 < k) (hk : k ≤ ts.length) (hg : GoodL o ts) :
    topKHeap (totalize o) k ts = topKHeap o k ts := by
  unfold topKHeap
  simp only
  have g0 : GoodA o (ts.take k).toArray := by
    intro y hy
    exact hg y (List.mem_of_mem_take (by simpa using hy))
  have s0 : (hinit o (ts.take k).toArray).size = k := by
    rw [(hinit_perm o (ts.take k).toArray).size_eq]; simp; omega
  have g1 : GoodA o (hinit o (ts.take k).toArray) := by
    intro y hy
    exact g0 y ((hinit_perm o _).mem_iff.1 hy)
  rw [hinit_totalize hz _ g0]
  have loop : ∀ (rest : List (Tok α)) (h : Array (Tok α)), h.size = k → GoodA o h →
      (∀ t ∈ rest, o.isNaN t.val = false) →
      rest.foldl (fun h t => if (totalize o).lt (hget (totalize o) h 0).val t.val then
          hpush (totalize o) (hpop (totalize o) h).2 t else h) h =
        rest.foldl (fun h t => if o.lt (hget o h 0).val t.val then hpush o (hpop o h).2 t else h) h ∧
      (rest.foldl (fun h t => if o.lt (hget o h 0).val t.val then hpush o (hpop o h).2 t else h) h).size = k ∧
      GoodA o (rest.foldl (fun h t => if o.lt (hget o h 0).val t.val then hpush o (hpop o h).2 t else h) h) := by
    intro rest
    induction rest with
    | nil => intro h hs hgd _; exact ⟨rfl, hs, hgd⟩
    | cons t rest ih =>
      intro h hs hgd hr
      have ht := hr t List.mem_cons_self
      simp only [List.foldl_cons]
      have e1 : (totalize o).lt (hget (totalize o) h 0).val t.val = o.lt (hget o h 0).val t.val :=
        totalize_lt o (hget_good hz h hgd 0) ht
      rw [e1, hpop_totalize hz h hgd, hpush_totalize hz _ t (goodA_hpop h (by omega) hgd) ht]
      apply ih
      · split
        · rw [(hpush_spec o _ t).1, (hpop_spec o h (by omega)).2.1]; omega
        · exact hs
      · split
        · exact goodA_hpush _ t (goodA_hpop h (by omega) hgd) ht
        · exact hgd
      · intro y hy; exact hr y (List.mem_cons_of_mem _ hy)
  obtain ⟨e, fs, fg⟩ := loop (ts.drop k) _ s0 g1 (fun t ht => hg t (List.mem_of_mem_drop ht))
  rw [e, hpopAll_totalize hz k _ fs fg]

/-- `topK` computes the same list for `o` and for `totalize o` on a NaN-free input -/
theorem topK_totalize {o : Ops α} (hz : o.isNaN o.zero = false) (k : Int) (ts : List (Tok α))
    (hg : GoodL o ts) : topK (totalize o) k ts = topK o k ts := by
  unfold topK
  split
  · exact sortDesc_totalize o ts hg
  · rename_i hk
    exact topKHeap_totalize hz k.toNat ts (by omega) (by omega) hg

/-- `IsTopK` for the total extension is `IsTopK` for `o` itself when the input is NaN-free -/
theorem IsTopK.of_totalize {o : Ops α} {k : Int} {ts out : List (Tok α)} (hg : GoodL o ts)
    (h : IsTopK (totalize o) k ts out) : IsTopK o k ts out := by
  obtain ⟨rest, hp, hdom⟩ := h.sub
  have hout : ∀ x ∈ out, o.isNaN x.val = false := fun x hx =>
    hg x (hp.mem_iff.1 (List.mem_append_left _ hx))
  have hrest : ∀ x ∈ rest, o.isNaN x.val = false := fun x hx =>
    hg x (hp.mem_iff.1 (List.mem_append_right _ hx))
  refine ⟨h.len, ?_, rest, hp, ?_⟩
  · refine List.Pairwise.imp_of_mem ?_ h.desc
    intro a b ha hb hab
    rw [← totalize_lt o (hout a ha) (hout b hb)]; exact hab
  · intro x hx y hy
    rw [← totalize_lt o (hout y hy) (hrest x hx)]; exact hdom x hx y hy

/-- **`topK` is a correct top-k on both branches for IEEE-like carriers**: relativised laws, NaN-free
    input (the property's quantifier: finite logits and infinities) -/
theorem topK_isTopK_on {o : Ops α} (h : OrdLawsOn o) (k : Int) (ts : List (Tok α)) (hg : GoodL o ts) :
    IsTopK o k ts (topK o k ts) := by
  have := topK_isTopK_all (totalize_laws h) k ts
  rw [topK_totalize h.zero k ts hg] at this
  exact this.of_totalize hg

end OllamaVerif.Sampler
