/-
  C10 — the size of what the decoder returns, as a function of the input length.

  `Decoded.weight`: the bytes / cells the returned value retains — key bytes, string bytes, one cell per scalar and
  per collected array element, tensor names, one cell per dimension.  `decodeFrom_weight`: on success

      weight ≤ remaining input length + 24

  (24 = the `general.parameter_count` entry the decoder adds itself) for EVERY byte string, array limit, budget and
  guard set.  Together with `decode_safe_tree` (no single `make` above 16 bytes per input byte) this is the
  "never allocates memory out of proportion to the size of the input" clause for the value that outlives the call.
-/
import OllamaVerif.Model.Gguf
import OllamaVerif.Proofs.GgufSteps

namespace OllamaVerif.Gguf
open OllamaVerif

def Elem.weight : Elem → Nat
  | .scalar _ => 1
  | .str s => 1 + s.length

def elemsWeight (es : List Elem) : Nat := (es.map Elem.weight).sum

def Val.weight : Val → Nat
  | .scalar _ _ => 1
  | .str s => 1 + s.length
  | .arr _ _ none => 1
  | .arr _ _ (some es) => 1 + elemsWeight es

def kvsWeight (kvs : List (Bytes × Val)) : Nat := (kvs.map (fun p => p.1.length + p.2.weight)).sum

def TInfo.weight (t : TInfo) : Nat := 1 + t.name.length + t.shape.length

def tensorsWeight (ts : List TInfo) : Nat := (ts.map TInfo.weight).sum

/-- what the decoded value retains -/
def Decoded.weight (d : Decoded) : Nat := kvsWeight d.kvs + tensorsWeight d.tensors

/-- on success the bytes consumed cover the weight of the result -/
def Weighs {α : Type} (wt : α → Nat) (r : Rd) (x : Except Err (α × Rd)) : Prop :=
  match x with
  | .ok (a, r') => r'.rest.length + wt a ≤ r.rest.length
  | .error _ => True

theorem Weighs.bind {α β : Type} {wa : α → Nat} {wb : β → Nat} {r : Rd} {x : Except Err (α × Rd)}
    {f : α × Rd → Except Err (β × Rd)} (hx : Weighs wa r x)
    (hf : ∀ a r', r'.rest.length + wa a ≤ r.rest.length → Weighs wb r (f (a, r'))) : Weighs wb r (x >>= f) := by
  cases x with
  | error e => trivial
  | ok p => obtain ⟨a, r'⟩ := p; exact hf a r' hx

theorem Weighs.of_consumes {α : Type} {k : Nat} {r : Rd} {x : Except Err (α × Rd)} (h : Consumes k r x) :
    Weighs (fun _ => k) r x := by
  cases x with
  | error e => trivial
  | ok p => obtain ⟨a, r'⟩ := p; exact h

theorem readN_weighs (k : Nat) (r : Rd) : Weighs (fun s => s.length) r (readN k r) := by
  unfold readN; split
  · simp only [Weighs, List.length_drop, List.length_take]; omega
  · split <;> trivial

theorem readNCopy_weighs (k : Nat) (r : Rd) : Weighs (fun s => s.length) r (readNCopy k r) := by
  unfold readNCopy; split
  · simp only [Weighs, List.length_drop, List.length_take]; omega
  · trivial

theorem readStrV1_weighs (c : Cfg) (r : Rd) : Weighs (fun s => 8 + s.length) r (readStrV1 c r) := by
  unfold readStrV1
  refine Weighs.bind (Weighs.of_consumes (readUint_consumes c.be 8 r)) ?_
  intro n r' h
  simp only []
  split
  · split <;> trivial
  · have := readNCopy_weighs (toI64 n).toNat r'
    simp only [bind, Except.bind]
    cases hq : readNCopy (toI64 n).toNat r' with
    | error e => trivial
    | ok q =>
      obtain ⟨bs, r''⟩ := q
      rw [hq] at this
      simp only [Weighs, pure, Except.pure, List.length_take] at this ⊢
      omega

theorem readStrV23_weighs (c : Cfg) (r : Rd) : Weighs (fun s => 8 + s.length) r (readStrV23 c r) := by
  unfold readStrV23
  refine Weighs.bind (Weighs.of_consumes (readUint_consumes c.be 8 r)) ?_
  intro n r' h
  simp only []
  split
  · split
    · trivial
    · simp only [bind, Except.bind]
      cases checkAlloc c "string" (toI64 n).toNat with
      | error e => trivial
      | ok u =>
        have := readNCopy_weighs (toI64 n).toNat r'
        cases hq : readNCopy (toI64 n).toNat r' with
        | error e => trivial
        | ok q =>
          obtain ⟨bs, r''⟩ := q
          rw [hq] at this
          simp only [Weighs] at this ⊢
          omega
  · split
    · split <;> trivial
    · have := readN_weighs (toI64 n).toNat r'
      cases hq : readN (toI64 n).toNat r' with
      | error e => trivial
      | ok q =>
        obtain ⟨bs, r''⟩ := q
        rw [hq] at this
        simp only [Weighs] at this ⊢
        omega

theorem readStr_weighs (c : Cfg) (r : Rd) : Weighs (fun s => 8 + s.length) r (readStr c r) := by
  unfold readStr; split
  · exact readStrV1_weighs c r
  · exact readStrV23_weighs c r

theorem readElem_weighs (c : Cfg) (t : Nat) (collect : Bool) (r : Rd) : Weighs Elem.weight r (readElem c t collect r) := by
  unfold readElem
  split
  · rename_i w hw
    have hw1 := scalarWidth_pos t w hw
    refine Weighs.bind (Weighs.of_consumes (readScalar_consumes c t w r)) ?_
    intro a r' h
    simp only [Weighs, pure, Except.pure, Elem.weight]; omega
  · split
    · split
      · refine Weighs.bind (readStrV1_weighs c r) ?_
        intro a r' h
        simp only [Weighs, pure, Except.pure, Elem.weight]; omega
      · split
        · refine Weighs.bind (readStrV23_weighs c r) ?_
          intro a r' h
          simp only [Weighs, pure, Except.pure, Elem.weight]; omega
        · refine Weighs.bind (Weighs.of_consumes (discardStr_consumes c r)) ?_
          intro a r' h
          simp only [Weighs, pure, Except.pure, Elem.weight, List.length_nil]; omega
    · trivial

theorem readElems_weighs (c : Cfg) (t : Nat) (collect : Bool) :
    ∀ (n : Nat) (r : Rd), Weighs elemsWeight r (readElems c t collect n r) := by
  intro n
  induction n with
  | zero => intro r; simp [readElems, Weighs, elemsWeight]
  | succ n ih =>
    intro r
    unfold readElems
    refine Weighs.bind (readElem_weighs c t collect r) ?_
    intro e r1 h1
    simp only []
    split
    · trivial
    · have := ih r1
      simp only [bind, Except.bind]
      cases hq : readElems c t collect n r1 with
      | error e => trivial
      | ok q =>
        obtain ⟨es, r2⟩ := q
        rw [hq] at this
        simp only [Weighs, pure, Except.pure, elemsWeight, List.map_cons, List.sum_cons] at this ⊢
        omega

theorem readArr_weighs (c : Cfg) (r : Rd) : Weighs Val.weight r (readArr c r) := by
  unfold readArr
  refine Weighs.bind (Weighs.of_consumes (readUint_consumes c.be 4 r)) ?_
  intro t r1 h1
  simp only []
  refine Weighs.bind (wa := fun _ => 8) ?_ ?_
  · have := readUint_consumes c.be (if c.version = 1 then 4 else 8) r1
    cases hq : readUint c.be (if c.version = 1 then 4 else 8) r1 with
    | error e => trivial
    | ok q =>
      obtain ⟨n, r2⟩ := q
      rw [hq] at this
      simp only [Consumes, Weighs] at this ⊢
      split at this <;> omega
  · intro n r2 h2
    simp only []
    split
    · split <;> trivial
    · have hes := readElems_weighs c t (c.maxArray < 0 || toI64 n ≤ c.maxArray) n r2
      have key : Weighs Val.weight r
          (readElems c t (c.maxArray < 0 || toI64 n ≤ c.maxArray) n r2 >>= fun p =>
            pure (Val.arr t (toI64 n) (if (c.maxArray < 0 || toI64 n ≤ c.maxArray) = true then some p.1 else none), p.2)) := by
        cases hq : readElems c t (c.maxArray < 0 || toI64 n ≤ c.maxArray) n r2 with
        | error e => trivial
        | ok q =>
          obtain ⟨es, r3⟩ := q
          rw [hq] at hes
          simp only [Weighs, bind, Except.bind, pure, Except.pure] at hes ⊢
          split
          · simp only [Val.weight]; omega
          · simp only [Val.weight]; omega
      by_cases hc : ((decide (c.maxArray < 0) || decide (toI64 n ≤ c.maxArray)) = true ∧ ¬c.g.arrHuge = true)
      · simp only [if_pos hc, bind, Except.bind]
        cases checkAlloc c "array" (16 * (toI64 n).toNat) with
        | error e => trivial
        | ok u => exact key
      · simp only [if_neg hc]
        exact key

theorem readValue_weighs (c : Cfg) (t : Nat) (r : Rd) : Weighs Val.weight r (readValue c t r) := by
  unfold readValue
  split
  · rename_i w hw
    have hw1 := scalarWidth_pos t w hw
    refine Weighs.bind (Weighs.of_consumes (readScalar_consumes c t w r)) ?_
    intro a r' h
    simp only [Weighs, pure, Except.pure, Val.weight]; omega
  · split
    · refine Weighs.bind (readStr_weighs c r) ?_
      intro a r' h
      simp only [Weighs, pure, Except.pure, Val.weight]; omega
    · split
      · exact readArr_weighs c r
      · trivial

theorem sum_filter_le {α : Type} (f : α → Nat) (p : α → Bool) (l : List α) :
    ((l.filter p).map f).sum ≤ (l.map f).sum := by
  induction l with
  | nil => simp
  | cons x xs ih =>
    simp only [List.filter_cons]
    split
    · simp only [List.map_cons, List.sum_cons]; omega
    · simp only [List.map_cons, List.sum_cons]; omega

theorem kvsWeight_insert (kvs : List (Bytes × Val)) (k : Bytes) (v : Val) :
    kvsWeight (kvInsert kvs k v) ≤ kvsWeight kvs + k.length + v.weight := by
  unfold kvsWeight kvInsert
  have := sum_filter_le (fun p : Bytes × Val => p.1.length + p.2.weight) (fun p => decide (p.1 ≠ k)) kvs
  simp only [List.map_append, List.sum_append, List.map_cons, List.map_nil, List.sum_cons, List.sum_nil]
  omega

theorem readKVs_weighs (c : Cfg) : ∀ (n : Nat) (acc : List (Bytes × Val)) (r : Rd),
    match readKVs c n acc r with
    | .ok (kvs, r') => r'.rest.length + kvsWeight kvs ≤ r.rest.length + kvsWeight acc
    | .error _ => True := by
  intro n
  induction n with
  | zero => intro acc r; simp [readKVs]
  | succ n ih =>
    intro acc r
    unfold readKVs
    simp only [bind, Except.bind]
    have h1 := readStr_weighs c r
    cases hs : readStr c r with
    | error e => trivial
    | ok p =>
      obtain ⟨k, r1⟩ := p
      rw [hs] at h1; simp only [Weighs] at h1
      simp only []
      have h2 := readUint_consumes c.be 4 r1
      cases hu : readUint c.be 4 r1 with
      | error e => trivial
      | ok q =>
        obtain ⟨t, r2⟩ := q
        rw [hu] at h2; simp only [Consumes] at h2
        simp only []
        have h3 := readValue_weighs c t r2
        cases hv : readValue c t r2 with
        | error e => trivial
        | ok z =>
          obtain ⟨v, r3⟩ := z
          rw [hv] at h3; simp only [Weighs] at h3
          simp only []
          have hrec := ih (kvInsert acc k v) r3
          have hins := kvsWeight_insert acc k v
          cases hy : readKVs c n (kvInsert acc k v) r3 with
          | error e => trivial
          | ok w =>
            obtain ⟨kvs, r4⟩ := w
            rw [hy] at hrec
            simp only [] at hrec ⊢
            omega

theorem readShape_weighs (c : Cfg) : ∀ (n : Nat) (r : Rd), Weighs (fun l => l.length) r (readShape c n r) := by
  intro n
  induction n with
  | zero => intro r; simp [readShape, Weighs]
  | succ n ih =>
    intro r
    unfold readShape
    refine Weighs.bind (Weighs.of_consumes (readUint_consumes c.be 8 r)) ?_
    intro d r1 h1
    have := ih r1
    simp only [bind, Except.bind]
    cases hq : readShape c n r1 with
    | error e => trivial
    | ok q =>
      obtain ⟨ds, r2⟩ := q
      rw [hq] at this
      simp only [Weighs, pure, Except.pure, List.length_cons] at this ⊢
      omega

theorem readTensor_weighs (c : Cfg) (r : Rd) : Weighs TInfo.weight r (readTensor c r) := by
  unfold readTensor
  simp only [bind, Except.bind]
  have h1 := readStr_weighs c r
  cases hs : readStr c r with
  | error e => trivial
  | ok p =>
    obtain ⟨name, r1⟩ := p
    rw [hs] at h1; simp only [Weighs] at h1
    simp only []
    have h2 := readUint_consumes c.be 4 r1
    cases hu : readUint c.be 4 r1 with
    | error e => trivial
    | ok q =>
      obtain ⟨dims, r2⟩ := q
      rw [hu] at h2; simp only [Consumes] at h2
      simp only []
      by_cases hd : (c.g.dimsHuge = true ∧ 8 * dims > r2.rest.length)
      · simp only [if_pos hd]; split <;> trivial
      · simp only [if_neg hd]
        cases checkAlloc c "shape" (8 * dims) with
        | error e => trivial
        | ok u =>
          simp only []
          have h3 := readShape_weighs c dims r2
          cases hq : readShape c dims r2 with
          | error e => trivial
          | ok q =>
            obtain ⟨shape, r3⟩ := q
            rw [hq] at h3; simp only [Weighs] at h3
            simp only []
            have h4 := readUint_consumes c.be 4 r3
            cases hk : readUint c.be 4 r3 with
            | error e => trivial
            | ok y =>
              obtain ⟨kind, r4⟩ := y
              rw [hk] at h4; simp only [Consumes] at h4
              simp only []
              have h5 := readUint_consumes c.be 8 r4
              cases ho : readUint c.be 8 r4 with
              | error e => trivial
              | ok x =>
                obtain ⟨off, r5⟩ := x
                rw [ho] at h5; simp only [Consumes] at h5
                simp only [Weighs, pure, Except.pure, TInfo.weight]
                omega

theorem readTensors_weighs (c : Cfg) : ∀ (n : Nat) (r : Rd), Weighs tensorsWeight r (readTensors c n r) := by
  intro n
  induction n with
  | zero => intro r; simp [readTensors, Weighs, tensorsWeight]
  | succ n ih =>
    intro r
    unfold readTensors
    refine Weighs.bind (readTensor_weighs c r) ?_
    intro t r1 h1
    have := ih r1
    simp only [bind, Except.bind]
    cases hq : readTensors c n r1 with
    | error e => trivial
    | ok q =>
      obtain ⟨ts, r2⟩ := q
      rw [hq] at this
      simp only [Weighs, pure, Except.pure, tensorsWeight, List.map_cons, List.sum_cons] at this ⊢
      omega

theorem keyParamCount_length : keyParamCount.length = 23 := by decide

theorem decodeBody_weight (c : Cfg) (numKV numTensor : Nat) (r : Rd) (d : Decoded)
    (h : decodeBody c numKV numTensor r = .ok d) : d.weight ≤ r.rest.length + 24 := by
  unfold decodeBody at h
  simp only [bind, Except.bind] at h
  have hk := readKVs_weighs c numKV [] r
  cases hx : readKVs c numKV [] r with
  | error e => rw [hx] at h; cases h
  | ok p =>
    obtain ⟨kvs, r1⟩ := p
    rw [hx] at h hk
    simp only [kvsWeight, List.map_nil, List.sum_nil] at hk
    simp only [] at h
    have ht := readTensors_weighs c numTensor r1
    cases hy : readTensors c numTensor r1 with
    | error e => rw [hy] at h; cases h
    | ok q =>
      obtain ⟨ts, r2⟩ := q
      rw [hy] at h ht
      simp only [Weighs] at ht
      simp only [] at h
      have hins := kvsWeight_insert kvs keyParamCount (.scalar 10 (sumParameters ts))
      rw [keyParamCount_length] at hins
      simp only [Val.weight] at hins
      cases ha : alignmentOf c.g (kvInsert kvs keyParamCount (.scalar 10 (sumParameters ts))) with
      | error e => rw [ha] at h; cases h
      | ok align =>
        rw [ha] at h
        simp only [] at h
        split at h
        · split at h <;> cases h
        · cases hs : seekTensors c.g align ts r2.pos with
          | error e => rw [hs] at h; cases h
          | ok endPos =>
            rw [hs] at h
            simp only [pure, Except.pure] at h
            injection h with h
            subst h
            simp only [Decoded.weight, kvsWeight] at hk ⊢
            simp only [kvsWeight] at hins
            omega

/-- **Size of the result**: a successful decode returns a value whose weight is at most the remaining input + 24,
    for every guard set, budget and array limit -/
theorem decodeFrom_weight (r : Rd) (maxArraySize : Int) (budget : Option Nat) (g : Guards) (d : Decoded)
    (h : decodeFrom r maxArraySize budget g = .ok d) : d.weight ≤ r.rest.length + 24 := by
  unfold decodeFrom at h
  simp only [bind, Except.bind] at h
  have h1 := readUint_consumes false 4 r
  cases hu : readUint false 4 r with
  | error e => rw [hu] at h; cases h
  | ok p =>
    obtain ⟨magic, r1⟩ := p
    rw [hu] at h h1; simp only [Consumes] at h1
    simp only [] at h
    split at h
    · cases h
    · have h2 := readUint_consumes (decide (magic = magicBE)) 4 r1
      cases hv : readUint (decide (magic = magicBE)) 4 r1 with
      | error e => rw [hv] at h; cases h
      | ok q =>
        obtain ⟨version, r2⟩ := q
        rw [hv] at h h2; simp only [Consumes] at h2
        simp only [] at h
        have h3 := readUintIn_consumes (decide (magic = magicBE)) (if version = 1 then 4 else 8) (2 * if version = 1 then 4 else 8) r2
        cases hw : readUintIn (decide (magic = magicBE)) (if version = 1 then 4 else 8) (2 * if version = 1 then 4 else 8) r2 with
        | error e => rw [hw] at h; cases h
        | ok z =>
          obtain ⟨numTensor, r3⟩ := z
          rw [hw] at h h3; simp only [Consumes] at h3
          simp only [] at h
          have h4 := readUint_consumes (decide (magic = magicBE)) (if version = 1 then 4 else 8) r3
          cases hy : readUint (decide (magic = magicBE)) (if version = 1 then 4 else 8) r3 with
          | error e => rw [hy] at h; cases h
          | ok y =>
            obtain ⟨numKV, r4⟩ := y
            rw [hy] at h h4; simp only [Consumes] at h4
            simp only [] at h
            have := decodeBody_weight _ numKV numTensor r4 d h
            omega

end OllamaVerif.Gguf
