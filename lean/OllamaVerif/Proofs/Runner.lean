/-
  C07 — helper lemmas about the runner prompt-cache model (Model/Runner.lean): what each
  `kvcache.Causal` operation does to the per-sequence view of the cells, the canonical view of a
  record, the slot-selection folds.  Core Lean only.
-/
import OllamaVerif.Model.Runner

namespace OllamaVerif.Runner
set_option linter.unusedSimpArgs false
set_option linter.unusedVariables false

/-! ## per-sequence view of the cells -/

/-- what a cell contributes to a sequence's view: metadata position, key-row token, key-row position -/
def Cell.key (c : Cell) : Int × Tok × Int := (c.pos, c.tok, c.dpos)

/-- the entries of sequence `s`, in location order -/
def view (cells : List Cell) (s : Nat) : List (Int × Tok × Int) :=
  (cells.filter (·.has s)).map Cell.key

/-- the view a record should have: input `k` at position `k`, key row roped to `k` -/
def canonFrom : Nat → List Tok → List (Int × Tok × Int)
  | _, [] => []
  | k, t :: ts => ((k : Int), t, (k : Int)) :: canonFrom (k + 1) ts

def canon (inputs : List Tok) : List (Int × Tok × Int) := canonFrom 0 inputs

/-- every position is a non-negative int32 below MaxInt32 -/
def PosBound (cells : List Cell) : Prop := ∀ c ∈ cells, 0 ≤ c.pos ∧ c.pos < maxI32

@[simp] theorem view_nil (s : Nat) : view [] s = [] := rfl

theorem view_cons (c : Cell) (cs : List Cell) (s : Nat) :
    view (c :: cs) s = if c.has s then c.key :: view cs s else view cs s := by
  unfold view
  by_cases h : c.has s <;> simp [List.filter_cons, h]

theorem view_append (a b : List Cell) (s : Nat) : view (a ++ b) s = view a s ++ view b s := by
  simp [view, List.filter_append]

theorem has_dropSeq (c : Cell) (s t : Nat) : (c.dropSeq s).has t = (c.has t && t != s) := by
  unfold Cell.dropSeq Cell.has
  rw [Bool.eq_iff_iff]
  simp [List.contains_iff_mem, List.mem_filter]

theorem has_dropSeq_self (c : Cell) (s : Nat) : (c.dropSeq s).has s = false := by
  simp [has_dropSeq]

theorem has_dropSeq_other (c : Cell) (s t : Nat) (h : t ≠ s) : (c.dropSeq s).has t = c.has t := by
  simp [has_dropSeq, h]

theorem not_shared_other (c : Cell) (s t : Nat) (h : t ≠ s) (hs : c.sharedBeyond s = false) :
    c.has t = false := by
  unfold Cell.sharedBeyond at hs
  unfold Cell.has
  cases hc : c.seqs.contains t with
  | false => rfl
  | true =>
    have hm : t ∈ c.seqs := List.contains_iff_mem.mp hc
    have : c.seqs.any (· != s) = true := List.any_eq_true.mpr ⟨t, hm, by simp [h]⟩
    rw [this] at hs; cases hs

@[simp] theorem key_dropSeq (c : Cell) (s : Nat) : (c.dropSeq s).key = c.key := rfl

/-! ## Causal.Remove -/

/-- Remove never changes another sequence's view — also when it returns its error half-way. -/
theorem removeGo_other (s t : Nat) (h : t ≠ s) (b e off : Int) (cells : List Cell) :
    view (removeGo s b e off cells).1 t = view cells t := by
  induction cells with
  | nil => rfl
  | cons c cs ih =>
    unfold removeGo
    by_cases h1 : c.has s
    · simp only [h1, if_true]
      by_cases h2 : b ≤ c.pos ∧ c.pos < e
      · simp only [h2, and_self, if_true, view_cons, has_dropSeq_other c s t h, key_dropSeq, ih]
      · simp only [h2, if_false]
        by_cases h3 : e ≤ c.pos
        · simp only [h3, if_true]
          cases h4 : c.sharedBeyond s with
          | true => simp
          | false =>
            have hct := not_shared_other c s t h h4
            simp only [Bool.false_eq_true, if_false, view_cons, ih]
            simp [Cell.has] at hct ⊢
            simp [hct]
        · simp only [h3, if_false, view_cons, ih]
    · simp only [h1, Bool.false_eq_true, if_false, view_cons, ih]


theorem removeGo_bound (s : Nat) (b e off : Int) (hoff : off ≤ 0) (hlow : 0 ≤ e + off)
    (cells : List Cell) (hb : PosBound cells) : PosBound (removeGo s b e off cells).1 := by
  induction cells with
  | nil => intro c hc; cases hc
  | cons c cs ih =>
    have hc := hb c (List.mem_cons_self ..)
    have hcs : PosBound cs := fun x hx => hb x (List.mem_cons_of_mem _ hx)
    have ih := ih hcs
    unfold removeGo
    by_cases h1 : c.has s
    · simp only [h1, if_true]
      by_cases h2 : b ≤ c.pos ∧ c.pos < e
      · simp only [h2, and_self, if_true]
        intro x hx
        rcases List.mem_cons.mp hx with rfl | hx
        · exact hc
        · exact ih x hx
      · simp only [h2, if_false]
        by_cases h3 : e ≤ c.pos
        · simp only [h3, if_true]
          cases h4 : c.sharedBeyond s with
          | true => simpa using hb
          | false =>
            simp only [Bool.false_eq_true, if_false]
            intro x hx
            rcases List.mem_cons.mp hx with rfl | hx
            · simp only; omega
            · exact ih x hx
        · simp only [h3, if_false]
          intro x hx
          rcases List.mem_cons.mp hx with rfl | hx
          · exact hc
          · exact ih x hx
    · simp only [h1, Bool.false_eq_true, if_false]
      intro x hx
      rcases List.mem_cons.mp hx with rfl | hx
      · exact hc
      · exact ih x hx

/-- `Remove(s, b, MaxInt32)` on bounded cells: no error, exactly the entries at positions `≥ b` go. -/
theorem removeGo_clear (s : Nat) (b : Int) (cells : List Cell) (hb : PosBound cells) :
    (removeGo s b maxI32 0 cells).2 = false ∧
    view (removeGo s b maxI32 0 cells).1 s = (view cells s).filter (fun x => decide (x.1 < b)) := by
  induction cells with
  | nil => exact ⟨rfl, rfl⟩
  | cons c cs ih =>
    have hc := hb c (List.mem_cons_self ..)
    have hcs : PosBound cs := fun x hx => hb x (List.mem_cons_of_mem _ hx)
    obtain ⟨ih1, ih2⟩ := ih hcs
    unfold removeGo
    by_cases h1 : c.has s
    · simp only [h1, if_true]
      by_cases h2 : b ≤ c.pos ∧ c.pos < maxI32
      · simp only [h2, and_self, if_true, ih1, view_cons, has_dropSeq_self, Bool.false_eq_true, if_false, ih2, h1]
        have : ¬ (c.key.1 < b) := by simp only [Cell.key]; omega
        simp [List.filter_cons, this]
      · simp only [h2, if_false]
        have h3 : ¬ maxI32 ≤ c.pos := by omega
        have h4 : c.pos < b := by omega
        simp only [h3, if_false, ih1, view_cons, h1, if_true, ih2]
        have : c.key.1 < b := by simpa [Cell.key] using h4
        simp [List.filter_cons, this]
    · simp only [h1, Bool.false_eq_true, if_false, ih1, view_cons, ih2]
      simp

/-- the effect of a shifting Remove on the entries of its own sequence (metadata only) -/
def shiftMeta (b e off : Int) (x : Int × Tok × Int) : Option (Int × Tok × Int) :=
  if b ≤ x.1 ∧ x.1 < e then none else if e ≤ x.1 then some (x.1 + off, x.2.1, x.2.2) else some x

theorem removeGo_self (s : Nat) (b e off : Int) (cells : List Cell)
    (hok : (removeGo s b e off cells).2 = false) :
    view (removeGo s b e off cells).1 s = (view cells s).filterMap (shiftMeta b e off) := by
  induction cells with
  | nil => rfl
  | cons c cs ih =>
    unfold removeGo at hok ⊢
    by_cases h1 : c.has s
    · simp only [h1, if_true] at hok ⊢
      by_cases h2 : b ≤ c.pos ∧ c.pos < e
      · simp only [h2, and_self, if_true] at hok ⊢
        simp only [view_cons, has_dropSeq_self, Bool.false_eq_true, if_false, h1, if_true, ih hok,
          List.filterMap_cons]
        have : shiftMeta b e off c.key = none := by simp [shiftMeta, Cell.key, h2]
        simp [this]
      · simp only [h2, if_false] at hok ⊢
        by_cases h3 : e ≤ c.pos
        · simp only [h3, if_true] at hok ⊢
          cases h4 : c.sharedBeyond s with
          | true => simp [h4] at hok
          | false =>
            simp only [h4, Bool.false_eq_true, if_false] at hok ⊢
            have hh : Cell.has { c with pos := c.pos + off } s = true := h1
            simp only [view_cons, hh, h1, if_true, ih hok, List.filterMap_cons]
            have : shiftMeta b e off (c.pos, c.tok, c.dpos) = some (c.pos + off, c.tok, c.dpos) := by
              simp [shiftMeta, h2, h3]
            simp [this, Cell.key]
        · simp only [h3, if_false] at hok ⊢
          simp only [view_cons, h1, if_true, ih hok, List.filterMap_cons]
          have : shiftMeta b e off c.key = some c.key := by simp [shiftMeta, Cell.key, h2, h3]
          simp [this]
    · simp only [h1, Bool.false_eq_true, if_false] at hok ⊢
      simp only [view_cons, h1, Bool.false_eq_true, if_false, ih hok]

/-- after a successful shifting Remove, the cells of `s` at or beyond `b` belong to `s` alone -/
theorem removeGo_exclusive (s : Nat) (b e off : Int) (cells : List Cell)
    (hok : (removeGo s b e off cells).2 = false) :
    ∀ c ∈ (removeGo s b e off cells).1, c.has s = true → b ≤ c.pos → c.sharedBeyond s = false := by
  induction cells with
  | nil => intro c hc; cases hc
  | cons c cs ih =>
    unfold removeGo at hok ⊢
    by_cases h1 : c.has s
    · simp only [h1, if_true] at hok ⊢
      by_cases h2 : b ≤ c.pos ∧ c.pos < e
      · simp only [h2, and_self, if_true] at hok ⊢
        intro x hx hxs hxb
        rcases List.mem_cons.mp hx with rfl | hx
        · simp [has_dropSeq_self] at hxs
        · exact ih hok x hx hxs hxb
      · simp only [h2, if_false] at hok ⊢
        by_cases h3 : e ≤ c.pos
        · simp only [h3, if_true] at hok ⊢
          cases h4 : c.sharedBeyond s with
          | true => simp [h4] at hok
          | false =>
            simp only [h4, Bool.false_eq_true, if_false] at hok ⊢
            intro x hx hxs hxb
            rcases List.mem_cons.mp hx with rfl | hx
            · exact h4
            · exact ih hok x hx hxs hxb
        · simp only [h3, if_false] at hok ⊢
          intro x hx hxs hxb
          rcases List.mem_cons.mp hx with rfl | hx
          · exfalso; omega
          · exact ih hok x hx hxs hxb
    · simp only [h1, Bool.false_eq_true, if_false] at hok ⊢
      intro x hx hxs hxb
      rcases List.mem_cons.mp hx with rfl | hx
      · simp [h1] at hxs
      · exact ih hok x hx hxs hxb

end OllamaVerif.Runner
