/-
  C07 — helper lemmas about the runner prompt-cache model (Model/Runner.lean): what each
  `kvcache.Causal` operation does to the per-sequence view of the cells, the canonical view of a
  record, the slot-selection folds.  Core Lean only.
-/
import OllamaVerif.Model.Runner

namespace OllamaVerif.Runner
set_option linter.unusedSimpArgs false
set_option linter.unusedVariables false

/-! ## per-sequence view of the cells -/

/-- what a cell contributes to a sequence's view: metadata position, key-row token, key-row position -/
def Cell.key (c : Cell) : Int × Tok × Int := (c.pos, c.tok, c.dpos)

/-- the entries of sequence `s`, in location order -/
def view (cells : List Cell) (s : Nat) : List (Int × Tok × Int) :=
  (cells.filter (·.has s)).map Cell.key

/-- the view a record should have: input `k` at position `k`, key row roped to `k` -/
def canonFrom : Nat → List Tok → List (Int × Tok × Int)
  | _, [] => []
  | k, t :: ts => ((k : Int), t, (k : Int)) :: canonFrom (k + 1) ts

def canon (inputs : List Tok) : List (Int × Tok × Int) := canonFrom 0 inputs

/-- every position is a non-negative int32 below MaxInt32 -/
def PosBound (cells : List Cell) : Prop := ∀ c ∈ cells, 0 ≤ c.pos ∧ c.pos < maxI32

@[simp] theorem view_nil (s : Nat) : view [] s = [] := rfl

theorem view_cons (c : Cell) (cs : List Cell) (s : Nat) :
    view (c :: cs) s = if c.has s then c.key :: view cs s else view cs s := by
  unfold view
  by_cases h : c.has s <;> simp [List.filter_cons, h]

theorem view_append (a b : List Cell) (s : Nat) : view (a ++ b) s = view a s ++ view b s := by
  simp [view, List.filter_append]

theorem has_dropSeq (c : Cell) (s t : Nat) : (c.dropSeq s).has t = (c.has t && t != s) := by
  unfold Cell.dropSeq Cell.has
  rw [Bool.eq_iff_iff]
  simp [List.contains_iff_mem, List.mem_filter]

theorem has_dropSeq_self (c : Cell) (s : Nat) : (c.dropSeq s).has s = false := by
  simp [has_dropSeq]

theorem has_dropSeq_other (c : Cell) (s t : Nat) (h : t ≠ s) : (c.dropSeq s).has t = c.has t := by
  simp [has_dropSeq, h]

theorem not_shared_other (c : Cell) (s t : Nat) (h : t ≠ s) (hs : c.sharedBeyond s = false) :
    c.has t = false := by
  unfold Cell.sharedBeyond at hs
  unfold Cell.has
  cases hc : c.seqs.contains t with
  | false => rfl
  | true =>
    have hm : t ∈ c.seqs := List.contains_iff_mem.mp hc
    have : c.seqs.any (· != s) = true := List.any_eq_true.mpr ⟨t, hm, by simp [h]⟩
    rw [this] at hs; cases hs

@[simp] theorem key_dropSeq (c : Cell) (s : Nat) : (c.dropSeq s).key = c.key := rfl

/-! ## Causal.Remove -/

/-- Remove never changes another sequence's view — also when it returns its error half-way. -/
theorem removeGo_other (s t : Nat) (h : t ≠ s) (b e off : Int) (cells : List Cell) :
    view (removeGo s b e off cells).1 t = view cells t := by
  induction cells with
  | nil => rfl
  | cons c cs ih =>
    unfold removeGo
    by_cases h1 : c.has s
    · simp only [h1, if_true]
      by_cases h2 : b ≤ c.pos ∧ c.pos < e
      · simp only [h2, and_self, if_true, view_cons, has_dropSeq_other c s t h, key_dropSeq, ih]
      · simp only [h2, if_false]
        by_cases h3 : e ≤ c.pos
        · simp only [h3, if_true]
          cases h4 : c.sharedBeyond s with
          | true => simp
          | false =>
            have hct := not_shared_other c s t h h4
            simp only [Bool.false_eq_true, if_false, view_cons, ih]
            simp [Cell.has] at hct ⊢
            simp [hct]
        · simp only [h3, if_false, view_cons, ih]
    · simp only [h1, Bool.false_eq_true, if_false, view_cons, ih]


theorem removeGo_bound (s : Nat) (b e off : Int) (hoff : off ≤ 0) (hlow : 0 ≤ e + off)
    (cells : List Cell) (hb : PosBound cells) : PosBound (removeGo s b e off cells).1 := by
  induction cells with
  | nil => intro c hc; cases hc
  | cons c cs ih =>
    have hc := hb c (List.mem_cons_self ..)
    have hcs : PosBound cs := fun x hx => hb x (List.mem_cons_of_mem _ hx)
    have ih := ih hcs
    unfold removeGo
    by_cases h1 : c.has s
    · simp only [h1, if_true]
      by_cases h2 : b ≤ c.pos ∧ c.pos < e
      · simp only [h2, and_self, if_true]
        intro x hx
        rcases List.mem_cons.mp hx with rfl | hx
        · exact hc
        · exact ih x hx
      · simp only [h2, if_false]
        by_cases h3 : e ≤ c.pos
        · simp only [h3, if_true]
          cases h4 : c.sharedBeyond s with
          | true => simpa using hb
          | false =>
            simp only [Bool.false_eq_true, if_false]
            intro x hx
            rcases List.mem_cons.mp hx with rfl | hx
            · simp only; omega
            · exact ih x hx
        · simp only [h3, if_false]
          intro x hx
          rcases List.mem_cons.mp hx with rfl | hx
          · exact hc
          · exact ih x hx
    · simp only [h1, Bool.false_eq_true, if_false]
      intro x hx
      rcases List.mem_cons.mp hx with rfl | hx
      · exact hc
      · exact ih x hx

/-- `Remove(s, b, MaxInt32)` on bounded cells: no error, exactly the entries at positions `≥ b` go. -/
theorem removeGo_clear (s : Nat) (b : Int) (cells : List Cell) (hb : PosBound cells) :
    (removeGo s b maxI32 0 cells).2 = false ∧
    view (removeGo s b maxI32 0 cells).1 s = (view cells s).filter (fun x => decide (x.1 < b)) := by
  induction cells with
  | nil => exact ⟨rfl, rfl⟩
  | cons c cs ih =>
    have hc := hb c (List.mem_cons_self ..)
    have hcs : PosBound cs := fun x hx => hb x (List.mem_cons_of_mem _ hx)
    obtain ⟨ih1, ih2⟩ := ih hcs
    unfold removeGo
    by_cases h1 : c.has s
    · simp only [h1, if_true]
      by_cases h2 : b ≤ c.pos ∧ c.pos < maxI32
      · simp only [h2, and_self, if_true, ih1, view_cons, has_dropSeq_self, Bool.false_eq_true, if_false, ih2, h1]
        have : ¬ (c.key.1 < b) := by simp only [Cell.key]; omega
        simp [List.filter_cons, this]
      · simp only [h2, if_false]
        have h3 : ¬ maxI32 ≤ c.pos := by omega
        have h4 : c.pos < b := by omega
        simp only [h3, if_false, ih1, view_cons, h1, if_true, ih2]
        have : c.key.1 < b := by simpa [Cell.key] using h4
        simp [List.filter_cons, this]
    · simp only [h1, Bool.false_eq_true, if_false, ih1, view_cons, ih2]
      simp

/-- the effect of a shifting Remove on the entries of its own sequence (metadata only) -/
def shiftMeta (b e off : Int) (x : Int × Tok × Int) : Option (Int × Tok × Int) :=
  if b ≤ x.1 ∧ x.1 < e then none else if e ≤ x.1 then some (x.1 + off, x.2.1, x.2.2) else some x

theorem removeGo_self (s : Nat) (b e off : Int) (cells : List Cell)
    (hok : (removeGo s b e off cells).2 = false) :
    view (removeGo s b e off cells).1 s = (view cells s).filterMap (shiftMeta b e off) := by
  induction cells with
  | nil => rfl
  | cons c cs ih =>
    unfold removeGo at hok ⊢
    by_cases h1 : c.has s
    · simp only [h1, if_true] at hok ⊢
      by_cases h2 : b ≤ c.pos ∧ c.pos < e
      · simp only [h2, and_self, if_true] at hok ⊢
        simp only [view_cons, has_dropSeq_self, Bool.false_eq_true, if_false, h1, if_true, ih hok,
          List.filterMap_cons]
        have : shiftMeta b e off c.key = none := by simp [shiftMeta, Cell.key, h2]
        simp [this]
      · simp only [h2, if_false] at hok ⊢
        by_cases h3 : e ≤ c.pos
        · simp only [h3, if_true] at hok ⊢
          cases h4 : c.sharedBeyond s with
          | true => simp [h4] at hok
          | false =>
            simp only [h4, Bool.false_eq_true, if_false] at hok ⊢
            have hh : Cell.has { c with pos := c.pos + off } s = true := h1
            simp only [view_cons, hh, h1, if_true, ih hok, List.filterMap_cons]
            have : shiftMeta b e off (c.pos, c.tok, c.dpos) = some (c.pos + off, c.tok, c.dpos) := by
              simp [shiftMeta, h2, h3]
            simp [this, Cell.key]
        · simp only [h3, if_false] at hok ⊢
          simp only [view_cons, h1, if_true, ih hok, List.filterMap_cons]
          have : shiftMeta b e off c.key = some c.key := by simp [shiftMeta, Cell.key, h2, h3]
          simp [this]
    · simp only [h1, Bool.false_eq_true, if_false] at hok ⊢
      simp only [view_cons, h1, Bool.false_eq_true, if_false, ih hok]

/-- after a successful shifting Remove, the cells of `s` at or beyond `b` belong to `s` alone -/
theorem removeGo_exclusive (s : Nat) (b e off : Int) (cells : List Cell)
    (hok : (removeGo s b e off cells).2 = false) :
    ∀ c ∈ (removeGo s b e off cells).1, c.has s = true → b ≤ c.pos → c.sharedBeyond s = false := by
  induction cells with
  | nil => intro c hc; cases hc
  | cons c cs ih =>
    unfold removeGo at hok ⊢
    by_cases h1 : c.has s
    · simp only [h1, if_true] at hok ⊢
      by_cases h2 : b ≤ c.pos ∧ c.pos < e
      · simp only [h2, and_self, if_true] at hok ⊢
        intro x hx hxs hxb
        rcases List.mem_cons.mp hx with rfl | hx
        · simp [has_dropSeq_self] at hxs
        · exact ih hok x hx hxs hxb
      · simp only [h2, if_false] at hok ⊢
        by_cases h3 : e ≤ c.pos
        · simp only [h3, if_true] at hok ⊢
          cases h4 : c.sharedBeyond s with
          | true => simp [h4] at hok
          | false =>
            simp only [h4, Bool.false_eq_true, if_false] at hok ⊢
            intro x hx hxs hxb
            rcases List.mem_cons.mp hx with rfl | hx
            · exact h4
            · exact ih hok x hx hxs hxb
        · simp only [h3, if_false] at hok ⊢
          intro x hx hxs hxb
          rcases List.mem_cons.mp hx with rfl | hx
          · exfalso; omega
          · exact ih hok x hx hxs hxb
    · simp only [h1, Bool.false_eq_true, if_false] at hok ⊢
      intro x hx hxs hxb
      rcases List.mem_cons.mp hx with rfl | hx
      · simp [h1] at hxs
      · exact ih hok x hx hxs hxb


/-! ## Causal.shift (key rows) -/

theorem has_ropeCell (s t : Nat) (b off : Int) (c : Cell) : (ropeCell s b off c).has t = c.has t := by
  unfold ropeCell; split <;> rfl

theorem pos_ropeCell (s : Nat) (b off : Int) (c : Cell) : (ropeCell s b off c).pos = c.pos := by
  unfold ropeCell; split <;> rfl

def ropeEntry (b off : Int) (x : Int × Tok × Int) : Int × Tok × Int :=
  if b ≤ x.1 then (x.1, x.2.1, x.2.2 + off) else x

theorem rope_view_self (s : Nat) (b off : Int) (cells : List Cell) :
    view (cells.map (ropeCell s b off)) s = (view cells s).map (ropeEntry b off) := by
  induction cells with
  | nil => rfl
  | cons c cs ih =>
    simp only [List.map_cons, view_cons, has_ropeCell, ih]
    by_cases h : c.has s
    · simp only [h, if_true, List.map_cons]
      congr 1
      unfold ropeCell ropeEntry Cell.key
      by_cases hb : b ≤ c.pos <;> simp [h, hb]
    · simp [h]

theorem rope_view_other (s t : Nat) (h : t ≠ s) (b off : Int) (cells : List Cell)
    (hex : ∀ c ∈ cells, c.has s = true → b ≤ c.pos → c.sharedBeyond s = false) :
    view (cells.map (ropeCell s b off)) t = view cells t := by
  induction cells with
  | nil => rfl
  | cons c cs ih =>
    have ih := ih (fun x hx => hex x (List.mem_cons_of_mem _ hx))
    simp only [List.map_cons, view_cons, has_ropeCell, ih]
    by_cases ht : c.has t
    · simp only [ht, if_true]
      congr 1
      unfold ropeCell
      by_cases hc : (c.has s && decide (b ≤ c.pos)) = true
      · simp only [Bool.and_eq_true, decide_eq_true_eq] at hc
        have := not_shared_other c s t h (hex c (List.mem_cons_self ..) hc.1 hc.2)
        rw [this] at ht; cases ht
      · simp [hc]
    · simp [ht]

theorem rope_bound (s : Nat) (b off : Int) (cells : List Cell) (hb : PosBound cells) :
    PosBound (cells.map (ropeCell s b off)) := by
  intro c hc
  obtain ⟨x, hx, rfl⟩ := List.mem_map.mp hc
  rw [pos_ropeCell]; exact hb x hx

/-! ## Causal.CopyPrefix -/

theorem has_append_seq (c : Cell) (d t : Nat) :
    Cell.has { c with seqs := c.seqs ++ [d] } t = (c.has t || t == d) := by
  unfold Cell.has
  rw [Bool.eq_iff_iff]
  simp [List.contains_iff_mem]

theorem copyCell_has_other (src dst t : Nat) (n : Int) (c : Cell) (h : t ≠ dst) :
    (copyCell src dst n c).has t = c.has t := by
  unfold copyCell
  simp only
  split
  · rw [has_append_seq, has_dropSeq_other c dst t h]; simp [h]
  · exact has_dropSeq_other c dst t h

theorem copyCell_key (src dst : Nat) (n : Int) (c : Cell) : (copyCell src dst n c).key = c.key := by
  unfold copyCell; simp only; split <;> rfl

theorem copyCell_has_dst (src dst : Nat) (n : Int) (c : Cell) (h : src ≠ dst) :
    (copyCell src dst n c).has dst = (c.has src && decide (c.pos < n)) := by
  unfold copyCell
  simp only
  have h1 : (c.dropSeq dst).has src = c.has src := has_dropSeq_other c dst src h
  have h2 : (c.dropSeq dst).pos = c.pos := rfl
  split
  · next hc => rw [has_append_seq]; rw [h1, h2] at hc; simp [hc]
  · next hc => rw [has_dropSeq_self]; rw [h1, h2] at hc; simp at hc ⊢; exact hc

theorem copy_view_other (src dst t : Nat) (n : Int) (h : t ≠ dst) (cells : List Cell) :
    view (copyPrefix cells src dst n) t = view cells t := by
  unfold copyPrefix
  induction cells with
  | nil => rfl
  | cons c cs ih => simp only [List.map_cons, view_cons, copyCell_has_other src dst t n c h, copyCell_key, ih]

theorem copy_view_dst (src dst : Nat) (n : Int) (h : src ≠ dst) (cells : List Cell) :
    view (copyPrefix cells src dst n) dst = (view cells src).filter (fun x => decide (x.1 < n)) := by
  unfold copyPrefix
  induction cells with
  | nil => rfl
  | cons c cs ih =>
    simp only [List.map_cons, view_cons, copyCell_has_dst src dst n c h, copyCell_key, ih]
    by_cases h1 : c.has src
    · by_cases h2 : c.pos < n
      · have : c.key.1 < n := h2
        simp [h1, h2, List.filter_cons, this]
      · have : ¬ c.key.1 < n := h2
        simp [h1, h2, List.filter_cons, this]
    · simp [h1]

theorem copy_bound (src dst : Nat) (n : Int) (cells : List Cell) (hb : PosBound cells) :
    PosBound (copyPrefix cells src dst n) := by
  intro c hc
  obtain ⟨x, hx, rfl⟩ := List.mem_map.mp hc
  have : (copyCell src dst n x).pos = x.pos := by unfold copyCell; simp only; split <;> rfl
  rw [this]; exact hb x hx

/-! ## StartForward + Put -/

theorem view_free (cells : List Cell) (s : Nat) (h : ∀ c ∈ cells, c.seqs = []) : view cells s = [] := by
  induction cells with
  | nil => rfl
  | cons c cs ih =>
    have hc : c.has s = false := by simp [Cell.has, h c (List.mem_cons_self ..)]
    simp [view_cons, hc, ih (fun x hx => h x (List.mem_cons_of_mem _ hx))]

/-- storing a batch into free cells appends its entries to each sequence's view (up to order) -/
theorem store_view (cells : List Cell) (loc : Nat) (batch : List BTok) (s : Nat)
    (hfree : ∀ c ∈ (cells.drop loc).take batch.length, c.seqs = []) :
    (view (store cells loc batch) s).Perm (view cells s ++ view (batch.map BTok.cell) s) := by
  have hsplit : cells = cells.take loc ++ ((cells.drop loc).take batch.length ++ cells.drop (loc + batch.length)) := by
    rw [← List.drop_drop, List.take_append_drop, List.take_append_drop]
  have hv : view cells s = view (cells.take loc) s ++ view (cells.drop (loc + batch.length)) s := by
    conv => lhs; rw [hsplit]
    simp [view_append, view_free _ s hfree]
  unfold store
  rw [view_append, view_append, hv, List.append_assoc, List.append_assoc]
  exact List.Perm.append_left _ List.perm_append_comm

theorem store_bound (cells : List Cell) (loc : Nat) (batch : List BTok) (hb : PosBound cells)
    (hp : ∀ t ∈ batch, (t.pos : Int) < maxI32) : PosBound (store cells loc batch) := by
  intro c hc
  unfold store at hc
  rcases List.mem_append.mp hc with hc | hc
  · rcases List.mem_append.mp hc with hc | hc
    · exact hb c (List.mem_of_mem_take hc)
    · obtain ⟨t, ht, rfl⟩ := List.mem_map.mp hc
      exact ⟨Int.natCast_nonneg _, hp t ht⟩
  · exact hb c (List.mem_of_mem_drop hc)

/-! ## the canonical view -/

theorem canonFrom_append (k : Nat) (a b : List Tok) :
    canonFrom k (a ++ b) = canonFrom k a ++ canonFrom (k + a.length) b := by
  induction a generalizing k with
  | nil => simp [canonFrom]
  | cons x xs ih => simp [canonFrom, ih, Nat.add_assoc, Nat.add_comm 1]

theorem canonFrom_mem (k : Nat) (l : List Tok) :
    ∀ x ∈ canonFrom k l, (k : Int) ≤ x.1 ∧ x.1 < (k : Int) + l.length := by
  induction l generalizing k with
  | nil => intro x hx; cases hx
  | cons t ts ih =>
    intro x hx
    simp only [canonFrom, List.mem_cons] at hx
    rcases hx with rfl | hx
    · simp only [List.length_cons]; omega
    · have := ih (k + 1) x hx
      simp only [List.length_cons]; omega

theorem filter_all {α} (p : α → Bool) (l : List α) (h : ∀ x ∈ l, p x = true) : l.filter p = l :=
  List.filter_eq_self.mpr h

theorem filter_none {α} (p : α → Bool) (l : List α) (h : ∀ x ∈ l, p x = false) : l.filter p = [] := by
  apply List.filter_eq_nil_iff.mpr
  intro x hx; simp [h x hx]

/-- cutting the canonical view at position `m` is the canonical view of the first `m` inputs -/
theorem canon_filter_lt (l : List Tok) (m : Nat) :
    (canon l).filter (fun x => decide (x.1 < (m : Int))) = canon (l.take m) := by
  unfold canon
  conv => lhs; rw [← List.take_append_drop m l, canonFrom_append]
  rw [List.filter_append]
  have h1 : (canonFrom 0 (l.take m)).filter (fun x => decide (x.1 < (m : Int))) = canonFrom 0 (l.take m) := by
    apply filter_all
    intro x hx
    have := canonFrom_mem 0 _ x hx
    have hl : (l.take m).length ≤ m := List.length_take_le _ _
    simp only [decide_eq_true_eq]; omega
  have h2 : (canonFrom (0 + (l.take m).length) (l.drop m)).filter (fun x => decide (x.1 < (m : Int))) = [] := by
    by_cases hm : m ≤ l.length
    · apply filter_none
      intro x hx
      have := canonFrom_mem _ _ x hx
      have hl : (l.take m).length = m := by simp [List.length_take, hm]
      simp only [decide_eq_false_iff_not]; omega
    · have : l.drop m = [] := List.drop_eq_nil_of_le (by omega)
      simp [this, canonFrom]
  rw [h1, h2, List.append_nil]

/-- a shifting Remove + RoPE shift on one entry -/
def shiftEntry (b e off : Int) (x : Int × Tok × Int) : Option (Int × Tok × Int) :=
  if b ≤ x.1 ∧ x.1 < e then none else if e ≤ x.1 then some (x.1 + off, x.2.1, x.2.2 + off) else some x

theorem shift_low (b e off : Int) (hbe : b ≤ e) (k : Nat) (l : List Tok) (h : (k : Int) + l.length ≤ b) :
    (canonFrom k l).filterMap (shiftEntry b e off) = canonFrom k l := by
  induction l generalizing k with
  | nil => rfl
  | cons t ts ih =>
    simp only [List.length_cons] at h
    have h1 : shiftEntry b e off ((k : Int), t, (k : Int)) = some ((k : Int), t, (k : Int)) := by
      unfold shiftEntry
      have h2 : ¬ ((b ≤ (k : Int)) ∧ (k : Int) < e) := by omega
      have h3 : ¬ (e ≤ (k : Int)) := by omega
      simp [h2, h3]
    simp only [canonFrom, List.filterMap_cons, h1]
    rw [ih (k + 1) (by omega)]

theorem shift_mid (b e off : Int) (k : Nat) (l : List Tok) (h1 : b ≤ (k : Int))
    (h2 : (k : Int) + l.length ≤ e) : (canonFrom k l).filterMap (shiftEntry b e off) = [] := by
  induction l generalizing k with
  | nil => rfl
  | cons t ts ih =>
    simp only [List.length_cons] at h2
    have h3 : shiftEntry b e off ((k : Int), t, (k : Int)) = none := by
      unfold shiftEntry
      have : (b ≤ (k : Int)) ∧ (k : Int) < e := by omega
      simp [this]
    simp only [canonFrom, List.filterMap_cons, h3]
    exact ih (k + 1) (by omega) (by omega)

theorem shift_high (b e : Int) (d : Nat) (hbe : b ≤ e) (k : Nat) (l : List Tok) (h1 : e ≤ (k : Int)) (hd : d ≤ k) :
    (canonFrom k l).filterMap (shiftEntry b e (-(d : Int))) = canonFrom (k - d) l := by
  induction l generalizing k with
  | nil => rfl
  | cons t ts ih =>
    have h3 : shiftEntry b e (-(d : Int)) ((k : Int), t, (k : Int)) = some (((k - d : Nat) : Int), t, ((k - d : Nat) : Int)) := by
      unfold shiftEntry
      have h4 : ¬ ((b ≤ (k : Int)) ∧ (k : Int) < e) := by omega
      have h5 : ((k - d : Nat) : Int) = (k : Int) + -(d : Int) := by omega
      simp [h4, h1, h5]
    simp only [canonFrom, List.filterMap_cons, h3]
    rw [ih (k + 1) (by omega) (by omega)]
    have : k + 1 - d = k - d + 1 := by omega
    rw [this]

/-- a successful context shift maps the canonical view of the record to the canonical view of the
    shifted record -/
theorem canon_shift (l : List Tok) (keep d : Nat) (h : keep + d ≤ l.length) :
    (canon l).filterMap (shiftEntry (keep : Int) ((keep : Int) + d) (-(d : Int)))
      = canon (l.take keep ++ l.drop (keep + d)) := by
  unfold canon
  have hsplit : l = l.take keep ++ ((l.drop keep).take d ++ l.drop (keep + d)) := by
    rw [← List.drop_drop, List.take_append_drop, List.take_append_drop]
  have hA : (l.take keep).length = keep := by simp [List.length_take]; omega
  have hM : ((l.drop keep).take d).length = d := by simp [List.length_take, List.length_drop]; omega
  conv => lhs; rw [hsplit]
  rw [canonFrom_append, canonFrom_append, List.filterMap_append, List.filterMap_append, canonFrom_append]
  rw [shift_low _ _ _ (by omega) 0 _ (by omega)]
  rw [shift_mid _ _ _ _ _ (by omega) (by omega)]
  rw [shift_high _ _ d (by omega) _ _ (by omega) (by omega)]
  simp only [List.nil_append, hA, hM]
  congr 2
  omega


/-! ## Remove as a whole -/

theorem view_pos_bound (cells : List Cell) (s : Nat) (hb : PosBound cells) :
    ∀ x ∈ view cells s, 0 ≤ x.1 ∧ x.1 < maxI32 := by
  intro x hx
  unfold view at hx
  obtain ⟨c, hc, rfl⟩ := List.mem_map.mp hx
  exact hb c (List.mem_filter.mp hc).1

/-- the cells `Remove` leaves: those of its cell loop, RoPE-shifted only on the full success path -/
theorem remove_fst (cs : Bool) (cells : List Cell) (s : Nat) (b e : Int) :
    (remove cs cells s b e).1 = (removeGo s b e (if e = maxI32 then 0 else b - e) cells).1 ∨
    ((removeGo s b e (if e = maxI32 then 0 else b - e) cells).2 = false ∧
      (remove cs cells s b e).1 =
        (removeGo s b e (if e = maxI32 then 0 else b - e) cells).1.map (ropeCell s b (if e = maxI32 then 0 else b - e))) := by
  unfold remove
  simp only
  generalize (if e = maxI32 then (0 : Int) else b - e) = off
  generalize removeGo s b e off cells = r
  by_cases h1 : r.2 = true
  · left; simp [h1]
  · by_cases h2 : (!(r.1.any (·.has s))) = true
    · left; simp [h1, h2]
    · by_cases h3 : e = maxI32
      · left; simp [h1, h2, h3]
      · by_cases h4 : (!cs) = true
        · left; simp [h1, h2, h3, h4]
        · right; simp [h1, h2, h3, h4]

theorem remove_other (cs : Bool) (cells : List Cell) (s t : Nat) (h : t ≠ s) (b e : Int) :
    view (remove cs cells s b e).1 t = view cells t := by
  rcases remove_fst cs cells s b e with h1 | ⟨hok, h1⟩
  · rw [h1]; exact removeGo_other s t h ..
  · rw [h1, rope_view_other s t h _ _ _ (removeGo_exclusive s b e _ cells hok)]
    exact removeGo_other s t h ..

theorem remove_bound (cs : Bool) (cells : List Cell) (s : Nat) (b e : Int) (hb : PosBound cells)
    (h0 : 0 ≤ b) (hbe : e = maxI32 ∨ b ≤ e) : PosBound (remove cs cells s b e).1 := by
  have hg : PosBound (removeGo s b e (if e = maxI32 then 0 else b - e) cells).1 := by
    apply removeGo_bound _ _ _ _ _ _ _ hb <;> split <;> (try unfold maxI32 at *) <;> omega
  rcases remove_fst cs cells s b e with h1 | ⟨_, h1⟩
  · rw [h1]; exact hg
  · rw [h1]; exact rope_bound _ _ _ _ hg

/-- `Remove(s, b, MaxInt32)`: never fails on bounded cells and cuts the view at `b` -/
theorem remove_clear (cs : Bool) (cells : List Cell) (s : Nat) (b : Int) (hb : PosBound cells) :
    (remove cs cells s b maxI32).2 = none ∧
    view (remove cs cells s b maxI32).1 s = (view cells s).filter (fun x => decide (x.1 < b)) := by
  obtain ⟨h1, h2⟩ := removeGo_clear s b cells hb
  unfold remove
  simp only [if_true, h1, Bool.false_eq_true, if_false]
  split
  · exact ⟨rfl, h2⟩
  · exact ⟨rfl, h2⟩

/-- a successful shifting Remove: the own view is shifted (metadata and key rows together) -/
theorem remove_shift_self (cs : Bool) (cells : List Cell) (s : Nat) (b e : Int) (hbe : b ≤ e) (he : e ≠ maxI32)
    (hok : (remove cs cells s b e).2 = none) :
    view (remove cs cells s b e).1 s = (view cells s).filterMap (shiftEntry b e (b - e)) := by
  have hpt : ∀ x : Int × Tok × Int, (shiftMeta b e (b - e) x).map (ropeEntry b (b - e)) = shiftEntry b e (b - e) x := by
    intro x
    unfold shiftMeta shiftEntry ropeEntry
    by_cases h1 : b ≤ x.1 ∧ x.1 < e
    · simp [h1]
    · by_cases h2 : e ≤ x.1
      · have : b ≤ x.1 + (b - e) := by omega
        simp [h1, h2, this]
      · have : ¬ b ≤ x.1 := by omega
        simp [h1, h2, this]
  unfold remove at hok ⊢
  simp only [he, if_false] at hok ⊢
  generalize hr : removeGo s b e (b - e) cells = r at hok ⊢
  by_cases h1 : r.2 = true
  · simp [h1] at hok
  · have hgo' : (removeGo s b e (b - e) cells).2 = false := by rw [hr]; simpa using h1
    have hself := removeGo_self s b e (b - e) cells hgo'
    rw [hr] at hself
    by_cases h2 : (!(r.1.any (·.has s))) = true
    · have hr1 : r.2 = false := by simpa using h1
      simp only [hr1, Bool.false_eq_true, if_false, h2, if_true]
      have hnil : view r.1 s = [] := by
        unfold view
        have : r.1.filter (·.has s) = [] := by
          apply List.filter_eq_nil_iff.mpr
          intro c hc hcs
          have : r.1.any (·.has s) = true := List.any_eq_true.mpr ⟨c, hc, hcs⟩
          simp [this] at h2
        simp [this]
      rw [hnil]
      rw [hself] at hnil
      have hall := List.filterMap_eq_nil_iff.mp hnil
      symm
      apply List.filterMap_eq_nil_iff.mpr
      intro x hx
      have := hall x hx
      rw [← hpt x, this]; rfl
    · have hr1 : r.2 = false := by simpa using h1
      have hcs : cs = true := by
        cases cs with
        | true => rfl
        | false => simp [hr1, h2] at hok
      subst hcs
      simp only [hr1, if_false, h2, Bool.not_true, Bool.false_eq_true]
      rw [rope_view_self, hself, List.map_filterMap]
      congr 1
      funext x
      exact hpt x

/-! ## slot selection folds -/

theorem getSlot_eq (l : List Slot) (i : Nat) (h : i < l.length) : getSlot l i = l[i] := by
  simp [getSlot, List.getD_eq_getElem?_getD, h]

theorem ccp_le_left : ∀ (a b : List Tok), countCommonPrefix a b ≤ a.length
  | [], _ => by simp [countCommonPrefix]
  | _ :: _, [] => by simp [countCommonPrefix]
  | x :: xs, y :: ys => by
    unfold countCommonPrefix
    split
    · have := ccp_le_left xs ys; simp only [List.length_cons]; omega
    · simp

theorem ccp_le_right : ∀ (a b : List Tok), countCommonPrefix a b ≤ b.length
  | [], _ => by simp [countCommonPrefix]
  | _ :: _, [] => by simp [countCommonPrefix]
  | x :: xs, y :: ys => by
    unfold countCommonPrefix
    split
    · have := ccp_le_right xs ys; simp only [List.length_cons]; omega
    · simp

/-- the first `countCommonPrefix a b` inputs of `a` and `b` coincide -/
theorem ccp_take : ∀ (a b : List Tok) (k : Nat), k ≤ countCommonPrefix a b → a.take k = b.take k
  | [], _, k => by intro h; simp [countCommonPrefix] at h; subst h; simp
  | _ :: _, [], k => by intro h; simp [countCommonPrefix] at h; subst h; simp
  | x :: xs, y :: ys, k => by
    intro h
    unfold countCommonPrefix at h
    split at h
    · next hxy =>
      cases k with
      | zero => simp
      | succ k => simp only [List.take_succ_cons, hxy]; congr 1; exact ccp_take xs ys k (by omega)
    · have : k = 0 := by omega
      subst this; simp

theorem longestGo_spec (prompt : List Tok) (ss : List Slot) (k : Nat) (best r : Option (Nat × Nat))
    (h : longestGo prompt ss k best = r) :
    r = best ∨ ∃ j, ∃ hj : j < ss.length, r = some (k + j, countCommonPrefix ss[j].inputs prompt) ∧ ss[j].inUse = false := by
  induction ss generalizing k best with
  | nil => left; simpa [longestGo] using h.symm
  | cons s ss ih =>
    unfold longestGo at h
    have lift : ∀ b', (r = b' ∨ ∃ j, ∃ hj : j < ss.length, r = some (k + 1 + j, countCommonPrefix ss[j].inputs prompt) ∧ ss[j].inUse = false) →
        (r = b' ∨ ∃ j, ∃ hj : j < (s :: ss).length, r = some (k + j, countCommonPrefix (s :: ss)[j].inputs prompt) ∧ (s :: ss)[j].inUse = false) := by
      intro b' hh
      rcases hh with hh | ⟨j, hj, h1, h2⟩
      · exact Or.inl hh
      · refine Or.inr ⟨j + 1, by simp only [List.length_cons]; omega, ?_, ?_⟩
        · rw [h1]; simp only [List.getElem_cons_succ]; congr 2; omega
        · simpa using h2
    by_cases hu : s.inUse
    · simp only [hu, if_true] at h
      exact lift _ (ih (k + 1) best h)
    · simp only [hu, Bool.false_eq_true, if_false] at h
      have here : ∃ j, ∃ hj : j < (s :: ss).length, some (k, countCommonPrefix s.inputs prompt) = some (k + j, countCommonPrefix (s :: ss)[j].inputs prompt) ∧ (s :: ss)[j].inUse = false :=
        ⟨0, by simp, by simp, by simpa using hu⟩
      cases best with
      | none =>
        simp only at h
        rcases lift _ (ih (k + 1) _ h) with hh | hh
        · right; rw [hh]; exact here
        · exact Or.inr hh
      | some bb =>
        obtain ⟨bi, bc⟩ := bb
        simp only at h
        by_cases hgt : countCommonPrefix s.inputs prompt > bc
        · simp only [hgt, if_true] at h
          rcases lift _ (ih (k + 1) _ h) with hh | hh
          · right; rw [hh]; exact here
          · exact Or.inr hh
        · simp only [hgt, if_false] at h
          exact lift _ (ih (k + 1) _ h)

theorem bestLongestGo_spec (prompt : List Tok) (ss : List Slot) (k : Nat) (best r : Option (Nat × Nat))
    (h : bestLongestGo prompt ss k best = r) :
    r = best ∨ ∃ j, ∃ hj : j < ss.length, r = some (k + j, countCommonPrefix ss[j].inputs prompt) := by
  induction ss generalizing k best with
  | nil => left; simpa [bestLongestGo] using h.symm
  | cons s ss ih =>
    unfold bestLongestGo at h
    have lift : ∀ b', (r = b' ∨ ∃ j, ∃ hj : j < ss.length, r = some (k + 1 + j, countCommonPrefix ss[j].inputs prompt)) →
        (r = b' ∨ ∃ j, ∃ hj : j < (s :: ss).length, r = some (k + j, countCommonPrefix (s :: ss)[j].inputs prompt)) := by
      intro b' hh
      rcases hh with hh | ⟨j, hj, h1⟩
      · exact Or.inl hh
      · refine Or.inr ⟨j + 1, by simp only [List.length_cons]; omega, ?_⟩
        rw [h1]; simp only [List.getElem_cons_succ]; congr 2; omega
    have here : ∃ j, ∃ hj : j < (s :: ss).length, some (k, countCommonPrefix s.inputs prompt) = some (k + j, countCommonPrefix (s :: ss)[j].inputs prompt) :=
      ⟨0, by simp, by simp⟩
    simp only at h
    cases best with
    | none =>
      simp only at h
      rcases lift _ (ih (k + 1) _ h) with hh | hh
      · right; rw [hh]; exact here
      · exact Or.inr hh
    | some bb =>
      obtain ⟨bi, bc⟩ := bb
      simp only at h
      by_cases hgt : countCommonPrefix s.inputs prompt > bc
      · simp only [hgt, if_true] at h
        rcases lift _ (ih (k + 1) _ h) with hh | hh
        · right; rw [hh]; exact here
        · exact Or.inr hh
      · simp only [hgt, if_false] at h
        exact lift _ (ih (k + 1) _ h)

theorem oldestGo_spec (ss : List Slot) (k oldest : Nat) (best r : Option Nat)
    (h : oldestGo ss k oldest best = r) :
    r = best ∨ ∃ j, ∃ hj : j < ss.length, r = some (k + j) ∧ ss[j].inUse = false := by
  induction ss generalizing k oldest best with
  | nil => left; simpa [oldestGo] using h.symm
  | cons s ss ih =>
    unfold oldestGo at h
    have lift : ∀ b', (r = b' ∨ ∃ j, ∃ hj : j < ss.length, r = some (k + 1 + j) ∧ ss[j].inUse = false) →
        (r = b' ∨ ∃ j, ∃ hj : j < (s :: ss).length, r = some (k + j) ∧ (s :: ss)[j].inUse = false) := by
      intro b' hh
      rcases hh with hh | ⟨j, hj, h1, h2⟩
      · exact Or.inl hh
      · refine Or.inr ⟨j + 1, by simp only [List.length_cons]; omega, ?_, by simpa using h2⟩
        rw [h1]; congr 1; omega
    by_cases hc : (decide (s.lastUsed < oldest) && !s.inUse) = true
    · simp only [hc, if_true] at h
      have hu : s.inUse = false := by simp at hc; exact hc.2
      rcases lift _ (ih (k + 1) _ _ h) with hh | hh
      · right; exact ⟨0, by simp, by simpa using hh, by simpa using hu⟩
      · exact Or.inr hh
    · simp only [hc, Bool.false_eq_true, if_false] at h
      exact lift _ (ih (k + 1) _ _ h)


/-! ## batches of one sequence -/

/-- the batch processBatch assembles for one sequence: `new` at positions `start, start+1, …` -/
def mkBatch (id : Nat) : Nat → List Tok → List BTok
  | _, [] => []
  | start, t :: ts => ⟨t, start, id⟩ :: mkBatch id (start + 1) ts

theorem mkBatch_length (id start : Nat) (l : List Tok) : (mkBatch id start l).length = l.length := by
  induction l generalizing start with
  | nil => rfl
  | cons t ts ih => simp [mkBatch, ih]

theorem mkBatch_view (id start : Nat) (l : List Tok) (t : Nat) :
    view ((mkBatch id start l).map BTok.cell) t = if t = id then canonFrom start l else [] := by
  induction l generalizing start with
  | nil => simp [mkBatch, canonFrom]
  | cons x xs ih =>
    simp only [mkBatch, List.map_cons, view_cons, ih]
    by_cases h : t = id
    · subst h; simp [BTok.cell, Cell.has, Cell.key, canonFrom]
    · have : (BTok.cell ⟨x, start, id⟩).has t = false := by
        simp [BTok.cell, Cell.has]; exact h
      simp [this, h]

theorem mkBatch_pos (id start : Nat) (l : List Tok) : ∀ b ∈ mkBatch id start l, b.pos < start + l.length := by
  induction l generalizing start with
  | nil => intro b hb; cases hb
  | cons x xs ih =>
    intro b hb
    simp only [mkBatch, List.mem_cons] at hb
    rcases hb with rfl | hb
    · simp
    · have := ih (start + 1) b hb; simp only [List.length_cons]; omega

theorem shiftDiscard_le (numCtx len keep : Nat) (h : keep < numCtx) :
    keep + shiftDiscard numCtx len keep ≤ len ∨ shiftDiscard numCtx len keep = 0 := by
  unfold shiftDiscard
  simp only
  omega

end OllamaVerif.Runner
