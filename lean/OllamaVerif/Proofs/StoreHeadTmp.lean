/-
  Helper lemmas for C04 (model store): association lists, the reference scans, the `BlobStep` relation
  ("blobs change only where no readable manifest points, and what appears is correctly named") and the
  primitive effects (`Layer.Remove`, `NewLayer`, manifest write/remove).  Core Lean only.
-/
import OllamaVerif.Model.Store
namespace OllamaVerif.Store

theorem aget_adel {α β} [DecidableEq α] (l : List (α × β)) (k k' : α) :
    aget (adel l k) k' = if k' = k then none else aget l k' := by
  induction l with
  | nil => simp [adel, aget]
  | cons p t ih =>
    obtain ⟨a, b⟩ := p
    unfold adel at ih ⊢
    by_cases h : a = k
    · subst h
      simp only [List.filter, ne_eq, not_true_eq_false, decide_false]
      rw [ih]
      by_cases h2 : k' = a
      · simp [h2]
      · simp only [h2, if_false, aget]
        have : ¬ a = k' := fun e => h2 e.symm
        simp [this]
    · simp only [List.filter, ne_eq, h, not_false_eq_true, decide_true, aget]
      rw [ih]
      by_cases h2 : a = k'
      · subst h2; simp [h]
      · simp [h2]

theorem aget_aset {α β} [DecidableEq α] (l : List (α × β)) (k k' : α) (v : β) :
    aget (aset l k v) k' = if k' = k then some v else aget l k' := by
  unfold aset
  simp only [aget]
  by_cases h : k = k'
  · subst h; simp
  · have : ¬ k' = k := fun e => h e.symm
    simp [h, this, aget_adel]

theorem aget_filter_key {α β} [DecidableEq α] (l : List (α × β)) (f : α → Bool) (k : α) :
    aget (l.filter (fun p => f p.1)) k = if f k then aget l k else none := by
  induction l with
  | nil => simp [aget]
  | cons p t ih =>
    obtain ⟨a, b⟩ := p
    by_cases hf : f a = true
    · simp only [List.filter, hf, aget]
      by_cases h : a = k
      · subst h; simp [hf]
      · simp [h, ih]
    · simp only [List.filter, hf, aget]
      by_cases h : a = k
      · subst h; simp [hf, ih]
      · simp [h, ih]

theorem aget_isSome_iff_mem {α β} [DecidableEq α] (l : List (α × β)) (k : α) :
    (aget l k).isSome = true ↔ k ∈ l.map (·.1) := by
  induction l with
  | nil => simp [aget]
  | cons p t ih =>
    obtain ⟨a, b⟩ := p
    by_cases h : a = k
    · subst h; simp [aget]
    · have : ¬ k = a := fun e => h e.symm
      simp [aget, h, ih, this]

/-! ## reading -/

theorem readableAt_eq_some {st : Store} {n : Name} {m : Manifest} :
    st.readableAt n = some m ↔ st.man n = some (.readable m) := by
  unfold Store.readableAt
  split
  · rename_i m' h; rw [h]; simp
  · rename_i h
    constructor
    · intro h'; cases h'
    · intro h'; exact absurd h' (h m)

theorem mem_names_iff {st : Store} {n : Name} : n ∈ st.names ↔ (st.man n).isSome = true := by
  unfold Store.names Store.man
  exact (aget_isSome_iff_mem st.mans n).symm

theorem referenced_iff {st : Store} {d : Digest} :
    st.referenced d = true ↔ ∃ n m, st.man n = some (.readable m) ∧ ∃ l ∈ m.all, l.digest = d := by
  unfold Store.referenced
  rw [List.any_eq_true]
  constructor
  · rintro ⟨n, _, h⟩
    split at h
    · rename_i m hm
      refine ⟨n, m, readableAt_eq_some.mp hm, ?_⟩
      unfold Manifest.mentions at h
      rw [List.any_eq_true] at h
      obtain ⟨l, hl, he⟩ := h
      exact ⟨l, hl, by simpa using he⟩
    · cases h
  · rintro ⟨n, m, hm, l, hl, he⟩
    refine ⟨n, mem_names_iff.mpr (by rw [hm]; rfl), ?_⟩
    rw [readableAt_eq_some.mpr hm]
    unfold Manifest.mentions
    rw [List.any_eq_true]
    exact ⟨l, hl, by simpa using he⟩

theorem keyReferenced_iff {st : Store} {k : String} :
    st.keyReferenced k = true ↔ ∃ n m, st.man n = some (.readable m) ∧ ∃ l ∈ m.all, l.digest.key = k := by
  unfold Store.keyReferenced
  rw [List.any_eq_true]
  constructor
  · rintro ⟨n, _, h⟩
    split at h
    · rename_i m hm
      refine ⟨n, m, readableAt_eq_some.mp hm, ?_⟩
      rw [List.any_eq_true] at h
      obtain ⟨l, hl, he⟩ := h
      exact ⟨l, hl, by simpa using he⟩
    · cases h
  · rintro ⟨n, m, hm, l, hl, he⟩
    refine ⟨n, mem_names_iff.mpr (by rw [hm]; rfl), ?_⟩
    rw [readableAt_eq_some.mpr hm]
    rw [List.any_eq_true]
    exact ⟨l, hl, by simpa using he⟩

/-! ## invariants -/

def Complete (env : Env) (st : Store) (l : Layer) : Prop :=
  ∃ c, st.blob l.digest.key = some c ∧ c.length = l.size ∧ env.hash c = l.digest.hex

def NameInv (env : Env) (st : Store) : Prop :=
  ∀ n m, st.man n = some (.readable m) → ∀ l ∈ m.all, Complete env st l

def BlobsOk (env : Env) (st : Store) : Prop := ∀ k c, st.blob k = some c → env.hash c = k

def CanonM (m : Manifest) : Prop := ∀ l ∈ m.all, l.digest.form = .colon

def Canonical (st : Store) : Prop := ∀ n m, st.man n = some (.readable m) → CanonM m

theorem Canonical.referenced_of_key {st : Store} (hc : Canonical st) {d : Digest} (hd : d.form = .colon)
    (h : st.keyReferenced d.key = true) : st.referenced d = true := by
  obtain ⟨n, m, hm, l, hl, he⟩ := keyReferenced_iff.mp h
  refine referenced_iff.mpr ⟨n, m, hm, l, hl, ?_⟩
  have hf := hc n m hm l hl
  cases hld : l.digest with
  | mk f x =>
    cases d with
    | mk f' x' =>
      simp only [Digest.key, hld] at he
      simp only [hld] at hf
      simp_all

theorem keyReferenced_of_referenced {st : Store} {d : Digest} (h : st.referenced d = true) :
    st.keyReferenced d.key = true := by
  obtain ⟨n, m, hm, l, hl, he⟩ := referenced_iff.mp h
  exact keyReferenced_iff.mpr ⟨n, m, hm, l, hl, by rw [he]⟩

/-! ## the guard: nothing when F16a is repaired, colon spelling on the pinned tree -/

/-- digest `d` may meet `Layer.Remove`: any digest once F16a is repaired, only `sha256:` before -/
def GD (env : Env) (d : Digest) : Prop := env.v.fixAlias = true ∨ d.form = .colon

/-- the guard of the invariant theorems: none once F16a is repaired, `Canonical st` on the pinned tree -/
def Guard (env : Env) (st : Store) : Prop := env.v.fixAlias = true ∨ Canonical st

theorem Guard.gd {env : Env} {st : Store} (hg : Guard env st) {n : Name} {m : Manifest}
    (hm : st.man n = some (.readable m)) {l : Layer} (hl : l ∈ m.all) : GD env l.digest := by
  rcases hg with h | h
  · exact Or.inl h
  · exact Or.inr (h n m hm l hl)

theorem key_of_inUse {env : Env} {st : Store} {d : Digest} (h : env.inUse st d = true) :
    st.keyReferenced d.key = true := by
  unfold Env.inUse at h
  split at h
  · exact h
  · exact keyReferenced_of_referenced h

theorem inUse_of_referenced {env : Env} {st : Store} {d : Digest} (h : st.referenced d = true) :
    env.inUse st d = true := by
  unfold Env.inUse
  split
  · exact keyReferenced_of_referenced h
  · exact h

theorem inUse_of_key {env : Env} {st : Store} (hg : Guard env st) {d : Digest} (hd : GD env d)
    (h : st.keyReferenced d.key = true) : env.inUse st d = true := by
  unfold Env.inUse
  split
  · exact h
  · rename_i hf
    rcases hg with hg | hg
    · exact absurd hg hf
    · rcases hd with hd | hd
      · exact absurd hd hf
      · exact hg.referenced_of_key hd h

theorem recorded_key (env : Env) (d : Digest) : (env.recorded d).key = d.key := by
  unfold Env.recorded; split <;> rfl

theorem recorded_hex (env : Env) (d : Digest) : (env.recorded d).hex = d.hex := by
  unfold Env.recorded; split <;> rfl

theorem GD_recorded {env : Env} {d : Digest} (h : GD env d) : GD env (env.recorded d) := by
  unfold Env.recorded
  split
  · rename_i hf; exact Or.inl hf
  · exact h

theorem inUse_recorded {env : Env} {st : Store} {d : Digest} (h : st.referenced d = true) :
    env.inUse st (env.recorded d) = true := by
  unfold Env.inUse Env.recorded
  split
  · exact (keyReferenced_of_referenced h : st.keyReferenced d.key = true)
  · exact h

/-- blobs change only where no readable manifest points (or where nothing was), and what appears is
    correctly named; manifests do not change -/
structure BlobStep (env : Env) (st st' : Store) : Prop where
  mans : st'.mans = st.mans
  blobs : ∀ k, st'.blob k = st.blob k ∨
    ((st.keyReferenced k = false ∨ st.blob k = none) ∧ ∀ c, st'.blob k = some c → env.hash c = k)

theorem BlobStep.refl (env : Env) (st : Store) : BlobStep env st st := ⟨rfl, fun _ => Or.inl rfl⟩

theorem keyReferenced_congr {st st' : Store} (h : st'.mans = st.mans) (k : String) :
    st'.keyReferenced k = st.keyReferenced k := by
  unfold Store.keyReferenced Store.names Store.readableAt Store.man
  rw [h]

theorem referenced_congr {st st' : Store} (h : st'.mans = st.mans) (d : Digest) :
    st'.referenced d = st.referenced d := by
  unfold Store.referenced Store.names Store.readableAt Store.man
  rw [h]

theorem man_congr {st st' : Store} (h : st'.mans = st.mans) (n : Name) : st'.man n = st.man n := by
  unfold Store.man; rw [h]

theorem BlobStep.trans {env : Env} {a b c : Store} (h1 : BlobStep env a b) (h2 : BlobStep env b c) :
    BlobStep env a c := by
  refine ⟨h2.mans.trans h1.mans, fun k => ?_⟩
  rcases h1.blobs k with e1 | ⟨p1, v1⟩
  · rcases h2.blobs k with e2 | ⟨p2, v2⟩
    · exact Or.inl (e2.trans e1)
    · refine Or.inr ⟨?_, v2⟩
      rw [keyReferenced_congr h1.mans, e1] at p2
      exact p2
  · rcases h2.blobs k with e2 | ⟨_, v2⟩
    · exact Or.inr ⟨p1, fun c hc => v1 c (e2 ▸ hc)⟩
    · exact Or.inr ⟨p1, v2⟩

theorem BlobStep.blobsOk {env : Env} {st st' : Store} (h : BlobStep env st st') (hb : BlobsOk env st) :
    BlobsOk env st' := by
  intro k c hc
  rcases h.blobs k with e | ⟨_, v⟩
  · exact hb k c (e ▸ hc)
  · exact v c hc

/-- the frame half: a blob some readable manifest points to is untouched -/
theorem BlobStep.keep {env : Env} {st st' : Store} (h : BlobStep env st st') {n : Name} {m : Manifest}
    (hm : st.man n = some (.readable m)) {l : Layer} (hl : l ∈ m.all) {c : Bytes}
    (hc : st.blob l.digest.key = some c) : st'.blob l.digest.key = some c := by
  rcases h.blobs l.digest.key with e | ⟨p, _⟩
  · rw [e, hc]
  · rcases p with p | p
    · have : st.keyReferenced l.digest.key = true := keyReferenced_iff.mpr ⟨n, m, hm, l, hl, rfl⟩
      rw [this] at p; cases p
    · rw [hc] at p; cases p

theorem BlobStep.nameInv {env : Env} {st st' : Store} (h : BlobStep env st st') (hi : NameInv env st) :
    NameInv env st' := by
  intro n m hm l hl
  rw [man_congr h.mans] at hm
  obtain ⟨c, hc, hlen, hh⟩ := hi n m hm l hl
  exact ⟨c, h.keep hm hl hc, hlen, hh⟩

theorem BlobStep.canonical {env : Env} {st st' : Store} (h : BlobStep env st st') (hc : Canonical st) :
    Canonical st' := by
  intro n m hm
  rw [man_congr h.mans] at hm
  exact hc n m hm

theorem BlobStep.guard {env : Env} {st st' : Store} (h : BlobStep env st st') (hg : Guard env st) :
    Guard env st' := hg.imp id h.canonical

theorem inUse_congr {env : Env} {st st' : Store} (h : st'.mans = st.mans) (d : Digest) :
    env.inUse st' d = env.inUse st d := by
  unfold Env.inUse; rw [keyReferenced_congr h, referenced_congr h]


/-! ## primitive effects -/

theorem blob_adel (st : Store) (k k' : String) :
    (Store.blob { st with blobs := adel st.blobs k } k') = if k' = k then none else st.blob k' := by
  unfold Store.blob; exact aget_adel _ _ _

theorem layerRemove_step (env : Env) {st : Store} (hg : Guard env st) {d : Digest} (hd : GD env d) :
    BlobStep env st (layerRemove env st d) := by
  unfold layerRemove
  by_cases hr : env.inUse st d = true
  · simp only [hr, if_true]; exact BlobStep.refl env st
  · have hr' : env.inUse st d = false := by cases h : env.inUse st d <;> simp_all
    simp only [hr', Bool.false_eq_true, if_false]
    refine ⟨rfl, fun k => ?_⟩
    rw [blob_adel]
    by_cases hk : k = d.key
    · subst hk
      refine Or.inr ⟨Or.inl ?_, by simp⟩
      cases hkr : st.keyReferenced d.key with
      | false => rfl
      | true => exact absurd (inUse_of_key hg hd hkr) hr
    · simp [hk]

theorem removeLayers_step (env : Env) (ls : List Layer) {st : Store} (hg : Guard env st)
    (hd : ∀ l ∈ ls, GD env l.digest) :
    BlobStep env st (removeLayers env st ls) := by
  induction ls generalizing st with
  | nil => exact BlobStep.refl env st
  | cons l t ih =>
    unfold removeLayers
    simp only [List.foldl]
    have h1 := layerRemove_step env hg (hd l (by simp))
    have := ih (st := layerRemove env st l.digest) (h1.guard hg) (fun x hx => hd x (by simp [hx]))
    exact h1.trans this

theorem layerRemove_noop {env : Env} {st : Store} {d : Digest} (h : env.inUse st d = true) :
    layerRemove env st d = st := by
  unfold layerRemove; simp [h]

theorem removeLayers_noop {env : Env} (ls : List Layer) {st : Store} (h : ∀ l ∈ ls, env.inUse st l.digest = true) :
    removeLayers env st ls = st := by
  induction ls with
  | nil => rfl
  | cons l t ih =>
    unfold removeLayers
    simp only [List.foldl]
    rw [layerRemove_noop (h l (by simp))]
    exact ih (fun x hx => h x (by simp [hx]))

theorem blob_aset (st : Store) (k k' : String) (c : Bytes) :
    (Store.blob { st with blobs := aset st.blobs k c } k') = if k' = k then some c else st.blob k' := by
  unfold Store.blob; exact aget_aset _ _ _ _

theorem putBlob_blob (env : Env) (st : Store) (c : Bytes) (k : String) :
    (putBlob env st c).blob k = if k = env.hash c ∧ st.blob (env.hash c) = none then some c else st.blob k := by
  unfold putBlob
  split
  · rename_i x hx; simp [hx]
  · rename_i hx
    rw [blob_aset]
    by_cases hk : k = env.hash c
    · simp [hk, hx]
    · simp [hk]

theorem putBlob_mans (env : Env) (st : Store) (c : Bytes) : (putBlob env st c).mans = st.mans := by
  unfold putBlob; split <;> rfl

theorem putBlob_step (env : Env) (st : Store) (c : Bytes) : BlobStep env st (putBlob env st c) := by
  refine ⟨putBlob_mans env st c, fun k => ?_⟩
  rw [putBlob_blob]
  by_cases h : k = env.hash c ∧ st.blob (env.hash c) = none
  · obtain ⟨h1, h2⟩ := h
    subst h1
    simp only [h2, and_self, if_true]
    refine Or.inr ⟨Or.inr trivial, ?_⟩
    intro c' hc'
    injection hc' with e
    rw [← e]
  · simp [h]

/-- after `putBlob` the content's key holds something of the same hash -/
theorem putBlob_present (env : Env) (st : Store) (c : Bytes) :
    ∃ c', (putBlob env st c).blob (env.hash c) = some c' ∧ (st.blob (env.hash c) = none → c' = c) ∧
      (∀ x, st.blob (env.hash c) = some x → c' = x) := by
  rw [putBlob_blob]
  cases h : st.blob (env.hash c) with
  | none => exact ⟨c, by simp, fun _ => rfl, fun x hx => by cases hx⟩
  | some x =>
    refine ⟨x, by simp, ?_, ?_⟩
    · intro h'; cases h'
    · intro y hy; exact Option.some.inj hy

theorem setManifest_man (st : Store) (n n' : Name) (f : MFile) :
    (setManifest st n f).man n' = if n' = n then some f else st.man n' := by
  unfold setManifest Store.man; exact aget_aset _ _ _ _

theorem delManifest_man (st : Store) (n n' : Name) :
    (delManifest st n).man n' = if n' = n then none else st.man n' := by
  unfold delManifest Store.man; exact aget_adel _ _ _

theorem setManifest_blob (st : Store) (n : Name) (f : MFile) (k : String) :
    (setManifest st n f).blob k = st.blob k := rfl

theorem delManifest_blob (st : Store) (n : Name) (k : String) : (delManifest st n).blob k = st.blob k := rfl

theorem Complete.mono_blob {env : Env} {st st' : Store} {l : Layer} (h : Complete env st l)
    (hb : ∀ c, st.blob l.digest.key = some c → st'.blob l.digest.key = some c) : Complete env st' l := by
  obtain ⟨c, hc, h1, h2⟩ := h
  exact ⟨c, hb c hc, h1, h2⟩

theorem setManifest_nameInv {env : Env} {st : Store} (hi : NameInv env st) (n : Name) (f : MFile)
    (hf : ∀ m, f = .readable m → ∀ l ∈ m.all, Complete env st l) : NameInv env (setManifest st n f) := by
  intro n' m hm l hl
  rw [setManifest_man] at hm
  by_cases h : n' = n
  · simp only [h, if_true] at hm
    injection hm with e
    exact (hf m e l hl).mono_blob (fun c hc => hc)
  · simp only [h, if_false] at hm
    exact (hi n' m hm l hl).mono_blob (fun c hc => hc)

theorem setManifest_canonical {st : Store} (hc : Canonical st) (n : Name) (f : MFile)
    (hf : ∀ m, f = .readable m → CanonM m) : Canonical (setManifest st n f) := by
  intro n' m hm
  rw [setManifest_man] at hm
  by_cases h : n' = n
  · simp only [h, if_true] at hm
    injection hm with e
    exact hf m e
  · simp only [h, if_false] at hm
    exact hc n' m hm

theorem Guard.setManifest {env : Env} {st : Store} (hg : Guard env st) (n : Name) (f : MFile)
    (hf : ∀ m, f = .readable m → ∀ l ∈ m.all, GD env l.digest) : Guard env (setManifest st n f) := by
  rcases hg with h | h
  · exact Or.inl h
  · by_cases hv : env.v.fixAlias = true
    · exact Or.inl hv
    · refine Or.inr (setManifest_canonical h n f (fun m e l hl => ?_))
      rcases hf m e l hl with h' | h'
      · exact absurd h' hv
      · exact h'

theorem delManifest_nameInv {env : Env} {st : Store} (hi : NameInv env st) (n : Name) :
    NameInv env (delManifest st n) := by
  intro n' m hm l hl
  rw [delManifest_man] at hm
  by_cases h : n' = n
  · simp [h] at hm
  · simp only [h, if_false] at hm
    exact (hi n' m hm l hl).mono_blob (fun c hc => hc)

theorem delManifest_canonical {st : Store} (hc : Canonical st) (n : Name) : Canonical (delManifest st n) := by
  intro n' m hm
  rw [delManifest_man] at hm
  by_cases h : n' = n
  · simp [h] at hm
  · simp only [h, if_false] at hm
    exact hc n' m hm

theorem Guard.delManifest {env : Env} {st : Store} (hg : Guard env st) (n : Name) :
    Guard env (delManifest st n) := hg.imp id (fun h => delManifest_canonical h n)

/-! ## createModel -/

/-- `hash` has no collisions (needed only for the SIZE clause of completeness when `NewLayer` finds a file
    of the same name already present) -/
def HashInj (env : Env) : Prop := ∀ a b, env.hash a = env.hash b → a = b

theorem Complete.putBlob {env : Env} {st : Store} {l : Layer} (h : Complete env st l) (c : Bytes) :
    Complete env (putBlob env st c) l := by
  refine h.mono_blob (fun x hx => ?_)
  rw [putBlob_blob]
  by_cases hk : l.digest.key = env.hash c ∧ st.blob (env.hash c) = none
  · obtain ⟨h1, h2⟩ := hk
    rw [← h1, hx] at h2; cases h2
  · simp [hk, hx]

theorem newLayer_complete {env : Env} (hinj : HashInj env) {st : Store} (hb : BlobsOk env st) (c : Bytes)
    (media : Media) : Complete env (putBlob env st c) ⟨media, ⟨.colon, env.hash c⟩, c.length⟩ := by
  obtain ⟨c', h1, h2, h3⟩ := putBlob_present env st c
  have : c' = c := by
    cases hx : st.blob (env.hash c) with
    | none => exact h2 hx
    | some x =>
      have := h3 x hx
      subst this
      exact hinj _ _ (hb _ _ hx)
  subst this
  exact ⟨c', h1, rfl, rfl⟩


end OllamaVerif.Store
