/-
  C03 helper lemmas for the pull model (`Model/Pull.lean`).
-/
import OllamaVerif.Model.Pull

namespace OllamaVerif.Pull

theorem upd_same {β : Type} (f : Digest → β) (k : Digest) (v : β) : upd f k v k = v := by
  simp [upd]

theorem upd_other {β : Type} (f : Digest → β) (k d : Digest) (v : β) (h : d ≠ k) :
    upd f k v d = f d := by
  simp [upd, h]

theorem getSkip_setSkip (d k : Digest) (v : Bool) (sk : List (Digest × Bool)) :
    getSkip d (setSkip k v sk) = if d = k then v else getSkip d sk := by
  induction sk with
  | nil =>
    by_cases h : d = k
    · subst h; simp [setSkip, getSkip]
    · have h' : ¬ k = d := fun e => h e.symm
      simp [setSkip, getSkip, h, h']
  | cons hd t ih =>
    obtain ⟨k', w⟩ := hd
    by_cases hk : k' = k
    · subst hk
      by_cases h : d = k'
      · subst h; simp [setSkip, getSkip]
      · have h' : ¬ k' = d := fun e => h e.symm
        simp [setSkip, getSkip, h, h']
    · by_cases h : d = k
      · subst h
        have : ¬ k' = d := hk
        simp [setSkip, getSkip, hk, ih]
      · by_cases h2 : k' = d
        · subst h2; simp [setSkip, getSkip, hk]
        · simp [setSkip, getSkip, hk, h, h2, ih]

theorem lookupM_insertM (n : Name) (v : MFile) (l : List (Name × MFile)) :
    lookupM n (insertM n v l) = some v := by
  induction l with
  | nil => simp [insertM, lookupM]
  | cons hd t ih =>
    obtain ⟨k, w⟩ := hd
    by_cases h : k = n
    · simp [insertM, lookupM, h]
    · simp [insertM, lookupM, h, ih]

theorem removeBlobs_other (used : List DRef) (ks : List DRef) (b : Digest → Option Bytes) (d : Digest)
    (h : DRef.ok d ∉ ks) : removeBlobs used ks b d = b d := by
  induction ks generalizing b with
  | nil => rfl
  | cons k ks ih =>
    have hk : DRef.ok d ≠ k := fun e => h (by simp [e])
    have ht : DRef.ok d ∉ ks := fun e => h (by simp [e])
    cases k with
    | empty => simpa [removeBlobs] using ih b ht
    | bad => simpa [removeBlobs] using ih b ht
    | ok x =>
      have hx : d ≠ x := fun e => hk (by rw [e])
      simp only [removeBlobs]
      split
      · exact ih b ht
      · rw [ih _ ht, upd_other _ _ _ _ hx]

/-! ## one iteration of the download loop -/

/-- `Step s s1 d`: `s1` is the state after the loop body handled a layer with digest `d` successfully -/
def Step (s s1 : DlState) (d : Digest) : Prop :=
  (∃ c0, s.st.blobs d = some c0 ∧ s1 = { s with skip := setSkip d true s.skip }) ∨
  (s.st.blobs d = none ∧ ∃ c pa net', s1 =
    { st := { s.st with blobs := upd s.st.blobs d (some c), partials := upd s.st.partials d pa },
      net := net', skip := setSkip d false s.skip, renamed := s.renamed ++ [d] })

/-- what the loop does with its first layer: it either stops there (not `ok`; only the partial
    state and the counters change) or takes a `Step` and continues -/
theorem dlLoop_cons {cfg : Cfg} {reg : Registry} {sc : Scripts} {l : Layer} {ls : List Layer}
    {s s' : DlState} {o : Outcome} (h : dlLoop cfg reg sc (l :: ls) s = (o, s')) :
    (o ≠ .ok () ∧ s'.st.blobs = s.st.blobs ∧ s'.st.manifests = s.st.manifests ∧
      s'.skip = s.skip ∧ s'.renamed = s.renamed) ∨
    (∃ d s1, l.digest = .ok d ∧ Step s s1 d ∧ dlLoop cfg reg sc ls s1 = (o, s')) := by
  unfold dlLoop at h
  split at h
  · left; cases h; simp
  · left; cases h; simp
  · rename_i d hd
    split at h
    · rename_i c0 hc0
      right; exact ⟨d, _, hd, Or.inl ⟨c0, hc0, rfl⟩, h⟩
    · rename_i hnone
      split at h
      · rename_i c pa net' _
        right; exact ⟨d, _, hd, Or.inr ⟨hnone, c, pa, net', rfl⟩, h⟩
      · left; cases h; simp
      · left; cases h; simp

theorem Step.manifests {s s1 : DlState} {d : Digest} (h : Step s s1 d) :
    s1.st.manifests = s.st.manifests := by
  rcases h with ⟨_, _, rfl⟩ | ⟨_, _, _, _, rfl⟩ <;> rfl

theorem Step.other {s s1 : DlState} {d x : Digest} (h : Step s s1 d) (hx : x ≠ d) :
    s1.st.blobs x = s.st.blobs x ∧ getSkip x s1.skip = getSkip x s.skip := by
  rcases h with ⟨_, _, rfl⟩ | ⟨_, _, _, _, rfl⟩
  · simp [getSkip_setSkip, hx]
  · simp [getSkip_setSkip, hx, upd_other]

theorem Step.keeps {s s1 : DlState} {d x : Digest} {c : Bytes} (h : Step s s1 d)
    (hc : s.st.blobs x = some c) : s1.st.blobs x = some c := by
  by_cases hx : x = d
  · subst hx
    rcases h with ⟨_, _, rfl⟩ | ⟨hn, _⟩
    · exact hc
    · rw [hn] at hc; cases hc
  · rw [(h.other hx).1]; exact hc

theorem Step.present {s s1 : DlState} {d : Digest} (h : Step s s1 d) : ∃ c, s1.st.blobs d = some c := by
  rcases h with ⟨c0, hc, rfl⟩ | ⟨_, c, _, _, rfl⟩
  · exact ⟨c0, hc⟩
  · exact ⟨c, by simp [upd_same]⟩

theorem Step.skip_true_same {s s1 : DlState} {d : Digest} (h : Step s s1 d)
    (ht : getSkip d s1.skip = true) : s1.st.blobs d = s.st.blobs d := by
  rcases h with ⟨_, _, rfl⟩ | ⟨_, _, _, _, rfl⟩
  · rfl
  · simp [getSkip_setSkip] at ht

theorem Step.skip_or_renamed {s s1 : DlState} {d : Digest} (h : Step s s1 d) :
    getSkip d s1.skip = true ∨ d ∈ s1.renamed := by
  rcases h with ⟨_, _, rfl⟩ | ⟨_, _, _, _, rfl⟩
  · left; simp [getSkip_setSkip]
  · right; simp

theorem Step.renamed_mono {s s1 : DlState} {d x : Digest} (h : Step s s1 d) (hx : x ∈ s.renamed) :
    x ∈ s1.renamed := by
  rcases h with ⟨_, _, rfl⟩ | ⟨_, _, _, _, rfl⟩
  · exact hx
  · simp [hx]

theorem Step.changed_renamed {s s1 : DlState} {d : Digest} (h : Step s s1 d) (x : Digest) :
    s1.st.blobs x = s.st.blobs x ∨ x ∈ s1.renamed := by
  by_cases hx : x = d
  · subst hx
    rcases h with ⟨_, _, rfl⟩ | ⟨_, _, _, _, rfl⟩
    · left; rfl
    · right; simp
  · left; exact (h.other hx).1

theorem Step.hit_skip {s s1 : DlState} {d : Digest} (h : Step s s1 d) {c : Bytes}
    (hc : s.st.blobs d = some c) : getSkip d s1.skip = true := by
  rcases h with ⟨_, _, rfl⟩ | ⟨hn, _⟩
  · simp [getSkip_setSkip]
  · rw [hn] at hc; cases hc

/-! ## the download loop -/

/-- whatever the outcome: manifests untouched, existing blobs kept, `renamed` grows, and a blob
    differs from before only if this attempt renamed it into place -/
theorem dlLoop_preserve {cfg : Cfg} {reg : Registry} {sc : Scripts} (ls : List Layer) :
    ∀ {s s' : DlState} {o : Outcome}, dlLoop cfg reg sc ls s = (o, s') →
      s'.st.manifests = s.st.manifests ∧
      (∀ x c, s.st.blobs x = some c → s'.st.blobs x = some c) ∧
      (∀ x, x ∈ s.renamed → x ∈ s'.renamed) ∧
      (∀ x, s'.st.blobs x = s.st.blobs x ∨ x ∈ s'.renamed) := by
  induction ls with
  | nil =>
    intro s s' o h
    simp only [dlLoop] at h
    cases h
    exact ⟨rfl, fun _ _ h => h, fun _ h => h, fun _ => Or.inl rfl⟩
  | cons l ls ih =>
    intro s s' o h
    rcases dlLoop_cons h with ⟨_, hb, hm, _, hr⟩ | ⟨d, s1, _, hstep, hrest⟩
    · refine ⟨hm, ?_, ?_, ?_⟩
      · intro x c hx; rw [hb]; exact hx
      · intro x hx; rw [hr]; exact hx
      · intro x; left; rw [hb]
    · obtain ⟨im, ik, ir, ic⟩ := ih hrest
      refine ⟨im.trans hstep.manifests, ?_, ?_, ?_⟩
      · intro x c hx; exact ik x c (hstep.keeps hx)
      · intro x hx; exact ir x (hstep.renamed_mono hx)
      · intro x
        rcases ic x with e | r
        · rcases hstep.changed_renamed x with e1 | r1
          · left; rw [e, e1]
          · right; exact ir x r1
        · right; exact r

/-- a digest that is already stored and already marked (or still to come) ends up marked `skip` -/
theorem dlLoop_skip_true {cfg : Cfg} {reg : Registry} {sc : Scripts} (ls : List Layer) :
    ∀ {s s' : DlState} {x : Digest} {c : Bytes}, dlLoop cfg reg sc ls s = (.ok (), s') →
      s.st.blobs x = some c → ((∃ l ∈ ls, l.digest = .ok x) ∨ getSkip x s.skip = true) →
      getSkip x s'.skip = true := by
  induction ls with
  | nil =>
    intro s s' x c h _ hor
    simp only [dlLoop] at h
    cases h
    rcases hor with ⟨l, hl, _⟩ | h
    · cases hl
    · exact h
  | cons l ls ih =>
    intro s s' x c h hc hor
    rcases dlLoop_cons h with ⟨hne, _⟩ | ⟨d, s1, hd, hstep, hrest⟩
    · exact absurd rfl hne
    · have hc1 := hstep.keeps hc
      by_cases hx : x = d
      · subst hx
        exact ih hrest hc1 (Or.inr (hstep.hit_skip hc))
      · rcases hor with ⟨l', hl', hd'⟩ | ht
        · rcases List.mem_cons.1 hl' with rfl | hin
          · rw [hd] at hd'; cases hd'; exact absurd rfl hx
          · exact ih hrest hc1 (Or.inl ⟨l', hin, hd'⟩)
        · exact ih hrest hc1 (Or.inr (by rw [(hstep.other hx).2]; exact ht))

/-- on success every layer is addressable and stored, and was either a cache hit or renamed by
    this attempt -/
theorem dlLoop_ok_all {cfg : Cfg} {reg : Registry} {sc : Scripts} (ls : List Layer) :
    ∀ {s s' : DlState}, dlLoop cfg reg sc ls s = (.ok (), s') →
      ∀ l ∈ ls, ∃ d c, l.digest = .ok d ∧ s'.st.blobs d = some c ∧
        (getSkip d s'.skip = true ∨ d ∈ s'.renamed) := by
  induction ls with
  | nil => intro s s' _ l hl; cases hl
  | cons l0 ls ih =>
    intro s s' h l hl
    rcases dlLoop_cons h with ⟨hne, _⟩ | ⟨d, s1, hd, hstep, hrest⟩
    · exact absurd rfl hne
    · rcases List.mem_cons.1 hl with rfl | hin
      · obtain ⟨c, hc⟩ := hstep.present
        obtain ⟨_, ik, ir, _⟩ := dlLoop_preserve ls hrest
        refine ⟨d, c, hd, ik d c hc, ?_⟩
        rcases hstep.skip_or_renamed with ht | hr
        · left; exact dlLoop_skip_true ls hrest hc (Or.inr ht)
        · right; exact ir d hr
      · exact ih hrest l hin

/-- a digest the loop does not meet keeps its blob and its mark -/
theorem dlLoop_frame {cfg : Cfg} {reg : Registry} {sc : Scripts} (ls : List Layer) :
    ∀ {s s' : DlState} {x : Digest}, dlLoop cfg reg sc ls s = (.ok (), s') →
      (∀ l ∈ ls, l.digest ≠ .ok x) →
      s'.st.blobs x = s.st.blobs x ∧ getSkip x s'.skip = getSkip x s.skip := by
  induction ls with
  | nil =>
    intro s s' x h _
    simp only [dlLoop] at h
    cases h; exact ⟨rfl, rfl⟩
  | cons l ls ih =>
    intro s s' x h hno
    rcases dlLoop_cons h with ⟨hne, _⟩ | ⟨d, s1, hd, hstep, hrest⟩
    · exact absurd rfl hne
    · have hx : x ≠ d := by
        intro e; subst e; exact hno l (by simp) hd
      obtain ⟨e1, e2⟩ := ih hrest (fun l' hl' => hno l' (by simp [hl']))
      obtain ⟨f1, f2⟩ := hstep.other hx
      exact ⟨e1.trans f1, e2.trans f2⟩

/-- without repeated digests, a layer marked `skip` holds the blob that was there before the loop -/
theorem dlLoop_ok_nodup {cfg : Cfg} {reg : Registry} {sc : Scripts} (ls : List Layer) :
    ∀ {s s' : DlState}, dlLoop cfg reg sc ls s = (.ok (), s') → (ls.map (·.digest)).Nodup →
      ∀ l ∈ ls, ∀ d, l.digest = .ok d → getSkip d s'.skip = true → s'.st.blobs d = s.st.blobs d := by
  induction ls with
  | nil => intro s s' _ _ l hl; cases hl
  | cons l0 ls ih =>
    intro s s' h hnd l hl d hd ht
    rcases dlLoop_cons h with ⟨hne, _⟩ | ⟨d0, s1, hd0, hstep, hrest⟩
    · exact absurd rfl hne
    · simp only [List.map_cons, List.nodup_cons] at hnd
      obtain ⟨hnotin, hnd'⟩ := hnd
      rcases List.mem_cons.1 hl with rfl | hin
      · rw [hd0] at hd; cases hd
        have hno : ∀ l' ∈ ls, l'.digest ≠ .ok d := by
          intro l' hl' e
          exact hnotin (by rw [hd0, ← e]; exact List.mem_map_of_mem hl')
        obtain ⟨e1, e2⟩ := dlLoop_frame ls hrest hno
        rw [e1]
        exact hstep.skip_true_same (by rw [← e2]; exact ht)
      · have hne : d ≠ d0 := by
          intro e; subst e
          exact hnotin (by rw [hd0, ← hd]; exact List.mem_map_of_mem hin)
        rw [ih hrest hnd' l hin d hd ht]
        exact (hstep.other hne).1

/-! ## the verify loop -/

theorem verifyLoop_ok {hash : Bytes → Digest} {skip : List (Digest × Bool)} (ls : List Layer) :
    ∀ {st st2 : Store}, verifyLoop hash skip ls st = (.ok (), st2) →
      st2 = st ∧ ∀ l ∈ ls, ∀ d, l.digest = .ok d → getSkip d skip = false →
        ∃ c, st.blobs d = some c ∧ hash c = d := by
  induction ls with
  | nil =>
    intro st st2 h
    simp only [verifyLoop] at h
    cases h
    exact ⟨rfl, fun l hl => by cases hl⟩
  | cons l ls ih =>
    intro st st2 h
    unfold verifyLoop at h
    split at h
    · rename_i d hd
      split at h
      · rename_i hsk
        obtain ⟨e, hall⟩ := ih h
        refine ⟨e, ?_⟩
        intro l' hl' d' hd' hf
        rcases List.mem_cons.1 hl' with rfl | hin
        · rw [hd] at hd'; cases hd'; rw [hsk] at hf; cases hf
        · exact hall l' hin d' hd' hf
      · split at h
        · cases h
        · rename_i c hc
          split at h
          · rename_i hh
            obtain ⟨e, hall⟩ := ih h
            refine ⟨e, ?_⟩
            intro l' hl' d' hd' hf
            rcases List.mem_cons.1 hl' with rfl | hin
            · rw [hd] at hd'; cases hd'; exact ⟨c, hc, hh⟩
            · exact hall l' hin d' hd' hf
          · cases h
    · rename_i hnot
      obtain ⟨e, hall⟩ := ih h
      refine ⟨e, ?_⟩
      intro l' hl' d' hd' hf
      rcases List.mem_cons.1 hl' with rfl | hin
      · exact absurd hd' (hnot d')
      · exact hall l' hin d' hd' hf

/-- whatever the outcome, the verify loop only ever removes a blob of a non-skipped layer -/
theorem verifyLoop_any {hash : Bytes → Digest} {skip : List (Digest × Bool)} (ls : List Layer) :
    ∀ {st st2 : Store} {o : Outcome}, verifyLoop hash skip ls st = (o, st2) →
      st2.manifests = st.manifests ∧
      ∀ x, st2.blobs x = st.blobs x ∨ (getSkip x skip = false ∧ ∃ l ∈ ls, l.digest = .ok x) := by
  induction ls with
  | nil =>
    intro st st2 o h
    simp only [verifyLoop] at h
    cases h
    exact ⟨rfl, fun _ => Or.inl rfl⟩
  | cons l ls ih =>
    intro st st2 o h
    have lift : (st2.manifests = st.manifests ∧
        ∀ x, st2.blobs x = st.blobs x ∨ (getSkip x skip = false ∧ ∃ l' ∈ ls, l'.digest = .ok x)) →
        st2.manifests = st.manifests ∧
        ∀ x, st2.blobs x = st.blobs x ∨ (getSkip x skip = false ∧ ∃ l' ∈ l :: ls, l'.digest = .ok x) := by
      rintro ⟨hm, hx⟩
      refine ⟨hm, fun x => ?_⟩
      rcases hx x with e | ⟨hf, l', hl', hd'⟩
      · exact Or.inl e
      · exact Or.inr ⟨hf, l', by simp [hl'], hd'⟩
    unfold verifyLoop at h
    split at h
    · rename_i d hd
      split at h
      · exact lift (ih h)
      · rename_i hsk
        split at h
        · cases h; exact ⟨rfl, fun _ => Or.inl rfl⟩
        · split at h
          · exact lift (ih h)
          · cases h
            refine ⟨rfl, fun x => ?_⟩
            by_cases hx : x = d
            · subst hx
              right
              exact ⟨by simpa using hsk, l, by simp, hd⟩
            · left; simp [upd_other _ _ _ _ hx]
    · exact lift (ih h)

/-! ## the shape of a pull -/

/-- the blob map after pruning -/
def oldRefs (name : Name) (st : Store) : List DRef :=
  match lookupM name st.manifests with
  | some (.readable om) => (om.all.map (·.digest))
  | _ => []

def prunedBlobs (cfg : Cfg) (name : Name) (m : Manifest) (st st2 : Store) : Digest → Option Bytes :=
  let deleteMap0 : List DRef := oldRefs name st
  let mans := insertM name (.readable m) st2.manifests
  let deleteMap := deleteMap0.filter fun k => !(m.all.map (·.digest)).contains k && k != m.config.digest
  if cfg.noPrune || deleteMap.isEmpty then st2.blobs
  else removeBlobs (usedRefs mans) deleteMap st2.blobs

/-- pruning never removes a layer of the manifest that was just installed -/
theorem prunedBlobs_keep (cfg : Cfg) (name : Name) (m : Manifest) (st st2 : Store) (d : Digest)
    (hin : DRef.ok d ∈ m.all.map (·.digest)) : prunedBlobs cfg name m st st2 d = st2.blobs d := by
  unfold prunedBlobs
  split
  · rfl
  · rw [removeBlobs_other]
    intro hmem
    have h2 := (List.mem_filter.1 hmem).2
    simp at h2
    obtain ⟨l, hl, hd⟩ := List.mem_map.1 hin
    exact h2.1 l hl hd

/-- `pull` either fails before touching anything, or stops in the download loop, or runs the
    verify loop and then (only on success) writes the manifest and prunes -/
theorem pull_cases {cfg : Cfg} {hash : Bytes → Digest} {name : Name} {reg : Registry} {sc : Scripts}
    {st st' : Store} {o : Outcome} {log : Log}
    (h : pull cfg hash name reg sc st = (o, st', log)) :
    (o ≠ .ok () ∧ st' = st ∧ log.renamed = []) ∨
    (∃ net0 s, dlLoop cfg reg sc reg.manifest.all ⟨st, net0, [], []⟩ = (o, s) ∧ o ≠ .ok () ∧
      st' = s.st ∧ log.renamed = s.renamed) ∨
    (∃ net0 s ov st2, dlLoop cfg reg sc reg.manifest.all ⟨st, net0, [], []⟩ = (.ok (), s) ∧
      verifyLoop hash s.skip reg.manifest.all s.st = (ov, st2) ∧ log.renamed = s.renamed ∧
      ((ov ≠ .ok () ∧ o = ov ∧ st' = st2) ∨
       (ov = .ok () ∧ o = .ok () ∧
        st'.manifests = insertM name (.readable reg.manifest) st2.manifests ∧
        st'.blobs = prunedBlobs cfg name reg.manifest st st2))) := by
  unfold pull at h
  simp only at h
  split at h
  · left; cases h; simp
  · left; cases h; simp
  · left; cases h; simp
  · rename_i net1 n _
    split at h
    · rename_i e s hdl
      right; left
      cases h
      exact ⟨_, s, hdl, by simp, rfl, rfl⟩
    · rename_i p s hdl
      right; left
      cases h
      exact ⟨_, s, hdl, by simp, rfl, rfl⟩
    · rename_i s hdl
      right; right
      split at h
      · rename_i e st2 hv
        cases h
        exact ⟨_, s, _, _, hdl, hv, rfl, Or.inl ⟨by simp, rfl, rfl⟩⟩
      · rename_i p st2 hv
        cases h
        exact ⟨_, s, _, _, hdl, hv, rfl, Or.inl ⟨by simp, rfl, rfl⟩⟩
      · rename_i st2 hv
        cases h
        exact ⟨_, s, _, st2, hdl, hv, rfl, Or.inr ⟨rfl, rfl, rfl, rfl⟩⟩

end OllamaVerif.Pull
