/-
  C03 helper lemmas for the pull model (`Model/Pull.lean`).
-/
import OllamaVerif.Model.Pull

namespace OllamaVerif.Pull

theorem upd_same {β : Type} (f : Digest → β) (k : Digest) (v : β) : upd f k v k = v := by
  simp [upd]

theorem upd_other {β : Type} (f : Digest → β) (k d : Digest) (v : β) (h : d ≠ k) :
    upd f k v d = f d := by
  simp [upd, h]

theorem getSkip_setSkip (d k : Digest) (v : Bool) (sk : List (Digest × Bool)) :
    getSkip d (setSkip k v sk) = if d = k then v else getSkip d sk := by
  induction sk with
  | nil =>
    by_cases h : d = k
    · subst h; simp [setSkip, getSkip]
    · have h' : ¬ k = d := fun e => h e.symm
      simp [setSkip, getSkip, h, h']
  | cons hd t ih =>
    obtain ⟨k', w⟩ := hd
    by_cases hk : k' = k
    · subst hk
      by_cases h : d = k'
      · subst h; simp [setSkip, getSkip]
      · have h' : ¬ k' = d := fun e => h e.symm
        simp [setSkip, getSkip, h, h']
    · by_cases h : d = k
      · subst h
        have : ¬ k' = d := hk
        simp [setSkip, getSkip, hk, ih]
      · by_cases h2 : k' = d
        · subst h2; simp [setSkip, getSkip, hk]
        · simp [setSkip, getSkip, hk, h, h2, ih]

theorem lookupM_insertM (n : Name) (v : MFile) (l : List (Name × MFile)) :
    lookupM n (insertM n v l) = some v := by
  induction l with
  | nil => simp [insertM, lookupM]
  | cons hd t ih =>
    obtain ⟨k, w⟩ := hd
    by_cases h : k = n
    · simp [insertM, lookupM, h]
    · simp [insertM, lookupM, h, ih]

theorem removeBlobs_other (used : List DRef) (ks : List DRef) (b : Digest → Option Bytes) (d : Digest)
    (h : DRef.ok d ∉ ks) : removeBlobs used ks b d = b d := by
  induction ks generalizing b with
  | nil => rfl
  | cons k ks ih =>
    have hk : DRef.ok d ≠ k := fun e => h (by simp [e])
    have ht : DRef.ok d ∉ ks := fun e => h (by simp [e])
    cases k with
    | empty => simpa [removeBlobs] using ih b ht
    | bad => simpa [removeBlobs] using ih b ht
    | ok x =>
      have hx : d ≠ x := fun e => hk (by rw [e])
      simp only [removeBlobs]
      split
      · exact ih b ht
      · rw [ih _ ht, upd_other _ _ _ _ hx]

/-! ## one iteration of the download loop -/

theorem markSkip_pinned {cfg : Cfg} (hdup : cfg.fixedDup = false) (d : Digest) (v : Bool)
    (sk : List (Digest × Bool)) : markSkip cfg d v sk = setSkip d v sk := by
  simp [markSkip, hdup]

theorem getSkip_markSkip_other (cfg : Cfg) (x d : Digest) (v : Bool) (sk : List (Digest × Bool))
    (hx : x ≠ d) : getSkip x (markSkip cfg d v sk) = getSkip x sk := by
  unfold markSkip
  split
  · rfl
  · simp [getSkip_setSkip, hx]

/-- `Step cfg hash s s1 d`: `s1` is the state after the loop body handled a layer with digest `d`
    successfully (a cache hit, or a completed download that — in the repaired variant — passed its
    inline verification) -/
def Step (cfg : Cfg) (hash : Bytes → Digest) (s s1 : DlState) (d : Digest) : Prop :=
  (∃ c0, s.st.blobs d = some c0 ∧ s1 = { s with skip := markSkip cfg d true s.skip }) ∨
  (s.st.blobs d = none ∧ s.canceled = false ∧ ∃ c pa net' cf, (cfg.verifyEarly = true → hash c = d) ∧ s1 =
    { st := { s.st with blobs := upd s.st.blobs d (some c), partials := upd s.st.partials d pa },
      net := net', skip := markSkip cfg d false s.skip, renamed := s.renamed ++ [d], canceled := cf })

/-- what the loop does with its first layer: it either stops there (not `ok`; only the partial
    state and the counters change) or takes a `Step` and continues -/
theorem dlLoop_cons {cfg : Cfg} {hash : Bytes → Digest} {reg : Registry} {sc : Scripts} {l : Layer}
    {ls : List Layer} {s s' : DlState} {o : Outcome} (h : dlLoop cfg hash reg sc (l :: ls) s = (o, s')) :
    (o ≠ .ok () ∧ s'.st.blobs = s.st.blobs ∧ s'.st.manifests = s.st.manifests ∧
      s'.skip = s.skip ∧ s'.renamed = s.renamed ∧
      (∀ p, o = .panic p → (p = .emptyDigest ∧ cfg.fixedEmpty = false) ∨
        ∃ d pa net, (downloadLayer cfg reg d (lookupS d sc.layers) pa net).1 = .panic p)) ∨
    (∃ d s1, l.digest = .ok d ∧ Step cfg hash s s1 d ∧ dlLoop cfg hash reg sc ls s1 = (o, s')) := by
  unfold dlLoop at h
  split at h
  · left; cases h; simp
  · split at h
    · left; cases h; simp
    · rename_i hfe
      left; cases h
      simp at hfe
      simp [hfe]
  · rename_i d hd
    split at h
    · rename_i c0 hc0
      right; exact ⟨d, _, hd, Or.inl ⟨c0, hc0, rfl⟩, h⟩
    · rename_i hnone
      split at h
      · left; cases h; simp
      · rename_i hcan
        split at h
        · rename_i c pa net' _
          split at h
          · left; cases h; simp
          · rename_i hcond
            right
            refine ⟨d, _, hd, Or.inr ⟨hnone, by simpa using hcan, c, pa, net', _, ?_, rfl⟩, h⟩
            intro hv
            simpa [hv] using hcond
        · left; cases h; simp
        · rename_i p pa net' hdl
          left; cases h
          refine ⟨by simp, rfl, rfl, rfl, rfl, ?_⟩
          intro p' hp'
          cases hp'
          right; exact ⟨d, _, _, by rw [hdl]⟩

theorem Step.manifests {cfg : Cfg} {hash : Bytes → Digest} {s s1 : DlState} {d : Digest}
    (h : Step cfg hash s s1 d) : s1.st.manifests = s.st.manifests := by
  rcases h with ⟨_, _, rfl⟩ | ⟨_, _, _, _, _, _, _, rfl⟩ <;> rfl

theorem Step.other {cfg : Cfg} {hash : Bytes → Digest} {s s1 : DlState} {d x : Digest}
    (h : Step cfg hash s s1 d) (hx : x ≠ d) :
    s1.st.blobs x = s.st.blobs x ∧ getSkip x s1.skip = getSkip x s.skip := by
  rcases h with ⟨_, _, rfl⟩ | ⟨_, _, _, _, _, _, _, rfl⟩
  · simp [getSkip_markSkip_other, hx]
  · simp [getSkip_markSkip_other, hx, upd_other]

theorem Step.keeps {cfg : Cfg} {hash : Bytes → Digest} {s s1 : DlState} {d x : Digest} {c : Bytes}
    (h : Step cfg hash s s1 d) (hc : s.st.blobs x = some c) : s1.st.blobs x = some c := by
  by_cases hx : x = d
  · subst hx
    rcases h with ⟨_, _, rfl⟩ | ⟨hn, _⟩
    · exact hc
    · rw [hn] at hc; cases hc
  · rw [(h.other hx).1]; exact hc

theorem Step.present {cfg : Cfg} {hash : Bytes → Digest} {s s1 : DlState} {d : Digest}
    (h : Step cfg hash s s1 d) : ∃ c, s1.st.blobs d = some c := by
  rcases h with ⟨c0, hc, rfl⟩ | ⟨_, _, c, _, _, _, _, rfl⟩
  · exact ⟨c0, hc⟩
  · exact ⟨c, by simp [upd_same]⟩

theorem Step.skip_true_same {cfg : Cfg} {hash : Bytes → Digest} {s s1 : DlState} {d : Digest}
    (hdup : cfg.fixedDup = false) (h : Step cfg hash s s1 d)
    (ht : getSkip d s1.skip = true) : s1.st.blobs d = s.st.blobs d := by
  rcases h with ⟨_, _, rfl⟩ | ⟨_, _, _, _, _, _, _, rfl⟩
  · rfl
  · simp [markSkip_pinned hdup, getSkip_setSkip] at ht

theorem Step.skip_or_renamed {cfg : Cfg} {hash : Bytes → Digest} {s s1 : DlState} {d : Digest}
    (hdup : cfg.fixedDup = false) (h : Step cfg hash s s1 d) :
    getSkip d s1.skip = true ∨ d ∈ s1.renamed := by
  rcases h with ⟨_, _, rfl⟩ | ⟨_, _, _, _, _, _, _, rfl⟩
  · left; simp [markSkip_pinned hdup, getSkip_setSkip]
  · right; simp

theorem Step.renamed_mono {cfg : Cfg} {hash : Bytes → Digest} {s s1 : DlState} {d x : Digest}
    (h : Step cfg hash s s1 d) (hx : x ∈ s.renamed) : x ∈ s1.renamed := by
  rcases h with ⟨_, _, rfl⟩ | ⟨_, _, _, _, _, _, _, rfl⟩
  · exact hx
  · simp [hx]

theorem Step.changed_renamed {cfg : Cfg} {hash : Bytes → Digest} {s s1 : DlState} {d : Digest}
    (h : Step cfg hash s s1 d) (x : Digest) : s1.st.blobs x = s.st.blobs x ∨ x ∈ s1.renamed := by
  by_cases hx : x = d
  · subst hx
    rcases h with ⟨_, _, rfl⟩ | ⟨_, _, _, _, _, _, _, rfl⟩
    · left; rfl
    · right; simp
  · left; exact (h.other hx).1

theorem Step.hit_skip {cfg : Cfg} {hash : Bytes → Digest} {s s1 : DlState} {d : Digest}
    (hdup : cfg.fixedDup = false) (h : Step cfg hash s s1 d) {c : Bytes}
    (hc : s.st.blobs d = some c) : getSkip d s1.skip = true := by
  rcases h with ⟨_, _, rfl⟩ | ⟨hn, _⟩
  · simp [markSkip_pinned hdup, getSkip_setSkip]
  · rw [hn] at hc; cases hc

/-- repaired variant: a step only ever adds a blob that hashes to its name -/
theorem Step.blobInv_early {cfg : Cfg} {hash : Bytes → Digest} {s s1 : DlState} {d : Digest}
    (hearly : cfg.verifyEarly = true) (h : Step cfg hash s s1 d)
    (hinv : ∀ x c, s.st.blobs x = some c → hash c = x) : ∀ x c, s1.st.blobs x = some c → hash c = x := by
  intro x c hx
  rcases h with ⟨_, _, rfl⟩ | ⟨_, _, c', _, _, _, hh, rfl⟩
  · exact hinv x c hx
  · by_cases e : x = d
    · subst e
      simp only [upd_same] at hx
      cases hx; exact hh hearly
    · simp only [upd_other _ _ _ _ e] at hx
      exact hinv x c hx

/-! ## the download loop -/

/-- whatever the outcome: manifests untouched, existing blobs kept, `renamed` grows, and a blob
    differs from before only if this attempt renamed it into place -/
theorem dlLoop_preserve {cfg : Cfg} {hash : Bytes → Digest} {reg : Registry} {sc : Scripts} (ls : List Layer) :
    ∀ {s s' : DlState} {o : Outcome}, dlLoop cfg hash reg sc ls s = (o, s') →
      s'.st.manifests = s.st.manifests ∧
      (∀ x c, s.st.blobs x = some c → s'.st.blobs x = some c) ∧
      (∀ x, x ∈ s.renamed → x ∈ s'.renamed) ∧
      (∀ x, s'.st.blobs x = s.st.blobs x ∨ x ∈ s'.renamed) := by
  induction ls with
  | nil =>
    intro s s' o h
    simp only [dlLoop] at h
    cases h
    exact ⟨rfl, fun _ _ h => h, fun _ h => h, fun _ => Or.inl rfl⟩
  | cons l ls ih =>
    intro s s' o h
    rcases dlLoop_cons h with ⟨_, hb, hm, _, hr, _⟩ | ⟨d, s1, _, hstep, hrest⟩
    · refine ⟨hm, ?_, ?_, ?_⟩
      · intro x c hx; rw [hb]; exact hx
      · intro x hx; rw [hr]; exact hx
      · intro x; left; rw [hb]
    · obtain ⟨im, ik, ir, ic⟩ := ih hrest
      refine ⟨im.trans hstep.manifests, ?_, ?_, ?_⟩
      · intro x c hx; exact ik x c (hstep.keeps hx)
      · intro x hx; exact ir x (hstep.renamed_mono hx)
      · intro x
        rcases ic x with e | r
        · rcases hstep.changed_renamed x with e1 | r1
          · left; rw [e, e1]
          · right; exact ir x r1
        · right; exact r

/-- repaired variant: whatever the outcome, the download loop keeps "every blob hashes to its name" -/
theorem dlLoop_blobInv_early {cfg : Cfg} {hash : Bytes → Digest} {reg : Registry} {sc : Scripts}
    (hearly : cfg.verifyEarly = true) (ls : List Layer) :
    ∀ {s s' : DlState} {o : Outcome}, dlLoop cfg hash reg sc ls s = (o, s') →
      (∀ x c, s.st.blobs x = some c → hash c = x) → ∀ x c, s'.st.blobs x = some c → hash c = x := by
  induction ls with
  | nil =>
    intro s s' o h hinv
    simp only [dlLoop] at h
    cases h; exact hinv
  | cons l ls ih =>
    intro s s' o h hinv
    rcases dlLoop_cons h with ⟨_, hb, _⟩ | ⟨d, s1, _, hstep, hrest⟩
    · intro x c hx; rw [hb] at hx; exact hinv x c hx
    · exact ih hrest (hstep.blobInv_early hearly hinv)

/-- on success every layer is addressable and stored (all variants) -/
theorem dlLoop_ok_present {cfg : Cfg} {hash : Bytes → Digest} {reg : Registry} {sc : Scripts} (ls : List Layer) :
    ∀ {s s' : DlState}, dlLoop cfg hash reg sc ls s = (.ok (), s') →
      ∀ l ∈ ls, ∃ d c, l.digest = .ok d ∧ s'.st.blobs d = some c := by
  induction ls with
  | nil => intro s s' _ l hl; cases hl
  | cons l0 ls ih =>
    intro s s' h l hl
    rcases dlLoop_cons h with ⟨hne, _⟩ | ⟨d, s1, hd, hstep, hrest⟩
    · exact absurd rfl hne
    · rcases List.mem_cons.1 hl with rfl | hin
      · obtain ⟨c, hc⟩ := hstep.present
        obtain ⟨_, ik, _, _⟩ := dlLoop_preserve ls hrest
        exact ⟨d, c, hd, ik d c hc⟩
      · exact ih hrest l hin

/-- a digest that is already stored and already marked (or still to come) ends up marked `skip` -/
theorem dlLoop_skip_true {cfg : Cfg} {hash : Bytes → Digest} {reg : Registry} {sc : Scripts}
    (hdup : cfg.fixedDup = false) (ls : List Layer) :
    ∀ {s s' : DlState} {x : Digest} {c : Bytes}, dlLoop cfg hash reg sc ls s = (.ok (), s') →
      s.st.blobs x = some c → ((∃ l ∈ ls, l.digest = .ok x) ∨ getSkip x s.skip = true) →
      getSkip x s'.skip = true := by
  induction ls with
  | nil =>
    intro s s' x c h _ hor
    simp only [dlLoop] at h
    cases h
    rcases hor with ⟨l, hl, _⟩ | h
    · cases hl
    · exact h
  | cons l ls ih =>
    intro s s' x c h hc hor
    rcases dlLoop_cons h with ⟨hne, _⟩ | ⟨d, s1, hd, hstep, hrest⟩
    · exact absurd rfl hne
    · have hc1 := hstep.keeps hc
      by_cases hx : x = d
      · subst hx
        exact ih hrest hc1 (Or.inr (hstep.hit_skip hdup hc))
      · rcases hor with ⟨l', hl', hd'⟩ | ht
        · rcases List.mem_cons.1 hl' with rfl | hin
          · rw [hd] at hd'; cases hd'; exact absurd rfl hx
          · exact ih hrest hc1 (Or.inl ⟨l', hin, hd'⟩)
        · exact ih hrest hc1 (Or.inr (by rw [(hstep.other hx).2]; exact ht))

/-- on success every layer is addressable and stored, and was either a cache hit or renamed by
    this attempt -/
theorem dlLoop_ok_all {cfg : Cfg} {hash : Bytes → Digest} {reg : Registry} {sc : Scripts}
    (hdup : cfg.fixedDup = false) (ls : List Layer) :
    ∀ {s s' : DlState}, dlLoop cfg hash reg sc ls s = (.ok (), s') →
      ∀ l ∈ ls, ∃ d c, l.digest = .ok d ∧ s'.st.blobs d = some c ∧
        (getSkip d s'.skip = true ∨ d ∈ s'.renamed) := by
  induction ls with
  | nil => intro s s' _ l hl; cases hl
  | cons l0 ls ih =>
    intro s s' h l hl
    rcases dlLoop_cons h with ⟨hne, _⟩ | ⟨d, s1, hd, hstep, hrest⟩
    · exact absurd rfl hne
    · rcases List.mem_cons.1 hl with rfl | hin
      · obtain ⟨c, hc⟩ := hstep.present
        obtain ⟨_, ik, ir, _⟩ := dlLoop_preserve ls hrest
        refine ⟨d, c, hd, ik d c hc, ?_⟩
        rcases hstep.skip_or_renamed hdup with ht | hr
        · left; exact dlLoop_skip_true hdup ls hrest hc (Or.inr ht)
        · right; exact ir d hr
      · exact ih hrest l hin

/-- a digest the loop does not meet keeps its blob and its mark -/
theorem dlLoop_frame {cfg : Cfg} {hash : Bytes → Digest} {reg : Registry} {sc : Scripts} (ls : List Layer) :
    ∀ {s s' : DlState} {x : Digest}, dlLoop cfg hash reg sc ls s = (.ok (), s') →
      (∀ l ∈ ls, l.digest ≠ .ok x) →
      s'.st.blobs x = s.st.blobs x ∧ getSkip x s'.skip = getSkip x s.skip := by
  induction ls with
  | nil =>
    intro s s' x h _
    simp only [dlLoop] at h
    cases h; exact ⟨rfl, rfl⟩
  | cons l ls ih =>
    intro s s' x h hno
    rcases dlLoop_cons h with ⟨hne, _⟩ | ⟨d, s1, hd, hstep, hrest⟩
    · exact absurd rfl hne
    · have hx : x ≠ d := by
        intro e; subst e; exact hno l (by simp) hd
      obtain ⟨e1, e2⟩ := ih hrest (fun l' hl' => hno l' (by simp [hl']))
      obtain ⟨f1, f2⟩ := hstep.other hx
      exact ⟨e1.trans f1, e2.trans f2⟩

/-- without repeated digests, a layer marked `skip` holds the blob that was there before the loop -/
theorem dlLoop_ok_nodup {cfg : Cfg} {hash : Bytes → Digest} {reg : Registry} {sc : Scripts}
    (hdup : cfg.fixedDup = false) (ls : List Layer) :
    ∀ {s s' : DlState}, dlLoop cfg hash reg sc ls s = (.ok (), s') → (ls.map (·.digest)).Nodup →
      ∀ l ∈ ls, ∀ d, l.digest = .ok d → getSkip d s'.skip = true → s'.st.blobs d = s.st.blobs d := by
  induction ls with
  | nil => intro s s' _ _ l hl; cases hl
  | cons l0 ls ih =>
    intro s s' h hnd l hl d hd ht
    rcases dlLoop_cons h with ⟨hne, _⟩ | ⟨d0, s1, hd0, hstep, hrest⟩
    · exact absurd rfl hne
    · simp only [List.map_cons, List.nodup_cons] at hnd
      obtain ⟨hnotin, hnd'⟩ := hnd
      rcases List.mem_cons.1 hl with rfl | hin
      · rw [hd0] at hd; cases hd
        have hno : ∀ l' ∈ ls, l'.digest ≠ .ok d := by
          intro l' hl' e
          exact hnotin (by rw [hd0, ← e]; exact List.mem_map_of_mem hl')
        obtain ⟨e1, e2⟩ := dlLoop_frame ls hrest hno
        rw [e1]
        exact hstep.skip_true_same hdup (by rw [← e2]; exact ht)
      · have hne : d ≠ d0 := by
          intro e; subst e
          exact hnotin (by rw [hd0, ← hd]; exact List.mem_map_of_mem hin)
        rw [ih hrest hnd' l hin d hd ht]
        exact (hstep.other hne).1

/-! ## the verify loop -/

theorem verifyLoop_ok {hash : Bytes → Digest} {skip : List (Digest × Bool)} (ls : List Layer) :
    ∀ {st st2 : Store}, verifyLoop hash skip ls st = (.ok (), st2) →
      st2 = st ∧ ∀ l ∈ ls, ∀ d, l.digest = .ok d → getSkip d skip = false →
        ∃ c, st.blobs d = some c ∧ hash c = d := by
  induction ls with
  | nil =>
    intro st st2 h
    simp only [verifyLoop] at h
    cases h
    exact ⟨rfl, fun l hl => by cases hl⟩
  | cons l ls ih =>
    intro st st2 h
    unfold verifyLoop at h
    split at h
    · rename_i d hd
      split at h
      · rename_i hsk
        obtain ⟨e, hall⟩ := ih h
        refine ⟨e, ?_⟩
        intro l' hl' d' hd' hf
        rcases List.mem_cons.1 hl' with rfl | hin
        · rw [hd] at hd'; cases hd'; rw [hsk] at hf; cases hf
        · exact hall l' hin d' hd' hf
      · split at h
        · cases h
        · rename_i c hc
          split at h
          · rename_i hh
            obtain ⟨e, hall⟩ := ih h
            refine ⟨e, ?_⟩
            intro l' hl' d' hd' hf
            rcases List.mem_cons.1 hl' with rfl | hin
            · rw [hd] at hd'; cases hd'; exact ⟨c, hc, hh⟩
            · exact hall l' hin d' hd' hf
          · cases h
    · rename_i hnot
      obtain ⟨e, hall⟩ := ih h
      refine ⟨e, ?_⟩
      intro l' hl' d' hd' hf
      rcases List.mem_cons.1 hl' with rfl | hin
      · exact absurd hd' (hnot d')
      · exact hall l' hin d' hd' hf

/-- whatever the outcome, the verify loop only ever removes a blob of a non-skipped layer -/
theorem verifyLoop_any {hash : Bytes → Digest} {skip : List (Digest × Bool)} (ls : List Layer) :
    ∀ {st st2 : Store} {o : Outcome}, verifyLoop hash skip ls st = (o, st2) →
      st2.manifests = st.manifests ∧
      ∀ x, st2.blobs x = st.blobs x ∨ (getSkip x skip = false ∧ ∃ l ∈ ls, l.digest = .ok x) := by
  induction ls with
  | nil =>
    intro st st2 o h
    simp only [verifyLoop] at h
    cases h
    exact ⟨rfl, fun _ => Or.inl rfl⟩
  | cons l ls ih =>
    intro st st2 o h
    have lift : (st2.manifests = st.manifests ∧
        ∀ x, st2.blobs x = st.blobs x ∨ (getSkip x skip = false ∧ ∃ l' ∈ ls, l'.digest = .ok x)) →
        st2.manifests = st.manifests ∧
        ∀ x, st2.blobs x = st.blobs x ∨ (getSkip x skip = false ∧ ∃ l' ∈ l :: ls, l'.digest = .ok x) := by
      rintro ⟨hm, hx⟩
      refine ⟨hm, fun x => ?_⟩
      rcases hx x with e | ⟨hf, l', hl', hd'⟩
      · exact Or.inl e
      · exact Or.inr ⟨hf, l', by simp [hl'], hd'⟩
    unfold verifyLoop at h
    split at h
    · rename_i d hd
      split at h
      · exact lift (ih h)
      · rename_i hsk
        split at h
        · cases h; exact ⟨rfl, fun _ => Or.inl rfl⟩
        · split at h
          · exact lift (ih h)
          · cases h
            refine ⟨rfl, fun x => ?_⟩
            by_cases hx : x = d
            · subst hx
              right
              exact ⟨by simpa using hsk, l, by simp, hd⟩
            · left; simp [upd_other _ _ _ _ hx]
    · exact lift (ih h)

/-! ## the shape of a pull -/

/-- the blob map after pruning -/
def oldRefs (name : Name) (st : Store) : List DRef :=
  match lookupM name st.manifests with
  | some (.readable om) => (om.all.map (·.digest))
  | _ => []

def prunedBlobs (cfg : Cfg) (name : Name) (m : Manifest) (st st2 : Store) : Digest → Option Bytes :=
  let deleteMap0 : List DRef := oldRefs name st
  let mans := insertM name (.readable m) st2.manifests
  let deleteMap := deleteMap0.filter fun k => !(m.all.map (·.digest)).contains k && k != m.config.digest
  if cfg.noPrune || deleteMap.isEmpty then st2.blobs
  else removeBlobs (usedRefs mans) deleteMap st2.blobs

/-- pruning never removes a layer of the manifest that was just installed -/
theorem prunedBlobs_keep (cfg : Cfg) (name : Name) (m : Manifest) (st st2 : Store) (d : Digest)
    (hin : DRef.ok d ∈ m.all.map (·.digest)) : prunedBlobs cfg name m st st2 d = st2.blobs d := by
  unfold prunedBlobs
  split
  · rfl
  · rw [removeBlobs_other]
    intro hmem
    have h2 := (List.mem_filter.1 hmem).2
    simp at h2
    obtain ⟨l, hl, hd⟩ := List.mem_map.1 hin
    exact h2.1 l hl hd

/-- the verification phase after the download loop: the verify loop (pinned) / nothing (repaired:
    every fresh layer was verified inline) -/
def verifyPhase (cfg : Cfg) (hash : Bytes → Digest) (skip : List (Digest × Bool)) (ls : List Layer)
    (st : Store) : Outcome × Store :=
  if cfg.verifyEarly then (.ok (), st) else verifyLoop hash skip ls st

/-- `pull` either fails before touching anything, or stops in the download loop, or runs the
    verify phase and then (only on success) writes the manifest and prunes -/
theorem pull_cases {cfg : Cfg} {hash : Bytes → Digest} {name : Name} {reg : Registry} {sc : Scripts}
    {st st' : Store} {o : Outcome} {log : Log}
    (h : pull cfg hash name reg sc st = (o, st', log)) :
    (o ≠ .ok () ∧ st' = st ∧ log.renamed = [] ∧
      (∀ p, o = .panic p → ∃ k s net, (mrr cfg reg.realm (Reply.pass MBody.served) Policy.dflt k s net).1 = .panic p)) ∨
    (∃ net0 s, dlLoop cfg hash reg sc reg.manifest.all ⟨st, net0, [], [], false⟩ = (o, s) ∧ o ≠ .ok () ∧
      st' = s.st ∧ log.renamed = s.renamed) ∨
    (∃ net0 s ov st2, dlLoop cfg hash reg sc reg.manifest.all ⟨st, net0, [], [], false⟩ = (.ok (), s) ∧
      verifyPhase cfg hash s.skip reg.manifest.all s.st = (ov, st2) ∧ log.renamed = s.renamed ∧
      ((ov ≠ .ok () ∧ o = ov ∧ st' = st2) ∨
       (ov = .ok () ∧ o = .ok () ∧
        st'.manifests = insertM name (.readable reg.manifest) st2.manifests ∧
        st'.blobs = prunedBlobs cfg name reg.manifest st st2))) := by
  unfold pull at h
  simp only at h
  split at h
  · left; cases h; simp
  split at h
  · left; cases h; simp
  · rename_i p _ net1 n hm
    left; cases h
    refine ⟨by simp, rfl, rfl, ?_⟩
    intro p' hp'; cases hp'
    exact ⟨2, sc.manifest, { tok := sc.token }, by rw [hm]⟩
  · left; cases h; simp
  · rename_i net1 n _
    split at h
    · rename_i e s hdl
      right; left
      cases h
      exact ⟨_, s, hdl, by simp, rfl, rfl⟩
    · rename_i p s hdl
      right; left
      cases h
      exact ⟨_, s, hdl, by simp, rfl, rfl⟩
    · rename_i s hdl
      right; right
      split at h
      · rename_i e st2 hv
        cases h
        exact ⟨_, s, _, _, hdl, hv, rfl, Or.inl ⟨by simp, rfl, rfl⟩⟩
      · rename_i p st2 hv
        cases h
        exact ⟨_, s, _, _, hdl, hv, rfl, Or.inl ⟨by simp, rfl, rfl⟩⟩
      · rename_i st2 hv
        cases h
        exact ⟨_, s, _, st2, hdl, hv, rfl, Or.inr ⟨rfl, rfl, rfl, rfl⟩⟩

theorem verifyPhase_ok {cfg : Cfg} {hash : Bytes → Digest} {skip : List (Digest × Bool)} {ls : List Layer}
    {st st2 : Store} (h : verifyPhase cfg hash skip ls st = (.ok (), st2)) :
    st2 = st ∧ (cfg.verifyEarly = false → ∀ l ∈ ls, ∀ d, l.digest = .ok d → getSkip d skip = false →
      ∃ c, st.blobs d = some c ∧ hash c = d) := by
  unfold verifyPhase at h
  split at h
  · rename_i he
    cases h
    exact ⟨rfl, fun hf => by rw [he] at hf; cases hf⟩
  · obtain ⟨e, hall⟩ := verifyLoop_ok ls h
    exact ⟨e, fun _ => hall⟩

theorem verifyPhase_any {cfg : Cfg} {hash : Bytes → Digest} {skip : List (Digest × Bool)} {ls : List Layer}
    {st st2 : Store} {o : Outcome} (h : verifyPhase cfg hash skip ls st = (o, st2)) :
    st2.manifests = st.manifests ∧
    ∀ x, st2.blobs x = st.blobs x ∨
      (cfg.verifyEarly = false ∧ getSkip x skip = false ∧ ∃ l ∈ ls, l.digest = .ok x) := by
  unfold verifyPhase at h
  split at h
  · cases h; exact ⟨rfl, fun _ => Or.inl rfl⟩
  · rename_i he
    obtain ⟨hm, hx⟩ := verifyLoop_any ls h
    refine ⟨hm, fun x => ?_⟩
    rcases hx x with e | ⟨hf, hl⟩
    · exact Or.inl e
    · exact Or.inr ⟨by simpa using he, hf, hl⟩

/-! ## the honest path (for `retry_can_succeed`) -/

theorem mrr_pass {α : Type} (cfg : Cfg) (realm : Bytes) (a : α) (redir : α → Bool) (b k : Nat) (net : Net) :
    mrr cfg realm (.pass a) ⟨b + 2, redir⟩ (k + 1) [] net = (.ok a, [], net, 1) := by
  simp [mrr, popFollow, pop]

theorem mrr_pass_dflt {α : Type} (cfg : Cfg) (realm : Bytes) (a : α) (k : Nat) (net : Net) :
    mrr cfg realm (.pass a) Policy.dflt (k + 1) [] net = (.ok a, [], net, 1) := by
  simp [mrr, popFollow, pop, Policy.dflt]

theorem mrr_pass_direct (cfg : Cfg) (realm : Bytes) (a : DirRep) (k : Nat) (net : Net) :
    mrr cfg realm (.pass a) ⟨11, DirRep.isRedirect⟩ (k + 1) [] net = (.ok a, [], net, 1) := by
  simp [mrr, popFollow, pop]

theorem zeros_length (n : Nat) : (zeros n).length = n := by simp [zeros]

theorem writeAt_spec (file d : Bytes) (off : Nat) (hd : d ≠ []) (h : off + d.length ≤ file.length) :
    (writeAt file off d).length = file.length ∧
    (writeAt file off d).take (off + d.length) = file.take off ++ d := by
  have he : d.isEmpty = false := by cases d <;> simp_all
  have hz : off - file.length = 0 := by omega
  unfold writeAt
  simp only [he, hz, zeros, List.replicate_zero, List.append_nil, Bool.false_eq_true, ↓reduceIte]
  constructor
  · simp only [List.length_append, List.length_take, List.length_drop]; omega
  · have hl : (file.take off ++ d).length = off + d.length := by
      simp only [List.length_append, List.length_take]; omega
    rw [List.append_assoc, ← List.append_assoc (file.take off) d, ← hl, List.take_left']
    rfl

/-- an honest chunk for an untouched part that lies inside the blob completes it -/
theorem chunkStep_honest (c file : Bytes) (off sz : Nat) (w : Bool) (hsz : 0 < sz) (hin : off + sz ≤ c.length) :
    chunkStep c honestReply ⟨file, ⟨off, sz, 0⟩, w⟩ =
      (.done, ⟨writeAt file off ((c.drop off).take sz), ⟨off, sz, sz⟩, true⟩) := by
  have hlen : ((c.drop off).take sz).length = sz := by
    simp only [List.length_take, List.length_drop]; omega
  have hne : ((c.drop off).take sz).isEmpty = false := by
    cases h : (c.drop off).take sz with
    | nil => rw [h] at hlen; simp at hlen; omega
    | cons _ _ => rfl
  simp only [chunkStep, honestReply, bodyOf, Nat.add_zero, Nat.sub_zero, Nat.add_sub_cancel_left,
    List.take_take, Nat.min_self, hlen, hne, if_true, Bool.not_false, Bool.or_true, Nat.zero_add]
  simp

/-- honest CDN, fresh plan: all parts complete and the file is the blob -/
theorem runParts_plan (cfg : Cfg) (c : Bytes) (hret : 0 < cfg.retries) :
    ∀ (f off size : Nat) (file : Bytes) (n : Nat), 0 < size → c.length - off ≤ f → off ≤ c.length →
      file.length = c.length → file.take off = c.take off →
      ∃ ps n', runParts cfg c (planLoop c.length f off size) [] file n = (true, c, ps, n') := by
  intro f
  induction f with
  | zero =>
    intro off size file n _ hf hoff hlen htake
    have : off = c.length := by omega
    subst this
    refine ⟨[], n, ?_⟩
    have : file = c := by
      rw [← List.take_length (l := file), hlen, htake, List.take_length]
    simp [planLoop, runParts, this]
  | succ f ih =>
    intro off size file n hsize hf hoff hlen htake
    by_cases hlt : off < c.length
    · obtain ⟨t, ht⟩ : ∃ t, cfg.retries = t + 1 := ⟨cfg.retries - 1, by omega⟩
      -- the size of this part
      have hsz : ∃ sz, (if off + size > c.length then c.length - off else size) = sz ∧ 0 < sz ∧ off + sz ≤ c.length := by
        by_cases hb : off + size > c.length
        · exact ⟨c.length - off, by simp [hb], by omega, by omega⟩
        · exact ⟨size, by simp [hb], hsize, by omega⟩
      obtain ⟨sz, hszeq, hszpos, hszin⟩ := hsz
      have hbody : ((c.drop off).take sz).length = sz := by
        simp only [List.length_take, List.length_drop]; omega
      have hbne : (c.drop off).take sz ≠ [] := by
        intro e; rw [e] at hbody; simp at hbody; omega
      obtain ⟨wl, wt⟩ := writeAt_spec file ((c.drop off).take sz) off hbne (by rw [hbody, hlen]; exact hszin)
      rw [hbody] at wt
      have htake' : (writeAt file off ((c.drop off).take sz)).take (off + sz) = c.take (off + sz) := by
        rw [wt, htake, List.take_add]
      obtain ⟨ps, n', hrest⟩ := ih (off + sz) sz (writeAt file off ((c.drop off).take sz)) (n + 1)
        hszpos (by omega) hszin (wl.trans hlen) htake'
      refine ⟨⟨off, sz, sz⟩ :: ps, n', ?_⟩
      have hne : ¬ (0 = sz) := by omega
      simp only [planLoop, hlt, if_true, hszeq, runParts, pop, hne, if_false, runPart, ht, runTail,
        chunkStep_honest c file off sz false hszpos hszin, hrest, Bool.and_self]
    · have : off = c.length := by omega
      subst this
      refine ⟨[], n, ?_⟩
      have : file = c := by
        rw [← List.take_length (l := file), hlen, htake, List.take_length]
      simp [planLoop, runParts, this]

theorem planSize_pos (cfg : Cfg) (total : Nat) (hmin : 0 < cfg.minSize) (hmax : 0 < cfg.maxSize) :
    0 < planSize cfg total := by
  show 0 < (if total / cfg.nparts < cfg.minSize then cfg.minSize
    else if total / cfg.nparts > cfg.maxSize then cfg.maxSize else total / cfg.nparts)
  by_cases h1 : total / cfg.nparts < cfg.minSize
  · rw [if_pos h1]; exact hmin
  · by_cases h2 : total / cfg.nparts > cfg.maxSize
    · rw [if_neg h1, if_pos h2]; exact hmax
    · rw [if_neg h1, if_neg h2]; omega

/-- honest registry, no resume state: the layer is fetched completely and exactly -/
theorem downloadLayer_honest (cfg : Cfg) (reg : Registry) (d : Digest) (c : Bytes) (net : Net)
    (hret : 0 < cfg.retries) (hmin : 0 < cfg.minSize) (hmax : 0 < cfg.maxSize)
    (hc : lookupC d reg.content = some c) :
    ∃ net', downloadLayer cfg reg d LScript.empty Partial.none net = (.ok c, Partial.none, net') := by
  obtain ⟨ps, n', hrun⟩ := runParts_plan cfg c hret c.length 0 (planSize cfg c.length) (zeros c.length) net.nc
    (planSize_pos cfg _ hmin hmax) (by omega) (by omega) (zeros_length _) (by simp)
  have h1 : (downloadLayer cfg reg d LScript.empty Partial.none net).1 = .ok c := by
    simp only [downloadLayer, hc, Partial.none, LScript.empty, List.isEmpty_nil, if_true, mrr_pass_dflt, mrr_pass_direct,
      Option.getD_some, Option.getD_none, resize, List.take_nil, List.nil_append, List.length_nil,
      Nat.sub_zero, directLoop, replyFails, Bool.and_false, Bool.false_eq_true,
      if_false, plan, hrun]
  have h2 : (downloadLayer cfg reg d LScript.empty Partial.none net).2.1 = Partial.none := by
    simp only [downloadLayer, hc, Partial.none, LScript.empty, List.isEmpty_nil, if_true, mrr_pass_dflt, mrr_pass_direct,
      Option.getD_some, Option.getD_none, resize, List.take_nil, List.nil_append, List.length_nil,
      Nat.sub_zero, directLoop, replyFails, Bool.and_false, Bool.false_eq_true,
      if_false, plan, hrun]
  exact ⟨(downloadLayer cfg reg d LScript.empty Partial.none net).2.2, Prod.ext h1 (Prod.ext h2 rfl)⟩

/-- honest registry, honest scripts: the download loop succeeds and every blob it adds is the
    registry's (so hashes to its name) -/
theorem dlLoop_honest (cfg : Cfg) (hash : Bytes → Digest) (reg : Registry)
    (hret : 0 < cfg.retries) (hmin : 0 < cfg.minSize) (hmax : 0 < cfg.maxSize) (ls : List Layer) :
    ∀ (s : DlState),
      (∀ l ∈ ls, ∃ d c, l.digest = .ok d ∧ lookupC d reg.content = some c ∧ hash c = d) →
      (∀ d c, s.st.blobs d = some c → hash c = d) →
      (∀ l ∈ ls, ∀ d, l.digest = .ok d → s.st.blobs d = none → s.st.partials d = Partial.none) →
      s.canceled = false →
      ∃ s', dlLoop cfg hash reg Scripts.honest ls s = (.ok (), s') ∧
        (∀ d c, s'.st.blobs d = some c → hash c = d) := by
  induction ls with
  | nil => intro s _ hb _ _; exact ⟨s, rfl, hb⟩
  | cons l ls ih =>
    intro s hreg hb hclean hcan
    obtain ⟨d, c, hd, hc, hh⟩ := hreg l (by simp)
    have hreg' : ∀ l' ∈ ls, ∃ d c, l'.digest = .ok d ∧ lookupC d reg.content = some c ∧ hash c = d :=
      fun l' hl' => hreg l' (by simp [hl'])
    cases hbl : s.st.blobs d with
    | some c0 =>
      obtain ⟨s', hs', hb'⟩ := ih { s with skip := markSkip cfg d true s.skip } hreg' hb
        (fun l' hl' d' hd' hn => hclean l' (by simp [hl']) d' hd' hn) hcan
      refine ⟨s', ?_, hb'⟩
      simp only [dlLoop, hd, hbl]
      exact hs'
    | none =>
      have hpa := hclean l (by simp) d hd hbl
      obtain ⟨net', hdl⟩ := downloadLayer_honest cfg reg d c s.net hret hmin hmax hc
      let s1 : DlState :=
        { st := { s.st with blobs := upd s.st.blobs d (some c), partials := upd s.st.partials d Partial.none }
          net := net', skip := markSkip cfg d false s.skip, renamed := s.renamed ++ [d], canceled := false }
      have hb1 : ∀ x cx, s1.st.blobs x = some cx → hash cx = x := by
        intro x cx hx
        by_cases e : x = d
        · subst e
          simp only [s1, upd_same] at hx
          cases hx; exact hh
        · simp only [s1, upd_other _ _ _ _ e] at hx
          exact hb x cx hx
      have hcl1 : ∀ l' ∈ ls, ∀ d', l'.digest = .ok d' → s1.st.blobs d' = none → s1.st.partials d' = Partial.none := by
        intro l' hl' d' hd' hn
        by_cases e : d' = d
        · subst e; simp only [s1, upd_same] at hn; cases hn
        · simp only [s1, upd_other _ _ _ _ e] at hn ⊢
          exact hclean l' (by simp [hl']) d' hd' hn
      obtain ⟨s', hs', hb'⟩ := ih s1 hreg' hb1 hcl1 rfl
      refine ⟨s', ?_, hb'⟩
      have hls : lookupS d Scripts.honest.layers = LScript.empty := rfl
      have hcond : (cfg.verifyEarly && hash c != d) = false := by simp [hh]
      have hcf : (false || (cfg.verifyEarly && Scripts.honest.cancel == some (CancelPoint.verifying s.renamed.length))) = false := by
        simp [Scripts.honest]
      simp only [dlLoop, hd, hbl, hls, hpa, hdl, hcond, hcan, hcf, Bool.false_eq_true, if_false]
      exact hs'

/-- if every stored layer hashes to its name the verify loop passes -/
theorem verifyLoop_honest (hash : Bytes → Digest) (skip : List (Digest × Bool)) (ls : List Layer) (st : Store)
    (hb : ∀ d c, st.blobs d = some c → hash c = d)
    (hpresent : ∀ l ∈ ls, ∀ d, l.digest = .ok d → ∃ c, st.blobs d = some c) :
    verifyLoop hash skip ls st = (.ok (), st) := by
  induction ls with
  | nil => rfl
  | cons l ls ih =>
    have ih' := ih (fun l' hl' => hpresent l' (by simp [hl']))
    unfold verifyLoop
    split
    · rename_i d hd
      split
      · exact ih'
      · obtain ⟨c, hc⟩ := hpresent l (by simp) d hd
        simp only [hc, hb d c hc, if_true]
        exact ih'
    · exact ih'

/-! ## no panic once `getValue` checks its bounds and `""` is rejected -/

theorem getValue_fixed_some (s key : Bytes) : ∃ v, getValue true s key = some v := by
  unfold getValue
  cases indexOf (key ++ [61]) s with
  | none => exact ⟨_, rfl⟩
  | some idx =>
    simp only
    split
    · exact ⟨_, rfl⟩
    · exact ⟨_, rfl⟩

theorem parseChallenge_fixed_some (hdr : Bytes) : ∃ ch, parseChallenge true hdr = some ch := by
  unfold parseChallenge
  simp only
  obtain ⟨r, hr⟩ := getValue_fixed_some (trimPrefix bearer hdr) kRealm
  obtain ⟨sv, hs⟩ := getValue_fixed_some (trimPrefix bearer hdr) kService
  obtain ⟨sc, hc⟩ := getValue_fixed_some (trimPrefix bearer hdr) kScope
  rw [hr, hs, hc]
  exact ⟨_, rfl⟩

theorem authStep_no_panic {cfg : Cfg} (hfix : cfg.fixedChallenge = true) (realm hdr : Bytes) (net : Net)
    (p : PanicSite) : (authStep cfg realm hdr net).1 ≠ .panic p := by
  obtain ⟨ch, hch⟩ := parseChallenge_fixed_some hdr
  unfold authStep
  rw [hfix, hch]
  simp only
  split
  · cases net.tok with
    | nil => simp [pop]
    | cons t ts => cases t <;> simp [pop]
  · simp

theorem mrr_no_panic {α : Type} {cfg : Cfg} (hfix : cfg.fixedChallenge = true) (realm : Bytes)
    (dflt : Reply α) (pol : Policy α) (p : PanicSite) :
    ∀ (k : Nat) (s : List (Reply α)) (net : Net), (mrr cfg realm dflt pol k s net).1 ≠ .panic p := by
  intro k
  induction k with
  | zero => intro s net; simp [mrr]
  | succ k ih =>
    intro s net
    unfold mrr
    generalize popFollow dflt pol.redir pol.budget s = pf
    obtain ⟨r, s', n⟩ := pf
    cases r with
    | pass a => simp
    | neterr => simp
    | notfound => simp
    | status => simp
    | follow => simp
    | unauth hdr =>
      simp only
      split
      · rename_i net' _
        generalize hm : mrr cfg realm dflt pol k s' net' = q
        obtain ⟨x, s'', net'', m⟩ := q
        have := ih s' net'
        rw [hm] at this
        exact this
      · simp
      · rename_i p' net' ha
        have := authStep_no_panic hfix realm hdr net p'
        rw [ha] at this
        exact absurd rfl this

theorem directLoop_no_panic {cfg : Cfg} (hfix : cfg.fixedChallenge = true) (realm : Bytes)
    (dflt : Reply DirRep) (p : PanicSite) :
    ∀ (f : Nat) (s : List (Reply DirRep)) (net : Net), (directLoop cfg realm dflt f s net).1 ≠ .panic p := by
  intro f
  induction f with
  | zero => intro s net; simp [directLoop]
  | succ f ih =>
    intro s net
    unfold directLoop
    generalize hm : mrr cfg realm dflt ⟨11, DirRep.isRedirect⟩ 2 s net = r
    obtain ⟨x, s', net', n⟩ := r
    split
    · simp
    · cases x with
      | ok a =>
        cases a
        · simp
        · simp
        · simp
        · simp
        · simp
        · exact ih _ _
        · simp
      | err e => exact ih _ _
      | panic p' => exact absurd (congrArg Prod.fst hm) (mrr_no_panic hfix _ _ _ p' _ _ _)

theorem downloadLayer_no_panic {cfg : Cfg} (hfix : cfg.fixedChallenge = true) (reg : Registry) (d : Digest)
    (ls : LScript) (pa : Partial) (net : Net) (p : PanicSite) :
    (downloadLayer cfg reg d ls pa net).1 ≠ .panic p := by
  unfold downloadLayer
  simp only
  split
  · simp
  · rename_i p' net1 hprep
    -- the only source of a panic in Prepare is the HEAD request
    exfalso
    split at hprep
    · split at hprep
      · cases hprep
      · cases hprep
      · rename_i p'' _ net' n hm
        exact absurd (congrArg Prod.fst hm) (mrr_no_panic hfix _ _ _ p'' _ _ _)
    · cases hprep
  · split
    · simp
    · rename_i p' net2 hdir
      exact absurd (congrArg Prod.fst hdir) (directLoop_no_panic hfix _ _ p' _ _ _)
    · repeat' split
      all_goals simp

theorem dlLoop_no_panic {cfg : Cfg} {hash : Bytes → Digest} {reg : Registry} {sc : Scripts}
    (hfix : cfg.fixedChallenge = true) (hempty : cfg.fixedEmpty = true) (p : PanicSite) (ls : List Layer) :
    ∀ {s s' : DlState} {o : Outcome}, dlLoop cfg hash reg sc ls s = (o, s') → o ≠ .panic p := by
  induction ls with
  | nil =>
    intro s s' o h
    simp only [dlLoop] at h
    cases h; simp
  | cons l ls ih =>
    intro s s' o h
    rcases dlLoop_cons h with ⟨_, _, _, _, _, hp⟩ | ⟨d, s1, _, _, hrest⟩
    · intro e
      rcases hp p e with ⟨_, hfe⟩ | ⟨d, pa, net, hd⟩
      · rw [hempty] at hfe; cases hfe
      · exact downloadLayer_no_panic hfix reg d _ pa net p hd
    · exact ih hrest

theorem verifyLoop_no_panic {hash : Bytes → Digest} {skip : List (Digest × Bool)} (p : PanicSite) (ls : List Layer) :
    ∀ {st st2 : Store} {o : Outcome}, verifyLoop hash skip ls st = (o, st2) → o ≠ .panic p := by
  induction ls with
  | nil => intro st st2 o h; simp only [verifyLoop] at h; cases h; simp
  | cons l ls ih =>
    intro st st2 o h
    unfold verifyLoop at h
    split at h
    · split at h
      · exact ih h
      · split at h
        · cases h; simp
        · split at h
          · exact ih h
          · cases h; simp
    · exact ih h

theorem verifyPhase_no_panic {cfg : Cfg} {hash : Bytes → Digest} {skip : List (Digest × Bool)} {ls : List Layer}
    {st st2 : Store} {o : Outcome} (p : PanicSite) (h : verifyPhase cfg hash skip ls st = (o, st2)) :
    o ≠ .panic p := by
  unfold verifyPhase at h
  split at h
  · cases h; simp
  · exact verifyLoop_no_panic p ls h

theorem removeBlobs_sub (used : List DRef) (ks : List DRef) :
    ∀ (b : Digest → Option Bytes) (x : Digest) (c : Bytes), removeBlobs used ks b x = some c → b x = some c := by
  induction ks with
  | nil => intro b x c h; exact h
  | cons k ks ih =>
    intro b x c h
    cases k with
    | empty => exact ih b x c (by simpa [removeBlobs] using h)
    | bad => exact ih b x c (by simpa [removeBlobs] using h)
    | ok d =>
      simp only [removeBlobs] at h
      split at h
      · exact ih b x c h
      · have := ih _ x c h
        by_cases e : x = d
        · subst e; simp [upd_same] at this
        · rwa [upd_other _ _ _ _ e] at this

theorem prunedBlobs_sub (cfg : Cfg) (name : Name) (m : Manifest) (st st2 : Store) (x : Digest) (c : Bytes)
    (h : prunedBlobs cfg name m st st2 x = some c) : st2.blobs x = some c := by
  unfold prunedBlobs at h
  split at h
  · exact h
  · exact removeBlobs_sub _ _ _ x c h

/-! ## resumed records: the plan does not depend on the order `filepath.Glob` returns them in -/

theorem globInsert_perm (x : Nat × Part) (l : List (Nat × Part)) : (globInsert x l).Perm (x :: l) := by
  induction l with
  | nil => exact List.Perm.refl _
  | cons y ys ih =>
    unfold globInsert
    split
    · exact List.Perm.refl _
    · exact (List.Perm.cons y ih).trans (List.Perm.swap x y ys)

theorem globSort_perm (l : List (Nat × Part)) : (globSort l).Perm l := by
  induction l with
  | nil => exact List.Perm.refl _
  | cons x xs ih =>
    unfold globSort
    exact (globInsert_perm x _).trans (List.Perm.cons x ih)

theorem perm_sum_nat {l₁ l₂ : List Nat} (h : l₁.Perm l₂) : l₁.sum = l₂.sum := by
  induction h with
  | nil => rfl
  | cons x _ ih => simp [ih]
  | swap x y l => simp; omega
  | trans _ _ ih1 ih2 => exact ih1.trans ih2

theorem indexFrom_map_snd (i : Nat) (ps : List Part) : (indexFrom i ps).map (·.2) = ps := by
  induction ps generalizing i with
  | nil => rfl
  | cons p ps ih => simp [indexFrom, ih]

/-- the records `Prepare` resumes from are the stored records, in some order … -/
theorem globParts_perm (ps : List Part) : ((globParts ps).map (·.2)).Perm ps := by
  have h := (globSort_perm (indexFrom 0 ps)).map (·.2)
  rw [indexFrom_map_snd] at h
  exact h

/-- … so `b.Total` (the length the `-partial` file is truncated to) is the sum of the record sizes
    whatever that order is -/
theorem resume_total_order_independent (ps : List Part) :
    ((globParts ps).map (·.2.size)).sum = (ps.map (·.size)).sum := by
  have h := perm_sum_nat ((globParts_perm ps).map (·.size))
  rw [List.map_map] at h
  exact h

/-! ## a pull that joins a transfer in flight -/

/-- repaired variant: whatever the joined transfer delivered (even corrupt bytes), the joining pull's
    download loop keeps "every blob hashes to its name" -/
theorem dlLoopJ_blobInv_early {cfg : Cfg} {hash : Bytes → Digest} {reg : Registry} {sc : Scripts}
    (hearly : cfg.verifyEarly = true) (x : Digest) (jr : JoinRes) (ls : List Layer) :
    ∀ {s s' : DlState} {o : Outcome}, dlLoopJ cfg hash reg sc x jr ls s = (o, s') →
      (∀ d c, s.st.blobs d = some c → hash c = d) → ∀ d c, s'.st.blobs d = some c → hash c = d := by
  induction ls with
  | nil =>
    intro s s' o h hinv
    simp only [dlLoopJ] at h
    cases h; exact hinv
  | cons l ls ih =>
    intro s s' o h hinv
    unfold dlLoopJ at h
    split at h
    · split at h
      · cases h; exact hinv
      · rename_i c
        split at h
        · cases h
          intro d c' hd
          by_cases e : d = x
          · subst e; simp [upd_same] at hd
          · simp only [upd_other _ _ _ _ e] at hd; exact hinv d c' hd
        · rename_i hcond
          refine ih h ?_
          intro d c' hd
          by_cases e : d = x
          · subst e
            simp only [upd_same] at hd
            cases hd
            simpa [hearly] using hcond
          · simp only [upd_other _ _ _ _ e] at hd; exact hinv d c' hd
    · split at h
      · rename_i s1 hdl
        exact ih h (dlLoop_blobInv_early hearly [l] hdl hinv)
      · rename_i r hne
        generalize hr : dlLoop cfg hash reg sc [l] s = q at h
        obtain ⟨o1, s1⟩ := q
        cases h
        exact dlLoop_blobInv_early hearly [l] hr hinv

/-- on success of the joining pull's download loop every layer is addressable and stored -/
theorem dlLoopJ_ok_present {cfg : Cfg} {hash : Bytes → Digest} {reg : Registry} {sc : Scripts}
    (x : Digest) (jr : JoinRes) (ls : List Layer) :
    ∀ {s s' : DlState}, dlLoopJ cfg hash reg sc x jr ls s = (.ok (), s') →
      (∀ d, (∃ c, s.st.blobs d = some c) → ∃ c, s'.st.blobs d = some c) ∧
      (∀ l ∈ ls, ∃ d c, l.digest = .ok d ∧ s'.st.blobs d = some c) := by
  induction ls with
  | nil =>
    intro s s' h
    simp only [dlLoopJ] at h
    cases h
    exact ⟨fun _ h => h, fun l hl => by cases hl⟩
  | cons l ls ih =>
    intro s s' h
    unfold dlLoopJ at h
    split at h
    · rename_i hx
      split at h
      · cases h
      · rename_i c
        split at h
        · cases h
        · obtain ⟨hk, hp⟩ := ih h
          have hxs : ∃ c', s'.st.blobs x = some c' := hk x ⟨c, by simp [upd_same]⟩
          refine ⟨?_, ?_⟩
          · intro d ⟨c', hd⟩
            apply hk
            by_cases e : d = x
            · subst e; exact ⟨c, by simp [upd_same]⟩
            · exact ⟨c', by simp only [upd_other _ _ _ _ e]; exact hd⟩
          · intro l' hl'
            rcases List.mem_cons.1 hl' with rfl | hin
            · obtain ⟨c', hc'⟩ := hxs
              exact ⟨x, c', hx, hc'⟩
            · exact hp l' hin
    · split at h
      · rename_i s1 hdl
        obtain ⟨hk, hp⟩ := ih h
        obtain ⟨_, ik, _, _⟩ := dlLoop_preserve [l] hdl
        refine ⟨?_, ?_⟩
        · intro d ⟨c', hd⟩
          exact hk d ⟨c', ik d c' hd⟩
        · intro l' hl'
          rcases List.mem_cons.1 hl' with rfl | hin
          · obtain ⟨d, c', hd, hc'⟩ := dlLoop_ok_present [l'] hdl l' (by simp)
            obtain ⟨c'', hc''⟩ := hk d ⟨c', hc'⟩
            exact ⟨d, c'', hd, hc''⟩
          · exact hp l' hin
      · rename_i r hne
        generalize hr : dlLoop cfg hash reg sc [l] s = q at h hne
        obtain ⟨o1, s1⟩ := q
        cases h
        exact absurd rfl (hne s')

/-! ## histories: what a pull does to the manifests, and what pruning spares -/

theorem lookupM_insertM_other (n name : Name) (v : MFile) (l : List (Name × MFile)) (h : n ≠ name) :
    lookupM n (insertM name v l) = lookupM n l := by
  induction l with
  | nil => simp [insertM, lookupM, Ne.symm h]
  | cons hd t ih =>
    obtain ⟨k, w⟩ := hd
    by_cases hk : k = name
    · subst hk
      simp [insertM, lookupM, Ne.symm h]
    · by_cases hn : k = n
      · subst hn
        simp [insertM, lookupM, h]
      · simp [insertM, lookupM, hk, hn, ih]

/-- pruning never removes a blob that some readable manifest still names -/
theorem removeBlobs_used (used : List DRef) (ks : List DRef) (d : Digest) (hu : DRef.ok d ∈ used) :
    ∀ (b : Digest → Option Bytes), removeBlobs used ks b d = b d := by
  induction ks with
  | nil => intro b; rfl
  | cons k ks ih =>
    intro b
    cases k with
    | empty => simpa [removeBlobs] using ih b
    | bad => simpa [removeBlobs] using ih b
    | ok x =>
      simp only [removeBlobs]
      split
      · exact ih b
      · rename_i hx
        have hne : d ≠ x := by
          intro e; subst e; exact hx hu
        rw [ih _, upd_other _ _ _ _ hne]

theorem usedRefs_mem (n : Name) (m : Manifest) (mans : List (Name × MFile))
    (h : lookupM n mans = some (.readable m)) : ∀ r ∈ layerRefs m, r ∈ usedRefs mans := by
  induction mans with
  | nil => simp [lookupM] at h
  | cons hd t ih =>
    obtain ⟨k, w⟩ := hd
    intro r hr
    by_cases hk : k = n
    · simp only [lookupM, hk, if_true] at h
      cases h
      simp [usedRefs, hr]
    · simp only [lookupM, hk, if_false] at h
      have := ih h r hr
      cases w with
      | readable m' => simp [usedRefs, this]
      | corrupt => simpa [usedRefs] using this

theorem all_digest_mem_layerRefs (m : Manifest) (l : Layer) (hl : l ∈ m.all) : l.digest ∈ layerRefs m := by
  unfold Manifest.all at hl
  unfold layerRefs
  rcases List.mem_append.1 hl with h | h
  · exact List.mem_append.2 (Or.inl (List.mem_map_of_mem h))
  · split at h
    · cases h
    · simp at h; subst h; simp

theorem prunedBlobs_keep_used (cfg : Cfg) (name : Name) (m : Manifest) (st st2 : Store) (d : Digest)
    (hu : DRef.ok d ∈ usedRefs (insertM name (.readable m) st2.manifests)) :
    prunedBlobs cfg name m st st2 d = st2.blobs d := by
  unfold prunedBlobs
  split
  · rfl
  · exact removeBlobs_used _ _ d hu _

/-- the manifests after a pull: the served manifest under the pulled name on success, untouched otherwise -/
theorem pull_manifests {cfg : Cfg} {hash : Bytes → Digest} {name : Name} {reg : Registry} {sc : Scripts}
    {st st' : Store} {o : Outcome} {log : Log} (h : pull cfg hash name reg sc st = (o, st', log)) :
    st'.manifests = if o = .ok () then insertM name (.readable reg.manifest) st.manifests else st.manifests := by
  rcases pull_cases h with ⟨hne, hst, _⟩ | ⟨_, s, hdl, hne, hst, _⟩ | ⟨net0, s, ov, st2, hdl, hv, _, hcase⟩
  · subst hst; simp [hne]
  · subst hst
    obtain ⟨hm, _⟩ := dlLoop_preserve _ hdl
    simp [hne, hm]
  · obtain ⟨hm, _⟩ := dlLoop_preserve _ hdl
    obtain ⟨vm, _⟩ := verifyPhase_any hv
    rcases hcase with ⟨hne, ho, hst⟩ | ⟨_, ho, hman, _⟩
    · subst hst; subst ho
      simp [hne, vm, hm]
    · subst ho
      simp only [if_true]
      rw [hman, vm, hm]

/-- a successful pull keeps every blob that a manifest of ANOTHER name refers to (all variants) -/
theorem pull_ok_keeps_named {cfg : Cfg} {hash : Bytes → Digest} {name : Name} {reg : Registry} {sc : Scripts}
    {st st' : Store} {log : Log} (h : pull cfg hash name reg sc st = (.ok (), st', log))
    (n : Name) (m : Manifest) (hn : n ≠ name) (hm : lookupM n st.manifests = some (.readable m))
    (l : Layer) (hl : l ∈ m.all) (d : Digest) (c : Bytes) (hd : l.digest = .ok d) (hc : st.blobs d = some c) :
    st'.blobs d = some c := by
  rcases pull_cases h with ⟨hne, _⟩ | ⟨_, _, _, hne, _⟩ | ⟨net0, s, ov, st2, hdl, hv, _, hcase⟩
  · exact absurd rfl hne
  · exact absurd rfl hne
  · rcases hcase with ⟨hne, ho, _⟩ | ⟨hov, _, _, hblobs⟩
    · exact absurd ho.symm hne
    · subst hov
      obtain ⟨hst2, _⟩ := verifyPhase_ok hv
      subst hst2
      obtain ⟨hmm, hk, _, _⟩ := dlLoop_preserve _ hdl
      rw [hblobs, prunedBlobs_keep_used]
      · exact hk d c hc
      · have hlook : lookupM n (insertM name (.readable reg.manifest) s.st.manifests) = some (.readable m) := by
          rw [lookupM_insertM_other _ _ _ _ hn, hmm]; exact hm
        have := usedRefs_mem n m _ hlook l.digest (all_digest_mem_layerRefs m l hl)
        rw [hd] at this; exact this

/-! ## the honest path from a single-part resume state (for `retry_can_succeed_resume`) -/
theorem resize_self (f : Bytes) : resize f f.length = f := by
  simp [resize, zeros]

/-- an honest chunk for a part that covers the whole blob and already has `done` bytes completes it -/
theorem chunkStep_honest_resume (c file : Bytes) (done : Nat) (w : Bool) (hlt : done < c.length) :
    chunkStep c honestReply ⟨file, ⟨0, c.length, done⟩, w⟩ =
      (.done, ⟨writeAt file done (c.drop done), ⟨0, c.length, c.length⟩, true⟩) := by
  have hlen : (c.drop done).length = c.length - done := by simp
  have hne : (c.drop done).isEmpty = false := by
    cases h : c.drop done with
    | nil => rw [h] at hlen; simp at hlen; omega
    | cons _ _ => rfl
  have htake : (c.drop done).take (c.length - done) = c.drop done := by
    rw [← hlen]; exact List.take_length
  have hadd : done + (c.length - done) = c.length := by omega
  simp only [chunkStep, honestReply, bodyOf, Nat.zero_add, htake, hlen, hne, if_true, Bool.not_false, Bool.or_true, hadd]
  simp



/-- what an interrupted or failed SINGLE-PART download of blob `c` leaves behind when the HEAD answer told the true
    length: the data file has the blob's length and agrees with it on the `done` bytes the record says are complete -/
def Resume1Ok (c : Bytes) (pa : Partial) : Prop :=
  ∃ data done, pa = ⟨some data, [⟨0, c.length, done⟩]⟩ ∧ done ≤ c.length ∧ data.length = c.length ∧
    data.take done = c.take done

theorem globParts_single (p : Part) : globParts [p] = [(0, p)] := by
  simp [globParts, indexFrom, globSort, globInsert]

theorem downloadLayer_honest_resume1 (cfg : Cfg) (reg : Registry) (d : Digest) (c : Bytes) (net : Net) (pa : Partial)
    (hret : 0 < cfg.retries) (hc : lookupC d reg.content = some c) (hpa : Resume1Ok c pa) :
    ∃ net', downloadLayer cfg reg d LScript.empty pa net = (.ok c, Partial.none, net') := by
  obtain ⟨data, done, rfl, hle, hlen, htake⟩ := hpa
  obtain ⟨t, ht⟩ : ∃ t, cfg.retries = t + 1 := ⟨cfg.retries - 1, by omega⟩
  have hres : resize data c.length = data := by rw [← hlen]; exact resize_self data
  by_cases hdone : done = c.length
  · -- every byte is there: nothing is requested, the file is renamed
    subst hdone
    have hdc : data = c := by
      rw [← List.take_length (l := data), hlen, htake, List.take_length]
    subst hdc
    have h1 : (downloadLayer cfg reg d LScript.empty ⟨some data, [⟨0, data.length, data.length⟩]⟩ net).1 = .ok data := by
      simp [downloadLayer, hc, LScript.empty, mrr_pass_direct, directLoop, replyFails, globParts_single,
        runPartsIdx, hres, resize_self]
    have h2 : (downloadLayer cfg reg d LScript.empty ⟨some data, [⟨0, data.length, data.length⟩]⟩ net).2.1 = Partial.none := by
      simp [downloadLayer, hc, LScript.empty, mrr_pass_direct, directLoop, replyFails, globParts_single,
        runPartsIdx, hres, resize_self]
    exact ⟨_, Prod.ext h1 (Prod.ext h2 rfl)⟩
  · have hlt : done < c.length := by omega
    have hne : c.drop done ≠ [] := by
      intro e
      have : (c.drop done).length = c.length - done := by simp
      rw [e] at this; simp at this; omega
    obtain ⟨wl, wt⟩ := writeAt_spec data (c.drop done) done hne (by simp; omega)
    have hfile : writeAt data done (c.drop done) = c := by
      have hl2 : (writeAt data done (c.drop done)).length = c.length := wl.trans hlen
      have hd : done + (c.drop done).length = c.length := by simp; omega
      rw [hd, htake, List.take_append_drop] at wt
      rw [← List.take_length (l := writeAt data done (c.drop done)), hl2, wt]
    have hnd : ¬ (done = c.length) := hdone
    have h1 : (downloadLayer cfg reg d LScript.empty ⟨some data, [⟨0, c.length, done⟩]⟩ net).1 = .ok c := by
      simp [downloadLayer, hc, LScript.empty, mrr_pass_direct, directLoop, replyFails, globParts_single,
        runPartsIdx, hres, hnd, runPart, ht, runTail, chunkStep_honest_resume c data done false hlt, hfile]
    have h2 : (downloadLayer cfg reg d LScript.empty ⟨some data, [⟨0, c.length, done⟩]⟩ net).2.1 = Partial.none := by
      simp [downloadLayer, hc, LScript.empty, mrr_pass_direct, directLoop, replyFails, globParts_single,
        runPartsIdx, hres, hnd, runPart, ht, runTail, chunkStep_honest_resume c data done false hlt, hfile]
    exact ⟨_, Prod.ext h1 (Prod.ext h2 rfl)⟩



/-- honest registry, honest scripts, resume state of the single-part kind allowed: the download loop succeeds and every
    blob it adds is the registry's -/
theorem dlLoop_honest_resume (cfg : Cfg) (hash : Bytes → Digest) (reg : Registry)
    (hret : 0 < cfg.retries) (hmin : 0 < cfg.minSize) (hmax : 0 < cfg.maxSize) (ls : List Layer) :
    ∀ (s : DlState),
      (∀ l ∈ ls, ∃ d c, l.digest = .ok d ∧ lookupC d reg.content = some c ∧ hash c = d) →
      (∀ d c, s.st.blobs d = some c → hash c = d) →
      (∀ l ∈ ls, ∀ d, l.digest = .ok d → s.st.blobs d = none → ∀ c, lookupC d reg.content = some c →
        s.st.partials d = Partial.none ∨ Resume1Ok c (s.st.partials d)) →
      s.canceled = false →
      ∃ s', dlLoop cfg hash reg Scripts.honest ls s = (.ok (), s') ∧
        (∀ d c, s'.st.blobs d = some c → hash c = d) := by
  induction ls with
  | nil => intro s _ hb _ _; exact ⟨s, rfl, hb⟩
  | cons l ls ih =>
    intro s hreg hb hclean hcan
    obtain ⟨d, c, hd, hc, hh⟩ := hreg l (by simp)
    have hreg' : ∀ l' ∈ ls, ∃ d c, l'.digest = .ok d ∧ lookupC d reg.content = some c ∧ hash c = d :=
      fun l' hl' => hreg l' (by simp [hl'])
    cases hbl : s.st.blobs d with
    | some c0 =>
      obtain ⟨s', hs', hb'⟩ := ih { s with skip := markSkip cfg d true s.skip } hreg' hb
        (fun l' hl' d' hd' hn => hclean l' (by simp [hl']) d' hd' hn) hcan
      refine ⟨s', ?_, hb'⟩
      simp only [dlLoop, hd, hbl]
      exact hs'
    | none =>
      have hdl : ∃ net', downloadLayer cfg reg d LScript.empty (s.st.partials d) s.net = (.ok c, Partial.none, net') := by
        rcases hclean l (by simp) d hd hbl c hc with hpa | hr
        · rw [hpa]; exact downloadLayer_honest cfg reg d c s.net hret hmin hmax hc
        · exact downloadLayer_honest_resume1 cfg reg d c s.net _ hret hc hr
      obtain ⟨net', hdl⟩ := hdl
      let s1 : DlState :=
        { st := { s.st with blobs := upd s.st.blobs d (some c), partials := upd s.st.partials d Partial.none }
          net := net', skip := markSkip cfg d false s.skip, renamed := s.renamed ++ [d], canceled := false }
      have hb1 : ∀ x cx, s1.st.blobs x = some cx → hash cx = x := by
        intro x cx hx
        by_cases e : x = d
        · subst e
          simp only [s1, upd_same] at hx
          cases hx; exact hh
        · simp only [s1, upd_other _ _ _ _ e] at hx
          exact hb x cx hx
      have hcl1 : ∀ l' ∈ ls, ∀ d', l'.digest = .ok d' → s1.st.blobs d' = none → ∀ c', lookupC d' reg.content = some c' →
          s1.st.partials d' = Partial.none ∨ Resume1Ok c' (s1.st.partials d') := by
        intro l' hl' d' hd' hn c' hc'
        by_cases e : d' = d
        · subst e; simp only [s1, upd_same] at hn; cases hn
        · simp only [s1, upd_other _ _ _ _ e] at hn ⊢
          exact hclean l' (by simp [hl']) d' hd' hn c' hc'
      obtain ⟨s', hs', hb'⟩ := ih s1 hreg' hb1 hcl1 rfl
      refine ⟨s', ?_, hb'⟩
      have hls : lookupS d Scripts.honest.layers = LScript.empty := rfl
      have hcond : (cfg.verifyEarly && hash c != d) = false := by simp [hh]
      have hcf : (false || (cfg.verifyEarly && Scripts.honest.cancel == some (CancelPoint.verifying s.renamed.length))) = false := by
        simp [Scripts.honest]
      simp only [dlLoop, hd, hbl, hls, hdl, hcond, hcan, hcf, Bool.false_eq_true, if_false]
      exact hs'

/-! ## the honest path from a multi-part resume state (pointwise argument, any Glob order) -/

theorem writeAt_getElem? (f d : Bytes) (off i : Nat) (hd : d ≠ []) (h : off + d.length ≤ f.length) :
    (writeAt f off d)[i]? = if off ≤ i ∧ i < off + d.length then d[i - off]? else f[i]? := by
  have he : d.isEmpty = false := by cases d <;> simp_all
  have hz : off - f.length = 0 := by omega
  unfold writeAt
  simp only [he, hz, zeros, List.replicate_zero, List.append_nil, Bool.false_eq_true, ↓reduceIte]
  have hlt : (f.take off).length = off := by simp; omega
  by_cases h1 : i < off
  · have : ¬ (off ≤ i ∧ i < off + d.length) := by omega
    rw [if_neg this, List.append_assoc, List.getElem?_append_left (by omega)]
    rw [List.getElem?_take]; simp [h1]
  · by_cases h2 : i < off + d.length
    · rw [if_pos ⟨by omega, h2⟩, List.append_assoc, List.getElem?_append_right (by omega), hlt,
        List.getElem?_append_left (by omega)]
    · have : ¬ (off ≤ i ∧ i < off + d.length) := by omega
      rw [if_neg this, List.getElem?_append_right (by simp; omega)]
      simp only [List.length_append, hlt, List.getElem?_drop]
      congr 1; omega

theorem writeAt_length (f d : Bytes) (off : Nat) (hd : d ≠ []) (h : off + d.length ≤ f.length) :
    (writeAt f off d).length = f.length := (writeAt_spec f d off hd h).1

/-- an honest chunk for a part inside the blob that still lacks bytes completes it, writing the blob's bytes -/
theorem chunkStep_honest_part (c file : Bytes) (p : Part) (w : Bool) (hlt : p.done < p.size)
    (hin : p.off + p.size ≤ c.length) :
    chunkStep c honestReply ⟨file, p, w⟩ =
      (.done, ⟨writeAt file (p.off + p.done) ((c.drop (p.off + p.done)).take (p.size - p.done)),
        { p with done := p.size }, true⟩) := by
  have hlen : ((c.drop (p.off + p.done)).take (p.size - p.done)).length = p.size - p.done := by
    simp only [List.length_take, List.length_drop]; omega
  have hne : ((c.drop (p.off + p.done)).take (p.size - p.done)).isEmpty = false := by
    cases h : (c.drop (p.off + p.done)).take (p.size - p.done) with
    | nil => rw [h] at hlen; simp at hlen; omega
    | cons _ _ => rfl
  have hsub : p.off + p.size - (p.off + p.done) = p.size - p.done := by omega
  have hadd : p.done + (p.size - p.done) = p.size := by omega
  simp only [chunkStep, honestReply, bodyOf, hsub, List.take_take, Nat.min_self, hlen, hne, if_true, Bool.not_false,
    Bool.or_true, hadd]
  simp

/-- the bytes a resumed download still has to fetch -/
def Pending (ps : List (Nat × Part)) (i : Nat) : Prop :=
  ∃ kp ∈ ps, kp.2.off + kp.2.done ≤ i ∧ i < kp.2.off + kp.2.size

/-- honest CDN, any records inside the blob, ANY order: every part completes, the file keeps its length, every pending
    byte becomes the blob's and every other byte is untouched -/
theorem runPartsIdx_honest (cfg : Cfg) (c : Bytes) (hret : 0 < cfg.retries) (ps : List (Nat × Part)) :
    ∀ (file : Bytes) (n : Nat), file.length = c.length →
      (∀ kp ∈ ps, kp.2.done ≤ kp.2.size ∧ kp.2.off + kp.2.size ≤ c.length) →
      ∃ file' res n', runPartsIdx cfg c [] ps file n = (true, file', res, n') ∧ file'.length = c.length ∧
        (∀ i, Pending ps i → file'[i]? = c[i]?) ∧ (∀ i, ¬ Pending ps i → file'[i]? = file[i]?) := by
  induction ps with
  | nil =>
    intro file n hl _
    refine ⟨file, [], n, rfl, hl, ?_, fun _ _ => rfl⟩
    intro i h
    obtain ⟨_, hm, _⟩ := h
    cases hm
  | cons kp ps ih =>
    obtain ⟨k, p⟩ := kp
    intro file n hl hall
    have hp : p.done ≤ p.size ∧ p.off + p.size ≤ c.length := hall (k, p) (by simp)
    have hrest : ∀ kp ∈ ps, kp.2.done ≤ kp.2.size ∧ kp.2.off + kp.2.size ≤ c.length :=
      fun kp h => hall kp (by simp [h])
    by_cases hdone : p.done = p.size
    · obtain ⟨file', res, n', hrun, hl', hpend, hnot⟩ := ih file n hl hrest
      refine ⟨file', (k, p) :: res, n', by simp [runPartsIdx, hdone, hrun], hl', ?_, ?_⟩
      · intro i hi
        obtain ⟨kq, hm, h1, h2⟩ := hi
        rcases List.mem_cons.1 hm with e | hm'
        · subst e; simp only at h1 h2; omega
        · exact hpend i ⟨kq, hm', h1, h2⟩
      · intro i hi
        exact hnot i (fun ⟨kq, hm, h1, h2⟩ => hi ⟨kq, by simp [hm], h1, h2⟩)
    · have hlt : p.done < p.size := by have := hp.1; omega
      obtain ⟨t, ht⟩ : ∃ t, cfg.retries = t + 1 := ⟨cfg.retries - 1, by omega⟩
      let body := (c.drop (p.off + p.done)).take (p.size - p.done)
      have hblen : body.length = p.size - p.done := by
        simp only [body, List.length_take, List.length_drop]; have := hp.2; omega
      have hbne : body ≠ [] := by
        intro e; rw [e] at hblen; simp at hblen; omega
      have hfit : p.off + p.done + body.length ≤ file.length := by rw [hblen, hl]; have := hp.2; omega
      let file1 := writeAt file (p.off + p.done) body
      have hl1 : file1.length = c.length := (writeAt_length file body _ hbne hfit).trans hl
      obtain ⟨file', res, n', hrun, hl', hpend, hnot⟩ := ih file1 (n + 1) hl1 hrest
      have hget : ∀ i, file1[i]? = if p.off + p.done ≤ i ∧ i < p.off + p.size then c[i]? else file[i]? := by
        intro i
        rw [show file1 = writeAt file (p.off + p.done) body from rfl, writeAt_getElem? file body _ i hbne hfit, hblen]
        have hsz : p.off + p.done + (p.size - p.done) = p.off + p.size := by omega
        rw [hsz]
        split
        · rename_i hin
          simp only [body, List.getElem?_take, List.getElem?_drop]
          have : i - (p.off + p.done) < p.size - p.done := by omega
          simp only [this, if_true]
          congr 1; omega
        · rfl
      refine ⟨file', (k, { p with done := p.size }) :: res, n', ?_, hl', ?_, ?_⟩
      · simp only [runPartsIdx, hdone, if_false, List.getD_eq_getElem?_getD, List.getElem?_nil, Option.getD_none,
          runPart, ht, runTail, chunkStep_honest_part c file p false hlt hp.2]
        simp only [body, file1] at hrun
        rw [hrun]
        simp
      · intro i hi
        by_cases hr : Pending ps i
        · exact hpend i hr
        · rw [hnot i hr, hget i]
          obtain ⟨kq, hm, h1, h2⟩ := hi
          rcases List.mem_cons.1 hm with e | hm'
          · subst e; simp only at h1 h2; simp [h1, h2]
          · exact absurd ⟨kq, hm', h1, h2⟩ hr
      · intro i hi
        have hr : ¬ Pending ps i := fun ⟨kq, hm, h1, h2⟩ => hi ⟨kq, by simp [hm], h1, h2⟩
        rw [hnot i hr, hget i]
        have : ¬ (p.off + p.done ≤ i ∧ i < p.off + p.size) := fun ⟨h1, h2⟩ => hi ⟨(k, p), by simp, h1, h2⟩
        rw [if_neg this]



/-- a resume state (data file + any number of part records) that FITS blob `c`: the data file has the blob's length, the
    record sizes add up to it (what `Prepare` takes as `b.Total`), every record lies inside the blob and counts at most
    its size as complete, the data file agrees with the blob on every byte a record counts as complete, and the
    records cover the blob.  This is what interrupted / failed attempts leave under truthful HEAD answers and honest
    bytes; it does not ask for any order of the records, nor for disjointness. -/
def ResumeFits (c : Bytes) (pa : Partial) : Prop :=
  ∃ data, pa.data = some data ∧ pa.parts ≠ [] ∧ data.length = c.length ∧
    (pa.parts.map (·.size)).sum = c.length ∧
    (∀ p ∈ pa.parts, p.done ≤ p.size ∧ p.off + p.size ≤ c.length ∧
      ∀ i, p.off ≤ i → i < p.off + p.done → data[i]? = c[i]?) ∧
    (∀ i, i < c.length → ∃ p ∈ pa.parts, p.off ≤ i ∧ i < p.off + p.size)

theorem mem_globParts {ps : List Part} {kp : Nat × Part} (h : kp ∈ globParts ps) : kp.2 ∈ ps :=
  (globParts_perm ps).mem_iff.1 (List.mem_map_of_mem h)

theorem mem_globParts_of_mem {ps : List Part} {p : Part} (h : p ∈ ps) : ∃ kp ∈ globParts ps, kp.2 = p := by
  have := (globParts_perm ps).mem_iff.2 h
  obtain ⟨kp, hk, e⟩ := List.mem_map.1 this
  exact ⟨kp, hk, e⟩

theorem downloadLayer_honest_resumeN (cfg : Cfg) (reg : Registry) (d : Digest) (c : Bytes) (net : Net) (pa : Partial)
    (hret : 0 < cfg.retries) (hc : lookupC d reg.content = some c) (hpa : ResumeFits c pa) :
    ∃ net', downloadLayer cfg reg d LScript.empty pa net = (.ok c, Partial.none, net') := by
  obtain ⟨pdata, parts⟩ := pa
  obtain ⟨data, hdat, hne, hlen, hsum, hall, hcover⟩ := hpa
  simp only at hdat hne hsum hall hcover
  subst hdat
  have hemp : parts.isEmpty = false := by cases parts <;> simp_all
  have htot : ((globParts parts).map (·.2.size)).sum = c.length := (resume_total_order_independent parts).trans hsum
  have hres : resize data c.length = data := by rw [← hlen]; exact resize_self data
  obtain ⟨file', res, n', hrun, hl', hpend, hnot⟩ := runPartsIdx_honest cfg c hret (globParts parts) data net.nc hlen
    (fun kp hk => ⟨(hall kp.2 (mem_globParts hk)).1, (hall kp.2 (mem_globParts hk)).2.1⟩)
  have hfc : file' = c := by
    apply List.ext_getElem?
    intro i
    by_cases hi : i < c.length
    · by_cases hp : Pending (globParts parts) i
      · exact hpend i hp
      · rw [hnot i hp]
        obtain ⟨p, hpm, h1, h2⟩ := hcover i hi
        obtain ⟨kp, hk, e⟩ := mem_globParts_of_mem hpm
        have hlt : i < p.off + p.done := by
          by_cases hge : p.off + p.done ≤ i
          · exact absurd ⟨kp, hk, by rw [e]; exact hge, by rw [e]; exact h2⟩ hp
          · omega
        exact (hall p hpm).2.2 i h1 hlt
    · rw [List.getElem?_eq_none (by omega), List.getElem?_eq_none (by omega)]
  subst hfc
  have h1 : (downloadLayer cfg reg d LScript.empty ⟨some data, parts⟩ net).1 = .ok file' := by
    simp [downloadLayer, hc, LScript.empty, mrr_pass_direct, directLoop, replyFails, hemp, htot, hres, hrun]
  have h2 : (downloadLayer cfg reg d LScript.empty ⟨some data, parts⟩ net).2.1 = Partial.none := by
    simp [downloadLayer, hc, LScript.empty, mrr_pass_direct, directLoop, replyFails, hemp, htot, hres, hrun]
  exact ⟨_, Prod.ext h1 (Prod.ext h2 rfl)⟩



/-- honest registry, honest scripts, resume state of the single-part kind or any fitting multi-part state allowed: the download loop succeeds and every
    blob it adds is the registry's -/
theorem dlLoop_honest_resumeN (cfg : Cfg) (hash : Bytes → Digest) (reg : Registry)
    (hret : 0 < cfg.retries) (hmin : 0 < cfg.minSize) (hmax : 0 < cfg.maxSize) (ls : List Layer) :
    ∀ (s : DlState),
      (∀ l ∈ ls, ∃ d c, l.digest = .ok d ∧ lookupC d reg.content = some c ∧ hash c = d) →
      (∀ d c, s.st.blobs d = some c → hash c = d) →
      (∀ l ∈ ls, ∀ d, l.digest = .ok d → s.st.blobs d = none → ∀ c, lookupC d reg.content = some c →
        s.st.partials d = Partial.none ∨ Resume1Ok c (s.st.partials d) ∨ ResumeFits c (s.st.partials d)) →
      s.canceled = false →
      ∃ s', dlLoop cfg hash reg Scripts.honest ls s = (.ok (), s') ∧
        (∀ d c, s'.st.blobs d = some c → hash c = d) := by
  induction ls with
  | nil => intro s _ hb _ _; exact ⟨s, rfl, hb⟩
  | cons l ls ih =>
    intro s hreg hb hclean hcan
    obtain ⟨d, c, hd, hc, hh⟩ := hreg l (by simp)
    have hreg' : ∀ l' ∈ ls, ∃ d c, l'.digest = .ok d ∧ lookupC d reg.content = some c ∧ hash c = d :=
      fun l' hl' => hreg l' (by simp [hl'])
    cases hbl : s.st.blobs d with
    | some c0 =>
      obtain ⟨s', hs', hb'⟩ := ih { s with skip := markSkip cfg d true s.skip } hreg' hb
        (fun l' hl' d' hd' hn => hclean l' (by simp [hl']) d' hd' hn) hcan
      refine ⟨s', ?_, hb'⟩
      simp only [dlLoop, hd, hbl]
      exact hs'
    | none =>
      have hdl : ∃ net', downloadLayer cfg reg d LScript.empty (s.st.partials d) s.net = (.ok c, Partial.none, net') := by
        rcases hclean l (by simp) d hd hbl c hc with hpa | hr | hn
        · rw [hpa]; exact downloadLayer_honest cfg reg d c s.net hret hmin hmax hc
        · exact downloadLayer_honest_resume1 cfg reg d c s.net _ hret hc hr
        · exact downloadLayer_honest_resumeN cfg reg d c s.net _ hret hc hn
      obtain ⟨net', hdl⟩ := hdl
      let s1 : DlState :=
        { st := { s.st with blobs := upd s.st.blobs d (some c), partials := upd s.st.partials d Partial.none }
          net := net', skip := markSkip cfg d false s.skip, renamed := s.renamed ++ [d], canceled := false }
      have hb1 : ∀ x cx, s1.st.blobs x = some cx → hash cx = x := by
        intro x cx hx
        by_cases e : x = d
        · subst e
          simp only [s1, upd_same] at hx
          cases hx; exact hh
        · simp only [s1, upd_other _ _ _ _ e] at hx
          exact hb x cx hx
      have hcl1 : ∀ l' ∈ ls, ∀ d', l'.digest = .ok d' → s1.st.blobs d' = none → ∀ c', lookupC d' reg.content = some c' →
          s1.st.partials d' = Partial.none ∨ Resume1Ok c' (s1.st.partials d') ∨ ResumeFits c' (s1.st.partials d') := by
        intro l' hl' d' hd' hn c' hc'
        by_cases e : d' = d
        · subst e; simp only [s1, upd_same] at hn; cases hn
        · simp only [s1, upd_other _ _ _ _ e] at hn ⊢
          exact hclean l' (by simp [hl']) d' hd' hn c' hc'
      obtain ⟨s', hs', hb'⟩ := ih s1 hreg' hb1 hcl1 rfl
      refine ⟨s', ?_, hb'⟩
      have hls : lookupS d Scripts.honest.layers = LScript.empty := rfl
      have hcond : (cfg.verifyEarly && hash c != d) = false := by simp [hh]
      have hcf : (false || (cfg.verifyEarly && Scripts.honest.cancel == some (CancelPoint.verifying s.renamed.length))) = false := by
        simp [Scripts.honest]
      simp only [dlLoop, hd, hbl, hls, hdl, hcond, hcan, hcf, Bool.false_eq_true, if_false]
      exact hs'

end OllamaVerif.Pull
