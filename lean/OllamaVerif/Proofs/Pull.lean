/-
  C03 helper lemmas for the pull model.
-/
import OllamaVerif.Model.Pull

namespace OllamaVerif.Pull

end OllamaVerif.Pull
