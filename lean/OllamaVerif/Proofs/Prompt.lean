/-
  Helper lemmas for C19 (model: Model/Prompt.lean).  Core Lean only.
-/
import OllamaVerif.Model.Prompt

namespace OllamaVerif.Prompt

/-! ### the backward loop -/

/-- The loop from the state it is in after the first (`continue`) iteration and after every
    successful iteration: next index to visit is `k-1`, and `n = k`. -/
theorem scan_diag (cfg : Cfg) (cost : Nat → Nat) (bad : Nat → Bool) (msgs : List Msg) :
    ∀ (k : Nat) (s : Option Nat) (q n' : Nat) (s' : Option Nat) (q' : Nat),
      scan cfg cost bad msgs k k s q = .done n' s' q' →
      n' ≤ k ∧ (∀ j, n' ≤ j → j < k → fits cfg cost msgs j = true) ∧
      (n' = 0 ∨ fits cfg cost msgs (n' - 1) = false) ∧
      (0 < k → s' = some (n' - 1)) ∧ (k = 0 → s' = s) := by
  intro k
  induction k with
  | zero =>
    intro s q n' s' q' h
    simp only [scan] at h
    injection h with h1 h2 h3
    subst h1; subst h2
    exact ⟨Nat.le_refl _, fun j _ hj => absurd hj (Nat.not_lt_zero _), Or.inl rfl,
      fun h => absurd h (Nat.lt_irrefl _), fun _ => rfl⟩
  | succ k ih =>
    intro s q n' s' q' h
    unfold scan at h
    split at h
    · cases h
    · have hne : ¬ (k = k + 1) := by omega
      simp only [hne, if_false] at h
      split at h
      · cases h
      split at h
      · rename_i hfit
        obtain ⟨h1, h2, h3, h4, h5⟩ := ih (some k) (q+1) n' s' q' h
        refine ⟨by omega, ?_, h3, ?_, fun hk => by omega⟩
        · intro j hj1 hj2
          by_cases hjk : j = k
          · subst hjk; exact hfit
          · exact h2 j hj1 (by omega)
        · intro _
          by_cases hk : k = 0
          · have := h5 hk
            subst hk
            have : n' = 0 := by omega
            subst this
            simpa using this
          · exact h4 (by omega)
      · rename_i hfit
        injection h with h1 h2 h3
        subst h1; subst h2
        refine ⟨Nat.le_refl _, fun j hj1 hj2 => by omega, Or.inr ?_, fun _ => rfl, fun hk => by omega⟩
        simpa using hfit

/-- number of tokenizer calls made by the loop in the diagonal state -/
theorem scan_diag_evals (cfg : Cfg) (cost : Nat → Nat) (bad : Nat → Bool) (msgs : List Msg) :
    ∀ (k : Nat) (s : Option Nat) (q n' : Nat) (s' : Option Nat) (q' : Nat),
      scan cfg cost bad msgs k k s q = .done n' s' q' →
      q' = q + (k - n') + (if n' = 0 then 0 else 1) := by
  intro k
  induction k with
  | zero =>
    intro s q n' s' q' h
    simp only [scan] at h
    injection h with h1 h2 h3
    subst h1; subst h3
    simp
  | succ k ih =>
    intro s q n' s' q' h
    unfold scan at h
    split at h
    · cases h
    · have hne : ¬ (k = k + 1) := by omega
      simp only [hne, if_false] at h
      split at h
      · cases h
      split at h
      · have hd' := scan_diag cfg cost bad msgs k (some k) (q+1) n' s' q' h
        have := ih (some k) (q+1) n' s' q' h
        rw [this]
        obtain ⟨h1, _, _, _, _⟩ := hd'
        omega
      · injection h with h1 h2 h3
        subst h1; subst h3
        simp

/-- the loop as chatPrompt starts it on a non-empty conversation of length `k+1` -/
theorem scan_start (cfg : Cfg) (cost : Nat → Nat) (bad : Nat → Bool) (msgs : List Msg) (k n' : Nat)
    (s' : Option Nat) (q' : Nat)
    (h : scan cfg cost bad msgs (k+1) k none 0 = .done n' s' q') :
    scan cfg cost bad msgs k k none 0 = .done n' s' q' := by
  unfold scan at h
  split at h
  · cases h
  · simpa using h

/-! ### the rewriting loops -/

def countTag (k : Nat) (c : List Piece) : Nat := c.countP (fun p => p == Piece.tag k)

/-- literal text and markers with every placeholder / tag removed -/
def strip (c : List Piece) : List Piece :=
  c.filter (fun p => match p with | .lit _ => true | _ => false)

@[simp] theorem countTag_append (k : Nat) (a b : List Piece) :
    countTag k (a ++ b) = countTag k a + countTag k b := by
  simp [countTag, List.countP_append]

theorem countTag_fillSlot (k t : Nat) : ∀ (c : List Piece), hasSlot c = true →
    countTag k (fillSlot t c) = countTag k c + (if k = t then 1 else 0) := by
  intro c
  induction c with
  | nil => intro h; simp [hasSlot] at h
  | cons p r ih =>
    intro h
    cases p with
    | slot =>
      simp only [fillSlot, countTag, List.countP_cons]
      by_cases hk : k = t
      · subst hk; simp
      · have : ¬ (t = k) := fun h => hk h.symm
        simp [hk, this]
    | lit b =>
      have h' : hasSlot r = true := by simpa [hasSlot] using h
      have := ih h'
      simp only [fillSlot, countTag, List.countP_cons] at this ⊢
      simp; omega
    | tag j =>
      have h' : hasSlot r = true := by simpa [hasSlot] using h
      have := ih h'
      simp only [fillSlot, countTag, List.countP_cons] at this ⊢
      omega
    | mm =>
      have h' : hasSlot r = true := by simpa [hasSlot] using h
      have := ih h'
      simp only [fillSlot, countTag, List.countP_cons] at this ⊢
      simp; omega

theorem strip_fillSlot (t : Nat) : ∀ (c : List Piece), strip (fillSlot t c) = strip c := by
  intro c
  induction c with
  | nil => rfl
  | cons p r ih =>
    cases p <;> simp_all [fillSlot, strip]

@[simp] theorem strip_append (a b : List Piece) : strip (a ++ b) = strip a ++ strip b := by
  simp [strip]

/-- invariant of one image step -/
structure StepInv (st st' : RW) (im : Img) : Prop where
  acc : st'.acc.map (·.src) = st.acc.map (·.src) ++ [im.src]
  lastId : ∃ o, st'.acc = st.acc ++ [o] ∧ o.id = st.acc.length ∧ o.src = im.src
  count : ∀ k, countTag k (st'.pre ++ st'.body) =
      countTag k (st.pre ++ st.body) + (if k = st.acc.length then 1 else 0)
  body : strip st'.body = strip st.body
  preTags : strip st.pre = [] → strip st'.pre = []

theorem imgData_ok (cfg : Cfg) (id : Nat) (im : Img) (mm mm' : Bool) (o : ImgOut)
    (h : imgData cfg id im mm = .ok (o, mm')) : o.id = id ∧ o.src = im.src := by
  unfold imgData at h
  split at h
  · split at h
    · injection h with h; injection h with h1 h2; subst h1; exact ⟨rfl, rfl⟩
    · split at h
      · injection h with h; injection h with h1 h2; subst h1; exact ⟨rfl, rfl⟩
      · cases h
  · injection h with h; injection h with h1 h2; subst h1; exact ⟨rfl, rfl⟩

theorem stepImg_inv (cfg : Cfg) (st st' : RW) (im : Img) (h : stepImg cfg st im = .ok st') :
    StepInv st st' im := by
  unfold stepImg at h
  split at h
  · cases h
  · rename_i o mm hr
    have ho := imgData_ok cfg _ im _ _ o hr
    split at h
    · rename_i hs
      injection h with h; subst h
      refine ⟨by simp [ho.2], ⟨o, rfl, ho.1, ho.2⟩, ?_, strip_fillSlot _ _, fun h => h⟩
      intro k
      simp only [countTag_append, countTag_fillSlot k _ _ hs]
      omega
    · injection h with h; subst h
      refine ⟨by simp [ho.2], ⟨o, rfl, ho.1, ho.2⟩, ?_, rfl, ?_⟩
      · intro k
        simp only [countTag_append]
        have : countTag k [Piece.tag st.acc.length] = if k = st.acc.length then 1 else 0 := by
          by_cases hk : k = st.acc.length
          · subst hk; simp [countTag]
          · have : ¬ (st.acc.length = k) := fun h => hk h.symm
            simp [countTag, hk, this]
        rw [this]; omega
      · intro hp
        rw [strip_append, hp]; rfl

/-- ids of an accumulated image list are the positions -/
def IdsOk (acc : List ImgOut) : Prop := ∀ k (h : k < acc.length), (acc[k]).id = k

theorem IdsOk_snoc (acc : List ImgOut) (o : ImgOut) (h : IdsOk acc) (ho : o.id = acc.length) :
    IdsOk (acc ++ [o]) := by
  intro k hk
  by_cases hlt : k < acc.length
  · rw [List.getElem_append_left hlt]; exact h k hlt
  · have : k = acc.length := by simp at hk; omega
    subst this
    simp [ho]

theorem foldImgs_inv (cfg : Cfg) : ∀ (ims : List Img) (st st' : RW),
    foldImgs cfg ims st = .ok st' →
    st'.acc.map (·.src) = st.acc.map (·.src) ++ ims.map (·.src) ∧
    st'.acc.length = st.acc.length + ims.length ∧
    (IdsOk st.acc → IdsOk st'.acc) ∧
    (∀ k, countTag k (st'.pre ++ st'.body) = countTag k (st.pre ++ st.body) +
        (if st.acc.length ≤ k ∧ k < st'.acc.length then 1 else 0)) ∧
    strip st'.body = strip st.body ∧ (strip st.pre = [] → strip st'.pre = []) := by
  intro ims
  induction ims with
  | nil =>
    intro st st' h
    simp only [foldImgs] at h
    injection h with h; subst h
    refine ⟨by simp, by simp, fun h => h, ?_, rfl, fun h => h⟩
    intro k
    have : ¬ (st.acc.length ≤ k ∧ k < st.acc.length) := by omega
    simp [this]
  | cons im ims ih =>
    intro st st' h
    simp only [foldImgs] at h
    split at h
    · cases h
    · rename_i st1 h1
      have inv := stepImg_inv cfg st st1 im h1
      obtain ⟨a, b, c, d, e, f⟩ := ih st1 st' h
      obtain ⟨o, ho1, ho2, _⟩ := inv.lastId
      have hlen : st1.acc.length = st.acc.length + 1 := by rw [ho1]; simp
      refine ⟨?_, ?_, ?_, ?_, ?_, ?_⟩
      · rw [a, inv.acc]; simp
      · rw [b, hlen]; simp; omega
      · intro hi
        apply c
        rw [ho1]
        exact IdsOk_snoc _ _ hi ho2
      · intro k
        rw [d k, inv.count k, hlen]
        have hb : st'.acc.length = st.acc.length + 1 + ims.length := by rw [b, hlen]
        by_cases h1 : k = st.acc.length
        · subst h1
          have : ¬ (st.acc.length + 1 ≤ st.acc.length ∧ st.acc.length < st'.acc.length) := by omega
          have h2 : st.acc.length ≤ st.acc.length ∧ st.acc.length < st'.acc.length := by omega
          rw [if_neg this, if_pos h2, if_pos rfl]
        · by_cases h2 : st.acc.length + 1 ≤ k ∧ k < st'.acc.length
          · have h3 : st.acc.length ≤ k ∧ k < st'.acc.length := by omega
            rw [if_pos h2, if_pos h3, if_neg h1]
          · have h3 : ¬ (st.acc.length ≤ k ∧ k < st'.acc.length) := by omega
            rw [if_neg h2, if_neg h3, if_neg h1]
      · rw [e, inv.body]
      · intro hp; exact f (inv.preTags hp)

@[simp] theorem countTag_mm (k : Nat) (b : Bool) :
    countTag k (if b then [Piece.mm] else []) = 0 := by
  cases b <;> simp [countTag]

@[simp] theorem strip_mm (b : Bool) : strip (if b then [Piece.mm] else []) = [] := by
  cases b <;> simp [strip]

/-- what one message rewrite does -/
theorem rewriteMsg_inv (cfg : Cfg) (m m' : Msg) (acc acc' : List ImgOut)
    (h : rewriteMsg cfg m acc = .ok (m', acc')) :
    m'.role = m.role ∧ m'.images = m.images ∧ strip m'.content = strip m.content ∧
    acc'.map (·.src) = acc.map (·.src) ++ m.images.map (·.src) ∧
    acc'.length = acc.length + m.images.length ∧
    (IdsOk acc → IdsOk acc') ∧
    (∀ k, countTag k m'.content = countTag k m.content +
        (if acc.length ≤ k ∧ k < acc'.length then 1 else 0)) := by
  unfold rewriteMsg at h
  split at h
  · cases h
  · rename_i st hst
    injection h with h
    injection h with h1 h2
    subst h1; subst h2
    obtain ⟨a, b, c, d, e, f⟩ := foldImgs_inv cfg m.images _ st hst
    refine ⟨rfl, rfl, ?_, a, b, c, ?_⟩
    · have hp := f rfl
      simp only [assemble, strip_append, hp, strip_mm, e]
      simp
    · intro k
      have := d k
      simp only [countTag_append, List.nil_append] at this
      simp only [assemble, countTag_append, countTag_mm]
      simp only [countTag] at this ⊢
      simp at this ⊢
      omega

/-- corresponding original / rewritten messages -/
structure SameMsg (m m' : Msg) : Prop where
  role : m'.role = m.role
  images : m'.images = m.images
  text : strip m'.content = strip m.content

/-- pointwise correspondence of two message lists (core has no `Forall₂`) -/
inductive AllSame : List Msg → List Msg → Prop
  | nil : AllSame [] []
  | cons {m m' ms ms'} : SameMsg m m' → AllSame ms ms' → AllSame (m :: ms) (m' :: ms')

theorem rewriteAll_inv (cfg : Cfg) : ∀ (ms ms' : List Msg) (acc acc' : List ImgOut),
    rewriteAll cfg ms acc = .ok (ms', acc') →
    AllSame ms ms' ∧
    acc'.map (·.src) = acc.map (·.src) ++ ms.flatMap (fun m => m.images.map (·.src)) ∧
    acc.length ≤ acc'.length ∧
    (IdsOk acc → IdsOk acc') ∧
    (∀ k, countTag k (ms'.flatMap (·.content)) = countTag k (ms.flatMap (·.content)) +
        (if acc.length ≤ k ∧ k < acc'.length then 1 else 0)) := by
  intro ms
  induction ms with
  | nil =>
    intro ms' acc acc' h
    simp only [rewriteAll] at h
    injection h with h
    injection h with h1 h2
    subst h1; subst h2
    refine ⟨AllSame.nil, by simp, Nat.le_refl _, fun h => h, ?_⟩
    intro k
    have : ¬ (acc.length ≤ k ∧ k < acc.length) := by omega
    simp [this]
  | cons m ms ih =>
    intro ms' acc acc' h
    simp only [rewriteAll] at h
    split at h
    · cases h
    · rename_i m1 acc1 h1
      split at h
      · cases h
      · rename_i ms1 acc2 h2
        injection h with h
        injection h with h3 h4
        subst h3; subst h4
        obtain ⟨r1, r2, r3, r4, r5, r6, r7⟩ := rewriteMsg_inv cfg m m1 acc acc1 h1
        obtain ⟨i1, i2, i3, i4, i5⟩ := ih ms1 acc1 acc2 h2
        refine ⟨AllSame.cons ⟨r1, r2, r3⟩ i1, ?_, by omega, fun h => i4 (r6 h), ?_⟩
        · rw [i2, r4]; simp
        · intro k
          simp only [List.flatMap_cons, countTag_append]
          rw [i5 k, r7 k]
          by_cases c1 : acc.length ≤ k ∧ k < acc1.length
          · have c2 : ¬ (acc1.length ≤ k ∧ k < acc2.length) := by omega
            have c3 : acc.length ≤ k ∧ k < acc2.length := by omega
            rw [if_pos c1, if_neg c2, if_pos c3]; omega
          · by_cases c2 : acc1.length ≤ k ∧ k < acc2.length
            · have c3 : acc.length ≤ k ∧ k < acc2.length := by omega
              rw [if_neg c1, if_pos c2, if_pos c3]; omega
            · have c3 : ¬ (acc.length ≤ k ∧ k < acc2.length) := by omega
              rw [if_neg c1, if_neg c2, if_neg c3]; omega

/-- every message's NEW tags are exactly the indices of its own images: `b` is the number of
    images returned before this message -/
inductive Owned : Nat → List Msg → List Msg → Prop
  | nil {b} : Owned b [] []
  | cons {b m m' ms ms'} :
      (∀ k, countTag k m'.content = countTag k m.content +
        (if b ≤ k ∧ k < b + m.images.length then 1 else 0)) →
      Owned (b + m.images.length) ms ms' → Owned b (m :: ms) (m' :: ms')

theorem rewriteAll_owned (cfg : Cfg) : ∀ (ms ms' : List Msg) (acc acc' : List ImgOut),
    rewriteAll cfg ms acc = .ok (ms', acc') → Owned acc.length ms ms' := by
  intro ms
  induction ms with
  | nil =>
    intro ms' acc acc' h
    simp only [rewriteAll] at h
    injection h with h
    injection h with h1 h2
    subst h1
    exact Owned.nil
  | cons m ms ih =>
    intro ms' acc acc' h
    simp only [rewriteAll] at h
    split at h
    · cases h
    · rename_i m1 acc1 h1
      split at h
      · cases h
      · rename_i ms1 acc2 h2
        injection h with h
        injection h with h3 h4
        subst h3
        obtain ⟨_, _, _, _, r5, _, r7⟩ := rewriteMsg_inv cfg m m1 acc acc1 h1
        have := ih ms1 acc1 acc2 h2
        rw [r5] at this
        refine Owned.cons ?_ this
        intro k
        rw [r7 k, r5]


/-! ### bytes ↔ pieces -/


theorem renderPieces_flushLit (acc : Bytes) : renderPieces (flushLit acc) = acc.reverse := by
  unfold flushLit
  cases acc <;> simp [renderPieces, renderPiece]

theorem splitGo_render : ∀ (bs : Bytes) (skip : Nat) (acc : Bytes),
    renderPieces (splitGo bs skip acc) = acc.reverse ++ bs.drop skip := by
  intro bs
  induction bs with
  | nil => intro skip acc; simp [splitGo, renderPieces_flushLit]
  | cons b bs ih =>
    intro skip acc
    cases skip with
    | succ k => simp [splitGo, ih]
    | zero =>
      simp only [splitGo]
      split
      · rename_i hp
        obtain ⟨t, ht⟩ := List.isPrefixOf_iff_prefix.mp hp
        have hb : b = 91 ∧ bs = [105, 109, 103, 93] ++ t := by
          simp only [bImg, List.cons_append, List.nil_append] at ht
          injection ht with h1 h2
          exact ⟨h1.symm, by simpa using h2.symm⟩
        have := ih 4 []
        simp only [renderPieces, List.flatMap_append, List.flatMap_cons] at this ⊢
        rw [this]
        have h2 := renderPieces_flushLit acc
        simp only [renderPieces] at h2
        rw [h2, hb.1, hb.2]
        simp [renderPiece, bImg]
      · rw [ih 0 (b :: acc)]
        simp

/-- the piece representation loses nothing: rendering the parsed content gives the bytes back -/
theorem splitImg_render (s : Bytes) : renderPieces (splitImg s) = s := by
  simp [splitImg, splitGo_render]



theorem countTag_flushLit (k : Nat) (acc : Bytes) : countTag k (flushLit acc) = 0 := by
  unfold flushLit
  cases acc <;> simp [countTag]

theorem splitGo_noTag (k : Nat) : ∀ (bs : Bytes) (skip : Nat) (acc : Bytes),
    countTag k (splitGo bs skip acc) = 0 := by
  intro bs
  induction bs with
  | nil => intro skip acc; simp [splitGo, countTag_flushLit]
  | cons b bs ih =>
    intro skip acc
    cases skip with
    | succ j => simp [splitGo, ih]
    | zero =>
      simp only [splitGo]
      split
      · have := ih 4 []
        simp only [countTag_append, countTag_flushLit, Nat.zero_add]
        simp only [countTag, List.countP_cons] at this ⊢
        simpa using this
      · exact ih 0 (b :: acc)

/-- parsed raw content never contains a tag piece: the hypothesis of `images_once_indexed` holds
    for every conversation the oracle parses -/
theorem splitImg_noTag (k : Nat) (s : Bytes) : countTag k (splitImg s) = 0 :=
  splitGo_noTag k s 0 []


end OllamaVerif.Prompt
