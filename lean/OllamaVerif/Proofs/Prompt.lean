/-
  Helper lemmas for C19 (model: Model/Prompt.lean).  Core Lean only.
-/
import OllamaVerif.Model.Prompt

namespace OllamaVerif.Prompt

/-! ### the backward loop -/

/-- The loop from the state it is in after the first (`continue`) iteration and after every
    successful iteration: next index to visit is `k-1`, and `n = k`. -/
theorem scan_diag (cfg : Cfg) (cost : Nat → Nat) (bad : Nat → Bool) (msgs : List Msg) :
    ∀ (k : Nat) (s : Option Nat) (q n' : Nat) (s' : Option Nat) (q' : Nat),
      scan cfg cost bad msgs k k s q = .done n' s' q' →
      n' ≤ k ∧ (∀ j, n' ≤ j → j < k → fits cfg cost msgs j = true) ∧
      (n' = 0 ∨ fits cfg cost msgs (n' - 1) = false) ∧
      (0 < k → s' = some (n' - 1)) ∧ (k = 0 → s' = s) := by
  intro k
  induction k with
  | zero =>
    intro s q n' s' q' h
    simp only [scan] at h
    injection h with h1 h2 h3
    subst h1; subst h2
    exact ⟨Nat.le_refl _, fun j _ hj => absurd hj (Nat.not_lt_zero _), Or.inl rfl,
      fun h => absurd h (Nat.lt_irrefl _), fun _ => rfl⟩
  | succ k ih =>
    intro s q n' s' q' h
    unfold scan at h
    split at h
    · cases h
    · have hne : ¬ (k = k + 1) := by omega
      simp only [hne, if_false] at h
      split at h
      · cases h
      split at h
      · rename_i hfit
        obtain ⟨h1, h2, h3, h4, h5⟩ := ih (some k) (q+1) n' s' q' h
        refine ⟨by omega, ?_, h3, ?_, fun hk => by omega⟩
        · intro j hj1 hj2
          by_cases hjk : j = k
          · subst hjk; exact hfit
          · exact h2 j hj1 (by omega)
        · intro _
          by_cases hk : k = 0
          · have := h5 hk
            subst hk
            have : n' = 0 := by omega
            subst this
            simpa using this
          · exact h4 (by omega)
      · rename_i hfit
        injection h with h1 h2 h3
        subst h1; subst h2
        refine ⟨Nat.le_refl _, fun j hj1 hj2 => by omega, Or.inr ?_, fun _ => rfl, fun hk => by omega⟩
        simpa using hfit

/-- number of tokenizer calls made by the loop in the diagonal state -/
theorem scan_diag_evals (cfg : Cfg) (cost : Nat → Nat) (bad : Nat → Bool) (msgs : List Msg) :
    ∀ (k : Nat) (s : Option Nat) (q n' : Nat) (s' : Option Nat) (q' : Nat),
      scan cfg cost bad msgs k k s q = .done n' s' q' →
      q' = q + (k - n') + (if n' = 0 then 0 else 1) := by
  intro k
  induction k with
  | zero =>
    intro s q n' s' q' h
    simp only [scan] at h
    injection h with h1 h2 h3
    subst h1; subst h3
    simp
  | succ k ih =>
    intro s q n' s' q' h
    unfold scan at h
    split at h
    · cases h
    · have hne : ¬ (k = k + 1) := by omega
      simp only [hne, if_false] at h
      split at h
      · cases h
      split at h
      · have hd' := scan_diag cfg cost bad msgs k (some k) (q+1) n' s' q' h
        have := ih (some k) (q+1) n' s' q' h
        rw [this]
        obtain ⟨h1, _, _, _, _⟩ := hd'
        omega
      · injection h with h1 h2 h3
        subst h1; subst h3
        simp

/-- the loop as chatPrompt starts it on a non-empty conversation of length `k+1` -/
theorem scan_start (cfg : Cfg) (cost : Nat → Nat) (bad : Nat → Bool) (msgs : List Msg) (k n' : Nat)
    (s' : Option Nat) (q' : Nat)
    (h : scan cfg cost bad msgs (k+1) k none 0 = .done n' s' q') :
    scan cfg cost bad msgs k k none 0 = .done n' s' q' := by
  unfold scan at h
  split at h
  · cases h
  · simpa using h

/-! ### the rewriting loops -/

def countTag (k : Nat) (c : List Piece) : Nat := c.countP (fun p => p == Piece.tag k)

/-- literal text and markers with every placeholder / tag removed -/
def strip (c : List Piece) : List Piece :=
  c.filter (fun p => match p with | .lit _ => true | _ => false)

@[simp] theorem countTag_append (k : Nat) (a b : List Piece) :
    countTag k (a ++ b) = countTag k a + countTag k b := by
  simp [countTag, List.countP_append]

theorem countTag_fillSlot (k t : Nat) : ∀ (c : List Piece), hasSlot c = true →
    countTag k (fillSlot t c) = countTag k c + (if k = t then 1 else 0) := by
  intro c
  induction c with
  | nil => intro h; simp [hasSlot] at h
  | cons p r ih =>
    intro h
    cases p with
    | slot =>
      simp only [fillSlot, countTag, List.countP_cons]
      by_cases hk : k = t
      · subst hk; simp
      · have : ¬ (t = k) := fun h => hk h.symm
        simp [hk, this]
    | lit b =>
      have h' : hasSlot r = true := by simpa [hasSlot] using h
      have := ih h'
      simp only [fillSlot, countTag, List.countP_cons] at this ⊢
      simp; omega
    | tag j =>
      have h' : hasSlot r = true := by simpa [hasSlot] using h
      have := ih h'
      simp only [fillSlot, countTag, List.countP_cons] at this ⊢
      omega
    | mm =>
      have h' : hasSlot r = true := by simpa [hasSlot] using h
      have := ih h'
      simp only [fillSlot, countTag, List.countP_cons] at this ⊢
      simp; omega

theorem strip_fillSlot (t : Nat) : ∀ (c : List Piece), strip (fillSlot t c) = strip c := by
  intro c
  induction c with
  | nil => rfl
  | cons p r ih =>
    cases p <;> simp_all [fillSlot, strip]

@[simp] theorem strip_append (a b : List Piece) : strip (a ++ b) = strip a ++ strip b := by
  simp [strip]

/-- invariant of one image step -/
structure StepInv (st st' : RW) (im : Img) : Prop where
  acc : st'.acc.map (·.src) = st.acc.map (·.src) ++ [im.src]
  lastId : ∃ o, st'.acc = st.acc ++ [o] ∧ o.id = st.acc.length ∧ o.src = im.src
  count : ∀ k, countTag k (st'.pre ++ st'.body) =
      countTag k (st.pre ++ st.body) + (if k = st.acc.length then 1 else 0)
  body : strip st'.body = strip st.body
  preTags : strip st.pre = [] → strip st'.pre = []

theorem imgData_ok (cfg : Cfg) (id : Nat) (im : Img) (mm mm' : Bool) (o : ImgOut)
    (h : imgData cfg id im mm = .ok (o, mm')) : o.id = id ∧ o.src = im.src := by
  unfold imgData at h
  split at h
  · split at h
    · injection h with h; injection h with h1 h2; subst h1; exact ⟨rfl, rfl⟩
    · split at h
      · injection h with h; injection h with h1 h2; subst h1; exact ⟨rfl, rfl⟩
      · cases h
  · injection h with h; injection h with h1 h2; subst h1; exact ⟨rfl, rfl⟩

theorem stepImg_inv (cfg : Cfg) (st st' : RW) (im : Img) (h : stepImg cfg st im = .ok st') :
    StepInv st st' im := by
  unfold stepImg at h
  split at h
  · cases h
  · rename_i o mm hr
    have ho := imgData_ok cfg _ im _ _ o hr
    split at h
    · rename_i hs
      injection h with h; subst h
      refine ⟨by simp [ho.2], ⟨o, rfl, ho.1, ho.2⟩, ?_, strip_fillSlot _ _, fun h => h⟩
      intro k
      simp only [countTag_append, countTag_fillSlot k _ _ hs]
      omega
    · injection h with h; subst h
      refine ⟨by simp [ho.2], ⟨o, rfl, ho.1, ho.2⟩, ?_, rfl, ?_⟩
      · intro k
        simp only [countTag_append]
        have : countTag k [Piece.tag st.acc.length] = if k = st.acc.length then 1 else 0 := by
          by_cases hk : k = st.acc.length
          · subst hk; simp [countTag]
          · have : ¬ (st.acc.length = k) := fun h => hk h.symm
            simp [countTag, hk, this]
        rw [this]; omega
      · intro hp
        rw [strip_append, hp]; rfl

/-- ids of an accumulated image list are the positions -/
def IdsOk (acc : List ImgOut) : Prop := ∀ k (h : k < acc.length), (acc[k]).id = k

theorem IdsOk_snoc (acc : List ImgOut) (o : ImgOut) (h : IdsOk acc) (ho : o.id = acc.length) :
    IdsOk (acc ++ [o]) := by
  intro k hk
  by_cases hlt : k < acc.length
  · rw [List.getElem_append_left hlt]; exact h k hlt
  · have : k = acc.length := by simp at hk; omega
    subst this
    simp [ho]

theorem foldImgs_inv (cfg : Cfg) : ∀ (ims : List Img) (st st' : RW),
    foldImgs cfg ims st = .ok st' →
    st'.acc.map (·.src) = st.acc.map (·.src) ++ ims.map (·.src) ∧
    st'.acc.length = st.acc.length + ims.length ∧
    (IdsOk st.acc → IdsOk st'.acc) ∧
    (∀ k, countTag k (st'.pre ++ st'.body) = countTag k (st.pre ++ st.body) +
        (if st.acc.length ≤ k ∧ k < st'.acc.length then 1 else 0)) ∧
    strip st'.body = strip st.body ∧ (strip st.pre = [] → strip st'.pre = []) := by
  intro ims
  induction ims with
  | nil =>
    intro st st' h
    simp only [foldImgs] at h
    injection h with h; subst h
    refine ⟨by simp, by simp, fun h => h, ?_, rfl, fun h => h⟩
    intro k
    have : ¬ (st.acc.length ≤ k ∧ k < st.acc.length) := by omega
    simp [this]
  | cons im ims ih =>
    intro st st' h
    simp only [foldImgs] at h
    split at h
    · cases h
    · rename_i st1 h1
      have inv := stepImg_inv cfg st st1 im h1
      obtain ⟨a, b, c, d, e, f⟩ := ih st1 st' h
      obtain ⟨o, ho1, ho2, _⟩ := inv.lastId
      have hlen : st1.acc.length = st.acc.length + 1 := by rw [ho1]; simp
      refine ⟨?_, ?_, ?_, ?_, ?_, ?_⟩
      · rw [a, inv.acc]; simp
      · rw [b, hlen]; simp; omega
      · intro hi
        apply c
        rw [ho1]
        exact IdsOk_snoc _ _ hi ho2
      · intro k
        rw [d k, inv.count k, hlen]
        have hb : st'.acc.length = st.acc.length + 1 + ims.length := by rw [b, hlen]
        by_cases h1 : k = st.acc.length
        · subst h1
          have : ¬ (st.acc.length + 1 ≤ st.acc.length ∧ st.acc.length < st'.acc.length) := by omega
          have h2 : st.acc.length ≤ st.acc.length ∧ st.acc.length < st'.acc.length := by omega
          rw [if_neg this, if_pos h2, if_pos rfl]
        · by_cases h2 : st.acc.length + 1 ≤ k ∧ k < st'.acc.length
          · have h3 : st.acc.length ≤ k ∧ k < st'.acc.length := by omega
            rw [if_pos h2, if_pos h3, if_neg h1]
          · have h3 : ¬ (st.acc.length ≤ k ∧ k < st'.acc.length) := by omega
            rw [if_neg h2, if_neg h3, if_neg h1]
      · rw [e, inv.body]
      · intro hp; exact f (inv.preTags hp)

@[simp] theorem countTag_mm (k : Nat) (b : Bool) :
    countTag k (if b then [Piece.mm] else []) = 0 := by
  cases b <;> simp [countTag]

@[simp] theorem strip_mm (b : Bool) : strip (if b then [Piece.mm] else []) = [] := by
  cases b <;> simp [strip]

/-- what one message rewrite does -/
theorem rewriteMsg_inv (cfg : Cfg) (m m' : Msg) (acc acc' : List ImgOut)
    (h : rewriteMsg cfg m acc = .ok (m', acc')) :
    m'.role = m.role ∧ m'.images = m.images ∧ strip m'.content = strip m.content ∧
    acc'.map (·.src) = acc.map (·.src) ++ m.images.map (·.src) ∧
    acc'.length = acc.length + m.images.length ∧
    (IdsOk acc → IdsOk acc') ∧
    (∀ k, countTag k m'.content = countTag k m.content +
        (if acc.length ≤ k ∧ k < acc'.length then 1 else 0)) := by
  unfold rewriteMsg at h
  split at h
  · cases h
  · rename_i st hst
    injection h with h
    injection h with h1 h2
    subst h1; subst h2
    obtain ⟨a, b, c, d, e, f⟩ := foldImgs_inv cfg m.images _ st hst
    refine ⟨rfl, rfl, ?_, a, b, c, ?_⟩
    · have hp := f rfl
      simp only [assemble, strip_append, hp, strip_mm, e]
      simp
    · intro k
      have := d k
      simp only [countTag_append, List.nil_append] at this
      simp only [assemble, countTag_append, countTag_mm]
      simp only [countTag] at this ⊢
      simp at this ⊢
      omega

/-- corresponding original / rewritten messages -/
structure SameMsg (m m' : Msg) : Prop where
  role : m'.role = m.role
  images : m'.images = m.images
  text : strip m'.content = strip m.content

/-- pointwise correspondence of two message lists (core has no `Forall₂`) -/
inductive AllSame : List Msg → List Msg → Prop
  | nil : AllSame [] []
  | cons {m m' ms ms'} : SameMsg m m' → AllSame ms ms' → AllSame (m :: ms) (m' :: ms')

theorem rewriteAll_inv (cfg : Cfg) : ∀ (ms ms' : List Msg) (acc acc' : List ImgOut),
    rewriteAll cfg ms acc = .ok (ms', acc') →
    AllSame ms ms' ∧
    acc'.map (·.src) = acc.map (·.src) ++ ms.flatMap (fun m => m.images.map (·.src)) ∧
    acc.length ≤ acc'.length ∧
    (IdsOk acc → IdsOk acc') ∧
    (∀ k, countTag k (ms'.flatMap (·.content)) = countTag k (ms.flatMap (·.content)) +
        (if acc.length ≤ k ∧ k < acc'.length then 1 else 0)) := by
  intro ms
  induction ms with
  | nil =>
    intro ms' acc acc' h
    simp only [rewriteAll] at h
    injection h with h
    injection h with h1 h2
    subst h1; subst h2
    refine ⟨AllSame.nil, by simp, Nat.le_refl _, fun h => h, ?_⟩
    intro k
    have : ¬ (acc.length ≤ k ∧ k < acc.length) := by omega
    simp [this]
  | cons m ms ih =>
    intro ms' acc acc' h
    simp only [rewriteAll] at h
    split at h
    · cases h
    · rename_i m1 acc1 h1
      split at h
      · cases h
      · rename_i ms1 acc2 h2
        injection h with h
        injection h with h3 h4
        subst h3; subst h4
        obtain ⟨r1, r2, r3, r4, r5, r6, r7⟩ := rewriteMsg_inv cfg m m1 acc acc1 h1
        obtain ⟨i1, i2, i3, i4, i5⟩ := ih ms1 acc1 acc2 h2
        refine ⟨AllSame.cons ⟨r1, r2, r3⟩ i1, ?_, by omega, fun h => i4 (r6 h), ?_⟩
        · rw [i2, r4]; simp
        · intro k
          simp only [List.flatMap_cons, countTag_append]
          rw [i5 k, r7 k]
          by_cases c1 : acc.length ≤ k ∧ k < acc1.length
          · have c2 : ¬ (acc1.length ≤ k ∧ k < acc2.length) := by omega
            have c3 : acc.length ≤ k ∧ k < acc2.length := by omega
            rw [if_pos c1, if_neg c2, if_pos c3]; omega
          · by_cases c2 : acc1.length ≤ k ∧ k < acc2.length
            · have c3 : acc.length ≤ k ∧ k < acc2.length := by omega
              rw [if_neg c1, if_pos c2, if_pos c3]; omega
            · have c3 : ¬ (acc.length ≤ k ∧ k < acc2.length) := by omega
              rw [if_neg c1, if_neg c2, if_neg c3]; omega

/-- every message's NEW tags are exactly the indices of its own images: `b` is the number of
    images returned before this message -/
inductive Owned : Nat → List Msg → List Msg → Prop
  | nil {b} : Owned b [] []
  | cons {b m m' ms ms'} :
      (∀ k, countTag k m'.content = countTag k m.content +
        (if b ≤ k ∧ k < b + m.images.length then 1 else 0)) →
      Owned (b + m.images.length) ms ms' → Owned b (m :: ms) (m' :: ms')

theorem rewriteAll_owned (cfg : Cfg) : ∀ (ms ms' : List Msg) (acc acc' : List ImgOut),
    rewriteAll cfg ms acc = .ok (ms', acc') → Owned acc.length ms ms' := by
  intro ms
  induction ms with
  | nil =>
    intro ms' acc acc' h
    simp only [rewriteAll] at h
    injection h with h
    injection h with h1 h2
    subst h1
    exact Owned.nil
  | cons m ms ih =>
    intro ms' acc acc' h
    simp only [rewriteAll] at h
    split at h
    · cases h
    · rename_i m1 acc1 h1
      split at h
      · cases h
      · rename_i ms1 acc2 h2
        injection h with h
        injection h with h3 h4
        subst h3
        obtain ⟨_, _, _, _, r5, _, r7⟩ := rewriteMsg_inv cfg m m1 acc acc1 h1
        have := ih ms1 acc1 acc2 h2
        rw [r5] at this
        refine Owned.cons ?_ this
        intro k
        rw [r7 k, r5]


/-! ### bytes ↔ pieces -/


theorem renderPieces_flushLit (acc : Bytes) : renderPieces (flushLit acc) = acc.reverse := by
  unfold flushLit
  cases acc <;> simp [renderPieces, renderPiece]

theorem splitGo_render : ∀ (bs : Bytes) (skip : Nat) (acc : Bytes),
    renderPieces (splitGo bs skip acc) = acc.reverse ++ bs.drop skip := by
  intro bs
  induction bs with
  | nil => intro skip acc; simp [splitGo, renderPieces_flushLit]
  | cons b bs ih =>
    intro skip acc
    cases skip with
    | succ k => simp [splitGo, ih]
    | zero =>
      simp only [splitGo]
      split
      · rename_i hp
        obtain ⟨t, ht⟩ := List.isPrefixOf_iff_prefix.mp hp
        have hb : b = 91 ∧ bs = [105, 109, 103, 93] ++ t := by
          simp only [bImg, List.cons_append, List.nil_append] at ht
          injection ht with h1 h2
          exact ⟨h1.symm, by simpa using h2.symm⟩
        have := ih 4 []
        simp only [renderPieces, List.flatMap_append, List.flatMap_cons] at this ⊢
        rw [this]
        have h2 := renderPieces_flushLit acc
        simp only [renderPieces] at h2
        rw [h2, hb.1, hb.2]
        simp [renderPiece, bImg]
      · rw [ih 0 (b :: acc)]
        simp

/-- the piece representation loses nothing: rendering the parsed content gives the bytes back -/
theorem splitImg_render (s : Bytes) : renderPieces (splitImg s) = s := by
  simp [splitImg, splitGo_render]



theorem countTag_flushLit (k : Nat) (acc : Bytes) : countTag k (flushLit acc) = 0 := by
  unfold flushLit
  cases acc <;> simp [countTag]

theorem splitGo_noTag (k : Nat) : ∀ (bs : Bytes) (skip : Nat) (acc : Bytes),
    countTag k (splitGo bs skip acc) = 0 := by
  intro bs
  induction bs with
  | nil => intro skip acc; simp [splitGo, countTag_flushLit]
  | cons b bs ih =>
    intro skip acc
    cases skip with
    | succ j => simp [splitGo, ih]
    | zero =>
      simp only [splitGo]
      split
      · have := ih 4 []
        simp only [countTag_append, countTag_flushLit, Nat.zero_add]
        simp only [countTag, List.countP_cons] at this ⊢
        simpa using this
      · exact ih 0 (b :: acc)

/-- parsed raw content never contains a tag piece: the hypothesis of `images_once_indexed` holds
    for every conversation the oracle parses -/
theorem splitImg_noTag (k : Nat) (s : Bytes) : countTag k (splitImg s) = 0 :=
  splitGo_noTag k s 0 []




/-! ### the runner's tag resolution -/

theorem find_by_id : ∀ (l : List ImgOut) (off k : Nat),
    (∀ j (hj : j < l.length), (l[j]).id = off + j) → (hk : k < l.length) →
    l.find? (fun o => decide (o.id = off + k)) = some l[k] := by
  intro l
  induction l with
  | nil => intro off k _ hk; simp at hk
  | cons a l ih =>
    intro off k hid hk
    cases k with
    | zero =>
      have := hid 0 (by simp)
      simp only [List.getElem_cons_zero, Nat.add_zero] at this
      simp [List.find?, this]
    | succ k =>
      have h0 := hid 0 (by simp)
      simp only [List.getElem_cons_zero, Nat.add_zero] at h0
      have hne : ¬ (a.id = off + (k + 1)) := by omega
      simp only [List.find?, hne, decide_false, List.getElem_cons_succ]
      have := ih (off + 1) k (fun j hj => by
        have := hid (j + 1) (by simp; omega)
        simp only [List.getElem_cons_succ] at this
        omega) (by simp at hk; omega)
      have e : off + 1 + k = off + (k + 1) := by omega
      rw [e] at this
      exact this

theorem resolveTag_of_IdsOk (imgs : List ImgOut) (h : IdsOk imgs) (k : Nat) (hk : k < imgs.length) :
    resolveTag imgs k = some imgs[k] := by
  have := find_by_id imgs 0 k (fun j hj => by simpa using h j hj) hk
  simpa [resolveTag] using this

theorem mem_tagsOf_countTag (k : Nat) : ∀ (c : List Piece), k ∈ tagsOf c → 0 < countTag k c := by
  intro c
  induction c with
  | nil => intro h; simp [tagsOf] at h
  | cons p r ih =>
    intro h
    cases p with
    | tag j =>
      simp only [tagsOf, List.filterMap_cons, List.mem_cons] at h
      rcases h with h | h
      · subst h; simp [countTag]
      · have := ih (by simpa [tagsOf] using h)
        simp only [countTag, List.countP_cons] at this ⊢
        omega
    | lit b =>
      have := ih (by simpa [tagsOf] using h)
      simp only [countTag, List.countP_cons] at this ⊢
      omega
    | slot =>
      have := ih (by simpa [tagsOf] using h)
      simp only [countTag, List.countP_cons] at this ⊢
      omega
    | mm =>
      have := ih (by simpa [tagsOf] using h)
      simp only [countTag, List.countP_cons] at this ⊢
      omega

theorem resolveTags_all (imgs : List ImgOut) : ∀ (tags : List Nat),
    (∀ k ∈ tags, ∃ o, resolveTag imgs k = some o) → ∃ l, resolveTags imgs tags = some l ∧ l.length = tags.length := by
  intro tags
  induction tags with
  | nil => intro _; exact ⟨[], rfl, rfl⟩
  | cons k ks ih =>
    intro h
    obtain ⟨o, ho⟩ := h k (by simp)
    obtain ⟨l, hl, hlen⟩ := ih (fun j hj => h j (by simp [hj]))
    exact ⟨o :: l, by simp [resolveTags, ho, hl], by simp [hlen]⟩




/-! ### collate and the legacy loop: nothing is lost -/

theorem inf_left {c x : Bytes} (y : Bytes) (h : c <:+: x) : c <:+: y ++ x :=
  h.trans (List.suffix_append y x).isInfix

theorem inf_right {c x : Bytes} (y : Bytes) (h : c <:+: x) : c <:+: x ++ y :=
  h.trans (List.prefix_append x y).isInfix

theorem joinSep_infix (sep : Bytes) : ∀ (l : List Bytes) (x : Bytes), x ∈ l → x <:+: joinSep sep l := by
  intro l
  induction l with
  | nil => intro x h; simp at h
  | cons a l ih =>
    intro x h
    cases l with
    | nil =>
      simp only [List.mem_cons, List.not_mem_nil, or_false] at h
      subst h; exact List.infix_refl _
    | cons b l =>
      simp only [joinSep]
      rcases List.mem_cons.mp h with h | h
      · subst h
        rw [List.append_assoc]
        exact (List.prefix_append _ _).isInfix
      · exact inf_left _ (ih x h)

/-- **collate keeps every system message**: the `.System` string handed to a messages-style
    template contains the content of every system message of its input -/
theorem collate_system_infix (msgs : List RMsg) (m : RMsg) (hm : m ∈ msgs) (hr : m.1 = Role.system) :
    m.2 <:+: (collate msgs).1 := by
  apply joinSep_infix
  exact List.mem_map.mpr ⟨m, List.mem_filter.mpr ⟨hm, by simp [hr]⟩, rfl⟩

/-- **collate keeps every message**: each message's content is contained in a merged message of
    the same role -/
theorem collateMsgs_infix : ∀ (msgs : List RMsg) (m : RMsg), m ∈ msgs →
    ∃ g ∈ collateMsgs msgs, g.1 = m.1 ∧ m.2 <:+: g.2 := by
  intro msgs
  induction msgs with
  | nil => intro m h; simp at h
  | cons a rest ih =>
    intro m hm
    obtain ⟨r, c⟩ := a
    simp only [collateMsgs]
    rcases List.mem_cons.mp hm with h | h
    · subst h
      split
      · rename_i r' c' tl _
        split
        · exact ⟨_, List.mem_cons_self, rfl, by
            rw [List.append_assoc]; exact (List.prefix_append _ _).isInfix⟩
        · exact ⟨_, List.mem_cons_self, rfl, List.infix_refl _⟩
      · exact ⟨_, List.mem_cons_self, rfl, List.infix_refl _⟩
    · obtain ⟨g, hg, hg1, hg2⟩ := ih m h
      split
      · rename_i r' c' tl heq
        rw [heq] at hg
        split
        · rename_i hrr
          rcases List.mem_cons.mp hg with hg | hg
          · subst hg
            exact ⟨_, List.mem_cons_self, by simpa [hrr] using hg1, inf_left _ hg2⟩
          · exact ⟨g, List.mem_cons_of_mem _ hg, hg1, hg2⟩
        · exact ⟨g, List.mem_cons_of_mem _ hg, hg1, hg2⟩
      · rename_i heq
        rw [heq] at hg
        simp at hg

/-- the template renders each of the three fields of a turn (an empty field is trivially
    "rendered"): the hypothesis under which the legacy loop can be said to lose nothing -/
def Renders (t : List Node) : Prop :=
  ∀ s p r, ∃ b, execList (legacyRoot s p r) t none = .ok b ∧ s <:+: b ∧ p <:+: b ∧ r <:+: b

/-- `c` has been rendered or is pending in a slot -/
def Held (st : Legacy) (c : Bytes) : Prop :=
  (∃ o, st.out = .ok o ∧ c <:+: o) ∨ c <:+: st.sys ∨ c <:+: st.prompt ∨ c <:+: st.resp

def OutOk (st : Legacy) : Prop := ∃ o, st.out = .ok o

theorem flush_inv {t : List Node} (hr : Renders t) {st : Legacy} (ho : OutOk st) :
    OutOk (legacyFlush t st) ∧ (legacyFlush t st).sys = [] ∧ (legacyFlush t st).prompt = [] ∧
      (legacyFlush t st).resp = [] ∧
      ∀ c, Held st c → Held (legacyFlush t st) c := by
  obtain ⟨o, ho⟩ := ho
  obtain ⟨b, hb, hs, hp, hre⟩ := hr st.sys st.prompt st.resp
  have hout : (legacyFlush t st).out = .ok (o ++ b) := by
    simp [legacyFlush, ho, hb, XOut.append]
  refine ⟨⟨_, hout⟩, rfl, rfl, rfl, ?_⟩
  intro c hc
  left
  refine ⟨_, hout, ?_⟩
  rcases hc with ⟨o', ho', hc⟩ | hc | hc | hc
  · rw [ho] at ho'; injection ho' with ho'; subst ho'
    exact inf_right _ hc
  · exact inf_left _ (hc.trans hs)
  · exact inf_left _ (hc.trans hp)
  · exact inf_left _ (hc.trans hre)

theorem joinSlot_left (a b : Bytes) : a <:+: joinSlot a b := by
  unfold joinSlot
  split
  · rename_i h
    have : a = [] := by cases a <;> simp_all
    subst this; exact List.nil_infix
  · rw [List.append_assoc]; exact (List.prefix_append _ _).isInfix

theorem joinSlot_right (a b : Bytes) : b <:+: joinSlot a b := by
  unfold joinSlot
  split
  · exact List.infix_refl _
  · exact (List.suffix_append _ _).isInfix

theorem held_mono {st st' : Legacy} {c : Bytes} (hout : st'.out = st.out)
    (hs : st.sys <:+: st'.sys) (hp : st.prompt <:+: st'.prompt) (hr : st.resp <:+: st'.resp)
    (h : Held st c) : Held st' c := by
  rcases h with ⟨o, ho, hc⟩ | hc | hc | hc
  · exact Or.inl ⟨o, by rw [hout]; exact ho, hc⟩
  · exact Or.inr (Or.inl (hc.trans hs))
  · exact Or.inr (Or.inr (Or.inl (hc.trans hp)))
  · exact Or.inr (Or.inr (Or.inr (hc.trans hr)))

theorem maybeFlush_inv {t : List Node} (hr : Renders t) {st : Legacy} (ho : OutOk st) (b : Bool) :
    OutOk (if b then legacyFlush t st else st) ∧
    ∀ c, Held st c → Held (if b then legacyFlush t st else st) c := by
  cases b with
  | false => exact ⟨ho, fun _ h => h⟩
  | true =>
    obtain ⟨f1, _, _, _, f5⟩ := flush_inv hr ho
    exact ⟨f1, f5⟩

def setSys (st : Legacy) (c : Bytes) : Legacy := { st with sys := joinSlot st.sys c }
def setPrompt (st : Legacy) (c : Bytes) : Legacy := { st with prompt := joinSlot st.prompt c }
def setResp (st : Legacy) (c : Bytes) : Legacy := { st with resp := joinSlot st.resp c }

theorem legacyStep_join_system (t : List Node) (st : Legacy) (c : Bytes) :
    legacyStep 2 t st (Role.system, c) =
      setSys (if (!st.prompt.isEmpty || !st.resp.isEmpty) then legacyFlush t st else st) c := by
  simp [legacyStep, setSys]

theorem legacyStep_join_user (t : List Node) (st : Legacy) (c : Bytes) :
    legacyStep 2 t st (Role.user, c) =
      setPrompt (if (!st.resp.isEmpty) then legacyFlush t st else st) c := by
  simp [legacyStep, setPrompt]

theorem legacyStep_join_assistant (t : List Node) (st : Legacy) (c : Bytes) :
    legacyStep 2 t st (Role.assistant, c) = setResp st c := by
  simp [legacyStep, setResp]

theorem held_setSys (st : Legacy) (c x : Bytes) (h : Held st x) : Held (setSys st c) x :=
  held_mono (st := st) (st' := setSys st c) rfl (joinSlot_left _ _) (List.infix_refl _) (List.infix_refl _) h
theorem held_setPrompt (st : Legacy) (c x : Bytes) (h : Held st x) : Held (setPrompt st c) x :=
  held_mono (st := st) (st' := setPrompt st c) rfl (List.infix_refl _) (joinSlot_left _ _) (List.infix_refl _) h
theorem held_setResp (st : Legacy) (c x : Bytes) (h : Held st x) : Held (setResp st c) x :=
  held_mono (st := st) (st' := setResp st c) rfl (List.infix_refl _) (List.infix_refl _) (joinSlot_left _ _) h

/-- one step of the join-repaired loop keeps everything held and holds the new content -/
theorem step_join_inv {t : List Node} (hr : Renders t) (st : Legacy) (m : RMsg) (ho : OutOk st) :
    OutOk (legacyStep 2 t st m) ∧ (∀ c, Held st c → Held (legacyStep 2 t st m) c) ∧
    ((m.1 = Role.system ∨ m.1 = Role.user ∨ m.1 = Role.assistant) → Held (legacyStep 2 t st m) m.2) := by
  obtain ⟨r, c⟩ := m
  cases r with
  | system =>
    rw [legacyStep_join_system]
    obtain ⟨f1, f5⟩ := maybeFlush_inv hr ho (!st.prompt.isEmpty || !st.resp.isEmpty)
    exact ⟨f1, fun x hx => held_setSys _ _ _ (f5 x hx), fun _ => Or.inr (Or.inl (joinSlot_right _ _))⟩
  | user =>
    rw [legacyStep_join_user]
    obtain ⟨f1, f5⟩ := maybeFlush_inv hr ho (!st.resp.isEmpty)
    exact ⟨f1, fun x hx => held_setPrompt _ _ _ (f5 x hx), fun _ => Or.inr (Or.inr (Or.inl (joinSlot_right _ _)))⟩
  | assistant =>
    rw [legacyStep_join_assistant]
    exact ⟨ho, fun x hx => held_setResp _ _ _ hx, fun _ => Or.inr (Or.inr (Or.inr (joinSlot_right _ _)))⟩
  | tool => exact ⟨ho, fun _ h => h, fun h => by rcases h with h | h | h <;> cases h⟩
  | other => exact ⟨ho, fun _ h => h, fun h => by rcases h with h | h | h <;> cases h⟩

theorem fold_join_inv {t : List Node} (hr : Renders t) : ∀ (l : List RMsg) (st : Legacy), OutOk st →
    OutOk (l.foldl (legacyStep 2 t) st) ∧
    (∀ c, Held st c → Held (l.foldl (legacyStep 2 t) st) c) ∧
    (∀ m ∈ l, (m.1 = Role.system ∨ m.1 = Role.user ∨ m.1 = Role.assistant) →
      Held (l.foldl (legacyStep 2 t) st) m.2) := by
  intro l
  induction l with
  | nil => intro st ho; exact ⟨ho, fun _ h => h, fun m hm => by simp at hm⟩
  | cons a l ih =>
    intro st ho
    obtain ⟨s1, s2, s3⟩ := step_join_inv hr st a ho
    obtain ⟨i1, i2, i3⟩ := ih _ s1
    simp only [List.foldl_cons]
    refine ⟨i1, fun c hc => i2 c (s2 c hc), ?_⟩
    intro m hm hrole
    rcases List.mem_cons.mp hm with h | h
    · subst h; exact i2 _ (s3 hrole)
    · exact i3 m h hrole

/-- **The join-repaired legacy path loses nothing**: for a legacy template that renders its
    three fields (also after the `.Response` cut), the prompt contains the content of every
    system/user/assistant message it is given — whatever lies between them. -/
theorem legacy_join_nothing_lost (t t' : List Node) (efix cut : Bool)
    (hmsg : nodesMention Fld.messages t = false) (hcut : cutList efix t false = .ok cut t')
    (hr : Renders t) (hr' : Renders t') (msgs : List RMsg) (m : RMsg) (hm : m ∈ msgs)
    (hrole : m.1 = Role.system ∨ m.1 = Role.user ∨ m.1 = Role.assistant) :
    ∃ b, execute ⟨2, efix⟩ t msgs = .ok b ∧ m.2 <:+: b := by
  obtain ⟨g, hg, hg1, hg2⟩ := collateMsgs_infix msgs m hm
  obtain ⟨⟨o, ho⟩, _, f3⟩ := fold_join_inv hr (collateMsgs msgs) ⟨[], [], [], .ok []⟩ ⟨[], rfl⟩
  have hheld := f3 g hg (by rw [hg1]; exact hrole)
  obtain ⟨b, hb, hs, hp, hre⟩ := hr' (List.foldl (legacyStep 2 t) ⟨[], [], [], .ok []⟩ (collateMsgs msgs)).sys
    (List.foldl (legacyStep 2 t) ⟨[], [], [], .ok []⟩ (collateMsgs msgs)).prompt
    (List.foldl (legacyStep 2 t) ⟨[], [], [], .ok []⟩ (collateMsgs msgs)).resp
  refine ⟨o ++ b, ?_, ?_⟩
  · simp only [execute, collate, hmsg, Bool.false_eq_true, if_false, ho, hcut, hb, XOut.append]
  · rcases hheld with ⟨o', ho', hc⟩ | hc | hc | hc
    · rw [ho] at ho'; injection ho' with ho'; subst ho'
      exact inf_right _ (hg2.trans hc)
    · exact inf_left _ ((hg2.trans hc).trans hs)
    · exact inf_left _ ((hg2.trans hc).trans hp)
    · exact inf_left _ ((hg2.trans hc).trans hre)




theorem rewriteAll_noimg (cfg : Cfg) : ∀ (ms : List Msg) (acc : List ImgOut),
    (∀ m ∈ ms, m.images = []) → rewriteAll cfg ms acc = .ok (ms, acc) := by
  intro ms
  induction ms with
  | nil => intro acc _; rfl
  | cons m ms ih =>
    intro acc h
    have hm := h m (by simp)
    have : rewriteMsg cfg m acc = .ok (m, acc) := by
      cases m with
      | mk r c i =>
        simp only at hm
        subst hm
        simp [rewriteMsg, foldImgs, assemble]
    simp only [rewriteAll, this, ih acc (fun x hx => h x (by simp [hx]))]

theorem imgCount_noimg (l : List Msg) (h : ∀ m ∈ l, m.images = []) : imgCount l = 0 := by
  induction l with
  | nil => rfl
  | cons m ms ih =>
    simp only [imgCount, List.map_cons, List.sum_cons]
    rw [h m (by simp)]
    have := ih (fun x hx => h x (by simp [hx]))
    simp only [imgCount] at this
    simp [this]



/-! ## Round 7: order of the rendered contents, totality, closed forms -/

/-- the byte strings `cs` occur in `b` one after the other, without overlap, in this order -/
def InOrder : List Bytes → Bytes → Prop
  | [], _ => True
  | c :: cs, b => ∃ x y, b = x ++ c ++ y ∧ InOrder cs y

theorem InOrder.left {cs : List Bytes} {b : Bytes} (x : Bytes) (h : InOrder cs b) : InOrder cs (x ++ b) := by
  cases cs with
  | nil => trivial
  | cons c cs =>
    obtain ⟨x', y, hb, hy⟩ := h
    exact ⟨x ++ x', y, by simp [hb], hy⟩

theorem InOrder.right : ∀ {cs : List Bytes} {b : Bytes} (y : Bytes), InOrder cs b → InOrder cs (b ++ y) := by
  intro cs
  induction cs with
  | nil => intro b y _; trivial
  | cons c cs ih =>
    intro b y h
    obtain ⟨x', y', hb, hy⟩ := h
    exact ⟨x', y' ++ y, by simp [hb], ih y hy⟩

theorem InOrder.append : ∀ {as bs : List Bytes} {a b : Bytes}, InOrder as a → InOrder bs b →
    InOrder (as ++ bs) (a ++ b) := by
  intro as
  induction as with
  | nil => intro bs a b _ hb; exact hb.left a
  | cons c as ih =>
    intro bs a b ha hb
    obtain ⟨x, y, he, hy⟩ := ha
    exact ⟨x, y ++ b, by simp [he], ih hy hb⟩

theorem InOrder.self (c : Bytes) : InOrder [c] c := ⟨[], [], by simp, trivial⟩

theorem InOrder.infix_of_mem : ∀ {cs : List Bytes} {b : Bytes}, InOrder cs b → ∀ c ∈ cs, c <:+: b := by
  intro cs
  induction cs with
  | nil => intro b _ c hc; simp at hc
  | cons a cs ih =>
    intro b h c hc
    obtain ⟨x, y, he, hy⟩ := h
    rcases List.mem_cons.mp hc with h1 | h1
    · subst h1; subst he; exact ⟨x, y, rfl⟩
    · subst he; exact inf_left _ (ih hy c h1)

/-- the occurrences do not overlap: together they are not longer than the string -/
theorem InOrder.length_le : ∀ {cs : List Bytes} {b : Bytes}, InOrder cs b → (cs.map List.length).sum ≤ b.length := by
  intro cs
  induction cs with
  | nil => intro b _; simp
  | cons c cs ih =>
    intro b h
    obtain ⟨x, y, he, hy⟩ := h
    have := ih hy
    subst he
    simp only [List.map_cons, List.sum_cons, List.length_append]
    omega

/-- replace one of the strings by strings that occur in it, in order -/
theorem InOrder.refine : ∀ {as : List Bytes} {c : Bytes} {cs ds : List Bytes} {b : Bytes},
    InOrder (as ++ c :: cs) b → InOrder ds c → InOrder (as ++ ds ++ cs) b := by
  intro as
  induction as with
  | nil =>
    intro c cs ds b h hd
    obtain ⟨x, y, he, hy⟩ := h
    subst he
    have := (InOrder.append hd hy).left x
    simpa using this
  | cons a as ih =>
    intro c cs ds b h hd
    obtain ⟨x, y, he, hy⟩ := h
    exact ⟨x, y, he, by simpa using ih hy hd⟩

/-- `ds` can replace `cs`: wherever `cs` occur in order, so do `ds` -/
def Refines (ds cs : List Bytes) : Prop := ∀ b, InOrder cs b → InOrder ds b

theorem Refines.prefix {ds cs : List Bytes} (p : List Bytes) (h : Refines ds cs) : Refines (p ++ ds) (p ++ cs) := by
  induction p with
  | nil => exact h
  | cons a p ih =>
    intro b hb
    obtain ⟨x, y, he, hy⟩ := hb
    exact ⟨x, y, he, ih y hy⟩

/-- a content as a list: empty contents are not tracked (they occur anywhere) -/
def one (c : Bytes) : List Bytes := if c.isEmpty then [] else [c]

theorem InOrder.one (c : Bytes) : InOrder (one c) c := by
  unfold Prompt.one; split
  · trivial
  · exact InOrder.self c

/-- the contents of the messages whose role the template path looks at, in order -/
def contentsOf (keep : Role → Bool) : List RMsg → List Bytes
  | [] => []
  | (r, c) :: l => (if keep r then one c else []) ++ contentsOf keep l

theorem sep2_join_inorder (c c' : Bytes) : InOrder (one c ++ one c') (c ++ sep2 ++ c') := by
  have h1 : InOrder (one c) (c ++ sep2) := (InOrder.one c).right sep2
  exact InOrder.append h1 (InOrder.one c')

/-- **collate preserves the order of the contents**: wherever the contents of the merged messages
    occur in order, so do the contents of the original messages -/
theorem collate_refines (keep : Role → Bool) : ∀ msgs : List RMsg,
    Refines (contentsOf keep msgs) (contentsOf keep (collateMsgs msgs)) := by
  intro msgs
  induction msgs with
  | nil => intro b h; exact h
  | cons a rest ih =>
    obtain ⟨r, c⟩ := a
    simp only [collateMsgs]
    split
    · rename_i r' c' tl heq
      rw [heq] at ih
      split
      · rename_i hrr
        subst hrr
        simp only [contentsOf] at ih ⊢
        cases hk : keep r with
        | false =>
          simp only [hk, Bool.false_eq_true, if_false, List.nil_append] at ih ⊢
          exact ih
        | true =>
          simp only [hk, if_true] at ih ⊢
          intro b hb
          have hne : (c ++ sep2 ++ c').isEmpty = false := by simp [sep2]
          simp only [one, hne, Bool.false_eq_true, if_false] at hb
          have h2 : InOrder ([] ++ (Prompt.one c ++ Prompt.one c') ++ contentsOf keep tl) b :=
            InOrder.refine (as := []) hb (sep2_join_inorder c c')
          have h3 : InOrder (Prompt.one c ++ (Prompt.one c' ++ contentsOf keep tl)) b := by
            simpa using h2
          exact (Refines.prefix (Prompt.one c) ih) b h3
      · simp only [contentsOf]
        exact Refines.prefix _ ih
    · rename_i heq
      rw [heq] at ih
      simp only [contentsOf]
      exact Refines.prefix _ ih


/-! ### the legacy loop renders the turns in the order of the conversation -/

def legacyRole : Role → Bool
  | .system => true | .user => true | .assistant => true | _ => false

/-- the template renders the three fields of a turn in the order system, prompt, response -/
def RendersOrdered (t : List Node) : Prop :=
  ∀ s p r, ∃ b, execList (legacyRoot s p r) t none = .ok b ∧ InOrder [s, p, r] b

/-- invariant of the join-repaired loop: `seen` (the non-empty contents consumed so far, in the
    order of the conversation) = what has been rendered ++ pending system ++ pending prompt ++
    pending response, each part in order inside its buffer -/
structure OrdInv (st : Legacy) (seen : List Bytes) : Prop where
  ex : ∃ o done ps pp pr, st.out = .ok o ∧ InOrder done o ∧ InOrder ps st.sys ∧ InOrder pp st.prompt ∧
    InOrder pr st.resp ∧ seen = done ++ ps ++ pp ++ pr ∧
    (st.sys = [] → ps = []) ∧ (st.prompt = [] → pp = []) ∧ (st.resp = [] → pr = [])

theorem joinSlot_eq_nil {a c : Bytes} (h : joinSlot a c = []) : a = [] ∧ c = [] := by
  unfold joinSlot at h
  split at h
  · rename_i he
    exact ⟨by cases a <;> simp_all, h⟩
  · simp [sep2] at h

theorem one_nil_of_nil {c : Bytes} (h : c = []) : one c = [] := by subst h; rfl

theorem joinSlot_inorder {ps : List Bytes} {a : Bytes} (c : Bytes) (h : InOrder ps a) (hnil : a = [] → ps = []) :
    InOrder (ps ++ one c) (joinSlot a c) := by
  unfold joinSlot
  split
  · rename_i he
    have ha : a = [] := by cases a <;> simp_all
    rw [hnil ha]
    simpa using InOrder.one c
  · exact InOrder.append (h.right sep2) (InOrder.one c)

theorem turn_inorder {s p r b : Bytes} {ps pp pr : List Bytes} (hord : InOrder [s, p, r] b)
    (hs : InOrder ps s) (hp : InOrder pp p) (hre : InOrder pr r) : InOrder (ps ++ pp ++ pr) b := by
  have h1 : InOrder ([] ++ ps ++ [p, r]) b := InOrder.refine (as := []) hord hs
  have h2 : InOrder (ps ++ pp ++ [r]) b := by
    have := InOrder.refine (as := ps) (c := p) (cs := [r]) (ds := pp) (by simpa using h1) hp
    simpa using this
  have := InOrder.refine (as := ps ++ pp) (c := r) (cs := []) (ds := pr) (by simpa using h2) hre
  simpa using this

theorem flush_ord {t : List Node} (hr : RendersOrdered t) {st : Legacy} {seen : List Bytes}
    (h : OrdInv st seen) : OrdInv (legacyFlush t st) seen := by
  obtain ⟨o, done, ps, pp, pr, ho, hd, hs, hp, hre, hseen, _, _, _⟩ := h.ex
  obtain ⟨b, hb, hord⟩ := hr st.sys st.prompt st.resp
  have h3 : InOrder (ps ++ pp ++ pr) b := turn_inorder hord hs hp hre
  refine ⟨o ++ b, done ++ ps ++ pp ++ pr, [], [], [], ?_, ?_, trivial, trivial, trivial, ?_, fun _ => rfl, fun _ => rfl, fun _ => rfl⟩
  · simp [legacyFlush, ho, hb, XOut.append]
  · have := InOrder.append hd h3
    simpa [List.append_assoc] using this
  · simp [hseen]

theorem maybeFlush_ord {t : List Node} (hr : RendersOrdered t) {st : Legacy} {seen : List Bytes}
    (h : OrdInv st seen) (b : Bool) : OrdInv (if b then legacyFlush t st else st) seen := by
  cases b with
  | false => exact h
  | true => exact flush_ord hr h

theorem isEmpty_false_ne {b : Bytes} (h : (!b.isEmpty) = false) : b = [] := by
  cases b <;> simp_all

/-- one step of the join-repaired loop -/
theorem step_ord {t : List Node} (hr : RendersOrdered t) (st : Legacy) (seen : List Bytes) (m : RMsg)
    (h : OrdInv st seen) :
    OrdInv (legacyStep 2 t st m) (seen ++ (if legacyRole m.1 then one m.2 else [])) := by
  obtain ⟨r, c⟩ := m
  cases r with
  | system =>
    rw [legacyStep_join_system]
    simp only [legacyRole, if_true]
    -- after the flush decision the prompt and response buffers are empty
    have hst : ∃ st', st' = (if (!st.prompt.isEmpty || !st.resp.isEmpty) then legacyFlush t st else st) ∧
        OrdInv st' seen ∧ st'.prompt = [] ∧ st'.resp = [] := by
      refine ⟨_, rfl, maybeFlush_ord hr h _, ?_, ?_⟩
      · cases hc : (!st.prompt.isEmpty || !st.resp.isEmpty) with
        | true => simp [legacyFlush]
        | false =>
          simp only [Bool.or_eq_false_iff] at hc
          simpa using isEmpty_false_ne hc.1
      · cases hc : (!st.prompt.isEmpty || !st.resp.isEmpty) with
        | true => simp [legacyFlush]
        | false =>
          simp only [Bool.or_eq_false_iff] at hc
          simpa using isEmpty_false_ne hc.2
    obtain ⟨st', hst', hinv, hp0, hr0⟩ := hst
    rw [← hst']
    obtain ⟨o, done, ps, pp, pr, ho, hd, hs, hp, hre, hseen, n1, n2, n3⟩ := hinv.ex
    have hpp := n2 hp0
    have hpr := n3 hr0
    subst hpp; subst hpr
    refine ⟨o, done, ps ++ one c, [], [], ho, hd, joinSlot_inorder c hs n1, trivial, trivial, ?_, ?_, fun _ => rfl, fun _ => rfl⟩
    · simp [hseen]
    · intro hnil
      obtain ⟨ha, hc⟩ := joinSlot_eq_nil hnil
      simp [n1 ha, one_nil_of_nil hc]
  | user =>
    rw [legacyStep_join_user]
    simp only [legacyRole, if_true]
    have hst : ∃ st', st' = (if (!st.resp.isEmpty) then legacyFlush t st else st) ∧
        OrdInv st' seen ∧ st'.resp = [] := by
      refine ⟨_, rfl, maybeFlush_ord hr h _, ?_⟩
      cases hc : (!st.resp.isEmpty) with
      | true => simp [legacyFlush]
      | false => simpa using isEmpty_false_ne hc
    obtain ⟨st', hst', hinv, hr0⟩ := hst
    rw [← hst']
    obtain ⟨o, done, ps, pp, pr, ho, hd, hs, hp, hre, hseen, n1, n2, n3⟩ := hinv.ex
    have hpr := n3 hr0
    subst hpr
    refine ⟨o, done, ps, pp ++ one c, [], ho, hd, hs, joinSlot_inorder c hp n2, trivial, ?_, n1, ?_, fun _ => rfl⟩
    · simp [hseen]
    · intro hnil
      obtain ⟨ha, hc⟩ := joinSlot_eq_nil hnil
      simp [n2 ha, one_nil_of_nil hc]
  | assistant =>
    rw [legacyStep_join_assistant]
    simp only [legacyRole, if_true]
    obtain ⟨o, done, ps, pp, pr, ho, hd, hs, hp, hre, hseen, n1, n2, n3⟩ := h.ex
    refine ⟨o, done, ps, pp, pr ++ one c, ho, hd, hs, hp, joinSlot_inorder c hre n3, ?_, n1, n2, ?_⟩
    · simp [hseen]
    · intro hnil
      obtain ⟨ha, hc⟩ := joinSlot_eq_nil hnil
      simp [n3 ha, one_nil_of_nil hc]
  | tool => simpa [legacyStep, legacyRole] using h
  | other => simpa [legacyStep, legacyRole] using h

theorem fold_ord {t : List Node} (hr : RendersOrdered t) : ∀ (l : List RMsg) (st : Legacy) (seen : List Bytes),
    OrdInv st seen → OrdInv (l.foldl (legacyStep 2 t) st) (seen ++ contentsOf legacyRole l) := by
  intro l
  induction l with
  | nil => intro st seen h; simpa [contentsOf] using h
  | cons a l ih =>
    intro st seen h
    obtain ⟨r, c⟩ := a
    have := ih _ _ (step_ord hr st seen (r, c) h)
    simpa [contentsOf, List.append_assoc] using this

/-- **The join-repaired legacy path renders the conversation in its order**: for a legacy template
    that renders system, prompt, response in this order (also after the `.Response` cut), the
    non-empty contents of the system / user / assistant messages occur in the prompt one after the
    other, without overlap, in the order of the conversation. -/
theorem legacy_join_in_order (t t' : List Node) (efix cut : Bool)
    (hmsg : nodesMention Fld.messages t = false) (hcut : cutList efix t false = .ok cut t')
    (hr : RendersOrdered t) (hr' : RendersOrdered t') (msgs : List RMsg) (tools : ToolsV := {}) :
    ∃ b, execute ⟨2, efix⟩ t msgs tools = .ok b ∧ InOrder (contentsOf legacyRole msgs) b := by
  have h0 : OrdInv ⟨[], [], [], .ok []⟩ [] :=
    ⟨[], [], [], [], [], rfl, trivial, trivial, trivial, trivial, rfl, fun _ => rfl, fun _ => rfl, fun _ => rfl⟩
  have hf := fold_ord hr (collateMsgs msgs) _ _ h0
  obtain ⟨o, done, ps, pp, pr, ho, hd, hs, hp, hre, hseen, _, _, _⟩ := hf.ex
  obtain ⟨b, hb, hord⟩ := hr' (List.foldl (legacyStep 2 t) ⟨[], [], [], .ok []⟩ (collateMsgs msgs)).sys
    (List.foldl (legacyStep 2 t) ⟨[], [], [], .ok []⟩ (collateMsgs msgs)).prompt
    (List.foldl (legacyStep 2 t) ⟨[], [], [], .ok []⟩ (collateMsgs msgs)).resp
  have h3 : InOrder (ps ++ pp ++ pr) b := turn_inorder hord hs hp hre
  refine ⟨o ++ b, ?_, ?_⟩
  · simp only [execute, collate, hmsg, Bool.false_eq_true, if_false, ho, hcut, hb, XOut.append]
  · apply collate_refines legacyRole msgs
    have : contentsOf legacyRole (collateMsgs msgs) = done ++ (ps ++ pp ++ pr) := by
      simpa [List.append_assoc] using hseen
    rw [this]
    exact InOrder.append hd h3

theorem InOrder.nil_head {cs : List Bytes} {b : Bytes} (h : InOrder cs b) : InOrder ([] :: cs) b :=
  ⟨[], b, by simp, h⟩
theorem InOrder.here {c : Bytes} {cs : List Bytes} {y : Bytes} (h : InOrder cs y) : InOrder (c :: cs) (c ++ y) :=
  ⟨[], y, by simp, h⟩
theorem InOrder.skip {cs : List Bytes} {y : Bytes} (a : UInt8) (h : InOrder cs y) : InOrder cs (a :: y) :=
  h.left [a]
theorem InOrder.drop_nil {cs : List Bytes} {b : Bytes} (h : InOrder ([] :: cs) b) : InOrder cs b := by
  obtain ⟨x, y, he, hy⟩ := h
  subst he
  simpa using hy.left x
theorem InOrder.one_of_single {c b : Bytes} (h : InOrder [c] b) : InOrder (Prompt.one c) b := by
  unfold Prompt.one; split
  · trivial
  · exact h

macro "ord_solve" : tactic => `(tactic|
  repeat (first
    | exact trivial
    | exact InOrder.self _
    | apply InOrder.nil_head
    | apply InOrder.here
    | apply InOrder.skip))

/-- folding message bodies in order -/
theorem fold_bodies_ord (keep : Role → Bool) (body : Option RMsg → XOut) :
    ∀ (l : List RMsg) (acc : Bytes) (accs : List Bytes), InOrder accs acc →
    (∀ m ∈ l, ∃ b, body (some m) = XOut.ok b ∧ InOrder (if keep m.1 then one m.2 else []) b) →
    ∃ o, l.foldl (fun (a : XOut) m => a.append (body (some m))) (XOut.ok acc) = XOut.ok o ∧
      InOrder (accs ++ contentsOf keep l) o := by
  intro l
  induction l with
  | nil => intro acc accs h _; exact ⟨acc, rfl, by simpa [contentsOf] using h⟩
  | cons a l ih =>
    intro acc accs hacc hall
    obtain ⟨b, hb, hord⟩ := hall a (by simp)
    obtain ⟨o, ho, hres⟩ := ih (acc ++ b) (accs ++ (if keep a.1 then one a.2 else [])) (InOrder.append hacc hord)
      (fun m hm => hall m (by simp [hm]))
    refine ⟨o, ?_, ?_⟩
    · simp only [List.foldl_cons, hb, XOut.append]; exact ho
    · obtain ⟨r, c⟩ := a
      simpa [contentsOf, List.append_assoc] using hres


def isSys : Role → Bool
  | .system => true | _ => false

theorem joinSep_inorder : ∀ (l : List Bytes), InOrder (l.flatMap one) (joinSep sep2 l) := by
  intro l
  induction l with
  | nil => trivial
  | cons a l ih =>
    cases l with
    | nil => simpa [joinSep] using InOrder.one a
    | cons b l =>
      simp only [joinSep, List.flatMap_cons] at ih ⊢
      exact InOrder.append ((InOrder.one a).right sep2) ih

theorem contentsOf_isSys (msgs : List RMsg) :
    contentsOf isSys msgs = ((msgs.filter (fun m => m.1 = Role.system)).map (·.2)).flatMap one := by
  induction msgs with
  | nil => rfl
  | cons a l ih =>
    obtain ⟨r, c⟩ := a
    cases r <;> simp [contentsOf, isSys, List.filter_cons, ih]

/-- **the `.System` string of a messages-style template holds the system messages in order** -/
theorem collate_system_inorder (msgs : List RMsg) : InOrder (contentsOf isSys msgs) (collate msgs).1 := by
  rw [contentsOf_isSys]
  exact joinSep_inorder _


/-! ### the cut and success in closed form -/

/-- specification of the cut: starting from the latest message (`k = L-1`), extend the run by one
    older message as long as the extended run fits -/
def specCut (fitsAt : Nat → Bool) : Nat → Nat
  | 0 => 0
  | k+1 => if fitsAt k then specCut fitsAt k else k+1

theorem specCut_unique (f : Nat → Bool) : ∀ (k n : Nat), n ≤ k → (∀ j, n ≤ j → j < k → f j = true) →
    (n = 0 ∨ f (n - 1) = false) → specCut f k = n := by
  intro k
  induction k with
  | zero => intro n h _ _; simp [specCut]; omega
  | succ k ih =>
    intro n hle hall hstop
    simp only [specCut]
    by_cases hn : n = k + 1
    · subst hn
      rcases hstop with h | h
      · omega
      · simp at h; simp [h]
    · have hk : f k = true := hall k (by omega) (by omega)
      simp only [hk, if_true]
      exact ih n (by omega) (fun j h1 h2 => hall j h1 (by omega)) hstop

theorem imagesAt_cases (msgs : List Msg) (i : Nat) :
    imagesAt msgs i = [] ∨ ∃ m ∈ msgs, imagesAt msgs i = m.images := by
  unfold imagesAt
  split
  · rename_i m rest heq
    right
    refine ⟨m, ?_, rfl⟩
    have : m ∈ msgs.drop i := by rw [heq]; simp
    exact List.mem_of_mem_drop this
  · left; rfl

/-- when no measurement fails and (for mllama) no message has more than one image the loop ends normally -/
theorem scan_total (cfg : Cfg) (cost : Nat → Nat) (bad : Nat → Bool) (msgs : List Msg)
    (hbad : ∀ i, bad i = false)
    (himg : cfg.mllama = true → ∀ m ∈ msgs, m.images.length ≤ 1) :
    ∀ (k n : Nat) (s : Option Nat) (q : Nat), ∃ n' s' q', scan cfg cost bad msgs k n s q = .done n' s' q' := by
  intro k
  induction k with
  | zero => intro n s q; exact ⟨_, _, _, rfl⟩
  | succ k ih =>
    intro n s q
    unfold scan
    have h1 : (cfg.mllama && decide (1 < (imagesAt msgs k).length)) = false := by
      cases hm : cfg.mllama with
      | false => rfl
      | true =>
        simp only [Bool.true_and, decide_eq_false_iff_not]
        rcases imagesAt_cases msgs k with h | ⟨m, hm', h⟩
        · rw [h]; simp
        · rw [h]; have := himg hm m hm'; omega
    simp only [h1, Bool.false_eq_true, if_false, hbad k]
    split
    · exact ih _ _ _
    · split
      · exact ih _ _ _
      · exact ⟨_, _, _, rfl⟩

def imgOk (cfg : Cfg) (im : Img) : Prop := cfg.mllama = false ∨ cfg.proj < 2 ∨ im.ok = true

theorem stepImg_total (cfg : Cfg) (st : RW) (im : Img) (h : imgOk cfg im) : ∃ st', stepImg cfg st im = .ok st' := by
  unfold stepImg imgData
  rcases h with h | h | h
  · simp only [h, Bool.false_eq_true, if_false]
    split <;> exact ⟨_, rfl⟩
  · cases hm : cfg.mllama with
    | false => simp only [Bool.false_eq_true, if_false]; split <;> exact ⟨_, rfl⟩
    | true => simp only [if_true, h]; split <;> exact ⟨_, rfl⟩
  · cases hm : cfg.mllama with
    | false => simp only [Bool.false_eq_true, if_false]; split <;> exact ⟨_, rfl⟩
    | true =>
      simp only [if_true, h]
      by_cases hp : cfg.proj < 2
      · simp only [hp, if_true]; split <;> exact ⟨_, rfl⟩
      · simp only [hp, if_false]; split <;> exact ⟨_, rfl⟩

theorem foldImgs_total (cfg : Cfg) : ∀ (ims : List Img) (st : RW), (∀ im ∈ ims, imgOk cfg im) →
    ∃ st', foldImgs cfg ims st = .ok st' := by
  intro ims
  induction ims with
  | nil => intro st _; exact ⟨st, rfl⟩
  | cons im ims ih =>
    intro st h
    obtain ⟨st1, h1⟩ := stepImg_total cfg st im (h im (by simp))
    obtain ⟨st2, h2⟩ := ih st1 (fun x hx => h x (by simp [hx]))
    exact ⟨st2, by simp only [foldImgs, h1, h2]⟩

theorem rewriteAll_total (cfg : Cfg) : ∀ (ms : List Msg) (acc : List ImgOut),
    (∀ m ∈ ms, ∀ im ∈ m.images, imgOk cfg im) → ∃ r, rewriteAll cfg ms acc = .ok r := by
  intro ms
  induction ms with
  | nil => intro acc _; exact ⟨_, rfl⟩
  | cons m ms ih =>
    intro acc h
    obtain ⟨st, hst⟩ := foldImgs_total cfg m.images ⟨[], false, m.content, acc⟩ (h m (by simp))
    have h1 : rewriteMsg cfg m acc = .ok ({ m with content := assemble st }, st.acc) := by
      simp only [rewriteMsg, hst]
    obtain ⟨⟨ms', acc'⟩, h2⟩ := ih st.acc (fun x hx => h x (by simp [hx]))
    exact ⟨({ m with content := assemble st } :: ms', acc'), by simp only [rewriteAll, h1, h2]⟩


/-! ### the returned images in closed form -/

/-- specification of the returned image list: the images of the retained messages, numbered from `k`,
    preprocessed iff the model is an mllama model with a projector -/
def specImagesFrom (cfg : Cfg) : Nat → List Img → List ImgOut
  | _, [] => []
  | k, im :: ims => ⟨k, im.src, cfg.mllama && decide (2 ≤ cfg.proj)⟩ :: specImagesFrom cfg (k+1) ims

theorem specImagesFrom_append (cfg : Cfg) : ∀ (a b : List Img) (k : Nat),
    specImagesFrom cfg k (a ++ b) = specImagesFrom cfg k a ++ specImagesFrom cfg (k + a.length) b := by
  intro a
  induction a with
  | nil => intro b k; simp [specImagesFrom]
  | cons x a ih =>
    intro b k
    simp only [List.cons_append, specImagesFrom, ih, List.length_cons]
    have : k + 1 + a.length = k + (a.length + 1) := by omega
    rw [this]

theorem imgData_spec (cfg : Cfg) (id : Nat) (im : Img) (mm mm' : Bool) (o : ImgOut)
    (h : imgData cfg id im mm = .ok (o, mm')) :
    o = ⟨id, im.src, cfg.mllama && decide (2 ≤ cfg.proj)⟩ := by
  unfold imgData at h
  split at h
  · rename_i hm
    split at h
    · rename_i hp
      injection h with h; injection h with h1 h2; subst h1
      have : ¬ (2 ≤ cfg.proj) := by omega
      simp [hm, this]
    · rename_i hp
      split at h
      · injection h with h; injection h with h1 h2; subst h1
        have : 2 ≤ cfg.proj := by omega
        simp [hm, this]
      · cases h
  · rename_i hm
    injection h with h; injection h with h1 h2; subst h1
    simp [hm]

theorem stepImg_spec (cfg : Cfg) (st st' : RW) (im : Img) (h : stepImg cfg st im = .ok st') :
    st'.acc = st.acc ++ specImagesFrom cfg st.acc.length [im] := by
  unfold stepImg at h
  split at h
  · cases h
  · rename_i o mm hr
    have ho := imgData_spec cfg _ im _ _ o hr
    split at h <;> (injection h with h; subst h; simp [specImagesFrom, ho])

theorem foldImgs_spec (cfg : Cfg) : ∀ (ims : List Img) (st st' : RW),
    foldImgs cfg ims st = .ok st' → st'.acc = st.acc ++ specImagesFrom cfg st.acc.length ims := by
  intro ims
  induction ims with
  | nil => intro st st' h; simp only [foldImgs] at h; injection h with h; subst h; simp [specImagesFrom]
  | cons im ims ih =>
    intro st st' h
    simp only [foldImgs] at h
    split at h
    · cases h
    · rename_i st1 h1
      have e1 := stepImg_spec cfg st st1 im h1
      have e2 := ih st1 st' h
      rw [e2, e1]
      simp [specImagesFrom]

theorem rewriteAll_spec (cfg : Cfg) : ∀ (ms ms' : List Msg) (acc acc' : List ImgOut),
    rewriteAll cfg ms acc = .ok (ms', acc') →
    acc' = acc ++ specImagesFrom cfg acc.length (ms.flatMap (·.images)) := by
  intro ms
  induction ms with
  | nil =>
    intro ms' acc acc' h
    simp only [rewriteAll] at h
    injection h with h; injection h with h1 h2
    subst h2; simp [specImagesFrom]
  | cons m ms ih =>
    intro ms' acc acc' h
    simp only [rewriteAll] at h
    split at h
    · cases h
    · rename_i m1 acc1 h1
      split at h
      · cases h
      · rename_i ms1 acc2 h2
        injection h with h; injection h with h3 h4
        subst h4
        have e1 : acc1 = acc ++ specImagesFrom cfg acc.length m.images := by
          unfold rewriteMsg at h1
          split at h1
          · cases h1
          · rename_i st hst
            injection h1 with h1; injection h1 with _ hacc
            rw [← hacc]
            exact foldImgs_spec cfg m.images _ st hst
        have e2 := ih ms1 acc1 acc2 h2
        have hlen : (specImagesFrom cfg acc.length m.images).length = m.images.length := by
          generalize acc.length = k
          induction m.images generalizing k with
          | nil => rfl
          | cons x xs ihx => simp [specImagesFrom, ihx]
        rw [e2, e1, List.flatMap_cons, specImagesFrom_append]
        simp [hlen]



/-! ### the runner's scan of the rendered bytes finds exactly the tag pieces -/

theorem digitsVal_snoc (a : Bytes) (d : UInt8) : digitsVal (a ++ [d]) = 10 * digitsVal a + (d.toNat - 48) := by
  simp [digitsVal, List.foldl_append]

theorem isDigit_of (k : Nat) (h : k < 10) : isDigit (digitByte k) = true ∧ (digitByte k).toNat - 48 = k := by
  have : k = 0 ∨ k = 1 ∨ k = 2 ∨ k = 3 ∨ k = 4 ∨ k = 5 ∨ k = 6 ∨ k = 7 ∨ k = 8 ∨ k = 9 := by omega
  rcases this with h | h | h | h | h | h | h | h | h | h <;> subst h <;> decide

theorem decDigits_spec : ∀ (fuel n : Nat), n < fuel →
    (decDigits fuel n).all isDigit = true ∧ digitsVal (decDigits fuel n) = n ∧ decDigits fuel n ≠ [] := by
  intro fuel
  induction fuel with
  | zero => intro n h; omega
  | succ fuel ih =>
    intro n h
    unfold decDigits
    split
    · rename_i hn
      obtain ⟨h1, h2⟩ := isDigit_of n hn
      refine ⟨by rw [List.all_cons, h1]; rfl, ?_, by simp⟩
      show 10 * 0 + ((digitByte n).toNat - 48) = n
      omega
    · rename_i hn
      obtain ⟨a, b, c⟩ := ih (n / 10) (by omega)
      obtain ⟨h1, h2⟩ := isDigit_of (n % 10) (by omega)
      refine ⟨by rw [List.all_append, a, List.all_cons, h1]; rfl, ?_, by simp⟩
      rw [digitsVal_snoc, b, h2]
      omega

theorem takeWhile_digits (ds rest : Bytes) (h : ds.all isDigit = true) :
    (ds ++ 93 :: rest).takeWhile isDigit = ds ∧ (ds ++ 93 :: rest).drop ds.length = 93 :: rest := by
  induction ds with
  | nil => simp [isDigit]
  | cons d ds ih =>
    simp only [List.all_cons, Bool.and_eq_true] at h
    obtain ⟨i1, i2⟩ := ih h.2
    simp [h.1, i1]

/-- skipping the rest of a match -/
theorem scanTags_skip : ∀ (a rest : Bytes), scanTags (a ++ rest) a.length = scanTags rest 0 := by
  intro a
  induction a with
  | nil => intro rest; rfl
  | cons x a ih => intro rest; simp only [List.cons_append, List.length_cons, scanTags]; exact ih rest

/-- the rendered tag `[img-<ds>]` is matched by the runner's regexp, its number read back -/
theorem matchTag_tag (ds rest : Bytes) (h : ds.all isDigit = true) (hne : ds ≠ []) :
    matchTag (bImgDash ++ ds ++ [93] ++ rest) = some (digitsVal ds, 5 + ds.length + 1) := by
  obtain ⟨t1, t2⟩ := takeWhile_digits ds rest h
  have e : bImgDash ++ ds ++ [93] ++ rest = 91 :: 105 :: 109 :: 103 :: 45 :: (ds ++ 93 :: rest) := by
    simp [bImgDash]
  rw [e]
  have hp : bImgDash.isPrefixOf (91 :: 105 :: 109 :: 103 :: 45 :: (ds ++ 93 :: rest)) = true := by
    simp [bImgDash, List.isPrefixOf]
  unfold matchTag
  simp only [hp, if_true]
  have hd : (91 :: 105 :: 109 :: 103 :: 45 :: (ds ++ 93 :: rest)).drop 5 = ds ++ 93 :: rest := rfl
  rw [hd, t1]
  have : ds.isEmpty = false := by cases ds <;> simp_all
  simp only [this, Bool.false_eq_true, if_false, t2]

theorem scanTags_tag (ds rest : Bytes) (h : ds.all isDigit = true) (hne : ds ≠ []) :
    scanTags (bImgDash ++ ds ++ [93] ++ rest) 0 = digitsVal ds :: scanTags rest 0 := by
  have hm := matchTag_tag ds rest h hne
  have e : bImgDash ++ ds ++ [93] ++ rest = 91 :: ((105 :: 109 :: 103 :: 45 :: (ds ++ [93])) ++ rest) := by
    simp [bImgDash]
  rw [e] at hm ⊢
  simp only [scanTags, hm]
  have hl : 5 + ds.length + 1 - 1 = (105 :: 109 :: 103 :: 45 :: (ds ++ [93])).length := by
    simp; omega
  rw [hl, scanTags_skip]

/-- a byte that is not `[` starts no match -/
theorem matchTag_not_bracket (x : UInt8) (s : Bytes) (hx : x ≠ 91) : matchTag (x :: s) = none := by
  unfold matchTag
  have : bImgDash.isPrefixOf (x :: s) = false := by
    simp [bImgDash, List.isPrefixOf]
    intro h; exact absurd h.symm hx
  simp [this]

/-- text in which no `[` starts (a prefix of) `[img-`: it contains no `[img-`, and does not end in the
    middle of one — the recorded assumption on user text, made precise -/
def safeText : Bytes → Bool
  | [] => true
  | x :: s => (x != 91 || !((x :: s).take 5).isPrefixOf bImgDash) && safeText s

theorem isPrefixOf_append_take (p t rest : Bytes) (h : p.isPrefixOf (t ++ rest) = true) :
    (t.take p.length).isPrefixOf p = true := by
  induction p generalizing t with
  | nil => simp
  | cons a p ih =>
    cases t with
    | nil => simp
    | cons b t =>
      simp only [List.cons_append, List.isPrefixOf, Bool.and_eq_true, beq_iff_eq] at h
      simp only [List.length_cons, List.take_succ_cons, List.isPrefixOf, Bool.and_eq_true, beq_iff_eq]
      exact ⟨h.1.symm, ih t h.2⟩

theorem scanTags_safe : ∀ (b rest : Bytes), safeText b = true → scanTags (b ++ rest) 0 = scanTags rest 0 := by
  intro b
  induction b with
  | nil => intro rest _; rfl
  | cons x b ih =>
    intro rest h
    simp only [safeText, Bool.and_eq_true, Bool.or_eq_true, bne_iff_ne, ne_eq, Bool.not_eq_true'] at h
    have hm : matchTag (x :: (b ++ rest)) = none := by
      rcases h.1 with hx | hp
      · exact matchTag_not_bracket x _ hx
      · unfold matchTag
        have : bImgDash.isPrefixOf (x :: (b ++ rest)) = false := by
          cases hq : bImgDash.isPrefixOf (x :: (b ++ rest)) with
          | false => rfl
          | true =>
            have := isPrefixOf_append_take bImgDash (x :: b) rest (by simpa using hq)
            have hl : bImgDash.length = 5 := rfl
            rw [hl] at this
            rw [this] at hp; cases hp
        simp [this]
    simp only [List.cons_append, scanTags, hm]
    exact ih rest h.2

theorem scanTags_slot (rest : Bytes) : scanTags (bImg ++ rest) 0 = scanTags rest 0 :=
  scanTags_safe bImg rest (by decide)

theorem scanTags_mm (rest : Bytes) : scanTags (bMM ++ rest) 0 = scanTags rest 0 :=
  scanTags_safe bMM rest (by decide)

/-- every literal piece is `safeText` -/
def cleanPieces (c : List Piece) : Bool :=
  c.all (fun p => match p with | .lit b => safeText b | _ => true)

theorem cleanPieces_strip (c : List Piece) : cleanPieces c = cleanPieces (strip c) := by
  induction c with
  | nil => rfl
  | cons p c ih =>
    cases p <;> simp_all [cleanPieces, strip, List.filter_cons]

theorem natBytes_spec (k : Nat) :
    (natBytes k).all isDigit = true ∧ digitsVal (natBytes k) = k ∧ natBytes k ≠ [] :=
  decDigits_spec (k+1) k (by omega)


/-- **The runner's regexp finds exactly the tags**: for contents whose literal text is `safeText`, the
    `[img-N]` matches of the rendered bytes are the `tag` pieces, in order, each number read back exactly
    (no tag is missed, none is invented, `strconv.Atoi` inverts `%d`) -/
theorem scanTags_renderPieces : ∀ (c : List Piece), cleanPieces c = true →
    scanTags (renderPieces c) 0 = tagsOf c := by
  intro c
  induction c with
  | nil => intro _; rfl
  | cons p c ih =>
    intro h
    have hc : cleanPieces c = true := by
      simp only [cleanPieces, List.all_cons, Bool.and_eq_true] at h ⊢; exact h.2
    have e : renderPieces (p :: c) = renderPiece p ++ renderPieces c := by simp [renderPieces]
    rw [e]
    cases p with
    | lit b =>
      have hb : safeText b = true := by
        simp only [cleanPieces, List.all_cons, Bool.and_eq_true] at h; exact h.1
      simp only [renderPiece, tagsOf, List.filterMap_cons]
      rw [scanTags_safe b _ hb]; exact ih hc
    | slot =>
      simp only [renderPiece, tagsOf, List.filterMap_cons]
      rw [scanTags_slot]; exact ih hc
    | mm =>
      simp only [renderPiece, tagsOf, List.filterMap_cons]
      rw [scanTags_mm]; exact ih hc
    | tag k =>
      obtain ⟨d1, d2, d3⟩ := natBytes_spec k
      simp only [renderPiece, tagsOf, List.filterMap_cons]
      rw [scanTags_tag (natBytes k) _ d1 d3, d2]
      congr 1
      exact ih hc


/-! ### piece-level collate, exact form and length of the in-place rendering (round 7) -/

abbrev PMsg := Role × List Piece

def rp (m : PMsg) : RMsg := (m.1, renderPieces m.2)

/-- `collateMsgs` at the level of pieces: the blank line that joins two messages is a literal piece -/
def collateP : List PMsg → List PMsg
  | [] => []
  | (r, c) :: rest =>
    match collateP rest with
    | (r', c') :: tl => if r = r' then (r, c ++ [Piece.lit sep2] ++ c') :: tl else (r, c) :: (r', c') :: tl
    | [] => [(r, c)]

theorem renderPieces_append (a b : List Piece) : renderPieces (a ++ b) = renderPieces a ++ renderPieces b := by
  simp [renderPieces]

theorem collateMsgs_map_rp : ∀ l : List PMsg, collateMsgs (l.map rp) = (collateP l).map rp := by
  intro l
  induction l with
  | nil => rfl
  | cons a l ih =>
    obtain ⟨r, c⟩ := a
    show collateMsgs ((r, renderPieces c) :: l.map rp) = (collateP ((r, c) :: l)).map rp
    simp only [collateMsgs, collateP, ih]
    cases hc : collateP l with
    | nil => simp [rp]
    | cons b tl =>
      obtain ⟨r', c'⟩ := b
      simp only [List.map_cons, rp]
      by_cases hr : r = r'
      · simp [hr, rp, renderPieces_append, renderPieces, renderPiece]
      · simp [hr, rp]

theorem tagsOf_append (a b : List Piece) : tagsOf (a ++ b) = tagsOf a ++ tagsOf b := by
  simp [tagsOf, List.filterMap_append]

theorem cleanPieces_append (a b : List Piece) : cleanPieces (a ++ b) = (cleanPieces a && cleanPieces b) := by
  simp [cleanPieces, List.all_append]

theorem collateP_tags : ∀ l : List PMsg,
    (collateP l).flatMap (fun m => tagsOf m.2) = l.flatMap (fun m => tagsOf m.2) := by
  intro l
  induction l with
  | nil => rfl
  | cons a l ih =>
    obtain ⟨r, c⟩ := a
    simp only [collateP, List.flatMap_cons]
    rw [← ih]
    cases hc : collateP l with
    | nil => simp
    | cons b tl =>
      obtain ⟨r', c'⟩ := b
      by_cases hr : r = r'
      · simp [hr, tagsOf_append, tagsOf]
      · simp [hr]

theorem collateP_clean : ∀ l : List PMsg, (∀ m ∈ l, cleanPieces m.2 = true) →
    ∀ m ∈ collateP l, cleanPieces m.2 = true := by
  intro l
  induction l with
  | nil => intro _ m hm; simp [collateP] at hm
  | cons a l ih =>
    intro h m hm
    obtain ⟨r, c⟩ := a
    have hc : cleanPieces c = true := h (r, c) (by simp)
    have ih' := ih (fun x hx => h x (by simp [hx]))
    simp only [collateP] at hm
    cases hcl : collateP l with
    | nil => rw [hcl] at hm; simp at hm; subst hm; exact hc
    | cons b tl =>
      obtain ⟨r', c'⟩ := b
      rw [hcl] at hm ih'
      have hc' : cleanPieces c' = true := ih' (r', c') (by simp)
      by_cases hr : r = r'
      · simp only [hr, if_true] at hm
        rcases List.mem_cons.mp hm with h1 | h1
        · subst h1
          simp only [cleanPieces_append, hc, hc', Bool.and_true, Bool.true_and]
          decide
        · exact ih' m (by simp [h1])
      · simp only [hr, if_false] at hm
        rcases List.mem_cons.mp hm with h1 | h1
        · subst h1; exact hc
        · exact ih' m h1

/-- the pieces of the in-place template's output for one (merged) message -/
def inPlaceP (m : PMsg) : List Piece :=
  [Piece.lit ([91] ++ roleName m.1 ++ [124])] ++ m.2 ++ [Piece.lit [93]]

theorem inPlaceP_render (m : PMsg) :
    renderPieces (inPlaceP m) = [91] ++ (roleName m.1 ++ ([124] ++ ((rp m).2 ++ ([93] ++ [])))) := by
  simp [inPlaceP, renderPieces_append, renderPieces, renderPiece, rp]

theorem inPlaceP_clean (m : PMsg) (h : cleanPieces m.2 = true) : cleanPieces (inPlaceP m) = true := by
  obtain ⟨r, c⟩ := m
  simp only [inPlaceP, cleanPieces_append, h, Bool.and_true, Bool.true_and]
  cases r <;> decide

theorem inPlaceP_tags (m : PMsg) : tagsOf (inPlaceP m) = tagsOf m.2 := by
  simp [inPlaceP, tagsOf_append, tagsOf]

theorem flatMap_clean {α : Type} (f : α → List Piece) : ∀ l : List α, (∀ x ∈ l, cleanPieces (f x) = true) →
    cleanPieces (l.flatMap f) = true := by
  intro l
  induction l with
  | nil => intro _; rfl
  | cons a l ih =>
    intro h
    simp only [List.flatMap_cons, cleanPieces_append, h a (by simp), ih (fun x hx => h x (by simp [hx])), Bool.and_true]

theorem flatMap_tags {α : Type} (f : α → List Piece) (l : List α) :
    tagsOf (l.flatMap f) = l.flatMap (fun x => tagsOf (f x)) := by
  induction l with
  | nil => rfl
  | cons a l ih => simp only [List.flatMap_cons, tagsOf_append, ih]

/-- folding message bodies = concatenation -/
theorem fold_bodies_exact (body : Option RMsg → XOut) (g : RMsg → Bytes) :
    ∀ (l : List RMsg) (acc : Bytes), (∀ m ∈ l, body (some m) = XOut.ok (g m)) →
    l.foldl (fun (a : XOut) m => a.append (body (some m))) (XOut.ok acc) = XOut.ok (acc ++ l.flatMap g) := by
  intro l
  induction l with
  | nil => intro acc _; simp
  | cons a l ih =>
    intro acc h
    have e : (XOut.ok acc).append (body (some a)) = XOut.ok (acc ++ g a) := by
      rw [h a (by simp)]; rfl
    rw [List.foldl_cons, e, ih (acc ++ g a) (fun m hm => h m (by simp [hm]))]
    simp

theorem count_tagsOf (k : Nat) : ∀ c : List Piece, (tagsOf c).count k = countTag k c := by
  intro c
  induction c with
  | nil => rfl
  | cons p c ih =>
    cases p with
    | tag j =>
      simp only [tagsOf, List.filterMap_cons, countTag, List.countP_cons] at ih ⊢
      by_cases hj : j = k
      · subst hj; simp [ih]
      · have : ¬ (k = j) := fun h => hj h.symm
        simp [hj, this, ih, List.count_cons]
    | lit b => simpa [tagsOf, countTag, List.countP_cons] using ih
    | slot => simpa [tagsOf, countTag, List.countP_cons] using ih
    | mm => simpa [tagsOf, countTag, List.countP_cons] using ih

theorem renderPieces_flatMap {α : Type} (f : α → List Piece) (l : List α) :
    renderPieces (l.flatMap f) = l.flatMap (fun x => renderPieces (f x)) := by
  induction l with
  | nil => rfl
  | cons a l ih => simp only [List.flatMap_cons, renderPieces_append, ih]


/-- bytes the in-place template spends on one message, given the role of the message before it (after
    collate a message of the same role is appended to the previous one with a blank line) -/
def ipCost (prev : Option Role) (m : RMsg) : Nat :=
  if prev = some m.1 then 2 + m.2.length else (roleName m.1).length + 3 + m.2.length

def ipLen : Option Role → List RMsg → Nat
  | _, [] => 0
  | prev, m :: l => ipCost prev m + ipLen (some m.1) l

theorem roleName_pos (r : Role) : 4 ≤ (roleName r).length := by cases r <;> decide

theorem ipCost_tri (prev : Option Role) (x y : RMsg) :
    ipCost prev y ≤ ipCost prev x + ipCost (some x.1) y := by
  have hy := roleName_pos y.1
  by_cases hxy : x.1 = y.1
  · unfold ipCost
    rw [hxy]
    by_cases h3 : prev = some y.1 <;> simp only [h3, if_true, if_false] <;> omega
  · have h2 : ¬ (some x.1 = some y.1) := fun h => hxy (Option.some.inj h)
    unfold ipCost
    simp only [h2, if_false]
    by_cases h3 : prev = some y.1 <;> simp only [h3, if_true, if_false] <;> omega

/-- removing the first message does not make the rendering longer -/
theorem ipLen_drop_head (prev : Option Role) (x : RMsg) (b : List RMsg) :
    ipLen prev b ≤ ipLen prev (x :: b) := by
  cases b with
  | nil => simp [ipLen]
  | cons y b' =>
    simp only [ipLen]
    have := ipCost_tri prev x y
    omega

/-- removing a message anywhere does not make the rendering longer -/
theorem ipLen_remove (x : RMsg) : ∀ (a b : List RMsg) (prev : Option Role),
    ipLen prev (a ++ b) ≤ ipLen prev (a ++ x :: b) := by
  intro a
  induction a with
  | nil => intro b prev; exact ipLen_drop_head prev x b
  | cons y a ih =>
    intro b prev
    simp only [List.cons_append, ipLen]
    have := ih b (some y.1)
    omega

def headRole (l : List RMsg) : Option Role := l.head?.map (·.1)

theorem collate_head (l : List RMsg) : headRole (collateMsgs l) = headRole l := by
  cases l with
  | nil => rfl
  | cons a rest =>
    obtain ⟨r, c⟩ := a
    simp only [collateMsgs]
    split
    · split <;> rfl
    · rfl

/-- `[role|content]` -/
def ipBody (x : RMsg) : Bytes := [91] ++ (roleName x.1 ++ ([124] ++ (x.2 ++ ([93] ++ []))))

theorem ipBody_length (x : RMsg) : (ipBody x).length = (roleName x.1).length + 3 + x.2.length := by
  simp [ipBody]; omega

def gl (l : List RMsg) : Nat := ((collateMsgs l).flatMap ipBody).length

theorem gl_cons (r : Role) (c : Bytes) (rest : List RMsg) :
    gl ((r, c) :: rest) =
      if headRole rest = some r then gl rest + c.length + 2
      else (roleName r).length + 3 + c.length + gl rest := by
  have hh := collate_head rest
  unfold gl
  simp only [collateMsgs]
  cases hc : collateMsgs rest with
  | nil =>
    rw [hc] at hh
    have : ¬ (headRole rest = some r) := by rw [← hh]; simp [headRole]
    simp [this, ipBody_length]
    try omega
  | cons b tl =>
    obtain ⟨r', c'⟩ := b
    rw [hc] at hh
    have hr' : headRole rest = some r' := by rw [← hh]; rfl
    by_cases hr : r = r'
    · subst hr
      simp [hr', ipBody_length, sep2]
      try omega
    · have : ¬ (some r' = some r) := fun h => hr (Option.some.inj h).symm
      simp [hr', hr, this, ipBody_length]
      try omega

/-- the length of the in-place rendering, computed left to right -/
theorem ipLen_gl : ∀ (l : List RMsg) (prev : Option Role),
    ipLen prev l + (match headRole l with
      | some r => if prev = some r then (roleName r).length + 1 else 0
      | none => 0) = gl l := by
  intro l
  induction l with
  | nil => intro prev; simp [ipLen, gl, headRole, collateMsgs]
  | cons a rest ih =>
    intro prev
    obtain ⟨r, c⟩ := a
    have ihr := ih (some r)
    rw [gl_cons]
    have hhd : headRole ((r, c) :: rest) = some r := rfl
    rw [hhd]
    simp only [ipLen, ipCost]
    have hrn := roleName_pos r
    cases hh : headRole rest with
    | none =>
      rw [hh] at ihr
      simp only [reduceCtorEq, if_false] at ihr ⊢
      by_cases hp : prev = some r <;> simp only [hp, if_true, if_false] <;> omega
    | some r' =>
      rw [hh] at ihr
      simp only at ihr
      by_cases hr : r' = r
      · subst hr
        simp only [if_true] at ihr ⊢
        by_cases hp : prev = some r' <;> simp only [hp, if_true, if_false] <;> omega
      · have h1 : ¬ (some r = some r') := fun h => hr (Option.some.inj h).symm
        have h2 : ¬ (some r' = some r) := fun h => hr (Option.some.inj h)
        simp only [h1, h2, if_false] at ihr ⊢
        by_cases hp : prev = some r <;> simp only [hp, if_true, if_false] <;> omega

theorem gl_eq_ipLen (l : List RMsg) : gl l = ipLen none l := by
  have := ipLen_gl l none
  cases h : headRole l <;> simp [h] at this <;> omega

/-- **removing a message never makes the in-place prompt longer** -/
theorem gl_remove (x : RMsg) (a b : List RMsg) : gl (a ++ b) ≤ gl (a ++ x :: b) := by
  rw [gl_eq_ipLen, gl_eq_ipLen]; exact ipLen_remove x a b none


theorem antitone_of_step (f : Nat → Nat) (L : Nat) (hstep : ∀ i, i < L → f (i+1) ≤ f i) :
    ∀ d i, i + d ≤ L → f (i + d) ≤ f i := by
  intro d
  induction d with
  | zero => intro i _; exact Nat.le_refl _
  | succ d ih =>
    intro i h
    have h1 := ih i (by omega)
    have h2 := hstep (i + d) (by omega)
    have : i + (d + 1) = i + d + 1 := by omega
    rw [this]
    omega

/-- the candidate list of iteration `i` -/
def cand (msgs : List Msg) (i : Nat) : List Msg := systemsBefore msgs i ++ msgs.drop i

theorem systemsBefore_succ (msgs : List Msg) (i : Nat) (h : i < msgs.length) :
    systemsBefore msgs (i+1) = systemsBefore msgs i ++ (if msgs[i].role = Role.system then [msgs[i]] else []) := by
  simp only [systemsBefore, List.take_add_one, List.filter_append]
  rw [List.getElem?_eq_getElem h]
  by_cases hr : msgs[i].role = Role.system <;> simp [hr]

/-- the next shorter candidate is the current one, possibly with one (non-system) message removed -/
theorem cand_step (msgs : List Msg) (i : Nat) (h : i < msgs.length) :
    cand msgs (i+1) = cand msgs i ∨
    ∃ a b x, cand msgs i = a ++ x :: b ∧ cand msgs (i+1) = a ++ b := by
  have hd : msgs.drop i = msgs[i] :: msgs.drop (i+1) := (List.drop_eq_getElem_cons h)
  unfold cand
  rw [systemsBefore_succ msgs i h, hd]
  by_cases hr : msgs[i].role = Role.system
  · left; simp [hr]
  · right
    exact ⟨systemsBefore msgs i, msgs.drop (i+1), msgs[i], rfl, by simp [hr]⟩

theorem imgCount_drop_step (msgs : List Msg) (i : Nat) :
    imgCount (msgs.drop (i+1)) ≤ imgCount (msgs.drop i) := by
  by_cases h : i < msgs.length
  · rw [List.drop_eq_getElem_cons h]
    simp only [imgCount, List.map_cons, List.sum_cons]
    omega
  · have h1 : msgs.drop i = [] := List.drop_eq_nil_of_le (by omega)
    have h2 : msgs.drop (i+1) = [] := List.drop_eq_nil_of_le (by omega)
    rw [h1, h2]; exact Nat.le_refl _


/-! ### the OpenAI-compatible entry -/

theorem fromOpenAIMsg_images (m : OMsg) : (fromOpenAIMsg m).flatMap (·.images) = omsgImages m := by
  obtain ⟨r, c⟩ := m
  cases c with
  | str c => rfl
  | parts ps =>
    simp only [fromOpenAIMsg, omsgImages]
    induction ps with
    | nil => rfl
    | cons p ps ih =>
      cases p <;> simp_all [partMsg, partImages]

/-- the images of the converted conversation are the image parts of the request, in order -/
theorem fromOpenAI_images (l : List OMsg) : (fromOpenAI l).flatMap (·.images) = l.flatMap omsgImages := by
  induction l with
  | nil => rfl
  | cons m l ih =>
    simp only [fromOpenAI, List.flatMap_cons, List.flatMap_append] at ih ⊢
    rw [ih, fromOpenAIMsg_images]

/-- every converted message carries at most one image -/
theorem fromOpenAI_one_image (l : List OMsg) : ∀ m ∈ fromOpenAI l, m.images.length ≤ 1 := by
  intro m hm
  simp only [fromOpenAI, List.mem_flatMap] at hm
  obtain ⟨o, _, hmo⟩ := hm
  obtain ⟨r, c⟩ := o
  cases c with
  | str c => simp [fromOpenAIMsg] at hmo; subst hmo; simp
  | parts ps =>
    simp only [fromOpenAIMsg, List.mem_map] at hmo
    obtain ⟨p, _, hp⟩ := hmo
    subst hp
    cases p <;> simp [partMsg]



/-! ### the header template at the level of pieces (round 7) -/

/-- `strings.Join(…, "\n\n")` at the level of pieces -/
def joinP : List (List Piece) → List Piece
  | [] => []
  | [x] => x
  | x :: y :: xs => x ++ [Piece.lit sep2] ++ joinP (y :: xs)

theorem joinSep_renderPieces : ∀ cs : List (List Piece),
    joinSep sep2 (cs.map renderPieces) = renderPieces (joinP cs) := by
  intro cs
  induction cs with
  | nil => rfl
  | cons x xs ih =>
    cases xs with
    | nil => rfl
    | cons y ys =>
      simp only [List.map_cons, joinSep, joinP, renderPieces_append] at ih ⊢
      rw [ih]
      simp [renderPieces, renderPiece]

theorem joinP_clean : ∀ cs : List (List Piece), (∀ c ∈ cs, cleanPieces c = true) → cleanPieces (joinP cs) = true := by
  intro cs
  induction cs with
  | nil => intro _; rfl
  | cons x xs ih =>
    intro h
    cases xs with
    | nil => exact h x (by simp)
    | cons y ys =>
      simp only [joinP, cleanPieces_append, h x (by simp), ih (fun c hc => h c (by simp [hc])), Bool.and_true, Bool.true_and]
      decide

theorem joinP_tags : ∀ cs : List (List Piece), tagsOf (joinP cs) = cs.flatMap tagsOf := by
  intro cs
  induction cs with
  | nil => rfl
  | cons x xs ih =>
    cases xs with
    | nil => simp [joinP]
    | cons y ys =>
      simp only [joinP, tagsOf_append, ih, List.flatMap_cons]
      simp [tagsOf]

theorem tagsOf_of_render_nil : ∀ c : List Piece, renderPieces c = [] → tagsOf c = [] := by
  intro c
  induction c with
  | nil => intro _; rfl
  | cons p c ih =>
    intro h
    have e : renderPieces (p :: c) = renderPiece p ++ renderPieces c := by simp [renderPieces]
    rw [e] at h
    have h1 := List.append_eq_nil_iff.mp h
    cases p with
    | tag k => simp [renderPiece, bImgDash] at h1
    | lit b => simpa [tagsOf] using ih h1.2
    | slot => simp [renderPiece, bImg] at h1
    | mm => simp [renderPiece, bMM] at h1

/-- header template: body of the range for one merged message, as pieces -/
def headerP (m : PMsg) : List Piece := if m.1 = Role.system then [] else inPlaceP m

theorem headerP_tags (m : PMsg) : tagsOf (headerP m) = if m.1 = Role.system then [] else tagsOf m.2 := by
  unfold headerP
  split
  · rfl
  · exact inPlaceP_tags m

theorem collateP_tags_nonsys : ∀ l : List PMsg,
    (collateP l).flatMap (fun m => tagsOf (headerP m)) = l.flatMap (fun m => tagsOf (headerP m)) := by
  intro l
  simp only [headerP_tags]
  induction l with
  | nil => rfl
  | cons a l ih =>
    obtain ⟨r, c⟩ := a
    simp only [collateP, List.flatMap_cons]
    rw [← ih]
    cases hc : collateP l with
    | nil => simp
    | cons b tl =>
      obtain ⟨r', c'⟩ := b
      by_cases hr : r = r'
      · subst hr
        by_cases hs : r = Role.system
        · simp [hs]
        · simp only [hs, if_false, if_true, List.flatMap_cons, tagsOf_append]
          simp [tagsOf]
      · simp [hr]

theorem headerP_clean (m : PMsg) (h : cleanPieces m.2 = true) : cleanPieces (headerP m) = true := by
  unfold headerP
  split
  · rfl
  · exact inPlaceP_clean m h


def isSysP (m : PMsg) : Bool := decide (m.1 = Role.system)

theorem headerP_render (m : PMsg) :
    renderPieces (headerP m) =
      if (rp m).1 = Role.system then [] else [91] ++ (roleName (rp m).1 ++ ([124] ++ ((rp m).2 ++ ([93] ++ [])))) := by
  unfold headerP
  by_cases h : m.1 = Role.system
  · simp [h, rp, renderPieces]
  · simp only [h, if_false, rp]
    exact inPlaceP_render m

theorem collate_system_pieces (l : List PMsg) :
    (collate (l.map rp)).1 = renderPieces (joinP ((l.filter isSysP).map (·.2))) := by
  unfold collate
  simp only
  rw [← joinSep_renderPieces]
  congr 1
  induction l with
  | nil => rfl
  | cons a l ih =>
    obtain ⟨r, c⟩ := a
    by_cases h : r = Role.system
    · simp [List.filter_cons, rp, isSysP, h, ih]
    · simp [List.filter_cons, rp, isSysP, h, ih]

theorem count_partition (k : Nat) : ∀ l : List PMsg,
    (((l.filter isSysP).map (·.2)).flatMap tagsOf).count k +
      (l.flatMap (fun m => tagsOf (headerP m))).count k = (l.flatMap (fun m => tagsOf m.2)).count k := by
  intro l
  induction l with
  | nil => rfl
  | cons a l ih =>
    obtain ⟨r, c⟩ := a
    by_cases h : r = Role.system
    · have e1 : List.filter isSysP ((r, c) :: l) = (r, c) :: List.filter isSysP l := by
        simp [List.filter_cons, isSysP, h]
      have e2 : tagsOf (headerP (r, c)) = [] := by simp [headerP_tags, h]
      rw [e1]
      simp only [List.map_cons, List.flatMap_cons, List.count_append, e2, List.count_nil]
      omega
    · have e1 : List.filter isSysP ((r, c) :: l) = List.filter isSysP l := by
        simp [List.filter_cons, isSysP, h]
      have e2 : tagsOf (headerP (r, c)) = tagsOf c := by simp [headerP_tags, h]
      rw [e1]
      simp only [List.flatMap_cons, List.count_append, e2]
      omega



/-! ### length of the header template's range part (round 7) -/

/-- bytes the header template's range spends on one message (system messages print nothing there) -/
def hCost (prev : Option Role) (m : RMsg) : Nat :=
  if m.1 = Role.system then 0
  else if prev = some m.1 then 2 + m.2.length else (roleName m.1).length + 3 + m.2.length

def hLen : Option Role → List RMsg → Nat
  | _, [] => 0
  | prev, m :: l => hCost prev m + hLen (some m.1) l

theorem hCost_tri (prev : Option Role) (x y : RMsg) (hx : x.1 ≠ Role.system) :
    hCost prev y ≤ hCost prev x + hCost (some x.1) y := by
  have hy := roleName_pos y.1
  unfold hCost
  by_cases hys : y.1 = Role.system
  · simp [hys]
  · simp only [hys, hx, if_false]
    by_cases hxy : x.1 = y.1
    · rw [hxy]
      by_cases h3 : prev = some y.1 <;> simp only [h3, if_true, if_false] <;> omega
    · have h2 : ¬ (some x.1 = some y.1) := fun h => hxy (Option.some.inj h)
      simp only [h2, if_false]
      by_cases h3 : prev = some y.1 <;> simp only [h3, if_true, if_false] <;> omega

theorem hLen_drop_head (prev : Option Role) (x : RMsg) (b : List RMsg) (hx : x.1 ≠ Role.system) :
    hLen prev b ≤ hLen prev (x :: b) := by
  cases b with
  | nil => simp [hLen]
  | cons y b' =>
    simp only [hLen]
    have := hCost_tri prev x y hx
    omega

/-- removing a non-system message does not make the range part longer -/
theorem hLen_remove (x : RMsg) (hx : x.1 ≠ Role.system) : ∀ (a b : List RMsg) (prev : Option Role),
    hLen prev (a ++ b) ≤ hLen prev (a ++ x :: b) := by
  intro a
  induction a with
  | nil => intro b prev; exact hLen_drop_head prev x b hx
  | cons y a ih =>
    intro b prev
    simp only [List.cons_append, hLen]
    have := ih b (some y.1)
    omega

def hBody (x : RMsg) : Bytes :=
  if x.1 = Role.system then [] else [91] ++ (roleName x.1 ++ ([124] ++ (x.2 ++ ([93] ++ []))))

theorem hBody_length (x : RMsg) :
    (hBody x).length = if x.1 = Role.system then 0 else (roleName x.1).length + 3 + x.2.length := by
  unfold hBody
  split
  · rfl
  · simp; omega

def hgl (l : List RMsg) : Nat := ((collateMsgs l).flatMap hBody).length

theorem hgl_cons (r : Role) (c : Bytes) (rest : List RMsg) :
    hgl ((r, c) :: rest) =
      if r = Role.system then hgl rest
      else if headRole rest = some r then hgl rest + c.length + 2
      else (roleName r).length + 3 + c.length + hgl rest := by
  have hh := collate_head rest
  unfold hgl
  simp only [collateMsgs]
  cases hc : collateMsgs rest with
  | nil =>
    rw [hc] at hh
    have : ¬ (headRole rest = some r) := by rw [← hh]; simp [headRole]
    by_cases hs : r = Role.system
    · simp [hs, hBody_length]
    · simp [this, hs, hBody_length]
      try omega
  | cons b tl =>
    obtain ⟨r', c'⟩ := b
    rw [hc] at hh
    have hr' : headRole rest = some r' := by rw [← hh]; rfl
    by_cases hr : r = r'
    · subst hr
      by_cases hs : r = Role.system
      · simp [hs, hBody_length]
      · simp [hr', hs, hBody_length, sep2]
        try omega
    · have : ¬ (some r' = some r) := fun h => hr (Option.some.inj h).symm
      by_cases hs : r = Role.system
      · subst hs
        have hr2 : ¬ (Role.system = r') := hr
        simp [hr2, hBody_length]
      · simp [hr', hr, this, hs, hBody_length]
        try omega

theorem hLen_hgl : ∀ (l : List RMsg) (prev : Option Role),
    hLen prev l + (match headRole l with
      | some r => if r ≠ Role.system ∧ prev = some r then (roleName r).length + 1 else 0
      | none => 0) = hgl l := by
  intro l
  induction l with
  | nil => intro prev; simp [hLen, hgl, headRole, collateMsgs]
  | cons a rest ih =>
    intro prev
    obtain ⟨r, c⟩ := a
    have ihr := ih (some r)
    rw [hgl_cons]
    have hhd : headRole ((r, c) :: rest) = some r := rfl
    rw [hhd]
    simp only [hLen, hCost]
    have hrn := roleName_pos r
    by_cases hs : r = Role.system
    · subst hs
      simp only [if_true, ne_eq, not_true_eq_false, false_and, if_false] at ihr ⊢
      cases hh : headRole rest with
      | none => rw [hh] at ihr; simp only at ihr; omega
      | some r' =>
        rw [hh] at ihr
        simp only at ihr
        by_cases h2 : r' ≠ Role.system ∧ some Role.system = some r'
        · exfalso; exact h2.1 (Option.some.inj h2.2).symm
        · simp only [h2, if_false] at ihr; omega
    · simp only [hs, if_false, ne_eq, not_false_eq_true, true_and]
      cases hh : headRole rest with
      | none =>
        rw [hh] at ihr
        simp only [reduceCtorEq, if_false] at ihr ⊢
        by_cases hp : prev = some r <;> simp only [hp, if_true, if_false] <;> omega
      | some r' =>
        rw [hh] at ihr
        simp only at ihr
        by_cases hr : r' = r
        · subst hr
          simp only [hs, ne_eq, not_false_eq_true, true_and, if_true] at ihr ⊢
          by_cases hp : prev = some r' <;> simp only [hp, if_true, if_false] <;> omega
        · have h1 : ¬ (some r = some r') := fun h => hr (Option.some.inj h).symm
          have h2 : ¬ (some r' = some r) := fun h => hr (Option.some.inj h)
          simp only [h1, h2, and_false, if_false] at ihr ⊢
          by_cases hp : prev = some r <;> simp only [hp, if_true, if_false] <;> omega

theorem hgl_eq_hLen (l : List RMsg) : hgl l = hLen none l := by
  have := hLen_hgl l none
  cases h : headRole l <;> simp [h] at this <;> omega

/-- **removing a non-system message never makes the range part of the header prompt longer** -/
theorem hgl_remove (x : RMsg) (hx : x.1 ≠ Role.system) (a b : List RMsg) : hgl (a ++ b) ≤ hgl (a ++ x :: b) := by
  rw [hgl_eq_hLen, hgl_eq_hLen]; exact hLen_remove x hx a b none



/-! ### failures of the loop have a cause (round 7) -/

theorem scan_err_inv (cfg : Cfg) (cost : Nat → Nat) (bad : Nat → Bool) (msgs : List Msg) :
    ∀ (k n : Nat) (s : Option Nat) (q : Nat), scan cfg cost bad msgs k n s q = .err →
      cfg.mllama = true ∧ ∃ i, i < k ∧ 1 < (imagesAt msgs i).length := by
  intro k
  induction k with
  | zero => intro n s q h; simp [scan] at h
  | succ k ih =>
    intro n s q h
    unfold scan at h
    split at h
    · rename_i hc
      simp only [Bool.and_eq_true, decide_eq_true_eq] at hc
      exact ⟨hc.1, k, by omega, hc.2⟩
    · split at h
      · obtain ⟨a, i, hi, hb⟩ := ih _ _ _ h
        exact ⟨a, i, by omega, hb⟩
      · split at h
        · cases h
        · split at h
          · obtain ⟨a, i, hi, hb⟩ := ih _ _ _ h
            exact ⟨a, i, by omega, hb⟩
          · cases h

theorem scan_fail_inv (cfg : Cfg) (cost : Nat → Nat) (bad : Nat → Bool) (msgs : List Msg) :
    ∀ (k n : Nat) (s : Option Nat) (q : Nat) (i : Nat), scan cfg cost bad msgs k n s q = .fail i →
      bad i = true ∧ i < k := by
  intro k
  induction k with
  | zero => intro n s q i h; simp [scan] at h
  | succ k ih =>
    intro n s q i h
    unfold scan at h
    split at h
    · cases h
    · split at h
      · obtain ⟨a, b⟩ := ih _ _ _ _ h
        exact ⟨a, by omega⟩
      · split at h
        · rename_i hb
          injection h with h
          subst h
          exact ⟨hb, by omega⟩
        · split at h
          · obtain ⟨a, b⟩ := ih _ _ _ _ h
            exact ⟨a, by omega⟩
          · cases h



/-! ### the proposed repair of F5: sanitised text contains no image tag (round 7) -/

theorem sanitizeGo_cons (b : UInt8) (bs : Bytes) :
    sanitizeGo (b :: bs) 0 =
      if bImgDash.isPrefixOf (b :: bs) then [91, 105, 109, 103, 32, 45] ++ sanitizeGo bs 4 else b :: sanitizeGo bs 0 := by
  simp only [sanitizeGo]

/-- a byte other than `[` is copied -/
theorem sanitizeGo_copy (b : UInt8) (bs : Bytes) (hb : b ≠ 91) : sanitizeGo (b :: bs) 0 = b :: sanitizeGo bs 0 := by
  rw [sanitizeGo_cons]
  have : bImgDash.isPrefixOf (b :: bs) = false := by
    simp [bImgDash, List.isPrefixOf]
    intro h; exact absurd h.symm hb
  simp [this]

/-- the first output byte is the first input byte -/
theorem sanitizeGo_first (b : UInt8) (bs : Bytes) : ∃ t, sanitizeGo (b :: bs) 0 = b :: t := by
  rw [sanitizeGo_cons]
  split
  · rename_i h
    have hb : b = 91 := by
      simp [bImgDash, List.isPrefixOf] at h
      exact h.1.symm
    subst hb
    exact ⟨_, rfl⟩
  · exact ⟨_, rfl⟩

/-- if the output spells `x :: w` with `x ≠ '['`, the input starts with `x` and the rest of the output is the output of the rest -/
theorem sanitize_step (x : UInt8) (hx : x ≠ 91) (w rest : Bytes)
    (h : (x :: w).isPrefixOf (sanitizeGo rest 0) = true) :
    ∃ rest', rest = x :: rest' ∧ w.isPrefixOf (sanitizeGo rest' 0) = true := by
  cases rest with
  | nil => simp [sanitizeGo, List.isPrefixOf] at h
  | cons r rest' =>
    obtain ⟨t, ht⟩ := sanitizeGo_first r rest'
    have hr : x = r := by
      rw [ht] at h
      simp only [List.isPrefixOf, Bool.and_eq_true, beq_iff_eq] at h
      exact h.1
    subst hr
    refine ⟨rest', rfl, ?_⟩
    rw [sanitizeGo_copy x rest' hx] at h
    simp only [List.isPrefixOf, Bool.and_eq_true, beq_iff_eq] at h
    exact h.2

/-- **after the repair no text spells the beginning of an image tag**: the output of the sanitiser never has
    `[img-` at its start — neither from a replaced occurrence (`[img -`) nor from copied bytes -/
theorem sanitize_no_dash_head (s : Bytes) : bImgDash.isPrefixOf (sanitizeGo s 0) = false := by
  cases s with
  | nil => rfl
  | cons b bs =>
    rw [sanitizeGo_cons]
    cases hp : bImgDash.isPrefixOf (b :: bs) with
    | true => simp [bImgDash, List.isPrefixOf]
    | false =>
      simp only [Bool.false_eq_true, if_false]
      cases hq : bImgDash.isPrefixOf (b :: sanitizeGo bs 0) with
      | false => rfl
      | true =>
        exfalso
        have hb : b = 91 := by
          simp [bImgDash, List.isPrefixOf] at hq
          exact hq.1.symm
        subst hb
        have h4 : ([105, 109, 103, 45] : Bytes).isPrefixOf (sanitizeGo bs 0) = true := by
          simpa [bImgDash, List.isPrefixOf] using hq
        obtain ⟨r1, e1, h3⟩ := sanitize_step 105 (by decide) _ bs h4
        obtain ⟨r2, e2, h2⟩ := sanitize_step 109 (by decide) _ r1 h3
        obtain ⟨r3, e3, h1⟩ := sanitize_step 103 (by decide) _ r2 h2
        obtain ⟨r4, e4, _⟩ := sanitize_step 45 (by decide) _ r3 h1
        subst e1; subst e2; subst e3; subst e4
        simp [bImgDash, List.isPrefixOf] at hp

theorem sanitizeGo_skip : ∀ (bs : Bytes) (k : Nat), sanitizeGo bs k = sanitizeGo (bs.drop k) 0 := by
  intro bs
  induction bs with
  | nil => intro k; cases k <;> simp [sanitizeGo]
  | cons b bs ih =>
    intro k
    cases k with
    | zero => rfl
    | succ k => simp only [sanitizeGo, List.drop_succ_cons]; exact ih k

/-- **Proposed repair of F5: sanitised text contains no image tag the runner could read** — for every text -/
theorem sanitized_text_has_no_tag : ∀ (n : Nat) (s : Bytes), s.length ≤ n → scanTags (sanitizeGo s 0) 0 = [] := by
  intro n
  induction n with
  | zero =>
    intro s h
    have : s = [] := by cases s <;> simp_all
    subst this; rfl
  | succ n ih =>
    intro s h
    cases s with
    | nil => rfl
    | cons b bs =>
      have hlen : bs.length ≤ n := by simp at h; omega
      cases hp : bImgDash.isPrefixOf (b :: bs) with
      | true =>
        rw [sanitizeGo_cons, hp, if_pos rfl, sanitizeGo_skip]
        rw [scanTags_safe [91, 105, 109, 103, 32, 45] _ (by decide)]
        exact ih _ (by simp; omega)
      | false =>
        have hno := sanitize_no_dash_head (b :: bs)
        rw [sanitizeGo_cons, hp] at hno ⊢
        simp only [Bool.false_eq_true, if_false] at hno ⊢
        have hm : matchTag (b :: sanitizeGo bs 0) = none := by
          unfold matchTag
          simp [hno]
        simp only [scanTags, hm]
        exact ih bs hlen

theorem sanitizeBytes_no_tag (s : Bytes) : scanTags (sanitizeBytes s) 0 = [] :=
  sanitized_text_has_no_tag s.length s (Nat.le_refl _)


end OllamaVerif.Prompt
