/-
  Helper lemmas for C19 (model: Model/Prompt.lean).  Core Lean only.
-/
import OllamaVerif.Model.Prompt

namespace OllamaVerif.Prompt

/-! ### the backward loop -/

/-- The loop from the state it is in after the first (`continue`) iteration and after every
    successful iteration: next index to visit is `k-1`, and `n = k`. -/
theorem scan_diag (cfg : Cfg) (cost : Nat → Nat) (bad : Nat → Bool) (msgs : List Msg) :
    ∀ (k : Nat) (s : Option Nat) (q n' : Nat) (s' : Option Nat) (q' : Nat),
      scan cfg cost bad msgs k k s q = .done n' s' q' →
      n' ≤ k ∧ (∀ j, n' ≤ j → j < k → fits cfg cost msgs j = true) ∧
      (n' = 0 ∨ fits cfg cost msgs (n' - 1) = false) ∧
      (0 < k → s' = some (n' - 1)) ∧ (k = 0 → s' = s) := by
  intro k
  induction k with
  | zero =>
    intro s q n' s' q' h
    simp only [scan] at h
    injection h with h1 h2 h3
    subst h1; subst h2
    exact ⟨Nat.le_refl _, fun j _ hj => absurd hj (Nat.not_lt_zero _), Or.inl rfl,
      fun h => absurd h (Nat.lt_irrefl _), fun _ => rfl⟩
  | succ k ih =>
    intro s q n' s' q' h
    unfold scan at h
    split at h
    · cases h
    · have hne : ¬ (k = k + 1) := by omega
      simp only [hne, if_false] at h
      split at h
      · cases h
      split at h
      · rename_i hfit
        obtain ⟨h1, h2, h3, h4, h5⟩ := ih (some k) (q+1) n' s' q' h
        refine ⟨by omega, ?_, h3, ?_, fun hk => by omega⟩
        · intro j hj1 hj2
          by_cases hjk : j = k
          · subst hjk; exact hfit
          · exact h2 j hj1 (by omega)
        · intro _
          by_cases hk : k = 0
          · have := h5 hk
            subst hk
            have : n' = 0 := by omega
            subst this
            simpa using this
          · exact h4 (by omega)
      · rename_i hfit
        injection h with h1 h2 h3
        subst h1; subst h2
        refine ⟨Nat.le_refl _, fun j hj1 hj2 => by omega, Or.inr ?_, fun _ => rfl, fun hk => by omega⟩
        simpa using hfit

/-- number of tokenizer calls made by the loop in the diagonal state -/
theorem scan_diag_evals (cfg : Cfg) (cost : Nat → Nat) (bad : Nat → Bool) (msgs : List Msg) :
    ∀ (k : Nat) (s : Option Nat) (q n' : Nat) (s' : Option Nat) (q' : Nat),
      scan cfg cost bad msgs k k s q = .done n' s' q' →
      q' = q + (k - n') + (if n' = 0 then 0 else 1) := by
  intro k
  induction k with
  | zero =>
    intro s q n' s' q' h
    simp only [scan] at h
    injection h with h1 h2 h3
    subst h1; subst h3
    simp
  | succ k ih =>
    intro s q n' s' q' h
    unfold scan at h
    split at h
    · cases h
    · have hne : ¬ (k = k + 1) := by omega
      simp only [hne, if_false] at h
      split at h
      · cases h
      split at h
      · have hd' := scan_diag cfg cost bad msgs k (some k) (q+1) n' s' q' h
        have := ih (some k) (q+1) n' s' q' h
        rw [this]
        obtain ⟨h1, _, _, _, _⟩ := hd'
        omega
      · injection h with h1 h2 h3
        subst h1; subst h3
        simp

/-- the loop as chatPrompt starts it on a non-empty conversation of length `k+1` -/
theorem scan_start (cfg : Cfg) (cost : Nat → Nat) (bad : Nat → Bool) (msgs : List Msg) (k n' : Nat)
    (s' : Option Nat) (q' : Nat)
    (h : scan cfg cost bad msgs (k+1) k none 0 = .done n' s' q') :
    scan cfg cost bad msgs k k none 0 = .done n' s' q' := by
  unfold scan at h
  split at h
  · cases h
  · simpa using h

/-! ### the rewriting loops -/

def countTag (k : Nat) (c : List Piece) : Nat := c.countP (fun p => p == Piece.tag k)

/-- literal text and markers with every placeholder / tag removed -/
def strip (c : List Piece) : List Piece :=
  c.filter (fun p => match p with | .lit _ => true | _ => false)

@[simp] theorem countTag_append (k : Nat) (a b : List Piece) :
    countTag k (a ++ b) = countTag k a + countTag k b := by
  simp [countTag, List.countP_append]

theorem countTag_fillSlot (k t : Nat) : ∀ (c : List Piece), hasSlot c = true →
    countTag k (fillSlot t c) = countTag k c + (if k = t then 1 else 0) := by
  intro c
  induction c with
  | nil => intro h; simp [hasSlot] at h
  | cons p r ih =>
    intro h
    cases p with
    | slot =>
      simp only [fillSlot, countTag, List.countP_cons]
      by_cases hk : k = t
      · subst hk; simp
      · have : ¬ (t = k) := fun h => hk h.symm
        simp [hk, this]
    | lit b =>
      have h' : hasSlot r = true := by simpa [hasSlot] using h
      have := ih h'
      simp only [fillSlot, countTag, List.countP_cons] at this ⊢
      simp; omega
    | tag j =>
      have h' : hasSlot r = true := by simpa [hasSlot] using h
      have := ih h'
      simp only [fillSlot, countTag, List.countP_cons] at this ⊢
      omega
    | mm =>
      have h' : hasSlot r = true := by simpa [hasSlot] using h
      have := ih h'
      simp only [fillSlot, countTag, List.countP_cons] at this ⊢
      simp; omega

theorem strip_fillSlot (t : Nat) : ∀ (c : List Piece), strip (fillSlot t c) = strip c := by
  intro c
  induction c with
  | nil => rfl
  | cons p r ih =>
    cases p <;> simp_all [fillSlot, strip]

@[simp] theorem strip_append (a b : List Piece) : strip (a ++ b) = strip a ++ strip b := by
  simp [strip]

/-- invariant of one image step -/
structure StepInv (st st' : RW) (im : Img) : Prop where
  acc : st'.acc.map (·.src) = st.acc.map (·.src) ++ [im.src]
  lastId : ∃ o, st'.acc = st.acc ++ [o] ∧ o.id = st.acc.length ∧ o.src = im.src
  count : ∀ k, countTag k (st'.pre ++ st'.body) =
      countTag k (st.pre ++ st.body) + (if k = st.acc.length then 1 else 0)
  body : strip st'.body = strip st.body
  preTags : strip st.pre = [] → strip st'.pre = []

theorem imgData_ok (cfg : Cfg) (id : Nat) (im : Img) (mm mm' : Bool) (o : ImgOut)
    (h : imgData cfg id im mm = .ok (o, mm')) : o.id = id ∧ o.src = im.src := by
  unfold imgData at h
  split at h
  · split at h
    · injection h with h; injection h with h1 h2; subst h1; exact ⟨rfl, rfl⟩
    · split at h
      · injection h with h; injection h with h1 h2; subst h1; exact ⟨rfl, rfl⟩
      · cases h
  · injection h with h; injection h with h1 h2; subst h1; exact ⟨rfl, rfl⟩

theorem stepImg_inv (cfg : Cfg) (st st' : RW) (im : Img) (h : stepImg cfg st im = .ok st') :
    StepInv st st' im := by
  unfold stepImg at h
  split at h
  · cases h
  · rename_i o mm hr
    have ho := imgData_ok cfg _ im _ _ o hr
    split at h
    · rename_i hs
      injection h with h; subst h
      refine ⟨by simp [ho.2], ⟨o, rfl, ho.1, ho.2⟩, ?_, strip_fillSlot _ _, fun h => h⟩
      intro k
      simp only [countTag_append, countTag_fillSlot k _ _ hs]
      omega
    · injection h with h; subst h
      refine ⟨by simp [ho.2], ⟨o, rfl, ho.1, ho.2⟩, ?_, rfl, ?_⟩
      · intro k
        simp only [countTag_append]
        have : countTag k [Piece.tag st.acc.length] = if k = st.acc.length then 1 else 0 := by
          by_cases hk : k = st.acc.length
          · subst hk; simp [countTag]
          · have : ¬ (st.acc.length = k) := fun h => hk h.symm
            simp [countTag, hk, this]
        rw [this]; omega
      · intro hp
        rw [strip_append, hp]; rfl

/-- ids of an accumulated image list are the positions -/
def IdsOk (acc : List ImgOut) : Prop := ∀ k (h : k < acc.length), (acc[k]).id = k

theorem IdsOk_snoc (acc : List ImgOut) (o : ImgOut) (h : IdsOk acc) (ho : o.id = acc.length) :
    IdsOk (acc ++ [o]) := by
  intro k hk
  by_cases hlt : k < acc.length
  · rw [List.getElem_append_left hlt]; exact h k hlt
  · have : k = acc.length := by simp at hk; omega
    subst this
    simp [ho]

theorem foldImgs_inv (cfg : Cfg) : ∀ (ims : List Img) (st st' : RW),
    foldImgs cfg ims st = .ok st' →
    st'.acc.map (·.src) = st.acc.map (·.src) ++ ims.map (·.src) ∧
    st'.acc.length = st.acc.length + ims.length ∧
    (IdsOk st.acc → IdsOk st'.acc) ∧
    (∀ k, countTag k (st'.pre ++ st'.body) = countTag k (st.pre ++ st.body) +
        (if st.acc.length ≤ k ∧ k < st'.acc.length then 1 else 0)) ∧
    strip st'.body = strip st.body ∧ (strip st.pre = [] → strip st'.pre = []) := by
  intro ims
  induction ims with
  | nil =>
    intro st st' h
    simp only [foldImgs] at h
    injection h with h; subst h
    refine ⟨by simp, by simp, fun h => h, ?_, rfl, fun h => h⟩
    intro k
    have : ¬ (st.acc.length ≤ k ∧ k < st.acc.length) := by omega
    simp [this]
  | cons im ims ih =>
    intro st st' h
    simp only [foldImgs] at h
    split at h
    · cases h
    · rename_i st1 h1
      have inv := stepImg_inv cfg st st1 im h1
      obtain ⟨a, b, c, d, e, f⟩ := ih st1 st' h
      obtain ⟨o, ho1, ho2, _⟩ := inv.lastId
      have hlen : st1.acc.length = st.acc.length + 1 := by rw [ho1]; simp
      refine ⟨?_, ?_, ?_, ?_, ?_, ?_⟩
      · rw [a, inv.acc]; simp
      · rw [b, hlen]; simp; omega
      · intro hi
        apply c
        rw [ho1]
        exact IdsOk_snoc _ _ hi ho2
      · intro k
        rw [d k, inv.count k, hlen]
        have hb : st'.acc.length = st.acc.length + 1 + ims.length := by rw [b, hlen]
        by_cases h1 : k = st.acc.length
        · subst h1
          have : ¬ (st.acc.length + 1 ≤ st.acc.length ∧ st.acc.length < st'.acc.length) := by omega
          have h2 : st.acc.length ≤ st.acc.length ∧ st.acc.length < st'.acc.length := by omega
          rw [if_neg this, if_pos h2, if_pos rfl]
        · by_cases h2 : st.acc.length + 1 ≤ k ∧ k < st'.acc.length
          · have h3 : st.acc.length ≤ k ∧ k < st'.acc.length := by omega
            rw [if_pos h2, if_pos h3, if_neg h1]
          · have h3 : ¬ (st.acc.length ≤ k ∧ k < st'.acc.length) := by omega
            rw [if_neg h2, if_neg h3, if_neg h1]
      · rw [e, inv.body]
      · intro hp; exact f (inv.preTags hp)

@[simp] theorem countTag_mm (k : Nat) (b : Bool) :
    countTag k (if b then [Piece.mm] else []) = 0 := by
  cases b <;> simp [countTag]

@[simp] theorem strip_mm (b : Bool) : strip (if b then [Piece.mm] else []) = [] := by
  cases b <;> simp [strip]

/-- what one message rewrite does -/
theorem rewriteMsg_inv (cfg : Cfg) (m m' : Msg) (acc acc' : List ImgOut)
    (h : rewriteMsg cfg m acc = .ok (m', acc')) :
    m'.role = m.role ∧ m'.images = m.images ∧ strip m'.content = strip m.content ∧
    acc'.map (·.src) = acc.map (·.src) ++ m.images.map (·.src) ∧
    acc'.length = acc.length + m.images.length ∧
    (IdsOk acc → IdsOk acc') ∧
    (∀ k, countTag k m'.content = countTag k m.content +
        (if acc.length ≤ k ∧ k < acc'.length then 1 else 0)) := by
  unfold rewriteMsg at h
  split at h
  · cases h
  · rename_i st hst
    injection h with h
    injection h with h1 h2
    subst h1; subst h2
    obtain ⟨a, b, c, d, e, f⟩ := foldImgs_inv cfg m.images _ st hst
    refine ⟨rfl, rfl, ?_, a, b, c, ?_⟩
    · have hp := f rfl
      simp only [assemble, strip_append, hp, strip_mm, e]
      simp
    · intro k
      have := d k
      simp only [countTag_append, List.nil_append] at this
      simp only [assemble, countTag_append, countTag_mm]
      simp only [countTag] at this ⊢
      simp at this ⊢
      omega

/-- corresponding original / rewritten messages -/
structure SameMsg (m m' : Msg) : Prop where
  role : m'.role = m.role
  images : m'.images = m.images
  text : strip m'.content = strip m.content

/-- pointwise correspondence of two message lists (core has no `Forall₂`) -/
inductive AllSame : List Msg → List Msg → Prop
  | nil : AllSame [] []
  | cons {m m' ms ms'} : SameMsg m m' → AllSame ms ms' → AllSame (m :: ms) (m' :: ms')

theorem rewriteAll_inv (cfg : Cfg) : ∀ (ms ms' : List Msg) (acc acc' : List ImgOut),
    rewriteAll cfg ms acc = .ok (ms', acc') →
    AllSame ms ms' ∧
    acc'.map (·.src) = acc.map (·.src) ++ ms.flatMap (fun m => m.images.map (·.src)) ∧
    acc.length ≤ acc'.length ∧
    (IdsOk acc → IdsOk acc') ∧
    (∀ k, countTag k (ms'.flatMap (·.content)) = countTag k (ms.flatMap (·.content)) +
        (if acc.length ≤ k ∧ k < acc'.length then 1 else 0)) := by
  intro ms
  induction ms with
  | nil =>
    intro ms' acc acc' h
    simp only [rewriteAll] at h
    injection h with h
    injection h with h1 h2
    subst h1; subst h2
    refine ⟨AllSame.nil, by simp, Nat.le_refl _, fun h => h, ?_⟩
    intro k
    have : ¬ (acc.length ≤ k ∧ k < acc.length) := by omega
    simp [this]
  | cons m ms ih =>
    intro ms' acc acc' h
    simp only [rewriteAll] at h
    split at h
    · cases h
    · rename_i m1 acc1 h1
      split at h
      · cases h
      · rename_i ms1 acc2 h2
        injection h with h
        injection h with h3 h4
        subst h3; subst h4
        obtain ⟨r1, r2, r3, r4, r5, r6, r7⟩ := rewriteMsg_inv cfg m m1 acc acc1 h1
        obtain ⟨i1, i2, i3, i4, i5⟩ := ih ms1 acc1 acc2 h2
        refine ⟨AllSame.cons ⟨r1, r2, r3⟩ i1, ?_, by omega, fun h => i4 (r6 h), ?_⟩
        · rw [i2, r4]; simp
        · intro k
          simp only [List.flatMap_cons, countTag_append]
          rw [i5 k, r7 k]
          by_cases c1 : acc.length ≤ k ∧ k < acc1.length
          · have c2 : ¬ (acc1.length ≤ k ∧ k < acc2.length) := by omega
            have c3 : acc.length ≤ k ∧ k < acc2.length := by omega
            rw [if_pos c1, if_neg c2, if_pos c3]; omega
          · by_cases c2 : acc1.length ≤ k ∧ k < acc2.length
            · have c3 : acc.length ≤ k ∧ k < acc2.length := by omega
              rw [if_neg c1, if_pos c2, if_pos c3]; omega
            · have c3 : ¬ (acc.length ≤ k ∧ k < acc2.length) := by omega
              rw [if_neg c1, if_neg c2, if_neg c3]; omega

/-- every message's NEW tags are exactly the indices of its own images: `b` is the number of
    images returned before this message -/
inductive Owned : Nat → List Msg → List Msg → Prop
  | nil {b} : Owned b [] []
  | cons {b m m' ms ms'} :
      (∀ k, countTag k m'.content = countTag k m.content +
        (if b ≤ k ∧ k < b + m.images.length then 1 else 0)) →
      Owned (b + m.images.length) ms ms' → Owned b (m :: ms) (m' :: ms')

theorem rewriteAll_owned (cfg : Cfg) : ∀ (ms ms' : List Msg) (acc acc' : List ImgOut),
    rewriteAll cfg ms acc = .ok (ms', acc') → Owned acc.length ms ms' := by
  intro ms
  induction ms with
  | nil =>
    intro ms' acc acc' h
    simp only [rewriteAll] at h
    injection h with h
    injection h with h1 h2
    subst h1
    exact Owned.nil
  | cons m ms ih =>
    intro ms' acc acc' h
    simp only [rewriteAll] at h
    split at h
    · cases h
    · rename_i m1 acc1 h1
      split at h
      · cases h
      · rename_i ms1 acc2 h2
        injection h with h
        injection h with h3 h4
        subst h3
        obtain ⟨_, _, _, _, r5, _, r7⟩ := rewriteMsg_inv cfg m m1 acc acc1 h1
        have := ih ms1 acc1 acc2 h2
        rw [r5] at this
        refine Owned.cons ?_ this
        intro k
        rw [r7 k, r5]


/-! ### bytes ↔ pieces -/


theorem renderPieces_flushLit (acc : Bytes) : renderPieces (flushLit acc) = acc.reverse := by
  unfold flushLit
  cases acc <;> simp [renderPieces, renderPiece]

theorem splitGo_render : ∀ (bs : Bytes) (skip : Nat) (acc : Bytes),
    renderPieces (splitGo bs skip acc) = acc.reverse ++ bs.drop skip := by
  intro bs
  induction bs with
  | nil => intro skip acc; simp [splitGo, renderPieces_flushLit]
  | cons b bs ih =>
    intro skip acc
    cases skip with
    | succ k => simp [splitGo, ih]
    | zero =>
      simp only [splitGo]
      split
      · rename_i hp
        obtain ⟨t, ht⟩ := List.isPrefixOf_iff_prefix.mp hp
        have hb : b = 91 ∧ bs = [105, 109, 103, 93] ++ t := by
          simp only [bImg, List.cons_append, List.nil_append] at ht
          injection ht with h1 h2
          exact ⟨h1.symm, by simpa using h2.symm⟩
        have := ih 4 []
        simp only [renderPieces, List.flatMap_append, List.flatMap_cons] at this ⊢
        rw [this]
        have h2 := renderPieces_flushLit acc
        simp only [renderPieces] at h2
        rw [h2, hb.1, hb.2]
        simp [renderPiece, bImg]
      · rw [ih 0 (b :: acc)]
        simp

/-- the piece representation loses nothing: rendering the parsed content gives the bytes back -/
theorem splitImg_render (s : Bytes) : renderPieces (splitImg s) = s := by
  simp [splitImg, splitGo_render]



theorem countTag_flushLit (k : Nat) (acc : Bytes) : countTag k (flushLit acc) = 0 := by
  unfold flushLit
  cases acc <;> simp [countTag]

theorem splitGo_noTag (k : Nat) : ∀ (bs : Bytes) (skip : Nat) (acc : Bytes),
    countTag k (splitGo bs skip acc) = 0 := by
  intro bs
  induction bs with
  | nil => intro skip acc; simp [splitGo, countTag_flushLit]
  | cons b bs ih =>
    intro skip acc
    cases skip with
    | succ j => simp [splitGo, ih]
    | zero =>
      simp only [splitGo]
      split
      · have := ih 4 []
        simp only [countTag_append, countTag_flushLit, Nat.zero_add]
        simp only [countTag, List.countP_cons] at this ⊢
        simpa using this
      · exact ih 0 (b :: acc)

/-- parsed raw content never contains a tag piece: the hypothesis of `images_once_indexed` holds
    for every conversation the oracle parses -/
theorem splitImg_noTag (k : Nat) (s : Bytes) : countTag k (splitImg s) = 0 :=
  splitGo_noTag k s 0 []




/-! ### the runner's tag resolution -/

theorem find_by_id : ∀ (l : List ImgOut) (off k : Nat),
    (∀ j (hj : j < l.length), (l[j]).id = off + j) → (hk : k < l.length) →
    l.find? (fun o => decide (o.id = off + k)) = some l[k] := by
  intro l
  induction l with
  | nil => intro off k _ hk; simp at hk
  | cons a l ih =>
    intro off k hid hk
    cases k with
    | zero =>
      have := hid 0 (by simp)
      simp only [List.getElem_cons_zero, Nat.add_zero] at this
      simp [List.find?, this]
    | succ k =>
      have h0 := hid 0 (by simp)
      simp only [List.getElem_cons_zero, Nat.add_zero] at h0
      have hne : ¬ (a.id = off + (k + 1)) := by omega
      simp only [List.find?, hne, decide_false, List.getElem_cons_succ]
      have := ih (off + 1) k (fun j hj => by
        have := hid (j + 1) (by simp; omega)
        simp only [List.getElem_cons_succ] at this
        omega) (by simp at hk; omega)
      have e : off + 1 + k = off + (k + 1) := by omega
      rw [e] at this
      exact this

theorem resolveTag_of_IdsOk (imgs : List ImgOut) (h : IdsOk imgs) (k : Nat) (hk : k < imgs.length) :
    resolveTag imgs k = some imgs[k] := by
  have := find_by_id imgs 0 k (fun j hj => by simpa using h j hj) hk
  simpa [resolveTag] using this

theorem mem_tagsOf_countTag (k : Nat) : ∀ (c : List Piece), k ∈ tagsOf c → 0 < countTag k c := by
  intro c
  induction c with
  | nil => intro h; simp [tagsOf] at h
  | cons p r ih =>
    intro h
    cases p with
    | tag j =>
      simp only [tagsOf, List.filterMap_cons, List.mem_cons] at h
      rcases h with h | h
      · subst h; simp [countTag]
      · have := ih (by simpa [tagsOf] using h)
        simp only [countTag, List.countP_cons] at this ⊢
        omega
    | lit b =>
      have := ih (by simpa [tagsOf] using h)
      simp only [countTag, List.countP_cons] at this ⊢
      omega
    | slot =>
      have := ih (by simpa [tagsOf] using h)
      simp only [countTag, List.countP_cons] at this ⊢
      omega
    | mm =>
      have := ih (by simpa [tagsOf] using h)
      simp only [countTag, List.countP_cons] at this ⊢
      omega

theorem resolveTags_all (imgs : List ImgOut) : ∀ (tags : List Nat),
    (∀ k ∈ tags, ∃ o, resolveTag imgs k = some o) → ∃ l, resolveTags imgs tags = some l ∧ l.length = tags.length := by
  intro tags
  induction tags with
  | nil => intro _; exact ⟨[], rfl, rfl⟩
  | cons k ks ih =>
    intro h
    obtain ⟨o, ho⟩ := h k (by simp)
    obtain ⟨l, hl, hlen⟩ := ih (fun j hj => h j (by simp [hj]))
    exact ⟨o :: l, by simp [resolveTags, ho, hl], by simp [hlen]⟩




/-! ### collate and the legacy loop: nothing is lost -/

theorem inf_left {c x : Bytes} (y : Bytes) (h : c <:+: x) : c <:+: y ++ x :=
  h.trans (List.suffix_append y x).isInfix

theorem inf_right {c x : Bytes} (y : Bytes) (h : c <:+: x) : c <:+: x ++ y :=
  h.trans (List.prefix_append x y).isInfix

theorem joinSep_infix (sep : Bytes) : ∀ (l : List Bytes) (x : Bytes), x ∈ l → x <:+: joinSep sep l := by
  intro l
  induction l with
  | nil => intro x h; simp at h
  | cons a l ih =>
    intro x h
    cases l with
    | nil =>
      simp only [List.mem_cons, List.not_mem_nil, or_false] at h
      subst h; exact List.infix_refl _
    | cons b l =>
      simp only [joinSep]
      rcases List.mem_cons.mp h with h | h
      · subst h
        rw [List.append_assoc]
        exact (List.prefix_append _ _).isInfix
      · exact inf_left _ (ih x h)

/-- **collate keeps every system message**: the `.System` string handed to a messages-style
    template contains the content of every system message of its input -/
theorem collate_system_infix (msgs : List RMsg) (m : RMsg) (hm : m ∈ msgs) (hr : m.1 = Role.system) :
    m.2 <:+: (collate msgs).1 := by
  apply joinSep_infix
  exact List.mem_map.mpr ⟨m, List.mem_filter.mpr ⟨hm, by simp [hr]⟩, rfl⟩

/-- **collate keeps every message**: each message's content is contained in a merged message of
    the same role -/
theorem collateMsgs_infix : ∀ (msgs : List RMsg) (m : RMsg), m ∈ msgs →
    ∃ g ∈ collateMsgs msgs, g.1 = m.1 ∧ m.2 <:+: g.2 := by
  intro msgs
  induction msgs with
  | nil => intro m h; simp at h
  | cons a rest ih =>
    intro m hm
    obtain ⟨r, c⟩ := a
    simp only [collateMsgs]
    rcases List.mem_cons.mp hm with h | h
    · subst h
      split
      · rename_i r' c' tl _
        split
        · exact ⟨_, List.mem_cons_self, rfl, by
            rw [List.append_assoc]; exact (List.prefix_append _ _).isInfix⟩
        · exact ⟨_, List.mem_cons_self, rfl, List.infix_refl _⟩
      · exact ⟨_, List.mem_cons_self, rfl, List.infix_refl _⟩
    · obtain ⟨g, hg, hg1, hg2⟩ := ih m h
      split
      · rename_i r' c' tl heq
        rw [heq] at hg
        split
        · rename_i hrr
          rcases List.mem_cons.mp hg with hg | hg
          · subst hg
            exact ⟨_, List.mem_cons_self, by simpa [hrr] using hg1, inf_left _ hg2⟩
          · exact ⟨g, List.mem_cons_of_mem _ hg, hg1, hg2⟩
        · exact ⟨g, List.mem_cons_of_mem _ hg, hg1, hg2⟩
      · rename_i heq
        rw [heq] at hg
        simp at hg

/-- the template renders each of the three fields of a turn (an empty field is trivially
    "rendered"): the hypothesis under which the legacy loop can be said to lose nothing -/
def Renders (t : List Node) : Prop :=
  ∀ s p r, ∃ b, execList (legacyRoot s p r) t none = .ok b ∧ s <:+: b ∧ p <:+: b ∧ r <:+: b

/-- `c` has been rendered or is pending in a slot -/
def Held (st : Legacy) (c : Bytes) : Prop :=
  (∃ o, st.out = .ok o ∧ c <:+: o) ∨ c <:+: st.sys ∨ c <:+: st.prompt ∨ c <:+: st.resp

def OutOk (st : Legacy) : Prop := ∃ o, st.out = .ok o

theorem flush_inv {t : List Node} (hr : Renders t) {st : Legacy} (ho : OutOk st) :
    OutOk (legacyFlush t st) ∧ (legacyFlush t st).sys = [] ∧ (legacyFlush t st).prompt = [] ∧
      (legacyFlush t st).resp = [] ∧
      ∀ c, Held st c → Held (legacyFlush t st) c := by
  obtain ⟨o, ho⟩ := ho
  obtain ⟨b, hb, hs, hp, hre⟩ := hr st.sys st.prompt st.resp
  have hout : (legacyFlush t st).out = .ok (o ++ b) := by
    simp [legacyFlush, ho, hb, XOut.append]
  refine ⟨⟨_, hout⟩, rfl, rfl, rfl, ?_⟩
  intro c hc
  left
  refine ⟨_, hout, ?_⟩
  rcases hc with ⟨o', ho', hc⟩ | hc | hc | hc
  · rw [ho] at ho'; injection ho' with ho'; subst ho'
    exact inf_right _ hc
  · exact inf_left _ (hc.trans hs)
  · exact inf_left _ (hc.trans hp)
  · exact inf_left _ (hc.trans hre)

theorem joinSlot_left (a b : Bytes) : a <:+: joinSlot a b := by
  unfold joinSlot
  split
  · rename_i h
    have : a = [] := by cases a <;> simp_all
    subst this; exact List.nil_infix
  · rw [List.append_assoc]; exact (List.prefix_append _ _).isInfix

theorem joinSlot_right (a b : Bytes) : b <:+: joinSlot a b := by
  unfold joinSlot
  split
  · exact List.infix_refl _
  · exact (List.suffix_append _ _).isInfix

theorem held_mono {st st' : Legacy} {c : Bytes} (hout : st'.out = st.out)
    (hs : st.sys <:+: st'.sys) (hp : st.prompt <:+: st'.prompt) (hr : st.resp <:+: st'.resp)
    (h : Held st c) : Held st' c := by
  rcases h with ⟨o, ho, hc⟩ | hc | hc | hc
  · exact Or.inl ⟨o, by rw [hout]; exact ho, hc⟩
  · exact Or.inr (Or.inl (hc.trans hs))
  · exact Or.inr (Or.inr (Or.inl (hc.trans hp)))
  · exact Or.inr (Or.inr (Or.inr (hc.trans hr)))

theorem maybeFlush_inv {t : List Node} (hr : Renders t) {st : Legacy} (ho : OutOk st) (b : Bool) :
    OutOk (if b then legacyFlush t st else st) ∧
    ∀ c, Held st c → Held (if b then legacyFlush t st else st) c := by
  cases b with
  | false => exact ⟨ho, fun _ h => h⟩
  | true =>
    obtain ⟨f1, _, _, _, f5⟩ := flush_inv hr ho
    exact ⟨f1, f5⟩

def setSys (st : Legacy) (c : Bytes) : Legacy := { st with sys := joinSlot st.sys c }
def setPrompt (st : Legacy) (c : Bytes) : Legacy := { st with prompt := joinSlot st.prompt c }
def setResp (st : Legacy) (c : Bytes) : Legacy := { st with resp := joinSlot st.resp c }

theorem legacyStep_join_system (t : List Node) (st : Legacy) (c : Bytes) :
    legacyStep 2 t st (Role.system, c) =
      setSys (if (!st.prompt.isEmpty || !st.resp.isEmpty) then legacyFlush t st else st) c := by
  simp [legacyStep, setSys]

theorem legacyStep_join_user (t : List Node) (st : Legacy) (c : Bytes) :
    legacyStep 2 t st (Role.user, c) =
      setPrompt (if (!st.resp.isEmpty) then legacyFlush t st else st) c := by
  simp [legacyStep, setPrompt]

theorem legacyStep_join_assistant (t : List Node) (st : Legacy) (c : Bytes) :
    legacyStep 2 t st (Role.assistant, c) = setResp st c := by
  simp [legacyStep, setResp]

theorem held_setSys (st : Legacy) (c x : Bytes) (h : Held st x) : Held (setSys st c) x :=
  held_mono (st := st) (st' := setSys st c) rfl (joinSlot_left _ _) (List.infix_refl _) (List.infix_refl _) h
theorem held_setPrompt (st : Legacy) (c x : Bytes) (h : Held st x) : Held (setPrompt st c) x :=
  held_mono (st := st) (st' := setPrompt st c) rfl (List.infix_refl _) (joinSlot_left _ _) (List.infix_refl _) h
theorem held_setResp (st : Legacy) (c x : Bytes) (h : Held st x) : Held (setResp st c) x :=
  held_mono (st := st) (st' := setResp st c) rfl (List.infix_refl _) (List.infix_refl _) (joinSlot_left _ _) h

/-- one step of the join-repaired loop keeps everything held and holds the new content -/
theorem step_join_inv {t : List Node} (hr : Renders t) (st : Legacy) (m : RMsg) (ho : OutOk st) :
    OutOk (legacyStep 2 t st m) ∧ (∀ c, Held st c → Held (legacyStep 2 t st m) c) ∧
    ((m.1 = Role.system ∨ m.1 = Role.user ∨ m.1 = Role.assistant) → Held (legacyStep 2 t st m) m.2) := by
  obtain ⟨r, c⟩ := m
  cases r with
  | system =>
    rw [legacyStep_join_system]
    obtain ⟨f1, f5⟩ := maybeFlush_inv hr ho (!st.prompt.isEmpty || !st.resp.isEmpty)
    exact ⟨f1, fun x hx => held_setSys _ _ _ (f5 x hx), fun _ => Or.inr (Or.inl (joinSlot_right _ _))⟩
  | user =>
    rw [legacyStep_join_user]
    obtain ⟨f1, f5⟩ := maybeFlush_inv hr ho (!st.resp.isEmpty)
    exact ⟨f1, fun x hx => held_setPrompt _ _ _ (f5 x hx), fun _ => Or.inr (Or.inr (Or.inl (joinSlot_right _ _)))⟩
  | assistant =>
    rw [legacyStep_join_assistant]
    exact ⟨ho, fun x hx => held_setResp _ _ _ hx, fun _ => Or.inr (Or.inr (Or.inr (joinSlot_right _ _)))⟩
  | tool => exact ⟨ho, fun _ h => h, fun h => by rcases h with h | h | h <;> cases h⟩
  | other => exact ⟨ho, fun _ h => h, fun h => by rcases h with h | h | h <;> cases h⟩

theorem fold_join_inv {t : List Node} (hr : Renders t) : ∀ (l : List RMsg) (st : Legacy), OutOk st →
    OutOk (l.foldl (legacyStep 2 t) st) ∧
    (∀ c, Held st c → Held (l.foldl (legacyStep 2 t) st) c) ∧
    (∀ m ∈ l, (m.1 = Role.system ∨ m.1 = Role.user ∨ m.1 = Role.assistant) →
      Held (l.foldl (legacyStep 2 t) st) m.2) := by
  intro l
  induction l with
  | nil => intro st ho; exact ⟨ho, fun _ h => h, fun m hm => by simp at hm⟩
  | cons a l ih =>
    intro st ho
    obtain ⟨s1, s2, s3⟩ := step_join_inv hr st a ho
    obtain ⟨i1, i2, i3⟩ := ih _ s1
    simp only [List.foldl_cons]
    refine ⟨i1, fun c hc => i2 c (s2 c hc), ?_⟩
    intro m hm hrole
    rcases List.mem_cons.mp hm with h | h
    · subst h; exact i2 _ (s3 hrole)
    · exact i3 m h hrole

/-- **The join-repaired legacy path loses nothing**: for a legacy template that renders its
    three fields (also after the `.Response` cut), the prompt contains the content of every
    system/user/assistant message it is given — whatever lies between them. -/
theorem legacy_join_nothing_lost (t t' : List Node) (efix cut : Bool)
    (hmsg : nodesMention Fld.messages t = false) (hcut : cutList efix t false = .ok cut t')
    (hr : Renders t) (hr' : Renders t') (msgs : List RMsg) (m : RMsg) (hm : m ∈ msgs)
    (hrole : m.1 = Role.system ∨ m.1 = Role.user ∨ m.1 = Role.assistant) :
    ∃ b, execute ⟨2, efix⟩ t msgs = .ok b ∧ m.2 <:+: b := by
  obtain ⟨g, hg, hg1, hg2⟩ := collateMsgs_infix msgs m hm
  obtain ⟨⟨o, ho⟩, _, f3⟩ := fold_join_inv hr (collateMsgs msgs) ⟨[], [], [], .ok []⟩ ⟨[], rfl⟩
  have hheld := f3 g hg (by rw [hg1]; exact hrole)
  obtain ⟨b, hb, hs, hp, hre⟩ := hr' (List.foldl (legacyStep 2 t) ⟨[], [], [], .ok []⟩ (collateMsgs msgs)).sys
    (List.foldl (legacyStep 2 t) ⟨[], [], [], .ok []⟩ (collateMsgs msgs)).prompt
    (List.foldl (legacyStep 2 t) ⟨[], [], [], .ok []⟩ (collateMsgs msgs)).resp
  refine ⟨o ++ b, ?_, ?_⟩
  · simp only [execute, collate, hmsg, Bool.false_eq_true, if_false, ho, hcut, hb, XOut.append]
  · rcases hheld with ⟨o', ho', hc⟩ | hc | hc | hc
    · rw [ho] at ho'; injection ho' with ho'; subst ho'
      exact inf_right _ (hg2.trans hc)
    · exact inf_left _ ((hg2.trans hc).trans hs)
    · exact inf_left _ ((hg2.trans hc).trans hp)
    · exact inf_left _ ((hg2.trans hc).trans hre)




theorem rewriteAll_noimg (cfg : Cfg) : ∀ (ms : List Msg) (acc : List ImgOut),
    (∀ m ∈ ms, m.images = []) → rewriteAll cfg ms acc = .ok (ms, acc) := by
  intro ms
  induction ms with
  | nil => intro acc _; rfl
  | cons m ms ih =>
    intro acc h
    have hm := h m (by simp)
    have : rewriteMsg cfg m acc = .ok (m, acc) := by
      cases m with
      | mk r c i =>
        simp only at hm
        subst hm
        simp [rewriteMsg, foldImgs, assemble]
    simp only [rewriteAll, this, ih acc (fun x hx => h x (by simp [hx]))]

theorem imgCount_noimg (l : List Msg) (h : ∀ m ∈ l, m.images = []) : imgCount l = 0 := by
  induction l with
  | nil => rfl
  | cons m ms ih =>
    simp only [imgCount, List.map_cons, List.sum_cons]
    rw [h m (by simp)]
    have := ih (fun x hx => h x (by simp [hx]))
    simp only [imgCount] at this
    simp [this]


end OllamaVerif.Prompt
