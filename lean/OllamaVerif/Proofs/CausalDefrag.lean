/-
  C06 — defragmentation (repaired coalescing, `fixDefrag = true`) preserves the abstraction.

  `defrag` fills holes at the front of the cache with owned cells taken from the tail and performs
  the data movement as coalesced block copies that are *deferred* (a pending move is only executed
  when the next move cannot be merged into it).  The loop invariant below talks about the rows the
  cache will hold once the pending move has been flushed (`eff`): at every step the list of
  (cell, effective row) pairs of owned cells is a permutation of the initial one.
-/
import OllamaVerif.Proofs.Causal

namespace OllamaVerif.Causal
open OllamaVerif.KV

/-! ### a permutation lemma over `(List.range n).filterMap g` -/

theorem range_split5 (n lo p s : Nat) (h1 : lo + p < s) (h2 : s < n) :
    List.range n = List.range' 0 lo ++ (List.range' lo (p + 1) ++
      (List.range' (lo + p + 1) (s - (lo + p + 1)) ++ (s :: List.range' (s + 1) (n - (s + 1))))) := by
  rw [List.range_eq_range']
  have e4 : s :: List.range' (s + 1) (n - (s + 1)) = List.range' s (n - s) := by
    have : n - s = (n - (s + 1)) + 1 := by omega
    rw [this, List.range'_succ]
  rw [e4]
  have e3 : List.range' (lo + p + 1) (s - (lo + p + 1)) ++ List.range' s (n - s)
      = List.range' (lo + p + 1) (n - (lo + p + 1)) := by
    have hs : s = (lo + p + 1) + (s - (lo + p + 1)) := by omega
    have := @List.range'_append_1 (lo + p + 1) (s - (lo + p + 1)) (n - s)
    rw [← hs] at this
    rw [this]; congr 1; omega
  rw [e3]
  have e2 : List.range' lo (p + 1) ++ List.range' (lo + p + 1) (n - (lo + p + 1)) = List.range' lo (n - lo) := by
    have := @List.range'_append_1 lo (p + 1) (n - (lo + p + 1))
    rw [show lo + (p + 1) = lo + p + 1 by omega] at this
    rw [this]; congr 1; omega
  rw [e2]
  have := @List.range'_append_1 0 lo (n - lo)
  rw [Nat.zero_add] at this
  rw [this]; congr 1; omega

/-- the values at `lo .. lo+p-1` move up by one, the value at `s` moves to `lo`, `lo+p` held nothing
    before and `s` holds nothing afterwards: the produced list is a permutation -/
theorem perm_filterMap_rotmove {β} (g g' : Nat → Option β) (n lo p s : Nat) (h1 : lo + p < s) (h2 : s < n)
    (hhole : g (lo + p) = none) (hlo : g' lo = g s) (hk : ∀ k, k < p → g' (lo + k + 1) = g (lo + k))
    (hs : g' s = none) (hel : ∀ j, j < n → (j < lo ∨ lo + p < j) → j ≠ s → g' j = g j) :
    ((List.range n).filterMap g').Perm ((List.range n).filterMap g) := by
  rw [range_split5 n lo p s h1 h2]
  simp only [List.filterMap_append, List.filterMap_cons, hs]
  have hX : (List.range' 0 lo).filterMap g' = (List.range' 0 lo).filterMap g :=
    filterMap_congr' (fun j hj => hel j (by simp only [List.mem_range'_1] at hj; omega)
      (Or.inl (by simp only [List.mem_range'_1] at hj; omega)) (by simp only [List.mem_range'_1] at hj; omega))
  have hY : (List.range' (lo + p + 1) (s - (lo + p + 1))).filterMap g'
      = (List.range' (lo + p + 1) (s - (lo + p + 1))).filterMap g :=
    filterMap_congr' (fun j hj => hel j (by simp only [List.mem_range'_1] at hj; omega)
      (Or.inr (by simp only [List.mem_range'_1] at hj; omega)) (by simp only [List.mem_range'_1] at hj; omega))
  have hZ : (List.range' (s + 1) (n - (s + 1))).filterMap g' = (List.range' (s + 1) (n - (s + 1))).filterMap g :=
    filterMap_congr' (fun j hj => hel j (by simp only [List.mem_range'_1] at hj; omega)
      (Or.inr (by simp only [List.mem_range'_1] at hj; omega)) (by simp only [List.mem_range'_1] at hj; omega))
  -- the block
  have hB' : (List.range' lo (p + 1)).filterMap g' = (g s).toList ++ (List.range' lo p).filterMap g := by
    rw [List.range'_succ, List.filterMap_cons, hlo]
    have hsh : (List.range' (lo + 1) p).filterMap g' = (List.range' lo p).filterMap g := by
      have : List.range' (lo + 1) p = (List.range' lo p).map (fun x => 1 + x) := by
        rw [List.map_add_range']; congr 1; omega
      rw [this, List.filterMap_map]
      apply filterMap_congr'
      intro j hj
      simp only [List.mem_range'_1] at hj
      have := hk (j - lo) (by omega)
      simp only [Function.comp]
      rw [show 1 + j = lo + (j - lo) + 1 by omega, this]
      congr 1; omega
    rw [hsh]
    cases g s <;> rfl
  have hB : (List.range' lo (p + 1)).filterMap g = (List.range' lo p).filterMap g := by
    rw [List.range'_concat, List.filterMap_append]
    simp [hhole]
  rw [hX, hY, hZ, hB', hB]
  apply List.Perm.append_left
  cases hgs : g s with
  | none => simp
  | some x =>
    simp only [Option.toList, List.cons_append, List.nil_append]
    rw [← List.append_assoc ((List.range' lo p).filterMap g), ← List.append_assoc ((List.range' lo p).filterMap g)]
    exact (List.perm_middle).symm

/-! ### pointwise descriptions of the block copy and of the metadata rotation -/

theorem getD_moveRowsFrom (old : List Row) (src dst len : Nat) (i : Nat) (rows : List Row) (k : Nat)
    (hk : k < rows.length) (d : Row) :
    (moveRowsFrom old src dst len i rows).getD k d =
      if dst ≤ i + k ∧ i + k < dst + len then old.getD (src + (i + k - dst)) (rows.getD k d) else rows.getD k d := by
  induction rows generalizing i k with
  | nil => simp at hk
  | cons r rs ih =>
    cases k with
    | zero => simp [moveRowsFrom]
    | succ k =>
      simp only [moveRowsFrom, List.getD_cons_succ]
      rw [ih (i + 1) k (by simpa using hk)]
      rw [show i + 1 + k = i + (k + 1) by omega]

theorem getD_moveRows_in (rows : List Row) (src dst len k : Nat) (hk : k < rows.length)
    (h : dst ≤ k ∧ k < dst + len) (hin : src + (k - dst) < rows.length) (d : Row) :
    (moveRows rows src dst len).getD k d = rows.getD (src + (k - dst)) d := by
  unfold moveRows
  rw [getD_moveRowsFrom _ _ _ _ _ _ _ hk, Nat.zero_add, if_pos h]
  simp [List.getD_eq_getElem?_getD, List.getElem?_eq_getElem hin]

theorem getD_moveRows_out (rows : List Row) (src dst len k : Nat) (hk : k < rows.length)
    (h : ¬ (dst ≤ k ∧ k < dst + len)) (d : Row) :
    (moveRows rows src dst len).getD k d = rows.getD k d := by
  unfold moveRows
  rw [getD_moveRowsFrom _ _ _ _ _ _ _ hk, Nat.zero_add, if_neg h]

theorem getD_rotateIn (cells : List Cell) (pDst dst j : Nat) (hj : j < cells.length) :
    (rotateIn cells pDst dst).getD j Cell.empty =
      if j = pDst then cells.getD dst Cell.empty
      else if pDst < j ∧ j ≤ dst then cells.getD (j - 1) Cell.empty else cells.getD j Cell.empty := by
  unfold rotateIn
  simp only
  have hl : j < (mapFrom (fun i c => if i = pDst then cells.getD dst Cell.empty
      else if pDst < i ∧ i ≤ dst then cells.getD (i - 1) c else c) 0 cells).length := by
    rw [length_mapFrom]; exact hj
  rw [List.getD_eq_getElem?_getD, List.getElem?_eq_getElem hl, Option.getD_some, getElem_mapFrom _ _ _ j hj]
  simp only [Nat.zero_add]
  split
  · rfl
  · split
    · have : j - 1 < cells.length := by omega
      simp [List.getD_eq_getElem?_getD, List.getElem?_eq_getElem this]
    · simp [List.getD_eq_getElem?_getD, List.getElem?_eq_getElem hj]

/-! ### the loop invariant -/

/-- the rows once the pending block copy has been executed -/
def eff (st : DS) : List Row :=
  if st.pLen > 0 then moveRows st.rows st.pSrc st.pDst st.pLen else st.rows

/-- the spec entry location `j` stands for, in terms of the effective rows -/
def gOf (st : DS) (j : Nat) : Option Entry :=
  entryOf (st.cells.getD j Cell.empty, (eff st).getD j default)

theorem length_eff (st : DS) : (eff st).length = st.rows.length := by
  unfold eff; split
  · exact length_moveRows _ _ _ _
  · rfl

/-- the metadata move of one hole fill: `dst` takes the cell of `s`, `s` becomes unowned -/
def holeCells (cells : List Cell) (dst s : Nat) : List Cell :=
  (cells.set dst (cells.getD s Cell.empty)).set s Cell.empty

theorem holeCells_length (cells : List Cell) (dst s : Nat) : (holeCells cells dst s).length = cells.length := by
  simp [holeCells]

theorem holeCells_dst (cells : List Cell) (dst s : Nat) (h : dst < s) (hs : s < cells.length) :
    (holeCells cells dst s).getD dst Cell.empty = cells.getD s Cell.empty := by
  unfold holeCells
  rw [getD_set_ne _ s dst _ _ (by omega), getD_set_eq _ dst _ _ (by omega)]

theorem holeCells_s (cells : List Cell) (dst s : Nat) (hs : s < cells.length) :
    (holeCells cells dst s).getD s Cell.empty = Cell.empty := by
  unfold holeCells
  exact getD_set_eq _ s _ _ (by simpa using hs)

theorem holeCells_other (cells : List Cell) (dst s j : Nat) (h1 : j ≠ dst) (h2 : j ≠ s) :
    (holeCells cells dst s).getD j Cell.empty = cells.getD j Cell.empty := by
  unfold holeCells
  rw [getD_set_ne _ s j _ _ (Ne.symm h2), getD_set_ne _ dst j _ _ (Ne.symm h1)]

theorem gOf_hole (st : DS) (j : Nat) (h : (st.cells.getD j Cell.empty).seqs = []) : gOf st j = none := by
  unfold gOf entryOf; exact if_pos h

/-- a move that is not merged into the pending one (the pending one, if any, has been executed) -/
theorem perm_single (st st' : DS) (n dst s : Nat) (hc : st.cells.length = n) (hr : st.rows.length = n)
    (hds : dst < s) (hsn : s < n) (hhole : (st.cells.getD dst Cell.empty).seqs = [])
    (hcells : st'.cells = holeCells st.cells dst s) (heff : eff st' = moveRows (eff st) s dst 1) :
    ((List.range n).filterMap (gOf st')).Perm ((List.range n).filterMap (gOf st)) := by
  have hel : (eff st).length = n := by rw [length_eff, hr]
  apply perm_filterMap_rotmove _ _ n dst 0 s (by omega) hsn
  · exact gOf_hole st _ hhole
  · unfold gOf
    rw [hcells, heff, holeCells_dst _ _ _ hds (by omega),
      getD_moveRows_in (eff st) s dst 1 dst (by omega) ⟨Nat.le_refl _, by omega⟩ (by omega)]
    simp
  · intro k hk; omega
  · unfold gOf
    rw [hcells, holeCells_s _ _ _ (by omega)]
    simp [entryOf, Cell.empty]
  · intro j hjn hj hjs
    unfold gOf
    rw [hcells, heff, holeCells_other _ _ _ _ (by omega) hjs, getD_moveRows_out _ _ _ _ _ (by omega) (by omega)]

/-- the state after a merged move -/
def coalesced (st : DS) (dst s : Nat) : DS :=
  { st with cells := rotateIn (holeCells st.cells dst s) st.pDst dst, pSrc := s, pLen := st.pLen + 1 }

/-- a move merged into the pending block (repaired coalescing): the metadata of the pending
    destination block is rotated so that it stays in the order of the block copy -/
theorem perm_coalesce (st : DS) (n dst s : Nat) (hc : st.cells.length = n) (hr : st.rows.length = n)
    (hds : dst < s) (hsn : s < n) (hhole : (st.cells.getD dst Cell.empty).seqs = [])
    (hpl : st.pLen > 0) (hsrc : s + 1 = st.pSrc) (hdst : dst = st.pDst + st.pLen) (hin : st.pSrc + st.pLen ≤ n) :
    ((List.range n).filterMap (gOf (coalesced st dst s))).Perm ((List.range n).filterMap (gOf st)) := by
  have hH : (holeCells st.cells dst s).length = n := by rw [holeCells_length, hc]
  have he' : eff (coalesced st dst s) = moveRows st.rows s st.pDst (st.pLen + 1) := by simp [eff, coalesced]
  have hcc : (coalesced st dst s).cells = rotateIn (holeCells st.cells dst s) st.pDst dst := rfl
  have he : eff st = moveRows st.rows st.pSrc st.pDst st.pLen := by simp [eff, hpl]
  apply perm_filterMap_rotmove _ _ n st.pDst st.pLen s (by omega) hsn
  · rw [← hdst]; exact gOf_hole st _ hhole
  · unfold gOf
    rw [hcc, he', he, getD_rotateIn _ _ _ _ (by omega), if_pos rfl, holeCells_dst _ _ _ hds (by omega),
      getD_moveRows_in st.rows s st.pDst (st.pLen + 1) st.pDst (by omega) ⟨Nat.le_refl _, by omega⟩ (by omega),
      getD_moveRows_out st.rows st.pSrc st.pDst st.pLen s (by omega) (by omega)]
    simp
  · intro k hk
    unfold gOf
    rw [hcc, he', he, getD_rotateIn _ _ _ _ (by omega), if_neg (by omega), if_pos (by omega),
      holeCells_other _ _ _ _ (by omega) (by omega),
      getD_moveRows_in st.rows s st.pDst (st.pLen + 1) (st.pDst + k + 1) (by omega) (by omega) (by omega),
      getD_moveRows_in st.rows st.pSrc st.pDst st.pLen (st.pDst + k) (by omega) (by omega) (by omega)]
    congr 3
    omega
  · unfold gOf
    rw [hcc, getD_rotateIn _ _ _ _ (by omega), if_neg (by omega), if_neg (by omega), holeCells_s _ _ _ (by omega)]
    simp [entryOf, Cell.empty]
  · intro j hjn hj hjs
    unfold gOf
    rw [hcc, he', he, getD_rotateIn _ _ _ _ (by omega), if_neg (by omega), if_neg (by omega),
      holeCells_other _ _ _ _ (by omega) hjs,
      getD_moveRows_out _ _ _ _ _ (by omega) (by omega), getD_moveRows_out _ _ _ _ _ (by omega) (by omega)]

/-- loop invariant of the repaired `defrag`: sizes, the pending block lies below the scan pointer and
    its source rows are inside the cache, and the owned (cell, effective row) pairs are a permutation
    of the initial ones -/
structure PInv (n : Nat) (base : List Entry) (st : DS) (dst : Nat) : Prop where
  clen : st.cells.length = n
  rlen : st.rows.length = n
  pend : st.pLen > 0 → st.pDst + st.pLen ≤ dst ∧ st.pSrc + st.pLen ≤ n
  perm : ((List.range n).filterMap (gOf st)).Perm base

theorem PInv.next {n : Nat} {base : List Entry} {st : DS} {dst : Nat} (h : PInv n base st dst) :
    PInv n base st (dst + 1) :=
  ⟨h.clen, h.rlen, fun hp => ⟨by have := (h.pend hp).1; omega, (h.pend hp).2⟩, h.perm⟩

theorem fillHole_pinv (n : Nat) (base : List Entry) (st : DS) (dst s : Nat) (h : PInv n base st dst)
    (hds : dst < s) (hsn : s < n) (hhole : (st.cells.getD dst Cell.empty).seqs = []) :
    PInv n base (fillHole true st dst s) (dst + 1) := by
  unfold fillHole
  simp only [if_true]
  split
  · rename_i hpl
    split
    · rename_i hco
      have hp := h.pend hpl
      refine ⟨?_, h.rlen, ?_, ?_⟩
      · simp [rotateIn, length_mapFrom, h.clen]
      · intro _
        simp only
        omega
      · exact (perm_coalesce st n dst s h.clen h.rlen hds hsn hhole hpl hco.1 hco.2 hp.2).trans h.perm
    · refine ⟨by simp [h.clen], by simp [length_moveRows, h.rlen], ?_, ?_⟩
      · intro _
        simp only
        omega
      · refine (perm_single st _ n dst s h.clen h.rlen hds hsn hhole rfl ?_).trans h.perm
        simp [eff, hpl]
  · rename_i hpl
    refine ⟨by simp [h.clen], h.rlen, ?_, ?_⟩
    · intro _
      simp only
      omega
    · refine (perm_single st _ n dst s h.clen h.rlen hds hsn hhole rfl ?_).trans h.perm
      simp [eff, hpl]

theorem findSrc_le (cells : List Cell) (dst src : Nat) : findSrc cells dst src ≤ src := by
  induction src with
  | zero => simp [findSrc]
  | succ s ih =>
    unfold findSrc
    split
    · split
      · exact Nat.le_refl _
      · omega
    · exact Nat.le_refl _

theorem defragLoop_pinv (n : Nat) (base : List Entry) (fuel : Nat) (st : DS) (dst src : Nat)
    (h : PInv n base st dst) (hsrc : src < n) :
    ∃ d, PInv n base (defragLoop true fuel st dst src) d := by
  induction fuel generalizing st dst src with
  | zero => exact ⟨dst, h⟩
  | succ f ih =>
    unfold defragLoop
    split
    · split
      · rename_i hhole
        simp only
        have hle := findSrc_le st.cells dst src
        split
        · rename_i hgt
          exact ih _ _ _ (fillHole_pinv n base st dst _ h hgt (by omega) hhole) (by omega)
        · exact ih _ _ _ h.next (by omega)
      · exact ih _ _ _ h.next hsrc
    · exact ⟨dst, h⟩

/-- **The repaired defragmentation only relocates**: sizes are kept and the owned cells together with
    the rows found at their locations are a permutation of what was there before — no entry is lost,
    duplicated, or paired with another entry's data. -/
theorem defragCore_perm (cells : List Cell) (rows : List Row) (hlen : cells.length = rows.length) :
    (defragCore true cells rows).1.length = cells.length ∧
    (defragCore true cells rows).2.length = rows.length ∧
    (((defragCore true cells rows).1.zip (defragCore true cells rows).2).filterMap entryOf).Perm
      ((cells.zip rows).filterMap entryOf) := by
  have hm := defragCore_moved true cells rows
  refine ⟨hm.1.1, hm.2, ?_⟩
  by_cases hn : cells.length = 0
  · have hc : cells = [] := List.eq_nil_of_length_eq_zero hn
    have hr : rows = [] := List.eq_nil_of_length_eq_zero (by omega)
    subst hc hr
    simp [defragCore, defragLoop]
  · have h0 : PInv cells.length ((cells.zip rows).filterMap entryOf) ⟨cells, rows, 0, 0, 0⟩ 0 := by
      refine ⟨rfl, hlen.symm, fun hp => absurd hp (by simp), ?_⟩
      rw [zip_eq_range cells rows Cell.empty default hlen, List.filterMap_map]
      exact List.Perm.refl _
    obtain ⟨d, hd⟩ := defragLoop_pinv cells.length ((cells.zip rows).filterMap entryOf) cells.length
      ⟨cells, rows, 0, 0, 0⟩ 0 (cells.length - 1) h0 (by omega)
    have hperm := hd.perm
    unfold defragCore
    simp only
    generalize defragLoop true cells.length ⟨cells, rows, 0, 0, 0⟩ 0 (cells.length - 1) = st at hd hperm
    have he : (if st.pLen > 0 then moveRows st.rows st.pSrc st.pDst st.pLen else st.rows) = eff st := rfl
    rw [he, zip_eq_range st.cells (eff st) Cell.empty default (by rw [length_eff, hd.clen, hd.rlen]),
      List.filterMap_map, hd.clen]
    exact hperm

/-! ### defragmentation compacts -/

theorem findSrc_spec (cells : List Cell) (dst src : Nat) :
    (∀ j, findSrc cells dst src < j → j ≤ src → (cells.getD j Cell.empty).seqs = []) ∧
    (dst < findSrc cells dst src → (cells.getD (findSrc cells dst src) Cell.empty).seqs ≠ []) := by
  induction src with
  | zero => exact ⟨fun j h1 h2 => by simp [findSrc] at h1; omega, fun h => by simp [findSrc] at h⟩
  | succ s ih =>
    unfold findSrc
    split
    · split
      · rename_i h1 h2
        exact ⟨fun j hj1 hj2 => by omega, fun _ => h2⟩
      · rename_i h1 h2
        refine ⟨fun j hj1 hj2 => ?_, ih.2⟩
        by_cases hj : j = s + 1
        · subst hj; simpa using h2
        · exact ih.1 j hj1 (by omega)
    · exact ⟨fun j hj1 hj2 => by omega, fun h => by omega⟩

theorem defragLoop_exit (fix : Bool) (fuel : Nat) (st : DS) (dst src : Nat) (h : ¬ dst < src) :
    defragLoop fix fuel st dst src = st := by
  cases fuel with
  | zero => rfl
  | succ f => unfold defragLoop; simp [h]

/-- owned cells first, then only unowned ones -/
def Compact (cells : List Cell) : Prop :=
  ∃ m, (∀ j, j < m → (cells.getD j Cell.empty).seqs ≠ []) ∧
       (∀ j, m ≤ j → j < cells.length → (cells.getD j Cell.empty).seqs = [])

structure CInv (n : Nat) (st : DS) (dst src : Nat) : Prop where
  clen : st.cells.length = n
  low : ∀ j, j < dst → (st.cells.getD j Cell.empty).seqs ≠ []
  high : ∀ j, src < j → j < n → (st.cells.getD j Cell.empty).seqs = []

theorem compact_of_exit (n : Nat) (st : DS) (dst src : Nat) (h : CInv n st dst src) (hx : src ≤ dst) :
    Compact st.cells := by
  by_cases ho : (st.cells.getD dst Cell.empty).seqs = []
  · refine ⟨dst, h.low, fun j hj1 hj2 => ?_⟩
    by_cases hj : j = dst
    · subst hj; exact ho
    · exact h.high j (by omega) (by rw [← h.clen]; exact hj2)
  · refine ⟨dst + 1, fun j hj => ?_, fun j hj1 hj2 => h.high j (by omega) (by rw [← h.clen]; exact hj2)⟩
    by_cases hj' : j = dst
    · subst hj'; exact ho
    · exact h.low j (by omega)

theorem fillHole_cells (fix : Bool) (st : DS) (dst s : Nat) :
    (fillHole fix st dst s).cells = holeCells st.cells dst s ∨
    (dst = st.pDst + st.pLen ∧ (fillHole fix st dst s).cells = rotateIn (holeCells st.cells dst s) st.pDst dst) := by
  unfold fillHole
  simp only
  split
  · split
    · split
      · rename_i h; exact Or.inr ⟨h.2, rfl⟩
      · exact Or.inl rfl
    · split
      · exact Or.inl rfl
      · exact Or.inl rfl
  · exact Or.inl rfl

theorem fillHole_cinv (fix : Bool) (n : Nat) (st : DS) (dst src s : Nat) (h : CInv n st dst src)
    (hds : dst < s) (hss : s ≤ src) (hsn : src < n)
    (hown : (st.cells.getD s Cell.empty).seqs ≠ [])
    (hgap : ∀ j, s < j → j ≤ src → (st.cells.getD j Cell.empty).seqs = []) :
    CInv n (fillHole fix st dst s) (dst + 1) s := by
  have hH : (holeCells st.cells dst s).length = n := by rw [holeCells_length, h.clen]
  have hlowH : ∀ j, j < dst + 1 → ((holeCells st.cells dst s).getD j Cell.empty).seqs ≠ [] := by
    intro j hj
    by_cases hjd : j = dst
    · subst hjd; rw [holeCells_dst _ _ _ hds (by rw [h.clen]; omega)]; exact hown
    · rw [holeCells_other _ _ _ _ hjd (by omega)]; exact h.low j (by omega)
  have hhighH : ∀ j, s < j → j < n → ((holeCells st.cells dst s).getD j Cell.empty).seqs = [] := by
    intro j hj1 hj2
    rw [holeCells_other _ _ _ _ (by omega) (by omega)]
    by_cases hjs : j ≤ src
    · exact hgap j hj1 hjs
    · exact h.high j (by omega) hj2
  rcases fillHole_cells fix st dst s with hc | ⟨hd, hc⟩
  · exact ⟨by rw [hc]; exact hH, by rw [hc]; exact hlowH, by rw [hc]; exact hhighH⟩
  · refine ⟨by rw [hc]; simp [rotateIn, length_mapFrom, hH], ?_, ?_⟩
    · intro j hj
      rw [hc, getD_rotateIn _ _ _ _ (by omega)]
      split
      · exact hlowH dst (by omega)
      · split
        · exact hlowH (j - 1) (by omega)
        · exact hlowH j hj
    · intro j hj1 hj2
      rw [hc, getD_rotateIn _ _ _ _ (by omega), if_neg (by omega), if_neg (by omega)]
      exact hhighH j hj1 hj2

theorem defragLoop_compact (fix : Bool) (n fuel : Nat) (st : DS) (dst src : Nat)
    (h : CInv n st dst src) (hsrc : src < n) (hf : n ≤ dst + fuel) :
    Compact (defragLoop fix fuel st dst src).cells := by
  induction fuel generalizing st dst src with
  | zero => exact compact_of_exit n st dst src h (by omega)
  | succ f ih =>
    unfold defragLoop
    split
    · rename_i hlt
      split
      · rename_i hhole
        simp only
        have hle := findSrc_le st.cells dst src
        have hsp := findSrc_spec st.cells dst src
        split
        · rename_i hgt
          exact ih _ _ _ (fillHole_cinv fix n st dst src _ h hgt hle hsrc (hsp.2 hgt) hsp.1) (by omega) (by omega)
        · rename_i hngt
          rw [defragLoop_exit _ _ _ _ _ (by omega)]
          refine ⟨dst, h.low, fun j hj1 hj2 => ?_⟩
          by_cases hj : j = dst
          · subst hj; exact hhole
          · by_cases hjs : j ≤ src
            · exact hsp.1 j (by omega) hjs
            · exact h.high j (by omega) (by rw [← h.clen]; exact hj2)
      · rename_i hown
        refine ih _ _ _ ⟨h.clen, fun j hj => ?_, h.high⟩ hsrc (by omega)
        by_cases hj' : j = dst
        · subst hj'; exact hown
        · exact h.low j (by omega)
    · exact compact_of_exit n st dst src h (by omega)

/-- **Defragmentation compacts** (pinned and repaired coalescing): afterwards every owned cell lies
    before every unowned one -/
theorem defragCore_compact (fix : Bool) (cells : List Cell) (rows : List Row) :
    Compact (defragCore fix cells rows).1 := by
  unfold defragCore
  simp only
  by_cases hn : cells.length = 0
  · have hc : cells = [] := List.eq_nil_of_length_eq_zero hn
    subst hc
    exact ⟨0, fun j hj => by omega, fun j _ hj => by simp [defragLoop] at hj⟩
  · exact defragLoop_compact fix cells.length cells.length ⟨cells, rows, 0, 0, 0⟩ 0 (cells.length - 1)
      ⟨rfl, fun j hj => by omega, fun j hj1 hj2 => by omega⟩ (by omega) (by omega)

/-! ### a compact cache rejects a batch only when it has fewer free cells than tokens -/

def freeCount (cells : List Cell) : Nat := (cells.filter (fun c => decide (c.seqs = []))).length

theorem compact_split (cells : List Cell) (h : Compact cells) :
    ∃ l r, cells = l ++ r ∧ (∀ x ∈ l, x.seqs ≠ []) ∧ (∀ x ∈ r, x.seqs = []) := by
  obtain ⟨m, h1, h2⟩ := h
  refine ⟨cells.take m, cells.drop m, (List.take_append_drop m cells).symm, ?_, ?_⟩
  · intro x hx
    obtain ⟨j, hj, rfl⟩ := List.mem_take_iff_getElem.mp hx
    have hj' : j < cells.length := by omega
    have := h1 j (by omega)
    simpa [List.getD_eq_getElem?_getD, List.getElem?_eq_getElem hj'] using this
  · intro x hx
    obtain ⟨j, hj, rfl⟩ := List.mem_drop_iff_getElem.mp hx
    have hj' : m + j < cells.length := by omega
    have := h2 (m + j) (by omega) hj'
    simpa [List.getD_eq_getElem?_getD, List.getElem?_eq_getElem hj'] using this

theorem findStartFrom_owned (k : Nat) (l r : List Cell) (i start count : Nat)
    (hl : ∀ x ∈ l, x.seqs ≠ []) (hne : l ≠ []) :
    findStartFrom k (l ++ r) i start count = findStartFrom k r (i + l.length) (i + l.length) 0 := by
  induction l generalizing i start count with
  | nil => exact absurd rfl hne
  | cons x xs ih =>
    simp only [List.cons_append, findStartFrom, hl x (by simp), if_false]
    by_cases hxs : xs = []
    · subst hxs; simp
    · rw [ih (i + 1) (i + 1) 0 (fun y hy => hl y (by simp [hy])) hxs]
      simp only [List.length_cons]
      rw [show i + 1 + xs.length = i + (xs.length + 1) by omega]

theorem findStartFrom_free (k : Nat) (r : List Cell) (i start count : Nat)
    (hr : ∀ x ∈ r, x.seqs = []) (hk : k ≤ count + r.length) (hne : r ≠ []) :
    findStartFrom k r i start count = some start := by
  induction r generalizing i count with
  | nil => exact absurd rfl hne
  | cons x xs ih =>
    simp only [findStartFrom, hr x (by simp), if_true]
    split
    · rfl
    · rename_i hlt
      apply ih (i + 1) (count + 1) (fun y hy => hr y (by simp [hy])) (by simp at hk; omega)
      intro hxs; subst hxs; simp at hk; omega

theorem freeCount_split (l r : List Cell) (hl : ∀ x ∈ l, x.seqs ≠ []) (hr : ∀ x ∈ r, x.seqs = []) :
    freeCount (l ++ r) = r.length := by
  unfold freeCount
  rw [List.filter_append]
  have h1 : l.filter (fun c => decide (c.seqs = [])) = [] := by
    rw [List.filter_eq_nil_iff]; intro x hx; simpa using hl x hx
  have h2 : r.filter (fun c => decide (c.seqs = [])) = r := by
    rw [List.filter_eq_self]; intro x hx; simpa using hr x hx
  rw [h1, h2]; simp

/-- in a compact cache `findStartLoc` fails only if there are fewer free cells than tokens -/
theorem findStart_compact_none (cells : List Cell) (k : Nat) (hk : 0 < k) (hc : Compact cells)
    (h : findStart cells k = none) : freeCount cells < k := by
  obtain ⟨l, r, rfl, hl, hr⟩ := compact_split cells hc
  rw [freeCount_split l r hl hr]
  by_cases hlt : r.length < k
  · exact hlt
  · exfalso
    have hrne : r ≠ [] := by intro h0; subst h0; simp at hlt; omega
    unfold findStart at h
    by_cases hl0 : l = []
    · subst hl0
      rw [List.nil_append, findStartFrom_free k r 0 0 0 hr (by omega) hrne] at h
      cases h
    · rw [findStartFrom_owned k l r 0 0 0 hl hl0, findStartFrom_free k r _ _ 0 hr (by omega) hrne] at h
      cases h

theorem length_abs_zip (cells : List Cell) (rows : List Row) (h : cells.length = rows.length) :
    ((cells.zip rows).filterMap entryOf).length + freeCount cells = cells.length := by
  induction cells generalizing rows with
  | nil => simp [freeCount]
  | cons c cs ih =>
    cases rows with
    | nil => simp at h
    | cons r rs =>
      have := ih rs (by simpa using h)
      unfold freeCount at this ⊢
      by_cases hc : c.seqs = []
      · simp only [List.zip_cons_cons, List.filterMap_cons, entryOf, hc, if_true, List.filter_cons, decide_true,
          List.length_cons]
        omega
      · simp only [List.zip_cons_cons, List.filterMap_cons, entryOf, hc, if_false, List.filter_cons, decide_false,
          List.length_cons]
        simp only [Bool.false_eq_true, if_false]
        omega

/-- the repaired defragmentation keeps the number of free cells -/
theorem defragCore_freeCount (cells : List Cell) (rows : List Row) (hlen : cells.length = rows.length) :
    freeCount (defragCore true cells rows).1 = freeCount cells := by
  obtain ⟨h1, h2, hp⟩ := defragCore_perm cells rows hlen
  have a := length_abs_zip (defragCore true cells rows).1 (defragCore true cells rows).2 (by omega)
  have b := length_abs_zip cells rows hlen
  have := hp.length_eq
  omega

/-! ### defrag's block copies only write rows that were in the cache -/

theorem mem_moveRowsFrom (old : List Row) (src dst len i : Nat) (rows : List Row) :
    ∀ x ∈ moveRowsFrom old src dst len i rows, x ∈ old ∨ x ∈ rows := by
  induction rows generalizing i with
  | nil => intro x hx; simp [moveRowsFrom] at hx
  | cons r rs ih =>
    intro x hx
    simp only [moveRowsFrom, List.mem_cons] at hx
    rcases hx with hx | hx
    · subst hx
      split
      · rcases getD_mem_or old (src + (i - dst)) r with h | h
        · right; rw [h]; simp
        · left; exact h
      · right; simp
    · rcases ih (i + 1) x hx with h | h
      · left; exact h
      · right; simp [h]

theorem mem_moveRows (rows : List Row) (src dst len : Nat) : ∀ x ∈ moveRows rows src dst len, x ∈ rows := by
  intro x hx
  rcases mem_moveRowsFrom rows src dst len 0 rows x hx with h | h <;> exact h

theorem fillHole_rows_sub (fix : Bool) (st : DS) (dst s : Nat) : ∀ x ∈ (fillHole fix st dst s).rows, x ∈ st.rows := by
  intro x hx
  unfold fillHole at hx
  simp only at hx
  split at hx
  · split at hx
    · split at hx
      · exact hx
      · exact mem_moveRows _ _ _ _ x hx
    · split at hx
      · exact hx
      · exact mem_moveRows _ _ _ _ x hx
  · exact hx

theorem defragLoop_rows_sub (fix : Bool) (fuel : Nat) (st : DS) (dst src : Nat) :
    ∀ x ∈ (defragLoop fix fuel st dst src).rows, x ∈ st.rows := by
  induction fuel generalizing st dst src with
  | zero => intro x hx; exact hx
  | succ f ih =>
    intro x hx
    unfold defragLoop at hx
    split at hx
    · split at hx
      · simp only at hx
        split at hx
        · exact fillHole_rows_sub fix st dst _ x (ih _ _ _ x hx)
        · exact ih _ _ _ x hx
      · exact ih _ _ _ x hx
    · exact hx

/-- defrag's block copies only ever write rows that were in the cache -/
theorem defragCore_rows_sub (fix : Bool) (cells : List Cell) (rows : List Row) :
    ∀ x ∈ (defragCore fix cells rows).2, x ∈ rows := by
  intro x hx
  unfold defragCore at hx
  simp only at hx
  split at hx
  · exact defragLoop_rows_sub fix _ _ _ _ x (mem_moveRows _ _ _ _ x hx)
  · exact defragLoop_rows_sub fix _ _ _ _ x hx

theorem eq_of_all_default (l1 l2 : List Row) (hlen : l1.length = l2.length)
    (h1 : ∀ x ∈ l1, x = default) (h2 : ∀ x ∈ l2, x = default) : l1 = l2 := by
  rw [List.eq_replicate_iff.mpr ⟨rfl, h1⟩, List.eq_replicate_iff.mpr ⟨rfl, h2⟩, hlen]

end OllamaVerif.Causal
